(* C11/DispatchTable.v — what the table operations (mpt_command_set, mpt_dispatch_set,
   mpt_command_reserve + arming) do to the live entries of the table, for every table:
   the entries afterwards are a permutation of the map operation applied to the
   entries before; no store leaves the used range; the low id search terminates;
   a reserved id is in range and not live. *)
From MptV Require Import Base.Mem C17.MessageModel C11.DispatchModel C11.DispatchSpec
  C11.DispatchLemmas C11.DispatchCompact.
From Coq Require Import Permutation.
Local Open Scope nat_scope.

Definition regl (c : option fn) (r : N) : list lentry := match c with Some _ => [LReg r] | None => [] end.
Definition ins (c : option fn) (id a r : N) (m : list (N * hdl)) : list (N * hdl) :=
  match c with Some f => (id, mkh f a r) :: m | None => m end.

Lemma entries_slot id c a r : entry (mkslot id c a r) = ins c id a r [].
Proof. destruct c; reflexivity. Qed.

Lemma cmd_get_some_tbl t id pos s : cmd_get t id = Some (pos, s) -> exists tb, t = Some tb.
Proof. destruct t; [eauto|discriminate]. Qed.

(* ---------------------------------------------------------------- mpt_command_set *)
Lemma command_set_spec t id c a r :
  match m_lookup (entries t) id with
  | Some h =>
    exists tb', command_set t id c a r
                = Ok (tb', match c with Some _ => 0%Z | None => 2%Z end, fin_of h :: regl c r)
      /\ Permutation (entries (Some tb')) (ins c id a r (m_remove (entries t) id))
  | None =>
    exists tb' ret, command_set t id c a r = Ok (tb', ret, regl c r)
      /\ (ret = 0%Z \/ ret = 1%Z)
      /\ Permutation (entries (Some tb')) (ins c id a r (entries t))
  end.
Proof.
  rewrite cmd_get_lookup. unfold command_set. fold (regl c r).
  destruct (cmd_get t id) as [[pos s]|] eqn:G.
  - destruct (cmd_get_some_tbl _ _ _ _ G) as [tb ->]. cbn [cmd_get] in G.
    apply cmd_find_some in G. destruct G as (l1 & l2 & El & -> & L & <- & N1).
    destruct (entry_live s L) as (h & Eh & Ee). rewrite Eh. cbn [Nat.add].
    rewrite El, put_at. cbn [bind].
    eexists. split.
    + unfold fin_slot. rewrite Eh. reflexivity.
    + unfold entries, tslots. cbn [slots]. rewrite El.
      rewrite !entries_app. cbn [flat_map]. rewrite Ee, entries_slot. cbn [app].
      rewrite m_remove_app by (apply no_live_id_keys; exact N1).
      destruct c; cbn [ins app]; [symmetry; apply Permutation_middle|reflexivity].
  - destruct t as [tb|].
    + cbn [cmd_get] in G.
      destruct (if length (slots tb) =? 0 then None else cmd_empty (slots tb) 0) as [pos|] eqn:Ee.
      * destruct (length (slots tb) =? 0); [discriminate|].
        apply cmd_empty_some in Ee. destruct Ee as (l1 & s & l2 & El & -> & L & _).
        cbn [Nat.add]. rewrite El, put_at. cbn [bind].
        eexists. exists 0%Z. split; [reflexivity|]. split; [left; reflexivity|].
        unfold entries, tslots. cbn [slots]. rewrite El, !entries_app. cbn [flat_map].
        destruct (entry_dead s L) as (-> & _). rewrite entries_slot. cbn [app].
        destruct c; cbn [ins app]; [symmetry; apply Permutation_middle|reflexivity].
      * eexists. exists 1%Z. split; [reflexivity|]. split; [right; reflexivity|].
        unfold entries, tslots. cbn [slots]. rewrite entries_app. cbn [flat_map].
        rewrite entries_slot, app_nil_r.
        destruct c; cbn [ins]; [symmetry; apply Permutation_cons_append|rewrite app_nil_r; reflexivity].
    + eexists. exists 1%Z. split; [reflexivity|]. split; [right; reflexivity|].
      unfold entries, tslots. cbn [slots flat_map]. rewrite entries_slot, app_nil_r.
      destruct c; reflexivity.
Qed.

(* ---------------------------------------------------------------- mpt_dispatch_set *)
Lemma dispatch_set_reg t id f a r :
  match m_lookup (entries t) id with
  | Some _ => dispatch_set t id (Some f) a r = Ok (t, (-1)%Z, [])
  | None =>
    exists tb' ret, dispatch_set t id (Some f) a r = Ok (Some tb', ret, [LReg r])
      /\ (ret = 0%Z \/ ret = 1%Z)
      /\ Permutation (entries (Some tb')) ((id, mkh f a r) :: entries t)
  end.
Proof.
  pose proof (command_set_spec t id (Some f) a r) as CS.
  rewrite cmd_get_lookup in *. unfold dispatch_set.
  destruct (cmd_get t id) as [[pos s]|] eqn:G.
  - destruct (cmd_find_live_hdl (tslots t) id 0 pos s) as [h Eh].
    { destruct t; [exact G|discriminate]. }
    rewrite Eh. reflexivity.
  - destruct CS as (tb' & ret & E & R & P). exists tb', ret. rewrite E. cbn [bind].
    split; [reflexivity|]. split; assumption.
Qed.

Lemma dispatch_set_clear t id a r :
  match m_lookup (entries t) id with
  | Some h =>
    exists tb' pos, dispatch_set t id None a r = Ok (Some tb', Z.of_nat pos, [fin_of h])
      /\ entries (Some tb') = m_remove (entries t) id
  | None => dispatch_set t id None a r = Ok (t, (-1)%Z, [])
  end.
Proof.
  rewrite cmd_get_lookup. unfold dispatch_set.
  destruct (cmd_get t id) as [[pos s]|] eqn:G.
  - destruct (cmd_get_some_tbl _ _ _ _ G) as [tb ->]. cbn [cmd_get] in G.
    apply cmd_find_some in G. destruct G as (l1 & l2 & El & -> & L & <- & N1).
    destruct (entry_live s L) as (h & Eh & Ee). rewrite Eh. cbn [Nat.add].
    rewrite El, put_at. cbn [bind]. eexists. eexists. split.
    + unfold fin_slot. rewrite Eh. reflexivity.
    + unfold entries, tslots. cbn [slots]. rewrite El, !entries_app. cbn [flat_map].
      rewrite Ee, entry_mk_dead. cbn [app].
      rewrite m_remove_app by (apply no_live_id_keys; exact N1). reflexivity.
  - destruct t; reflexivity.
Qed.

(* ---------------------------------------------------------------- mpt_command_reserve *)
Lemma filter_live_idem l : filter live (filter live l) = filter live l.
Proof.
  induction l as [|s l IH]; [reflexivity|]. cbn [filter]. destruct (live s) eqn:E; [|exact IH].
  cbn [filter]. rewrite E, IH. reflexivity.
Qed.

Lemma reserve_max_pos max : max <> 0%N -> (1 <= reserve_max max)%N.
Proof.
  intros H. unfold reserve_max.
  destruct max as [|p]; [congruence|].
  destruct p as [[[q|q|]|[q|q|]|]|[[q|q|]|[q|q|]|]|]; vm_compute; discriminate.
Qed.

Lemma no_live_id_above l id : (forall x, In x l -> (sid x < id)%N) -> no_live_id l id.
Proof.
  intros H x Hx. apply H in Hx. destruct (N.eqb_spec id (sid x)); [lia|]. apply andb_false_r.
Qed.

(* mpt_command_reserve followed by the arming store of the caller (one OReserve step) *)
Definition reserve_arm (t : option table) (max r : N) : res (option table * option (nat * N)) :=
  do '(t', rr) <- command_reserve t max;
  match rr, t' with
  | RSlot pos id, Some tb =>
    do sl <- put (slots tb) pos (mkslot id (Some FUser) r r);
    Ok (Some (mktable (typed tb) sl), Some (pos, id))
  | RSlot _ _, None => Fault
  | RNone, _ => Ok (t', None)
  | RFuel, _ => Fault
  end.

Lemma command_reserve_spec t max r :
  exists t' rr, command_reserve t max = Ok (t', rr) /\ rr <> RFuel /\
  match rr with
  | RSlot pos id =>
    exists t2, reserve_arm t max r = Ok (Some t2, Some (pos, id))
      /\ Permutation (entries (Some t2)) ((id, mkh FUser r r) :: entries t)
      /\ (1 <= id <= reserve_max max)%N /\ max <> 0%N
      /\ m_lookup (entries t) id = None
  | _ => reserve_arm t max r = Ok (t', None) /\ entries t' = entries t
         /\ (max = 0%N \/ ids_exhausted (entries t) (reserve_max max) = true)
  end.
Proof.
  unfold reserve_arm, command_reserve.
  destruct (N.eqb_spec max 0) as [->|Hmax].
  { exists t, RNone. cbn [bind]. split; [reflexivity|]. split; [discriminate|].
    split; [reflexivity|]. split; [reflexivity|left; reflexivity]. }
  destruct t as [tb|].
  2:{ eexists. eexists. split; [reflexivity|]. split; [discriminate|].
      cbn [bind slots typed]. unfold put. cbn [length repeat Nat.ltb Nat.leb firstn skipn app].
      eexists. split; [reflexivity|]. split; [reflexivity|].
      split; [split; [lia|apply reserve_max_pos; exact Hmax]|]. split; [exact Hmax|reflexivity]. }
  destruct (compact_spec (slots tb)) as (D' & Ec & Hlen).
  rewrite Ec. cbn [bind].
  set (lv := filter live (slots tb)) in *.
  assert (Er : rdslots (lv ++ D') 0 (length lv) = Ok lv).
  { rewrite rdslots_ok by (rewrite app_length; lia). cbn [skipn].
    rewrite firstn_app, Nat.sub_diag, firstn_all. cbn [firstn]. rewrite app_nil_r. reflexivity. }
  rewrite Er. cbn [bind].
  assert (Een : flat_map entry lv = entries (Some tb)) by (apply entries_filter).
  set (mid := maxid (slots tb) 0%N).
  set (mx := reserve_max max).
  destruct (if (mx <=? mid)%N then find_free (S (length lv)) lv 1%N mx else FFound (mid + 1)%N) as [id| |] eqn:Ef.
  - (* an id was found *)
    assert (Hid : (1 <= id <= mx)%N /\ no_live_id lv id).
    { destruct (N.leb_spec mx mid) as [Hle|Hlt].
      - apply find_free_found in Ef. destruct Ef as [R1 R2]. split; [exact R1|]. eapply cmd_find_none; exact R2.
      - inversion Ef; subst id. split; [lia|].
        apply no_live_id_above. intros x Hx. unfold lv in Hx. apply filter_In in Hx.
        destruct (maxid_ge (slots tb) 0%N) as [_ M]. pose proof (M x (proj1 Hx)). fold mid in H. lia. }
    destruct Hid as [R1 R2].
    eexists. eexists. split; [reflexivity|]. split; [discriminate|].
    cbn [bind slots typed]. rewrite put_at. cbn [bind].
    eexists. split; [reflexivity|].
    split.
    { unfold entries at 1, tslots. cbn [slots]. rewrite entries_app. cbn [flat_map].
      rewrite entry_mk, app_nil_r, Een. symmetry. apply Permutation_cons_append. }
    split; [exact R1|]. split; [exact Hmax|].
    apply m_lookup_notin. rewrite <- Een. apply no_live_id_keys. exact R2.
  - eexists. exists RNone. split; [reflexivity|]. split; [discriminate|].
    split; [reflexivity|]. split; [unfold entries at 1, tslots; cbn [slots]; exact Een|].
    right. apply ids_exhausted_intro. intros k Hk.
    destruct (mx <=? mid)%N; [|discriminate].
    destruct (find_free_none _ _ _ _ Ef k Hk) as (p & s & Ec').
    rewrite <- Een, (lookup_entries lv k 0), Ec'.
    destruct (cmd_find_live_hdl _ _ _ _ _ Ec') as [h ->]. reflexivity.
  - exfalso.
    destruct (mx <=? mid)%N; [|discriminate].
    apply (find_free_fuel (S (length lv)) lv 1%N mx []) in Ef; [exact Ef|constructor|intros k []|].
    unfold lv. rewrite filter_live_idem. cbn [length]. lia.
Qed.
