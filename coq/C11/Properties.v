(* C11 — Event dispatch reaches exactly the registered handler.
   This file holds only the property theorems (each closed by [exact] of a lemma
   proved elsewhere), their non-vacuity examples and Print Assumptions.

   Reading guide.
   * [disp] (C11/DispatchModel.v) is the dispatcher as the C keeps it: the command
     table (slots (id, cmd, arg), unused slots, typed/raw buffer), [_def], [_err],
     [_ctx].  [dstep d o] transcribes one library call ([op]): mpt_dispatch_set,
     mpt_command_set/get/clear/reserve (+ arming), mpt_dispatch_emit/hash/fini,
     dispatch::set_error/set_default.  Handlers are abstract: what the harness handler
     returns is the [resp] carried by the operation.  Every step returns its log delta:
     [LReg r] registration r went live, [LCall r f a (Some view)] invocation with an
     event, [LCall r f a None] end-of-life call cmd(arg, NULL), [LReply], [LUnref].
     The registration number r of whatever an operation registers is the number of
     that operation in the history (ghost counter), so registrations are told apart.
   * [sdisp] (C11/DispatchSpec.v) is the specification state: an association list
     id -> handler without repeated ids, the fallback handler, the default id, the
     fallback reply context.  [sstep] are plain map operations.
   * [dfinal dinit ops] / [sfinal dinit sinit ops]: the model / specification state
     after the history [ops] on a fresh dispatcher (mpt_dispatch_init); [full_log ops]
     the whole log.  ALL theorems quantify over every history: no bound on its length,
     on the table size or on the ids (2^64 wrap-around is modelled in djb2 only; the
     id choice of reserve cannot wrap after fix 21b24df).
   * [OArr] makes the table the default constructed C++ command::array (shared empty
     content with command traits, as the member io::stream::_wait); [OAux a] are the
     calls beside the dispatcher ([aux]): mpt_hash_djb2 with both length conventions,
     the default handler of a reserved slot, reply_data::set, reply_context::defer /
     pointer_traits, the built-in fallback handler called directly.  [aux_run] is the
     transcription on checked storage, [aux_spec] the statement on flat data.
   * The model is the code AFTER docs/C11_reserve_typed.diff (mpt_command_reserve on a
     table with command traits) and docs/C11_dispatch_copy.diff (no copy of a dispatcher). *)
From MptV Require Import Base.Mem C17.MessageModel C17.MessageSpec
  C11.DispatchModel C11.DispatchSpec C11.DispatchLemmas C11.DispatchCompact C11.DispatchTable
  C11.DispatchEvent C11.DispatchAux C11.DispatchRefine C11.DispatchLog C11.DispatchHistory.
From Coq Require Import Permutation.

(* ---- refinement: slot table -> finite map ------------------------------------ *)
(* One operation from related states ([R]: the live table entries are a permutation of
   the map, other fields equal, no id twice): the states are related again, the
   property-level output is the specification's, the log deltas agree up to the order
   in which several finalisers run, the specification accepts the implementation's
   choices (reserved id, refusal of a long unaligned command), no table access is out
   of range, the low-id search of reserve terminates. *)
Theorem C11_step_refines_map :
  forall d s o, R d s ->
    let '(d', out, lg) := dstep d o in
    let '(s', so, slg) := sstep s o (advice d o) in
    R d' s' /\ proj_out o out = so /\ Permutation lg slg /\ so <> SBad /\ out <> OFault /\ out <> OFuel.
Proof. exact step_refines. Qed.

(* Any history on a fresh dispatcher. *)
Theorem C11_history_refines_map :
  forall ops,
    Forall2 obs_eqv (prun dinit ops) (srun dinit sinit ops)
    /\ Forall (fun y => fst (fst y) <> SBad) (srun dinit sinit ops)
    /\ Forall (fun x => fst (fst x) <> OFault /\ fst (fst x) <> OFuel) (drun dinit ops).
Proof. exact (fun ops => run_refines ops dinit sinit R_init). Qed.

(* ---- delivery ---------------------------------------------------------------- *)
(* An event carrying id [id] (its id field, or the first byte of its message), after any
   history: exactly one handler call happens, it is the invocation of the handler the
   specification map holds for [id], with that id, and with the event's reply context or
   else the dispatcher's. *)
Theorem C11_emit_reaches_registered :
  forall ops e rsp id h,
    let d := dfinal dinit ops in
    let s := sfinal dinit sinit ops in
    event_id e = Some id ->
    m_lookup (s_map s) id = Some h ->
    calls_in (snd (dstep d (OEmit (Some e) rsp))) = [call_of h id (is_some (e_msg e)) (seen_reply s e)].
Proof. exact emit_registered. Qed.

(* No handler registered for the id: the fallback handler is the one and only call;
   without fallback nobody is called and the result is BadArgument. *)
Theorem C11_emit_fallback_otherwise :
  forall ops e rsp id,
    let d := dfinal dinit ops in
    let s := sfinal dinit sinit ops in
    event_id e = Some id ->
    m_lookup (s_map s) id = None ->
    match s_fb s with
    | Some h => calls_in (snd (dstep d (OEmit (Some e) rsp))) = [call_of h id (is_some (e_msg e)) (seen_reply s e)]
    | None => calls_in (snd (dstep d (OEmit (Some e) rsp))) = []
              /\ snd (fst (dstep d (OEmit (Some e) rsp))) = OEv (-1) (Some id) (seen_reply s e)
    end.
Proof. exact emit_fallback. Qed.

(* An empty message carries no id: nobody is called, BadValue. *)
Theorem C11_emit_empty_message :
  forall ops e rsp,
    let d := dfinal dinit ops in
    event_id e = None ->
    dstep d (OEmit (Some e) rsp) = (tick d, OEv (-2) (Some (e_id e)) (e_reply e), []).
Proof. exact emit_empty_message. Qed.

(* The NULL event runs the default id; a default id nobody is registered for is dropped. *)
Theorem C11_emit_null_event :
  forall ops rsp,
    let d := dfinal dinit ops in
    let s := sfinal dinit sinit ops in
    let '(d', out, lg) := dstep d (OEmit None rsp) in
    if (d_def d =? 0)%N then lg = [] /\ out = OEv 0 None None /\ d_def d' = 0%N
    else match m_lookup (s_map s) (d_def d) with
         | None => lg = [] /\ out = OEv (-2) None None /\ d_def d' = 0%N
         | Some h => calls_in lg = [call_of h (d_def d) false (s_ctx s)]
         end.
Proof. exact emit_null. Qed.

(* Command text: the id is the djb2 hash of the first argument; the registered handler
   for it, else the fallback, else nobody. *)
Theorem C11_hash_reaches_registered :
  forall ops e rsp F raw,
    let d := dfinal dinit ops in
    let s := sfinal dinit sinit ops in
    e_msg e = Some F ->
    flat_hash_text (concat F) = inr raw ->
    a_unaligned (advice d (OHash (Some e) rsp)) = false ->
    let id := djb2 (strip0 (hash_sep (concat F)) raw) in
    let lg := snd (dstep d (OHash (Some e) rsp)) in
    match s_target s id with
    | Some h => calls_in lg = [call_of h id true (e_reply e)]
    | None => calls_in lg = []
    end.
Proof. exact hash_reaches. Qed.

(* The text that is hashed is the first argument as it stands: the removal of a trailing NUL in
   dispatch_hash.c never applies (with separator 0 the argument ends before the first NUL), so the
   id above is djb2 raw for every message. *)
Theorem C11_hash_text_is_first_argument :
  forall s raw, flat_hash_text s = inr raw -> strip0 (hash_sep s) raw = raw.
Proof. exact hash_strip_dead. Qed.

(* ---- default-event bookkeeping ----------------------------------------------- *)
(* [ret], [id']: what handler h returned and the id it left in the event ([s_invoke] is
   the scripted answer for the harness handler, the built-in unknownEvent otherwise).
   Error: _def untouched, error returned.  Default flag set: _def := id' (0 removes it).
   Not set: _def untouched.  The result carries Default iff a default id exists. *)
Theorem C11_default_bookkeeping :
  forall ops e rsp id h,
    let d := dfinal dinit ops in
    let s := sfinal dinit sinit ops in
    event_id e = Some id ->
    s_target s id = Some h ->
    let rp := seen_reply s e in
    let '(ret, id', _) := s_invoke h id (option_map (@concat byte) (e_msg e)) rp rsp in
    let '(d', out, _) := dstep d (OEmit (Some e) rsp) in
    if (ret <? 0)%Z then d_def d' = d_def d /\ out = OEv ret (Some id') rp
    else if Z.testbit ret 0
         then d_def d' = id' /\ out = OEv (if (id' =? 0)%N then clr_default ret else set_default (clr_default ret)) (Some id') rp
         else d_def d' = d_def d /\ out = OEv (if (d_def d =? 0)%N then ret else set_default ret) (Some id') rp.
Proof. exact emit_bookkeeping. Qed.

(* ---- end-of-life notifications ----------------------------------------------- *)
(* In the log of any history: no registration number is registered twice; a registered
   one has had exactly one finaliser call or is still held (table or fallback), never
   both, never two; a number that was not registered is never finalised, held or
   invoked; an invocation comes after its registration and before its finaliser. *)
Theorem C11_finalised_exactly_once :
  forall ops,
    let log := full_log ops in
    let held := live_regs (abs (dfinal dinit ops)) in
    NoDup (regs_of log)
    /\ (forall r, In r (regs_of log) ->
          count_occ N.eq_dec (fins_of log) r + count_occ N.eq_dec held r = 1)
    /\ (forall r, ~ In r (regs_of log) ->
          ~ In r (fins_of log) /\ ~ In r held /\ ~ In r (calls_of log))
    /\ ordered log.
Proof. exact finalised_once. Qed.

(* After teardown nothing is held: every registration ever made has been finalised
   exactly once. *)
Theorem C11_finalised_after_fini :
  forall ops,
    let log := full_log (ops ++ [OFini]) in
    Permutation (regs_of log) (fins_of log) /\ NoDup (fins_of log).
Proof. exact finalised_after_fini. Qed.

(* ---- ids ----------------------------------------------------------------------- *)
(* No id is live twice in the table, after any history. *)
Theorem C11_live_ids_unique :
  forall ops, NoDup (map fst (entries (d_tbl (dfinal dinit ops)))).
Proof. exact live_ids_unique. Qed.

(* mpt_command_reserve: the id handed out is not live, lies in [1, max], and is live
   afterwards; otherwise the call is refused (never a fault, never a runaway search);
   when it may be refused: next theorem. *)
Theorem C11_reserved_ids_unique :
  forall ops max,
    let d := dfinal dinit ops in
    match snd (fst (dstep d (OReserve max))) with
    | ORes (Some (pos, id)) =>
      ~ In id (map fst (entries (d_tbl d))) /\ (1 <= id <= reserve_max max)%N
      /\ In id (map fst (entries (d_tbl (fst (fst (dstep d (OReserve max)))))))
    | ORes None => True
    | _ => False
    end.
Proof. exact reserved_fresh. Qed.

(* mpt_command_reserve refuses only when it must: as long as one id of the range asked for is
   not live (and max is not 0) a slot is handed out - on a raw table, on a table made by
   mpt_command_set and on a default constructed C++ command::array alike (allocation is
   assumed to succeed). *)
Theorem C11_reserve_succeeds_while_ids_free :
  forall ops max id,
    let d := dfinal dinit ops in
    max <> 0%N -> (1 <= id <= reserve_max max)%N -> ~ In id (map fst (entries (d_tbl d))) ->
    exists pos id', snd (fst (dstep d (OReserve max))) = ORes (Some (pos, id')).
Proof. exact reserve_succeeds. Qed.

(* The in-place compaction loop of mpt_command_reserve is a stable filter, for every table. *)
Theorem C11_compaction_is_stable_filter :
  forall sl, exists D',
    compact sl = Ok (filter live sl ++ D', length (filter live sl), maxid sl 0%N)
    /\ length (filter live sl ++ D') = length sl.
Proof. exact compact_spec. Qed.

(* ---- calls beside the dispatcher ------------------------------------------------- *)
(* mpt_hash_djb2 without a length hashes the bytes before the first NUL (whatever follows
   in the storage), with a length exactly that many bytes, NUL bytes included; no read
   leaves the storage. *)
Theorem C11_djb2_cstring :
  forall s rest, hash_djb2 (Some (s ++ 0%N :: rest)) (-1) = Ok (djb2 (cstr s)).
Proof. exact hash_djb2_cstring. Qed.

Theorem C11_djb2_length :
  forall s rest, hash_djb2 (Some (s ++ rest)) (Z.of_nat (length s)) = Ok (djb2 s).
Proof. exact hash_djb2_len. Qed.

(* reply_data::set(len, data) on an object with a value area of max bytes of which cur are
   in use: refused, nothing changed, when another id is active (len and the stored length
   both non-zero) or the value is longer than the area; otherwise the area starts with the
   value and len is its length. *)
Theorem C11_reply_data_set :
  forall max cur data,
    let r := mk_rdata max cur in
    reply_data_set r (length data) (Some data)
    = Ok (if (negb (length data =? 0) && negb (rd_len r =? 0)%N) || (max <? N.of_nat (length data))%N
          then (r, false)
          else (mkrd max (N.of_nat (length data)) (data ++ skipn (length data) (rd_val r)), true)).
Proof. exact reply_data_set_spec. Qed.

(* Every call beside the dispatcher: the transcription on checked storage (fragmented
   messages, byte-wise reads, stores into the value area) never faults and yields what the
   specification on flat data says; in particular the default handler of a reserved slot
   answers 0 to every message and the built-in fallback handler is [s_unknown]. *)
Theorem C11_aux_calls_refine :
  forall a, aux_run a = Ok (aux_spec a).
Proof. exact aux_refines. Qed.

(* ---- non-vacuity ---------------------------------------------------------------- *)
Definition ev_id (i : N) : option event := Some (mkev i None None).
Definition ok0 : resp := mkresp 0 None.

(* growth to 4 slots, a freed slot reused, delivery to the re-registered handler, to the
   last table entry, to the fallback (built-in, not a harness call), then teardown:
   handler calls per operation *)
Example C11_ex_history :
  map (fun x => calls_in (snd (fst x)))
      (drun dinit [OSet 1; OSet 2; OSet 3; OSet 255; OUnset 1; OSet 4; OEmit (ev_id 4) ok0;
                   OEmit (ev_id 255) ok0; OEmit (ev_id 1) ok0; OFini]%N)
  = [[]; []; []; []; [LCall 1 FUser 1 None]; [];
     [LCall 6 FUser 6 (Some (mkview 4 false None))];
     [LCall 4 FUser 4 (Some (mkview 255 false None))];
     [LCall 0 FUnk 0 (Some (mkview 1 false None))];
     [LCall 6 FUser 6 None; LCall 2 FUser 2 None; LCall 3 FUser 3 None; LCall 4 FUser 4 None; LCall 0 FUnk 0 None]]%N.
Proof. vm_compute. reflexivity. Qed.

(* the freed first slot was reused: table after the sixth operation *)
Example C11_ex_reuse :
  option_map (fun t => map sid (slots t)) (d_tbl (dfinal dinit [OSet 1; OSet 2; OSet 3; OUnset 1; OSet 4]%N))
  = Some [4; 2; 3]%N.
Proof. vm_compute. reflexivity. Qed.

(* reserve on a raw table: first id 1, next id above all (2); with id 255 live and ids
   limited to 127 the low-id search skips the live 1 and 2 (3); after unset 1 the table
   is compacted (slot 3 again) and the freed id 1 is found *)
Example C11_ex_reserve :
  map (fun x => fst (fst x))
      (drun dinit [OReserve 1; OReserve 1; OSet 255; OReserve 1; OUnset 1; OReserve 1]%N)
  = [ORes (Some (0, 1%N)); ORes (Some (1, 2%N)); OInt 1; ORes (Some (3, 3%N)); OInt 0; ORes (Some (3, 1%N))].
Proof. vm_compute. reflexivity. Qed.

(* default bookkeeping: Default sets the default id, the NULL event runs it, a handler
   that clears the event id with Default set removes it *)
Example C11_ex_default :
  map (fun x => (fst (fst x), d_def (snd x)))
      (drun dinit [OSet 1; OEmit (ev_id 1) (mkresp 1 None); OEmit None (mkresp 4 None);
                   OEmit None (mkresp 1 (Some 0)); OEmit None ok0]%N)
  = [(OInt 1, 0); (OEv 1 (Some 1) None, 1); (OEv 5 None None, 1); (OEv 0 None None, 0); (OEv 0 None None, 0)]%N.
Proof. vm_compute. reflexivity. Qed.

(* djb2 with the signed-char xor: "go", the single byte 0xe9, "été" in UTF-8 *)
Example C11_ex_djb2 :
  (djb2 [103; 111], djb2 [233], djb2 [195; 169; 116; 195; 169])%N
  = (5860973, 18446744073709374028, 210571716113)%N.
Proof. vm_compute. reflexivity. Qed.

(* hash dispatch of the command text "\x04 go a" cut into three parts *)
Example C11_ex_hash :
  calls_in (snd (dstep (dfinal dinit [OSet 5860973%N])
                       (OHash (Some (mkev 0 (Some [[4; 32]; [103]; [111; 32; 97]]%N) None)) ok0)))
  = [LCall 1 FUser 1 (Some (mkview 5860973 true None))]%N.
Proof. vm_compute. reflexivity. Qed.

(* reserve on a table made by mpt_command_set (content traits): compaction, then the slot is
   appended (ids 3 and 4 above the stored ids 1 and 2); (typed flag, stored ids) after each operation *)
Example C11_ex_reserve_typed :
  map (fun x => (fst (fst x), option_map (fun t => (typed t, map sid (slots t))) (d_tbl (snd x))))
      (drun dinit [OSet 1; OSet 2; OUnset 1; OReserve 1; OReserve 1]%N)
  = [(OInt 1, Some (true, [1])); (OInt 1, Some (true, [1; 2])); (OInt 0, Some (true, [1; 2]));
     (ORes (Some (1%nat, 3)), Some (true, [2; 3])); (ORes (Some (2%nat, 4)), Some (true, [2; 3; 4]))]%N.
Proof. vm_compute. reflexivity. Qed.

(* the default constructed C++ command::array: reserve and registration work, teardown drops the table *)
Example C11_ex_array :
  map (fun x => (fst (fst x), option_map (fun t => (typed t, map sid (slots t))) (d_tbl (snd x))))
      (drun dinit [OArr; OReserve 1; OSet 9; OReserve 1; OFini]%N)
  = [(OVoid, Some (true, [])); (ORes (Some (0%nat, 1)), Some (true, [1])); (OInt 1, Some (true, [1; 9]));
     (ORes (Some (2%nat, 10)), Some (true, [1; 9; 10])); (OVoid, None)]%N.
Proof. vm_compute. reflexivity. Qed.

(* 127 ids of one byte: the 127th reservation gets id 127, the 128th is refused; after one is
   given back the freed id is found again *)
Example C11_ex_reserve_exhausted :
  map (fun x => fst (fst x)) (skipn 126 (drun dinit (repeat (OReserve 1%N) 128 ++ [OUnset 77; OReserve 1]%N)))
  = [ORes (Some (126, 127%N)); ORes None; OInt 76; ORes (Some (126, 77%N))].
Proof. vm_compute. reflexivity. Qed.

(* calls beside the dispatcher: "g\0o" with length 3, "go\0x" and "go" without length (same as
   C11_ex_djb2), no data; the default waiter on an Answer with code -1 cut in two parts;
   reply_data::set of [1;2] on an idle / an active object, clearing an active one, a value
   too long, zero fill *)
Example C11_ex_aux :
  map (fun a => snd (fst (dstep dinit (OAux a))))
      [ADjbLen [103; 0; 111]; ADjbStr [103; 111; 0; 120]; ADjbStr [103; 111]; ADjbNull 5;
       ALogReply (Some [[1]; [255]]); ARSet 4 [] [1; 2]; ARSet 4 [7] [1; 2]; ARSet 4 [7] [];
       ARSet 2 [] [1; 2; 3]; ARZero 4 [] 3]%N
  = [OAuxR (XHash 193408557); OAuxR (XHash 5860973); OAuxR (XHash 5860973); OAuxR (XHash 0); OAuxR (XInt 0);
     OAuxR (XRData true 2 [1; 2; 238; 238]); OAuxR (XRData false 1 [7; 238; 238; 238]);
     OAuxR (XRData true 0 [7; 238; 238; 238]); OAuxR (XRData false 0 [238; 238]);
     OAuxR (XRData true 3 [0; 0; 0; 238])]%N.
Proof. vm_compute. reflexivity. Qed.

(* the built-in fallback handler called directly on an empty message (two empty parts): no
   reply, result 0; on a message of type 9: BadOperation reply, Fail *)
Example C11_ex_unknown_direct :
  (let '(_, o, lg) := dstep dinit (OAux (AUnknown 0 (Some [[]; []]) (Some 5%N))) in (o, lg),
   let '(_, o, lg) := dstep dinit (OAux (AUnknown 0 (Some [[9%N]]) (Some 5%N))) in (o, lg))
  = ((OAuxR (XUnk 0 0), []), (OAuxR (XUnk 2 0), [LReply 5 (-4)])).
Proof. vm_compute. reflexivity. Qed.

Print Assumptions C11_step_refines_map.
Print Assumptions C11_history_refines_map.
Print Assumptions C11_emit_reaches_registered.
Print Assumptions C11_emit_fallback_otherwise.
Print Assumptions C11_emit_empty_message.
Print Assumptions C11_emit_null_event.
Print Assumptions C11_hash_reaches_registered.
Print Assumptions C11_hash_text_is_first_argument.
Print Assumptions C11_default_bookkeeping.
Print Assumptions C11_finalised_exactly_once.
Print Assumptions C11_finalised_after_fini.
Print Assumptions C11_live_ids_unique.
Print Assumptions C11_reserved_ids_unique.
Print Assumptions C11_compaction_is_stable_filter.
Print Assumptions C11_reserve_succeeds_while_ids_free.
Print Assumptions C11_djb2_cstring.
Print Assumptions C11_djb2_length.
Print Assumptions C11_reply_data_set.
Print Assumptions C11_aux_calls_refine.
