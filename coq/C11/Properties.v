(* C11 — placeholder while the pipeline is brought up; replaced by the theorems. *)
From MptV Require Import Base.Mem C11.DispatchModel C11.DispatchSpec.
Example C11_pipeline_smoke : length (drun dinit [OSet 1%N; OFini]) = 2.
Proof. reflexivity. Qed.
Print Assumptions C11_pipeline_smoke.
