(* C11/DispatchLemmas.v — list-level facts about the slot table: checked stores as
   splits, what mpt_command_find / mpt_command_empty return, the live entries of a
   table under those stores, lookups in association lists under permutation. *)
From MptV Require Import Base.Mem C17.MessageModel C11.DispatchModel C11.DispatchSpec.
From Coq Require Import Permutation.
Local Open Scope nat_scope.

(* ---------------------------------------------------------------- checked stores *)
Lemma put_at l1 s l2 s' : put (l1 ++ s :: l2) (length l1) s' = Ok (l1 ++ s' :: l2).
Proof.
  unfold put. rewrite app_length. cbn [length].
  destruct (Nat.ltb_spec (length l1) (length l1 + S (length l2))); [|lia].
  rewrite firstn_app, Nat.sub_diag, firstn_all. cbn [firstn]. rewrite app_nil_r.
  replace (S (length l1)) with (length (l1 ++ [s])) by (rewrite app_length; cbn; lia).
  replace (l1 ++ s :: l2) with ((l1 ++ [s]) ++ l2) by (rewrite <- app_assoc; reflexivity).
  rewrite skipn_app, Nat.sub_diag, skipn_all. reflexivity.
Qed.

Lemma put_inv l pos s' l' : put l pos s' = Ok l' ->
  exists l1 s l2, l = l1 ++ s :: l2 /\ length l1 = pos /\ l' = l1 ++ s' :: l2.
Proof.
  unfold put. destruct (Nat.ltb_spec pos (length l)) as [H|H]; [|discriminate].
  intros E; inversion E; subst; clear E.
  destruct (nth_error l pos) as [s|] eqn:En.
  2:{ apply nth_error_None in En. lia. }
  apply nth_error_split in En. destruct En as (l1 & l2 & El & Hl).
  exists l1, s, l2. split; [exact El|]. split; [exact Hl|].
  subst l pos. pose proof (put_at l1 s l2 s') as P. unfold put in P.
  destruct (Nat.ltb_spec (length l1) (length (l1 ++ s :: l2))); inversion P; reflexivity.
Qed.

Lemma getslot_at l1 s l2 : getslot (l1 ++ s :: l2) (length l1) = Ok s.
Proof. unfold getslot. rewrite nth_error_app2, Nat.sub_diag by lia. reflexivity. Qed.

Lemma getslot_inv l pos s : getslot l pos = Ok s ->
  exists l1 l2, l = l1 ++ s :: l2 /\ length l1 = pos.
Proof.
  unfold getslot. destruct (nth_error l pos) eqn:E; intros H; inversion H; subst.
  apply nth_error_split in E. exact E.
Qed.

Lemma rdslots_ok l pos n : pos + n <= length l -> rdslots l pos n = Ok (firstn n (skipn pos l)).
Proof. intros H. unfold rdslots. destruct (Nat.leb_spec (pos + n) (length l)); [reflexivity|lia]. Qed.

(* ---------------------------------------------------------------- live entries *)
Lemma entries_app l1 l2 : flat_map entry (l1 ++ l2) = flat_map entry l1 ++ flat_map entry l2.
Proof. apply flat_map_app. Qed.

Lemma entry_live s : live s = true -> exists h, slot_hdl s = Some h /\ entry s = [(sid s, h)].
Proof.
  unfold live, entry, slot_hdl. destruct (scmd s); [|discriminate]. intros _. eexists; split; reflexivity.
Qed.
Lemma entry_dead s : live s = false -> entry s = [] /\ slot_hdl s = None /\ fin_slot s = [].
Proof. unfold live, entry, fin_slot, slot_hdl. destruct (scmd s); [discriminate|]. auto. Qed.

Lemma entry_mk id f a r : entry (mkslot id (Some f) a r) = [(id, mkh f a r)].
Proof. reflexivity. Qed.
Lemma entry_mk_dead id a r : entry (mkslot id None a r) = [].
Proof. reflexivity. Qed.

Lemma entries_filter l : flat_map entry (filter live l) = flat_map entry l.
Proof.
  induction l as [|s l IH]; [reflexivity|]. cbn [filter flat_map].
  destruct (live s) eqn:E.
  - cbn [flat_map]. rewrite IH. reflexivity.
  - rewrite IH. destruct (entry_dead s E) as (-> & _). reflexivity.
Qed.

Lemma entries_all_dead l : (forall x, In x l -> live x = false) -> flat_map entry l = [].
Proof.
  induction l as [|s l IH]; [reflexivity|]. intros H. cbn [flat_map].
  destruct (entry_dead s (H s (or_introl eq_refl))) as (-> & _). apply IH.
  intros x Hx. apply H. right. exact Hx.
Qed.

Lemma fins_entries l : flat_map fin_slot l = fins (flat_map entry l).
Proof.
  unfold fins. induction l as [|s l IH]; [reflexivity|]. cbn [flat_map]. rewrite map_app, <- IH. f_equal.
  unfold fin_slot, entry. destruct (slot_hdl s); reflexivity.
Qed.

(* ---------------------------------------------------------------- mpt_command_find *)
Definition no_live_id (l : list slot) (id : N) : Prop :=
  forall x, In x l -> live x && (id =? sid x)%N = false.

Lemma cmd_find_some l id : forall p pos s, cmd_find l id p = Some (pos, s) ->
  exists l1 l2, l = l1 ++ s :: l2 /\ pos = p + length l1 /\ live s = true /\ sid s = id
                /\ no_live_id l1 id.
Proof.
  induction l as [|x l IH]; intros p pos s; [discriminate|]. cbn [cmd_find].
  destruct (live x && (id =? sid x)%N) eqn:E.
  - intros H; inversion H; subst. apply andb_prop in E. destruct E as [E1 E2].
    apply N.eqb_eq in E2. exists [], l.
    split; [reflexivity|]. split; [cbn; lia|]. split; [exact E1|]. split; [symmetry; exact E2|]. intros y [].
  - intros H. apply IH in H. destruct H as (l1 & l2 & -> & -> & L & I & N1).
    exists (x :: l1), l2.
    split; [reflexivity|]. split; [cbn; lia|]. split; [exact L|]. split; [exact I|].
    intros y [->|Hy]; [exact E|apply N1; exact Hy].
Qed.

Lemma cmd_find_none l id : forall p, cmd_find l id p = None -> no_live_id l id.
Proof.
  induction l as [|x l IH]; intros p; [intros _ y []|]. cbn [cmd_find].
  destruct (live x && (id =? sid x)%N) eqn:E; [discriminate|].
  intros H y [->|Hy]; [exact E|]. eapply IH; eauto.
Qed.

Lemma cmd_find_skip l1 l2 id p : no_live_id l1 id ->
  cmd_find (l1 ++ l2) id p = cmd_find l2 id (p + length l1).
Proof.
  revert p; induction l1 as [|x l1 IH]; intros p H; cbn [app cmd_find length].
  - f_equal. lia.
  - rewrite (H x (or_introl eq_refl)). rewrite IH.
    + f_equal. lia.
    + intros y Hy. apply H. right. exact Hy.
Qed.

Lemma no_live_id_keys l id : no_live_id l id <-> ~ In id (map fst (flat_map entry l)).
Proof.
  induction l as [|x l IH].
  - split; [intros _ []|intros _ y []].
  - cbn [flat_map]. rewrite map_app, in_app_iff. split.
    + intros H [Hx|Hl].
      * pose proof (H x (or_introl eq_refl)) as E.
        unfold entry, slot_hdl, live in *. destruct (scmd x); [|destruct Hx].
        cbn in Hx. destruct Hx as [<-|[]]. cbn in E. rewrite N.eqb_refl in E. discriminate.
      * apply IH in Hl; [exact Hl|]. intros y Hy. apply H. right. exact Hy.
    + intros H y [->|Hy].
      * destruct (live y) eqn:L; [|reflexivity]. cbn.
        destruct (N.eqb_spec id (sid y)) as [->|]; [|reflexivity].
        exfalso. apply H. left. destruct (entry_live y L) as (h & _ & ->). cbn. left. reflexivity.
      * apply IH; [|exact Hy]. intros Hin. apply H. right. exact Hin.
Qed.

(* the first registered handler for an id in table order is what the association
   list of live entries yields: no hypothesis needed *)
Lemma lookup_entries l id : forall p,
  m_lookup (flat_map entry l) id
  = match cmd_find l id p with Some (_, s) => slot_hdl s | None => None end.
Proof.
  induction l as [|x l IH]; intros p; [reflexivity|]. cbn [flat_map cmd_find].
  unfold entry at 1. destruct (slot_hdl x) as [h|] eqn:Eh.
  - assert (L : live x = true) by (unfold live, slot_hdl in *; destruct (scmd x); [reflexivity|discriminate]).
    rewrite L. cbn [app m_lookup andb]. destruct (id =? sid x)%N; [symmetry; exact Eh|apply IH].
  - assert (L : live x = false) by (unfold live, slot_hdl in *; destruct (scmd x); [discriminate|reflexivity]).
    rewrite L. cbn [app andb]. apply IH.
Qed.

Lemma cmd_hdl_entries t id : cmd_hdl t id = m_lookup (entries t) id.
Proof.
  unfold cmd_hdl, cmd_get, entries, tslots. destruct t as [tb|]; [|reflexivity].
  rewrite (lookup_entries (slots tb) id 0). reflexivity.
Qed.

Lemma cmd_get_lookup t id :
  m_lookup (entries t) id = match cmd_get t id with Some (_, s) => slot_hdl s | None => None end.
Proof. rewrite <- cmd_hdl_entries. reflexivity. Qed.

Lemma cmd_find_live_hdl l id p pos s : cmd_find l id p = Some (pos, s) -> exists h, slot_hdl s = Some h.
Proof.
  intros H. apply cmd_find_some in H. destruct H as (_ & _ & _ & _ & L & _ & _).
  destruct (entry_live s L) as (h & E & _). eauto.
Qed.

(* ---------------------------------------------------------------- mpt_command_empty *)
Lemma cmd_empty_some l : forall p pos, cmd_empty l p = Some pos ->
  exists l1 s l2, l = l1 ++ s :: l2 /\ pos = p + length l1 /\ live s = false
                  /\ (forall x, In x l1 -> live x = true).
Proof.
  induction l as [|x l IH]; intros p pos; [discriminate|]. cbn [cmd_empty].
  destruct (live x) eqn:E.
  - intros H. apply IH in H. destruct H as (l1 & s & l2 & -> & -> & L & A).
    exists (x :: l1), s, l2.
    split; [reflexivity|]. split; [cbn; lia|]. split; [exact L|].
    intros y [->|Hy]; auto.
  - intros H; inversion H; subst. exists [], x, l.
    split; [reflexivity|]. split; [cbn; lia|]. split; [exact E|]. intros y [].
Qed.

(* ---------------------------------------------------------------- association lists *)
Lemma m_lookup_notin m id : ~ In id (map fst m) -> m_lookup m id = None.
Proof.
  induction m as [|[k h] m IH]; [reflexivity|]. cbn. intros H.
  destruct (N.eqb_spec id k) as [->|]; [exfalso; apply H; left; reflexivity|].
  apply IH. intros Hi. apply H. right. exact Hi.
Qed.

Lemma m_lookup_none_notin m id : m_lookup m id = None -> ~ In id (map fst m).
Proof.
  induction m as [|[k h] m IH]; [intros _ []|]. cbn.
  destruct (N.eqb_spec id k) as [->|Hn]; [discriminate|].
  intros H [E|Hi]; [congruence|]. apply IH in H. contradiction.
Qed.

Lemma m_lookup_in m id h : NoDup (map fst m) -> In (id, h) m -> m_lookup m id = Some h.
Proof.
  induction m as [|[k g] m IH]; [intros _ []|]. cbn. intros ND [E|Hi].
  - inversion E; subst. rewrite N.eqb_refl. reflexivity.
  - inversion ND; subst. destruct (N.eqb_spec id k) as [->|].
    + exfalso. apply H1. apply (in_map fst) in Hi. exact Hi.
    + apply IH; assumption.
Qed.

Lemma m_lookup_some_in m id h : m_lookup m id = Some h -> In (id, h) m.
Proof.
  induction m as [|[k g] m IH]; [discriminate|]. cbn.
  destruct (N.eqb_spec id k) as [->|]; intros H; [inversion H; left; reflexivity|right; auto].
Qed.

Lemma m_lookup_perm m1 m2 id : Permutation m1 m2 -> NoDup (map fst m1) -> m_lookup m1 id = m_lookup m2 id.
Proof.
  intros P ND.
  assert (ND2 : NoDup (map fst m2)) by (eapply Permutation_NoDup; [apply Permutation_map; exact P|exact ND]).
  destruct (m_lookup m1 id) as [h|] eqn:E1.
  - symmetry. apply m_lookup_in; [exact ND2|]. eapply Permutation_in; [exact P|]. apply m_lookup_some_in. exact E1.
  - symmetry. apply m_lookup_notin. intros Hi. apply m_lookup_none_notin in E1. apply E1.
    eapply Permutation_in; [apply Permutation_sym, Permutation_map; exact P|exact Hi].
Qed.

Lemma m_remove_notin m id : ~ In id (map fst m) -> m_remove m id = m.
Proof.
  induction m as [|[k h] m IH]; [reflexivity|]. cbn. intros H.
  destruct (N.eqb_spec id k) as [->|]; [exfalso; apply H; left; reflexivity|].
  f_equal. apply IH. intros Hi. apply H. right. exact Hi.
Qed.

Lemma m_remove_app m1 id h m2 : ~ In id (map fst m1) -> m_remove (m1 ++ (id, h) :: m2) id = m1 ++ m2.
Proof.
  induction m1 as [|[k g] m1 IH]; cbn; intros H.
  - rewrite N.eqb_refl. reflexivity.
  - destruct (N.eqb_spec id k) as [->|]; [exfalso; apply H; left; reflexivity|].
    f_equal. apply IH. intros Hi. apply H. right. exact Hi.
Qed.

Lemma m_remove_perm m1 m2 id : Permutation m1 m2 -> NoDup (map fst m1) ->
  Permutation (m_remove m1 id) (m_remove m2 id).
Proof.
  intros P ND.
  assert (ND2 : NoDup (map fst m2)) by (eapply Permutation_NoDup; [apply Permutation_map; exact P|exact ND]).
  destruct (m_lookup m1 id) as [h|] eqn:E1.
  - assert (E2 : m_lookup m2 id = Some h) by (rewrite <- (m_lookup_perm m1 m2 id P ND); exact E1).
    apply m_lookup_some_in in E1. apply m_lookup_some_in in E2.
    apply in_split in E1. destruct E1 as (a1 & b1 & ->).
    apply in_split in E2. destruct E2 as (a2 & b2 & ->).
    assert (N1 : ~ In id (map fst a1)).
    { rewrite map_app in ND. cbn in ND. apply NoDup_remove_2 in ND. rewrite in_app_iff in ND. tauto. }
    assert (N2 : ~ In id (map fst a2)).
    { rewrite map_app in ND2. cbn in ND2. apply NoDup_remove_2 in ND2. rewrite in_app_iff in ND2. tauto. }
    rewrite !m_remove_app by assumption.
    eapply Permutation_app_inv. exact P.
  - assert (E2 : m_lookup m2 id = None) by (rewrite <- (m_lookup_perm m1 m2 id P ND); exact E1).
    apply m_lookup_none_notin in E1. apply m_lookup_none_notin in E2.
    rewrite !m_remove_notin by assumption. exact P.
Qed.

Lemma m_remove_keys m id : NoDup (map fst m) -> NoDup (map fst (m_remove m id)) /\
  (forall k, In k (map fst (m_remove m id)) -> In k (map fst m) /\ k <> id).
Proof.
  induction m as [|[k h] m IH]; cbn; intros ND.
  - split; [constructor|intros k []].
  - inversion ND; subst. destruct (N.eqb_spec id k) as [->|Hn].
    + split; [exact H2|]. intros j Hj. split; [right; exact Hj|]. intros ->. contradiction.
    + destruct (IH H2) as [I1 I2]. cbn. split.
      * constructor; [|exact I1]. intros Hi. apply I2 in Hi. tauto.
      * intros j [<-|Hj]; [split; [left; reflexivity|congruence]|].
        apply I2 in Hj. tauto.
Qed.

(* ---------------------------------------------------------------- "every id of [1, mx] is taken" *)
Lemma ids_exhausted_intro m mx :
  (forall k, (1 <= k <= mx)%N -> is_some (m_lookup m k) = true) -> ids_exhausted m mx = true.
Proof.
  intros H. unfold ids_exhausted.
  assert (HA : forall i, In i (seq 1 (N.to_nat mx)) -> is_some (m_lookup m (N.of_nat i)) = true).
  { intros i Hi. apply in_seq in Hi. apply H. lia. }
  assert (HL : (mx <= N.of_nat (length m))%N).
  { assert (Hn : length (map N.of_nat (seq 1 (N.to_nat mx))) <= length (map fst m)).
    { apply NoDup_incl_length.
      - apply FinFun.Injective_map_NoDup; [intros a b; apply Nat2N.inj|apply seq_NoDup].
      - intros k Hk. apply in_map_iff in Hk. destruct Hk as (i & <- & Hi). apply HA in Hi.
        destruct (m_lookup m (N.of_nat i)) as [h|] eqn:E; [|discriminate].
        apply m_lookup_some_in in E. apply (in_map fst) in E. exact E. }
    rewrite !map_length, seq_length in Hn. lia. }
  destruct (N.leb_spec mx (N.of_nat (length m))); [|lia].
  apply forallb_forall. exact HA.
Qed.

Lemma ids_exhausted_elim m mx : ids_exhausted m mx = true ->
  forall k, (1 <= k <= mx)%N -> is_some (m_lookup m k) = true.
Proof.
  unfold ids_exhausted. destruct (mx <=? N.of_nat (length m))%N; [|discriminate].
  intros H k Hk. rewrite forallb_forall in H.
  specialize (H (N.to_nat k)). rewrite N2Nat.id in H. apply H. apply in_seq. lia.
Qed.

Lemma ids_exhausted_perm m1 m2 mx : Permutation m1 m2 -> NoDup (map fst m1) ->
  ids_exhausted m1 mx = ids_exhausted m2 mx.
Proof.
  intros P W. unfold ids_exhausted. rewrite (Permutation_length P).
  destruct (mx <=? N.of_nat (length m2))%N; [|reflexivity].
  induction (seq 1 (N.to_nat mx)) as [|i l IH]; [reflexivity|].
  cbn [forallb]. rewrite IH, (m_lookup_perm _ _ _ P W). reflexivity.
Qed.
