(* C11/DispatchEvent.v — mpt_dispatch_emit / mpt_dispatch_hash on any fragmentation of
   the message equal the delivery of the specification on the flat message, with
   the table seen as its live entries (uses the C17 theorems for message_read.c
   and message_argv.c). *)
From MptV Require Import Base.Mem C17.MessageModel C17.MessageSpec C17.MessageProofs C17.MessageArgv
  C11.DispatchModel C11.DispatchSpec C11.DispatchLemmas.
Local Open Scope nat_scope.

Lemma read_msg_of F n : exists m',
  m_read (msg_of F) n = Ok (Nat.min n (length (concat F)), firstn n (concat F), m')
  /\ concat (frags m') = skipn n (concat F).
Proof.
  destruct (read_flat (msg_of F) n) as (m' & E & C & _).
  rewrite frags_msg_of in *. unfold flat_read in *. cbn [fst snd] in *. eauto.
Qed.

Definition omsg (F : option (list frag)) : option msg := option_map msg_of F.
Definition oflat (F : option (list frag)) : option (list byte) := option_map (@concat byte) F.

Lemma unknown_flat id F rp : unknown_event id (omsg F) rp = Ok (s_unknown id (oflat F) rp).
Proof.
  unfold unknown_event, s_unknown. destruct (negb (id =? 0)%N); [reflexivity|].
  destruct F as [F|]; [|reflexivity]. cbn [omsg oflat option_map].
  destruct (read_msg_of F 1) as (m' & E & _). rewrite E. cbn [bind].
  destruct (concat F); reflexivity.
Qed.

Lemma invoke_flat h id F rp rsp : invoke h id (omsg F) rp rsp = Ok (s_invoke h id (oflat F) rp rsp).
Proof.
  unfold invoke, s_invoke.
  replace (is_some (omsg F)) with (is_some (oflat F)) by (destruct F; reflexivity).
  destruct (hf h); try reflexivity.
  rewrite unknown_flat. cbn [bind]. destruct (s_unknown id (oflat F) rp) as [[ret id'] rl]. reflexivity.
Qed.

Definition ev_out (x : out) : sout := match x with OEv z i rp => SEv z i rp | _ => SBad end.

Lemma emit_call_abs d id F rp0 rsp : exists d' out lg,
  emit_call d (m_lookup (entries (d_tbl d)) id) id (omsg F) rp0 rsp = Ok (d', out, lg)
  /\ s_deliver (abs d) id (oflat F) rp0 rsp = (abs d', ev_out out, lg)
  /\ ev_out out <> SBad
  /\ d_tbl d' = d_tbl d /\ d_err d' = d_err d /\ d_ctx d' = d_ctx d /\ d_next d' = d_next d.
Proof.
  unfold emit_call, s_deliver. cbn [abs s_map s_fb s_ctx s_def].
  destruct (match m_lookup (entries (d_tbl d)) id with Some h => Some h | None => d_err d end) as [h|].
  2:{ do 3 eexists. split; [reflexivity|]. split; [reflexivity|]. split; [discriminate|]. repeat split. }
  rewrite invoke_flat. cbn [bind].
  destruct (s_invoke h id (oflat F) (match rp0 with Some _ => rp0 | None => d_ctx d end) rsp) as [[state id'] lg].
  destruct (state <? 0)%Z.
  { do 3 eexists. split; [reflexivity|]. split; [reflexivity|]. split; [discriminate|]. repeat split. }
  destruct (Z.testbit state 0).
  - destruct (id' =? 0)%N; do 3 eexists; (split; [reflexivity|]); (split; [reflexivity|]); (split; [discriminate|]); repeat split.
  - destruct (d_def d =? 0)%N; do 3 eexists; (split; [reflexivity|]); (split; [reflexivity|]); (split; [discriminate|]); repeat split.
Qed.

Lemma emit_abs d ev rsp : exists d' out lg,
  dispatch_emit d ev rsp = Ok (d', out, lg)
  /\ s_emit (abs d) ev rsp = (abs d', ev_out out, lg)
  /\ ev_out out <> SBad
  /\ d_tbl d' = d_tbl d /\ d_err d' = d_err d /\ d_ctx d' = d_ctx d /\ d_next d' = d_next d.
Proof.
  unfold dispatch_emit, s_emit. cbn [abs s_map s_def].
  destruct ev as [e|].
  - destruct (e_msg e) as [F|].
    + destruct (read_msg_of F 1) as (m' & E & _). rewrite E. cbn [bind].
      destruct (concat F) as [|b s] eqn:Ec.
      * cbn [length Nat.min Nat.ltb Nat.leb]. do 3 eexists. split; [reflexivity|]. split; [reflexivity|]. split; [discriminate|]. repeat split.
      * cbn [length Nat.min Nat.ltb Nat.leb firstn hd]. rewrite cmd_hdl_entries.
        destruct (emit_call_abs d b (Some F) (e_reply e) rsp) as (d' & o & lg & E1 & E2 & R).
        cbn [omsg oflat option_map] in E1, E2. rewrite Ec in E2.
        exists d', o, lg. split; [exact E1|]. split; [exact E2|exact R].
    + rewrite cmd_hdl_entries.
      destruct (emit_call_abs d (e_id e) None (e_reply e) rsp) as (d' & o & lg & E1 & E2 & R).
      exists d', o, lg. split; [exact E1|]. split; [exact E2|exact R].
  - destruct (d_def d =? 0)%N.
    { do 3 eexists. split; [reflexivity|]. split; [reflexivity|]. split; [discriminate|]. repeat split. }
    rewrite cmd_hdl_entries.
    destruct (m_lookup (entries (d_tbl d)) (d_def d)) as [h|] eqn:El.
    2:{ do 3 eexists. split; [reflexivity|]. split; [reflexivity|]. split; [discriminate|]. repeat split. }
    destruct (emit_call_abs d (d_def d) None None rsp) as (d' & o & lg & E1 & E2 & R).
    rewrite El in E1. cbn [omsg oflat option_map] in E1, E2. rewrite E1, E2. cbn [bind].
    destruct R as [Hb R].
    destruct o; try (exfalso; apply Hb; reflexivity).
    do 3 eexists. split; [reflexivity|]. split; [reflexivity|]. split; [discriminate|exact R].
Qed.

(* ---------------------------------------------------------------- command text *)
Lemma flat_argv_res s sep : match fst (flat_argv s sep) with
                            | Ok _ => True | Err e => e = MissingData | Fault => False end.
Proof.
  unfold flat_argv. destruct s; [reflexivity|].
  destruct (sep =? 0)%N; [exact I|]. destruct (is_graph sep); [exact I|].
  destruct (flat_memtok _ _ _ _); exact I.
Qed.

Lemma strip_model sep txt :
  (if (sep =? 0)%N && (nth (length txt - 1) txt 1%N =? 0)%N then firstn (length txt - 1) txt else txt)
  = strip0 sep txt.
Proof. reflexivity. Qed.

(* either the flat result, or the refusal of a long argument not held in one part *)
Lemma hash_text_flat F :
  let s := concat F in
  hash_text (msg_of F) = Ok (match flat_hash_text s with
                             | inl c => inl c
                             | inr raw => inr (strip0 (hash_sep s) raw)
                             end)
  \/ (hash_text (msg_of F) = Ok (inl (-17)%Z) /\ exists raw, flat_hash_text s = inr raw /\ 128 < length raw).
Proof.
  intros s. unfold hash_text, flat_hash_text.
  destruct (read_msg_of F 2) as (m1 & E1 & C1). fold s in E1, C1. rewrite E1. cbn [bind].
  destruct (Nat.ltb_spec (length s) 2) as [Hs|Hs].
  { left. rewrite Nat.min_r by lia. destruct (Nat.ltb_spec (length s) 2); [reflexivity|lia]. }
  rewrite Nat.min_l by lia. change (2 <? 2) with false. cbv iota.
  assert (H0 : nth 0 (firstn 2 s) 0%N = nth 0 s 0%N) by (apply nth_firstn'; lia).
  assert (H1 : nth 1 (firstn 2 s) 0%N = nth 1 s 0%N) by (apply nth_firstn'; lia).
  rewrite H0, H1. fold (hash_sep s).
  destruct (argv_flat m1 (hash_sep s)) as (m2 & E2 & C2). rewrite C1 in E2, C2. rewrite E2. cbn [bind].
  pose proof (flat_argv_res (skipn 2 s) (hash_sep s)) as HR.
  destruct (flat_argv (skipn 2 s) (hash_sep s)) as [r t] eqn:Ea. cbn [fst snd] in *.
  destruct r as [len|e|]; [|left; reflexivity|contradiction].
  destruct (flat_argv_facts _ _ _ _ Ea) as (_ & _ & Hlen).
  destruct (Nat.eqb_spec len 0); [left; reflexivity|].
  assert (Et : t = mcur m2 ++ concat (mcont m2)) by (rewrite <- C2; destruct m2; reflexivity).
  destruct (Nat.leb_spec len (length (mcur m2))) as [Hc|Hc].
  - left. rewrite rd0 by exact Hc. cbn [bind].
    assert (Ef : firstn len (mcur m2) = firstn len t).
    { rewrite Et, firstn_app. replace (len - length (mcur m2)) with 0 by lia.
      cbn [firstn]. rewrite app_nil_r. reflexivity. }
    rewrite Ef. unfold strip0. rewrite firstn_length, Nat.min_l by lia. reflexivity.
  - destruct (Nat.ltb_spec 128 len) as [Hb|Hb].
    + right. split; [reflexivity|]. eexists. split; [reflexivity|].
      rewrite firstn_length, Nat.min_l by lia. exact Hb.
    + left. destruct (read_flat m2 len) as (m3 & E3 & _).
      rewrite C2 in E3. unfold flat_read in E3. cbn [fst snd] in E3. rewrite E3. cbn [bind].
      rewrite Nat.min_l by lia. rewrite Nat.eqb_refl. cbn [negb].
      unfold strip0. rewrite firstn_length, Nat.min_l by lia. reflexivity.
Qed.

Lemma flat_hash_text_code s c : flat_hash_text s = inl c -> c <> (-17)%Z.
Proof.
  unfold flat_hash_text. destruct (length s <? 2); [intros H; inversion H; discriminate|].
  pose proof (flat_argv_res (skipn 2 s) (hash_sep s)) as HR.
  destruct (flat_argv (skipn 2 s) (hash_sep s)) as [r t]. cbn [fst] in HR.
  destruct r as [len|e|]; [|subst e|contradiction].
  - destruct (len =? 0); intros H; inversion H; discriminate.
  - intros H; inversion H; discriminate.
Qed.

Lemma hash_abs d ev rsp : exists out lg,
  dispatch_hash d ev rsp = Ok (d, out, lg)
  /\ s_hash (abs d) ev rsp (advice d (OHash ev rsp)) = (abs d, ev_out out, lg)
  /\ ev_out out <> SBad.
Proof.
  unfold dispatch_hash, s_hash, advice, event_fail, s_fail.
  destruct ev as [e|].
  2:{ do 2 eexists. split; [reflexivity|]. split; [reflexivity|discriminate]. }
  destruct (e_msg e) as [F|].
  2:{ do 2 eexists. split; [reflexivity|]. split; [reflexivity|discriminate]. }
  destruct (hash_text_flat F) as [E|(E & raw & Er & Hl)]; rewrite E; cbn [bind a_unaligned].
  - destruct (flat_hash_text (concat F)) as [c|raw] eqn:Ef.
    + pose proof (flat_hash_text_code _ _ Ef) as Hc.
      destruct (Z.eqb_spec c (-17)); [contradiction|].
      do 2 eexists. split; [reflexivity|]. split; [reflexivity|discriminate].
    + cbn [abs s_map s_fb]. rewrite cmd_hdl_entries.
      set (id := djb2 (strip0 (hash_sep (concat F)) raw)).
      destruct (m_lookup (entries (d_tbl d)) id) as [h|].
      * pose proof (invoke_flat h id (Some F) (e_reply e) rsp) as Ei.
        cbn [omsg oflat option_map] in Ei. rewrite Ei. cbn [bind].
        destruct (s_invoke h id (Some (concat F)) (e_reply e) rsp) as [[ret id'] lg].
        destruct (ret <? 0)%Z; do 2 eexists; (split; [reflexivity|]); (split; [reflexivity|discriminate]).
      * destruct (d_err d) as [h|].
        -- pose proof (invoke_flat h id (Some F) (e_reply e) rsp) as Ei.
           cbn [omsg oflat option_map] in Ei. rewrite Ei. cbn [bind].
           destruct (s_invoke h id (Some (concat F)) (e_reply e) rsp) as [[ret id'] lg].
           do 2 eexists. split; [reflexivity|]. split; [reflexivity|discriminate].
        -- do 2 eexists. split; [reflexivity|]. split; [reflexivity|discriminate].
  - rewrite Er. cbn [Z.eqb Pos.eqb].
    destruct (Nat.ltb_spec 128 (length raw)); [|lia].
    do 2 eexists. split; [reflexivity|]. split; [reflexivity|discriminate].
Qed.
