(* Extraction of the executable model and specification of C11 (ExtrOcamlBasic only). *)
From MptV Require Import Base.Mem C17.MessageModel C11.DispatchModel C11.DispatchSpec.
Require Import ExtrOcamlBasic.
Extraction "c11_model.ml" drun srun dinit sinit djb2.
