(* C11/DispatchSpec.v — the abstract specification of the dispatcher: a finite map
   id -> handler, a fallback handler, the default-event id and the fallback reply
   context.  It knows nothing about slots, positions, reuse, compaction or message
   fragments (a message is ONE byte string, C17/MessageSpec.v).

   Where the interface leaves a choice to the implementation the specification
   takes the implementation's decision as [adv]ice and CHECKS it:
   - which id mpt_command_reserve hands out (must be unused and inside the range
     asked for; refusing is allowed only when every id of the range is taken),
   - (harness, not library) whether the replacement of the table object is skipped,
   - refusing a command text longer than 128 bytes that is not held in one part.
   [SBad] = the decision is not allowed. *)
From MptV Require Import Base.Mem C17.MessageModel C17.MessageSpec C11.DispatchModel.
Local Open Scope nat_scope.

Record sdisp := mksd {
  s_map : list (N * hdl);    (* id -> handler, no id twice *)
  s_fb : option hdl;         (* handler for unknown ids *)
  s_def : N;                 (* default event id, 0 = none *)
  s_ctx : option N;          (* fallback reply context *)
  s_next : N                 (* ghost operation counter *)
}.

Fixpoint m_lookup (m : list (N * hdl)) (id : N) : option hdl :=
  match m with
  | [] => None
  | (k, h) :: r => if (id =? k)%N then Some h else m_lookup r id
  end.
Fixpoint m_remove (m : list (N * hdl)) (id : N) : list (N * hdl) :=
  match m with
  | [] => []
  | (k, h) :: r => if (id =? k)%N then r else (k, h) :: m_remove r id
  end.

(* every id of [1, mx] is taken: the only reason (beside max = 0) for which mpt_command_reserve may
   refuse (allocation is assumed to succeed).  mx can be 2^63: it is compared with the size of the
   map before anything is enumerated *)
Definition ids_exhausted (m : list (N * hdl)) (mx : N) : bool :=
  if (mx <=? N.of_nat (length m))%N
  then forallb (fun i => is_some (m_lookup m (N.of_nat i))) (seq 1 (N.to_nat mx))
  else false.

Inductive sout :=
| SOk                                           (* accepted *)
| SDel                                          (* mpt_command_set removed the handler *)
| SErr (code : Z)                               (* refused *)
| SHdl (h : option hdl)                         (* lookup *)
| SRes (id : option N)                          (* reserved id *)
| SEv (z : Z) (id : option N) (rp : option N)   (* dispatch result, ev->id, ev->reply *)
| SBool (b : bool)
| SVoid
| SAux (x : aout)
| SBad.                                         (* implementation decision not allowed *)

Record adv := mkadv { a_id : option N; a_unaligned : bool; a_keep : bool }.

(* unknownEvent on a flat message *)
Definition s_unknown (id : N) (m : option (list byte)) (rp : option N) : Z * N * list lentry :=
  if negb (id =? 0)%N then (3%Z, 0%N, reply_to rp (-1))
  else match m with
       | None => (3%Z, id, reply_to rp (-16))
       | Some s => if length s =? 0 then (0%Z, id, []) else (2%Z, id, reply_to rp (-4))
       end.

Definition s_invoke (h : hdl) (id : N) (m : option (list byte)) (rp : option N) (rsp : resp)
  : Z * N * list lentry :=
  let call := LCall (hr h) (hf h) (ha h) (Some (mkview id (is_some m) rp)) in
  match hf h with
  | FUser => (r_ret rsp, match r_setid rsp with Some i => i | None => id end, [call])
  | FLog => (0%Z, id, [call])
  | FUnk => let '(ret, id', rl) := s_unknown id m rp in (ret, id', call :: rl)
  end.

Definition s_with_def (s : sdisp) (def : N) : sdisp :=
  mksd (s_map s) (s_fb s) def (s_ctx s) (s_next s).
Definition s_with_map (s : sdisp) (m : list (N * hdl)) : sdisp :=
  mksd m (s_fb s) (s_def s) (s_ctx s) (s_next s).

(* deliver an event with id [id]: to the registered handler, else to the fallback;
   then the default-event bookkeeping documented in event.h:
     Default set   -> the (possibly rewritten) event id becomes the default id
                      (0 removes the default),
     result        -> Default cleared, then set iff a default id exists. *)
Definition s_deliver (s : sdisp) (id : N) (m : option (list byte)) (rp0 : option N) (rsp : resp)
  : sdisp * sout * list lentry :=
  let rp := match rp0 with Some _ => rp0 | None => s_ctx s end in
  match (match m_lookup (s_map s) id with Some h => Some h | None => s_fb s end) with
  | None => (s, SEv (-1) (Some id) rp, reply_to rp (-3))
  | Some h =>
    let '(state, id', lg) := s_invoke h id m rp rsp in
    if (state <? 0)%Z then (s, SEv state (Some id') rp, lg ++ reply_to rp state)
    else
      let '(state, def) := if Z.testbit state 0 then (clr_default state, id') else (state, s_def s) in
      let state := if (def =? 0)%N then state else set_default state in
      (s_with_def s def, SEv state (Some id') rp, lg)
  end.

Definition s_emit (s : sdisp) (ev : option event) (rsp : resp) : sdisp * sout * list lentry :=
  match ev with
  | None =>
    if (s_def s =? 0)%N then (s, SEv 0 None None, [])
    else match m_lookup (s_map s) (s_def s) with
         | None => (s_with_def s 0%N, SEv (-2) None None, [])
         | Some _ =>
           let '(s', o, lg) := s_deliver s (s_def s) None None rsp in
           (s', match o with SEv z _ _ => SEv z None None | _ => o end, lg)
         end
  | Some e =>
    match e_msg e with
    | None => s_deliver s (e_id e) None (e_reply e) rsp
    | Some F =>
      match concat F with
      | [] => (s, SEv (-2) (Some (e_id e)) (e_reply e), [])
      | b :: _ => s_deliver s b (Some (concat F)) (e_reply e) rsp
      end
    end
  end.

(* the command text of a message: header (type, separator), first argument.
   A trailing NUL of an argument found with separator 0 is not hashed. *)
Definition strip0 (sep : byte) (txt : list byte) : list byte :=
  if (sep =? 0)%N && (nth (length txt - 1) txt 1%N =? 0)%N then firstn (length txt - 1) txt else txt.
Definition hash_sep (s : list byte) : byte := if (nth 0 s 0 =? 4)%N then nth 1 s 0%N else 0%N.
Definition flat_hash_text (s : list byte) : Z + list byte :=
  if length s <? 2 then inl (-16)%Z
  else
    match flat_argv (skipn 2 s) (hash_sep s) with
    | (Ok len, t) => if len =? 0 then inl 0%Z else inr (firstn len t)
    | (Err e, _) => inl (err_code e)
    | (Fault, _) => inl 0%Z
    end.

Definition s_fail (s : sdisp) (rp : option N) (code : Z) (pre : list lentry) : sdisp * sout * list lentry :=
  (s, SEv 3 (Some 0%N) rp, pre ++ reply_to rp code).

Definition s_hash (s : sdisp) (ev : option event) (rsp : resp) (a : adv) : sdisp * sout * list lentry :=
  match ev with
  | None => (s, SEv 0 None None, [])
  | Some e =>
    let rp := e_reply e in
    match e_msg e with
    | None => s_fail s rp (-16) []
    | Some F =>
      match flat_hash_text (concat F) with
      | inl code => if a_unaligned a then (s, SBad, []) else s_fail s rp code []
      | inr txt =>
        if a_unaligned a then
          (if 128 <? length txt then s_fail s rp (-17) [] else (s, SBad, []))
        else
        let id := djb2 (strip0 (hash_sep (concat F)) txt) in
        match m_lookup (s_map s) id with
        | Some h =>
          let '(ret, id', lg) := s_invoke h id (Some (concat F)) rp rsp in
          if (ret <? 0)%Z then s_fail s rp ret lg else (s, SEv ret (Some id') rp, lg)
        | None =>
          match s_fb s with
          | Some h => let '(ret, id', lg) := s_invoke h id (Some (concat F)) rp rsp in
                      (s, SEv ret (Some id') rp, lg)
          | None => s_fail s rp (-2) []
          end
        end
      end
    end
  end.

Definition fins (m : list (N * hdl)) : list lentry := map (fun kh => fin_of (snd kh)) m.

(* the calls beside the dispatcher, on flat data:
   - mpt_hash_djb2 with a length hashes exactly these bytes, without length the bytes before the first NUL,
     of no data 0;
   - the handler of a fresh reserved slot answers 0 to every message;
   - reply_data::set refuses (nothing changes) to overwrite an active reply id with another one and a value
     longer than _max; otherwise the value area starts with the new value (zeros without data) and len is
     its length;
   - a reply context that does not override defer() has no detached context; its pointer traits are the
     registered ones; a dispatcher can not be copied;
   - the built-in fallback handler on a flat message. *)
Definition rset_spec (max : N) (cur : list byte) (len : nat) (new : list byte) : aout :=
  let r := mk_rdata max cur in
  if (negb (len =? 0) && negb (rd_len r =? 0)%N) || (rd_max r <? N.of_nat len)%N
  then XRData false (rd_len r) (rd_val r)
  else XRData true (N.of_nat len) (new ++ skipn len (rd_val r)).
Definition aux_spec (a : aux) : aout * list lentry :=
  match a with
  | ADjbLen s => (XHash (djb2 s), [])
  | ADjbStr s => (XHash (djb2 (cstr s)), [])
  | ADjbNull _ => (XHash 0%N, [])
  | ALogReply _ => (XInt 0%Z, [])
  | ARSet max cur data => (rset_spec max cur (length data) data, [])
  | ARZero max cur len => (rset_spec max cur len (repeat 0%N len), [])
  | ADefer => (XBool false, [])
  | ATraits => (XBool true, [])
  | ACopy => (XBool false, [])
  | AUnknown id m rp =>
    let '(ret, id', rl) := s_unknown id (option_map (@concat byte) m) rp in (XUnk ret id', rl)
  | ACmdInit (Some true) => (XInit (-4) false, [])      (* a held handler has one owner: no copy *)
  | ACmdInit _ => (XInit 0 true, [])
  end.

Definition sstep0 (s : sdisp) (o : op) (a : adv) : sdisp * sout * list lentry :=
  let r := s_next s in
  let new := mkh FUser r r in
  match o with
  | OSet id =>
    match m_lookup (s_map s) id with
    | Some _ => (s, SErr (-1), [])
    | None => (s_with_map s ((id, new) :: s_map s), SOk, [LReg r])
    end
  | OUnset id =>
    match m_lookup (s_map s) id with
    | Some h => (s_with_map s (m_remove (s_map s) id), SOk, [fin_of h])
    | None => (s, SErr (-1), [])
    end
  | OCmdSet id true =>
    match m_lookup (s_map s) id with
    | Some h => (s_with_map s ((id, new) :: m_remove (s_map s) id), SOk, [fin_of h; LReg r])
    | None => (s_with_map s ((id, new) :: s_map s), SOk, [LReg r])
    end
  | OCmdSet id false =>
    match m_lookup (s_map s) id with
    | Some h => (s_with_map s (m_remove (s_map s) id), SDel, [fin_of h])
    | None => (s, SOk, [])
    end
  | OGet id => (s, SHdl (m_lookup (s_map s) id), [])
  | OClear => (s_with_map s [], SVoid, fins (s_map s))
  | OReserve max =>
    match a_id a with
    | None =>
      (* refusing is allowed for max = 0 and when no id of the range is free *)
      if (max =? 0)%N || ids_exhausted (s_map s) (reserve_max max) then (s, SRes None, []) else (s, SBad, [])
    | Some id =>
      if (1 <=? id)%N && (id <=? reserve_max max)%N && negb (max =? 0)%N
         && negb (is_some (m_lookup (s_map s) id))
      then (s_with_map s ((id, new) :: s_map s), SRes (Some id), [LReg r])
      else (s, SBad, [])
    end
  | OEmit ev rsp => s_emit s ev rsp
  | OHash ev rsp => s_hash s ev rsp a
  | OSetErr h =>
    (mksd (s_map s) (if h then Some new else None) (s_def s) (s_ctx s) (s_next s), SVoid,
     (match s_fb s with Some h0 => [fin_of h0] | None => [] end) ++ (if h then [LReg r] else []))
  | OSetDef id =>
    match m_lookup (s_map s) id with
    | None => (s, SBool false, [])
    | Some _ => (s_with_def s id, SBool true, [])
    end
  | OSetCtx =>
    match s_ctx s with
    | Some _ => (s, SVoid, [])
    | None => (mksd (s_map s) (s_fb s) (s_def s) (Some r) (s_next s), SVoid, [])
    end
  | OFini =>
    (mksd [] None 0%N None (s_next s), SVoid,
     fins (s_map s) ++ (match s_fb s with Some h => [fin_of h] | None => [] end)
                    ++ (match s_ctx s with Some c => [LUnref c] | None => [] end))
  | OArr =>
    (* the table object is replaced by a new, empty one: every handler it held is notified
       ([a_keep]: the harness skips the operation on a raw buffer) *)
    if a_keep a then (s, SVoid, []) else (s_with_map s [], SVoid, fins (s_map s))
  | OAux x => let '(r, lg) := aux_spec x in (s, SAux r, lg)
  end.

Definition s_tick (s : sdisp) : sdisp :=
  mksd (s_map s) (s_fb s) (s_def s) (s_ctx s) (s_next s + 1)%N.
Definition sstep (s : sdisp) (o : op) (a : adv) : sdisp * sout * list lentry :=
  let '(s', so, lg) := sstep0 s o a in (s_tick s', so, lg).

(* the implementation's decisions, read off the mechanism model *)
Definition advice (d : disp) (o : op) : adv :=
  match o with
  | OReserve max =>
    match command_reserve (d_tbl d) max with
    | Ok (_, RSlot _ id) => mkadv (Some id) false false
    | _ => mkadv None false false
    end
  | OHash (Some e) _ =>
    match e_msg e with
    | Some F => match hash_text (msg_of F) with
                | Ok (inl code) => mkadv None (code =? -17)%Z false
                | _ => mkadv None false false
                end
    | None => mkadv None false false
    end
  | OArr => mkadv None false (match d_tbl d with Some tb => negb (typed tb) | None => false end)
  | _ => mkadv None false false
  end.

(* the model state seen as a specification state *)
Definition entry (s : slot) : list (N * hdl) :=
  match slot_hdl s with Some h => [(sid s, h)] | None => [] end.
Definition tslots (t : option table) : list slot :=
  match t with Some tb => slots tb | None => [] end.
Definition entries (t : option table) : list (N * hdl) := flat_map entry (tslots t).
Definition abs (d : disp) : sdisp := mksd (entries (d_tbl d)) (d_err d) (d_def d) (d_ctx d) (d_next d).

(* property-level view of a model output *)
Definition proj_out (o : op) (x : out) : sout :=
  match o, x with
  | OCmdSet _ _, OInt z => if (z =? 2)%Z then SDel else if (z <? 0)%Z then SErr z else SOk
  | _, OInt z => if (z <? 0)%Z then SErr z else SOk
  | _, OBool b => SBool b
  | _, OSlot r => SHdl (match r with Some (_, s) => slot_hdl s | None => None end)
  | OReserve _, ORes (Some (_, id)) => SRes (Some id)
  | _, ORes _ => SRes None
  | _, OEv z i rp => SEv z i rp
  | _, OVoid => SVoid
  | _, OAuxR x => SAux x
  | _, OFault => SBad
  | _, OFuel => SBad
  end.

Definition sinit : sdisp := abs dinit.

Fixpoint srun (d : disp) (s : sdisp) (ops : list op) : list (sout * list lentry * sdisp) :=
  match ops with
  | [] => []
  | o :: ops =>
    let '(d', _, _) := dstep d o in
    let '(s', so, lg) := sstep s o (advice d o) in
    (so, lg, s') :: srun d' s' ops
  end.

(* the model run seen at property level: projected outputs, log deltas, abstracted states *)
Fixpoint prun (d : disp) (ops : list op) : list (sout * list lentry * sdisp) :=
  match ops with
  | [] => []
  | o :: ops => let '(d', out, lg) := dstep d o in (proj_out o out, lg, abs d') :: prun d' ops
  end.

(* ---------------------------------------------------------------- vocabulary of the call log *)
(* registration numbers that went live / were finalised (cmd(arg, NULL)) / were invoked with an event *)
Definition regs_of (l : list lentry) : list N :=
  flat_map (fun e => match e with LReg r => [r] | _ => [] end) l.
Definition fins_of (l : list lentry) : list N :=
  flat_map (fun e => match e with LCall r _ _ None => [r] | _ => [] end) l.
Definition calls_of (l : list lentry) : list N :=
  flat_map (fun e => match e with LCall r _ _ (Some _) => [r] | _ => [] end) l.
(* registrations the dispatcher currently holds: table entries and the fallback *)
Definition live_regs (s : sdisp) : list N :=
  map (fun kh => hr (snd kh)) (s_map s) ++ match s_fb s with Some h => [hr h] | None => [] end.
(* the whole log of a history, starting with the registration made by mpt_dispatch_init *)
Definition full_log (ops : list op) : list lentry :=
  linit ++ concat (map (fun x => snd (fst x)) (drun dinit ops)).

(* the states a history ends in *)
Fixpoint dfinal (d : disp) (ops : list op) : disp :=
  match ops with [] => d | o :: ops => dfinal (fst (fst (dstep d o))) ops end.
Fixpoint sfinal (d : disp) (s : sdisp) (ops : list op) : sdisp :=
  match ops with
  | [] => s
  | o :: ops => sfinal (fst (fst (dstep d o))) (fst (fst (sstep s o (advice d o)))) ops
  end.

(* ---------------------------------------------------------------- vocabulary of the delivery theorems *)
Definition is_call (e : lentry) : bool := match e with LCall _ _ _ _ => true | _ => false end.
(* every handler call (invocation or finaliser) in a log delta, in order *)
Definition calls_in (lg : list lentry) : list lentry := filter is_call lg.
(* the id an event carries: its id field, or the first byte of its message (None: empty message) *)
Definition event_id (e : event) : option N :=
  match e_msg e with
  | None => Some (e_id e)
  | Some F => match concat F with [] => None | b :: _ => Some b end
  end.
(* the reply context a handler gets to see *)
Definition seen_reply (s : sdisp) (e : event) : option N :=
  match e_reply e with Some _ => e_reply e | None => s_ctx s end.
(* the invocation record of handler h for an event with id [id] *)
Definition call_of (h : hdl) (id : N) (hasmsg : bool) (rp : option N) : lentry :=
  LCall (hr h) (hf h) (ha h) (Some (mkview id hasmsg rp)).
(* the ordering statement: an invocation comes after its registration and before its finaliser *)
Definition ordered (log : list lentry) : Prop :=
  forall l1 l2 r f a v, log = l1 ++ LCall r f a (Some v) :: l2 -> In r (regs_of l1) /\ ~ In r (fins_of l1).
