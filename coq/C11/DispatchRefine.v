(* C11/DispatchRefine.v — refinement of the slot-table dispatcher by the finite-map
   specification.
   Stage 1 ([dstep0_abs]): one model step, seen through [abs], is the specification
     step on [abs d] up to a permutation of the map and of the log delta.
   Stage 2 ([sstep0_perm]): the specification does not depend on the order of its
     association list (given no id occurs twice) and keeps "no id twice".
   Together: a simulation [R] preserved by every operation, lifted to histories. *)
From MptV Require Import Base.Mem C17.MessageModel C17.MessageSpec
  C11.DispatchModel C11.DispatchSpec C11.DispatchLemmas C11.DispatchCompact C11.DispatchTable C11.DispatchEvent
  C11.DispatchAux.
From Coq Require Import Permutation.
Local Open Scope nat_scope.

Definition swf (s : sdisp) : Prop := NoDup (map fst (s_map s)).
Definition seqv (s1 s2 : sdisp) : Prop :=
  Permutation (s_map s1) (s_map s2) /\ s_fb s1 = s_fb s2 /\ s_def s1 = s_def s2
  /\ s_ctx s1 = s_ctx s2 /\ s_next s1 = s_next s2.
Definition dinv (d : disp) : Prop := NoDup (map fst (entries (d_tbl d))).
(* the simulation relation *)
Definition R (d : disp) (s : sdisp) : Prop := seqv (abs d) s /\ swf s.

Lemma seqv_refl s : seqv s s.
Proof. repeat split; reflexivity. Qed.
Lemma seqv_sym s1 s2 : seqv s1 s2 -> seqv s2 s1.
Proof. intros (P & A & B & C & D). repeat split; auto. symmetry. exact P. Qed.
Lemma seqv_trans s1 s2 s3 : seqv s1 s2 -> seqv s2 s3 -> seqv s1 s3.
Proof.
  intros (P & A & B & C & D) (P' & A' & B' & C' & D').
  repeat split; try congruence. eapply Permutation_trans; eauto.
Qed.
Lemma swf_seqv s1 s2 : seqv s1 s2 -> swf s1 -> swf s2.
Proof.
  intros (P & _) W. unfold swf in *. eapply Permutation_NoDup; [apply Permutation_map; exact P|exact W].
Qed.

(* ---------------------------------------------------------------- stage 1 *)
Definition step_ok (o : op) (d' : disp) (out : out) (lg : list lentry) (r : sdisp * sout * list lentry) : Prop :=
  let '(s', so, slg) := r in
  seqv (abs d') s' /\ proj_out o out = so /\ Permutation lg slg /\ so <> SBad.

Ltac close_eq := split; [apply seqv_refl|]; split; [reflexivity|]; split; [reflexivity|discriminate].

Lemma proj_int_ok o ret : (ret = 0 \/ ret = 1)%Z -> (forall i h, o <> OCmdSet i h) \/ True ->
  proj_out o (OInt ret) = SOk.
Proof. intros [->| ->] _; destruct o; reflexivity. Qed.

Lemma dstep0_abs d o : exists d' out lg,
  dstep0 d o = Ok (d', out, lg) /\ step_ok o d' out lg (sstep0 (abs d) o (advice d o)).
Proof.
  destruct o as [id|id|id h|id| |max|ev rsp|ev rsp|h|id| | | |x]; unfold dstep0, sstep0, step_ok;
    cbn [abs s_map s_fb s_def s_ctx s_next].
  - (* OSet *)
    pose proof (dispatch_set_reg (d_tbl d) id FUser (d_next d) (d_next d)) as H.
    destruct (m_lookup (entries (d_tbl d)) id).
    + rewrite H. cbn [bind]. do 3 eexists. split; [reflexivity|].
      split; [destruct d; apply seqv_refl|]. split; [reflexivity|]. split; [reflexivity|discriminate].
    + destruct H as (tb' & ret & E & Hr & P). rewrite E. cbn [bind]. do 3 eexists. split; [reflexivity|].
      split; [repeat split; exact P|]. split; [destruct Hr as [-> | ->]; reflexivity|]. split; [reflexivity|discriminate].
  - (* OUnset *)
    pose proof (dispatch_set_clear (d_tbl d) id 0%N (d_next d)) as H.
    destruct (m_lookup (entries (d_tbl d)) id).
    + destruct H as (tb' & pos & E & P). rewrite E. cbn [bind]. do 3 eexists. split; [reflexivity|].
      split; [repeat split; cbn [abs s_map with_tbl d_tbl s_with_map]; rewrite P; reflexivity|].
      split; [|split; [reflexivity|discriminate]].
      unfold proj_out. destruct (Z.ltb_spec (Z.of_nat pos) 0); [lia|reflexivity].
    + rewrite H. cbn [bind]. do 3 eexists. split; [reflexivity|].
      split; [destruct d; apply seqv_refl|]. split; [reflexivity|]. split; [reflexivity|discriminate].
  - (* OCmdSet *)
    pose proof (command_set_spec (d_tbl d) id (if h then Some FUser else None) (if h then d_next d else 0%N) (d_next d)) as H.
    destruct (m_lookup (entries (d_tbl d)) id) as [h0|].
    + destruct H as (tb' & E & P). rewrite E. cbn [bind]. do 3 eexists. split; [reflexivity|].
      destruct h; cbn [ins regl] in *; (split; [repeat split; exact P|]);
        (split; [reflexivity|]); (split; [reflexivity|discriminate]).
    + destruct H as (tb' & ret & E & Hr & P). rewrite E. cbn [bind]. do 3 eexists. split; [reflexivity|].
      destruct h; cbn [ins regl] in *; (split; [repeat split; exact P|]);
        (split; [destruct Hr as [-> | ->]; reflexivity|]); (split; [reflexivity|discriminate]).
  - (* OGet *)
    do 3 eexists. split; [reflexivity|]. split; [apply seqv_refl|].
    split; [cbn [proj_out]; rewrite cmd_get_lookup; reflexivity|]. split; [reflexivity|discriminate].
  - (* OClear *)
    unfold command_clear. destruct (d_tbl d) as [tb|] eqn:Et.
    + do 3 eexists. split; [reflexivity|]. split; [repeat split; cbn; reflexivity|].
      split; [reflexivity|]. split; [|discriminate].
      rewrite fins_entries. reflexivity.
    + do 3 eexists. split; [reflexivity|]. split; [repeat split; cbn; reflexivity|].
      split; [reflexivity|]. split; [reflexivity|discriminate].
  - (* OReserve *)
    destruct (command_reserve_spec (d_tbl d) max (d_next d)) as (t' & rr & E & Hf & H).
    unfold advice. rewrite E. cbn [bind].
    destruct rr as [pos id| |]; [| |congruence].
    + destruct H as (t2 & Ea & P & Hr & Hm & Hl).
      unfold reserve_arm in Ea. rewrite E in Ea. cbn [bind] in Ea.
      destruct t' as [tb|]; [|discriminate].
      destruct (put (slots tb) pos (mkslot id (Some FUser) (d_next d) (d_next d))) as [sl| |]; try discriminate.
      cbn [bind] in *. inversion Ea; subst t2; clear Ea.
      do 3 eexists. split; [reflexivity|]. cbn [a_id].
      destruct Hr as [Hr1 Hr2].
      rewrite (proj2 (N.leb_le 1 id) Hr1), (proj2 (N.leb_le id (reserve_max max)) Hr2), Hl.
      destruct (N.eqb_spec max 0); [contradiction|]. cbn [andb negb is_some].
      split; [repeat split; exact P|]. split; [reflexivity|]. split; [reflexivity|discriminate].
    + destruct H as (Ea & Ee & Hx). do 3 eexists. split; [reflexivity|]. cbn [a_id].
      assert (Ex : ((max =? 0)%N || ids_exhausted (entries (d_tbl d)) (reserve_max max)) = true).
      { destruct Hx as [->|Hx]; [reflexivity|]. rewrite Hx. apply orb_true_r. }
      rewrite Ex.
      split; [repeat split; cbn [abs s_map with_tbl d_tbl]; rewrite Ee; reflexivity|].
      split; [destruct t'; reflexivity|]. split; [reflexivity|discriminate].
  - (* OEmit *)
    destruct (emit_abs d ev rsp) as (d' & out & lg & E1 & E2 & Hb & Rt).
    exists d', out, lg. split; [exact E1|]. rewrite E2.
    split; [apply seqv_refl|].
    split; [destruct out; try reflexivity; exfalso; apply Hb; reflexivity|]. split; [reflexivity|exact Hb].
  - (* OHash *)
    destruct (hash_abs d ev rsp) as (out & lg & E1 & E2 & Hb).
    exists d, out, lg. split; [exact E1|]. rewrite E2.
    split; [apply seqv_refl|]. split; [destruct out; try reflexivity; exfalso; apply Hb; reflexivity|]. split; [reflexivity|exact Hb].
  - (* OSetErr *)
    do 3 eexists. split; [reflexivity|]. close_eq.
  - (* OSetDef *)
    rewrite cmd_get_lookup.
    destruct (cmd_get (d_tbl d) id) as [[pos s]|] eqn:G.
    + destruct (cmd_find_live_hdl (tslots (d_tbl d)) id 0 pos s) as [h0 Eh].
      { destruct (d_tbl d); [exact G|discriminate]. }
      rewrite Eh. do 3 eexists. split; [reflexivity|]. close_eq.
    + do 3 eexists. split; [reflexivity|]. close_eq.
  - (* OSetCtx *)
    destruct (d_ctx d); do 3 eexists; (split; [reflexivity|]); close_eq.
  - (* OFini *)
    unfold dispatch_fini, command_clear.
    destruct (d_tbl d) as [tb|] eqn:Et; do 3 eexists; (split; [reflexivity|]);
      (split; [apply seqv_refl|]); (split; [reflexivity|]); (split; [|discriminate]).
    + rewrite fins_entries. reflexivity.
    + reflexivity.
  - (* OArr *)
    unfold advice. cbn [a_keep].
    destruct (d_tbl d) as [tb|] eqn:Et.
    + destruct (typed tb); cbn [negb]; do 3 eexists; (split; [reflexivity|]).
      * split; [repeat split; cbn; reflexivity|]. split; [reflexivity|]. split; [|discriminate].
        unfold entries, tslots. rewrite fins_entries. reflexivity.
      * close_eq.
    + do 3 eexists. split; [reflexivity|].
      split; [repeat split; cbn; rewrite ?Et; reflexivity|].
      split; [reflexivity|]. split; [reflexivity|discriminate].
  - (* OAux *)
    rewrite aux_refines. cbn [bind]. destruct (aux_spec x) as [r lg].
    do 3 eexists. split; [reflexivity|]. close_eq.
Qed.

(* ---------------------------------------------------------------- stage 2 *)
Lemma fins_perm m1 m2 : Permutation m1 m2 -> Permutation (fins m1) (fins m2).
Proof. apply Permutation_map. Qed.

Definition res_eqv (r1 r2 : sdisp * sout * list lentry) : Prop :=
  seqv (fst (fst r1)) (fst (fst r2)) /\ snd (fst r1) = snd (fst r2) /\ Permutation (snd r1) (snd r2).

Lemma s_deliver_perm s1 s2 id m rp rsp : swf s1 -> seqv s1 s2 ->
  res_eqv (s_deliver s1 id m rp rsp) (s_deliver s2 id m rp rsp).
Proof.
  intros W Q. pose proof Q as (P & Efb & Edef & Ectx & Enx).
  unfold s_deliver. rewrite <- (m_lookup_perm _ _ id P W), <- Efb, <- Ectx, <- Edef.
  destruct (match m_lookup (s_map s1) id with Some h => Some h | None => s_fb s1 end) as [h|].
  2:{ split; [exact Q|]. split; reflexivity. }
  destruct (s_invoke h id m (match rp with Some _ => rp | None => s_ctx s1 end) rsp) as [[state id'] lg].
  destruct (state <? 0)%Z; [split; [exact Q|]; split; reflexivity|].
  destruct (Z.testbit state 0).
  - destruct (id' =? 0)%N; (split; [repeat split; assumption|]); split; reflexivity.
  - destruct (s_def s1 =? 0)%N; (split; [repeat split; assumption|]); split; reflexivity.
Qed.

Lemma s_deliver_map s id m rp rsp : s_map (fst (fst (s_deliver s id m rp rsp))) = s_map s.
Proof.
  unfold s_deliver.
  destruct (match m_lookup (s_map s) id with Some h => Some h | None => s_fb s end) as [h|]; [|reflexivity].
  destruct (s_invoke h id m _ rsp) as [[state id'] lg].
  destruct (state <? 0)%Z; [reflexivity|].
  destruct (Z.testbit state 0); [destruct (id' =? 0)%N|destruct (s_def s =? 0)%N]; reflexivity.
Qed.

Lemma s_emit_perm s1 s2 ev rsp : swf s1 -> seqv s1 s2 -> res_eqv (s_emit s1 ev rsp) (s_emit s2 ev rsp).
Proof.
  intros W Q. pose proof Q as (P & Efb & Edef & Ectx & Enx).
  unfold s_emit. destruct ev as [e|].
  - destruct (e_msg e) as [F|]; [destruct (concat F)|]; try (apply s_deliver_perm; assumption).
    split; [exact Q|]. split; reflexivity.
  - rewrite <- Edef. destruct (s_def s1 =? 0)%N; [split; [exact Q|]; split; reflexivity|].
    rewrite <- (m_lookup_perm _ _ (s_def s1) P W).
    destruct (m_lookup (s_map s1) (s_def s1)).
    + pose proof (s_deliver_perm s1 s2 (s_def s1) None None rsp W Q) as (A & B & C).
      destruct (s_deliver s1 (s_def s1) None None rsp) as [[a1 b1] c1].
      destruct (s_deliver s2 (s_def s1) None None rsp) as [[a2 b2] c2].
      cbn [fst snd] in *. subst b2. split; [exact A|]. split; [reflexivity|exact C].
    + split; [repeat split; assumption|]. split; reflexivity.
Qed.

Lemma s_emit_map s ev rsp : s_map (fst (fst (s_emit s ev rsp))) = s_map s.
Proof.
  unfold s_emit. destruct ev as [e|].
  - destruct (e_msg e) as [F|]; [destruct (concat F)|]; try apply s_deliver_map. reflexivity.
  - destruct (s_def s =? 0)%N; [reflexivity|].
    destruct (m_lookup (s_map s) (s_def s)); [|reflexivity].
    pose proof (s_deliver_map s (s_def s) None None rsp) as H.
    destruct (s_deliver s (s_def s) None None rsp) as [[a b] c]. exact H.
Qed.

Lemma s_hash_perm s1 s2 ev rsp a : swf s1 -> seqv s1 s2 -> res_eqv (s_hash s1 ev rsp a) (s_hash s2 ev rsp a).
Proof.
  intros W Q. pose proof Q as (P & Efb & Edef & Ectx & Enx).
  unfold s_hash, s_fail. destruct ev as [e|]; [|split; [exact Q|]; split; reflexivity].
  destruct (e_msg e) as [F|]; [|split; [exact Q|]; split; reflexivity].
  destruct (flat_hash_text (concat F)) as [c|raw].
  { destruct (a_unaligned a); split; try exact Q; split; reflexivity. }
  destruct (a_unaligned a).
  { destruct (128 <? length raw); split; try exact Q; split; reflexivity. }
  rewrite <- (m_lookup_perm _ _ _ P W), <- Efb.
  destruct (m_lookup (s_map s1) _) as [h|].
  - destruct (s_invoke h _ _ _ rsp) as [[ret id'] lg].
    destruct (ret <? 0)%Z; split; try exact Q; split; reflexivity.
  - destruct (s_fb s1) as [h|]; [destruct (s_invoke h _ _ _ rsp) as [[ret id'] lg]|];
      split; try exact Q; split; reflexivity.
Qed.

Lemma s_hash_map s ev rsp a : s_map (fst (fst (s_hash s ev rsp a))) = s_map s.
Proof.
  unfold s_hash, s_fail. destruct ev as [e|]; [|reflexivity].
  destruct (e_msg e) as [F|]; [|reflexivity].
  destruct (flat_hash_text (concat F)) as [c|raw]; [destruct (a_unaligned a); reflexivity|].
  destruct (a_unaligned a); [destruct (128 <? length raw); reflexivity|].
  destruct (m_lookup (s_map s) _) as [h|].
  - destruct (s_invoke h _ _ _ rsp) as [[ret id'] lg]. destruct (ret <? 0)%Z; reflexivity.
  - destruct (s_fb s) as [h|]; [destruct (s_invoke h _ _ _ rsp) as [[ret id'] lg]|]; reflexivity.
Qed.

Lemma s_deliver_next s id m rp rsp : s_next (fst (fst (s_deliver s id m rp rsp))) = s_next s.
Proof.
  unfold s_deliver.
  destruct (match m_lookup (s_map s) id with Some h => Some h | None => s_fb s end) as [h|]; [|reflexivity].
  destruct (s_invoke h id m _ rsp) as [[state id'] lg].
  destruct (state <? 0)%Z; [reflexivity|].
  destruct (Z.testbit state 0); [destruct (id' =? 0)%N|destruct (s_def s =? 0)%N]; reflexivity.
Qed.

Lemma s_emit_next s ev rsp : s_next (fst (fst (s_emit s ev rsp))) = s_next s.
Proof.
  unfold s_emit. destruct ev as [e|].
  - destruct (e_msg e) as [F|]; [destruct (concat F)|]; try apply s_deliver_next. reflexivity.
  - destruct (s_def s =? 0)%N; [reflexivity|].
    destruct (m_lookup (s_map s) (s_def s)); [|reflexivity].
    pose proof (s_deliver_next s (s_def s) None None rsp) as H.
    destruct (s_deliver s (s_def s) None None rsp) as [[a b] c]. exact H.
Qed.

Lemma s_hash_next s ev rsp a : s_next (fst (fst (s_hash s ev rsp a))) = s_next s.
Proof.
  unfold s_hash, s_fail. destruct ev as [e|]; [|reflexivity].
  destruct (e_msg e) as [F|]; [|reflexivity].
  destruct (flat_hash_text (concat F)) as [c|raw]; [destruct (a_unaligned a); reflexivity|].
  destruct (a_unaligned a); [destruct (128 <? length raw); reflexivity|].
  destruct (m_lookup (s_map s) _) as [h|].
  - destruct (s_invoke h _ _ _ rsp) as [[ret id'] lg]. destruct (ret <? 0)%Z; reflexivity.
  - destruct (s_fb s) as [h|]; [destruct (s_invoke h _ _ _ rsp) as [[ret id'] lg]|]; reflexivity.
Qed.

Lemma sstep0_next s o a : s_next (fst (fst (sstep0 s o a))) = s_next s.
Proof.
  destruct o as [id|id|id h|id| |max|ev rsp|ev rsp|h|id| | | |x]; unfold sstep0;
    try (destruct (m_lookup (s_map s) id); reflexivity); try reflexivity.
  - destruct h; destruct (m_lookup (s_map s) id); reflexivity.
  - destruct (a_id a); [destruct (_ && _)%bool|destruct (_ || _)%bool]; reflexivity.
  - apply s_emit_next.
  - apply s_hash_next.
  - destruct (s_ctx s); reflexivity.
  - destruct (a_keep a); reflexivity.
  - destruct (aux_spec x); reflexivity.
Qed.

Lemma sstep0_perm s1 s2 o a : swf s1 -> seqv s1 s2 -> res_eqv (sstep0 s1 o a) (sstep0 s2 o a).
Proof.
  intros W Q. pose proof Q as (P & Efb & Edef & Ectx & Enx).
  destruct o as [id|id|id h|id| |max|ev rsp|ev rsp|h|id| | | |x]; unfold sstep0;
    try rewrite <- Enx; try rewrite <- (m_lookup_perm _ _ id P W).
  - destruct (m_lookup (s_map s1) id); (split; [|split; reflexivity]); [exact Q|].
    repeat split; try assumption. cbn. apply perm_skip. exact P.
  - destruct (m_lookup (s_map s1) id); (split; [|split; reflexivity]); [|exact Q].
    repeat split; try assumption. cbn. apply m_remove_perm; assumption.
  - destruct h; destruct (m_lookup (s_map s1) id); (split; [|split; reflexivity]); try exact Q;
      repeat split; try assumption; cbn; try apply perm_skip; try apply m_remove_perm; assumption.
  - split; [exact Q|]. split; reflexivity.
  - split; [repeat split; try assumption; cbn; reflexivity|]. split; [reflexivity|]. apply fins_perm. exact P.
  - destruct (a_id a) as [id|].
    2:{ rewrite <- (ids_exhausted_perm _ _ _ P W).
        destruct (_ || _)%bool; (split; [exact Q|]; split; reflexivity). }
    rewrite <- (m_lookup_perm _ _ id P W).
    destruct ((1 <=? id)%N && (id <=? reserve_max max)%N && negb (max =? 0)%N
              && negb (is_some (m_lookup (s_map s1) id))); (split; [|split; reflexivity]); [|exact Q].
    repeat split; try assumption. cbn. apply perm_skip. exact P.
  - apply s_emit_perm; assumption.
  - apply s_hash_perm; assumption.
  - rewrite <- Efb. split; [repeat split; assumption|]. split; reflexivity.
  - destruct (m_lookup (s_map s1) id); (split; [|split; reflexivity]); [|exact Q].
    repeat split; assumption.
  - rewrite <- Ectx. destruct (s_ctx s1); (split; [|split; reflexivity]); [exact Q|].
    repeat split; assumption.
  - rewrite <- Efb, <- Ectx. split; [repeat split; try reflexivity; assumption|]. split; [reflexivity|].
    apply Permutation_app; [apply fins_perm; exact P|reflexivity].
  - destruct (a_keep a); [split; [exact Q|]; split; reflexivity|].
    split; [repeat split; try assumption; cbn; reflexivity|]. split; [reflexivity|]. apply fins_perm. exact P.
  - destruct (aux_spec x). split; [exact Q|]. split; reflexivity.
Qed.

Lemma sstep0_wf s o a : swf s -> swf (fst (fst (sstep0 s o a))).
Proof.
  unfold swf. intros W.
  destruct o as [id|id|id h|id| |max|ev rsp|ev rsp|h|id| | | |x]; unfold sstep0.
  - destruct (m_lookup (s_map s) id) eqn:E; [exact W|]. cbn. constructor; [|exact W].
    apply m_lookup_none_notin. exact E.
  - destruct (m_lookup (s_map s) id); [|exact W]. cbn. apply m_remove_keys. exact W.
  - destruct h; destruct (m_lookup (s_map s) id) eqn:E; cbn; try exact W.
    + destruct (m_remove_keys (s_map s) id W) as [K1 K2]. constructor; [|exact K1].
      intros Hi. apply K2 in Hi. tauto.
    + constructor; [|exact W]. apply m_lookup_none_notin. exact E.
    + apply m_remove_keys. exact W.
  - exact W.
  - constructor.
  - destruct (a_id a) as [id|]; [|destruct (_ || _)%bool; exact W].
    destruct (m_lookup (s_map s) id) eqn:E; cbn [is_some negb].
    + rewrite andb_false_r. exact W.
    + destruct ((1 <=? id)%N && (id <=? reserve_max max)%N && negb (max =? 0)%N && true); [|exact W].
      cbn. constructor; [|exact W]. apply m_lookup_none_notin. exact E.
  - rewrite s_emit_map. exact W.
  - rewrite s_hash_map. exact W.
  - exact W.
  - destruct (m_lookup (s_map s) id); exact W.
  - destruct (s_ctx s); exact W.
  - constructor.
  - destruct (a_keep a); [exact W|constructor].
  - destruct (aux_spec x); exact W.
Qed.

(* ---------------------------------------------------------------- one step, then histories *)
Lemma R_abs d : dinv d -> R d (abs d).
Proof. intros H. split; [apply seqv_refl|exact H]. Qed.

Lemma R_dinv d s : R d s -> dinv d.
Proof. intros [Q W]. apply seqv_sym in Q. exact (swf_seqv _ _ Q W). Qed.

Lemma step_refines d s o : R d s ->
  let '(d', out, lg) := dstep d o in
  let '(s', so, slg) := sstep s o (advice d o) in
  R d' s' /\ proj_out o out = so /\ Permutation lg slg /\ so <> SBad /\ out <> OFault /\ out <> OFuel.
Proof.
  intros [Q W].
  destruct (dstep0_abs d o) as (d' & out & lg & E & H).
  unfold dstep, sstep. rewrite E. unfold step_ok in H.
  assert (WA : swf (abs d)) by (apply seqv_sym in Q; exact (swf_seqv _ _ Q W)).
  pose proof (sstep0_perm (abs d) s o (advice d o) WA Q) as (A & B & C).
  pose proof (sstep0_wf s o (advice d o) W) as W'.
  destruct (sstep0 (abs d) o (advice d o)) as [[sa soa] lga].
  destruct (sstep0 s o (advice d o)) as [[s' so] slg].
  cbn [fst snd] in *. destruct H as (H1 & H2 & H3 & H4). subst so.
  split; [split|].
  - destruct H1 as (P1 & F1 & D1 & C1 & N1). destruct A as (P2 & F2 & D2 & C2 & N2).
    repeat split; cbn [abs tick s_tick s_map s_fb s_def s_ctx s_next d_tbl d_err d_def d_ctx d_next] in *;
      try congruence. eapply Permutation_trans; eauto.
  - exact W'.
  - split; [exact H2|]. split; [eapply Permutation_trans; eauto|]. split; [exact H4|].
    split; intros ->; apply H4; rewrite <- H2; destruct o; reflexivity.
Qed.

Definition obs_eqv (x y : sout * list lentry * sdisp) : Prop :=
  fst (fst x) = fst (fst y) /\ Permutation (snd (fst x)) (snd (fst y)) /\ seqv (snd x) (snd y).

Lemma run_refines ops : forall d s, R d s ->
  Forall2 obs_eqv (prun d ops) (srun d s ops)
  /\ Forall (fun y => fst (fst y) <> SBad) (srun d s ops)
  /\ Forall (fun x => fst (fst x) <> OFault /\ fst (fst x) <> OFuel) (drun d ops).
Proof.
  induction ops as [|o ops IH]; intros d s HR; cbn [prun srun drun].
  - repeat split; constructor.
  - pose proof (step_refines d s o HR) as H.
    destruct (dstep d o) as [[d' out] lg]. destruct (sstep s o (advice d o)) as [[s' so] slg].
    destruct H as (HR' & H1 & H2 & H3 & H4 & H5).
    destruct (IH d' s' HR') as (I1 & I2 & I3).
    split; [|split].
    + constructor; [|exact I1]. split; [exact H1|]. split; [exact H2|]. exact (proj1 HR').
    + constructor; [exact H3|exact I2].
    + constructor; [split; assumption|exact I3].
Qed.

Lemma dinv_init : dinv dinit.
Proof. constructor. Qed.

(* every state reached by a history satisfies the simulation, hence the invariant *)

Lemma reach_R ops : forall d s, R d s -> R (dfinal d ops) (sfinal d s ops).
Proof.
  induction ops as [|o ops IH]; intros d s HR; cbn [dfinal sfinal]; [exact HR|].
  pose proof (step_refines d s o HR) as H.
  destruct (dstep d o) as [[d' out] lg]. destruct (sstep s o (advice d o)) as [[s' so] slg].
  apply IH. exact (proj1 H).
Qed.
