(* C14/ParseSpec.v — mpt_parse_node on ordered forests.

   The scratch node is a fresh single tree; the elements of the text become its
   children (in text order, at every depth); then
     error               -> the scratch tree is dropped (all of it is released)
     root childless      -> the scratch node's children become root's ([cut]/[graft])
     both have children  -> merge of root's children into the parsed list ([move_l]: what
                            the parsed list lacks is appended, children of equal names are
                            merged recursively), the superseded rest of root's children is
                            released, the merged list becomes root's
     nothing parsed      -> the forest is as before
   and the scratch node is released.  Written with the forest operations of
   NodeSpec.v ([sstep]); there is no link here that could dangle. *)
From Coq Require Import List Arith ZArith Bool.
From MptV Require Import C14.NodeModel C14.NodeSpec C14.ParseModel.
Import ListNotations.
Local Open Scope nat_scope.

Definition srun_ops (s : sstate) (ops : list op) : sstate :=
  fold_left (fun (s : sstate) (o : op) => fst (sstep s o)) ops s.

(* first child of node [x] *)
Definition skid (s : sstate) (x : nat) : ptr :=
  match focus x (lists s) with
  | Some (_, _, tx, _) => hid (tkids tx)
  | None => None
  end.

Definition sparse (s : sstate) (root : nat) (ents : list ptree) (ok : bool) : sstate * out :=
  if slive s root then
    let conf := scount s in
    let s1 := srun_ops s (ONew 0 0 :: fst (build_l conf (S conf) ents)) in
    if ok then
      match skid s1 root with
      | None => (srun_ops s1 [OSwap conf root; ODestroy conf], OutZ 0%Z)
      | Some _ =>
        match skid s1 conf with
        | Some d => (srun_ops s1 [OMove root d; OClear root; OSwap conf root; ODestroy conf], OutZ 0%Z)
        | None => (srun_ops s1 [ODestroy conf], OutZ 0%Z)
        end
      end
    else (srun_ops s1 [OClear conf; ODestroy conf], OutZ (-1)%Z)
  else (s, OutX).

Definition hsstep (s : sstate) (o : hop) : sstate * out :=
  match o with
  | HBase o => sstep s o
  | HParse root ents ok => sparse s root ents ok
  | HParseRefused x => if slive s x then (s, OutZ (-1)%Z) else (s, OutX)
  end.

Fixpoint hsrun (s : sstate) (ops : list hop) : list (out * sstate) :=
  match ops with
  | [] => []
  | o :: r => let '(s', out) := hsstep s o in (out, s') :: hsrun s' r
  end.

(* the forest a parsed text denotes, with the ids the nodes get ([c] = first id) *)
Fixpoint ptree_t (c : nat) (t : ptree) {struct t} : tree * nat :=
  match t with
  | PT nm v k =>
    let '(k', c') :=
      (fix pl (l : list ptree) (c : nat) {struct l} : forest * nat :=
         match l with
         | [] => ([], c)
         | t' :: r => let '(t1, c1) := ptree_t c t' in let '(r1, c2) := pl r c1 in (t1 :: r1, c2)
         end) k (S c) in
    (T c nm v k', c')
  end.
Fixpoint ptree_l (c : nat) (l : list ptree) : forest * nat :=
  match l with
  | [] => ([], c)
  | t :: r => let '(t1, c1) := ptree_t c t in let '(r1, c2) := ptree_l c1 r in (t1 :: r1, c2)
  end.
