(* C14 — Node trees stay structurally sound.
   This file holds only the property theorems (each closed by [exact] of a lemma
   proved elsewhere), their non-vacuity examples and Print Assumptions.

   Reading guide.
   [heap] (C14/NodeModel.v) is a pointer heap: cell id -> next, prev, parent,
   children, name, value; [mstep] transcribes what mptcore/node/*.c does with the
   four links, one operation of the history language [op] per step; a dereference
   of NULL / freed / unallocated memory or a second free is [RFault].
   [sstate] (C14/NodeSpec.v) is an ordered forest: top-level sibling lists of
   [tree]s, a tree being identity, name, value and the ordered list of child trees;
   [sstep] does the same operation on forests (insert at an index, remove, copy
   with fresh ids, ...).  A forest cannot express a cycle, a node in two places, a
   child whose parent does not list it or a next without the matching prev.
   [inv h s] ("h represents s", C14/NodeInv.v): the link fields of every cell are
   exactly the ones the forest dictates ([exp_l]: next/prev = neighbours in the
   sibling list, parent = enclosing tree, children = first child), no live cell lies
   outside the forest, and every id handed out so far is in the forest exactly once
   or in the free list exactly once.  [wf h] is [exists s, inv h s].
   Every operation of the history language is proved to refine its forest
   operation (NodeHistory.step_all): new, gnode_after/before, gnode_add/node_add,
   gnode_insert/node_insert at every position code, unlink, node_move (merge of a
   child list or a local list into a list with overlapping names, recursively),
   node/list/tree clone — also when it fails on the way (a value that refuses to be
   cloned, the k-th allocation of the call) —, clear, destroy, gnode_swap,
   gnode_switch, gnode_relink, traversal (plain, and as a handler sees it: depth,
   early end, level order through mpt_gnode_samelevel / mpt_gnode_sublevel),
   node_find / node_next / node_locate from any node, the entry points called with a
   NULL node, and the final clean-up (unlink + destroy of every node without parent).
   The history language [hop] (C14/ParseModel.v) = every operation above ([HBase o],
   [hstep h (HBase o)] IS [mstep h o]) + [HParse root ents ok] = mpt_parse_node
   (mptcore/parse/parse_node.c) into node [root] with a text that denotes the trees
   [ents] (ParseRefine.step_parse): the nodes of the text below a scratch node, then
   adopt / merge + clear + adopt / leave alone / clear on error, scratch node released. *)
From MptV Require Import C14.NodeModel C14.NodeSpec C14.NodeRep C14.NodeInv C14.NodeRefine
  C14.NodeFree C14.NodeClone C14.NodeLevel C14.NodeHistory C14.NodeCheck C14.NodeEnd
  C14.ParseModel C14.ParseSpec C14.ParseRefine.
From Coq Require Import List ZArith.
Import ListNotations.

(* One operation (ANY operation of the history language), any represented state
   (any number of nodes, any depth, any position, any names): the pointer model does
   not fault, returns what the forest operation returns, and its links afterwards
   are exactly those of the resulting forest — so link consistency, acyclicity and
   single reachability are preserved. *)
Theorem C14_step_refines_forest :
  forall (o : hop) h s, inv h s ->
    exists h', hstep h o = ROk (h', snd (hsstep s o)) /\ inv h' (fst (hsstep s o)).
Proof. exact hstep_all. Qed.

(* ANY history: no step faults, every result equals the specification's, and after
   EVERY step the heap represents the specification's forest. *)
Theorem C14_history_refines_forest :
  forall (ops : list hop) h s, inv h s -> run_rel (hrun h ops) (hsrun s ops).
Proof. exact hhistory_refines. Qed.

(* Well-formedness (some forest is represented) is preserved by every operation and
   the step succeeds. *)
Theorem C14_wf_preserved :
  forall (o : hop) h, wf h -> exists h' out, hstep h o = ROk (h', out) /\ wf h'.
Proof. exact hwf_step. Qed.

(* mpt_parse_node by itself (the instance [HParse] of the theorems above, spelled out):
   into ANY node of ANY represented state, for ANY parsed tree and either outcome of
   the parser, the pointer model does not fault, answers 0 / an error, and its links
   afterwards are exactly those of the forest [sparse] computes — the parsed list
   adopted, merged with what was there (the superseded nodes released), or the forest
   as before when nothing was parsed or the parser failed; every cell handed out in
   the call (scratch node, nodes of the text) is in that forest once or freed once
   ([inv], see C14_released_once). *)
Theorem C14_parse_node_refines_forest :
  forall root ents ok h s, inv h s ->
    exists h', parse_node h root ents ok = ROk (h', snd (sparse s root ents ok)) /\
               inv h' (fst (sparse s root ents ok)).
Proof. exact step_parse. Qed.

(* "Represents a forest" IS link consistency: every heap satisfying the invariant
   passes the explicit raw-link rules of [wfcheck] (NodeModel.v; the same rules the
   harness evaluates on the real nodes): all pointers name live cells, next/prev
   agree, siblings share the parent, a node without prev is its parent's first
   child, a first child has no prev and names its parent, parent chains and next
   chains end (no cycles). *)
Theorem C14_wf_links : forall h s, inv h s -> wfcheck h = true.
Proof. exact inv_wfcheck. Qed.

(* Released exactly once: in every reachable state no id is in the free list twice,
   a freed cell is gone and not in the forest, and every id handed out is either
   freed or a live cell.  (That no operation frees twice or touches freed memory is
   the absence of RFault in the two theorems above.) *)
Theorem C14_released_once :
  forall h s, inv h s ->
    NoDup (freed h) /\
    (forall i, In i (freed h) -> cells h i = None /\ ~ In i (ids_st (lists s))) /\
    (forall i, i < nextid h -> In i (freed h) \/ (exists nd, cells h i = Some nd)).
Proof. exact inv_released_once. Qed.

(* ... and at the end of every history: unlinking and destroying every node without
   parent (what the harness does before it asks LeakSanitizer) leaves no live cell
   and a free list that is a permutation of ALL ids ever handed out: every node
   has been released exactly once. *)
Theorem C14_cleanup_releases_all :
  forall h s, inv h s ->
    exists h', mstep h OEnd = ROk (h', OutZ 0%Z) /\ nextid h' = nextid h /\
      (forall i, cells h' i = None) /\ Permutation.Permutation (freed h') (seq 0 (nextid h)).
Proof. exact end_releases_all. Qed.

(* clear / destroy release exactly the nodes below (and including) the node:
   instances of C14_step_refines_forest, stated for reference through [sstep]:
   [sfreed] grows by [ids_f (tkids tx)] resp. [ids_t tx]. *)

(* Clone: mpt_list_clone of the list starting at [x], whatever fails on the way ([k] = the
   number of the allocation that fails, 0 = none; values with code 3 refuse to be
   cloned): EITHER it creates a new top-level list whose shape (names, values, nesting,
   order — identities erased) equals the source's at every depth, and the heap
   afterwards represents the old forest plus that list (so every clone names its
   parent, next/prev agree, ...), OR it returns NULL and the heap represents the old
   forest alone: every cell it had allocated is in the free list, once.  No existing
   cell is changed either way. *)
Theorem C14_clone_equal_shape :
  forall h s x c l1 tx l2 k,
    inv h s -> focus x (lists s) = Some (c, l1, tx, l2) ->
    exists h',
      (forall i, i < nextid h -> cells h' i = cells h i) /\
      ((exists l',
          mstep h (OLClone x k) = ROk (h', OutP (Some (nextid h))) /\
          inv h' (mkS (lists s ++ [l']) (nextid h') (sfreed s)) /\
          shape_l l' = shape_l (tx :: l2))
       \/
       (mstep h (OLClone x k) = ROk (h', OutP None) /\
        inv h' (mkS (lists s) (nextid h') (seq (nextid h) (nextid h' - nextid h) ++ sfreed s)))).
Proof. exact clone_shape. Qed.

(* ... and the first case it is when nothing fails: no allocation failure and no value
   below that refuses to be cloned. *)
Theorem C14_clone_succeeds :
  forall h s x c l1 tx l2,
    inv h s -> focus x (lists s) = Some (c, l1, tx, l2) -> forallb clonable_t (tx :: l2) = true ->
    exists h', mstep h (OLClone x 0) = ROk (h', OutP (Some (nextid h))).
Proof. exact clone_succeeds. Qed.

(* Traversal as the handler sees it: mpt_gnode_traverse from node [x] in order [o]
   ([None] = level order) calls the handler for exactly the nodes, with the depths, in
   the sequence [swalk] lists for the forest that starts at [x] — pre/in/post order of
   each tree, or level by level ([level]: level 0 is the list itself, level u+1 the
   children of level u in order) — up to the call it answers with non-zero ([cutk]),
   returns that node, and leaves the heap alone. *)
Theorem C14_walk_calls :
  forall h s x c l1 tx l2 o fl k,
    inv h s -> focus x (lists s) = Some (c, l1, tx, l2) ->
    mstep h (OWalk o fl x k) =
    ROk (h, OutW (fst (cutk k (swalk o fl (tx :: l2)))) (snd (cutk k (swalk o fl (tx :: l2))))).
Proof. exact walk_calls. Qed.

(* ---- non-vacuity ---- *)
(* the empty heap represents the empty forest: every history may start here *)
Example C14_inv_empty : inv empty_heap empty_sstate.
Proof. exact inv_empty. Qed.

(* a history with inserts by position and by name, unlink, clone of a tree of depth
   3, clear, destroy, traversal and clean-up ... *)
Definition ex_ops : list op :=
  [ONew 1 0; ONew 2 1; ONew 1 2; ONew 3 0; ONew 2 0;
   OIns false 0 0%Z 1; OIns true 0 (-1)%Z 2; OIns false 1 1%Z 3; OAdd true 1 0%Z 4;
   OTClone 0 0; OUnlink 1; OAfter (Some 2) (Some 1); OClear 5; ODestroy 5; OTrav InOrder 3 0; OEnd].

(* a merge with overlapping names at two levels (what mpt_parse_node does):
   source 0c(1a(2a,3b),4b)  into  5c(6a(7b))  *)
Definition ex_merge : list op :=
  [ONew 3 0; ONew 1 0; ONew 1 0; ONew 2 0; ONew 2 0; OIns false 0 0%Z 1; OIns false 1 0%Z 2; OIns false 1 0%Z 3;
   OIns false 0 0%Z 4; ONew 3 0; ONew 1 0; ONew 2 0; OIns false 5 0%Z 6; OIns false 6 0%Z 7; OMove 0 6; OClear 0; OEnd].


Example C14_ex_merge_result :
  nth 14 (map fst (srun empty_sstate ex_merge)) OutX = OutZ 2%Z /\
  filter (fun l => match l with [] => false | _ => true end)
         (lists (snd (nth 14 (srun empty_sstate ex_merge) (OutX, empty_sstate)))) =
  [[T 0 3 0 [T 1 1 0 [T 3 2 0 []]]]; [T 5 3 0 [T 6 1 0 [T 7 2 0 []; T 2 1 0 []]; T 4 2 0 []]]].
Proof. vm_compute. split; reflexivity. Qed.

(* ... its forests are not trivial: *)
Example C14_ex_final_forest :
  lists (snd (nth 14 (srun empty_sstate ex_ops) (OutX, empty_sstate))) =
  [[T 0 1 0 [T 4 2 0 []; T 2 1 2 []; T 1 2 1 [T 3 3 0 []]]]].
Proof. vm_compute. reflexivity. Qed.

Example C14_ex_clone_was_deep :
  nth 9 (map fst (srun empty_sstate ex_ops)) OutX = OutP (Some 5) /\
  lists (snd (nth 9 (srun empty_sstate ex_ops) (OutX, empty_sstate))) =
  [[T 0 1 0 [T 1 2 1 [T 3 3 0 []]; T 4 2 0 []; T 2 1 2 []]];
   [T 5 1 0 [T 6 2 1 [T 7 3 0 []]; T 8 2 0 []; T 9 1 2 []]]].
Proof. vm_compute. split; reflexivity. Qed.

(* the model runs the same history without fault and its raw-link checker agrees *)
Example C14_ex_model_wf :
  match nth 14 (mrun empty_heap ex_ops) None with
  | Some (OutL l, h) => l = [4; 0; 2; 3; 1] /\ wfcheck h = true /\ freed h = [5; 9; 8; 6; 7]
  | _ => False
  end.
Proof. vm_compute. repeat split; reflexivity. Qed.

(* ... and after the clean-up all ten ids are in the free list, once each *)
Example C14_ex_all_released :
  match last (mrun empty_heap ex_ops) None with
  | Some (OutZ z, h) => z = 0%Z /\ nextid h = 10 /\ length (freed h) = 10 /\ NoDup (freed h)
  | _ => False
  end.
Proof.
  vm_compute. repeat split; try reflexivity.
  repeat (constructor; [cbn; intuition discriminate|]). constructor.
Qed.

(* exchange of child lists and of places (also of adjacent siblings) *)
Example C14_ex_swap_switch :
  let ops := [ONew 1 0; ONew 2 0; ONew 3 0; ONew 1 1; ONew 2 1; OIns false 0 0%Z 1; OIns false 0 0%Z 2;
              OIns false 1 0%Z 3; OIns false 2 0%Z 4; OSwap 1 2; OSwitch 1 2; OSwitch 3 0] in
  map fst (skipn 9 (srun empty_sstate ops)) = [OutP None; OutP None; OutX] /\
  filter (fun l => match l with [] => false | _ => true end)
         (lists (snd (last (srun empty_sstate ops) (OutX, empty_sstate)))) =
  [[T 0 1 0 [T 2 3 0 [T 3 1 1 []]; T 1 2 0 [T 4 2 1 []]]]].
Proof. vm_compute. split; reflexivity. Qed.

(* level order on 0a(2(5,6(9)),3) 1b(4(7(8))): levels [0,1] [2,3,4] [5,6,7] [9,8]; with a handler
   that stops at its 9th call; the same forest in in-order from node 4 *)
Definition ex_forest : list op :=
  [ONew 1 0; ONew 2 0; OAfter (Some 0) (Some 1); ONew 1 0; ONew 2 0; ONew 3 0; OIns false 0 0%Z 2; OIns false 0 0%Z 3;
   OIns false 1 0%Z 4; ONew 1 0; ONew 2 0; ONew 3 0; OIns false 2 0%Z 5; OIns false 2 0%Z 6; OIns false 4 0%Z 7;
   ONew 1 0; ONew 2 0; OIns false 7 0%Z 8; OIns false 6 0%Z 9].
Example C14_ex_level_order :
  map fst (skipn 19 (srun empty_sstate (ex_forest ++ [OWalk None 3 0 0; OWalk None 1 0 9; OWalk (Some InOrder) 3 4 0]))) =
  [OutW [(0,0); (1,0); (2,1); (3,1); (4,1); (5,2); (6,2); (7,2); (9,3); (8,3)] None;
   OutW [(3,1); (5,2); (9,3); (8,3)] None;
   OutW [(8,2); (7,1); (4,0)] None] /\
  map (option_map fst) (skipn 19 (mrun empty_heap (ex_forest ++ [OWalk None 3 0 9; OWalk (Some PreOrder) 2 0 3]))) =
  [Some (OutW [(0,0); (1,0); (2,1); (3,1); (4,1); (5,2); (6,2); (7,2); (9,3)] (Some 9));
   Some (OutW [(0,0); (2,1); (6,2)] (Some 6))].
Proof. vm_compute. split; reflexivity. Qed.

(* clones that fail: a value that cannot be cloned (3) deep in the tree, the 4th allocation; and
   mpt_node_locate with the identifier of no node *)
Example C14_ex_clone_fails :
  let ops := [ONew 1 0; ONew 2 1; ONew 3 3; OIns false 0 0%Z 1; OIns false 1 0%Z 2; OTClone 0 0; OLClone 1 0;
              ONew 1 0; OIns false 1 0%Z 6; OClear 1; OTClone 0 2; OTClone 0 0; OLocate 8 0%Z (Some 1);
              OLocate 8 0%Z (Some 99); OEnd] in
  map fst (skipn 5 (srun empty_sstate ops)) =
  [OutP None; OutP None; OutP (Some 6); OutZ 0%Z; OutP None; OutP None; OutP (Some 8); OutP (Some 8); OutP None; OutZ 0%Z] /\
  match nth 11 (mrun empty_heap ops) None with
  | Some (OutP (Some 8), h) => wfcheck h = true /\ nextid h = 10 /\ length (freed h) = 6 /\ cells h 7 = None
  | _ => False
  end.
Proof. vm_compute. repeat split; reflexivity. Qed.

(* a refused destroy (node still linked) and a guard of the history language *)
Example C14_ex_refusals :
  map fst (srun empty_sstate [ONew 1 0; ONew 2 0; OIns false 0 0%Z 1; ODestroy 1; OAfter (Some 1) (Some 0)])
  = [OutP (Some 0); OutP (Some 1); OutZ 0%Z; OutP (Some 1); OutX].
Proof. vm_compute. reflexivity. Qed.

(* mpt_parse_node: first read into a childless node; a second text is merged (section b
   exists: its new elements win, c of the old one is kept; option a superseded by an empty
   section; old option c kept); a text without elements leaves the tree alone; a text
   with an error builds three nodes and releases them again.  No stage is skipped: the
   forests are the expected ones, the scratch cells 1, 8, 14, 15 are released. *)
Definition ex_text1 := [PT 1 4 []; PT 2 0 [PT 3 4 []; PT 1 0 [PT 2 4 []]]; PT 3 4 []].
Definition ex_text2 := [PT 2 0 [PT 1 0 [PT 1 4 []]; PT 2 4 []]; PT 1 0 []].
Definition ex_parse : list hop :=
  [HBase (ONew 3 0); HParse 0 ex_text1 true; HParse 0 ex_text2 true; HParse 0 [] true;
   HParse 0 [PT 1 4 []; PT 2 0 [PT 1 4 []]] false; HBase OEnd].
Example C14_ex_parse_forests :
  map (fun x => (fst x, lists (snd x))) (firstn 5 (hsrun empty_sstate ex_parse)) =
  [(OutP (Some 0), [[T 0 3 0 []]]);
   (OutZ 0%Z, [[T 0 3 0 [T 2 1 4 []; T 3 2 0 [T 4 3 4 []; T 5 1 0 [T 6 2 4 []]]; T 7 3 4 []]]]);
   (OutZ 0%Z, [[T 0 3 0 [T 9 2 0 [T 10 1 0 [T 11 1 4 []; T 6 2 4 []]; T 12 2 4 []; T 4 3 4 []]; T 13 1 0 []; T 7 3 4 []]]]);
   (OutZ 0%Z, [[T 0 3 0 [T 9 2 0 [T 10 1 0 [T 11 1 4 []; T 6 2 4 []]; T 12 2 4 []; T 4 3 4 []]; T 13 1 0 []; T 7 3 4 []]]]);
   (OutZ (-1)%Z, [[T 0 3 0 [T 9 2 0 [T 10 1 0 [T 11 1 4 []; T 6 2 4 []]; T 12 2 4 []; T 4 3 4 []]; T 13 1 0 []; T 7 3 4 []]]])].
Proof. vm_compute. reflexivity. Qed.

Example C14_ex_parse_model :
  map (fun x => match x with Some (o, h) => Some (o, wfcheck h, freed h, nextid h) | None => None end)
      (hrun empty_heap ex_parse) =
  [Some (OutP (Some 0), true, [], 1); Some (OutZ 0%Z, true, [1], 8);
   Some (OutZ 0%Z, true, [8; 3; 5; 2; 1], 14);
   Some (OutZ 0%Z, true, [14; 8; 3; 5; 2; 1], 15);
   Some (OutZ (-1)%Z, true, [15; 17; 18; 16; 14; 8; 3; 5; 2; 1], 19);
   Some (OutZ 0%Z, true, [0; 7; 13; 9; 4; 12; 10; 6; 11; 15; 17; 18; 16; 14; 8; 3; 5; 2; 1], 19)].
Proof. vm_compute. reflexivity. Qed.

Print Assumptions C14_step_refines_forest.
Print Assumptions C14_parse_node_refines_forest.
Print Assumptions C14_history_refines_forest.
Print Assumptions C14_wf_preserved.
Print Assumptions C14_wf_links.
Print Assumptions C14_released_once.
Print Assumptions C14_cleanup_releases_all.
Print Assumptions C14_clone_equal_shape.
Print Assumptions C14_clone_succeeds.
Print Assumptions C14_walk_calls.
