(* C14 — placeholder while the pipeline is brought up; replaced by the real theorems. *)
From MptV Require Import C14.NodeModel C14.NodeSpec.
Example C14_placeholder : 1 = 1.
Proof. reflexivity. Qed.
