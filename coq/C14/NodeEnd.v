(* C14/NodeEnd.v — the final clean-up of a history (every live node without parent
   is unlinked and destroyed, in index order) releases EVERYTHING: afterwards no
   cell is live and every id handed out is in the free list exactly once. *)
From Coq Require Import List Arith ZArith Bool Lia Permutation Wf_nat.
From MptV Require Import C14.NodeModel C14.NodeSpec C14.NodeRep C14.NodeFocus C14.NodeExec
  C14.NodeLocal C14.NodeInv C14.NodeRefine C14.NodeFree.
Import ListNotations.
Local Open Scope nat_scope.

Definition end_step (rh : R heap) (i : nat) : R heap :=
  do h <- rh;
  match cells h i with
  | Some n =>
    match npar n with
    | None =>
      do '(h, _) <- node_unlink h (Some i);
      do '(h, _) <- node_destroy h (Some i);
      ROk h
    | Some _ => ROk h
    end
  | None => ROk h
  end.

Lemma mstep_end h :
  mstep h OEnd = (do h' <- fold_left end_step (seq 0 (nextid h)) (ROk h); ROk (h', OutZ (Z.of_nat (count_unfreed h')))).
Proof. reflexivity. Qed.

Definition top_live (h : heap) (j : nat) : Prop := exists n, cells h j = Some n /\ npar n = None.
(* every surviving cell was there before, with the same parent *)
Definition par_kept (h h' : heap) : Prop :=
  forall j n', cells h' j = Some n' -> exists n, cells h j = Some n /\ npar n' = npar n.

Lemma rep_agree c1 c2 st j : rep_st c1 st -> rep_st c2 st -> In j (ids_st st) -> c1 j = c2 j.
Proof.
  intros R1 R2 Hj. unfold rep_st, repc in *. rewrite Forall_forall in R1, R2.
  rewrite <- keys_exp_st in Hj. apply in_map_iff in Hj. destruct Hj as ([j' nd] & E & Hin). cbn in E. subst j'.
  pose proof (R1 _ Hin) as E1. pose proof (R2 _ Hin) as E2. cbn [fst snd] in E1, E2. congruence.
Qed.

Lemma end_one h s i : inv h s ->
  exists h' s', end_step (ROk h) i = ROk h' /\ inv h' s' /\ nextid h' = nextid h /\ par_kept h h' /\ ~ top_live h' i.
Proof.
  intros I. unfold end_step. cbn [rbind].
  destruct (cells h i) as [n|] eqn:Hn.
  2:{ exists h, s. split; [reflexivity|]. split; [exact I|]. split; [reflexivity|]. split.
      - intros j n' Hj. eauto.
      - intros (n' & E & _). congruence. }
  destruct (npar n) as [q|] eqn:Hp.
  { exists h, s. split; [reflexivity|]. split; [exact I|]. split; [reflexivity|]. split.
    - intros j n' Hj. eauto.
    - intros (n' & E & E2). congruence. }
  assert (Hin : In i (ids_st (lists s))) by (apply (i_dom _ _ I); rewrite Hn; discriminate).
  destruct (focus_some _ _ Hin) as ([frs o] & l1 & ti & l2 & F).
  destruct (focus_cell _ _ _ _ _ _ _ _ (i_rep _ _ I) F) as [Hc R].
  destruct (focus_perm _ _ _ _ _ _ _ F) as [P Ei].
  rewrite Hn in Hc. inversion Hc; subst n. cbn [npar] in Hp.
  assert (ND : NoDup (ids_st (plug (frs, o) (l1 ++ ti :: l2)))).
  { eapply Permutation_NoDup; [apply ids_st_perm; exact P|exact (inv_nodup _ _ I)]. }
  destruct (unlink_rep _ _ _ _ _ _ R ND) as (h1 & Eu & M & R1 & F1 & K1).
  rewrite Ei in Eu, K1. rewrite Eu. cbn [rbind].
  set (st1 := [ti] :: plug (frs, o) (l1 ++ l2)) in *.
  assert (I1 : inv h1 (with_lists s st1)).
  { apply (inv_relink _ _ _ _ I M R1).
    - unfold st1. rewrite (ids_st_perm _ _ P). symmetry. apply ids_plug_insert.
    - intros j Hj. apply F1. intros K. apply Hj. eapply Permutation_in; [symmetry; apply ids_st_perm; exact P|exact K]. }
  (* destroy: the node is now the singleton list in front *)
  destruct (step_destroy i h1 _ I1) as (h2 & E2 & I2).
  cbn [mstep sstep] in E2, I2.
  assert (TS : take_single i (lists (with_lists s st1)) = Some (ti, plug (frs, o) (l1 ++ l2))).
  { cbn [lists with_lists]. unfold st1, take_single, focus. cbn [focus_st focus_l].
    rewrite Ei, Nat.eqb_refl. reflexivity. }
  rewrite TS in E2, I2. cbn [fst snd] in E2, I2.
  assert (L1 : live h1 i = true).
  { rewrite (live_iff _ _ _ I1). apply mem_in. cbn [lists with_lists]. unfold st1.
    rewrite ids_st_cons. apply in_or_app. left. destruct ti as [i' ? ? ?]. cbn [tid] in Ei. subst i'.
    rewrite ids_f_cons, ids_t_eq. left. reflexivity. }
  rewrite L1 in E2.
  destruct (node_destroy h1 (Some i)) as [[h2' r]| |] eqn:Ed; cbn [rbind] in E2; try discriminate.
  inversion E2; subst h2'. exists h2. eexists. split; [reflexivity|]. split; [exact I2|].
  split; [rewrite (i_cnt _ _ I2), (i_cnt _ _ I); reflexivity|].
  assert (Ci : cells h2 i = None).
  { destruct (inv_released_once _ _ I2) as (_ & Fz & _). apply Fz.
    eapply Permutation_in; [symmetry; exact (i_freed _ _ I2)|]. cbn [sfreed].
    apply in_or_app. left. destruct ti as [i' ? ? ?]. cbn [tid] in Ei. subst i'. rewrite ids_t_eq. left. reflexivity. }
  split.
  - intros j n2 Hj.
    assert (Nji : j <> i) by (intros ->; congruence).
    assert (Hjin : In j (ids_st (plug (frs, o) (l1 ++ l2)))) by (apply (i_dom _ _ I2); rewrite Hj; discriminate).
    assert (E12 : cells h1 j = cells h2 j).
    { apply (rep_agree _ _ (plug (frs, o) (l1 ++ l2))); [|exact (i_rep _ _ I2)|exact Hjin].
      unfold st1 in R1. rewrite rep_st_cons in R1. tauto. }
    rewrite <- E12 in Hj. destruct (K1 j n2 Hj) as (n0 & E0 & Kp). exists n0. split; [exact E0|]. apply Kp. exact Nji.
  - intros (n' & E & _). congruence.
Qed.

Lemma end_fold : forall l h s, inv h s ->
  exists h' s', fold_left end_step l (ROk h) = ROk h' /\ inv h' s' /\ nextid h' = nextid h /\ par_kept h h' /\
    (forall i, In i l -> ~ top_live h' i).
Proof.
  induction l as [|i l IH]; intros h s I.
  - exists h, s. split; [reflexivity|]. split; [exact I|]. split; [reflexivity|]. split; [|intros i []].
    intros j n' Hj. eauto.
  - cbn [fold_left]. destruct (end_one h s i I) as (h1 & s1 & E1 & I1 & N1 & K1 & T1). rewrite E1.
    destruct (IH h1 s1 I1) as (h2 & s2 & E2 & I2 & N2 & K2 & T2).
    exists h2, s2. split; [exact E2|]. split; [exact I2|]. split; [congruence|]. split.
    + intros j n2 Hj. destruct (K2 j n2 Hj) as (n1 & Hj1 & P1). destruct (K1 j n1 Hj1) as (n0 & Hj0 & P0).
      exists n0. split; [exact Hj0|congruence].
    + intros j [<-|Hj]; [|apply T2; exact Hj].
      intros (n2 & Hj2 & P2). destruct (K2 _ _ Hj2) as (n1 & Hj1 & P1). apply T1. exists n1. split; [exact Hj1|congruence].
Qed.

(* a heap that represents a forest and has a live cell has a live cell without parent *)
Lemma live_has_top h s j n : inv h s -> cells h j = Some n -> exists r, top_live h r /\ r < nextid h.
Proof.
  intros I Hn.
  assert (Hin : In j (ids_st (lists s))) by (apply (i_dom _ _ I); rewrite Hn; discriminate).
  destruct (focus_some _ _ Hin) as ([frs o] & l1 & tj & l2 & F).
  destruct (focus_cell _ _ _ _ _ _ _ _ (i_rep _ _ I) F) as [Hc R].
  rewrite rep_plug in R. destruct R as (_ & Rf & _).
  destruct (exists_last_or_nil frs) as [->|(frs' & fr & ->)].
  - exists j. split; [eexists; split; [exact Hc|reflexivity]|]. exact (inv_bound _ _ _ I Hin).
  - (* the outermost frame is a top-level node *)
    assert (G : forall fs hd, rep_frames (cells h) (fs ++ [fr]) hd ->
               exists nr, cells h (fi fr) = Some nr /\ npar nr = None).
    { induction fs as [|f fs IHf]; intros hd Rr; cbn [app rep_frames] in Rr.
      - destruct Rr as (_ & Hr & _). eexists. split; [exact Hr|reflexivity].
      - destruct Rr as (_ & _ & _ & Rr). exact (IHf _ Rr). }
    destruct (G _ _ Rf) as (nr & Hr & Pr). exists (fi fr). split; [exists nr; auto|].
    apply (inv_bound _ _ _ I). apply (i_dom _ _ I). rewrite Hr. discriminate.
Qed.

Lemma step_end : refines_step OEnd.
Proof.
  intros h s I. rewrite mstep_end. cbn [sstep fst snd].
  destruct (end_fold (seq 0 (nextid h)) h s I) as (h' & s' & E & I' & Nx & K & T). rewrite E. cbn [rbind].
  (* nothing is live any more *)
  assert (Dead : forall j, cells h' j = None).
  { intros j. destruct (cells h' j) as [n|] eqn:Hn; [|reflexivity]. exfalso.
    destruct (live_has_top _ _ _ _ I' Hn) as (r & Tr & Br).
    apply (T r); [apply in_seq; lia|exact Tr]. }
  assert (Cnt : count_unfreed h' = 0).
  { unfold count_unfreed. generalize (seq 0 (nextid h')) as l. induction l as [|j l IHl]; [reflexivity|].
    cbn [filter]. unfold live at 1. rewrite Dead. exact IHl. }
  rewrite Cnt. exists h'. split; [reflexivity|].
  assert (Emp : ids_st (lists s') = []).
  { destruct (ids_st (lists s')) as [|j r] eqn:El; [reflexivity|]. exfalso.
    destruct (rep_cell_some _ _ j (i_rep _ _ I')) as (nd & Hnd); [rewrite El; left; reflexivity|].
    rewrite Dead in Hnd. discriminate. }
  constructor; cbn [lists scount sfreed].
  - apply rep_st_nil.
  - rewrite Nx. exact (i_cnt _ _ I).
  - cbn [ids_st flat_map app]. exact (i_perm _ _ I).
  - intros j Hj. rewrite Dead in Hj. congruence.
  - rewrite (i_freed _ _ I'). pose proof (i_perm _ _ I') as P'. rewrite Emp in P'. cbn [app] in P'.
    rewrite P'. rewrite <- (i_cnt _ _ I'), Nx, (i_cnt _ _ I). symmetry. exact (i_perm _ _ I).
Qed.

(* the clean-up releases everything: every id ever handed out is freed exactly once *)
Lemma end_releases_all h s : inv h s ->
  exists h', mstep h OEnd = ROk (h', OutZ 0%Z) /\ nextid h' = nextid h /\
    (forall i, cells h' i = None) /\ Permutation (freed h') (seq 0 (nextid h)).
Proof.
  intros I. destruct (step_end h s I) as (h' & E & I'). cbn [sstep fst snd] in E, I'.
  exists h'. split; [exact E|]. split; [rewrite (i_cnt _ _ I'), (i_cnt _ _ I); reflexivity|]. split.
  - intros i. destruct (cells h' i) eqn:C; [|reflexivity]. exfalso.
    assert (K : In i (ids_st (lists (mkS [] (scount s) (ids_st (lists s) ++ sfreed s))))).
    { apply (i_dom _ _ I'). rewrite C. discriminate. }
    exact K.
  - rewrite (i_freed _ _ I'). cbn [sfreed]. rewrite (i_cnt _ _ I). exact (i_perm _ _ I).
Qed.
