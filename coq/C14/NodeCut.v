(* C14/NodeCut.v — cutting and grafting child lists: the representation of a forest
   splits into the representation of the forest with one node made childless
   (its children link masked) and the representation of the detached child list. *)
From Coq Require Import List Arith ZArith Bool Lia Permutation Wf_nat.
From MptV Require Import C14.NodeModel C14.NodeSpec C14.NodeRep C14.NodeFocus C14.NodeExec
  C14.NodeLocal C14.NodeInv C14.NodeRefine C14.NodeFree C14.NodeClone.
Import ListNotations.
Local Open Scope nat_scope.

(* the heap with the children link of [x] hidden *)
Definition mask (c : cellmap) (x : nat) : cellmap :=
  fun i => if i =? x then option_map (set_kid None) (c i) else c i.

Lemma mask_other c x i : i <> x -> mask c x i = c i.
Proof. intros H. unfold mask. rewrite (proj2 (Nat.eqb_neq i x) H). reflexivity. Qed.
Lemma mask_same c x : mask c x x = option_map (set_kid None) (c x).
Proof. unfold mask. rewrite Nat.eqb_refl. reflexivity. Qed.

Lemma repc_mask c x e : ~ In x (map fst e) -> (repc (mask c x) e <-> repc c e).
Proof.
  intros H. split; intros R; eapply repc_frame; try exact R; intros i Hi;
    [symmetry|]; apply mask_other; intros ->; contradiction.
Qed.

Lemma rep_l_mask c x par prv l aft : ~ In x (ids_f l) -> (rep_l (mask c x) par prv l aft <-> rep_l c par prv l aft).
Proof. intros H. apply repc_mask. rewrite keys_exp_l. exact H. Qed.
Lemma rep_st_mask c x st : ~ In x (ids_st st) -> (rep_st (mask c x) st <-> rep_st c st).
Proof. intros H. apply repc_mask. rewrite keys_exp_st. exact H. Qed.

Lemma rep_frames_mask c x frs : forall hd, ~ In x (ids_frs frs) -> (rep_frames (mask c x) frs hd <-> rep_frames c frs hd).
Proof.
  intros hd H. split; intros R; eapply rep_frames_frame; try exact R; intros i Hi;
    [symmetry|]; apply mask_other; intros ->; contradiction.
Qed.

Lemma ids_cut frs o l1 x n v k l2 :
  Permutation (ids_st (plug (frs, o) (l1 ++ T x n v k :: l2)))
              (ids_st (plug (frs, o) (l1 ++ T x n v [] :: l2)) ++ ids_f k).
Proof.
  rewrite !ids_plug, !ids_f_app, !ids_f_cons, !ids_t_eq. cbn [ids_f flat_map app].
  rewrite <- !app_assoc. cbn [app]. apply Permutation_app_head. apply perm_skip.
  rewrite (Permutation_app_comm (ids_f k)). rewrite <- !app_assoc.
  apply Permutation_app_head. rewrite (app_assoc (ids_frs frs)). apply Permutation_app_comm.
Qed.

Lemma rep_cut c frs o l1 x n v k l2 :
  NoDup (ids_st (plug (frs, o) (l1 ++ T x n v k :: l2))) ->
  (rep_st c (plug (frs, o) (l1 ++ T x n v k :: l2)) <->
   rep_st (mask c x) (plug (frs, o) (l1 ++ T x n v [] :: l2)) /\
   (exists nd, c x = Some nd /\ nkid nd = hid k) /\
   rep_l c (Some x) None k None).
Proof.
  intros ND.
  assert (NS : NoDup (concat [[x]; ids_f k; ids_f l1; ids_f l2; ids_frs frs; ids_st o])).
  { eapply Permutation_NoDup; [|exact ND].
    rewrite ids_plug. cbn [concat]. rewrite ids_f_app, ids_f_cons, ids_t_eq.
    rewrite !app_nil_r. norm_app.
    transitivity (ids_f l1 ++ (x :: ids_f k) ++ ids_f l2 ++ ids_frs frs ++ ids_st o).
    - norm_app. reflexivity.
    - rewrite Permutation_app_swap_app. norm_app. reflexivity. }
  assert (N1 : ~ In x (ids_f l1)) by (intros K; seg_absurd NS 2 0).
  assert (N2 : ~ In x (ids_f l2)) by (intros K; seg_absurd NS 3 0).
  assert (N3 : ~ In x (ids_frs frs)) by (intros K; seg_absurd NS 4 0).
  assert (N4 : ~ In x (ids_st o)) by (intros K; seg_absurd NS 5 0).
  rewrite !rep_plug, !rep_l_mid.
  rewrite (rep_l_mask c x _ _ l1 _ N1), (rep_l_mask c x _ _ l2 _ N2), (rep_frames_mask c x frs _ N3),
    (rep_st_mask c x o N4), mask_same.
  replace (hid (l1 ++ T x n v [] :: l2)) with (hid (l1 ++ T x n v k :: l2))
    by (rewrite !hid_hid_or, !hid_or_app; reflexivity).
  cbn [hid].
  split.
  - intros ((Ha & Hx & Hk & Hb) & Hf & Ho). repeat split; auto.
    + rewrite Hx. reflexivity.
    + apply rep_l_nil.
    + eexists. split; [exact Hx|reflexivity].
  - intros (((Ha & Hx & _ & Hb) & Hf & Ho) & (nd & Hnd & Hkid) & Hk). repeat split; auto.
    rewrite Hnd in Hx |- *. cbn [option_map] in Hx. inversion Hx. destruct nd; cbn in *. subst. reflexivity.
Qed.

(* for (c = first; c; c = c->next) c->parent = par — whatever the parent was *)
Lemma set_parents_from : forall l h prv s c fuel,
  rep_l (cells h) s prv l None -> NoDup (ids_f l) -> length l < fuel ->
  exists h', set_parents fuel h (hid l) c = ROk h' /\ same_meta h h' /\
    rep_l (cells h') (Some c) prv l None /\
    (forall i, ~ In i (ids_f l) -> cells h' i = cells h i).
Proof.
  induction l as [|[i n v k] r IH]; intros h prv s c fuel R ND Hf.
  - destruct fuel; cbn [hid set_parents]; exists h; (split; [reflexivity|]);
      (split; [split; reflexivity|]); (split; [apply rep_l_nil|auto]).
  - destruct fuel as [|fuel]; [cbn in Hf; lia|]. cbn [hid tid set_parents].
    rewrite rep_l_cons, rep_t_eq in R. destruct R as ((Hi & Hk) & Hr).
    rewrite ids_f_cons, ids_t_eq in ND. inversion ND as [|? ? Ni ND']; subst.
    apply NoDup_app_inv in ND'. destruct ND' as (NDk & NDr & Dj).
    rewrite (wr_ok _ _ _ _ _ Hi). cbn [rbind].
    erewrite fld_ok by (rewrite cells_put, Nat.eqb_refl; reflexivity). cbn [rbind set_par nnext].
    destruct (IH (put h i (set_par (Some c) (mkN (hid_or r None) prv s (hid k) n v))) (Some i) s c fuel)
      as (h' & E & M & R' & F).
    { eapply rep_l_frame; [exact Hr|]. intros j Hj. rewrite cells_put.
      destruct (Nat.eqb_spec j i) as [->|]; [|reflexivity]. exfalso. apply Ni. apply in_or_app. auto. }
    { exact NDr. }
    { cbn in Hf. lia. }
    rewrite (hid_hid_or r) in E. rewrite E. exists h'. split; [reflexivity|]. split; [exact M|]. split.
    + rewrite rep_l_cons, rep_t_eq. cbn [tid]. repeat split.
      * rewrite F by (intros K; apply Ni; apply in_or_app; auto).
        rewrite cells_put, Nat.eqb_refl. reflexivity.
      * eapply rep_l_frame; [exact Hk|]. intros j Hj.
        rewrite F by (intros K; exact (Dj _ Hj K)). rewrite cells_put.
        destruct (Nat.eqb_spec j i) as [->|]; [|reflexivity]. exfalso. apply Ni. apply in_or_app. auto.
      * exact R'.
    + intros j Hj. rewrite ids_f_cons, ids_t_eq in Hj.
      rewrite F by (intros K; apply Hj; right; apply in_or_app; auto). rewrite cells_put.
      destruct (Nat.eqb_spec j i) as [->|]; [|reflexivity]. exfalso. apply Hj. left. reflexivity.
Qed.

(* ---------------------------------------------------------------- cut and graft on a represented state *)
Lemma cut_facts c st x tx s1 :
  NoDup (ids_st st) -> rep_st c st -> cut x st = Some (tx, s1) ->
  tid tx = x /\ rep_st (mask c x) s1 /\
  (exists nd, c x = Some nd /\ nkid nd = hid (tkids tx) /\ nname nd = tname tx /\ nval nd = tval tx) /\
  rep_l c (Some x) None (tkids tx) None /\
  Permutation (ids_st st) (ids_st s1 ++ ids_f (tkids tx)) /\ In x (ids_st s1).
Proof.
  intros ND R C. unfold cut in C.
  destruct (focus x st) as [[[[[frs o] l1] t] l2]|] eqn:F; [|discriminate]. inversion C; subst tx s1. clear C.
  destruct (focus_perm _ _ _ _ _ _ _ F) as [P Ex].
  destruct t as [x' n v k]. cbn [tid tname tval tkids] in *. subst x'.
  pose proof (rep_st_perm _ _ _ P R) as R1.
  assert (ND1 : NoDup (ids_st (plug (frs, o) (l1 ++ T x n v k :: l2))))
    by (eapply Permutation_NoDup; [apply ids_st_perm; exact P|exact ND]).
  destruct (proj1 (rep_cut c frs o l1 x n v k l2 ND1) R1) as (Rm & (nd & Hnd & Hk) & Rk).
  split; [reflexivity|]. split; [exact Rm|]. split.
  - destruct (focus_cell _ _ _ _ _ _ _ _ R F) as [Hc _]. cbn [tkids tname tval] in Hc.
    rewrite Hc in Hnd. inversion Hnd; subst nd. eexists. split; [exact Hc|]. auto.
  - split; [exact Rk|]. split.
    + rewrite (ids_st_perm _ _ P). apply ids_cut.
    + eapply Permutation_in; [symmetry; apply ids_plug|]. apply in_or_app. left.
      rewrite ids_f_app, ids_f_cons, ids_t_eq. apply in_or_app. right. left. reflexivity.
Qed.

Lemma hid_nil_inv (l : forest) : hid l = None -> l = [].
Proof. destruct l; [reflexivity|discriminate]. Qed.

Lemma graft_rep c s x k :
  rep_st (mask c x) s -> (exists nd, c x = Some nd /\ nkid nd = hid k) ->
  rep_l c (Some x) None k None -> In x (ids_st s) -> NoDup (ids_st s ++ ids_f k) ->
  exists s', graft x k s = Some s' /\ rep_st c s' /\ Permutation (ids_st s') (ids_st s ++ ids_f k) /\
             In x (ids_st s').
Proof.
  intros Rm (nd & Hnd & Hk) Rk Hin ND. unfold graft.
  destruct (focus_some _ _ Hin) as ([frs o] & l1 & t & l2 & F). rewrite F.
  destruct (focus_perm _ _ _ _ _ _ _ F) as [P Ex].
  destruct (focus_cell _ _ _ _ _ _ _ _ Rm F) as [Hc Rp].
  destruct t as [x' n v k0]. cbn [tid tname tval tkids] in *. subst x'.
  rewrite mask_same, Hnd in Hc. cbn [option_map] in Hc.
  pose proof (f_equal (option_map nkid) Hc) as Hkid. cbn in Hkid.
  assert (K0 : k0 = []) by (apply hid_nil_inv; congruence). subst k0. clear Hkid Hc.
  eexists. split; [reflexivity|].
  assert (PI : Permutation (ids_st (plug (frs, o) (l1 ++ T x n v k :: l2))) (ids_st s ++ ids_f k)).
  { rewrite ids_cut. apply Permutation_app_tail. symmetry. apply ids_st_perm. exact P. }
  assert (ND1 : NoDup (ids_st (plug (frs, o) (l1 ++ T x n v k :: l2))))
    by (eapply Permutation_NoDup; [symmetry; exact PI|exact ND]).
  split; [|split; [exact PI|]].
  - apply (proj2 (rep_cut c frs o l1 x n v k l2 ND1)). split; [exact Rp|]. split; [|exact Rk]. eauto.
  - eapply Permutation_in; [symmetry; apply ids_plug|]. apply in_or_app. left.
    rewrite ids_f_app, ids_f_cons, ids_t_eq. apply in_or_app. right. left. reflexivity.
Qed.

(* masking a children link does not change parent chains *)
Lemma anc_mask c x nid fr u : forall fuel w,
  anc_or_eq fuel (mkH (mask c x) nid fr) u w = anc_or_eq fuel (mkH c nid fr) u w.
Proof.
  induction fuel as [|fuel IH]; intros w; [reflexivity|]. cbn [anc_or_eq].
  destruct (u =? w); [reflexivity|]. unfold get. cbn [cells]. unfold mask.
  destruct (Nat.eqb_spec w x) as [->|N].
  - destruct (c x) as [nd|]; cbn [option_map rbind]; [|reflexivity]. cbn [set_kid npar].
    destruct (npar nd); [apply IH|reflexivity].
  - destruct (c w) as [nd|]; cbn [rbind]; [|reflexivity]. destruct (npar nd); [apply IH|reflexivity].
Qed.

(* the guard: [a] is [b] or one of its ancestors *)
Lemma anc_guard h s a b : inv h s -> live h b = true ->
  anc_or_eq (fuel_of h) h a b = ROk (mem a (b :: ancs b (lists s))).
Proof.
  intros I L. rewrite (live_iff _ _ _ I) in L. apply mem_in in L.
  destruct (focus_some _ _ L) as ([frs o] & l1 & tb & l2 & F).
  rewrite (anc_focus h (lists s) a b frs o l1 tb l2 (fuel_of h) (i_rep _ _ I) F (focus_fuel _ _ _ _ _ _ _ _ I F)).
  unfold ancs. rewrite F. reflexivity.
Qed.

(* a node below [x] has [x] among its ancestors (any heap that represents the children) *)
Lemma below_anc h x k p :
  rep_l (cells h) (Some x) None k None -> In p (ids_f k) -> S (fsize k) <= fuel_of h ->
  anc_or_eq (fuel_of h) h x p = ROk true.
Proof.
  intros R Hp Hf. rewrite (heap_eta h).
  apply (anc_below (cells h) (nextid h) (freed h) x k x None None 1 R); [|exact Hp|cbn [nextid]; unfold fuel_of in *; cbn [nextid]; lia].
  intros f Hf1. destruct f; [lia|]. cbn [anc_or_eq]. rewrite Nat.eqb_refl. reflexivity.
Qed.
