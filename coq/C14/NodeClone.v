(* C14/NodeClone.v — mpt_node_clone / mpt_list_clone / mpt_tree_clone build, out of
   fresh cells only, a pointer structure that represents the copy of the source forest
   (same names, values, nesting, order — and parent links at every depth), and leave
   every existing cell as it was.  When a node cannot be cloned (its value refuses, an
   allocation fails) everything built so far is unlinked, destroyed and freed once
   ([clone_cleanup], [clone_failed]) and the heap represents the old forest alone. *)
From Coq Require Import List Arith ZArith Bool Lia Permutation Wf_nat.
From MptV Require Import C14.NodeModel C14.NodeSpec C14.NodeRep C14.NodeFocus C14.NodeExec
  C14.NodeLocal C14.NodeInv C14.NodeRefine C14.NodeFree.
Import ListNotations.
Local Open Scope nat_scope.

(* ---------------------------------------------------------------- the specification's clone *)
Lemma sclone_t_eq i n v k c kk :
  sclone_t (T i n v k) c kk =
  if unclonable v then (None, c, kk)
  else
    let '(k1, f) := tick kk in
    if f then (None, c, k1)
    else
      let '(k2, f2) := if name_alloc n then tick k1 else (k1, false) in
      if f2 then (None, S c, k2)
      else
        let '(kids', c', k') := sclone_l k (S c) k2 in
        match kids' with
        | Some kk' => (Some (T c n v kk'), c', k')
        | None => (None, c', k')
        end.
Proof.
  cbn [sclone_t]. destruct (unclonable v); [reflexivity|].
  destruct (tick kk) as [k1 f]. destruct f; [reflexivity|].
  destruct (if name_alloc n then tick k1 else (k1, false)) as [k2 f2]. destruct f2; [reflexivity|].
  match goal with |- context [?f k (S c) k2] =>
    enough (E : forall l d e, f l d e = sclone_l l d e) by (rewrite E; reflexivity) end.
  induction l as [|t r IH]; intros d e; [reflexivity|].
  cbn [sclone_l]. destruct (sclone_t t d e) as [[[t'|] c1] k1']; [|reflexivity].
  rewrite IH. reflexivity.
Qed.

Lemma sclone_l_cons t r c k :
  sclone_l (t :: r) c k =
  match sclone_t t c k with
  | (Some t', c1, k1) =>
    match sclone_l r c1 k1 with
    | (Some r', c2, k2) => (Some (t' :: r'), c2, k2)
    | (None, c2, k2) => (None, c2, k2)
    end
  | (None, c1, k1) => (None, c1, k1)
  end.
Proof. reflexivity. Qed.

(* shape: the tree without node identities *)
Inductive shape := Sh (n v : nat) (k : list shape).
Fixpoint shape_t (t : tree) : shape := match t with T _ n v k => Sh n v (map shape_t k) end.
Definition shape_l (l : forest) : list shape := map shape_t l.

(* a clone that succeeds has the fresh ids in pre-order and the shape of its source;
   one that fails has consumed at most as many ids *)
Lemma sclone_l_spec : forall l c k,
  match sclone_l l c k with
  | (Some l', c', _) => ids_f l' = seq c (fsize l) /\ c' = c + fsize l /\ shape_l l' = shape_l l
  | (None, c', _) => c <= c' <= c + fsize l
  end.
Proof.
  intros l. induction l as [l IH] using (well_founded_induction (well_founded_ltof _ fsize)).
  unfold ltof in IH. intros c k. destruct l as [|[i n v kk] r]; [cbn; auto|].
  rewrite sclone_l_cons, sclone_t_eq, fsize_cons, tsize_eq.
  destruct (unclonable v); [lia|].
  destruct (tick k) as [k1 f]. destruct f; [lia|].
  destruct (if name_alloc n then tick k1 else (k1, false)) as [k2 f2]. destruct f2; [lia|].
  pose proof (IH kk ltac:(rewrite fsize_cons, tsize_eq; lia) (S c) k2) as Hk.
  destruct (sclone_l kk (S c) k2) as [[[kk'|] c1] k3]; [|lia].
  destruct Hk as (K1 & K2 & K3). subst c1.
  pose proof (IH r ltac:(rewrite fsize_cons, tsize_eq; lia) (S c + fsize kk) k3) as Hr.
  destruct (sclone_l r (S c + fsize kk) k3) as [[[r'|] c2] k4]; [|lia].
  destruct Hr as (R1 & R2 & R3). subst c2.
  rewrite ids_f_cons, ids_t_eq, K1, R1. split; [|split; [lia|]].
  - cbn [app]. replace (S (fsize kk) + fsize r) with (S (fsize kk + fsize r)) by lia.
    cbn [seq]. f_equal. rewrite seq_app. f_equal.
  - unfold shape_l in *. cbn [map shape_t]. rewrite K3, R3. reflexivity.
Qed.

(* no allocation failure, no unclonable value: the clone succeeds *)
Fixpoint clonable_t (t : tree) : bool :=
  match t with T _ _ v k => negb (unclonable v) && forallb clonable_t k end.

Lemma tick_0 : tick 0 = (0, false).
Proof. reflexivity. Qed.

Lemma sclone_l_ok : forall l c, forallb clonable_t l = true -> exists l' c', sclone_l l c 0 = (Some l', c', 0).
Proof.
  intros l. induction l as [l IH] using (well_founded_induction (well_founded_ltof _ fsize)).
  unfold ltof in IH. intros c H. destruct l as [|[i n v kk] r]; [cbn; eauto|].
  cbn [forallb clonable_t] in H. apply andb_prop in H. destruct H as [H Hr].
  apply andb_prop in H. destruct H as [Hv Hk].
  rewrite sclone_l_cons, sclone_t_eq. destruct (unclonable v); [discriminate|].
  rewrite tick_0. assert (E : (if name_alloc n then tick 0 else (0, false)) = (0, false)) by (destruct (name_alloc n); reflexivity).
  rewrite E.
  destruct (IH kk ltac:(rewrite fsize_cons, tsize_eq; lia) (S c) Hk) as (kk' & c1 & ->).
  destruct (IH r ltac:(rewrite fsize_cons, tsize_eq; lia) c1 Hr) as (r' & c2 & ->). eauto.
Qed.

(* ---------------------------------------------------------------- set_parents *)
Lemma set_parents_spec : forall l h prv c fuel,
  rep_l (cells h) None prv l None -> NoDup (ids_f l) -> length l < fuel ->
  exists h', set_parents fuel h (hid l) c = ROk h' /\ same_meta h h' /\
    rep_l (cells h') (Some c) prv l None /\
    (forall i, ~ In i (ids_f l) -> cells h' i = cells h i).
Proof.
  induction l as [|[i n v k] r IH]; intros h prv c fuel R ND Hf.
  - destruct fuel; cbn [hid set_parents]; exists h; (split; [reflexivity|]);
      (split; [split; reflexivity|]); (split; [apply rep_l_nil|auto]).
  - destruct fuel as [|fuel]; [cbn in Hf; lia|]. cbn [hid tid set_parents].
    rewrite rep_l_cons, rep_t_eq in R. destruct R as ((Hi & Hk) & Hr).
    rewrite ids_f_cons, ids_t_eq in ND. inversion ND as [|? ? Ni ND']; subst.
    apply NoDup_app_inv in ND'. destruct ND' as (NDk & NDr & Dj).
    rewrite (wr_ok _ _ _ _ _ Hi). cbn [rbind].
    erewrite fld_ok by (rewrite cells_put, Nat.eqb_refl; reflexivity). cbn [rbind set_par nnext].
    destruct (IH (put h i (set_par (Some c) (mkN (hid_or r None) prv None (hid k) n v))) (Some i) c fuel)
      as (h' & E & M & R' & F).
    { eapply rep_l_frame; [exact Hr|]. intros j Hj. rewrite cells_put.
      destruct (Nat.eqb_spec j i) as [->|]; [|reflexivity]. exfalso. apply Ni. apply in_or_app. auto. }
    { exact NDr. }
    { cbn in Hf. lia. }
    rewrite (hid_hid_or r) in E. rewrite E. exists h'. split; [reflexivity|]. split; [exact M|]. split.
    + rewrite rep_l_cons, rep_t_eq. cbn [tid]. repeat split.
      * rewrite F by (intros K; apply Ni; apply in_or_app; auto).
        rewrite cells_put, Nat.eqb_refl. reflexivity.
      * eapply rep_l_frame; [exact Hk|]. intros j Hj.
        rewrite F by (intros K; exact (Dj _ Hj K)). rewrite cells_put.
        destruct (Nat.eqb_spec j i) as [->|]; [|reflexivity]. exfalso. apply Ni. apply in_or_app. auto.
      * exact R'.
    + intros j Hj. rewrite ids_f_cons, ids_t_eq in Hj.
      rewrite F by (intros K; apply Hj; right; apply in_or_app; auto). rewrite cells_put.
      destruct (Nat.eqb_spec j i) as [->|]; [|reflexivity]. exfalso. apply Hj. left. reflexivity.
Qed.

Lemma length_le_ids (l : forest) : length l <= length (ids_f l).
Proof.
  induction l as [|[i n v k] r IH]; [reflexivity|].
  rewrite ids_f_cons, ids_t_eq, app_length. cbn [length]. lia.
Qed.

(* ---------------------------------------------------------------- the failure branch: destroy what was built *)
Lemma rep_cell_l c par prv l aft i : rep_l c par prv l aft -> In i (ids_f l) -> exists nd, c i = Some nd.
Proof.
  intros H Hi. unfold rep_l, repc in H. rewrite Forall_forall in H.
  rewrite <- (keys_exp_l l par prv aft) in Hi. apply in_map_iff in Hi. destruct Hi as ([j nd] & E & Hin).
  cbn in E. subst j. exists nd. exact (H _ Hin).
Qed.

Lemma cleanup_spec : forall nl h g,
  rep_l (cells h) None None nl None -> NoDup (ids_f nl) -> fsize nl < g -> fsize nl <= nextid h ->
  exists h', clone_cleanup g h (hid nl) = ROk h' /\ nextid h' = nextid h /\
    (forall i, cells h' i = if mem i (ids_f nl) then None else cells h i) /\
    Permutation (freed h') (ids_f nl ++ freed h).
Proof.
  induction nl as [|[c n v kk] r IH]; intros h g R ND Hg Hn.
  { destruct g; cbn [hid clone_cleanup]; exists h; (split; [reflexivity|]); (split; [reflexivity|]);
      (split; [intros; reflexivity|reflexivity]). }
  rewrite fsize_cons, tsize_eq in Hg, Hn. destruct g as [|g]; [lia|].
  rewrite rep_l_cons, rep_t_eq in R. destruct R as ((Hc & Hkk) & Hr). cbn [tid] in Hr.
  rewrite ids_f_cons, ids_t_eq in ND. inversion ND as [|? ? Nc ND']; subst.
  apply NoDup_app_inv in ND'. destruct ND' as (NDk & NDr & Dj).
  assert (Nck : ~ In c (ids_f kk)) by (intros K; apply Nc; apply in_or_app; auto).
  assert (Ncr : ~ In c (ids_f r)) by (intros K; apply Nc; apply in_or_app; auto).
  cbn [hid tid clone_cleanup].
  rewrite (fld_ok _ _ _ _ Hc). cbn [rbind nnext].
  (* unlink the head of the top-level list *)
  destruct (exec_unlink h c _ Hc) as (h1 & E1 & [M1a M1b] & C1).
  { cbn [nnext]. intros q Eq. apply hid_or_in in Eq. split; [intros ->; contradiction|].
    eapply rep_cell_l; [exact Hr|exact Eq]. }
  { cbn [nprev]. discriminate. }
  { cbn [npar]. discriminate. }
  rewrite E1. cbn [rbind]. cbn [nnext nprev npar nkid nname nval] in C1.
  assert (C1c : cells h1 c = Some (mkN None None None (hid kk) n v)) by (rewrite C1, Nat.eqb_refl; reflexivity).
  (* destroy it *)
  unfold node_destroy. rewrite (get_ok _ _ _ C1c). cbn [rbind linked npar nnext nprev].
  destruct (node_clear_spec h1 c _ kk (fuel_of h1) C1c eq_refl) as (h2 & E2 & N2 & C2 & P2).
  { eapply rep_l_frame; [exact Hkk|]. intros i Hi. rewrite C1.
    destruct (Nat.eqb_spec i c) as [->|]; [contradiction|].
    destruct (peq (Some i) (hid_or r None)) eqn:Ep; [|reflexivity].
    exfalso. destruct (hid_or r None) as [q|] eqn:Eq; [|discriminate]. cbn [peq] in Ep.
    apply Nat.eqb_eq in Ep. subst q. apply hid_or_in in Eq. exact (Dj _ Hi Eq). }
  { constructor; assumption. }
  { unfold fuel_of. rewrite M1a. lia. }
  rewrite E2. cbn [rbind].
  assert (C2c : cells h2 c = Some (set_kid None (mkN None None None (hid kk) n v))) by (rewrite C2, Nat.eqb_refl; reflexivity).
  rewrite (release_ok _ _ _ C2c). cbn [rbind].
  set (h3 := mkH (upd (cells h2) c None) (nextid h2) (c :: freed h2)).
  assert (C3 : forall i, cells h3 i =
            if mem i (c :: ids_f kk) then None
            else if peq (Some i) (hid r) then option_map (set_prev None) (cells h i) else cells h i).
  { intros i. unfold h3. cbn [cells]. unfold upd at 1. rewrite mem_cons.
    destruct (Nat.eqb_spec i c) as [->|Ni]; [reflexivity|]. cbn [orb].
    rewrite C2. rewrite (proj2 (Nat.eqb_neq i c)) by assumption.
    destruct (mem i (ids_f kk)); [reflexivity|]. rewrite C1.
    rewrite (proj2 (Nat.eqb_neq i c)) by assumption. rewrite hid_hid_or. reflexivity. }
  destruct (IH h3 g) as (h4 & E4 & N4 & C4 & P4).
  { eapply rep_l_head_prev; [exact Hr|exact NDr|]. intros i Hi. rewrite C3.
    rewrite mem_false; [reflexivity|]. intros [->|K]; [contradiction|]. exact (Dj _ K Hi). }
  { exact NDr. }
  { lia. }
  { unfold h3. cbn [nextid]. rewrite N2, M1a. lia. }
  rewrite <- hid_hid_or. rewrite E4. exists h4. split; [reflexivity|]. split; [|split].
  - rewrite N4. unfold h3. cbn [nextid]. rewrite N2. exact M1a.
  - intros i. rewrite C4, C3. rewrite ids_f_cons, ids_t_eq. change (c :: ids_f kk ++ ids_f r) with ((c :: ids_f kk) ++ ids_f r).
    rewrite mem_app. destruct (mem i (ids_f r)) eqn:Mr; [rewrite orb_true_r; reflexivity|]. rewrite orb_false_r.
    destruct (mem i (c :: ids_f kk)); [reflexivity|].
    destruct (peq (Some i) (hid r)) eqn:Ep; [|reflexivity]. exfalso.
    destruct r as [|tr rr]; [discriminate|]. cbn [hid peq] in Ep. apply Nat.eqb_eq in Ep. subst i.
    apply in_mem_iff in Mr. apply Mr. rewrite ids_f_cons. destruct tr. rewrite ids_t_eq. left. reflexivity.
  - rewrite P4. unfold h3. cbn [freed]. rewrite P2, M1b. rewrite ids_f_cons, ids_t_eq. cbn [app].
    rewrite <- !app_assoc. rewrite Permutation_app_swap_app. cbn [app].
    rewrite <- Permutation_middle. apply perm_skip. rewrite Permutation_app_swap_app. reflexivity.
Qed.

(* ---------------------------------------------------------------- the clone loop *)
Lemma list_clone_S f h p k :
  list_clone (S f) h p k = clone_loop (fun h p k => list_clone f h p k) (S f) h p None None k.
Proof. reflexivity. Qed.

Definition in_range (lo hi : nat) (l : forest) : Prop := forall i, In i (ids_f l) -> lo <= i < hi.

(* a clone loop that succeeded: the list built so far [nl] has grown by the copy [l'] *)
Definition clone_done (h h' : heap) (nl l' : forest) (c' : nat) : Prop :=
  nextid h' = c' /\ freed h' = freed h /\
  rep_l (cells h') None None (nl ++ l') None /\
  (forall i, i < nextid h -> ~ In i (ids_f nl) -> cells h' i = cells h i) /\
  (forall i, c' <= i -> cells h' i = cells h i).

(* one that failed: the list built so far and everything allocated since are gone, each
   freed once; nothing else has changed *)
Definition clone_failed (h h' : heap) (nl : forest) (c' : nat) : Prop :=
  nextid h' = c' /\ nextid h <= c' /\
  Permutation (freed h') (ids_f nl ++ seq (nextid h) (c' - nextid h) ++ freed h) /\
  (forall i, i < nextid h -> ~ In i (ids_f nl) -> cells h' i = cells h i) /\
  (forall i, In i (ids_f nl) -> cells h' i = None) /\
  (forall i, nextid h <= i -> i < c' -> cells h' i = None) /\
  (forall i, c' <= i -> cells h' i = cells h i).

Definition clone_post (h h' : heap) (nl : forest) (res : ptr) (k' : nat) (sp : option forest * nat * nat) : Prop :=
  match sp with
  | (Some l', c', k'') => res = hid (nl ++ l') /\ k' = k'' /\ clone_done h h' nl l' c'
  | (None, c', k'') => res = None /\ k' = k'' /\ clone_failed h h' nl c'
  end.

Lemma clone_post_fail h h' nl c k : clone_failed h h' nl c -> clone_post h h' nl None k (None, c, k).
Proof. intros H. unfold clone_post. split; [reflexivity|]. split; [reflexivity|exact H]. Qed.

Lemma fail_cleanup h hc nlc nl c' :
  rep_l (cells hc) None None nlc None -> NoDup (ids_f nlc) -> fsize nlc <= nextid hc ->
  nextid hc = c' -> nextid h <= c' ->
  Permutation (ids_f nlc ++ freed hc) (ids_f nl ++ seq (nextid h) (c' - nextid h) ++ freed h) ->
  (forall i, i < nextid h -> ~ In i (ids_f nl) -> ~ In i (ids_f nlc) /\ cells hc i = cells h i) ->
  (forall i, In i (ids_f nl) -> In i (ids_f nlc)) ->
  (forall i, nextid h <= i -> i < c' -> In i (ids_f nlc) \/ cells hc i = None) ->
  (forall i, c' <= i -> ~ In i (ids_f nlc) /\ cells hc i = cells h i) ->
  exists h', clone_cleanup (fuel_of hc) hc (hid nlc) = ROk h' /\ clone_failed h h' nl c'.
Proof.
  intros R ND Hs Hn Hle P F1 F2 F3 F4.
  destruct (cleanup_spec nlc hc (fuel_of hc) R ND) as (h' & E & N & C & Pf); [unfold fuel_of; lia|exact Hs|].
  exists h'. split; [exact E|]. unfold clone_failed. repeat split.
  - rewrite N. exact Hn.
  - exact Hle.
  - rewrite Pf. exact P.
  - intros i Hi1 Hi2. destruct (F1 i Hi1 Hi2) as [K1 K2]. rewrite C, (mem_false _ _ K1). exact K2.
  - intros i Hi. rewrite C, (mem_true _ _ (F2 i Hi)). reflexivity.
  - intros i Hi1 Hi2. rewrite C. destruct (mem i (ids_f nlc)) eqn:M; [reflexivity|].
    destruct (F3 i Hi1 Hi2) as [K|K]; [apply mem_in in K; congruence|exact K].
  - intros i Hi. destruct (F4 i Hi) as [K1 K2]. rewrite C, (mem_false _ _ K1). exact K2.
Qed.

Lemma hid_app_ne (a b : forest) : a <> [] -> hid (a ++ b) = hid a.
Proof. destruct a; [contradiction|reflexivity]. Qed.

Lemma sclone_l_some_hid t r c k l' c' k' : sclone_l (t :: r) c k = (Some l', c', k') -> hid l' = Some c.
Proof.
  rewrite sclone_l_cons. destruct t as [i n v kk]. rewrite sclone_t_eq.
  destruct (unclonable v); [discriminate|]. destruct (tick k) as [k1 f]. destruct f; [discriminate|].
  destruct (if name_alloc n then tick k1 else (k1, false)) as [k2 f2]. destruct f2; [discriminate|].
  destruct (sclone_l kk (S c) k2) as [[[kk'|] c1] k3]; [|discriminate].
  destruct (sclone_l r c1 k3) as [[[r'|] c2] k4]; [|discriminate].
  intros E. inversion E. reflexivity.
Qed.

Lemma clone_loop_spec : forall todo h lo par prv nl f g k,
  rep_l (cells h) par prv todo None ->
  in_range 0 lo todo ->
  rep_l (cells h) None None nl None -> NoDup (ids_f nl) -> in_range lo (nextid h) nl ->
  lo <= nextid h ->
  fsize todo < f -> fsize todo < g ->
  exists h' res k',
    clone_loop (fun h p k => list_clone f h p k) g h (hid todo) (hid nl) (lastid nl None) k = ROk (h', res, k') /\
    clone_post h h' nl res k' (sclone_l todo (nextid h) k).
Proof.
  intros todo. induction todo as [todo IH] using (well_founded_induction (well_founded_ltof _ fsize)).
  unfold ltof in IH. intros h lo par prv nl f g k Rs Is Rn NDn In_ Hlo Hf Hg.
  destruct todo as [|[s n v kk] r].
  { destruct g as [|g]; [cbn in Hg; lia|]. cbn [hid clone_loop sclone_l].
    exists h, (hid nl), k. split; [reflexivity|]. unfold clone_post, clone_done. rewrite !app_nil_r. repeat split; auto. }
  rewrite fsize_cons, tsize_eq in Hf, Hg.
  destruct g as [|g]; [lia|]. destruct f as [|f]; [lia|].
  rewrite rep_l_cons, rep_t_eq in Rs. destruct Rs as ((Hs & Hkk) & Hr).
  assert (Is_s : s < lo) by (apply (Is s); rewrite ids_f_cons, ids_t_eq; left; reflexivity).
  assert (Is_k : in_range 0 lo kk).
  { intros i Hi. apply Is. rewrite ids_f_cons, ids_t_eq. right. apply in_or_app. auto. }
  assert (Is_r : in_range 0 lo r).
  { intros i Hi. apply Is. rewrite ids_f_cons, ids_t_eq. right. apply in_or_app. auto. }
  set (c := nextid h).
  assert (Nl_lt : forall i, In i (ids_f nl) -> i < c) by (intros i Hi; apply In_ in Hi; unfold c; lia).
  assert (Nl_size : fsize nl <= c).
  { rewrite fsize_ids. rewrite <- (seq_length c 0). apply NoDup_incl_length; [exact NDn|].
    intros i Hi. apply in_seq. specialize (Nl_lt i Hi). lia. }
  cbn [hid tid clone_loop]. rewrite sclone_l_cons, sclone_t_eq.
  (* 1. mpt_node_clone *)
  unfold node_clone at 1. rewrite (get_ok _ _ _ Hs). cbn [rbind nname nval].
  (* the failures that leave the heap as it is *)
  assert (Fail0 : forall k0 : nat, exists h',
     (do h0 <- clone_cleanup (fuel_of h) h (hid nl); ROk (h0, @None nat, k0)) = ROk (h', @None nat, k0) /\
     clone_failed h h' nl c).
  { intros k0. destruct (fail_cleanup h h nl nl c Rn NDn Nl_size eq_refl (le_n _)) as (h' & E & CF).
    - fold c. rewrite Nat.sub_diag. reflexivity.
    - intros i Hi1 Hi2. auto.
    - auto.
    - intros i Hi1 Hi2. fold c in Hi1. lia.
    - intros i Hi. split; [|reflexivity]. intros K. apply Nl_lt in K. lia.
    - exists h'. rewrite E. split; [reflexivity|exact CF]. }
  destruct (unclonable v).
  { cbn [rbind]. destruct (Fail0 k) as (h' & E & CF). exists h', None, k. split; [exact E|]. apply clone_post_fail. exact CF. }
  destruct (tick k) as [k1 f1]. destruct f1.
  { cbn [rbind]. destruct (Fail0 k1) as (h' & E & CF). exists h', None, k1. split; [exact E|]. apply clone_post_fail. exact CF. }
  unfold alloc. fold c.
  set (h1 := mkH (upd (cells h) c (Some (mkN None None None None n v))) (S c) (freed h)).
  assert (C1 : forall i, i <> c -> cells h1 i = cells h i) by (intros i Hi; apply upd_other; exact Hi).
  assert (C1c : cells h1 c = Some (mkN None None None None n v)) by apply upd_same.
  assert (Nc : ~ In c (ids_f nl)) by (intros K; apply Nl_lt in K; lia).
  (* the identifier copy *)
  assert (Ident : exists k2 f2, (if name_alloc n then tick k1 else (k1, false)) = (k2, f2) /\
     (if name_alloc n
      then let '(k0, f0) := tick k1 in
           if f0 then do h0 <- release h1 c; ROk (h0, @None nat, k0) else ROk (h1, Some c, k0)
      else ROk (h1, Some c, k1)) =
     (if f2 then do h0 <- release h1 c; ROk (h0, @None nat, k2) else ROk (h1, Some c, k2))).
  { destruct (name_alloc n).
    - destruct (tick k1) as [k0 f0]. exists k0, f0. split; reflexivity.
    - exists k1, false. split; reflexivity. }
  destruct Ident as (k2 & f2 & Et & En). rewrite Et, En. clear En.
  destruct f2.
  { (* mpt_identifier_copy failed: the copy is destroyed *)
    rewrite (release_ok _ _ _ C1c). cbn [rbind].
    set (h1' := mkH (upd (cells h1) c None) (nextid h1) (c :: freed h1)).
    assert (C1' : forall i, i <> c -> cells h1' i = cells h i).
    { intros i Hi. unfold h1'. cbn [cells]. rewrite upd_other by exact Hi. apply C1. exact Hi. }
    assert (C1'c : cells h1' c = None) by (unfold h1'; cbn [cells]; apply upd_same).
    destruct (fail_cleanup h h1' nl nl (S c)) as (h' & E & CF).
    - eapply rep_l_frame; [exact Rn|]. intros i Hi. apply C1'. intros ->. contradiction.
    - exact NDn.
    - unfold h1'. cbn [nextid h1]. lia.
    - reflexivity.
    - fold c. lia.
    - fold c. replace (S c - c) with 1 by lia. unfold h1'. cbn [freed h1 seq app]. reflexivity.
    - intros i Hi1 Hi2. split; [exact Hi2|]. apply C1'. fold c in Hi1. lia.
    - auto.
    - intros i Hi1 Hi2. fold c in Hi1. assert (i = c) by lia. subst i. right. exact C1'c.
    - intros i Hi. split; [intros K; apply Nl_lt in K; lia|]. apply C1'. lia.
    - exists h', None, k2. split; [|apply clone_post_fail; exact CF].
      fold h1'. rewrite E. reflexivity. }
  cbn [rbind].
  (* 2. append the copy to the new list *)
  assert (S2 : exists h2,
     (match lastid nl None with
      | None => ROk (h1, Some c, Some c)
      | Some _ => do '(h, l) <- gnode_after h1 (lastid nl None) (Some c); ROk (h, hid nl, l)
      end) = ROk (h2, hid (nl ++ [T c n v []]), Some c) /\
     nextid h2 = S c /\ freed h2 = freed h /\
     rep_l (cells h2) None None (nl ++ [T c n v []]) None /\
     (forall i, i <> c -> ~ In i (ids_f nl) -> cells h2 i = cells h i)).
  { destruct (exists_last_or_nil nl) as [->|(nl0 & tl & ->)].
    - cbn [lastid fold_left hid app]. exists h1. repeat split; auto.
      rewrite rep_l_cons, rep_t_eq. cbn [hid hid_or]. repeat split; try apply rep_l_nil. exact C1c.
    - rewrite lastid_app. cbn [lastid fold_left].
      assert (R1 : rep_st (cells h1) ([T c n v []] :: plug ([], []) (nl0 ++ tl :: []))).
      { rewrite rep_st_cons. split.
        - rewrite rep_l_cons, rep_t_eq. cbn [hid hid_or]. repeat split; try apply rep_l_nil. exact C1c.
        - unfold plug. cbn [fst snd fold_left]. rewrite rep_st_cons. split; [|apply rep_st_nil].
          eapply rep_l_frame; [exact Rn|]. intros i Hi. apply C1. intros ->. contradiction. }
      assert (N1 : NoDup (ids_st ([T c n v []] :: plug ([], []) (nl0 ++ tl :: [])))).
      { unfold plug. cbn [fst snd fold_left]. rewrite !ids_st_cons, ids_f_cons, ids_t_eq.
        cbn [ids_f ids_st flat_map app]. rewrite !app_nil_r. constructor; assumption. }
      destruct (after_rep h1 [] [] nl0 tl [] (T c n v []) R1 N1) as (h2 & E & [M1 M2] & R2 & F2).
      cbn [tid] in E. rewrite E. cbn [rbind]. exists h2.
      assert (Hh : hid (nl0 ++ [tl]) = hid ((nl0 ++ [tl]) ++ [T c n v []])) by (destruct nl0; reflexivity).
      rewrite <- Hh. split; [reflexivity|]. split; [rewrite M1; reflexivity|]. split; [rewrite M2; reflexivity|].
      split.
      + unfold plug in R2. cbn [fst snd fold_left] in R2. rewrite rep_st_cons in R2. destruct R2 as [R2 _].
        rewrite <- app_assoc. exact R2.
      + intros i Hi1 Hi2. rewrite F2; [apply C1; exact Hi1|].
        unfold plug. cbn [fst snd fold_left]. rewrite !ids_st_cons, ids_f_cons, ids_t_eq.
        cbn [ids_f ids_st flat_map app]. rewrite !app_nil_r. intros [K|K]; [congruence|contradiction]. }
  destruct S2 as (h2 & E2 & N2 & Fr2 & R2 & F2).
  match goal with |- context [match lastid nl None with None => ?a | Some _ => ?b end] =>
    replace (match lastid nl None with None => a | Some _ => b end)
      with (ROk (h2, hid (nl ++ [T c n v []]), Some c)) by (rewrite <- E2; destruct (lastid nl None); reflexivity) end.
  cbn [rbind].
  (* source cells are untouched so far *)
  assert (Src2 : forall i, i < lo -> cells h2 i = cells h i).
  { intros i Hi. apply F2; [unfold c; lia|]. intros K. apply In_ in K. lia. }
  rewrite (fld_ok _ _ _ _ (eq_trans (Src2 s Is_s) Hs)). cbn [rbind nkid].
  assert (NDn1 : NoDup (ids_f (nl ++ [T c n v []]))).
  { rewrite ids_f_app, ids_f_cons, ids_t_eq. cbn [ids_f flat_map app]. 
    apply NoDup_app_intro; [exact NDn|constructor; [intros []|constructor]|].
    intros i Hi [K|[]]. subst. contradiction. }
  (* 3. the children *)
  pose proof (sclone_l_spec kk (S c) k2) as Kspec.
  pose proof R2 as R2'. rewrite rep_l_mid in R2'. destruct R2' as (R2a & R2c & _ & _). cbn [hid_or hid] in R2c.
  assert (S3 : exists h5 ok k3',
     (match hid kk with
      | Some _ =>
        do '(h0, ck, k0) <- list_clone (S f) h2 (hid kk) k2;
        match ck with
        | None => ROk (h0, false, k0)
        | Some _ => do h0 <- wr set_kid h0 c ck; do h0 <- set_parents (fuel_of h0) h0 ck c; ROk (h0, true, k0)
        end
      | None => ROk (h2, true, k2)
      end) = ROk (h5, ok, k3') /\
     match sclone_l kk (S c) k2 with
     | (Some kk', c1, k3) =>
       ok = true /\ k3' = k3 /\
       nextid h5 = c1 /\ freed h5 = freed h /\
       rep_l (cells h5) None None (nl ++ [T c n v kk']) None /\
       (forall i, i < c -> ~ In i (ids_f nl) -> cells h5 i = cells h i) /\
       (forall i, c1 <= i -> cells h5 i = cells h2 i)
     | (None, c1, k3) => ok = false /\ k3' = k3 /\ clone_failed h2 h5 [] c1
     end).
  { destruct kk as [|tk rk].
    - cbn [hid sclone_l]. exists h2, true, k2. split; [reflexivity|]. split; [reflexivity|]. split; [reflexivity|].
      split; [exact N2|]. split; [exact Fr2|]. split; [exact R2|]. split; [|auto].
      intros i Hi1 Hi2. apply F2; [lia|exact Hi2].
    - set (kk := tk :: rk) in *. assert (Hk : hid kk = Some (tid tk)) by reflexivity. rewrite Hk, <- Hk.
      rewrite list_clone_S.
      destruct (IH kk) with (h := h2) (lo := lo) (par := Some s) (prv := @None nat) (nl := @nil tree) (f := f) (g := S f) (k := k2)
        as (h3 & r3 & k3' & E3 & M3); try (rewrite ?fsize_cons, ?tsize_eq; lia).
      { eapply rep_l_frame; [exact Hkk|]. intros i Hi. apply Src2. apply (Is_k i Hi). }
      { exact Is_k. }
      { apply rep_l_nil. }
      { constructor. }
      { intros i []. }
      rewrite N2 in M3. cbn [hid lastid fold_left app] in E3. unfold clone_post in M3.
      destruct (sclone_l kk (S c) k2) as [[[kk'|] c1] k3] eqn:Ekk.
      + destruct M3 as (-> & -> & N3 & Fr3 & R3 & F3 & G3). cbn [app] in R3, E3.
        destruct Kspec as (Kids & Kc & _).
        rewrite E3. cbn [rbind].
        assert (Hk' : hid kk' = Some (S c)) by (eapply sclone_l_some_hid; exact Ekk).
        rewrite Hk'. rewrite <- Hk'.
        assert (C3c : cells h3 c = cells h2 c) by (apply F3; [rewrite N2; lia|intros []]).
        rewrite (wr_ok _ _ _ _ _ (eq_trans C3c R2c)). cbn [rbind set_kid nnext nprev npar nkid nname nval].
        set (h4 := put h3 c (set_kid (hid kk') (mkN None (lastid nl None) None None n v))).
        assert (NDk : NoDup (ids_f kk')) by (rewrite Kids; apply seq_NoDup).
        assert (Ck : forall i, In i (ids_f kk') -> S c <= i < c1).
        { intros i Hi. rewrite Kids in Hi. apply in_seq in Hi. lia. }
        destruct (set_parents_spec kk' h4 None c (fuel_of h4)) as (h5 & E5 & [M5a M5b] & R5 & F5).
        { eapply rep_l_frame; [exact R3|]. intros i Hi. unfold h4. rewrite cells_put.
          destruct (Nat.eqb_spec i c) as [->|]; [|reflexivity]. apply Ck in Hi. lia. }
        { exact NDk. }
        { unfold fuel_of, h4. cbn [nextid put]. rewrite N3.
          pose proof (length_le_ids kk'). rewrite Kids, seq_length in H. lia. }
        rewrite E5. exists h5, true, k3. split; [reflexivity|]. split; [reflexivity|]. split; [reflexivity|].
        split; [rewrite M5a; unfold h4; cbn [nextid put]; exact N3|].
        split; [rewrite M5b; unfold h4; cbn [freed put]; rewrite Fr3; exact Fr2|].
        assert (C5 : forall i, ~ In i (ids_f kk') -> i <> c -> cells h5 i = cells h3 i).
        { intros i Hi1 Hi2. rewrite F5 by exact Hi1. unfold h4. rewrite cells_put.
          rewrite (proj2 (Nat.eqb_neq i c)) by exact Hi2. reflexivity. }
        split; [|split].
        * rewrite rep_l_mid. cbn [hid_or]. repeat split.
          -- eapply rep_l_frame; [exact R2a|]. intros i Hi.
             assert (i < c) by (apply Nl_lt; exact Hi).
             rewrite C5; [apply F3; [rewrite N2; lia|intros []]| |lia].
             intros K. apply Ck in K. lia.
          -- rewrite F5 by (intros K; apply Ck in K; lia). unfold h4. rewrite cells_put, Nat.eqb_refl. reflexivity.
          -- exact R5.
          -- apply rep_l_nil.
        * intros i Hi1 Hi2. rewrite C5; [| intros K; apply Ck in K; lia | lia].
          rewrite F3; [apply F2; [lia|exact Hi2]|rewrite N2; lia|intros []].
        * intros i Hi. rewrite C5; [apply G3; exact Hi| intros K; apply Ck in K; lia | lia].
      + destruct M3 as (-> & -> & CF3). rewrite E3. cbn [rbind]. exists h3, false, k3.
        split; [reflexivity|]. split; [reflexivity|]. split; [reflexivity|exact CF3]. }
  destruct S3 as (h5 & ok & k3' & E5 & S3). rewrite E5. cbn [rbind]. clear E5.
  destruct (sclone_l kk (S c) k2) as [[[kk'|] c1] k3] eqn:Ekk.
  2:{ (* the children could not be cloned: destroy the list with the childless copy *)
    destruct S3 as (-> & -> & CF5).
    destruct CF5 as (N5 & Le5 & P5 & F5 & _ & Z5 & G5). rewrite N2 in Le5, P5, F5, Z5. cbn [ids_f flat_map app] in P5.
    destruct (fail_cleanup h h5 (nl ++ [T c n v []]) nl c1) as (h' & E & CF).
    - eapply rep_l_frame; [exact R2|]. intros i Hi. apply F5; [|intros []].
      rewrite ids_f_app, ids_f_cons, ids_t_eq in Hi. cbn [ids_f flat_map app] in Hi.
      apply in_app_or in Hi. destruct Hi as [Hi|[Hi|[]]]; [apply Nl_lt in Hi; lia|lia].
    - exact NDn1.
    - rewrite fsize_app, fsize_cons, tsize_eq. cbn. rewrite N5. lia.
    - exact N5.
    - fold c. lia.
    - fold c. rewrite P5, Fr2. rewrite ids_f_app, ids_f_cons, ids_t_eq. cbn [ids_f flat_map app].
      rewrite <- !app_assoc. apply Permutation_app_head. cbn [app].
      replace (c1 - c) with (S (c1 - S c)) by lia. reflexivity.
    - intros i Hi1 Hi2. fold c in Hi1. split.
      + rewrite ids_f_app, ids_f_cons, ids_t_eq. cbn [ids_f flat_map app]. intros K.
        apply in_app_or in K. destruct K as [K|[K|[]]]; [contradiction|lia].
      + rewrite F5; [apply F2; [lia|exact Hi2]|lia|intros []].
    - intros i Hi. rewrite ids_f_app. apply in_or_app. auto.
    - intros i Hi1 Hi2. fold c in Hi1. destruct (Nat.eq_dec i c) as [->|Ne].
      + left. rewrite ids_f_app, ids_f_cons, ids_t_eq. apply in_or_app. right. left. reflexivity.
      + right. apply Z5; lia.
    - intros i Hi. split.
      + rewrite ids_f_app, ids_f_cons, ids_t_eq. cbn [ids_f flat_map app]. intros K.
        apply in_app_or in K. destruct K as [K|[K|[]]]; [apply Nl_lt in K; lia|lia].
      + rewrite G5 by exact Hi. apply F2; [lia|]. intros K. apply Nl_lt in K. lia.
    - exists h', None, k3. rewrite E. split; [reflexivity|]. apply clone_post_fail. exact CF. }
  destruct S3 as (-> & -> & N5 & Fr5 & R5 & F5 & G5).
  destruct Kspec as (Kids & Kc & _).
  (* 4. next source node and the rest of the loop *)
  assert (Src5 : forall i, i < lo -> cells h5 i = cells h i).
  { intros i Hi. apply F5; [unfold c; lia|]. intros K. apply In_ in K. lia. }
  rewrite (fld_ok _ _ _ _ (eq_trans (Src5 s Is_s) Hs)). cbn [rbind nnext]. rewrite <- hid_hid_or.
  assert (IdsN : forall i, In i (ids_f (nl ++ [T c n v kk'])) -> In i (ids_f nl) \/ c <= i < c1).
  { intros i Hi. rewrite ids_f_app, ids_f_cons, ids_t_eq in Hi. cbn [ids_f flat_map] in Hi. rewrite app_nil_r in Hi.
    apply in_app_or in Hi. destruct Hi as [Hi|[Hi|Hi]]; [auto|right; lia|].
    rewrite Kids in Hi. apply in_seq in Hi. right. lia. }
  assert (IdsN' : forall i, c <= i < c1 -> In i (ids_f (nl ++ [T c n v kk']))).
  { intros i Hi. rewrite ids_f_app, ids_f_cons, ids_t_eq. cbn [ids_f flat_map]. rewrite app_nil_r.
    apply in_or_app. right. destruct (Nat.eq_dec i c) as [->|Ne]; [left; reflexivity|right].
    rewrite Kids. apply in_seq. lia. }
  destruct (IH r) with (h := h5) (lo := lo) (par := par) (prv := Some s) (nl := nl ++ [T c n v kk']) (f := S f) (g := g) (k := k3)
    as (h6 & r6 & k6 & E6 & M6); try (rewrite ?fsize_cons, ?tsize_eq; lia).
  { eapply rep_l_frame; [exact Hr|]. intros i Hi. apply Src5. apply (Is_r i Hi). }
  { exact Is_r. }
  { exact R5. }
  { rewrite ids_f_app, ids_f_cons, ids_t_eq. cbn [ids_f flat_map]. rewrite app_nil_r.
    apply NoDup_app_intro; [exact NDn| |].
    - constructor; [rewrite Kids; intros K; apply in_seq in K; lia|rewrite Kids; apply seq_NoDup].
    - intros i Hi [K|K]; [subst; contradiction|]. apply Nl_lt in Hi. rewrite Kids in K. apply in_seq in K. lia. }
  { intros i Hi. rewrite N5. destruct (IdsN i Hi) as [K|K]; [apply In_ in K; unfold c in *; lia|lia]. }
  rewrite N5 in M6. unfold clone_post in M6 |- *.
  assert (Lst : lastid (nl ++ [T c n v kk']) None = Some c) by (rewrite lastid_app; reflexivity).
  assert (Hd : hid (nl ++ [T c n v kk']) = hid (nl ++ [T c n v []])) by (destruct nl; reflexivity).
  rewrite Lst, Hd in E6.
  destruct (sclone_l r c1 k3) as [[[r'|] c2] k4] eqn:Er.
  - destruct M6 as (-> & -> & N6 & Fr6 & R6 & F6 & G6).
    rewrite E6. rewrite <- app_assoc in R6 |- *. cbn [app] in R6 |- *.
    exists h6, (hid (nl ++ T c n v kk' :: r')), k4. split; [reflexivity|]. split; [reflexivity|]. split; [reflexivity|]. unfold clone_done.
    split; [exact N6|]. split; [rewrite Fr6; exact Fr5|]. split; [exact R6|].
    pose proof (sclone_l_spec r c1 k3) as Rs. rewrite Er in Rs. destruct Rs as (_ & Rc & _).
    split.
    + intros i Hi1 Hi2. fold c in Hi1. rewrite F6; [apply F5; [exact Hi1|exact Hi2]|rewrite N5; lia|].
      intros K. destruct (IdsN i K) as [K'|K']; [contradiction|lia].
    + intros i Hi. rewrite G6 by exact Hi. rewrite G5 by lia. apply F2; [lia|].
      intros K. apply Nl_lt in K. lia.
  - destruct M6 as (-> & -> & N6 & Le6 & P6 & F6 & Z6 & Y6 & G6). rewrite N5 in Le6, P6, F6, Y6.
    rewrite E6. exists h6, None, k4. split; [reflexivity|]. split; [reflexivity|]. split; [reflexivity|]. unfold clone_failed. fold c.
    split; [exact N6|]. split; [lia|]. split; [|split; [|split; [|split]]].
    + rewrite P6, Fr5. rewrite ids_f_app, ids_f_cons, ids_t_eq, Kids. cbn [ids_f flat_map]. rewrite app_nil_r.
      rewrite <- !app_assoc. apply Permutation_app_head. rewrite app_assoc. apply Permutation_app_tail.
      change (c :: seq (S c) (fsize kk)) with (seq c (S (fsize kk))).
      replace (c2 - c) with (S (fsize kk) + (c2 - c1)) by lia. rewrite seq_app.
      replace (c + S (fsize kk)) with c1 by lia. reflexivity.
    + intros i Hi1 Hi2. rewrite F6; [apply F5; [exact Hi1|exact Hi2]|lia|].
      intros K. destruct (IdsN i K) as [K'|K']; [contradiction|lia].
    + intros i Hi. apply Z6. rewrite ids_f_app. apply in_or_app. auto.
    + intros i Hi1 Hi2. destruct (Nat.lt_ge_cases i c1) as [L|L]; [apply Z6; apply IdsN'; lia|apply Y6; lia].
    + intros i Hi. rewrite G6 by exact Hi. rewrite G5 by lia. apply F2; [lia|].
      intros K. apply Nl_lt in K. lia.
Qed.

(* ---------------------------------------------------------------- a fresh top-level list *)
Lemma inv_extend h s h' l' c' :
  inv h s -> nextid h <= c' -> nextid h' = c' -> freed h' = freed h ->
  rep_l (cells h') None None l' None ->
  ids_f l' = seq (nextid h) (c' - nextid h) ->
  (forall i, i < nextid h -> cells h' i = cells h i) ->
  (forall i, c' <= i -> cells h' i = cells h i) ->
  inv h' (mkS (lists s ++ [l']) c' (sfreed s)).
Proof.
  intros I Hc N Fr R Ids F G. pose proof (i_cnt _ _ I) as C.
  constructor; cbn [lists scount sfreed].
  - rewrite rep_st_app. split.
    + eapply rep_st_frame; [exact (i_rep _ _ I)|]. intros i Hi. apply F. exact (inv_bound _ _ _ I Hi).
    + rewrite rep_st_cons. split; [exact R|apply rep_st_nil].
  - exact N.
  - rewrite ids_st_app. cbn [ids_st flat_map]. rewrite app_nil_r, Ids.
    replace c' with (nextid h + (c' - nextid h)) at 2 by lia. rewrite seq_app, C. cbn [plus].
    rewrite <- app_assoc. rewrite (Permutation_app_comm (seq _ _) (sfreed s)). rewrite app_assoc.
    apply Permutation_app_tail. exact (i_perm _ _ I).
  - intros i Hi. rewrite ids_st_app. cbn [ids_st flat_map]. rewrite app_nil_r. apply in_or_app.
    destruct (Nat.lt_ge_cases i (nextid h)) as [L|L].
    + left. apply (i_dom _ _ I). rewrite <- (F i L). exact Hi.
    + destruct (Nat.lt_ge_cases i c') as [L2|L2].
      * right. rewrite Ids. apply in_seq. lia.
      * exfalso. rewrite (G i L2) in Hi. pose proof (inv_bound _ _ _ I (i_dom _ _ I i Hi)). lia.
  - rewrite Fr. exact (i_freed _ _ I).
Qed.

(* a failed clone: the forest is as before, the ids consumed are freed *)
Lemma inv_failed h s h' c' :
  inv h s -> clone_failed h h' [] c' ->
  inv h' (mkS (lists s) c' (seq (scount s) (c' - scount s) ++ sfreed s)).
Proof.
  intros I (N & Le & P & F & _ & Z & G). pose proof (i_cnt _ _ I) as C. cbn [ids_f flat_map app] in P.
  assert (Dead : forall i, nextid h <= i -> cells h i = None).
  { intros i Hi. destruct (cells h i) eqn:E; [|reflexivity]. exfalso.
    assert (K : In i (ids_st (lists s))) by (apply (i_dom _ _ I); rewrite E; discriminate).
    pose proof (inv_bound _ _ _ I K). lia. }
  constructor; cbn [lists scount sfreed].
  - eapply rep_st_frame; [exact (i_rep _ _ I)|]. intros i Hi. apply F; [exact (inv_bound _ _ _ I Hi)|intros []].
  - exact N.
  - rewrite <- C. replace c' with (nextid h + (c' - nextid h)) at 2 by lia. rewrite seq_app. cbn [plus].
    rewrite app_assoc. rewrite (Permutation_app_comm (ids_st (lists s)) (seq _ _)). rewrite <- app_assoc.
    rewrite Permutation_app_comm. apply Permutation_app_tail. rewrite C. exact (i_perm _ _ I).
  - intros i Hi. apply (i_dom _ _ I).
    destruct (Nat.lt_ge_cases i (nextid h)) as [L|L]; [rewrite <- (F i L); [exact Hi|intros []]|].
    exfalso. apply Hi. destruct (Nat.lt_ge_cases i c') as [L2|L2]; [apply Z; assumption|].
    rewrite G by exact L2. apply Dead. exact L.
  - rewrite P, <- C. apply Permutation_app_head. exact (i_freed _ _ I).
Qed.

Lemma sstate_eta s : mkS (lists s) (scount s) (sfreed s) = s.
Proof. destruct s; reflexivity. Qed.

Lemma clone_failed_refl h : clone_failed h h [] (nextid h).
Proof.
  unfold clone_failed. rewrite Nat.sub_diag. cbn. repeat split; auto; try contradiction. intros. lia.
Qed.

(* what the three clone operations have in common *)
Lemma clone_finish h s h' res k' sp :
  inv h s -> clone_post h h' [] res k' sp ->
  (forall l' c' k'', sp = (Some l', c', k'') -> res = Some (scount s) /\ nextid h <= c' /\ ids_f l' = seq (nextid h) (c' - nextid h)) ->
  inv h' (fst (clone_result s sp)) /\ snd (clone_result s sp) = OutP res.
Proof.
  intros I Post Hs. destruct sp as [[[l'|] c'] k'']; cbn [clone_post clone_result fst snd app] in *.
  - destruct Post as (-> & -> & N & Fr & R & F & G). destruct (Hs _ _ _ eq_refl) as (E & Le & Ids).
    split; [|rewrite E; reflexivity].
    apply (inv_extend h s); auto. all: intros i Hi; apply F; [exact Hi|intros []].
  - destruct Post as (-> & -> & CF). split; [|reflexivity]. apply (inv_failed h); assumption.
Qed.

Lemma step_clone x k : refines_step (OClone x k).
Proof.
  intros h s I. cbn [mstep sstep]. rewrite (live_iff _ _ _ I).
  destruct (focus x (lists s)) as [[[[[frs o] l1] tx] l2]|] eqn:FX.
  2:{ assert (Sl : slive s x = false).
      { destruct (slive s x) eqn:Sl; [|reflexivity]. apply mem_in in Sl. exfalso. exact (focus_st_none _ _ _ FX Sl). }
      rewrite Sl. cbn [fst snd]. eexists; split; [reflexivity|exact I]. }
  assert (Sl : slive s x = true) by (apply mem_in; eapply focus_in; exact FX).
  rewrite Sl.
  destruct (focus_cell _ _ _ _ _ _ _ _ (i_rep _ _ I) FX) as [Hc _].
  pose proof (i_cnt _ _ I) as C.
  assert (Post : exists h' res k',
     node_clone h (Some x) k = ROk (h', res, k') /\
     clone_post h h' [] res k' (sclone_l [T (tid tx) (tname tx) (tval tx) []] (nextid h) k)).
  { unfold node_clone. rewrite (get_ok _ _ _ Hc). cbn [rbind nname nval].
    rewrite sclone_l_cons, sclone_t_eq.
    destruct (unclonable (tval tx)).
    { exists h, None, k. split; [reflexivity|]. apply clone_post_fail. apply clone_failed_refl. }
    destruct (tick k) as [k1 f1]. destruct f1.
    { exists h, None, k1. split; [reflexivity|]. apply clone_post_fail. apply clone_failed_refl. }
    unfold alloc. set (c := nextid h).
    set (h1 := mkH (upd (cells h) c (Some (mkN None None None None (tname tx) (tval tx)))) (S c) (freed h)).
    assert (Ok : forall k0, clone_post h h1 [] (Some c) k0 (Some [T c (tname tx) (tval tx) []], S c, k0)).
    { intros k0. unfold clone_post, clone_done. cbn [app hid tid]. repeat split; auto.
      - rewrite rep_l_cons, rep_t_eq. cbn [hid hid_or]. repeat split; try apply rep_l_nil. apply upd_same.
      - intros i Hi _. apply upd_other. fold c in Hi. lia.
      - intros i Hi. apply upd_other. lia. }
    destruct (name_alloc (tname tx)).
    - destruct (tick k1) as [k2 f2]. destruct f2.
      + rewrite (release_ok h1 c _ (upd_same _ _ _)). cbn [rbind].
        eexists _, None, k2. split; [reflexivity|]. apply clone_post_fail.
        unfold clone_failed. cbn [nextid cells freed h1 ids_f flat_map app]. fold c.
        replace (S c - c) with 1 by lia. repeat split; auto.
        * intros i Hi _. rewrite upd_other by lia. apply upd_other. lia.
        * intros i [].
        * intros i Hi1 Hi2. assert (i = c) by lia. subst. apply upd_same.
        * intros i Hi. rewrite upd_other by lia. apply upd_other. lia.
      + cbn [sclone_l]. exists h1, (Some c), k2. split; [reflexivity|]. apply Ok.
    - cbn [sclone_l]. exists h1, (Some c), k1. split; [reflexivity|]. apply Ok. }
  destruct Post as (h' & res & k' & E & Post). rewrite E. cbn [rbind]. rewrite C in Post.
  destruct (clone_finish h s h' res k' _ I Post) as [I' O'].
  - intros l' c' k'' Es. pose proof (sclone_l_spec [T (tid tx) (tname tx) (tval tx) []] (scount s) k) as Sp.
    rewrite Es in Sp. destruct Sp as (Ids & Cn & _).
    unfold clone_post in Post. rewrite Es in Post. destruct Post as (-> & _).
    cbn [app]. split; [eapply sclone_l_some_hid; exact Es|]. rewrite C. split; [lia|].
    rewrite Ids. f_equal. lia.
  - exists h'. rewrite O'. split; [reflexivity|exact I'].
Qed.

Lemma focus_sub_len h s x frs o l1 tx l2 :
  inv h s -> focus x (lists s) = Some ((frs, o), l1, tx, l2) ->
  (forall i, In i (ids_f (tx :: l2)) -> In i (ids_st (lists s))) /\ fsize (tx :: l2) <= nextid h.
Proof.
  intros I FX. destruct (focus_perm _ _ _ _ _ _ _ FX) as [P Ex].
  assert (Sub : forall i, In i (ids_f (tx :: l2)) -> In i (ids_st (lists s))).
  { intros i Hi. eapply Permutation_in; [symmetry; apply ids_st_perm; exact P|].
    eapply Permutation_in; [symmetry; apply ids_plug|]. apply in_or_app. left.
    rewrite ids_f_app. apply in_or_app. auto. }
  split; [exact Sub|].
  rewrite fsize_ids. etransitivity; [|exact (inv_length _ _ I)].
  apply NoDup_incl_length; [|exact Sub].
  assert (ND : NoDup (ids_st (plug (frs, o) (l1 ++ tx :: l2)))).
  { eapply Permutation_NoDup; [apply ids_st_perm; exact P|exact (inv_nodup _ _ I)]. }
  eapply Permutation_NoDup in ND; [|apply ids_plug]. apply NoDup_app_inv in ND. destruct ND as (ND & _).
  rewrite ids_f_app in ND. apply NoDup_app_inv in ND. tauto.
Qed.

Lemma step_lclone x k : refines_step (OLClone x k).
Proof.
  intros h s I. cbn [mstep sstep]. rewrite (live_iff _ _ _ I).
  destruct (focus x (lists s)) as [[[[[frs o] l1] tx] l2]|] eqn:FX.
  2:{ assert (Sl : slive s x = false).
      { destruct (slive s x) eqn:Sl; [|reflexivity]. apply mem_in in Sl. exfalso. exact (focus_st_none _ _ _ FX Sl). }
      rewrite Sl. cbn [fst snd]. eexists; split; [reflexivity|exact I]. }
  assert (Sl : slive s x = true) by (apply mem_in; eapply focus_in; exact FX).
  rewrite Sl.
  destruct (focus_cell _ _ _ _ _ _ _ _ (i_rep _ _ I) FX) as [_ R].
  destruct (focus_perm _ _ _ _ _ _ _ FX) as [P Ex].
  rewrite rep_plug in R. destruct R as (Rl & _ & _). rewrite rep_l_app in Rl. destruct Rl as [_ Rl].
  destruct (focus_sub_len _ _ _ _ _ _ _ _ I FX) as [Sub Len].
  unfold fuel_of. rewrite list_clone_S.
  destruct (clone_loop_spec (tx :: l2) h (nextid h) (cpar frs) (lastid l1 None) [] (S (nextid h)) (S (S (nextid h))) k)
    as (h' & res & k' & E & Post); try lia.
  { exact Rl. }
  { intros i Hi. split; [lia|]. apply (inv_bound _ _ _ I). apply Sub. exact Hi. }
  { apply rep_l_nil. }
  { constructor. }
  { intros i []. }
  cbn [hid lastid fold_left app] in E. rewrite Ex in E. rewrite E. cbn [rbind].
  pose proof (i_cnt _ _ I) as C. rewrite C in Post.
  destruct (clone_finish h s h' res k' _ I Post) as [I' O'].
  - intros l' c' k'' Es. pose proof (sclone_l_spec (tx :: l2) (scount s) k) as Sp.
    rewrite Es in Sp. destruct Sp as (Ids & Cn & _).
    unfold clone_post in Post. rewrite Es in Post. destruct Post as (-> & _).
    cbn [app]. split; [eapply sclone_l_some_hid; exact Es|]. rewrite C. split; [lia|].
    rewrite Ids. f_equal. lia.
  - exists h'. rewrite O'. split; [reflexivity|exact I'].
Qed.

Lemma step_tclone x k : refines_step (OTClone x k).
Proof.
  intros h s I. cbn [mstep sstep]. rewrite (live_iff _ _ _ I).
  destruct (focus x (lists s)) as [[[[[frs o] l1] tx] l2]|] eqn:FX.
  2:{ assert (Sl : slive s x = false).
      { destruct (slive s x) eqn:Sl; [|reflexivity]. apply mem_in in Sl. exfalso. exact (focus_st_none _ _ _ FX Sl). }
      rewrite Sl. cbn [fst snd]. eexists; split; [reflexivity|exact I]. }
  assert (Sl : slive s x = true) by (apply mem_in; eapply focus_in; exact FX).
  rewrite Sl.
  destruct (focus_cell _ _ _ _ _ _ _ _ (i_rep _ _ I) FX) as [Hc R].
  destruct (focus_perm _ _ _ _ _ _ _ FX) as [P Ex].
  rewrite rep_plug in R. destruct R as (Rl & _ & _).
  destruct (focus_sub_len _ _ _ _ _ _ _ _ I FX) as [Sub0 Len0].
  destruct tx as [x' n v kx]. cbn [tid tname tval tkids] in *. subst x'.
  rewrite rep_l_mid in Rl. destruct Rl as (_ & _ & Rk & _).
  assert (Sub : forall i, In i (x :: ids_f kx) -> In i (ids_st (lists s))).
  { intros i Hi. apply Sub0. rewrite ids_f_cons, ids_t_eq. apply in_or_app. left. exact Hi. }
  assert (Len : S (fsize kx) <= nextid h).
  { rewrite fsize_cons, tsize_eq in Len0. lia. }
  pose proof (i_cnt _ _ I) as C.
  assert (Post : exists h' res k',
     tree_clone h (Some x) k = ROk (h', res, k') /\
     clone_post h h' [] res k' (sclone_l [T x n v kx] (nextid h) k)).
  { unfold tree_clone, node_clone. rewrite (get_ok _ _ _ Hc). cbn [rbind nname nval].
    rewrite sclone_l_cons, sclone_t_eq.
    destruct (unclonable v).
    { exists h, None, k. split; [reflexivity|]. apply clone_post_fail. apply clone_failed_refl. }
    destruct (tick k) as [k1 f1]. destruct f1.
    { exists h, None, k1. split; [reflexivity|]. apply clone_post_fail. apply clone_failed_refl. }
    unfold alloc. set (c := nextid h).
    set (h1 := mkH (upd (cells h) c (Some (mkN None None None None n v))) (S c) (freed h)).
    assert (C1 : forall i, i <> c -> cells h1 i = cells h i) by (intros i Hi; apply upd_other; exact Hi).
    assert (C1c : cells h1 c = Some (mkN None None None None n v)) by apply upd_same.
    assert (Xc : x < c) by (apply (inv_bound _ _ _ I); apply Sub; left; reflexivity).
    assert (Ident : exists k2 f2, (if name_alloc n then tick k1 else (k1, false)) = (k2, f2) /\
       (if name_alloc n
        then let '(k0, f0) := tick k1 in
             if f0 then do h0 <- release h1 c; ROk (h0, @None nat, k0) else ROk (h1, Some c, k0)
        else ROk (h1, Some c, k1)) =
       (if f2 then do h0 <- release h1 c; ROk (h0, @None nat, k2) else ROk (h1, Some c, k2))).
    { destruct (name_alloc n).
      - destruct (tick k1) as [k0 f0]. exists k0, f0. split; reflexivity.
      - exists k1, false. split; reflexivity. }
    destruct Ident as (k2 & f2 & Et & En). rewrite Et, En. clear En.
    destruct f2.
    { rewrite (release_ok h1 c _ C1c). cbn [rbind].
      eexists _, None, k2. split; [reflexivity|]. apply clone_post_fail.
      unfold clone_failed. cbn [nextid cells freed h1 ids_f flat_map app]. fold c.
      replace (S c - c) with 1 by lia. repeat split; auto.
      * intros i Hi _. rewrite upd_other by lia. apply upd_other. lia.
      * intros i [].
      * intros i Hi1 Hi2. assert (i = c) by lia. subst. apply upd_same.
      * intros i Hi. rewrite upd_other by lia. apply upd_other. lia. }
    cbn [rbind].
    rewrite (fld_ok _ _ _ _ (eq_trans (C1 x ltac:(lia)) Hc)). cbn [rbind nkid].
    destruct kx as [|tk rk].
    { cbn [hid sclone_l]. exists h1, (Some c), k2. split; [reflexivity|].
      unfold clone_post, clone_done. cbn [app hid tid]. repeat split; auto.
      - rewrite rep_l_cons, rep_t_eq. cbn [hid hid_or]. repeat split; try apply rep_l_nil. exact C1c.
      - intros i Hi _. apply C1. fold c in Hi. lia.
      - intros i Hi. apply C1. lia. }
    set (kx := tk :: rk) in *. assert (Hk : hid kx = Some (tid tk)) by reflexivity. rewrite Hk, <- Hk.
    unfold fuel_of at 1. cbn [nextid h1]. rewrite list_clone_S.
    destruct (clone_loop_spec kx h1 c (Some x) None [] (S (S c)) (S (S (S c))) k2)
      as (h3 & r3 & k3' & E3 & M3); try (cbn [nextid h1]; lia).
    { eapply rep_l_frame; [exact Rk|]. intros i Hi. apply C1.
      assert (i < c) by (apply (inv_bound _ _ _ I); apply Sub; right; exact Hi). lia. }
    { intros i Hi. split; [lia|]. apply (inv_bound _ _ _ I). apply Sub. right. exact Hi. }
    { apply rep_l_nil. }
    { constructor. }
    { intros i []. }
    cbn [hid lastid fold_left] in E3. rewrite E3. cbn [rbind].
    cbn [nextid h1] in M3. unfold clone_post in M3.
    pose proof (sclone_l_spec kx (S c) k2) as Kspec.
    destruct (sclone_l kx (S c) k2) as [[[kk'|] c1] k3] eqn:Ekk.
    - destruct M3 as (-> & -> & N3 & Fr3 & R3 & F3 & G3). cbn [app] in R3 |- *.
      destruct Kspec as (Kids & Kc & _).
      assert (Hk' : hid kk' = Some (S c)) by (eapply sclone_l_some_hid; exact Ekk).
      rewrite Hk'. rewrite <- Hk'.
      assert (C3c : cells h3 c = cells h1 c) by (apply F3; [cbn [nextid h1]; lia|intros []]).
      rewrite (wr_ok _ _ _ _ _ (eq_trans C3c C1c)). cbn [rbind].
      set (h4 := put h3 c (set_kid (hid kk') (mkN None None None None n v))).
      assert (NDk : NoDup (ids_f kk')) by (rewrite Kids; apply seq_NoDup).
      assert (Ck : forall i, In i (ids_f kk') -> S c <= i < c1).
      { intros i Hi. rewrite Kids in Hi. apply in_seq in Hi. lia. }
      destruct (set_parents_spec kk' h4 None c (fuel_of h4)) as (h5 & E5 & [M5a M5b] & R5 & F5).
      { eapply rep_l_frame; [exact R3|]. intros i Hi. unfold h4. rewrite cells_put.
        destruct (Nat.eqb_spec i c) as [->|]; [|reflexivity]. apply Ck in Hi. lia. }
      { exact NDk. }
      { unfold fuel_of, h4. cbn [nextid put]. rewrite N3.
        pose proof (length_le_ids kk'). rewrite Kids, seq_length in H. lia. }
      rewrite E5. cbn [rbind sclone_l]. exists h5, (Some c), k3. split; [reflexivity|].
      assert (C5 : forall i, ~ In i (ids_f kk') -> i <> c -> cells h5 i = cells h3 i).
      { intros i Hi1 Hi2. rewrite F5 by exact Hi1. unfold h4. rewrite cells_put.
        rewrite (proj2 (Nat.eqb_neq i c)) by exact Hi2. reflexivity. }
      unfold clone_post, clone_done. cbn [app hid tid]. split; [reflexivity|]. split; [reflexivity|].
      split; [rewrite M5a; unfold h4; cbn [nextid put]; exact N3|].
      split; [rewrite M5b; unfold h4; cbn [freed put]; rewrite Fr3; reflexivity|].
      split; [|split].
      + rewrite rep_l_cons, rep_t_eq. cbn [hid_or tid]. repeat split; [|exact R5|apply rep_l_nil].
        rewrite F5 by (intros K; apply Ck in K; lia). unfold h4. rewrite cells_put, Nat.eqb_refl. reflexivity.
      + intros i Hi _. fold c in Hi. rewrite C5; [|intros K; apply Ck in K; lia|lia].
        rewrite F3; [apply C1; lia|cbn [nextid h1]; lia|intros []].
      + intros i Hi. rewrite C5; [|intros K; apply Ck in K; lia|lia].
        rewrite G3 by lia. apply C1. lia.
    - (* the children could not be cloned: the copy of the node is destroyed *)
      destruct M3 as (-> & -> & N3 & Le3 & P3 & F3 & _ & Z3 & G3).
      cbn [nextid h1 freed ids_f flat_map app] in Le3, P3, F3, Z3.
      assert (C3c : cells h3 c = Some (mkN None None None None n v)).
      { rewrite F3; [exact C1c|lia|intros []]. }
      unfold node_destroy. rewrite (get_ok _ _ _ C3c). cbn [rbind linked npar nnext nprev].
      destruct (node_clear_spec h3 c _ [] (fuel_of h3) C3c eq_refl) as (h4 & E4 & N4 & C4 & P4).
      { apply rep_l_nil. }
      { constructor; [intros []|constructor]. }
      { unfold fuel_of. cbn. lia. }
      rewrite E4. cbn [rbind].
      assert (C4c : cells h4 c = Some (set_kid None (mkN None None None None n v))) by (rewrite C4, Nat.eqb_refl; reflexivity).
      rewrite (release_ok _ _ _ C4c). cbn [rbind sclone_l].
      eexists _, None, k3. split; [reflexivity|]. apply clone_post_fail.
      unfold clone_failed. cbn [nextid cells freed ids_f flat_map app]. fold c.
      split; [rewrite N4; exact N3|]. split; [lia|]. split; [|split; [|split; [|split]]].
      + rewrite P4. cbn [ids_f flat_map app]. rewrite P3.
        replace (c1 - c) with (S (c1 - S c)) by lia. reflexivity.
      + intros i Hi _. rewrite upd_other by lia. rewrite C4. rewrite (proj2 (Nat.eqb_neq i c)) by lia. cbn [mem existsb].
        rewrite F3; [apply C1; lia|lia|intros []].
      + intros i [].
      + intros i Hi1 Hi2. destruct (Nat.eq_dec i c) as [->|Ne]; [apply upd_same|].
        rewrite upd_other by exact Ne. rewrite C4. rewrite (proj2 (Nat.eqb_neq i c)) by exact Ne. cbn [mem existsb].
        apply Z3; lia.
      + intros i Hi. rewrite upd_other by lia. rewrite C4. rewrite (proj2 (Nat.eqb_neq i c)) by lia. cbn [mem existsb].
        rewrite G3 by exact Hi. apply C1. lia. }
  destruct Post as (h' & res & k' & E & Post). rewrite E. cbn [rbind]. rewrite C in Post.
  destruct (clone_finish h s h' res k' _ I Post) as [I' O'].
  - intros l' c' k'' Es. pose proof (sclone_l_spec [T x n v kx] (scount s) k) as Sp.
    rewrite Es in Sp. destruct Sp as (Ids & Cn & _).
    unfold clone_post in Post. rewrite Es in Post. destruct Post as (-> & _).
    cbn [app]. split; [eapply sclone_l_some_hid; exact Es|]. rewrite C. split; [lia|].
    rewrite Ids. f_equal. lia.
  - exists h'. rewrite O'. split; [reflexivity|exact I'].
Qed.
