(* C14/NodeClone.v — mpt_node_clone / mpt_list_clone / mpt_tree_clone build, out of
   fresh cells only, a pointer structure that represents the renumbered copy of the
   source forest (same names, values, nesting, order — and parent links at every
   depth), and leave every existing cell as it was. *)
From Coq Require Import List Arith ZArith Bool Lia Permutation Wf_nat.
From MptV Require Import C14.NodeModel C14.NodeSpec C14.NodeRep C14.NodeFocus C14.NodeExec
  C14.NodeLocal C14.NodeInv C14.NodeRefine C14.NodeFree.
Import ListNotations.
Local Open Scope nat_scope.

(* ---------------------------------------------------------------- renumbering *)
Lemma renum_t_eq i n v k c :
  renum_t (T i n v k) c = let '(k', c') := renum_l k (S c) in (T c n v k', c').
Proof.
  cbn [renum_t].
  match goal with |- (let '(_, _) := ?f k (S c) in _) = _ =>
    enough (E : forall l d, f l d = renum_l l d) by (rewrite E; reflexivity) end.
  induction l as [|t r IH]; intros d; [reflexivity|].
  cbn [renum_l]. destruct (renum_t t d) as [t' c1]. rewrite IH. reflexivity.
Qed.

Lemma renum_l_cons t r c :
  renum_l (t :: r) c = let '(t', c1) := renum_t t c in let '(r', c2) := renum_l r c1 in (t' :: r', c2).
Proof. reflexivity. Qed.

Lemma renum_l_spec : forall l c,
  ids_f (fst (renum_l l c)) = seq c (fsize l) /\ snd (renum_l l c) = c + fsize l.
Proof.
  intros l. induction l as [l IH] using (well_founded_induction (well_founded_ltof _ fsize)).
  unfold ltof in IH. intros c. destruct l as [|[i n v k] r]; [cbn; auto|].
  rewrite renum_l_cons, renum_t_eq.
  destruct (IH k) with (c := S c) as [K1 K2]; [rewrite fsize_cons, tsize_eq; lia|].
  destruct (renum_l k (S c)) as [k' c1]. cbn [fst snd] in K1, K2. subst c1.
  destruct (IH r) with (c := S c + fsize k) as [R1 R2]; [rewrite fsize_cons, tsize_eq; lia|].
  destruct (renum_l r (S c + fsize k)) as [r' c2]. cbn [fst snd] in *. subst c2.
  rewrite ids_f_cons, ids_t_eq, K1, R1, fsize_cons, tsize_eq. split; [|lia].
  cbn [app]. replace (S (fsize k) + fsize r) with (S (fsize k + fsize r)) by lia.
  cbn [seq]. f_equal. rewrite seq_app. f_equal.
Qed.

(* shape: the tree without node identities *)
Inductive shape := Sh (n v : nat) (k : list shape).
Fixpoint shape_t (t : tree) : shape := match t with T _ n v k => Sh n v (map shape_t k) end.
Definition shape_l (l : forest) : list shape := map shape_t l.

Lemma renum_shape : forall l c, shape_l (fst (renum_l l c)) = shape_l l.
Proof.
  intros l. induction l as [l IH] using (well_founded_induction (well_founded_ltof _ fsize)).
  unfold ltof in IH. intros c. destruct l as [|[i n v k] r]; [reflexivity|].
  rewrite renum_l_cons, renum_t_eq.
  pose proof (IH k) as Hk. specialize (Hk ltac:(rewrite fsize_cons, tsize_eq; lia) (S c)).
  destruct (renum_l k (S c)) as [k' c1]. cbn [fst] in Hk.
  pose proof (IH r) as Hr. specialize (Hr ltac:(rewrite fsize_cons, tsize_eq; lia) c1).
  destruct (renum_l r c1) as [r' c2]. cbn [fst] in *.
  unfold shape_l in *. cbn [map shape_t]. rewrite Hk, Hr. reflexivity.
Qed.

(* ---------------------------------------------------------------- set_parents *)
Lemma set_parents_spec : forall l h prv c fuel,
  rep_l (cells h) None prv l None -> NoDup (ids_f l) -> length l < fuel ->
  exists h', set_parents fuel h (hid l) c = ROk h' /\ same_meta h h' /\
    rep_l (cells h') (Some c) prv l None /\
    (forall i, ~ In i (ids_f l) -> cells h' i = cells h i).
Proof.
  induction l as [|[i n v k] r IH]; intros h prv c fuel R ND Hf.
  - destruct fuel; cbn [hid set_parents]; exists h; (split; [reflexivity|]);
      (split; [split; reflexivity|]); (split; [apply rep_l_nil|auto]).
  - destruct fuel as [|fuel]; [cbn in Hf; lia|]. cbn [hid tid set_parents].
    rewrite rep_l_cons, rep_t_eq in R. destruct R as ((Hi & Hk) & Hr).
    rewrite ids_f_cons, ids_t_eq in ND. inversion ND as [|? ? Ni ND']; subst.
    apply NoDup_app_inv in ND'. destruct ND' as (NDk & NDr & Dj).
    rewrite (wr_ok _ _ _ _ _ Hi). cbn [rbind].
    erewrite fld_ok by (rewrite cells_put, Nat.eqb_refl; reflexivity). cbn [rbind set_par nnext].
    destruct (IH (put h i (set_par (Some c) (mkN (hid_or r None) prv None (hid k) n v))) (Some i) c fuel)
      as (h' & E & M & R' & F).
    { eapply rep_l_frame; [exact Hr|]. intros j Hj. rewrite cells_put.
      destruct (Nat.eqb_spec j i) as [->|]; [|reflexivity]. exfalso. apply Ni. apply in_or_app. auto. }
    { exact NDr. }
    { cbn in Hf. lia. }
    rewrite (hid_hid_or r) in E. rewrite E. exists h'. split; [reflexivity|]. split; [exact M|]. split.
    + rewrite rep_l_cons, rep_t_eq. cbn [tid]. repeat split.
      * rewrite F by (intros K; apply Ni; apply in_or_app; auto).
        rewrite cells_put, Nat.eqb_refl. reflexivity.
      * eapply rep_l_frame; [exact Hk|]. intros j Hj.
        rewrite F by (intros K; exact (Dj _ Hj K)). rewrite cells_put.
        destruct (Nat.eqb_spec j i) as [->|]; [|reflexivity]. exfalso. apply Ni. apply in_or_app. auto.
      * exact R'.
    + intros j Hj. rewrite ids_f_cons, ids_t_eq in Hj.
      rewrite F by (intros K; apply Hj; right; apply in_or_app; auto). rewrite cells_put.
      destruct (Nat.eqb_spec j i) as [->|]; [|reflexivity]. exfalso. apply Hj. left. reflexivity.
Qed.

Lemma length_le_ids (l : forest) : length l <= length (ids_f l).
Proof.
  induction l as [|[i n v k] r IH]; [reflexivity|].
  rewrite ids_f_cons, ids_t_eq, app_length. cbn [length]. lia.
Qed.

(* ---------------------------------------------------------------- the clone loop *)
Lemma list_clone_S f h p : list_clone (S f) h p = clone_loop (fun h p => list_clone f h p) (S f) h p None None.
Proof. reflexivity. Qed.

Definition in_range (lo hi : nat) (l : forest) : Prop := forall i, In i (ids_f l) -> lo <= i < hi.

Lemma clone_loop_spec : forall todo h lo par prv nl f g,
  rep_l (cells h) par prv todo None ->
  in_range 0 lo todo ->
  rep_l (cells h) None None nl None -> NoDup (ids_f nl) -> in_range lo (nextid h) nl ->
  lo <= nextid h ->
  fsize todo < f -> fsize todo < g ->
  exists h', clone_loop (fun h p => list_clone f h p) g h (hid todo) (hid nl) (lastid nl None)
             = ROk (h', hid (nl ++ fst (renum_l todo (nextid h)))) /\
    nextid h' = snd (renum_l todo (nextid h)) /\ freed h' = freed h /\
    rep_l (cells h') None None (nl ++ fst (renum_l todo (nextid h))) None /\
    (forall i, i < nextid h -> ~ In i (ids_f nl) -> cells h' i = cells h i) /\
    (forall i, snd (renum_l todo (nextid h)) <= i -> cells h' i = cells h i).
Proof.
  intros todo. induction todo as [todo IH] using (well_founded_induction (well_founded_ltof _ fsize)).
  unfold ltof in IH. intros h lo par prv nl f g Rs Is Rn NDn In_ Hlo Hf Hg.
  destruct todo as [|[s n v kk] r].
  { destruct g as [|g]; [cbn in Hg; lia|]. cbn [hid clone_loop renum_l fst snd]. rewrite app_nil_r.
    exists h. repeat split; auto. }
  rewrite fsize_cons, tsize_eq in Hf, Hg.
  destruct g as [|g]; [lia|]. destruct f as [|f]; [lia|].
  rewrite rep_l_cons, rep_t_eq in Rs. destruct Rs as ((Hs & Hkk) & Hr).
  assert (Is_s : s < lo) by (apply (Is s); rewrite ids_f_cons, ids_t_eq; left; reflexivity).
  assert (Is_k : in_range 0 lo kk).
  { intros i Hi. apply Is. rewrite ids_f_cons, ids_t_eq. right. apply in_or_app. auto. }
  assert (Is_r : in_range 0 lo r).
  { intros i Hi. apply Is. rewrite ids_f_cons, ids_t_eq. right. apply in_or_app. auto. }
  set (c := nextid h).
  cbn [hid tid clone_loop].
  (* 1. mpt_node_clone *)
  unfold node_clone at 1. rewrite (get_ok _ _ _ Hs). cbn [rbind nname nval alloc]. fold c.
  set (h1 := mkH (upd (cells h) c (Some (mkN None None None None n v))) (S c) (freed h)).
  assert (C1 : forall i, i <> c -> cells h1 i = cells h i) by (intros i Hi; apply upd_other; exact Hi).
  assert (C1c : cells h1 c = Some (mkN None None None None n v)) by apply upd_same.
  assert (Nc : ~ In c (ids_f nl)) by (intros K; apply In_ in K; unfold c in K; lia).
  (* 2. append the copy to the new list *)
  assert (S2 : exists h2,
     (match lastid nl None with
      | None => ROk (h1, Some c, Some c)
      | Some _ => do '(h, l) <- gnode_after h1 (lastid nl None) (Some c); ROk (h, hid nl, l)
      end) = ROk (h2, hid (nl ++ [T c n v []]), Some c) /\
     nextid h2 = S c /\ freed h2 = freed h /\
     rep_l (cells h2) None None (nl ++ [T c n v []]) None /\
     (forall i, i <> c -> ~ In i (ids_f nl) -> cells h2 i = cells h i)).
  { destruct (exists_last_or_nil nl) as [->|(nl0 & tl & ->)].
    - cbn [lastid fold_left hid app]. exists h1. repeat split; auto.
      rewrite rep_l_cons, rep_t_eq. cbn [hid hid_or]. repeat split; try apply rep_l_nil. exact C1c.
    - rewrite lastid_app. cbn [lastid fold_left].
      assert (R1 : rep_st (cells h1) ([T c n v []] :: plug ([], []) (nl0 ++ tl :: []))).
      { rewrite rep_st_cons. split.
        - rewrite rep_l_cons, rep_t_eq. cbn [hid hid_or]. repeat split; try apply rep_l_nil. exact C1c.
        - unfold plug. cbn [fst snd fold_left]. rewrite rep_st_cons. split; [|apply rep_st_nil].
          eapply rep_l_frame; [exact Rn|]. intros i Hi. apply C1. intros ->. contradiction. }
      assert (N1 : NoDup (ids_st ([T c n v []] :: plug ([], []) (nl0 ++ tl :: [])))).
      { unfold plug. cbn [fst snd fold_left]. rewrite !ids_st_cons, ids_f_cons, ids_t_eq.
        cbn [ids_f ids_st flat_map app]. rewrite !app_nil_r. constructor; assumption. }
      destruct (after_rep h1 [] [] nl0 tl [] (T c n v []) R1 N1) as (h2 & E & [M1 M2] & R2 & F2).
      cbn [tid] in E. rewrite E. cbn [rbind]. exists h2.
      assert (Hh : hid (nl0 ++ [tl]) = hid ((nl0 ++ [tl]) ++ [T c n v []])) by (destruct nl0; reflexivity).
      rewrite <- Hh. split; [reflexivity|]. split; [rewrite M1; reflexivity|]. split; [rewrite M2; reflexivity|].
      split.
      + unfold plug in R2. cbn [fst snd fold_left] in R2. rewrite rep_st_cons in R2. destruct R2 as [R2 _].
        rewrite <- app_assoc. exact R2.
      + intros i Hi1 Hi2. rewrite F2; [apply C1; exact Hi1|].
        unfold plug. cbn [fst snd fold_left]. rewrite !ids_st_cons, ids_f_cons, ids_t_eq.
        cbn [ids_f ids_st flat_map app]. rewrite !app_nil_r. intros [K|K]; [congruence|contradiction]. }
  destruct S2 as (h2 & E2 & N2 & Fr2 & R2 & F2).
  assert (L0 : lastid nl None = match lastid nl None with None => None | Some q => Some q end) by (destruct (lastid nl None); reflexivity).
  match goal with |- context [match lastid nl None with None => ?a | Some _ => ?b end] =>
    replace (match lastid nl None with None => a | Some _ => b end)
      with (ROk (h2, hid (nl ++ [T c n v []]), Some c)) by (rewrite <- E2; destruct (lastid nl None); reflexivity) end.
  cbn [rbind].
  (* source cells are untouched so far *)
  assert (Src2 : forall i, i < lo -> cells h2 i = cells h i).
  { intros i Hi. apply F2; [unfold c; lia|]. intros K. apply In_ in K. lia. }
  rewrite (fld_ok _ _ _ _ (eq_trans (Src2 s Is_s) Hs)). cbn [rbind nkid].
  (* 3. the children *)
  pose proof (renum_l_spec kk (S c)) as [Kids Kc].
  destruct (renum_l kk (S c)) as [kk' c1] eqn:Ekk. cbn [fst snd] in Kids, Kc.
  rewrite rep_l_mid in R2. destruct R2 as (R2a & R2c & _ & _). cbn [hid_or hid] in R2c.
  assert (S3 : exists h5,
     (match hid kk with
      | Some _ =>
        do '(h, ck) <- list_clone (S f) h2 (hid kk);
        do h <- wr set_kid h c ck; set_parents (fuel_of h) h ck c
      | None => ROk h2
      end) = ROk h5 /\
     nextid h5 = c1 /\ freed h5 = freed h /\
     rep_l (cells h5) None None (nl ++ [T c n v kk']) None /\
     (forall i, i < c -> ~ In i (ids_f nl) -> cells h5 i = cells h i) /\
     (forall i, c1 <= i -> cells h5 i = cells h2 i)).
  { destruct kk as [|tk rk].
    - cbn [hid renum_l] in *. inversion Ekk; subst kk' c1. exists h2. split; [reflexivity|].
      split; [exact N2|]. split; [exact Fr2|]. split; [|split; [|auto]].
      + rewrite rep_l_mid. cbn [hid_or hid]. repeat split; auto; apply rep_l_nil.
      + intros i Hi1 Hi2. apply F2; [lia|exact Hi2].
    - set (kk := tk :: rk) in *. assert (Hk : hid kk = Some (tid tk)) by reflexivity. rewrite Hk, <- Hk.
      rewrite list_clone_S.
      destruct (IH kk) with (h := h2) (lo := lo) (par := Some s) (prv := @None nat) (nl := @nil tree) (f := f) (g := S f)
        as (h3 & E3 & N3 & Fr3 & R3 & F3 & G3); try (rewrite ?fsize_cons, ?tsize_eq; lia).
      { eapply rep_l_frame; [exact Hkk|]. intros i Hi. apply Src2. apply (Is_k i Hi). }
      { exact Is_k. }
      { apply rep_l_nil. }
      { constructor. }
      { intros i []. }
      rewrite N2, Ekk in E3, N3, R3, G3. cbn [fst snd app hid lastid fold_left] in E3, N3, R3, G3.
      rewrite E3. cbn [rbind].
      assert (C3c : cells h3 c = cells h2 c) by (apply F3; [rewrite N2; lia|intros []]).
      rewrite (wr_ok _ _ _ _ _ (eq_trans C3c R2c)). cbn [rbind set_kid nnext nprev npar nkid nname nval].
      set (h4 := put h3 c (set_kid (hid kk') (mkN None (lastid nl None) None None n v))).
      assert (NDk : NoDup (ids_f kk')) by (rewrite Kids; apply seq_NoDup).
      assert (Ck : forall i, In i (ids_f kk') -> S c <= i < c1).
      { intros i Hi. rewrite Kids in Hi. apply in_seq in Hi. lia. }
      destruct (set_parents_spec kk' h4 None c (fuel_of h4)) as (h5 & E5 & [M5a M5b] & R5 & F5).
      { eapply rep_l_frame; [exact R3|]. intros i Hi. unfold h4. rewrite cells_put.
        destruct (Nat.eqb_spec i c) as [->|]; [|reflexivity]. apply Ck in Hi. lia. }
      { exact NDk. }
      { unfold fuel_of, h4. cbn [nextid put]. rewrite N3.
        pose proof (length_le_ids kk'). rewrite Kids, seq_length in H. lia. }
      rewrite E5. exists h5. split; [reflexivity|].
      split; [rewrite M5a; unfold h4; cbn [nextid put]; exact N3|].
      split; [rewrite M5b; unfold h4; cbn [freed put]; rewrite Fr3; exact Fr2|].
      assert (C5 : forall i, ~ In i (ids_f kk') -> i <> c -> cells h5 i = cells h3 i).
      { intros i Hi1 Hi2. rewrite F5 by exact Hi1. unfold h4. rewrite cells_put.
        rewrite (proj2 (Nat.eqb_neq i c)) by exact Hi2. reflexivity. }
      split; [|split].
      + rewrite rep_l_mid. cbn [hid_or]. repeat split.
        * eapply rep_l_frame; [exact R2a|]. intros i Hi.
          assert (i < c) by (apply In_ in Hi; unfold c; lia).
          rewrite C5; [apply F3; [rewrite N2; lia|intros []]| |lia].
          intros K. apply Ck in K. lia.
        * rewrite F5 by (intros K; apply Ck in K; lia). unfold h4. rewrite cells_put, Nat.eqb_refl. reflexivity.
        * exact R5.
        * apply rep_l_nil.
      + intros i Hi1 Hi2. rewrite C5; [| intros K; apply Ck in K; lia | lia].
        rewrite F3; [apply F2; [lia|exact Hi2]|rewrite N2; lia|intros []].
      + intros i Hi. rewrite C5; [apply G3; exact Hi| intros K; apply Ck in K; lia | lia]. }
  destruct S3 as (h5 & E5 & N5 & Fr5 & R5 & F5 & G5).
  match goal with |- context [match hid kk with Some _ => ?a | None => ?b end] =>
    replace (match hid kk with Some _ => a | None => b end) with (ROk (A:=heap) h5)
      by (rewrite <- E5; destruct (hid kk); reflexivity) end.
  cbn [rbind].
  (* 4. next source node and the rest of the loop *)
  assert (Src5 : forall i, i < lo -> cells h5 i = cells h i).
  { intros i Hi. apply F5; [unfold c; lia|]. intros K. apply In_ in K. lia. }
  rewrite (fld_ok _ _ _ _ (eq_trans (Src5 s Is_s) Hs)). cbn [rbind nnext]. rewrite <- hid_hid_or.
  assert (IdsN : forall i, In i (ids_f (nl ++ [T c n v kk'])) -> In i (ids_f nl) \/ c <= i < c1).
  { intros i Hi. rewrite ids_f_app, ids_f_cons, ids_t_eq in Hi. cbn [ids_f flat_map] in Hi. rewrite app_nil_r in Hi.
    apply in_app_or in Hi. destruct Hi as [Hi|[Hi|Hi]]; [auto|right; lia|].
    rewrite Kids in Hi. apply in_seq in Hi. right. lia. }
  destruct (IH r) with (h := h5) (lo := lo) (par := par) (prv := Some s) (nl := nl ++ [T c n v kk']) (f := S f) (g := g)
    as (h6 & E6 & N6 & Fr6 & R6 & F6 & G6); try (rewrite ?fsize_cons, ?tsize_eq; lia).
  { eapply rep_l_frame; [exact Hr|]. intros i Hi. apply Src5. apply (Is_r i Hi). }
  { exact Is_r. }
  { exact R5. }
  { rewrite ids_f_app, ids_f_cons, ids_t_eq. cbn [ids_f flat_map]. rewrite app_nil_r.
    apply NoDup_app_intro; [exact NDn| |].
    - constructor; [rewrite Kids; intros K; apply in_seq in K; lia|rewrite Kids; apply seq_NoDup].
    - intros i Hi [K|K]; [subst; contradiction|]. apply In_ in Hi. rewrite Kids in K. apply in_seq in K. unfold c in *. lia. }
  { intros i Hi. rewrite N5. destruct (IdsN i Hi) as [K|K]; [apply In_ in K; unfold c in *; lia|lia]. }
  rewrite N5 in E6, N6, R6, F6, G6.
  rewrite renum_l_cons, renum_t_eq. fold c. rewrite Ekk.
  destruct (renum_l r c1) as [r' c2] eqn:Er. cbn [fst snd] in *.
  assert (Lst : lastid (nl ++ [T c n v kk']) None = Some c) by (rewrite lastid_app; reflexivity).
  assert (Hd : hid (nl ++ [T c n v kk']) = hid (nl ++ [T c n v []])) by (destruct nl; reflexivity).
  rewrite Lst, Hd in E6. rewrite E6. rewrite <- app_assoc in R6 |- *. cbn [app] in R6 |- *.
  exists h6. split; [reflexivity|]. split; [exact N6|]. split; [rewrite Fr6; exact Fr5|]. split; [exact R6|].
  pose proof (renum_l_spec r c1) as [_ Rc]. rewrite Er in Rc. cbn [snd] in Rc.
  split.
  - intros i Hi1 Hi2. rewrite F6; [apply F5; [exact Hi1|exact Hi2]|lia|].
    intros K. destruct (IdsN i K) as [K'|K']; [contradiction|lia].
  - intros i Hi. rewrite G6 by exact Hi. rewrite G5 by lia. apply F2; [lia|].
    intros K. apply In_ in K. unfold c in *. lia.
Qed.

(* ---------------------------------------------------------------- a fresh top-level list *)
Lemma inv_extend h s h' l' c' :
  inv h s -> nextid h <= c' -> nextid h' = c' -> freed h' = freed h ->
  rep_l (cells h') None None l' None ->
  ids_f l' = seq (nextid h) (c' - nextid h) ->
  (forall i, i < nextid h -> cells h' i = cells h i) ->
  (forall i, c' <= i -> cells h' i = cells h i) ->
  inv h' (mkS (lists s ++ [l']) c' (sfreed s)).
Proof.
  intros I Hc N Fr R Ids F G. pose proof (i_cnt _ _ I) as C.
  constructor; cbn [lists scount sfreed].
  - rewrite rep_st_app. split.
    + eapply rep_st_frame; [exact (i_rep _ _ I)|]. intros i Hi. apply F. exact (inv_bound _ _ _ I Hi).
    + rewrite rep_st_cons. split; [exact R|apply rep_st_nil].
  - exact N.
  - rewrite ids_st_app. cbn [ids_st flat_map]. rewrite app_nil_r, Ids.
    replace c' with (nextid h + (c' - nextid h)) at 2 by lia. rewrite seq_app, C. cbn [plus].
    rewrite <- app_assoc. rewrite (Permutation_app_comm (seq _ _) (sfreed s)). rewrite app_assoc.
    apply Permutation_app_tail. exact (i_perm _ _ I).
  - intros i Hi. rewrite ids_st_app. cbn [ids_st flat_map]. rewrite app_nil_r. apply in_or_app.
    destruct (Nat.lt_ge_cases i (nextid h)) as [L|L].
    + left. apply (i_dom _ _ I). rewrite <- (F i L). exact Hi.
    + destruct (Nat.lt_ge_cases i c') as [L2|L2].
      * right. rewrite Ids. apply in_seq. lia.
      * exfalso. rewrite (G i L2) in Hi. pose proof (inv_bound _ _ _ I (i_dom _ _ I i Hi)). lia.
  - rewrite Fr. exact (i_freed _ _ I).
Qed.

Lemma step_clone x : refines_step (OClone x).
Proof.
  intros h s I. cbn [mstep sstep]. rewrite (live_iff _ _ _ I).
  destruct (focus x (lists s)) as [[[[[frs o] l1] tx] l2]|] eqn:FX.
  2:{ assert (Sl : slive s x = false).
      { destruct (slive s x) eqn:Sl; [|reflexivity]. apply mem_in in Sl. exfalso. exact (focus_st_none _ _ _ FX Sl). }
      rewrite Sl. cbn [fst snd]. eexists; split; [reflexivity|exact I]. }
  assert (Sl : slive s x = true) by (apply mem_in; eapply focus_in; exact FX).
  rewrite Sl. cbn [fst snd].
  destruct (focus_cell _ _ _ _ _ _ _ _ (i_rep _ _ I) FX) as [Hc _].
  unfold node_clone. rewrite (get_ok _ _ _ Hc). cbn [rbind nname nval alloc]. rewrite (i_cnt _ _ I).
  eexists. split; [reflexivity|].
  apply (inv_extend h s); cbn [nextid cells freed]; rewrite ?(i_cnt _ _ I); auto.
  - rewrite rep_l_cons, rep_t_eq. cbn [hid hid_or]. repeat split; try apply rep_l_nil. apply upd_same.
  - replace (S (scount s) - scount s) with 1 by lia. reflexivity.
  - intros i Hi. apply upd_other. lia.
  - intros i Hi. apply upd_other. lia.
Qed.

Lemma step_new' nm v : refines_step (ONew nm v).
Proof. exact (step_new nm v). Qed.

Lemma hid_renum t r c : hid (fst (renum_l (t :: r) c)) = Some c.
Proof.
  rewrite renum_l_cons. destruct t as [i n v k]. rewrite renum_t_eq.
  destruct (renum_l k (S c)) as [k' c1]. destruct (renum_l r c1) as [r' c2]. reflexivity.
Qed.

Lemma step_lclone x : refines_step (OLClone x).
Proof.
  intros h s I. cbn [mstep sstep]. rewrite (live_iff _ _ _ I).
  destruct (focus x (lists s)) as [[[[[frs o] l1] tx] l2]|] eqn:FX.
  2:{ assert (Sl : slive s x = false).
      { destruct (slive s x) eqn:Sl; [|reflexivity]. apply mem_in in Sl. exfalso. exact (focus_st_none _ _ _ FX Sl). }
      rewrite Sl. cbn [fst snd]. eexists; split; [reflexivity|exact I]. }
  assert (Sl : slive s x = true) by (apply mem_in; eapply focus_in; exact FX).
  rewrite Sl.
  destruct (focus_cell _ _ _ _ _ _ _ _ (i_rep _ _ I) FX) as [_ R].
  destruct (focus_perm _ _ _ _ _ _ _ FX) as [P Ex].
  rewrite rep_plug in R. destruct R as (Rl & _ & _). rewrite rep_l_app in Rl. destruct Rl as [_ Rl].
  assert (Sub : forall i, In i (ids_f (tx :: l2)) -> In i (ids_st (lists s))).
  { intros i Hi. eapply Permutation_in; [symmetry; apply ids_st_perm; exact P|].
    eapply Permutation_in; [symmetry; apply ids_plug|]. apply in_or_app. left.
    rewrite ids_f_app. apply in_or_app. auto. }
  assert (Len : fsize (tx :: l2) <= nextid h).
  { rewrite fsize_ids. etransitivity; [|exact (inv_length _ _ I)].
    apply NoDup_incl_length; [|exact Sub].
    assert (ND : NoDup (ids_st (plug (frs, o) (l1 ++ tx :: l2)))).
    { eapply Permutation_NoDup; [apply ids_st_perm; exact P|exact (inv_nodup _ _ I)]. }
    eapply Permutation_NoDup in ND; [|apply ids_plug]. apply NoDup_app_inv in ND. destruct ND as (ND & _).
    rewrite ids_f_app in ND. apply NoDup_app_inv in ND. tauto. }
  unfold fuel_of. rewrite list_clone_S.
  destruct (clone_loop_spec (tx :: l2) h (nextid h) (cpar frs) (lastid l1 None) [] (S (nextid h)) (S (S (nextid h))))
    as (h' & E & N & Fr & R' & F & G); try lia.
  { exact Rl. }
  { intros i Hi. split; [lia|]. apply (inv_bound _ _ _ I). apply Sub. exact Hi. }
  { apply rep_l_nil. }
  { constructor. }
  { intros i []. }
  cbn [hid lastid fold_left app] in E, R'. rewrite Ex in E. rewrite E. cbn [rbind].
  rewrite (i_cnt _ _ I) in *.
  pose proof (renum_l_spec (tx :: l2) (scount s)) as [Ids Cn].
  rewrite hid_renum.
  destruct (renum_l (tx :: l2) (scount s)) as [l' c'] eqn:Er. cbn [fst snd] in *.
  exists h'. split; [reflexivity|].
  apply (inv_extend h s); rewrite ?(i_cnt _ _ I).
  - exact I.
  - lia.
  - exact N.
  - exact Fr.
  - exact R'.
  - rewrite Ids. f_equal. lia.
  - intros i Hi. apply F; [exact Hi|intros []].
  - exact G.
Qed.

Lemma step_tclone x : refines_step (OTClone x).
Proof.
  intros h s I. cbn [mstep sstep]. rewrite (live_iff _ _ _ I).
  destruct (focus x (lists s)) as [[[[[frs o] l1] tx] l2]|] eqn:FX.
  2:{ assert (Sl : slive s x = false).
      { destruct (slive s x) eqn:Sl; [|reflexivity]. apply mem_in in Sl. exfalso. exact (focus_st_none _ _ _ FX Sl). }
      rewrite Sl. cbn [fst snd]. eexists; split; [reflexivity|exact I]. }
  assert (Sl : slive s x = true) by (apply mem_in; eapply focus_in; exact FX).
  rewrite Sl.
  destruct (focus_cell _ _ _ _ _ _ _ _ (i_rep _ _ I) FX) as [Hc R].
  destruct (focus_perm _ _ _ _ _ _ _ FX) as [P Ex].
  rewrite rep_plug in R. destruct R as (Rl & _ & _).
  destruct tx as [x' n v kx]. cbn [tid tname tval tkids] in *. subst x'.
  rewrite rep_l_mid in Rl. destruct Rl as (_ & _ & Rk & _).
  assert (Sub : forall i, In i (x :: ids_f kx) -> In i (ids_st (lists s))).
  { intros i Hi. eapply Permutation_in; [symmetry; apply ids_st_perm; exact P|].
    eapply Permutation_in; [symmetry; apply ids_plug|]. apply in_or_app. left.
    rewrite ids_f_app, ids_f_cons, ids_t_eq. apply in_or_app. right. apply in_or_app. left. exact Hi. }
  assert (Len : S (fsize kx) <= nextid h).
  { rewrite fsize_ids. etransitivity; [|exact (inv_length _ _ I)].
    change (S (length (ids_f kx))) with (length (x :: ids_f kx)).
    apply NoDup_incl_length; [|exact Sub].
    assert (ND : NoDup (ids_st (plug (frs, o) (l1 ++ T x n v kx :: l2)))).
    { eapply Permutation_NoDup; [apply ids_st_perm; exact P|exact (inv_nodup _ _ I)]. }
    eapply Permutation_NoDup in ND; [|apply ids_plug]. apply NoDup_app_inv in ND. destruct ND as (ND & _).
    rewrite ids_f_app, ids_f_cons, ids_t_eq in ND. apply NoDup_app_inv in ND. destruct ND as (_ & ND & _).
    apply NoDup_app_inv in ND. tauto. }
  unfold tree_clone, node_clone. rewrite (get_ok _ _ _ Hc). cbn [rbind nname nval alloc].
  set (c := nextid h).
  set (h1 := mkH (upd (cells h) c (Some (mkN None None None None n v))) (S c) (freed h)).
  assert (C1 : forall i, i <> c -> cells h1 i = cells h i) by (intros i Hi; apply upd_other; exact Hi).
  assert (C1c : cells h1 c = Some (mkN None None None None n v)) by apply upd_same.
  assert (Xc : x < c) by (apply (inv_bound _ _ _ I); apply Sub; left; reflexivity).
  rewrite (fld_ok _ _ _ _ (eq_trans (C1 x ltac:(lia)) Hc)). cbn [rbind nkid].
  rewrite renum_t_eq. rewrite <- (i_cnt _ _ I). fold c.
  pose proof (renum_l_spec kx (S c)) as [Kids Kc].
  destruct (renum_l kx (S c)) as [kk' c1] eqn:Ekk. cbn [fst snd] in Kids, Kc.
  destruct kx as [|tk rk].
  - cbn [hid renum_l] in *. inversion Ekk; subst kk' c1. cbn [fst snd].
    exists h1. split; [reflexivity|].
    apply (inv_extend h s); cbn [nextid cells freed h1]; fold c; auto.
    + rewrite rep_l_cons, rep_t_eq. cbn [hid hid_or]. repeat split; try apply rep_l_nil. exact C1c.
    + replace (S c - c) with 1 by lia. reflexivity.
    + intros i Hi. apply C1. lia.
    + intros i Hi. apply C1. lia.
  - set (kx := tk :: rk) in *. assert (Hk : hid kx = Some (tid tk)) by reflexivity. rewrite Hk, <- Hk.
    unfold fuel_of at 1. cbn [nextid h1]. rewrite list_clone_S.
    destruct (clone_loop_spec kx h1 c (Some x) None [] (S (S c)) (S (S (S c))))
      as (h3 & E3 & N3 & Fr3 & R3 & F3 & G3); try (cbn [nextid h1]; lia).
    { eapply rep_l_frame; [exact Rk|]. intros i Hi. apply C1.
      assert (i < c) by (apply (inv_bound _ _ _ I); apply Sub; right; exact Hi). lia. }
    { intros i Hi. split; [lia|]. apply (inv_bound _ _ _ I). apply Sub. right. exact Hi. }
    { apply rep_l_nil. }
    { constructor. }
    { intros i []. }
    cbn [nextid h1] in E3, N3, R3, F3, G3. rewrite Ekk in E3, N3, R3, G3.
    cbn [fst snd app hid lastid fold_left] in E3, N3, R3, G3.
    rewrite E3. cbn [rbind].
    assert (C3c : cells h3 c = cells h1 c) by (apply F3; [lia|intros []]).
    rewrite (wr_ok _ _ _ _ _ (eq_trans C3c C1c)). cbn [rbind].
    set (h4 := put h3 c (set_kid (hid kk') (mkN None None None None n v))).
    assert (NDk : NoDup (ids_f kk')) by (rewrite Kids; apply seq_NoDup).
    assert (Ck : forall i, In i (ids_f kk') -> S c <= i < c1).
    { intros i Hi. rewrite Kids in Hi. apply in_seq in Hi. lia. }
    destruct (set_parents_spec kk' h4 None c (fuel_of h4)) as (h5 & E5 & [M5a M5b] & R5 & F5).
    { eapply rep_l_frame; [exact R3|]. intros i Hi. unfold h4. rewrite cells_put.
      destruct (Nat.eqb_spec i c) as [->|]; [|reflexivity]. apply Ck in Hi. lia. }
    { exact NDk. }
    { unfold fuel_of, h4. cbn [nextid put]. rewrite N3.
      pose proof (length_le_ids kk'). rewrite Kids, seq_length in H. lia. }
    rewrite E5. cbn [rbind fst snd]. exists h5. split; [reflexivity|].
    assert (C5 : forall i, ~ In i (ids_f kk') -> i <> c -> cells h5 i = cells h3 i).
    { intros i Hi1 Hi2. rewrite F5 by exact Hi1. unfold h4. rewrite cells_put.
      rewrite (proj2 (Nat.eqb_neq i c)) by exact Hi2. reflexivity. }
    apply (inv_extend h s); fold c; auto; try lia.
    + rewrite M5a. unfold h4. cbn [nextid put]. exact N3.
    + rewrite M5b. unfold h4. cbn [freed put]. rewrite Fr3. reflexivity.
    + rewrite rep_l_cons, rep_t_eq. cbn [hid_or tid]. repeat split; [|exact R5|apply rep_l_nil].
      rewrite F5 by (intros K; apply Ck in K; lia). unfold h4. rewrite cells_put, Nat.eqb_refl. reflexivity.
    + cbn [ids_f flat_map]. rewrite ids_t_eq, app_nil_r, Kids.
      replace (c1 - c) with (S (fsize kx)) by lia. reflexivity.
    + intros i Hi. rewrite C5; [|intros K; apply Ck in K; lia|lia].
      rewrite F3; [apply C1; lia|lia|intros []].
    + intros i Hi. rewrite C5; [|intros K; apply Ck in K; lia|lia].
      rewrite G3 by lia. apply C1. lia.
Qed.
