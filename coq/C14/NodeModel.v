(* C14/NodeModel.v — executable mechanism model of mptcore/node/*.c (NO proofs here).

   A pointer heap: node ids are [nat] (the harness assigns the same numbers: order
   of allocation), a pointer is [option nat] ([None] = NULL).  Each cell holds the
   four links of MPT_STRUCT(node) plus name and value.  Every dereference goes
   through [get], which yields [RFault] for NULL / freed / never allocated cells,
   so "no use after free, no double free, no NULL dereference" is "the model never
   returns RFault".  Pointer loops of the C code recurse on explicit fuel and
   return the distinguished [RFuel] when it runs out (the theorems exclude it).

   Names: the harness uses the unnamed identifier and "a","b","c" (UTF8, short);
   mpt_node_locate's comparison (charset, length, bytes) is then plain equality,
   modelled as equality of [nat] name codes 0..3.  Values: 0 = no metatype,
   otherwise a harness metatype holding that number (cloned by mpt_node_clone,
   released by mpt_node_destroy; the metatype with number 3 refuses to be cloned).
   Further name codes: 4 and 6 are long texts, 5 a binary identifier (see
   [name_alloc]), codes above 100 texts of a given length (100 + n: n characters);
   all that matters of a name is equality and, for a clone, whether the copy of
   the identifier needs an allocation of its own.  malloc failure is
   modelled for the clone functions (an oracle says which allocation fails). *)
From Coq Require Import List Arith ZArith Bool.
Import ListNotations.
Local Open Scope nat_scope.

Inductive R (A : Type) : Type :=
| ROk (a : A)
| RFault          (* NULL / freed / unallocated cell dereferenced, or double free *)
| RFuel.          (* a pointer loop ran out of fuel *)
Arguments ROk {A} a.
Arguments RFault {A}.
Arguments RFuel {A}.

Definition rbind {A B} (r : R A) (f : A -> R B) : R B :=
  match r with ROk a => f a | RFault => RFault | RFuel => RFuel end.
Notation "'do' x <- r ; k" := (rbind r (fun x => k))
  (at level 200, x name, r at level 100, k at level 200).
Notation "'do' ' p <- r ; k" := (rbind r (fun x => match x with p => k end))
  (at level 200, p pattern, r at level 100, k at level 200).

Definition ptr := option nat.

Record node := mkN {
  nnext : ptr; nprev : ptr; npar : ptr; nkid : ptr;
  nname : nat; nval : nat }.

Definition cellmap := nat -> option node.

Record heap := mkH {
  cells : cellmap;
  nextid : nat;            (* ids 0 .. nextid-1 have been allocated *)
  freed : list nat }.      (* ids handed to free(), most recent first *)

Definition upd (c : cellmap) (i : nat) (n : option node) : cellmap :=
  fun j => if j =? i then n else c j.

Definition empty_heap : heap := mkH (fun _ => None) 0 [].

Definition get (h : heap) (i : nat) : R node :=
  match cells h i with Some n => ROk n | None => RFault end.

Definition put (h : heap) (i : nat) (n : node) : heap :=
  mkH (upd (cells h) i (Some n)) (nextid h) (freed h).

(* p->field with p possibly NULL *)
Definition fld (f : node -> ptr) (h : heap) (p : ptr) : R ptr :=
  match p with None => RFault | Some i => do n <- get h i; ROk (f n) end.

Definition set_next (v : ptr) (n : node) := mkN v (nprev n) (npar n) (nkid n) (nname n) (nval n).
Definition set_prev (v : ptr) (n : node) := mkN (nnext n) v (npar n) (nkid n) (nname n) (nval n).
Definition set_par  (v : ptr) (n : node) := mkN (nnext n) (nprev n) v (nkid n) (nname n) (nval n).
Definition set_kid  (v : ptr) (n : node) := mkN (nnext n) (nprev n) (npar n) v (nname n) (nval n).

(* i->field = v *)
Definition wr (s : ptr -> node -> node) (h : heap) (i : nat) (v : ptr) : R heap :=
  do n <- get h i; ROk (put h i (s v n)).

Definition peq (a b : ptr) : bool :=
  match a, b with
  | None, None => true
  | Some x, Some y => x =? y
  | _, _ => false
  end.

(* malloc + mpt_node_new: zeroed links *)
Definition alloc (h : heap) (nm v : nat) : heap * nat :=
  let i := nextid h in
  (mkH (upd (cells h) i (Some (mkN None None None None nm v))) (S i) (freed h), i).

(* free(node): the cell must be live *)
Definition release (h : heap) (i : nat) : R heap :=
  do _ <- get h i;
  ROk (mkH (upd (cells h) i None) (nextid h) (i :: freed h)).

(* fuel that suffices for every acyclic pointer chain / recursion over live cells *)
Definition fuel_of (h : heap) : nat := S (S (nextid h)).

(* ------------------------------------------------------------------ gnode_after.c *)
Definition gnode_after (h : heap) (position insert : ptr) : R (heap * ptr) :=
  match insert with
  | None => ROk (h, None)                             (* errno = EFAULT *)
  | Some x =>
    match position with
    | None => ROk (h, Some x)
    | Some p =>
      if p =? x then ROk (h, Some x) else
      do h <- wr set_prev h x (Some p);               (* insert->prev = position *)
      do pn <- fld nnext h (Some p);
      do h <- wr set_next h x pn;                     (* insert->next = position->next *)
      do h <- wr set_next h p (Some x);               (* position->next = insert *)
      do pp <- fld npar h (Some p);
      do h <- wr set_par h x pp;                      (* insert->parent = position->parent *)
      do xn <- fld nnext h (Some x);
      match xn with                                   (* if ((position = insert->next)) position->prev = insert *)
      | Some q => do h <- wr set_prev h q (Some x); ROk (h, Some x)
      | None => ROk (h, Some x)
      end
    end
  end.

(* ------------------------------------------------------------------ gnode_before.c *)
Definition gnode_before (h : heap) (position insert : ptr) : R (heap * ptr) :=
  match insert with
  | None => ROk (h, None)
  | Some x =>
    match position with
    | None => ROk (h, Some x)
    | Some p =>
      if p =? x then ROk (h, Some x) else
      do pv <- fld nprev h (Some p);
      do h <- wr set_prev h x pv;                     (* insert->prev = position->prev *)
      do h <- wr set_next h x (Some p);               (* insert->next = position *)
      do h <- wr set_prev h p (Some x);               (* position->prev = insert *)
      do pp <- fld npar h (Some p);
      do h <- wr set_par h x pp;                      (* insert->parent = position->parent *)
      do xv <- fld nprev h (Some x);
      match xv with
      | Some q => do h <- wr set_next h q (Some x); ROk (h, Some x)
      | None =>
        do xp <- fld npar h (Some x);
        match xp with
        | Some q => do h <- wr set_kid h q (Some x); ROk (h, Some x)
        | None => ROk (h, Some x)
        end
      end
    end
  end.

(* ------------------------------------------------------------------ gnode_pos.c *)
(* while (node->next) node = node->next *)
Fixpoint last_of (fuel : nat) (h : heap) (c : nat) : R nat :=
  match fuel with
  | 0 => RFuel
  | S f =>
    do n <- get h c;
    match nnext n with
    | None => ROk c
    | Some q => last_of f h q
    end
  end.

(* k times: if (node) node = node->field *)
Fixpoint steps (f : node -> ptr) (h : heap) (p : ptr) (k : nat) : R ptr :=
  match k with
  | 0 => ROk p
  | S k' =>
    match p with
    | None => ROk None
    | Some i => do n <- get h i; steps f h (f n) k'
    end
  end.

Definition gnode_pos (fuel : nat) (h : heap) (nd : ptr) (pos : Z) : R ptr :=
  match nd with
  | None => ROk None                                  (* errno = EFAULT *)
  | Some c =>
    if (pos <? 0)%Z then steps nprev h (Some c) (Z.to_nat (- pos))
    else if (0 <? pos)%Z then steps nnext h (Some c) (Z.to_nat pos - 1)
    else do l <- last_of fuel h c; ROk (Some l)
  end.

(* ------------------------------------------------------------------ node_locate.c *)
(* negative offset: while ((curr = curr->prev)) { if (match && !(++pos)) break; } *)
Fixpoint loc_back (fuel : nat) (h : heap) (c : nat) (k : nat) (nm : nat) : R ptr :=
  match fuel with
  | 0 => RFuel
  | S f =>
    do n <- get h c;
    match nprev n with
    | None => ROk None
    | Some p =>
      do np <- get h p;
      if nname np =? nm
      then (if k <=? 1 then ROk (Some p) else loc_back f h p (k - 1) nm)
      else loc_back f h p k nm
    end
  end.

(* positive offset: do { if (match && !(--pos)) break; } while ((curr = curr->next)) *)
Fixpoint loc_fwd (fuel : nat) (h : heap) (c : nat) (k : nat) (nm : nat) : R ptr :=
  match fuel with
  | 0 => RFuel
  | S f =>
    do n <- get h c;
    if (nname n =? nm) && (k <=? 1) then ROk (Some c)
    else
      let k' := if nname n =? nm then k - 1 else k in
      match nnext n with
      | None => ROk None
      | Some q => loc_fwd f h q k' nm
      end
  end.

Definition locate (fuel : nat) (h : heap) (curr : ptr) (pos : Z) (nm : nat) : R ptr :=
  match curr with
  | None => ROk None
  | Some c =>
    if (pos =? 0)%Z then
      do l <- last_of fuel h c;
      do nl <- get h l;
      if nname nl =? nm then ROk (Some l)
      else loc_back fuel h l 1 nm                     (* pos = -1 *)
    else if (pos <? 0)%Z then loc_back fuel h c (Z.to_nat (- pos)) nm
    else loc_fwd fuel h c (Z.to_nat pos) nm
  end.

(* ------------------------------------------------------------------ node_insert.c *)
Definition getnode (byname : bool) (fuel : nat) (h : heap) (nm : nat) (a : ptr) (pos : Z) : R ptr :=
  if byname then locate fuel h a pos nm else gnode_pos fuel h a pos.

(* static node_insert(first, pos, node, getnode) *)
Definition node_insert (byname : bool) (h : heap) (first : nat) (pos : Z) (x : nat) : R heap :=
  let fuel := fuel_of h in
  do nx <- get h x;
  let nm := nname nx in
  do start <- getnode byname fuel h nm (Some first) (if (0 <? pos)%Z then 1%Z else 0%Z);
  do tmp <- match start with
            | None => ROk start
            | Some _ => if (pos =? 0)%Z || (pos =? 1)%Z then ROk start
                        else getnode byname fuel h nm start pos
            end;
  do '(tmp, pos) <- match tmp with
                    | Some _ => ROk (tmp, pos)
                    | None =>
                      match start with
                      | Some _ =>
                        do t <- getnode byname fuel h nm (Some first) (if (pos <? 0)%Z then 1%Z else 0%Z);
                        ROk (t, (- pos)%Z)
                      | None =>
                        do t <- gnode_pos fuel h (Some first) 0%Z;
                        ROk (t, 0%Z)
                      end
                    end;
  if (pos <? 1)%Z
  then do '(h, _) <- gnode_after h tmp (Some x); ROk h
  else do '(h, _) <- gnode_before h tmp (Some x); ROk h.

(* mpt_gnode_add / mpt_node_add *)
Definition node_add (byname : bool) (h : heap) (first : ptr) (pos : Z) (x : ptr) : R (heap * ptr) :=
  match first, x with
  | Some f, Some n => do h <- node_insert byname h f pos n; ROk (h, x)
  | _, _ => ROk (h, x)
  end.

(* mpt_gnode_insert / mpt_node_insert; parent is dereferenced unchecked by the C code *)
Definition node_ins (byname : bool) (h : heap) (parent : nat) (pos : Z) (x : ptr) : R (heap * Z) :=
  match x with
  | None => ROk (h, (-1)%Z)
  | Some n =>
    do pk <- fld nkid h (Some parent);
    match pk with
    | None =>
      do h <- wr set_kid h parent (Some n);
      do h <- wr set_par h n (Some parent);
      ROk (h, 0%Z)
    | Some c => do h <- node_insert byname h c pos n; ROk (h, 0%Z)
    end
  end.

(* ------------------------------------------------------------------ node_clone.c / tree_clone.c *)
(* Failure of a clone.  [k] is the allocation oracle of one call of the library: the
   k-th malloc (counted from 1) of mpt_node_new / mpt_identifier_copy fails, 0 = none
   fails (the harness injects exactly that through a malloc seam).  A value with
   code 3 is a metatype whose clone() answers NULL.  A name with code 4 is a text
   too long for the identifier space mpt_node_new reserves, so that
   mpt_identifier_copy has to malloc. *)
Definition tick (k : nat) : nat * bool :=
  match k with 0 => (0, false) | 1 => (0, true) | S k' => (k', false) end.
Definition unclonable (v : nat) : bool := v =? 3.
(* Name codes above 100: code 100 + n is a text of n characters (stored length
   n + 1 with its terminator).  Whether mpt_identifier_copy has to malloc for the
   copy is decided by the sizes themselves: node_new.c makes a node of 64 bytes,
   or, for 64 < len + 40 <= 256, of the first of 128, 256 that holds len + 40
   bytes; 40 of them are links and value, 4 the identifier header, the rest is
   ident._max; identifier.c allocates when _len > _max (so _len = _max — names of
   19, 83, 211 characters — is the last length kept inside the node). *)
Fixpoint node_grow (fuel size len : nat) : nat :=
  match fuel with
  | 0 => size
  | S f => if size <? len then node_grow f (2 * size) len else size
  end.
Definition node_room (len : nat) : nat :=           (* ident._max after mpt_node_new(len) *)
  let need := len + 40 in
  let size := if (64 <? need) && (need <=? 256) then node_grow 8 64 need else 64 in
  size - 40 - 4.
Definition name_len (nm : nat) : option nat :=      (* ident._len of a text name *)
  if 100 <? nm then Some (nm - 100 + 1) else None.
Definition name_alloc (nm : nat) : bool :=
  (nm =? 4) || match name_len nm with Some l => node_room l <? l | None => false end.

Definition node_clone (h : heap) (x : ptr) (k : nat) : R (heap * ptr * nat) :=
  match x with
  | None => ROk (h, None, k)                          (* errno = EFAULT *)
  | Some i =>
    do n <- get h i;
    if unclonable (nval n) then ROk (h, None, k)      (* meta->clone() failed *)
    else
      let '(k, f) := tick k in
      if f then ROk (h, None, k)                      (* mpt_node_new failed; the cloned value is released *)
      else
        let '(h, c) := alloc h (nname n) (nval n) in
        if name_alloc (nname n) then
          let '(k, f) := tick k in
          if f then do h <- release h c; ROk (h, None, k)   (* mpt_identifier_copy failed: copy destroyed, 0 returned *)
          else ROk (h, Some c, k)
        else ROk (h, Some c, k)
  end.

(* for (c = first; c; c = c->next) c->parent = par *)
Fixpoint set_parents (fuel : nat) (h : heap) (c : ptr) (par : nat) : R heap :=
  match c with
  | None => ROk h
  | Some i =>
    match fuel with
    | 0 => RFuel
    | S f =>
      do h <- wr set_par h i (Some par);
      do nx <- fld nnext h (Some i);
      set_parents f h nx par
    end
  end.

(* ------------------------------------------------------------------ node_unlink.c *)
Definition node_unlink (h : heap) (curr : ptr) : R (heap * ptr) :=
  match curr with
  | None => ROk (h, None)                             (* errno = EINVAL *)
  | Some c =>
    do next <- fld nnext h (Some c);
    do h <- match next with
            | Some q => do cp <- fld nprev h (Some c); wr set_prev h q cp
            | None => ROk h
            end;
    do cp <- fld nprev h (Some c);
    do h <- match cp with
            | Some p => wr set_next h p next
            | None =>
              do cpar <- fld npar h (Some c);
              match cpar with
              | Some q => wr set_kid h q next
              | None => ROk h
              end
            end;
    do h <- wr set_prev h c None;
    do h <- wr set_next h c None;
    do h <- wr set_par h c None;
    ROk (h, next)
  end.

(* ------------------------------------------------------------------ node_clear.c / node_destroy.c *)
(* the sibling loop of mpt_node_clear; [rec] is mpt_node_destroy's call of mpt_node_clear *)
Fixpoint clear_loop (rec : heap -> nat -> R heap) (g : nat) (h : heap) (tmp : ptr) {struct g} : R heap :=
  match tmp with
  | None => ROk h
  | Some t =>
    match g with
    | 0 => RFuel
    | S g' =>
      do next <- fld nnext h (Some t);
      do h <- wr set_prev h t None;
      do h <- wr set_next h t None;
      do h <- wr set_par h t None;
      (* mpt_node_destroy(tmp): now unlinked, so: clear, unref value, free *)
      do h <- rec h t;
      do h <- release h t;
      clear_loop rec g' h next
    end
  end.

(* mutual recursion clear <-> destroy, one fuel for nesting depth and sibling loop *)
Fixpoint node_clear (fuel : nat) (h : heap) (x : nat) : R heap :=
  match fuel with
  | 0 => RFuel
  | S f =>
    do tmp <- fld nkid h (Some x);
    do h <- clear_loop (node_clear f) fuel h tmp;
    wr set_kid h x None
  end.

Definition linked (n : node) : bool :=
  match npar n, nnext n, nprev n with
  | None, None, None => false
  | _, _, _ => true
  end.

Definition node_destroy (h : heap) (x : ptr) : R (heap * ptr) :=
  match x with
  | None => ROk (h, None)                             (* errno = EFAULT *)
  | Some i =>
    do n <- get h i;
    if linked n then ROk (h, Some i)                  (* errno = ENOTSUP *)
    else
      do h <- node_clear (fuel_of h) h i;
      do h <- release h i;
      ROk (h, None)
  end.


(* the failure branch of mpt_list_clone:
   for (cpy = first; cpy; cpy = first) { first = first->next; unlink(cpy); destroy(cpy); } *)
Fixpoint clone_cleanup (g : nat) (h : heap) (first : ptr) : R heap :=
  match first with
  | None => ROk h
  | Some c =>
    match g with
    | 0 => RFuel
    | S g' =>
      do nx <- fld nnext h (Some c);
      do '(h, _) <- node_unlink h (Some c);
      do '(h, _) <- node_destroy h (Some c);
      clone_cleanup g' h nx
    end
  end.

(* the loop of mpt_list_clone; [first]/[last] are the locals of the C function,
   [rec] is the recursive call for the children (clone_children) *)
Fixpoint clone_loop (rec : heap -> ptr -> nat -> R (heap * ptr * nat)) (g : nat) (h : heap) (src first last : ptr) (k : nat)
  {struct g} : R (heap * ptr * nat) :=
  match src with
  | None => ROk (h, first, k)
  | Some s =>
    match g with
    | 0 => RFuel
    | S g' =>
      do '(h, cpy, k) <- node_clone h (Some s) k;
      match cpy with
      | None => do h <- clone_cleanup (fuel_of h) h first; ROk (h, None, k)
      | Some c =>
        do '(h, first, last) <-
           match last with
           | None => ROk (h, cpy, cpy)
           | Some _ => do '(h, l) <- gnode_after h last cpy; ROk (h, first, l)
           end;
        do sk <- fld nkid h (Some s);
        do '(h, ok, k) <-
           match sk with
           | Some _ =>
             do '(h, ck, k) <- rec h sk k;
             match ck with
             | None => ROk (h, false, k)
             | Some _ =>
               do h <- wr set_kid h c ck;
               do h <- set_parents (fuel_of h) h ck c;
               ROk (h, true, k)
             end
           | None => ROk (h, true, k)
           end;
        if ok then
          do nx <- fld nnext h (Some s);
          clone_loop rec g' h nx first last k
        else
          do h <- clone_cleanup (fuel_of h) h first; ROk (h, None, k)
      end
    end
  end.

Fixpoint list_clone (fuel : nat) (h : heap) (src : ptr) (k : nat) : R (heap * ptr * nat) :=
  match fuel with
  | 0 => RFuel
  | S f => clone_loop (fun h p k => list_clone f h p k) fuel h src None None k
  end.

Definition tree_clone (h : heap) (src : ptr) (k : nat) : R (heap * ptr * nat) :=
  do '(h, cpy, k) <- node_clone h src k;
  match cpy, src with
  | Some c, Some s =>
    do sk <- fld nkid h (Some s);
    match sk with
    | None => ROk (h, cpy, k)
    | Some _ =>
      do '(h, ck, k) <- list_clone (fuel_of h) h sk k;
      match ck with
      | None => do '(h, _) <- node_destroy h cpy; ROk (h, None, k)
      | Some _ =>
        do h <- wr set_kid h c ck;
        do h <- set_parents (fuel_of h) h ck c;
        ROk (h, cpy, k)
      end
    end
  | _, _ => ROk (h, None, k)
  end.

(* ------------------------------------------------------------------ node_move.c *)
(* [from] is a node** : either &parent->children or a caller's local variable *)
Inductive fromref := FromKids (p : nat) | FromLocal (v : ptr).

Definition from_get (h : heap) (fr : fromref) : R ptr :=
  match fr with FromKids p => fld nkid h (Some p) | FromLocal v => ROk v end.
Definition from_set (h : heap) (fr : fromref) (v : ptr) : R (heap * fromref) :=
  match fr with
  | FromKids p => do h <- wr set_kid h p v; ROk (h, fr)
  | FromLocal _ => ROk (h, FromLocal v)
  end.

(* for (tmp = src->children; tmp; tmp = tmp->next) { tmp->parent = curr; ++move; } *)
Fixpoint reparent (fuel : nat) (h : heap) (c : ptr) (par : nat) (cnt : nat) : R (heap * nat) :=
  match c with
  | None => ROk (h, cnt)
  | Some i =>
    match fuel with
    | 0 => RFuel
    | S f =>
      do h <- wr set_par h i (Some par);
      do nx <- fld nnext h (Some i);
      reparent f h nx par (S cnt)
    end
  end.

(* the while loop of mpt_node_move; [rec h s ck] is the recursive call
   mpt_node_move(&s->children, ck), [d] the target list start, [lfuel] the fuel of
   the mpt_node_locate / reparent walks *)
Fixpoint move_loop (rec : heap -> nat -> ptr -> R (heap * nat)) (lfuel : nat) (d : nat)
  (g : nat) (h : heap) (from : fromref) (src : ptr) (last : nat) (move : nat) {struct g}
  : R (heap * fromref * nat) :=
  match src with
  | None => ROk (h, from, move)
  | Some s =>
    match g with
    | 0 => RFuel
    | S g' =>
      do ns <- get h s;
      do curr <- locate lfuel h (Some d) 1%Z (nname ns);
      match curr with
      | None =>
        (* move complete node *)
        let nx := nnext ns in
        do '(h, _) <- node_unlink h (Some s);
        do '(h, _) <- node_add false h (Some last) 0%Z (Some s);
        do fv <- from_get h from;                (* if ( *from == curr ) then *from = src *)
        do '(h, from) <- (if peq fv (Some s) then from_set h from nx else ROk (h, from));
        move_loop rec lfuel d g' h from nx s (S move)
      | Some c =>
        do '(h, move) <-
           match nkid ns with
           | None => ROk (h, move)
           | Some _ =>
             do ck <- fld nkid h (Some c);
             match ck with
             | Some _ =>
               do '(h, m) <- rec h s ck;
               ROk (h, move + m)
             | None =>
               do h <- wr set_kid h c (nkid ns);
               do h <- wr set_kid h s None;
               reparent lfuel h (nkid ns) c move
             end
           end;
        do nx <- fld nnext h (Some s);
        move_loop rec lfuel d g' h from nx last move
      end
    end
  end.

Fixpoint node_move (fuel : nat) (h : heap) (from : fromref) (dst : ptr) : R (heap * fromref * nat) :=
  match fuel with
  | 0 => RFuel
  | S f =>
    match dst with
    | None => ROk (h, from, 0)
    | Some d =>
      do src0 <- from_get h from;
      move_loop (fun h s ck => do '(h, _, m) <- node_move f h (FromKids s) ck; ROk (h, m))
                fuel d fuel h from src0 d 0
    end
  end.

(* ------------------------------------------------------------------ gnode_swap.c *)
Definition gnode_swap (h : heap) (pri sec : nat) : R heap :=
  do pc <- fld nkid h (Some pri);
  do sc <- fld nkid h (Some sec);
  do h <- wr set_kid h sec pc;
  do h <- wr set_kid h pri sc;
  do h <- set_parents (fuel_of h) h pc sec;
  set_parents (fuel_of h) h sc pri.

(* fix up the neighbours of a node that took a new place *)
Definition switch_fix (h : heap) (x : nat) : R heap :=
  do xn <- fld nnext h (Some x);
  do h <- match xn with Some q => wr set_prev h q (Some x) | None => ROk h end;
  do xv <- fld nprev h (Some x);
  match xv with
  | Some q => wr set_next h q (Some x)
  | None =>
    do xp <- fld npar h (Some x);
    match xp with Some q => wr set_kid h q (Some x) | None => ROk h end
  end.

Definition gnode_switch (h : heap) (pri sec : nat) : R heap :=
  if pri =? sec then ROk h else
  do np <- get h pri;
  do ns <- get h sec;
  let sub (a : ptr) (x y : nat) : ptr := if peq a (Some x) then Some y else a in
  do h <- wr set_par h pri (npar ns);
  do h <- wr set_next h pri (sub (nnext ns) pri sec);
  do h <- wr set_prev h pri (sub (nprev ns) pri sec);
  do h <- wr set_par h sec (npar np);
  do h <- wr set_next h sec (sub (nnext np) sec pri);
  do h <- wr set_prev h sec (sub (nprev np) sec pri);
  do h <- switch_fix h pri;
  switch_fix h sec.

(* ------------------------------------------------------------------ gnode_relink.c *)
Fixpoint relink_loop (rec : heap -> nat -> R heap) (g : nat) (h : heap) (x : nat) (curr prev : ptr)
  {struct g} : R heap :=
  match curr with
  | None => ROk h
  | Some c =>
    match g with
    | 0 => RFuel
    | S g' =>
      do h <- wr set_par h c (Some x);
      do h <- wr set_prev h c prev;
      do h <- rec h c;
      do nx <- fld nnext h (Some c);
      relink_loop rec g' h x nx (Some c)
    end
  end.

Fixpoint gnode_relink (fuel : nat) (h : heap) (x : nat) : R heap :=
  match fuel with
  | 0 => RFuel
  | S f =>
    do c <- fld nkid h (Some x);
    relink_loop (gnode_relink f) fuel h x c None
  end.

(* ------------------------------------------------------------------ gnode_traverse.c *)
Inductive order := PostOrder | PreOrder | InOrder.

(* flags: 1 = leafs, 2 = non-leafs, 3 = all.  The handler records the node and returns 0. *)
Definition trav_curr (n : node) (flags : nat) : bool :=
  match nkid n with
  | Some _ => 2 <=? flags
  | None => Nat.odd flags
  end.

(* for (child = c; child; child = child->next) process(child) *)
Fixpoint trav_kids (rec : nat -> list nat -> R (list nat)) (g : nat) (h : heap) (c : ptr) (acc : list nat)
  {struct g} : R (list nat) :=
  match c with
  | None => ROk acc
  | Some i =>
    match g with
    | 0 => RFuel
    | S g' =>
      do acc <- rec i acc;
      do nx <- fld nnext h (Some i);
      trav_kids rec g' h nx acc
    end
  end.

Fixpoint traverse (o : order) (fuel : nat) (h : heap) (flags : nat) (x : nat) (acc : list nat) : R (list nat) :=
  match fuel with
  | 0 => RFuel
  | S f =>
    do n <- get h x;
    let visit (acc : list nat) := if trav_curr n flags then acc ++ [x] else acc in
    let kids := trav_kids (traverse o f h flags) fuel h in
    match o with
    | PostOrder => do acc <- kids (nkid n) acc; ROk (visit acc)
    | PreOrder => kids (nkid n) (visit acc)
    | InOrder =>
      match nkid n with
      | None => ROk (visit acc)
      | Some c =>
        do acc <- traverse o f h flags c acc;
        do nx <- fld nnext h (Some c);
        kids nx (visit acc)
      end
    end
  end.

(* mpt_gnode_traverse: the list starting at [x] *)
Fixpoint traverse_list (o : order) (fuel : nat) (h : heap) (flags : nat) (x : ptr) (acc : list nat) : R (list nat) :=
  match x with
  | None => ROk acc
  | Some i =>
    match fuel with
    | 0 => RFuel
    | S f =>
      do acc <- traverse o (fuel_of h) h flags i acc;
      do nx <- fld nnext h (Some i);
      traverse_list o f h flags nx acc
    end
  end.

(* ---- the same with what a handler can observe and do: it is told the depth, and it
   may answer non-zero, which ends the traversal with the node it was called for.
   Handler state: the calls so far (node, depth) and the number of the call that is
   answered with non-zero (counted down; 0 = never). *)
Definition hstate := (list (nat * nat) * nat)%type.

Definition hcall (st : hstate) (x d : nat) : hstate * bool :=
  let '(acc, k) := st in
  match k with
  | 0 => ((acc ++ [(x, d)], 0), false)
  | 1 => ((acc ++ [(x, d)], 0), true)
  | S k' => ((acc ++ [(x, d)], k'), false)
  end.

(* if (MPT_traverse_curr(node, flags)) { if (traverse(node, data, depth)) return node; } *)
Definition tvisit (n : node) (flags : nat) (x d : nat) (st : hstate) : hstate * ptr :=
  if trav_curr n flags
  then let '(st, stop) := hcall st x d in (st, if stop then Some x else None)
  else (st, None).

(* for (child = c; child; child = child->next) { tmp = process(child); if (tmp) return tmp; } *)
Fixpoint trav_kidsK (rec : nat -> hstate -> R (hstate * ptr)) (g : nat) (h : heap) (c : ptr) (st : hstate)
  {struct g} : R (hstate * ptr) :=
  match c with
  | None => ROk (st, None)
  | Some i =>
    match g with
    | 0 => RFuel
    | S g' =>
      do '(st, r) <- rec i st;
      match r with
      | Some _ => ROk (st, r)
      | None => do nx <- fld nnext h (Some i); trav_kidsK rec g' h nx st
      end
    end
  end.

Fixpoint traverseK (o : order) (fuel : nat) (h : heap) (flags : nat) (x d : nat) (st : hstate) : R (hstate * ptr) :=
  match fuel with
  | 0 => RFuel
  | S f =>
    do n <- get h x;
    let kids := trav_kidsK (fun c st => traverseK o f h flags c (S d) st) fuel h in
    match o with
    | PostOrder =>
      do '(st, r) <- kids (nkid n) st;
      match r with Some _ => ROk (st, r) | None => ROk (tvisit n flags x d st) end
    | PreOrder =>
      let '(st, r) := tvisit n flags x d st in
      match r with Some _ => ROk (st, r) | None => kids (nkid n) st end
    | InOrder =>
      match nkid n with
      | None => ROk (tvisit n flags x d st)
      | Some c =>
        do '(st, r) <- traverseK o f h flags c (S d) st;
        match r with
        | Some _ => ROk (st, r)
        | None =>
          do nx <- fld nnext h (Some c);
          let '(st, r) := tvisit n flags x d st in
          match r with Some _ => ROk (st, r) | None => kids nx st end
        end
      end
    end
  end.

(* mpt_gnode_traverse for the three recursive orders: the list starting at [x], depth 0 *)
Fixpoint traverse_listK (o : order) (fuel : nat) (h : heap) (flags : nat) (x : ptr) (st : hstate) : R (hstate * ptr) :=
  match x with
  | None => ROk (st, None)
  | Some i =>
    match fuel with
    | 0 => RFuel
    | S f =>
      do '(st, r) <- traverseK o (fuel_of h) h flags i 0 st;
      match r with
      | Some _ => ROk (st, r)
      | None => do nx <- fld nnext h (Some i); traverse_listK o f h flags nx st
      end
    end
  end.

(* ------------------------------------------------------------------ gnode_level.c *)
(* the loop of mpt_gnode_samelevel; [rec] is the recursive call with up-1:
   while ((start = samelevel(start, up-1))) if (start->children) return start->children; return 0; *)
Fixpoint up_loop (rec : ptr -> R ptr) (g : nat) (h : heap) (cur : ptr) {struct g} : R ptr :=
  match g with
  | 0 => RFuel
  | S g' =>
    do nx <- rec cur;
    match nx with
    | None => ROk None
    | Some q =>
      do nq <- get h q;
      match nkid nq with
      | Some c => ROk (Some c)
      | None => up_loop rec g' h (Some q)
      end
    end
  end.

(* mpt_gnode_samelevel(start, up): the next node on the level of [start], looking at
   most [up] levels up for it; recursion on [up], the while loop on [fuel] *)
Fixpoint samelevel (up : nat) (fuel : nat) (h : heap) (start : ptr) {struct up} : R ptr :=
  match start with
  | None => ROk None                                  (* errno = EFAULT *)
  | Some s =>
    do n <- get h s;
    match up with
    | 0 => ROk (nnext n)
    | S up' =>
      match nnext n with
      | Some q => ROk (Some q)
      | None => up_loop (samelevel up' fuel h) fuel h (npar n)     (* start = start->parent; while ... *)
      end
    end
  end.

(* mpt_gnode_sublevel(start, up): the first child of the first node from [start] on
   (along its level) that has children *)
Fixpoint sublevel (g : nat) (fuel : nat) (up : nat) (h : heap) (start : ptr) {struct g} : R ptr :=
  match start with
  | None => ROk None
  | Some s =>
    match g with
    | 0 => RFuel
    | S g' =>
      do n <- get h s;
      match nkid n with
      | Some c => ROk (Some c)
      | None => do nx <- samelevel up fuel h (Some s); sublevel g' fuel up h nx
      end
    end
  end.

(* ------------------------------------------------------------------ gnode_traverse.c: level order *)
(* the inner loop: all nodes of one level *)
Fixpoint level_row (g : nat) (fuel : nat) (h : heap) (flags : nat) (curr : ptr) (up d : nat) (st : hstate)
  {struct g} : R (hstate * ptr) :=
  match curr with
  | None => ROk (st, None)
  | Some c =>
    match g with
    | 0 => RFuel
    | S g' =>
      do n <- get h c;
      let '(st, r) := tvisit n flags c d st in
      match r with
      | Some _ => ROk (st, r)
      | None =>
        do nx <- match nnext n with
                 | None => samelevel up fuel h (Some c)
                 | Some q => ROk (Some q)
                 end;
        level_row g' fuel h flags nx up d st
      end
    end
  end.

(* the outer loop: while (node) { row; curr = node = sublevel(node, up++); ++depth; } *)
Fixpoint traverse_level (g : nat) (fuel : nat) (h : heap) (flags : nat) (nd : ptr) (up d : nat) (st : hstate)
  {struct g} : R (hstate * ptr) :=
  match nd with
  | None => ROk (st, None)
  | Some _ =>
    match g with
    | 0 => RFuel
    | S g' =>
      do '(st, r) <- level_row fuel fuel h flags nd up d st;
      match r with
      | Some _ => ROk (st, r)
      | None =>
        do nx <- sublevel fuel fuel up h nd;
        traverse_level g' fuel h flags nx (S up) (S d) st
      end
    end
  end.

(* mpt_gnode_traverse(x, flags | order, handler): [None] = TraverseLevelOrder *)
Definition gnode_traverse (h : heap) (o : option order) (flags : nat) (x : ptr) (st : hstate) : R (hstate * ptr) :=
  match x with
  | None => ROk (st, None)                            (* errno = EFAULT *)
  | Some _ =>
    match o with
    | Some o => traverse_listK o (fuel_of h) h flags x st
    | None => traverse_level (fuel_of h) (fuel_of h) h flags x 0 0 st
    end
  end.

(* ------------------------------------------------------------------ node_next.c / node_find.c *)
(* mpt_node_next(curr, ident): first node from curr on (inclusive) with that name.
   Name code 0 stands for ident = NULL, which matches no node (an unnamed node has
   charset 0, not UTF8). *)
Fixpoint node_next (fuel : nat) (h : heap) (curr : ptr) (nm : nat) : R ptr :=
  match curr with
  | None => ROk None
  | Some i =>
    match fuel with
    | 0 => RFuel
    | S f =>
      do n <- get h i;
      if negb (nm =? 0) && (nname n =? nm) then ROk (Some i)
      else node_next f h (nnext n) nm
    end
  end.

(* mpt_node_find(parent, name, pos): among the children, by name and position
   (mpt_node_locate with the default charset: an unnamed node never matches) *)
Definition node_find (h : heap) (parent : nat) (nm : nat) (pos : Z) : R ptr :=
  do k <- fld nkid h (Some parent);
  match k with
  | None => ROk None                                  (* errno = EINVAL *)
  | Some _ =>
    if nm =? 0 then ROk None
    else if (0 <=? pos)%Z then locate (fuel_of h) h k pos nm
    else
      do t <- locate (fuel_of h) h k 0%Z nm;
      match t with
      | None => ROk None
      | Some _ => locate (fuel_of h) h t pos nm
      end
  end.

(* ------------------------------------------------------------------ history language *)
(* Guards are the callers' obligations of the C interface (insert only nodes that
   are not linked anywhere, never below themselves; merge lists of different
   trees).  The harness evaluates the same guards on the raw links and skips the
   call when one fails (token X). *)
(* calls with a NULL node argument (the other arguments are live nodes) *)
Inductive nullcall :=
| NAdd (byname : bool) (pos : Z) (x : nat)     (* mpt_[g]node_add(NULL, pos, x) *)
| NAddN (byname : bool) (f : nat) (pos : Z)    (* mpt_[g]node_add(f, pos, NULL) *)
| NInsN (byname : bool) (p : nat) (pos : Z)    (* mpt_[g]node_insert(p, pos, NULL) *)
| NMove (p : nat)                              (* mpt_node_move(&p->children, NULL) *)
| NPos (pos : Z)                               (* mpt_gnode_pos(NULL, pos) *)
| NUnlink | NDestroy | NRelink
| NClone | NLClone | NTClone
| NTrav (o : option order) (flags : nat)       (* mpt_gnode_traverse(NULL, ..) *)
| NTravH (x : nat)                             (* mpt_gnode_traverse(x, .., NULL handler) *)
| NLocate (pos : Z) | NFind | NNext
| NSame (up : nat) | NSub (up : nat).          (* mpt_gnode_samelevel / mpt_gnode_sublevel (NULL, up) *)

Inductive op :=
| ONew (nm v : nat)
| OAfter (p x : ptr)
| OBefore (p x : ptr)
| OAdd (byname : bool) (first : nat) (pos : Z) (x : nat)
| OIns (byname : bool) (parent : nat) (pos : Z) (x : nat)
| OUnlink (x : nat)
| OMove (p d : nat)          (* mpt_node_move(&p->children, d) *)
| OLMove (s d : nat)         (* local = s; mpt_node_move(&local, d) *)
| OClone (x : nat) (k : nat)      (* k: number of the malloc that fails during the call, 0 = none *)
| OLClone (x : nat) (k : nat)
| OTClone (x : nat) (k : nat)
| OClear (x : nat)
| ODestroy (x : nat)
| OSwap (a b : nat)
| OSwitch (a b : nat)
| ORelink (x : nat)
| OTrav (o : order) (flags : nat) (x : nat)
| OFind (p : nat) (nm : nat) (pos : Z)
| ONext (x : nat) (nm : nat)
| OLocate (x : nat) (pos : Z) (q : option nat)   (* mpt_node_locate with the identifier the query denotes; None: refused *)
| OWalk (o : option order) (flags : nat) (x : nat) (k : nat)   (* traversal, handler stops at its k-th call *)
| ONull (c : nullcall)       (* an entry point called with a NULL node *)
| OEnd.

Inductive out :=
| OutX                       (* not called: guard failed / dead index *)
| OutP (p : ptr)             (* pointer result *)
| OutZ (z : Z)               (* integer result *)
| OutL (l : list nat)        (* visit sequence *)
| OutW (l : list (nat * nat)) (p : ptr).   (* handler calls (node, depth) and the node returned *)

Definition live (h : heap) (i : nat) : bool :=
  match cells h i with Some _ => true | None => false end.
Definition livep (h : heap) (p : ptr) : bool :=
  match p with None => true | Some i => live h i end.

Definition unlinked (h : heap) (i : nat) : bool :=
  match cells h i with Some n => negb (linked n) | None => false end.

(* is [a] equal to [p] or one of its ancestors *)
Fixpoint anc_or_eq (fuel : nat) (h : heap) (a : nat) (p : nat) : R bool :=
  match fuel with
  | 0 => RFuel
  | S f =>
    if a =? p then ROk true else
    do n <- get h p;
    match npar n with
    | None => ROk false
    | Some q => anc_or_eq f h a q
    end
  end.

(* top-level ancestor, then first node of that top-level list *)
Fixpoint top_of (fuel : nat) (h : heap) (p : nat) : R nat :=
  match fuel with
  | 0 => RFuel
  | S f =>
    do n <- get h p;
    match npar n with
    | None => ROk p
    | Some q => top_of f h q
    end
  end.
Fixpoint head_of (fuel : nat) (h : heap) (p : nat) : R nat :=
  match fuel with
  | 0 => RFuel
  | S f =>
    do n <- get h p;
    match nprev n with
    | None => ROk p
    | Some q => head_of f h q
    end
  end.
Definition tophead (h : heap) (p : nat) : R nat :=
  do t <- top_of (fuel_of h) h p; head_of (fuel_of h) h t.

Definition is_head (h : heap) (i : nat) : bool :=
  match cells h i with Some n => match nprev n with None => true | Some _ => false end | None => false end.

(* may [x] be linked next to / below [p] ? *)
Definition can_link (h : heap) (p x : nat) : R bool :=
  if live h p && unlinked h x
  then do a <- anc_or_eq (fuel_of h) h x p; ROk (negb a)
  else ROk false.

Definition count_unfreed (h : heap) : nat :=
  length (filter (fun i => live h i) (seq 0 (nextid h))).

(* what the entry points do with a NULL node: nothing *)
Definition mnull (h : heap) (c : nullcall) : R (heap * out) :=
  match c with
  | NAdd bn pos x =>
    if live h x then do '(h, r) <- node_add bn h None pos (Some x); ROk (h, OutP r) else ROk (h, OutX)
  | NAddN bn f pos =>
    if live h f then do '(h, r) <- node_add bn h (Some f) pos None; ROk (h, OutP r) else ROk (h, OutX)
  | NInsN bn p pos =>
    if live h p then do '(h, r) <- node_ins bn h p pos None; ROk (h, OutZ r) else ROk (h, OutX)
  | NMove p =>
    if live h p then do '(h, _, m) <- node_move (fuel_of h) h (FromKids p) None; ROk (h, OutZ (Z.of_nat m))
    else ROk (h, OutX)
  | NPos pos => do r <- gnode_pos (fuel_of h) h None pos; ROk (h, OutP r)
  | NUnlink => do '(h, r) <- node_unlink h None; ROk (h, OutP r)
  | NDestroy => do '(h, r) <- node_destroy h None; ROk (h, OutP r)
  | NRelink => ROk (h, OutP None)                     (* errno = EFAULT *)
  | NClone => do '(h, r, _) <- node_clone h None 0; ROk (h, OutP r)
  | NLClone => do '(h, r, _) <- list_clone (fuel_of h) h None 0; ROk (h, OutP r)
  | NTClone => do '(h, r, _) <- tree_clone h None 0; ROk (h, OutP r)
  | NTrav o fl => do '(st, r) <- gnode_traverse h o fl None ([], 0); ROk (h, OutW (fst st) r)
  | NTravH x => if live h x then ROk (h, OutW [] None) else ROk (h, OutX)   (* !traverse: errno = EFAULT *)
  | NLocate pos => do r <- locate (fuel_of h) h None pos 0; ROk (h, OutP r)
  | NFind => ROk (h, OutP None)                       (* !parent: errno = EINVAL *)
  | NNext => do r <- node_next (fuel_of h) h None 0; ROk (h, OutP r)
  | NSame up => do r <- samelevel up (fuel_of h) h None; ROk (h, OutP r)
  | NSub up => do r <- sublevel (fuel_of h) (fuel_of h) up h None; ROk (h, OutP r)
  end.

Definition mstep (h : heap) (o : op) : R (heap * out) :=
  match o with
  | ONew nm v => let '(h, i) := alloc h nm v in ROk (h, OutP (Some i))
  | OAfter p x | OBefore p x =>
    let call := match o with OAfter _ _ => gnode_after | _ => gnode_before end in
    match p, x with
    | Some pi, Some xi =>
      do ok <- (if pi =? xi then ROk (live h pi) else can_link h pi xi);
      if ok then do '(h, r) <- call h p x; ROk (h, OutP r) else ROk (h, OutX)
    | None, Some xi => if live h xi then do '(h, r) <- call h p x; ROk (h, OutP r) else ROk (h, OutX)
    | Some pi, None => if live h pi then do '(h, r) <- call h p x; ROk (h, OutP r) else ROk (h, OutX)
    | None, None => do '(h, r) <- call h p x; ROk (h, OutP r)
    end
  | OAdd bn f pos x =>
    do ok <- can_link h f x;
    if ok && is_head h f
    then do '(h, r) <- node_add bn h (Some f) pos (Some x); ROk (h, OutP r)
    else ROk (h, OutX)
  | OIns bn p pos x =>
    do ok <- can_link h p x;
    if ok then do '(h, r) <- node_ins bn h p pos (Some x); ROk (h, OutZ r) else ROk (h, OutX)
  | OUnlink x =>
    if live h x then do '(h, r) <- node_unlink h (Some x); ROk (h, OutP r) else ROk (h, OutX)
  | OMove p d =>
    if live h p && live h d && is_head h d then
      do tp <- tophead h p;
      do td <- tophead h d;
      if tp =? td then ROk (h, OutX)
      else do '(h, _, m) <- node_move (fuel_of h) h (FromKids p) (Some d); ROk (h, OutZ (Z.of_nat m))
    else ROk (h, OutX)
  | OLMove s d =>
    if unlinked h s && live h d && is_head h d then
      do td <- tophead h d;
      if s =? td then ROk (h, OutX)
      else do '(h, _, m) <- node_move (fuel_of h) h (FromLocal (Some s)) (Some d); ROk (h, OutZ (Z.of_nat m))
    else ROk (h, OutX)
  | OClone x k =>
    if live h x then do '(h, r, _) <- node_clone h (Some x) k; ROk (h, OutP r) else ROk (h, OutX)
  | OLClone x k =>
    if live h x then do '(h, r, _) <- list_clone (fuel_of h) h (Some x) k; ROk (h, OutP r) else ROk (h, OutX)
  | OTClone x k =>
    if live h x then do '(h, r, _) <- tree_clone h (Some x) k; ROk (h, OutP r) else ROk (h, OutX)
  | OClear x =>
    if live h x then do h <- node_clear (fuel_of h) h x; ROk (h, OutP None) else ROk (h, OutX)
  | ODestroy x =>
    if live h x then do '(h, r) <- node_destroy h (Some x); ROk (h, OutP r) else ROk (h, OutX)
  | OSwap a b =>
    if live h a && live h b then
      do x <- anc_or_eq (fuel_of h) h a b;
      do y <- anc_or_eq (fuel_of h) h b a;
      if (x || y) && negb (a =? b) then ROk (h, OutX)
      else do h <- gnode_swap h a b; ROk (h, OutP None)
    else ROk (h, OutX)
  | OSwitch a b =>
    if live h a && live h b then
      do x <- anc_or_eq (fuel_of h) h a b;
      do y <- anc_or_eq (fuel_of h) h b a;
      if (x || y) && negb (a =? b) then ROk (h, OutX)
      else do h <- gnode_switch h a b; ROk (h, OutP None)
    else ROk (h, OutX)
  | ORelink x =>
    if live h x then do h <- gnode_relink (fuel_of h) h x; ROk (h, OutP None) else ROk (h, OutX)
  | OTrav o fl x =>
    if live h x then do l <- traverse_list o (fuel_of h) h fl (Some x) []; ROk (h, OutL l) else ROk (h, OutX)
  | OFind p nm pos =>
    if live h p then do r <- node_find h p nm pos; ROk (h, OutP r) else ROk (h, OutX)
  | ONext x nm =>
    if live h x then do r <- node_next (fuel_of h) h (Some x) nm; ROk (h, OutP r) else ROk (h, OutX)
  | OLocate x pos q =>
    if live h x then
      match q with
      | None => ROk (h, OutP None)                    (* len && !ident: errno = EFAULT *)
      | Some nm => do r <- locate (fuel_of h) h (Some x) pos nm; ROk (h, OutP r)
      end
    else ROk (h, OutX)
  | OWalk o fl x k =>
    if live h x then do '(st, r) <- gnode_traverse h o fl (Some x) ([], k); ROk (h, OutW (fst st) r)
    else ROk (h, OutX)
  | ONull c => mnull h c
  | OEnd =>
    (* harness clean-up: every live node without parent is unlinked and destroyed *)
    do h <- fold_left (fun (rh : R heap) (i : nat) =>
                         do h <- rh;
                         match cells h i with
                         | Some n =>
                           match npar n with
                           | None =>
                             do '(h, _) <- node_unlink h (Some i);
                             do '(h, _) <- node_destroy h (Some i);
                             ROk h
                           | Some _ => ROk h
                           end
                         | None => ROk h
                         end) (seq 0 (nextid h)) (ROk h);
    ROk (h, OutZ (Z.of_nat (count_unfreed h)))
  end.

(* run a history; a faulting step ends the trace with [None] *)
Fixpoint mrun (h : heap) (ops : list op) : list (option (out * heap)) :=
  match ops with
  | [] => []
  | o :: r =>
    match mstep h o with
    | ROk (h', out) => Some (out, h') :: mrun h' r
    | _ => [None]
    end
  end.

(* ------------------------------------------------------------------ link checker (boolean, for the M token) *)
(* well-formedness verdict from the raw links, the same rules as the harness:
   pointers name live cells, next/prev agree, siblings share the parent, a node
   without prev is its parent's first child, first child has no prev and names its
   parent, parent and next chains end. *)
Fixpoint chain_ends (f : node -> ptr) (fuel : nat) (h : heap) (p : ptr) : bool :=
  match p with
  | None => true
  | Some i =>
    match fuel with
    | 0 => false
    | S g => match cells h i with Some n => chain_ends f g h (f n) | None => false end
    end
  end.

Definition node_ok (h : heap) (i : nat) (n : node) : bool :=
  livep h (nnext n) && livep h (nprev n) && livep h (npar n) && livep h (nkid n) &&
  match nnext n with
  | Some q => match cells h q with Some m => peq (nprev m) (Some i) && peq (npar m) (npar n) | None => false end
  | None => true
  end &&
  match nprev n with
  | Some q => match cells h q with Some m => peq (nnext m) (Some i) | None => false end
  | None =>
    match npar n with
    | Some q => match cells h q with Some m => peq (nkid m) (Some i) | None => false end
    | None => true
    end
  end &&
  match nkid n with
  | Some q => match cells h q with
              | Some m => peq (npar m) (Some i) && peq (nprev m) None
              | None => false end
  | None => true
  end &&
  chain_ends npar (fuel_of h) h (Some i) && chain_ends nnext (fuel_of h) h (Some i).

Definition wfcheck (h : heap) : bool :=
  forallb (fun i => match cells h i with Some n => node_ok h i n | None => true end) (seq 0 (nextid h)).
