(* C14/NodeRefine.v — one step of the pointer model refines one step of the forest
   specification: same result, invariant kept, no fault.  Part 1: create, insert
   before/after, unlink. *)
From Coq Require Import List Arith ZArith Bool Lia Permutation Wf_nat.
From MptV Require Import C14.NodeModel C14.NodeSpec C14.NodeRep C14.NodeFocus C14.NodeExec
  C14.NodeLocal C14.NodeInv.
Import ListNotations.
Local Open Scope nat_scope.

(* the statement proved operation by operation *)
Definition refines_step (o : op) : Prop :=
  forall h s, inv h s ->
    exists h', mstep h o = ROk (h', snd (sstep s o)) /\ inv h' (fst (sstep s o)).

Lemma take_single_inv x st tx st1 :
  take_single x st = Some (tx, st1) -> focus x st = Some (([], st1), [], tx, []).
Proof.
  unfold take_single. destruct (focus x st) as [[[[[frs o] a] t] b]|]; [|discriminate].
  destruct frs; [|discriminate]. destruct a; [|discriminate]. destruct b; [|discriminate].
  intros E. inversion E. reflexivity.
Qed.

Lemma take_single_perm x st tx st1 :
  take_single x st = Some (tx, st1) -> Permutation st ([tx] :: st1) /\ tid tx = x.
Proof. intros H. apply take_single_inv in H. apply (focus_perm _ _ _ _ _ _ _ H). Qed.

(* cells change, the set of nodes does not *)
Lemma inv_relink h s h' st' :
  inv h s -> same_meta h h' -> rep_st (cells h') st' ->
  Permutation (ids_st st') (ids_st (lists s)) ->
  (forall i, ~ In i (ids_st (lists s)) -> cells h' i = cells h i) ->
  inv h' (with_lists s st').
Proof.
  intros I [M1 M2] R P F. constructor; cbn [lists scount sfreed with_lists].
  - exact R.
  - rewrite M1. exact (i_cnt _ _ I).
  - rewrite P. exact (i_perm _ _ I).
  - intros i Hi. destruct (in_dec Nat.eq_dec i (ids_st (lists s))) as [K|K].
    + eapply Permutation_in; [symmetry; exact P|exact K].
    + rewrite (F i K) in Hi. exfalso. exact (K (i_dom _ _ I i Hi)).
  - rewrite M2. exact (i_freed _ _ I).
Qed.

(* ---------------------------------------------------------------- new *)
Lemma step_new nm v : refines_step (ONew nm v).
Proof.
  intros h s I. cbn [mstep sstep fst snd]. unfold alloc. rewrite (i_cnt _ _ I).
  eexists. split; [reflexivity|].
  pose proof (i_cnt _ _ I) as C.
  assert (Fr : ~ In (scount s) (ids_st (lists s))).
  { intros K. pose proof (inv_bound _ _ _ I K). lia. }
  constructor; cbn [cells nextid freed lists scount sfreed].
  - rewrite rep_st_app. split.
    + eapply rep_st_frame; [exact (i_rep _ _ I)|]. intros i Hi. apply upd_other.
      intros ->. contradiction.
    + rewrite rep_st_cons. split; [|apply rep_st_nil].
      rewrite rep_l_cons, rep_t_eq. cbn [hid hid_or tid]. repeat split; try apply rep_l_nil.
      apply upd_same.
  - reflexivity.
  - rewrite ids_st_app. cbn [ids_st flat_map ids_f ids_t app]. rewrite seq_S. cbn [plus].
    rewrite <- app_assoc. cbn [app].
    rewrite <- Permutation_middle. rewrite Permutation_app_comm. cbn [app].
    rewrite (Permutation_app_comm (seq 0 (scount s))). cbn [app]. apply perm_skip.
    rewrite Permutation_app_comm. exact (i_perm _ _ I).
  - intros i Hi. rewrite ids_st_app. apply in_or_app. unfold upd in Hi.
    destruct (Nat.eqb_spec i (scount s)) as [E|E].
    + right. cbn. left. lia.
    + left. exact (i_dom _ _ I i Hi).
  - exact (i_freed _ _ I).
Qed.

(* ---------------------------------------------------------------- the link guard *)
Lemma can_link_spec h s p x : inv h s -> p <> x ->
  can_link h p x =
  ROk (match take_single x (lists s) with
       | Some (tx, st1) => match focus p st1 with Some _ => true | None => false end
       | None => false
       end).
Proof.
  intros I Npx. unfold can_link. rewrite (live_iff _ _ _ I), (unlinked_iff _ _ _ I).
  destruct (take_single x (lists s)) as [[tx st1]|] eqn:TS; [|rewrite andb_false_r; reflexivity].
  rewrite andb_true_r.
  destruct (take_single_perm _ _ _ _ TS) as [P Ex].
  pose proof (rep_st_perm _ _ _ P (i_rep _ _ I)) as R. rewrite rep_st_cons in R. destruct R as [Rx R1].
  pose proof (inv_nodup _ _ I) as ND.
  assert (ND' : NoDup (ids_st ([tx] :: st1))) by (eapply Permutation_NoDup; [apply ids_st_perm; exact P|exact ND]).
  rewrite ids_st_cons in ND'. apply NoDup_app_inv in ND'. destruct ND' as (_ & _ & Dj).
  pose proof (Permutation_length (ids_st_perm _ _ P)) as Len. rewrite ids_st_cons, app_length in Len.
  pose proof (inv_length _ _ I) as Len2.
  destruct tx as [x' nx vx kx]. cbn [tid] in Ex. subst x'.
  destruct (focus p st1) as [[[[[frs o] l1] tp] l2]|] eqn:FP.
  - assert (Hp : In p (ids_st st1)) by (eapply focus_in; exact FP).
    assert (Sl : slive s p = true).
    { unfold slive. apply mem_in. eapply Permutation_in; [symmetry; apply ids_st_perm; exact P|].
      rewrite ids_st_cons. apply in_or_app. auto. }
    rewrite Sl.
    rewrite (anc_focus h st1 x p frs o l1 tp l2 (fuel_of h) R1 FP).
    + cbn [rbind]. f_equal. rewrite (proj2 (Nat.eqb_neq x p)) by congruence. cbn [orb].
      destruct (existsb (Nat.eqb x) (map fi frs)) eqn:Ex; [|reflexivity].
      exfalso. apply existsb_exists in Ex. destruct Ex as (y & Hy & E). apply Nat.eqb_eq in E. subst y.
      apply in_map_iff in Hy. destruct Hy as (fr & E & Hfr).
      apply (Dj x); [rewrite ids_f_cons, ids_t_eq; left; reflexivity|].
      destruct (focus_perm _ _ _ _ _ _ _ FP) as [P1 _].
      eapply Permutation_in; [symmetry; apply ids_st_perm; exact P1|].
      eapply Permutation_in; [symmetry; apply ids_plug|].
      apply in_or_app. right. apply in_or_app. left.
      unfold ids_frs. apply in_flat_map. exists fr. split; [exact Hfr|].
      unfold ids_fr. apply in_or_app. right. left. exact E.
    + destruct (focus_perm _ _ _ _ _ _ _ FP) as [P1 _].
      pose proof (Permutation_length (ids_st_perm _ _ P1)) as L1.
      pose proof (Permutation_length (ids_plug frs o (l1 ++ tp :: l2))) as L2.
      rewrite !app_length in L2. pose proof (frames_length frs). unfold fuel_of. lia.
  - destruct (slive s p) eqn:Sl; [|reflexivity].
    unfold slive in Sl. apply mem_in in Sl.
    assert (K : In p (ids_st ([T x nx vx kx] :: st1))) by (eapply Permutation_in; [apply ids_st_perm; exact P|exact Sl]).
    rewrite ids_st_cons, ids_f_cons, ids_t_eq in K. cbn [ids_f flat_map] in K. rewrite app_nil_r in K.
    apply in_app_or in K. destruct K as [[K|K]|K]; [congruence| |exfalso; exact (focus_st_none _ _ _ FP K)].
    rewrite rep_l_cons, rep_t_eq in Rx. destruct Rx as ((_ & Rk) & _).
    rewrite (heap_eta h).
    rewrite (anc_below (cells h) (nextid h) (freed h) x kx x None None 1 Rk) with (p := p); [reflexivity| |exact K|].
    + intros f Hf. destruct f; [lia|]. cbn [anc_or_eq]. rewrite Nat.eqb_refl. reflexivity.
    + rewrite fsize_ids. cbn [nextid]. unfold fuel_of. cbn [nextid].
      rewrite ids_f_cons, ids_t_eq, app_length in Len. cbn [length ids_f flat_map] in Len. lia.
Qed.

(* ---------------------------------------------------------------- insert after / before *)
Lemma link_setup h s p x tx st1 frs o l1 tp l2 :
  inv h s -> take_single x (lists s) = Some (tx, st1) -> focus p st1 = Some ((frs, o), l1, tp, l2) ->
  let st := [tx] :: plug (frs, o) (l1 ++ tp :: l2) in
  rep_st (cells h) st /\ NoDup (ids_st st) /\ Permutation (ids_st st) (ids_st (lists s)) /\
  tid tx = x /\ tid tp = p.
Proof.
  intros I TS FP st. destruct (take_single_perm _ _ _ _ TS) as [P Ex].
  destruct (focus_perm _ _ _ _ _ _ _ FP) as [P1 Ep].
  assert (PP : Permutation (lists s) st).
  { etransitivity; [exact P|]. unfold st. apply perm_skip. exact P1. }
  repeat split; auto.
  - eapply rep_st_perm; [exact PP|exact (i_rep _ _ I)].
  - eapply Permutation_NoDup; [apply ids_st_perm; exact PP|exact (inv_nodup _ _ I)].
  - symmetry. apply ids_st_perm. exact PP.
Qed.

Lemma ids_insert_mid l1 (tx : tree) rest :
  Permutation (ids_f (l1 ++ tx :: rest)) (ids_t tx ++ ids_f (l1 ++ rest)).
Proof. rewrite !ids_f_app, ids_f_cons. apply Permutation_app_swap_app. Qed.

Lemma ids_plug_insert frs o l1 tx rest :
  Permutation (ids_st (plug (frs, o) (l1 ++ tx :: rest)))
              (ids_st ([tx] :: plug (frs, o) (l1 ++ rest))).
Proof.
  rewrite ids_st_cons, !ids_plug, ids_insert_mid. cbn [ids_f flat_map]. rewrite app_nil_r, <- app_assoc.
  reflexivity.
Qed.

Lemma step_link (after : bool) p x : p <> x ->
  refines_step (if after then OAfter (Some p) (Some x) else OBefore (Some p) (Some x)).
Proof.
  intros Npx h s I.
  assert (E : exists h',
     (do ok <- can_link h p x;
      if ok then do '(h, r) <- (if after then gnode_after else gnode_before) h (Some p) (Some x); ROk (h, OutP r)
      else ROk (h, OutX)) =
     ROk (h', snd (link_with s p x (OutP (Some x))
                    (fun c l1 tp l2 tx => Some (plug c (if after then l1 ++ tp :: tx :: l2 else l1 ++ tx :: tp :: l2))))) /\
     inv h' (fst (link_with s p x (OutP (Some x))
                    (fun c l1 tp l2 tx => Some (plug c (if after then l1 ++ tp :: tx :: l2 else l1 ++ tx :: tp :: l2)))))).
  { rewrite (can_link_spec _ _ _ _ I Npx). cbn [rbind]. unfold link_with.
    destruct (take_single x (lists s)) as [[tx st1]|] eqn:TS; [|eexists; split; [reflexivity|exact I]].
    destruct (focus p st1) as [[[[[frs o] l1] tp] l2]|] eqn:FP; [|eexists; split; [reflexivity|exact I]].
    cbn [fst snd].
    destruct (link_setup _ _ _ _ _ _ _ _ _ _ _ I TS FP) as (R & ND & P & Ex & Ep). subst p x.
    destruct after.
    - destruct (after_rep _ _ _ _ _ _ _ R ND) as (h' & Ea & M & R' & F).
      rewrite Ea. cbn [rbind]. eexists. split; [reflexivity|].
      apply (inv_relink _ _ _ _ I M R').
      + rewrite <- P. change (l1 ++ tp :: tx :: l2) with (l1 ++ [tp] ++ tx :: l2).
        change (l1 ++ tp :: l2) with (l1 ++ [tp] ++ l2). rewrite !app_assoc. apply ids_plug_insert.
      + intros i Hi. apply F. intros K. apply Hi. eapply Permutation_in; [exact P|exact K].
    - destruct (before_rep _ _ _ _ _ _ _ R ND) as (h' & Ea & M & R' & F).
      rewrite Ea. cbn [rbind]. eexists. split; [reflexivity|].
      apply (inv_relink _ _ _ _ I M R').
      + rewrite <- P. apply ids_plug_insert.
      + intros i Hi. apply F. intros K. apply Hi. eapply Permutation_in; [exact P|exact K]. }
  destruct after; cbn [mstep sstep]; rewrite (proj2 (Nat.eqb_neq p x)) by assumption; exact E.
Qed.

Lemma step_after p x : refines_step (OAfter p x).
Proof.
  destruct p as [p|], x as [x|].
  - destruct (Nat.eq_dec p x) as [->|Npx]; [|exact (step_link true p x Npx)].
    intros h s I. cbn [mstep sstep]. rewrite Nat.eqb_refl. cbn [rbind]. rewrite (live_iff _ _ _ I).
    destruct (slive s x); cbn [fst snd].
    + unfold gnode_after. rewrite Nat.eqb_refl. cbn [rbind]. eexists; split; [reflexivity|exact I].
    + eexists; split; [reflexivity|exact I].
  - intros h s I. cbn [mstep sstep]. rewrite (live_iff _ _ _ I).
    destruct (slive s p); cbn [fst snd gnode_after rbind]; eexists; (split; [reflexivity|exact I]).
  - intros h s I. cbn [mstep sstep]. rewrite (live_iff _ _ _ I).
    destruct (slive s x); cbn [fst snd gnode_after rbind]; eexists; (split; [reflexivity|exact I]).
  - intros h s I. cbn [mstep sstep fst snd gnode_after rbind]. eexists; (split; [reflexivity|exact I]).
Qed.

Lemma step_before p x : refines_step (OBefore p x).
Proof.
  destruct p as [p|], x as [x|].
  - destruct (Nat.eq_dec p x) as [->|Npx]; [|exact (step_link false p x Npx)].
    intros h s I. cbn [mstep sstep]. rewrite Nat.eqb_refl. cbn [rbind]. rewrite (live_iff _ _ _ I).
    destruct (slive s x); cbn [fst snd].
    + unfold gnode_before. rewrite Nat.eqb_refl. cbn [rbind]. eexists; split; [reflexivity|exact I].
    + eexists; split; [reflexivity|exact I].
  - intros h s I. cbn [mstep sstep]. rewrite (live_iff _ _ _ I).
    destruct (slive s p); cbn [fst snd gnode_before rbind]; eexists; (split; [reflexivity|exact I]).
  - intros h s I. cbn [mstep sstep]. rewrite (live_iff _ _ _ I).
    destruct (slive s x); cbn [fst snd gnode_before rbind]; eexists; (split; [reflexivity|exact I]).
  - intros h s I. cbn [mstep sstep fst snd gnode_before rbind]. eexists; (split; [reflexivity|exact I]).
Qed.

(* ---------------------------------------------------------------- unlink *)
Lemma step_unlink x : refines_step (OUnlink x).
Proof.
  intros h s I. cbn [mstep sstep]. rewrite (live_iff _ _ _ I).
  destruct (focus x (lists s)) as [[[[[frs o] l1] tx] l2]|] eqn:FX.
  - assert (Sl : slive s x = true) by (apply mem_in; eapply focus_in; exact FX).
    rewrite Sl. cbn [fst snd].
    destruct (focus_perm _ _ _ _ _ _ _ FX) as [P Ex]. subst x.
    pose proof (rep_st_perm _ _ _ P (i_rep _ _ I)) as R.
    assert (ND : NoDup (ids_st (plug (frs, o) (l1 ++ tx :: l2)))).
    { eapply Permutation_NoDup; [apply ids_st_perm; exact P|exact (inv_nodup _ _ I)]. }
    destruct (unlink_rep _ _ _ _ _ _ R ND) as (h' & Eu & M & R' & F & _).
    rewrite Eu. cbn [rbind]. eexists. split; [reflexivity|].
    apply (inv_relink _ _ _ _ I M).
    + rewrite rep_st_app. rewrite rep_st_cons in R'. destruct R' as [Rx Rp].
      split; [exact Rp|]. rewrite rep_st_cons. split; [exact Rx|apply rep_st_nil].
    + rewrite ids_st_app. rewrite (ids_st_perm _ _ P), ids_plug_insert, ids_st_cons.
      cbn [ids_st flat_map]. rewrite app_nil_r. apply Permutation_app_comm.
    + intros i Hi. apply F. intros K. apply Hi. eapply Permutation_in; [symmetry; apply ids_st_perm; exact P|exact K].
  - assert (Sl : slive s x = false).
    { destruct (slive s x) eqn:Sl; [|reflexivity]. apply mem_in in Sl. exfalso. exact (focus_st_none _ _ _ FX Sl). }
    rewrite Sl. cbn [fst snd]. eexists; split; [reflexivity|exact I].
Qed.
