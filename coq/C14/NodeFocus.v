(* C14/NodeFocus.v — properties of the zipper search [focus]. *)
From Coq Require Import List Arith ZArith Bool Lia Permutation.
From MptV Require Import C14.NodeModel C14.NodeSpec C14.NodeRep.
Import ListNotations.
Local Open Scope nat_scope.

Lemma focus_t_eq p i n v k : focus_t p (T i n v k) = focus_l p [] k.
Proof.
  cbn [focus_t].
  match goal with |- ?f [] k = _ => enough (E : forall l1, f l1 k = focus_l p l1 k) by apply E end.
  induction k as [|t r IH]; intros l1; [reflexivity|].
  cbn [focus_l]. destruct (tid t =? p); [reflexivity|].
  destruct (focus_t p t) as [[[[fr a] tp] b]|]; [reflexivity|]. apply IH.
Qed.

Lemma fold_plugf_app frs fr l :
  fold_left plugf (frs ++ [fr]) l = plugf (fold_left plugf frs l) fr.
Proof. rewrite fold_left_app. reflexivity. Qed.

Lemma tree_eta t : t = T (tid t) (tname t) (tval t) (tkids t).
Proof. destruct t; reflexivity. Qed.

(* what a successful search returns *)
Lemma focus_t_sound p t : forall frs a tp b,
  focus_t p t = Some (frs, a, tp, b) ->
  tkids t = fold_left plugf frs (a ++ tp :: b) /\ tid tp = p.
Proof.
  induction t as [i n v k IH] using tree_ind'. intros frs a tp b.
  rewrite focus_t_eq. cbn [tkids].
  enough (E : forall l1, focus_l p l1 k = Some (frs, a, tp, b) ->
                         l1 ++ k = fold_left plugf frs (a ++ tp :: b) /\ tid tp = p).
  { intros H. apply (E [] H). }
  induction IH as [|t r Ht _ IHr]; intros l1 H; cbn [focus_l] in H; [discriminate|].
  destruct (Nat.eqb_spec (tid t) p) as [E|E].
  - inversion H; subst. auto.
  - destruct (focus_t p t) as [[[[fr a'] tp'] b']|] eqn:F.
    + inversion H; subst. destruct (Ht _ _ _ _ eq_refl) as [K1 K2]. split; [|exact K2].
      rewrite fold_plugf_app, <- K1. unfold plugf. cbn [fl1 fi fn fv fl2].
      rewrite <- tree_eta. reflexivity.
    + specialize (IHr _ H). rewrite <- app_assoc in IHr. exact IHr.
Qed.

Lemma focus_l_sound p l : forall l1 frs a tp b,
  focus_l p l1 l = Some (frs, a, tp, b) ->
  l1 ++ l = fold_left plugf frs (a ++ tp :: b) /\ tid tp = p.
Proof.
  intros l1 frs a tp b H.
  induction l as [|t r IH] in l1, H |- *; cbn [focus_l] in H; [discriminate|].
  destruct (Nat.eqb_spec (tid t) p) as [E|E].
  - inversion H; subst. auto.
  - destruct (focus_t p t) as [[[[fr a'] tp'] b']|] eqn:F.
    + inversion H; subst. destruct (focus_t_sound _ _ _ _ _ _ F) as [K1 K2]. split; [|exact K2].
      rewrite fold_plugf_app, <- K1. unfold plugf. cbn [fl1 fi fn fv fl2].
      rewrite <- tree_eta. reflexivity.
    + specialize (IH _ H). rewrite <- app_assoc in IH. apply IH.
Qed.

Lemma focus_st_sound p st : forall pre frs others a tp b,
  focus_st p pre st = Some ((frs, others), a, tp, b) ->
  exists s1 s2, st = s1 ++ fold_left plugf frs (a ++ tp :: b) :: s2 /\
                others = pre ++ s1 ++ s2 /\ tid tp = p.
Proof.
  induction st as [|l r IH]; intros pre frs others a tp b H; cbn [focus_st] in H; [discriminate|].
  destruct (focus_l p [] l) as [[[[fr a'] tp'] b']|] eqn:F.
  - inversion H; subst. destruct (focus_l_sound _ _ _ _ _ _ _ F) as [K1 K2].
    exists [], r. cbn [app] in *. rewrite <- K1. auto.
  - destruct (IH _ _ _ _ _ _ H) as (s1 & s2 & E1 & E2 & E3).
    exists (l :: s1), s2. subst. rewrite <- !app_assoc. auto.
Qed.

(* a failing search: the node is not there *)
Lemma focus_t_none p t : focus_t p t = None -> ~ In p (ids_f (tkids t)).
Proof.
  induction t as [i n v k IH] using tree_ind'.
  rewrite focus_t_eq. cbn [tkids].
  enough (E : forall l1, focus_l p l1 k = None -> ~ In p (ids_f k)) by apply E.
  induction IH as [|t r Ht _ IHr]; intros l1 H; cbn [focus_l] in H; [intros []|].
  destruct (Nat.eqb_spec (tid t) p) as [E|E]; [discriminate|].
  destruct (focus_t p t) as [[[[fr a'] tp'] b']|] eqn:F; [discriminate|].
  rewrite ids_f_cons. intros Hin. apply in_app_or in Hin. destruct Hin as [Hin|Hin].
  - rewrite (tree_eta t), ids_t_eq in Hin. destruct Hin as [Hin|Hin]; [contradiction|].
    apply (Ht eq_refl Hin).
  - apply (IHr _ H Hin).
Qed.

Lemma focus_l_none p l : forall l1, focus_l p l1 l = None -> ~ In p (ids_f l).
Proof.
  induction l as [|t r IH]; intros l1 H; cbn [focus_l] in H; [intros []|].
  destruct (Nat.eqb_spec (tid t) p) as [E|E]; [discriminate|].
  destruct (focus_t p t) as [[[[fr a'] tp'] b']|] eqn:F; [discriminate|].
  rewrite ids_f_cons. intros Hin. apply in_app_or in Hin. destruct Hin as [Hin|Hin].
  - rewrite (tree_eta t), ids_t_eq in Hin. destruct Hin as [Hin|Hin]; [contradiction|].
    apply (focus_t_none _ _ F Hin).
  - apply (IH _ H Hin).
Qed.

Lemma focus_st_none p st : forall pre, focus_st p pre st = None -> ~ In p (ids_st st).
Proof.
  induction st as [|l r IH]; intros pre H; cbn [focus_st] in H; [intros []|].
  destruct (focus_l p [] l) as [[[[fr a'] tp'] b']|] eqn:F; [discriminate|].
  rewrite ids_st_cons. intros Hin. apply in_app_or in Hin. destruct Hin as [Hin|Hin].
  - apply (focus_l_none _ _ _ F Hin).
  - apply (IH _ H Hin).
Qed.

(* the consequences used by the operation proofs *)
Lemma focus_perm p st frs others a tp b :
  focus p st = Some ((frs, others), a, tp, b) ->
  Permutation st (plug (frs, others) (a ++ tp :: b)) /\ tid tp = p.
Proof.
  intros H. destruct (focus_st_sound _ _ _ _ _ _ _ _ H) as (s1 & s2 & E1 & E2 & E3).
  subst. split; [|reflexivity]. unfold plug. cbn [fst snd app].
  symmetry. apply Permutation_middle.
Qed.

Lemma rep_st_perm c a b : Permutation a b -> rep_st c a -> rep_st c b.
Proof.
  intros P. induction P; intros H.
  - exact H.
  - rewrite rep_st_cons in *. tauto.
  - rewrite !rep_st_cons in *. tauto.
  - auto.
Qed.

Lemma ids_st_perm a b : Permutation a b -> Permutation (ids_st a) (ids_st b).
Proof.
  intros P. induction P.
  - reflexivity.
  - rewrite !ids_st_cons. apply Permutation_app_head. assumption.
  - rewrite !ids_st_cons. apply Permutation_app_swap_app.
  - etransitivity; eassumption.
Qed.

Lemma focus_in p st c a tp b : focus p st = Some (c, a, tp, b) -> In p (ids_st st).
Proof.
  destruct c as [frs others]. intros H. destruct (focus_perm _ _ _ _ _ _ _ H) as [P E].
  eapply Permutation_in; [symmetry; apply ids_st_perm; exact P|].
  eapply Permutation_in; [symmetry; apply ids_plug|].
  apply in_or_app. left. rewrite ids_f_app, ids_f_cons. apply in_or_app. right.
  apply in_or_app. left. rewrite (tree_eta tp), ids_t_eq. left. exact E.
Qed.

Lemma focus_some p st : In p (ids_st st) -> exists c a tp b, focus p st = Some (c, a, tp, b).
Proof.
  intros Hin. destruct (focus p st) as [[[[c a] tp] b]|] eqn:F; [eauto|].
  exfalso. exact (focus_st_none _ _ _ F Hin).
Qed.
