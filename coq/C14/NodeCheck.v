(* C14/NodeCheck.v — "represents a forest" implies every explicit link rule: the
   boolean raw-link checker [wfcheck] (next/prev agree, siblings share the parent,
   a node without prev is its parent's first child, a first child has no prev and
   names its parent, parent and next chains end, all pointers name live cells)
   accepts every heap that satisfies the invariant. *)
From Coq Require Import List Arith ZArith Bool Lia Permutation Wf_nat.
From MptV Require Import C14.NodeModel C14.NodeSpec C14.NodeRep C14.NodeFocus C14.NodeExec
  C14.NodeLocal C14.NodeInv C14.NodeRefine.
Import ListNotations.
Local Open Scope nat_scope.

Lemma length_le_fsize_ids (l : forest) : length l <= length (ids_f l).
Proof.
  induction l as [|[i n v k] r IH]; [reflexivity|].
  rewrite ids_f_cons, ids_t_eq, app_length. cbn [length]. lia.
Qed.

Lemma peq_refl p : peq p p = true.
Proof. destruct p; cbn; [apply Nat.eqb_refl|reflexivity]. Qed.

Lemma chain_ends_S f g h i :
  chain_ends f (S g) h (Some i) = match cells h i with Some n => chain_ends f g h (f n) | None => false end.
Proof. reflexivity. Qed.

Lemma chain_next h par : forall b prv fuel,
  rep_l (cells h) par prv b None -> length b < fuel -> chain_ends nnext fuel h (hid b) = true.
Proof.
  induction b as [|[q n v k] r IH]; intros prv fuel R Hf; [destruct fuel; reflexivity|].
  destruct fuel as [|fuel]; [cbn in Hf; lia|]. cbn [hid tid chain_ends].
  rewrite rep_l_cons, rep_t_eq in R. destruct R as ((Hq & _) & Hr). rewrite Hq. cbn [nnext].
  rewrite <- hid_hid_or. apply (IH (Some q)); [exact Hr|cbn in Hf; lia].
Qed.

Lemma chain_par h : forall frs hd fuel,
  rep_frames (cells h) frs hd -> length frs < fuel -> chain_ends npar fuel h (cpar frs) = true.
Proof.
  induction frs as [|fr rest IH]; intros hd fuel R Hf; [destruct fuel; reflexivity|].
  destruct fuel as [|fuel]; [cbn in Hf; lia|]. cbn [cpar chain_ends].
  cbn [rep_frames] in R. destruct R as (_ & Hc & _ & Hr). rewrite Hc. cbn [npar].
  apply (IH _ _ Hr). cbn in Hf. lia.
Qed.

Lemma node_ok_rep h s i n : inv h s -> cells h i = Some n -> node_ok h i n = true.
Proof.
  intros I Hn.
  assert (Hin : In i (ids_st (lists s))) by (apply (i_dom _ _ I); rewrite Hn; discriminate).
  destruct (focus_some _ _ Hin) as ([frs o] & a & ti & b & F).
  destruct (focus_cell _ _ _ _ _ _ _ _ (i_rep _ _ I) F) as [Hc R].
  pose proof (focus_fuel _ _ _ _ _ _ _ _ I F) as Ffu.
  destruct (focus_perm _ _ _ _ _ _ _ F) as [P Ei].
  rewrite Hn in Hc. inversion Hc; subst n. clear Hc.
  rewrite rep_plug in R. destruct R as (Rl & Rf & Ro).
  destruct ti as [i' nm v k]. cbn [tid tname tval tkids] in *. subst i'.
  rewrite rep_l_mid in Rl. destruct Rl as (Ra & Hi & Rk & Rb).
  (* the four neighbours *)
  assert (Nx : forall q, hid_or b None = Some q -> exists m, cells h q = Some m /\ nprev m = Some i /\ npar m = cpar frs).
  { intros q Eq. destruct b as [|[q' n' v' k'] b']; cbn in Eq; inversion Eq; subst.
    rewrite rep_l_cons, rep_t_eq in Rb. destruct Rb as ((Hq & _) & _). eexists. split; [exact Hq|]. auto. }
  assert (Pv : forall q, lastid a None = Some q -> exists m, cells h q = Some m /\ nnext m = Some i).
  { intros q Eq. destruct (rep_l_last_cell _ _ _ _ _ _ Ra Eq) as (m & Hm & Em). eauto. }
  assert (Pr : forall q, cpar frs = Some q -> exists m, cells h q = Some m /\ nkid m = hid (a ++ T i nm v k :: b)).
  { intros q Eq. destruct frs as [|fr rest]; cbn in Eq; inversion Eq; subst.
    cbn [rep_frames] in Rf. destruct Rf as (_ & Hc & _). eexists. split; [exact Hc|reflexivity]. }
  assert (Kd : forall q, hid k = Some q -> exists m, cells h q = Some m /\ npar m = Some i /\ nprev m = None).
  { intros q Eq. destruct k as [|[q' n' v' k'] kr]; cbn in Eq; inversion Eq; subst.
    rewrite rep_l_cons, rep_t_eq in Rk. destruct Rk as ((Hq & _) & _). eexists. split; [exact Hq|]. auto. }
  assert (Lb : length b <= nextid h /\ length frs <= nextid h).
  { pose proof (length_le_fsize_ids b) as L. pose proof (inv_length _ _ I) as L2. pose proof (frames_length frs) as L3.
    rewrite (Permutation_length (ids_st_perm _ _ P)), (Permutation_length (ids_plug _ _ _)) in L2.
    rewrite ids_f_app, ids_f_cons, !app_length in L2. lia. }
  destruct Lb as [Lb Lf].
  unfold node_ok. cbn [nnext nprev npar nkid].
  repeat (apply andb_true_intro; split).
  - unfold livep, live. destruct (hid_or b None) as [q|] eqn:E; [|reflexivity]. destruct (Nx q eq_refl) as (m & -> & _). reflexivity.
  - unfold livep, live. destruct (lastid a None) as [q|] eqn:E; [|reflexivity]. destruct (Pv q eq_refl) as (m & -> & _). reflexivity.
  - unfold livep, live. destruct (cpar frs) as [q|] eqn:E; [|reflexivity]. destruct (Pr q eq_refl) as (m & -> & _). reflexivity.
  - unfold livep, live. destruct (hid k) as [q|] eqn:E; [|reflexivity]. destruct (Kd q eq_refl) as (m & -> & _). reflexivity.
  - destruct (hid_or b None) as [q|] eqn:E; [|reflexivity]. destruct (Nx q eq_refl) as (m & -> & E1 & E2).
    rewrite E1, E2, !peq_refl. reflexivity.
  - destruct (lastid a None) as [q|] eqn:E.
    + destruct (Pv q eq_refl) as (m & -> & E1). rewrite E1. apply peq_refl.
    + apply lastid_nil_inv in E. subst a. destruct (cpar frs) as [q|] eqn:E2; [|reflexivity].
      destruct (Pr q eq_refl) as (m & -> & E1). rewrite E1. cbn. apply Nat.eqb_refl.
  - destruct (hid k) as [q|] eqn:E; [|reflexivity]. destruct (Kd q eq_refl) as (m & -> & E1 & E2).
    rewrite E1, E2. cbn. rewrite Nat.eqb_refl. reflexivity.
  - unfold fuel_of. rewrite chain_ends_S, Hi. cbn [npar]. apply (chain_par h frs _ _ Rf). lia.
  - unfold fuel_of. rewrite chain_ends_S, Hi. cbn [nnext]. rewrite <- hid_hid_or.
    apply (chain_next h _ b (Some i) _ Rb). lia.
Qed.

Lemma inv_wfcheck h s : inv h s -> wfcheck h = true.
Proof.
  intros I. unfold wfcheck. apply forallb_forall. intros i _.
  destruct (cells h i) as [n|] eqn:E; [|reflexivity]. exact (node_ok_rep h s i n I E).
Qed.
