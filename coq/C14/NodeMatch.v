(* C14/NodeMatch.v — pure list facts: the walks [fwd]/[back] of node_locate.c in terms
   of the list [matches] of indices that the specification uses. *)
From Coq Require Import List Arith ZArith Bool Lia.
From MptV Require Import C14.NodeModel C14.NodeSpec C14.NodeLocal C14.NodePos.
Import ListNotations.
Local Open Scope nat_scope.

Lemma matches_app nm : forall a b i,
  matches nm i (a ++ b) = matches nm i a ++ matches nm (i + length a) b.
Proof.
  induction a as [|t a IH]; intros b i; cbn [matches app length].
  - rewrite Nat.add_0_r. reflexivity.
  - rewrite IH. replace (S i + length a) with (i + S (length a)) by lia.
    destruct (tname t =? nm); reflexivity.
Qed.

Lemma matches_bounds nm : forall l i j,
  In j (matches nm i l) -> i <= j < i + length l /\ exists t, nth_error l (j - i) = Some t /\ tname t = nm.
Proof.
  induction l as [|t r IH]; intros i j H; [contradiction|].
  cbn [matches] in H. destruct (Nat.eqb_spec (tname t) nm) as [E|E].
  - destruct H as [<-|H].
    + split; [cbn; lia|]. rewrite Nat.sub_diag. exists t. auto.
    + destruct (IH _ _ H) as (B & t' & E1 & E2). split; [cbn; lia|].
      exists t'. replace (j - i) with (S (j - S i)) by lia. auto.
  - destruct (IH _ _ H) as (B & t' & E1 & E2). split; [cbn; lia|].
    exists t'. replace (j - i) with (S (j - S i)) by lia. auto.
Qed.

Lemma matches_none nm l i :
  (forall t, In t l -> tname t <> nm) -> matches nm i l = [].
Proof.
  revert i. induction l as [|t r IH]; intros i H; [reflexivity|].
  cbn [matches]. rewrite (proj2 (Nat.eqb_neq (tname t) nm)) by (apply H; left; reflexivity).
  apply IH. intros t' Ht'. apply H. right. exact Ht'.
Qed.

Lemma matches_nil_inv nm : forall l i t, matches nm i l = [] -> In t l -> tname t <> nm.
Proof.
  induction l as [|a r IH]; intros i t H Hin; [contradiction|].
  cbn [matches] in H. destruct (Nat.eqb_spec (tname a) nm) as [E|E]; [discriminate|].
  destruct Hin as [<-|Hin]; [exact E|]. eapply IH; eauto.
Qed.

(* [fwd] counts matches from the front *)
Lemma fwd_matches nm : forall l k idx, 1 <= k -> fwd l nm k idx = nth_error (matches nm idx l) (k - 1).
Proof.
  induction l as [|t r IH]; intros k idx Hk.
  - cbn. destruct (k - 1); reflexivity.
  - cbn [fwd matches]. destruct (Nat.eqb_spec (tname t) nm) as [E|E]; cbn [andb].
    + destruct k as [|[|k]]; [lia|reflexivity|].
      replace (S (S k) <=? 1) with false by reflexivity.
      rewrite IH by lia. cbn [Nat.sub nth_error]. rewrite !Nat.sub_0_r. reflexivity.
    + apply IH. exact Hk.
Qed.

(* skipping a prefix without matches changes nothing *)
Lemma fwd_skip nm : forall d l k idx,
  matches nm idx (firstn d l) = [] -> fwd l nm k idx = fwd (skipn d l) nm k (idx + d).
Proof.
  induction d as [|d IH]; intros l k idx H.
  - rewrite Nat.add_0_r. reflexivity.
  - destruct l as [|t r]; [reflexivity|]. cbn [firstn matches] in H. cbn [skipn fwd].
    destruct (Nat.eqb_spec (tname t) nm) as [E|E]; [discriminate|]. cbn [andb].
    rewrite (IH r k (S idx) H). f_equal. lia.
Qed.

Lemma matches_before_first nm l i m ms :
  matches nm i l = m :: ms -> matches nm i (firstn (m - i) l) = [].
Proof.
  revert i. induction l as [|t r IH]; intros i H; [discriminate|].
  cbn [matches] in H. destruct (Nat.eqb_spec (tname t) nm) as [E|E].
  - inversion H; subst. rewrite Nat.sub_diag. reflexivity.
  - pose proof (matches_bounds nm r (S i) m) as B. rewrite H in B. destruct (B (or_introl eq_refl)) as ((B1 & _) & _).
    replace (m - i) with (S (m - S i)) by lia. cbn [firstn matches].
    rewrite (proj2 (Nat.eqb_neq (tname t) nm)) by exact E. apply IH. exact H.
Qed.

(* from the first match onwards: the k-th match *)
Lemma fwd_from_first nm l m ms k :
  matches nm 0 l = m :: ms -> 1 <= k ->
  fwd (skipn m l) nm k m = nth_error (m :: ms) (k - 1).
Proof.
  intros H Hk. rewrite <- H, <- (fwd_matches nm l k 0 Hk).
  rewrite (fwd_skip nm m l k 0); [reflexivity|].
  pose proof (matches_before_first nm l 0 m ms H) as K. rewrite Nat.sub_0_r in K. exact K.
Qed.

(* [back] counts matches from the end of a prefix *)
Lemma back_matches nm : forall p k, 1 <= k ->
  back (rev p) nm k (length p - 1) = nth_error (rev (matches nm 0 p)) (k - 1).
Proof.
  induction p as [|t p IH] using rev_ind; intros k Hk.
  - cbn. destruct (k - 1); reflexivity.
  - rewrite rev_app_distr, app_length, matches_app. cbn [rev app length back matches].
    replace (length p + 1 - 1) with (length p) by lia. rewrite Nat.add_0_l.
    destruct (Nat.eqb_spec (tname t) nm) as [E|E].
    + rewrite rev_app_distr. cbn [rev app].
      destruct k as [|[|k]]; [lia|reflexivity|].
      replace (S (S k) <=? 1) with false by reflexivity.
      rewrite IH by lia. cbn [Nat.sub nth_error]. rewrite !Nat.sub_0_r. reflexivity.
    + rewrite app_nil_r. apply IH. exact Hk.
Qed.

Lemma last_app_ne {A} (a b : list A) d : b <> [] -> last (a ++ b) d = last b d.
Proof.
  intros H. destruct (exists_last H) as (b' & x & ->). rewrite app_assoc, !last_last. reflexivity.
Qed.

(* the matches before the last match are all but the last *)
Lemma matches_before_last nm l ms :
  matches nm 0 l = ms -> ms <> [] ->
  ms = matches nm 0 (firstn (last ms 0) l) ++ [last ms 0].
Proof.
  intros H Hne. set (lm := last ms 0).
  assert (Hin : In lm ms) by (destruct (exists_last Hne) as (a & x & ->); unfold lm; rewrite last_last; apply in_or_app; right; left; reflexivity).
  rewrite <- H in Hin. destruct (matches_bounds _ _ _ _ Hin) as ((_ & B2) & t & E1 & E2).
  rewrite Nat.sub_0_r, Nat.add_0_l in *.
  destruct (nth_error_split l lm E1) as (a & b & El & La).
  assert (Fa : firstn lm l = a) by (rewrite El, <- La, firstn_app, Nat.sub_diag, firstn_all; cbn; apply app_nil_r).
  rewrite Fa. rewrite <- H at 1. rewrite El, matches_app. cbn [matches]. rewrite La, Nat.add_0_l.
  rewrite (proj2 (Nat.eqb_eq (tname t) nm) E2). f_equal. f_equal.
  (* no match after the last one *)
  destruct (matches nm (S lm) b) as [|y ys] eqn:Eb; [reflexivity|]. exfalso.
  assert (Hl : last ms 0 = last (y :: ys) 0).
  { rewrite <- H, El, matches_app. cbn [matches]. rewrite La, Nat.add_0_l, (proj2 (Nat.eqb_eq (tname t) nm) E2), Eb.
    change (lm :: y :: ys) with ([lm] ++ y :: ys). rewrite app_assoc. apply last_app_ne. discriminate. }
  assert (Hy : In (last (y :: ys) 0) (matches nm (S lm) b)).
  { rewrite Eb. destruct (@exists_last _ (y :: ys) ltac:(discriminate)) as (a' & x & ->).
    rewrite last_last. apply in_or_app. right. left. reflexivity. }
  destruct (matches_bounds _ _ _ _ Hy) as ((B3 & _) & _). fold lm in Hl. lia.
Qed.

(* the last element of the list, when it matches, is the last match *)
Lemma matches_last_elem nm l t :
  nth_error l (length l - 1) = Some t -> tname t = nm -> l <> [] ->
  last (matches nm 0 l) 0 = length l - 1 /\ matches nm 0 l <> [].
Proof.
  intros E En Hne. destruct (exists_last Hne) as (a & x & ->).
  rewrite app_length in *. cbn [length] in *. replace (length a + 1 - 1) with (length a) in * by lia.
  rewrite nth_error_app2, Nat.sub_diag in E by lia. cbn in E. inversion E; subst x.
  rewrite matches_app. cbn [matches]. rewrite (proj2 (Nat.eqb_eq (tname t) nm) En).
  rewrite last_last. split; [lia|]. destruct (matches nm 0 a); discriminate.
Qed.

Lemma matches_last_nomatch nm l t :
  nth_error l (length l - 1) = Some t -> tname t <> nm -> l <> [] ->
  matches nm 0 l = matches nm 0 (firstn (length l - 1) l).
Proof.
  intros E En Hne. destruct (exists_last Hne) as (a & x & ->).
  rewrite app_length in *. cbn [length] in *. replace (length a + 1 - 1) with (length a) in * by lia.
  rewrite nth_error_app2, Nat.sub_diag in E by lia. cbn in E. inversion E; subst x.
  rewrite matches_app. cbn [matches]. rewrite (proj2 (Nat.eqb_neq (tname t) nm) En).
  rewrite firstn_app, Nat.sub_diag, firstn_all. cbn [firstn]. rewrite !app_nil_r. reflexivity.
Qed.

Lemma hd_rev_last {A} (l : list A) d : nth_error (rev l) 0 = match l with [] => None | _ => Some (last l d) end.
Proof.
  destruct (exists_last_or_nil l) as [->|(a & x & ->)]; [reflexivity|].
  rewrite rev_app_distr, last_last. cbn. destruct a; reflexivity.
Qed.
