(* C14/ParseRefine.v — mpt_parse_node on the pointer heap refines mpt_parse_node on
   forests, for every represented state, every root, every parsed tree (any size,
   depth, names) and both outcomes of the parser; lifted to all histories of the
   extended language. *)
From Coq Require Import List Arith ZArith Bool Lia Permutation.
From MptV Require Import C14.NodeModel C14.NodeSpec C14.NodeRep C14.NodeFocus C14.NodeInv C14.NodeRefine
  C14.NodeHistory C14.ParseModel C14.ParseSpec.
Import ListNotations.
Local Open Scope nat_scope.

(* a sequence of library calls refines the sequence of forest operations *)
Lemma run_ops_refines : forall ops h s, inv h s ->
  exists h', run_ops h ops = ROk h' /\ inv h' (srun_ops s ops).
Proof.
  induction ops as [|o ops IH]; intros h s I.
  - exists h. split; [reflexivity|exact I].
  - destruct (step_all o h s I) as (h1 & E & I1).
    destruct (IH h1 _ I1) as (h2 & E2 & I2).
    exists h2. split; [|exact I2].
    unfold run_ops in *. cbn [fold_left rbind]. rewrite E. cbn [rbind]. exact E2.
Qed.

(* the children link of a cell is the first child of the node in the forest *)
Lemma kid_of_spec h s x : inv h s -> kid_of h x = skid s x.
Proof.
  intros I. unfold kid_of, skid.
  destruct (focus x (lists s)) as [[[[[frs o] a] tx] b]|] eqn:F.
  - destruct (focus_cell _ _ _ _ _ _ _ _ (i_rep _ _ I) F) as [Hc _]. rewrite Hc. reflexivity.
  - destruct (cells h x) as [nd|] eqn:C; [|reflexivity]. exfalso.
    assert (K : In x (ids_st (lists s))) by (apply (i_dom _ _ I); rewrite C; discriminate).
    destruct (focus_some _ _ K) as (c & l1 & t & l2 & F'). congruence.
Qed.

Definition refines_hstep (o : hop) : Prop :=
  forall h s, inv h s ->
    exists h', hstep h o = ROk (h', snd (hsstep s o)) /\ inv h' (fst (hsstep s o)).

Lemma step_parse root ents ok : refines_hstep (HParse root ents ok).
Proof.
  intros h s I. cbn [hstep hsstep]. unfold parse_node, sparse.
  rewrite (live_iff _ _ _ I). destruct (slive s root); [|exists h; split; [reflexivity|exact I]].
  rewrite (i_cnt _ _ I).
  destruct (run_ops_refines (ONew 0 0 :: fst (build_l (scount s) (S (scount s)) ents)) h s I) as (h1 & E1 & I1).
  rewrite E1. cbn [rbind].
  set (s1 := srun_ops s (ONew 0 0 :: fst (build_l (scount s) (S (scount s)) ents))) in *.
  destruct ok.
  - rewrite !(kid_of_spec _ _ _ I1).
    destruct (skid s1 root) as [rk|].
    + destruct (skid s1 (scount s)) as [d|].
      * destruct (run_ops_refines [OMove root d; OClear root; OSwap (scount s) root; ODestroy (scount s)] h1 s1 I1)
          as (h2 & E2 & I2).
        rewrite E2. cbn [rbind]. exists h2. split; [reflexivity|exact I2].
      * destruct (run_ops_refines [ODestroy (scount s)] h1 s1 I1) as (h2 & E2 & I2).
        rewrite E2. cbn [rbind]. exists h2. split; [reflexivity|exact I2].
    + destruct (run_ops_refines [OSwap (scount s) root; ODestroy (scount s)] h1 s1 I1) as (h2 & E2 & I2).
      rewrite E2. cbn [rbind]. exists h2. split; [reflexivity|exact I2].
  - destruct (run_ops_refines [OClear (scount s); ODestroy (scount s)] h1 s1 I1) as (h2 & E2 & I2).
    rewrite E2. cbn [rbind]. exists h2. split; [reflexivity|exact I2].
Qed.

(* every operation of the extended history language refines its forest specification *)
Lemma hstep_all o : refines_hstep o.
Proof.
  destruct o as [o|root ents ok|x].
  - exact (step_all o).
  - apply step_parse.
  - intros h s I. cbn [hstep hsstep]. rewrite (live_iff _ _ _ I).
    destruct (slive s x); exists h; (split; [reflexivity|exact I]).
Qed.

Lemma hhistory_refines : forall ops h s, inv h s -> run_rel (hrun h ops) (hsrun s ops).
Proof.
  induction ops as [|o ops IH]; intros h s I; [exact Logic.I|].
  destruct (hstep_all o h s I) as (h' & E & I').
  cbn [hrun hsrun]. rewrite E. destruct (hsstep s o) as [s' out]. cbn [fst snd] in *.
  cbn [run_rel]. split; [reflexivity|]. split; [exact I'|]. apply IH; assumption.
Qed.

Lemma hwf_step o h : wf h -> exists h' out, hstep h o = ROk (h', out) /\ wf h'.
Proof.
  intros [s I]. destruct (hstep_all o h s I) as (h' & E & I').
  exists h', (snd (hsstep s o)). split; [exact E|]. exists (fst (hsstep s o)). exact I'.
Qed.

(* mpt_parse_node alone: no fault, the heap afterwards represents a forest again (so every
   link rule holds: NodeCheck.inv_wfcheck), every id handed out during the call — the
   scratch node, the nodes of the text — is in that forest once or released once *)
Lemma parse_keeps_wf h root ents ok : wf h ->
  exists h' out, parse_node h root ents ok = ROk (h', out) /\ wf h'.
Proof. exact (hwf_step (HParse root ents ok) h). Qed.
