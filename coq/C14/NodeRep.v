(* C14/NodeRep.v — "the heap represents the forest": definitions and structural lemmas.

   [repc c e]: every expected cell of [e] is in the heap [c].  The expected cells of
   a zipper position split into the focused sibling list, the frames above it and
   the other top-level lists ([rep_plug]); this is the frame rule used by every
   pointer operation. *)
From Coq Require Import List Arith ZArith Bool Lia Permutation.
From MptV Require Import C14.NodeModel C14.NodeSpec.
Import ListNotations.
Local Open Scope nat_scope.

(* ---------------------------------------------------------------- lists *)
Lemma NoDup_app_inv {A} (a b : list A) :
  NoDup (a ++ b) -> NoDup a /\ NoDup b /\ (forall x, In x a -> In x b -> False).
Proof.
  induction a as [|x a IH]; cbn; intros H.
  - repeat split; [constructor|assumption|contradiction].
  - inversion H as [|? ? Hx Hr]; subst. destruct (IH Hr) as (Ha & Hb & Hd).
    repeat split; [constructor; [|assumption]|assumption|].
    + intros Hin. apply Hx. apply in_or_app. auto.
    + intros y [->|Hy] Hyb; [apply Hx; apply in_or_app; auto|eauto].
Qed.

Lemma NoDup_app_intro {A} (a b : list A) :
  NoDup a -> NoDup b -> (forall x, In x a -> In x b -> False) -> NoDup (a ++ b).
Proof.
  induction a as [|x a IH]; cbn; intros Ha Hb Hd; [assumption|].
  inversion Ha; subst. constructor.
  - intros Hin. apply in_app_or in Hin. destruct Hin; [contradiction|]. eapply Hd; eauto.
  - apply IH; auto. intros y Hy. apply Hd. auto.
Qed.

(* ---------------------------------------------------------------- induction on trees *)
Section TreeInd.
  Variable P : tree -> Prop.
  Hypothesis H : forall i n v k, Forall P k -> P (T i n v k).
  Fixpoint tree_ind' (t : tree) : P t :=
    match t with
    | T i n v k =>
      H i n v k ((fix go (l : forest) : Forall P l :=
                   match l with
                   | [] => Forall_nil P
                   | t' :: r => Forall_cons t' (tree_ind' t') (go r)
                   end) k)
    end.
End TreeInd.

(* [tsize], [fsize]: number of nodes (NodeSpec.v) *)

Lemma fsize_cons t r : fsize (t :: r) = tsize t + fsize r.
Proof. reflexivity. Qed.
Lemma fsize_app a b : fsize (a ++ b) = fsize a + fsize b.
Proof. unfold fsize. rewrite map_app, list_sum_app. reflexivity. Qed.
Lemma tsize_eq i n v k : tsize (T i n v k) = S (fsize k).
Proof. reflexivity. Qed.

(* ---------------------------------------------------------------- expected cells *)
Definition lastid (l : forest) (prv : ptr) : ptr :=
  fold_left (fun _ t => Some (tid t)) l prv.

Lemma lastid_cons t l prv : lastid (t :: l) prv = lastid l (Some (tid t)).
Proof. reflexivity. Qed.
Lemma lastid_app a b prv : lastid (a ++ b) prv = lastid b (lastid a prv).
Proof. unfold lastid. apply fold_left_app. Qed.

Lemma hid_hid_or r : hid r = hid_or r None.
Proof. destruct r; reflexivity. Qed.
Lemma hid_or_app a b aft : hid_or (a ++ b) aft = hid_or a (hid_or b aft).
Proof. destruct a; reflexivity. Qed.

Lemma exp_t_eq par prv i n v k nxt :
  exp_t par prv (T i n v k) nxt = (i, mkN nxt prv par (hid k) n v) :: exp_l (Some i) None k None.
Proof.
  simpl. f_equal.
  match goal with |- ?f None k = _ =>
    enough (E : forall q, f q k = exp_l (Some i) q k None) by apply E end.
  induction k as [|t r IH]; intros q; [reflexivity|].
  cbn [exp_l]. rewrite <- IH. rewrite hid_hid_or. reflexivity.
Qed.
Global Opaque exp_t.

Lemma exp_l_cons par prv t r aft :
  exp_l par prv (t :: r) aft = exp_t par prv t (hid_or r aft) ++ exp_l par (Some (tid t)) r aft.
Proof. reflexivity. Qed.

Lemma exp_l_app par prv a b aft :
  exp_l par prv (a ++ b) aft = exp_l par prv a (hid_or b aft) ++ exp_l par (lastid a prv) b aft.
Proof.
  revert prv. induction a as [|t r IH]; intros prv; [reflexivity|].
  rewrite <- app_comm_cons, !exp_l_cons, IH, hid_or_app, lastid_cons, app_assoc. reflexivity.
Qed.

Lemma ids_t_eq i n v k : ids_t (T i n v k) = i :: ids_f k.
Proof. reflexivity. Qed.
Lemma ids_f_cons t r : ids_f (t :: r) = ids_t t ++ ids_f r.
Proof. reflexivity. Qed.
Lemma ids_f_app a b : ids_f (a ++ b) = ids_f a ++ ids_f b.
Proof. apply flat_map_app. Qed.
Lemma ids_st_cons l r : ids_st (l :: r) = ids_f l ++ ids_st r.
Proof. reflexivity. Qed.
Lemma ids_st_app a b : ids_st (a ++ b) = ids_st a ++ ids_st b.
Proof. apply flat_map_app. Qed.

Lemma keys_exp_t t : forall par prv nxt, map fst (exp_t par prv t nxt) = ids_t t.
Proof.
  induction t as [i n v k IH] using tree_ind'. intros par prv nxt.
  rewrite exp_t_eq, ids_t_eq. cbn [map fst]. f_equal.
  enough (E : forall a q, map fst (exp_l (Some i) q k a) = ids_f k) by apply E.
  induction IH as [|t r Ht _ IHr]; intros a q; [reflexivity|].
  rewrite exp_l_cons, map_app, Ht, IHr. reflexivity.
Qed.

Lemma keys_exp_l l : forall par prv aft, map fst (exp_l par prv l aft) = ids_f l.
Proof.
  induction l as [|t r IH]; intros; [reflexivity|].
  rewrite exp_l_cons, map_app, keys_exp_t, IH. reflexivity.
Qed.

Lemma keys_exp_st st : map fst (exp_st st) = ids_st st.
Proof.
  induction st as [|l r IH]; [reflexivity|].
  unfold exp_st in *. cbn [flat_map]. rewrite map_app, keys_exp_l, IH. reflexivity.
Qed.

(* ---------------------------------------------------------------- representation *)
Definition repc (c : cellmap) (e : list (nat * node)) : Prop :=
  Forall (fun p => c (fst p) = Some (snd p)) e.
Definition rep_l (c : cellmap) (par prv : ptr) (l : forest) (aft : ptr) : Prop :=
  repc c (exp_l par prv l aft).
Definition rep_st (c : cellmap) (st : state) : Prop := repc c (exp_st st).

Lemma repc_app c a b : repc c (a ++ b) <-> repc c a /\ repc c b.
Proof. apply Forall_app. Qed.
Lemma repc_cons c i nd e : repc c ((i, nd) :: e) <-> c i = Some nd /\ repc c e.
Proof. unfold repc. rewrite Forall_cons_iff. reflexivity. Qed.
Lemma repc_nil c : repc c [].
Proof. constructor. Qed.

(* frame: cells outside the keys may change *)
Lemma repc_frame c c' e :
  repc c e -> (forall i, In i (map fst e) -> c' i = c i) -> repc c' e.
Proof.
  unfold repc. rewrite !Forall_forall. intros H F [i nd] Hin. cbn.
  rewrite F; [apply (H _ Hin)|]. apply in_map_iff. exists (i, nd). auto.
Qed.

Lemma rep_l_frame c c' par prv l aft :
  rep_l c par prv l aft -> (forall i, In i (ids_f l) -> c' i = c i) -> rep_l c' par prv l aft.
Proof. intros H F. eapply repc_frame; [exact H|]. rewrite keys_exp_l. exact F. Qed.

Lemma rep_st_frame c c' st :
  rep_st c st -> (forall i, In i (ids_st st) -> c' i = c i) -> rep_st c' st.
Proof. intros H F. eapply repc_frame; [exact H|]. rewrite keys_exp_st. exact F. Qed.

Lemma rep_l_nil c par prv aft : rep_l c par prv [] aft.
Proof. apply repc_nil. Qed.

Lemma rep_l_cons c par prv t r aft :
  rep_l c par prv (t :: r) aft <->
  repc c (exp_t par prv t (hid_or r aft)) /\ rep_l c par (Some (tid t)) r aft.
Proof. unfold rep_l. rewrite exp_l_cons, repc_app. reflexivity. Qed.

Lemma rep_t_eq c par prv i n v k nxt :
  repc c (exp_t par prv (T i n v k) nxt) <->
  c i = Some (mkN nxt prv par (hid k) n v) /\ rep_l c (Some i) None k None.
Proof. rewrite exp_t_eq, repc_cons. reflexivity. Qed.

Lemma rep_l_app c par prv a b aft :
  rep_l c par prv (a ++ b) aft <->
  rep_l c par prv a (hid_or b aft) /\ rep_l c par (lastid a prv) b aft.
Proof. unfold rep_l. rewrite exp_l_app, repc_app. reflexivity. Qed.

Lemma rep_st_cons c l r : rep_st c (l :: r) <-> rep_l c None None l None /\ rep_st c r.
Proof. unfold rep_st, exp_st. cbn [flat_map]. rewrite repc_app. reflexivity. Qed.
Lemma rep_st_app c a b : rep_st c (a ++ b) <-> rep_st c a /\ rep_st c b.
Proof. unfold rep_st, exp_st. rewrite flat_map_app, repc_app. reflexivity. Qed.
Lemma rep_st_nil c : rep_st c [].
Proof. apply repc_nil. Qed.

(* the cell of a listed tree *)
Lemma rep_l_mid c par prv a i n v k b aft :
  rep_l c par prv (a ++ T i n v k :: b) aft <->
  rep_l c par prv a (Some i) /\
  c i = Some (mkN (hid_or b aft) (lastid a prv) par (hid k) n v) /\
  rep_l c (Some i) None k None /\
  rep_l c par (Some i) b aft.
Proof.
  rewrite rep_l_app, rep_l_cons, rep_t_eq. cbn [hid_or tid]. tauto.
Qed.

(* ---------------------------------------------------------------- zipper *)
Definition cpar (frs : list frame) : ptr :=
  match frs with [] => None | fr :: _ => Some (fi fr) end.

(* head of the sibling list a frame's node sits in *)
Definition frame_hd (fr : frame) : ptr := hid_or (fl1 fr) (Some (fi fr)).

Fixpoint rep_frames (c : cellmap) (frs : list frame) (hd : ptr) : Prop :=
  match frs with
  | [] => True
  | fr :: rest =>
    rep_l c (cpar rest) None (fl1 fr) (Some (fi fr)) /\
    c (fi fr) = Some (mkN (hid (fl2 fr)) (lastid (fl1 fr) None) (cpar rest) hd (fn fr) (fv fr)) /\
    rep_l c (cpar rest) (Some (fi fr)) (fl2 fr) None /\
    rep_frames c rest (frame_hd fr)
  end.

Lemma hid_plugf l fr : hid (plugf l fr) = frame_hd fr.
Proof. unfold plugf, frame_hd. rewrite hid_hid_or, hid_or_app. reflexivity. Qed.

Lemma rep_fold c frs : forall l,
  rep_l c None None (fold_left plugf frs l) None <->
  rep_l c (cpar frs) None l None /\ rep_frames c frs (hid l).
Proof.
  induction frs as [|fr rest IH]; intros l.
  - cbn. tauto.
  - cbn [fold_left rep_frames cpar]. rewrite IH, hid_plugf.
    unfold plugf at 1. rewrite rep_l_mid. rewrite <- hid_hid_or. tauto.
Qed.

Lemma rep_plug c frs others l :
  rep_st c (plug (frs, others) l) <->
  rep_l c (cpar frs) None l None /\ rep_frames c frs (hid l) /\ rep_st c others.
Proof. unfold plug. cbn [fst snd]. rewrite rep_st_cons, rep_fold. tauto. Qed.

(* ids of the frames *)
Definition ids_fr (fr : frame) : list nat := ids_f (fl1 fr) ++ fi fr :: ids_f (fl2 fr).
Definition ids_frs (frs : list frame) : list nat := flat_map ids_fr frs.

Lemma ids_plugf l fr : Permutation (ids_f (plugf l fr)) (ids_f l ++ ids_fr fr).
Proof.
  unfold plugf, ids_fr. rewrite ids_f_app, ids_f_cons, ids_t_eq.
  transitivity (ids_f (fl1 fr) ++ ids_f l ++ fi fr :: ids_f (fl2 fr)).
  - apply Permutation_app_head. cbn [app]. apply Permutation_middle.
  - apply Permutation_app_swap_app.
Qed.

Lemma ids_fold frs : forall l,
  Permutation (ids_f (fold_left plugf frs l)) (ids_f l ++ ids_frs frs).
Proof.
  induction frs as [|fr rest IH]; intros l; cbn [fold_left ids_frs flat_map].
  - rewrite app_nil_r. reflexivity.
  - rewrite IH. rewrite ids_plugf. rewrite <- app_assoc. reflexivity.
Qed.

Lemma ids_plug frs others l :
  Permutation (ids_st (plug (frs, others) l)) (ids_f l ++ ids_frs frs ++ ids_st others).
Proof.
  unfold plug. cbn [fst snd]. rewrite ids_st_cons, ids_fold, <- app_assoc. reflexivity.
Qed.

Lemma rep_frames_frame c c' frs : forall hd,
  rep_frames c frs hd -> (forall i, In i (ids_frs frs) -> c' i = c i) -> rep_frames c' frs hd.
Proof.
  induction frs as [|fr rest IH]; intros hd H F; [exact I|].
  cbn [rep_frames] in *. destruct H as (H1 & H2 & H3 & H4).
  assert (F1 : forall i, In i (ids_fr fr) -> c' i = c i).
  { intros i Hi. apply F. cbn [ids_frs flat_map]. apply in_or_app. auto. }
  assert (F2 : forall i, In i (ids_frs rest) -> c' i = c i).
  { intros i Hi. apply F. cbn [ids_frs flat_map]. apply in_or_app. auto. }
  repeat split.
  - eapply rep_l_frame; [exact H1|]. intros i Hi. apply F1. unfold ids_fr. apply in_or_app. auto.
  - rewrite F1; [exact H2|]. unfold ids_fr. apply in_or_app. right. left. reflexivity.
  - eapply rep_l_frame; [exact H3|]. intros i Hi. apply F1. unfold ids_fr. apply in_or_app. right. right. exact Hi.
  - apply IH; assumption.
Qed.

(* changing the head of the focused list changes only the children link of the parent *)
Lemma rep_frames_hd c fr rest hd hd' nd :
  rep_frames c (fr :: rest) hd ->
  c (fi fr) = Some nd ->
  NoDup (ids_frs (fr :: rest)) ->
  rep_frames (upd c (fi fr) (Some (set_kid hd' nd))) (fr :: rest) hd'.
Proof.
  intros H Hc ND. cbn [rep_frames] in *. destruct H as (H1 & H2 & H3 & H4).
  cbn [ids_frs flat_map] in ND. unfold ids_fr in ND.
  apply NoDup_app_inv in ND. destruct ND as (ND1 & _ & ND3).
  assert (Hn12 : ~ In (fi fr) (ids_f (fl1 fr) ++ ids_f (fl2 fr))) by (apply NoDup_remove_2; exact ND1).
  assert (Hn1 : ~ In (fi fr) (ids_f (fl1 fr))) by (intros Hin; apply Hn12; apply in_or_app; auto).
  assert (Hn2 : ~ In (fi fr) (ids_f (fl2 fr))) by (intros Hin; apply Hn12; apply in_or_app; auto).
  assert (Hn3 : ~ In (fi fr) (ids_frs rest)).
  { intros Hin. eapply ND3; [|exact Hin]. apply in_or_app. right. left. reflexivity. }
  assert (U : forall i, i <> fi fr -> upd c (fi fr) (Some (set_kid hd' nd)) i = c i).
  { intros i Hi. unfold upd. destruct (Nat.eqb_spec i (fi fr)); [contradiction|reflexivity]. }
  repeat split.
  - eapply rep_l_frame; [exact H1|]. intros i Hi. apply U. intros ->. contradiction.
  - unfold upd. rewrite Nat.eqb_refl. rewrite H2 in Hc. inversion Hc. subst nd. reflexivity.
  - eapply rep_l_frame; [exact H3|]. intros i Hi. apply U. intros ->. contradiction.
  - eapply rep_frames_frame; [exact H4|]. intros i Hi. apply U. intros ->. contradiction.
Qed.
