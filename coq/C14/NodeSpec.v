(* C14/NodeSpec.v — the abstract specification: ordered forests.

   A state is a collection of sibling lists without a parent ("top-level lists");
   each is a [list tree], a tree is a node identity, a name, a value and the
   ordered list of its child trees.  There are no links here: nesting IS the
   parent/child relation and list order IS next/prev, so cycles, dangling links
   and nodes reachable from two places cannot be expressed.  [exp_l] computes the
   link values a faithful pointer representation of a forest must have; [rep]
   (NodeRep.v) says a heap has exactly those.

   The operations locate a node with a zipper ([focus] gives the context, the
   siblings before, the tree, the siblings after; [plug] puts a sibling list back). *)
From Coq Require Import List Arith ZArith Bool.
From MptV Require Import C14.NodeModel.
Import ListNotations.
Local Open Scope nat_scope.

Inductive tree := T (i n v : nat) (k : list tree).
Notation forest := (list tree).
Definition state := list forest.

Definition tid (t : tree) := let 'T i _ _ _ := t in i.
Definition tname (t : tree) := let 'T _ n _ _ := t in n.
Definition tval (t : tree) := let 'T _ _ v _ := t in v.
Definition tkids (t : tree) := let 'T _ _ _ k := t in k.

Definition hid (f : forest) : ptr := match f with [] => None | t :: _ => Some (tid t) end.
(* id of the first tree of [f], or [aft] when [f] is empty *)
Definition hid_or (f : forest) (aft : ptr) : ptr := match f with [] => aft | t :: _ => Some (tid t) end.

Fixpoint ids_t (t : tree) : list nat := match t with T i _ _ k => i :: flat_map ids_t k end.
Definition ids_f (f : forest) : list nat := flat_map ids_t f.
Definition ids_st (st : state) : list nat := flat_map ids_f st.

(* ---- the links a pointer representation must have ---- *)
Fixpoint exp_t (par prv : ptr) (t : tree) (nxt : ptr) : list (nat * node) :=
  match t with
  | T i n v k =>
    (i, mkN nxt prv par (hid k) n v) ::
    (fix el (prv : ptr) (l : forest) {struct l} : list (nat * node) :=
       match l with
       | [] => []
       | t' :: r => exp_t (Some i) prv t' (hid r) ++ el (Some (tid t')) r
       end) None k
  end.

Fixpoint exp_l (par prv : ptr) (l : forest) (aft : ptr) : list (nat * node) :=
  match l with
  | [] => []
  | t :: r => exp_t par prv t (hid_or r aft) ++ exp_l par (Some (tid t)) r aft
  end.

Definition exp_st (st : state) : list (nat * node) :=
  flat_map (fun l => exp_l None None l None) st.

(* ---- zipper ---- *)
Record frame := Fr { fl1 : forest; fi : nat; fn : nat; fv : nat; fl2 : forest }.
Definition plugf (l : forest) (fr : frame) : forest :=
  fl1 fr ++ T (fi fr) (fn fr) (fv fr) l :: fl2 fr.
(* frames innermost first; the other top-level lists *)
Definition ctx := (list frame * state)%type.
Definition plug (c : ctx) (l : forest) : state := fold_left plugf (fst c) l :: snd c.

Definition found := (list frame * forest * tree * forest)%type.

(* search the children of [t] (at any depth) for node [p] *)
Fixpoint focus_t (p : nat) (t : tree) {struct t} : option found :=
  match t with
  | T _ _ _ k =>
    (fix go (l1 l : forest) {struct l} : option found :=
       match l with
       | [] => None
       | t' :: l2 =>
         if tid t' =? p then Some ([], l1, t', l2)
         else match focus_t p t' with
              | Some (fr, a, tp, b) => Some (fr ++ [Fr l1 (tid t') (tname t') (tval t') l2], a, tp, b)
              | None => go (l1 ++ [t']) l2
              end
       end) [] k
  end.

Fixpoint focus_l (p : nat) (l1 l : forest) {struct l} : option found :=
  match l with
  | [] => None
  | t' :: l2 =>
    if tid t' =? p then Some ([], l1, t', l2)
    else match focus_t p t' with
         | Some (fr, a, tp, b) => Some (fr ++ [Fr l1 (tid t') (tname t') (tval t') l2], a, tp, b)
         | None => focus_l p (l1 ++ [t']) l2
         end
  end.

Fixpoint focus_st (p : nat) (pre st : state) : option (ctx * forest * tree * forest) :=
  match st with
  | [] => None
  | l :: r =>
    match focus_l p [] l with
    | Some (fr, a, t, b) => Some ((fr, pre ++ r), a, t, b)
    | None => focus_st p (pre ++ [l]) r
    end
  end.
Definition focus (p : nat) (st : state) := focus_st p [] st.

Definition mem (i : nat) (l : list nat) : bool := existsb (Nat.eqb i) l.

(* an unlinked node: a top-level list that consists of exactly this tree;
   returns the tree and the other top-level lists *)
Definition take_single (x : nat) (st : state) : option (tree * state) :=
  match focus x st with
  | Some (([], others), [], tx, []) => Some (tx, others)
  | _ => None
  end.

(* the top-level list that holds node [p] (at any depth) *)
Fixpoint take_top (p : nat) (pre st : state) : option (forest * state) :=
  match st with
  | [] => None
  | l :: r => if mem p (ids_f l) then Some (l, pre ++ r) else take_top p (pre ++ [l]) r
  end.

(* ---- positions (node_insert.c) ---- *)
Definition insert_at {A} (k : nat) (x : A) (l : list A) : list A := firstn k l ++ x :: skipn k l.

(* absolute position in a list of n nodes: 0 = append, p>0 = become the p-th,
   -k = k places before the end; out of range clamps to the end / the front *)
Definition gpos_index (n : nat) (pos : Z) : nat :=
  if (pos =? 0)%Z then n
  else if (0 <? pos)%Z then (let p := Z.to_nat pos in if p <=? n then p - 1 else n)
  else let k := Z.to_nat (- pos) in if k <? n then n - k else 0.

(* indices of the trees named [nm] *)
Fixpoint matches (nm : nat) (i : nat) (l : forest) : list nat :=
  match l with
  | [] => []
  | t :: r => if tname t =? nm then i :: matches nm (S i) r else matches nm (S i) r
  end.

(* position relative to the nodes of the same name: 0 = after the last of them,
   p>0 = before the p-th of them, -k = after the one k before the last; without
   such a node: append *)
Definition npos_index (l : forest) (nm : nat) (pos : Z) : nat :=
  let ms := matches nm 0 l in
  let m := length ms in
  match ms with
  | [] => length l
  | first :: _ =>
    let lastm := last ms 0 in
    if (pos =? 0)%Z then S lastm
    else if (0 <? pos)%Z then (let p := Z.to_nat pos in if p <=? m then nth (p - 1) ms 0 else S lastm)
    else let k := Z.to_nat (- pos) in if k <? m then S (nth (m - 1 - k) ms 0) else first
  end.

Definition pos_index (byname : bool) (l : forest) (x : tree) (pos : Z) : nat :=
  if byname then npos_index l (tname x) pos else gpos_index (length l) pos.

(* ---- clone: same shape, names, values; fresh ids in allocation (pre-) order.  It may fail:
   a node whose value cannot be cloned, or the [k]-th allocation of the call (0: none),
   ends it: no copy, and the ids consumed so far have been given back.
   Result: the copy (if any), the next id, the oracle. ---- *)
Fixpoint sclone_t (t : tree) (c k : nat) : option tree * nat * nat :=
  match t with
  | T _ n v kids =>
    if unclonable v then (None, c, k)
    else
      let '(k, f) := tick k in
      if f then (None, c, k)
      else
        let '(k, f) := if name_alloc n then tick k else (k, false) in
        if f then (None, S c, k)
        else
          let '(kids', c', k') :=
            (fix cl (l : forest) (c k : nat) {struct l} : option forest * nat * nat :=
               match l with
               | [] => (Some [], c, k)
               | t' :: r =>
                 match sclone_t t' c k with
                 | (Some t'', c1, k1) =>
                   match cl r c1 k1 with
                   | (Some r', c2, k2) => (Some (t'' :: r'), c2, k2)
                   | (None, c2, k2) => (None, c2, k2)
                   end
                 | (None, c1, k1) => (None, c1, k1)
                 end
               end) kids (S c) k in
          match kids' with
          | Some kk => (Some (T c n v kk), c', k')
          | None => (None, c', k')
          end
  end.
Fixpoint sclone_l (l : forest) (c k : nat) : option forest * nat * nat :=
  match l with
  | [] => (Some [], c, k)
  | t :: r =>
    match sclone_t t c k with
    | (Some t', c1, k1) =>
      match sclone_l r c1 k1 with
      | (Some r', c2, k2) => (Some (t' :: r'), c2, k2)
      | (None, c2, k2) => (None, c2, k2)
      end
    | (None, c1, k1) => (None, c1, k1)
    end
  end.

(* ---- merge (node_move.c): move the trees of [src] whose name the target list
   lacks to its end; for a name that exists, merge the children instead ---- *)
Fixpoint split_name (nm : nat) (pre l : forest) : option (forest * tree * forest) :=
  match l with
  | [] => None
  | t :: r => if tname t =? nm then Some (pre, t, r) else split_name nm (pre ++ [t]) r
  end.

(* one source tree against the target list: what stays in the source (if anything),
   the new target list, the number of nodes re-linked *)
Fixpoint move_t (t : tree) (dst : forest) {struct t} : option tree * forest * nat :=
  match t with
  | T i n v k =>
    match split_name n [] dst with
    | None => (None, dst ++ [t], 1)
    | Some (d1, T j nj w kd, d2) =>
      match k with
      | [] => (Some t, dst, 0)
      | _ :: _ =>
        match kd with
        | [] => (Some (T i n v []), d1 ++ T j nj w k :: d2, length k)
        | _ :: _ =>
          let '(k', kd', m) :=
            (fix ml (l : forest) (d : forest) {struct l} : forest * forest * nat :=
               match l with
               | [] => ([], d, 0)
               | t' :: r =>
                 let '(o, d1', m1) := move_t t' d in
                 let '(r', d2', m2) := ml r d1' in
                 (match o with Some t'' => t'' :: r' | None => r' end, d2', m1 + m2)
               end) k kd in
          (Some (T i n v k'), d1 ++ T j nj w kd' :: d2, m)
        end
      end
    end
  end.
Fixpoint move_l (l : forest) (d : forest) : forest * forest * nat :=
  match l with
  | [] => ([], d, 0)
  | t' :: r =>
    let '(o, d1', m1) := move_t t' d in
    let '(r', d2', m2) := move_l r d1' in
    (match o with Some t'' => t'' :: r' | None => r' end, d2', m1 + m2)
  end.

(* ---- cut / graft of child lists, exchange of two nodes (swap, switch) ---- *)
(* take the children of node [x] away: the node (with them) and the state in which
   it is childless *)
Definition cut (x : nat) (st : state) : option (tree * state) :=
  match focus x st with
  | Some (c, l1, tx, l2) => Some (tx, plug c (l1 ++ T (tid tx) (tname tx) (tval tx) [] :: l2))
  | None => None
  end.

(* make [k] the children of node [x] *)
Definition graft (x : nat) (k : forest) (st : state) : option state :=
  match focus x st with
  | Some (c, l1, tx, l2) => Some (plug c (l1 ++ T (tid tx) (tname tx) (tval tx) k :: l2))
  | None => None
  end.

(* the ancestors of a node, innermost first *)
Definition ancs (x : nat) (st : state) : list nat :=
  match focus x st with
  | Some (c, _, _, _) => map fi (fst c)
  | None => []
  end.

(* the nodes [a] and [b] (identity, name, value) change places; children stay where they are *)
Fixpoint exch_t (a na va b nb vb : nat) (t : tree) : tree :=
  match t with
  | T i n v k =>
    let k' := map (exch_t a na va b nb vb) k in
    if i =? a then T b nb vb k' else if i =? b then T a na va k' else T i n v k'
  end.
Definition exch_st (a na va b nb vb : nat) (st : state) : state :=
  map (map (exch_t a na va b nb vb)) st.

(* ---- traversal orders ---- *)
Fixpoint strav (o : order) (fl : nat) (t : tree) : list nat :=
  match t with
  | T i _ _ k =>
    let me := if (match k with [] => Nat.odd fl | _ :: _ => 2 <=? fl end) then [i] else [] in
    match o with
    | PreOrder => me ++ flat_map (strav o fl) k
    | PostOrder => flat_map (strav o fl) k ++ me
    | InOrder => match k with
                 | [] => me
                 | c :: r => strav o fl c ++ me ++ flat_map (strav o fl) r
                 end
    end
  end.

(* the same with the depth the handler is told *)
Definition svis (fl : nat) (d : nat) (t : tree) : list (nat * nat) :=
  if (match tkids t with [] => Nat.odd fl | _ :: _ => 2 <=? fl end) then [(tid t, d)] else [].

Fixpoint stravd (o : order) (fl : nat) (d : nat) (t : tree) : list (nat * nat) :=
  match t with
  | T i _ _ k =>
    let me := svis fl d t in
    match o with
    | PreOrder => me ++ flat_map (stravd o fl (S d)) k
    | PostOrder => flat_map (stravd o fl (S d)) k ++ me
    | InOrder => match k with
                 | [] => me
                 | c :: r => stravd o fl (S d) c ++ me ++ flat_map (stravd o fl (S d)) r
                 end
    end
  end.

(* level order: level 0 is the list itself, level u+1 the children of level u in order *)
Fixpoint level (u : nat) (l : forest) : forest :=
  match u with 0 => l | S u' => flat_map tkids (level u' l) end.

(* number of nodes *)
Fixpoint tsize (t : tree) : nat := match t with T _ _ _ k => S (list_sum (map tsize k)) end.
Definition fsize (f : forest) : nat := list_sum (map tsize f).

(* every level of [l] (the levels beyond its height are empty) *)
Definition slevel (fl : nat) (l : forest) : list (nat * nat) :=
  flat_map (fun u => flat_map (svis fl u) (level u l)) (seq 0 (fsize l)).

Definition swalk (o : option order) (fl : nat) (l : forest) : list (nat * nat) :=
  match o with
  | Some o => flat_map (stravd o fl 0) l
  | None => slevel fl l
  end.

(* the handler answers non-zero at its k-th call (0: never): calls made, node returned *)
Definition cutk (k : nat) (full : list (nat * nat)) : list (nat * nat) * ptr :=
  match k with
  | 0 => (full, None)
  | S k' => match nth_error full k' with
            | Some (x, _) => (firstn k full, Some x)
            | None => (full, None)
            end
  end.

(* the index (in l1 ++ tx :: l2) mpt_node_locate(x, pos, name) names: pos > 0 the pos-th node of
   that name from x on, pos < 0 the (-pos)-th before x, 0 the last of the whole list *)
Definition locate_index (l1 : forest) (tx : tree) (l2 : forest) (nm : nat) (pos : Z) : option nat :=
  if (pos =? 0)%Z then
    (match matches nm 0 (l1 ++ tx :: l2) with [] => None | m :: ms => Some (last (m :: ms) 0) end)
  else if (0 <? pos)%Z then nth_error (matches nm (length l1) (tx :: l2)) (Z.to_nat pos - 1)
  else nth_error (rev (matches nm 0 l1)) (Z.to_nat (- pos) - 1).

(* ---- the specification of one step ---- *)
Record sstate := mkS { lists : state; scount : nat; sfreed : list nat }.

Definition empty_sstate := mkS [] 0 [].

Definition slive (s : sstate) (i : nat) : bool := mem i (ids_st (lists s)).

Definition keep (s : sstate) (o : out) : sstate * out := (s, o).
Definition with_lists (s : sstate) (st : state) : sstate := mkS st (scount s) (sfreed s).

(* link the unlinked node [x] next to / below [p]: [f] builds the new state from
   the context of [p] and the tree of [x] *)
Definition link_with (s : sstate) (p x : nat) (res : out)
  (f : ctx -> forest -> tree -> forest -> tree -> option state) : sstate * out :=
  match take_single x (lists s) with
  | Some (tx, st1) =>
    match focus p st1 with
    | Some (c, l1, tp, l2) =>
      match f c l1 tp l2 tx with
      | Some st' => (with_lists s st', res)
      | None => (s, OutX)
      end
    | None => (s, OutX)
    end
  | None => (s, OutX)
  end.

(* a clone that succeeds adds its copy as a new top-level list; one that fails leaves
   the forest alone, the ids it consumed are freed *)
Definition clone_result (s : sstate) (r : option forest * nat * nat) : sstate * out :=
  match r with
  | (Some l', c', _) => (mkS (lists s ++ [l']) c' (sfreed s), OutP (Some (scount s)))
  | (None, c', _) => (mkS (lists s) c' (seq (scount s) (c' - scount s) ++ sfreed s), OutP None)
  end.

(* entry points called with a NULL node change nothing and answer NULL / -1 / 0 / the node *)
Definition snull (s : sstate) (c : nullcall) : sstate * out :=
  match c with
  | NAdd _ _ x => if slive s x then (s, OutP (Some x)) else (s, OutX)
  | NAddN _ f _ => if slive s f then (s, OutP None) else (s, OutX)
  | NInsN _ p _ => if slive s p then (s, OutZ (-1)%Z) else (s, OutX)
  | NMove p => if slive s p then (s, OutZ 0%Z) else (s, OutX)
  | NTrav _ _ => (s, OutW [] None)
  | NTravH x => if slive s x then (s, OutW [] None) else (s, OutX)
  | _ => (s, OutP None)
  end.

Definition sstep (s : sstate) (o : op) : sstate * out :=
  match o with
  | ONew nm v =>
    (mkS (lists s ++ [[T (scount s) nm v []]]) (S (scount s)) (sfreed s), OutP (Some (scount s)))
  | OAfter p x | OBefore p x =>
    match p, x with
    | Some pi, Some xi =>
      if pi =? xi then (if slive s pi then (s, OutP x) else (s, OutX))
      else link_with s pi xi (OutP x)
             (fun c l1 tp l2 tx =>
                Some (plug c (match o with
                              | OAfter _ _ => l1 ++ tp :: tx :: l2
                              | _ => l1 ++ tx :: tp :: l2
                              end)))
    | None, Some xi => if slive s xi then (s, OutP x) else (s, OutX)
    | Some pi, None => if slive s pi then (s, OutP None) else (s, OutX)
    | None, None => (s, OutP None)
    end
  | OAdd bn f pos x =>
    link_with s f x (OutP (Some x))
      (fun c l1 tf l2 tx =>
         match l1 with
         | [] => let l := tf :: l2 in Some (plug c (insert_at (pos_index bn l tx pos) tx l))
         | _ :: _ => None
         end)
  | OIns bn p pos x =>
    link_with s p x (OutZ 0%Z)
      (fun c l1 tp l2 tx =>
         let k := tkids tp in
         Some (plug c (l1 ++ T (tid tp) (tname tp) (tval tp) (insert_at (pos_index bn k tx pos) tx k) :: l2)))
  | OUnlink x =>
    match focus x (lists s) with
    | Some (c, l1, tx, l2) => (with_lists s (plug c (l1 ++ l2) ++ [[tx]]), OutP (hid l2))
    | None => (s, OutX)
    end
  | OMove p d =>
    match take_top p [] (lists s) with
    | Some (lp, rest) =>
      match focus d rest, focus p [lp] with
      | Some (c, [], td, l2), Some (cp, a, tp, b) =>
        let '(k', d', m) := move_l (tkids tp) (td :: l2) in
        (with_lists s (plug cp (a ++ T (tid tp) (tname tp) (tval tp) k' :: b) ++ plug c d'),
         OutZ (Z.of_nat m))
      | _, _ => (s, OutX)
      end
    | None => (s, OutX)
    end
  | OLMove x d =>
    match take_single x (lists s) with
    | Some (tx, st1) =>
      match focus d st1 with
      | Some (c, [], td, l2) =>
        let '(src', d', m) := move_l [tx] (td :: l2) in
        (with_lists s (src' :: plug c d'), OutZ (Z.of_nat m))
      | _ => (s, OutX)
      end
    | None => (s, OutX)
    end
  | OClone x k =>
    match focus x (lists s) with
    | Some (_, _, tx, _) => clone_result s (sclone_l [T (tid tx) (tname tx) (tval tx) []] (scount s) k)
    | None => (s, OutX)
    end
  | OLClone x k =>
    match focus x (lists s) with
    | Some (_, _, tx, l2) => clone_result s (sclone_l (tx :: l2) (scount s) k)
    | None => (s, OutX)
    end
  | OTClone x k =>
    match focus x (lists s) with
    | Some (_, _, tx, _) => clone_result s (sclone_l [tx] (scount s) k)
    | None => (s, OutX)
    end
  | OClear x =>
    match focus x (lists s) with
    | Some (c, l1, tx, l2) =>
      (mkS (plug c (l1 ++ T (tid tx) (tname tx) (tval tx) [] :: l2)) (scount s)
           (ids_f (tkids tx) ++ sfreed s), OutP None)
    | None => (s, OutX)
    end
  | ODestroy x =>
    match take_single x (lists s) with
    | Some (tx, st1) => (mkS st1 (scount s) (ids_t tx ++ sfreed s), OutP None)
    | None => if slive s x then (s, OutP (Some x)) else (s, OutX)
    end
  | OSwap a b =>
    (* exchange the child lists: cut both, graft them crosswise *)
    if a =? b then (if slive s a then (s, OutP None) else (s, OutX))
    else if mem a (b :: ancs b (lists s)) || mem b (a :: ancs a (lists s)) then (s, OutX)
    else
      match cut a (lists s) with
      | Some (ta, s1) =>
        match cut b s1 with
        | Some (tb, s2) =>
          match graft a (tkids tb) s2 with
          | Some s3 =>
            match graft b (tkids ta) s3 with
            | Some s4 => (with_lists s s4, OutP None)
            | None => (s, OutX)
            end
          | None => (s, OutX)
          end
        | None => (s, OutX)
        end
      | None => (s, OutX)
      end
  | OSwitch a b =>
    (* exchange the places of the two nodes with everything below them: cut both
       child lists, let the two childless nodes change places, graft each list
       back under its own node *)
    if a =? b then (if slive s a then (s, OutP None) else (s, OutX))
    else if mem a (b :: ancs b (lists s)) || mem b (a :: ancs a (lists s)) then (s, OutX)
    else
      match cut a (lists s) with
      | Some (ta, s1) =>
        match cut b s1 with
        | Some (tb, s2) =>
          let s3 := exch_st a (tname ta) (tval ta) b (tname tb) (tval tb) s2 in
          match graft a (tkids ta) s3 with
          | Some s4 =>
            match graft b (tkids tb) s4 with
            | Some s5 => (with_lists s s5, OutP None)
            | None => (s, OutX)
            end
          | None => (s, OutX)
          end
        | None => (s, OutX)
        end
      | None => (s, OutX)
      end
  | ORelink x => if slive s x then (s, OutP None) else (s, OutX)
  | OTrav o fl x =>
    match focus x (lists s) with
    | Some (_, _, tx, l2) => (s, OutL (flat_map (strav o fl) (tx :: l2)))
    | None => (s, OutX)
    end
  | OFind p nm pos =>
    (* the children of p named nm: the last (0), the pos-th (pos > 0), the one -pos before the last *)
    match focus p (lists s) with
    | Some (_, _, tp, _) =>
      let k := tkids tp in
      let ms := if nm =? 0 then [] else matches nm 0 k in
      let idx := if (pos =? 0)%Z then (match ms with [] => None | _ :: _ => Some (last ms 0) end)
                 else if (0 <? pos)%Z then nth_error ms (Z.to_nat pos - 1)
                 else nth_error (rev ms) (Z.to_nat (- pos)) in
      (s, OutP (match idx with Some i => option_map tid (nth_error k i) | None => None end))
    | None => (s, OutX)
    end
  | ONext x nm =>
    (* the first node named nm from x on *)
    match focus x (lists s) with
    | Some (_, _, tx, l2) =>
      (s, OutP (if nm =? 0 then None
                else option_map tid (find (fun t => tname t =? nm) (tx :: l2))))
    | None => (s, OutX)
    end
  | OLocate x pos q =>
    match focus x (lists s) with
    | Some (_, l1, tx, l2) =>
      (s, OutP (match q with
                | None => None
                | Some nm => match locate_index l1 tx l2 nm pos with
                             | Some i => option_map tid (nth_error (l1 ++ tx :: l2) i)
                             | None => None
                             end
                end))
    | None => (s, OutX)
    end
  | OWalk o fl x k =>
    match focus x (lists s) with
    | Some (_, _, tx, l2) => let '(l, r) := cutk k (swalk o fl (tx :: l2)) in (s, OutW l r)
    | None => (s, OutX)
    end
  | ONull c => snull s c
  | OEnd => (mkS [] (scount s) (ids_st (lists s) ++ sfreed s), OutZ 0%Z)
  end.

Fixpoint srun (s : sstate) (ops : list op) : list (out * sstate) :=
  match ops with
  | [] => []
  | o :: r => let '(s', out) := sstep s o in (out, s') :: srun s' r
  end.
