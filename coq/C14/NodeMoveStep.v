(* C14/NodeMoveStep.v — mpt_node_move as an operation of the history language:
   the guard "source and target lie in different top-level lists" on both sides,
   and the refinement of OMove / OLMove from the loop lemma of NodeMove.v. *)
From Coq Require Import List Arith ZArith Bool Lia Permutation Wf_nat.
From MptV Require Import C14.NodeModel C14.NodeSpec C14.NodeRep C14.NodeFocus C14.NodeExec
  C14.NodeLocal C14.NodeInv C14.NodeRefine C14.NodeFree C14.NodeClone C14.NodePos C14.NodeMatch
  C14.NodeInsert C14.NodeInsertName C14.NodeMove.
Import ListNotations.
Local Open Scope nat_scope.

(* ---------------------------------------------------------------- the top-level list of a node *)
(* walking up: the outermost frame's node, or the node itself *)
Definition top_id (frs : list frame) (x : nat) : nat :=
  match rev frs with [] => x | fr :: _ => fi fr end.

Lemma top_of_frames c nid fr0 : forall frs fuel hd x nx,
  rep_frames c frs hd -> length frs < fuel ->
  c x = Some nx -> npar nx = cpar frs ->
  top_of fuel (mkH c nid fr0) x = ROk (top_id frs x).
Proof.
  induction frs as [|f rest IH]; intros fuel hd x nx R L Hx Hp.
  - destruct fuel; [cbn in L; lia|]. cbn [top_of]. unfold get. cbn [cells]. rewrite Hx. cbn [rbind].
    rewrite Hp. reflexivity.
  - destruct fuel; [cbn in L; lia|]. cbn [top_of]. unfold get. cbn [cells]. rewrite Hx. cbn [rbind].
    rewrite Hp. cbn [cpar]. cbn [rep_frames] in R. destruct R as (_ & Hc & _ & Rr).
    erewrite IH; [|exact Rr|cbn in L; lia|exact Hc|reflexivity].
    f_equal. unfold top_id. cbn [rev]. destruct (rev rest) as [|g r]; reflexivity.
Qed.

Lemma top_of_frames' h frs fuel hd x nx :
  rep_frames (cells h) frs hd -> length frs < fuel ->
  cells h x = Some nx -> npar nx = cpar frs ->
  top_of fuel h x = ROk (top_id frs x).
Proof. destruct h as [c nid fr0]. cbn [cells]. apply top_of_frames. Qed.

Lemma head_of_spec h par l aft :
  rep_l (cells h) par None l aft ->
  forall fuel j t, nth_error l j = Some t -> j < fuel ->
  exists t0, nth_error l 0 = Some t0 /\ head_of fuel h (tid t) = ROk (tid t0).
Proof.
  intros R fuel. induction fuel as [|fuel IH]; intros j t E Hf; [lia|].
  cbn [head_of]. rewrite (get_ok _ _ _ (cell_at _ _ _ _ _ _ _ R E)). cbn [rbind nprev].
  destruct j as [|j].
  - exists t. auto.
  - assert (Hj : j < length l) by (assert (S j < length l) by (apply nth_error_Some; congruence); lia).
    destruct (nth_id_some l j Hj) as (t' & E' & Ei'). rewrite Ei'. apply (IH j t' E'). lia.
Qed.

(* the top-level list a focused node lives in, and the index of its top ancestor there *)
Lemma fold_plugf_snoc frs fr l : fold_left plugf (frs ++ [fr]) l = plugf (fold_left plugf frs l) fr.
Proof. apply fold_left_app. Qed.

Lemma top_list_index frs x (l1 : forest) (tx : tree) l2 : tid tx = x ->
  exists j t, nth_error (fold_left plugf frs (l1 ++ tx :: l2)) j = Some t /\ tid t = top_id frs x.
Proof.
  intros Ex. destruct (exists_last_or_nil frs) as [->|(frs' & fr & ->)].
  - cbn [fold_left top_id rev]. exists (length l1), tx. split; [|exact Ex].
    rewrite nth_error_app2, Nat.sub_diag by lia. reflexivity.
  - rewrite fold_plugf_snoc. unfold top_id. rewrite rev_app_distr. cbn [rev app].
    unfold plugf. exists (length (fl1 fr)), (T (fi fr) (fn fr) (fv fr) (fold_left plugf frs' (l1 ++ tx :: l2))).
    split; [|reflexivity]. rewrite nth_error_app2, Nat.sub_diag by lia. reflexivity.
Qed.

Lemma tophead_spec h s x frs o l1 tx l2 :
  inv h s -> focus x (lists s) = Some ((frs, o), l1, tx, l2) ->
  tophead h x = ROk (match hid (fold_left plugf frs (l1 ++ tx :: l2)) with Some q => q | None => 0 end).
Proof.
  intros I F. destruct (focus_cell _ _ _ _ _ _ _ _ (i_rep _ _ I) F) as [Hc R].
  destruct (focus_perm _ _ _ _ _ _ _ F) as [P Ex].
  pose proof (focus_fuel _ _ _ _ _ _ _ _ I F) as Lf.
  pose proof R as R0. rewrite rep_plug in R0. destruct R0 as (_ & Rf & _).
  unfold tophead.
  rewrite (top_of_frames' h frs (fuel_of h) _ x _ Rf Lf Hc eq_refl). cbn [rbind].
  unfold plug in R. cbn [fst snd] in R. rewrite rep_st_cons in R. destruct R as [RL _].
  destruct (top_list_index frs x l1 tx l2 Ex) as (j & t & Ej & Et).
  assert (Hj : j < fuel_of h).
  { assert (j < length (fold_left plugf frs (l1 ++ tx :: l2))) by (apply nth_error_Some; congruence).
    pose proof (length_le_ids (fold_left plugf frs (l1 ++ tx :: l2))) as L1.
    pose proof (inv_length _ _ I) as L2.
    rewrite (Permutation_length (ids_st_perm _ _ P)) in L2. unfold plug in L2. cbn [fst snd] in L2.
    rewrite ids_st_cons, app_length in L2. unfold fuel_of. lia. }
  destruct (head_of_spec h None _ None RL (fuel_of h) j t Ej Hj) as (t0 & E0 & Eh).
  rewrite <- Et, Eh. destruct (fold_left plugf frs (l1 ++ tx :: l2)) as [|t0' r]; [discriminate|].
  cbn in E0. inversion E0. reflexivity.
Qed.

(* ---------------------------------------------------------------- uniqueness of the list that holds a node *)
Lemma in_two_lists (st : state) : forall s1 A s2 t1 B t2 d,
  NoDup (ids_st st) -> st = s1 ++ A :: s2 -> st = t1 ++ B :: t2 ->
  In d (ids_f A) -> In d (ids_f B) -> s1 = t1 /\ A = B /\ s2 = t2.
Proof.
  induction st as [|L st IH]; intros s1 A s2 t1 B t2 d ND E1 E2 HA HB.
  - destruct s1; discriminate.
  - rewrite ids_st_cons in ND. apply NoDup_app_inv in ND. destruct ND as (_ & ND' & Dj).
    destruct s1 as [|a s1], t1 as [|b t1]; cbn [app] in E1, E2.
    + inversion E1; inversion E2; subst. auto.
    + inversion E1; inversion E2; subst. exfalso. apply (Dj d HA).
      rewrite ids_st_app, ids_st_cons. apply in_or_app. right. apply in_or_app. auto.
    + inversion E1; inversion E2; subst. exfalso. apply (Dj d HB).
      rewrite ids_st_app, ids_st_cons. apply in_or_app. right. apply in_or_app. auto.
    + inversion E1 as [[Ea Es]]. inversion E2 as [[Eb Et]]. subst a b.
      destruct (IH s1 A s2 t1 B t2 d ND' Es Et HA HB) as (-> & -> & ->). auto.
Qed.

Lemma take_top_spec p : forall st pre l rest,
  take_top p pre st = Some (l, rest) ->
  exists s1 s2, st = s1 ++ l :: s2 /\ rest = pre ++ s1 ++ s2 /\ In p (ids_f l).
Proof.
  induction st as [|L st IH]; intros pre l rest H; cbn [take_top] in H; [discriminate|].
  destruct (mem p (ids_f L)) eqn:M.
  - inversion H; subst. exists [], st. apply mem_in in M. auto.
  - destruct (IH _ _ _ H) as (s1 & s2 & -> & -> & Hin). exists (L :: s1), s2.
    rewrite <- !app_assoc. auto.
Qed.

Lemma take_top_none p : forall st pre, take_top p pre st = None -> ~ In p (ids_st st).
Proof.
  induction st as [|L st IH]; intros pre H; cbn [take_top] in H; [intros []|].
  destruct (mem p (ids_f L)) eqn:M; [discriminate|].
  rewrite ids_st_cons. intros K. apply in_app_or in K. destruct K as [K|K].
  - apply mem_in in K. congruence.
  - exact (IH _ H K).
Qed.

Lemma focus_in_list p st frs o a tp b :
  focus p st = Some ((frs, o), a, tp, b) ->
  exists s1 s2, st = s1 ++ fold_left plugf frs (a ++ tp :: b) :: s2 /\ o = s1 ++ s2 /\
    In p (ids_f (fold_left plugf frs (a ++ tp :: b))).
Proof.
  intros F. destruct (focus_st_sound _ _ _ _ _ _ _ _ F) as (s1 & s2 & E1 & E2 & E3).
  exists s1, s2. split; [exact E1|]. split; [exact E2|].
  eapply Permutation_in; [symmetry; apply ids_fold|]. apply in_or_app. left.
  rewrite ids_f_app, ids_f_cons. apply in_or_app. right. apply in_or_app. left.
  destruct tp as [i n v k]. cbn [tid] in E3. subst. rewrite ids_t_eq. left. reflexivity.
Qed.

Lemma tophead_of_list h s x u1 L u2 :
  inv h s -> lists s = u1 ++ L :: u2 -> In x (ids_f L) ->
  tophead h x = ROk (match hid L with Some q => q | None => 0 end).
Proof.
  intros I El Hx.
  assert (Hin : In x (ids_st (lists s))).
  { rewrite El, ids_st_app, ids_st_cons. apply in_or_app. right. apply in_or_app. auto. }
  destruct (focus_some _ _ Hin) as ([frs o] & a & tx & b & F).
  destruct (focus_in_list _ _ _ _ _ _ _ F) as (s1 & s2 & E1 & _ & Hx').
  destruct (in_two_lists (lists s) _ _ _ _ _ _ x (inv_nodup _ _ I) E1 El Hx' Hx) as (_ & EL & _).
  rewrite (tophead_spec _ _ _ _ _ _ _ _ I F), EL. reflexivity.
Qed.

Lemma hid_in_ids (L : forest) q : hid L = Some q -> In q (ids_f L).
Proof. intros E. apply hid_or_in. rewrite <- hid_hid_or. exact E. Qed.

Lemma heads_differ (st : state) u1 A u2 t1 B t2 d :
  NoDup (ids_st st) -> st = u1 ++ A :: u2 -> st = t1 ++ B :: t2 ->
  In d (ids_f B) -> ~ In d (ids_f A) -> A <> [] ->
  (match hid A with Some q => q | None => 0 end) <> (match hid B with Some q => q | None => 0 end).
Proof.
  intros ND E1 E2 HB HA Hne K.
  destruct A as [|ta ra]; [contradiction|]. cbn [hid] in K.
  destruct B as [|tb rb]; [contradiction|]. cbn [hid] in K.
  assert (Qa : In (tid ta) (ids_f (ta :: ra))) by (apply hid_in_ids; reflexivity).
  assert (Qb : In (tid ta) (ids_f (tb :: rb))) by (rewrite K; apply hid_in_ids; reflexivity).
  destruct (in_two_lists st _ _ _ _ _ _ _ ND E1 E2 Qa Qb) as (_ & EAB & _).
  apply HA. rewrite EAB. exact HB.
Qed.

Lemma node_move_S f h from d :
  node_move (S f) h from (Some d) =
  (do src0 <- from_get h from; move_loop (rec_of f) (S f) d (S f) h from src0 d 0).
Proof. reflexivity. Qed.

(* ---------------------------------------------------------------- OMove *)
Lemma step_move p d : refines_step (OMove p d).
Proof.
  intros h s I. cbn [mstep sstep]. rewrite !(live_iff _ _ _ I).
  pose proof (inv_nodup _ _ I) as ND.
  destruct (take_top p [] (lists s)) as [[lp rest0]|] eqn:TT.
  2:{ assert (Sl : slive s p = false).
      { destruct (slive s p) eqn:Sl; [|reflexivity]. apply mem_in in Sl. exfalso. exact (take_top_none _ _ _ TT Sl). }
      rewrite Sl. cbn [andb fst snd]. eexists; split; [reflexivity|exact I]. }
  destruct (take_top_spec _ _ _ _ _ TT) as (s1 & s2 & Est & Erest & Hp). cbn [app] in Erest.
  assert (Slp : slive s p = true).
  { apply mem_in. rewrite Est, ids_st_app, ids_st_cons. apply in_or_app. right. apply in_or_app. auto. }
  rewrite Slp. cbn [andb].
  pose proof (tophead_of_list h s p s1 lp s2 I Est Hp) as Tp.
  assert (Hlp : lp <> []) by (intros ->; contradiction).
  assert (Pst : Permutation (lists s) (lp :: rest0)).
  { rewrite Est, Erest. symmetry. apply Permutation_middle. }
  pose proof (rep_st_perm _ _ _ Pst (i_rep _ _ I)) as R0. rewrite rep_st_cons in R0. destruct R0 as [Rlp Rrest].
  destruct (focus d rest0) as [[[[[fd rest] l1] td] l2]|] eqn:FD.
  2:{ (* d is dead or lies in the list of p *)
      destruct (slive s d) eqn:Sld; [|cbn [andb fst snd]; eexists; split; [reflexivity|exact I]].
      cbn [andb]. destruct (is_head h d); [|cbn [fst snd]; eexists; split; [reflexivity|exact I]].
      apply mem_in in Sld.
      assert (Hd : In d (ids_f lp)).
      { eapply Permutation_in in Sld; [|apply ids_st_perm; exact Pst]. rewrite ids_st_cons in Sld.
        apply in_app_or in Sld. destruct Sld as [K|K]; [exact K|]. exfalso. exact (focus_st_none _ _ _ FD K). }
      rewrite Tp, (tophead_of_list h s d s1 lp s2 I Est Hd). cbn [rbind]. rewrite Nat.eqb_refl.
      cbn [fst snd]. eexists; split; [reflexivity|exact I]. }
  (* d lies in another top-level list *)
  destruct (focus_in_list _ _ _ _ _ _ _ FD) as (r1 & r2 & Er0 & Erest' & Hd).
  set (Ld := fold_left plugf fd (l1 ++ td :: l2)) in *.
  assert (Hdin : In d (ids_st (lists s))).
  { eapply Permutation_in; [symmetry; apply ids_st_perm; exact Pst|]. rewrite ids_st_cons. apply in_or_app. right.
    rewrite Er0, ids_st_app, ids_st_cons. apply in_or_app. right. apply in_or_app. auto. }
  assert (Sld : slive s d = true) by (apply mem_in; exact Hdin).
  rewrite Sld. cbn [andb].
  destruct (focus_cell _ _ _ _ _ _ _ _ Rrest FD) as [Hcd Rd].
  assert (Hhd : is_head h d = match l1 with [] => true | _ :: _ => false end).
  { unfold is_head. rewrite Hcd. cbn [nprev]. destruct (lastid l1 None) eqn:E.
    - destruct l1; [discriminate|reflexivity].
    - apply lastid_nil_inv in E. subst. reflexivity. }
  rewrite Hhd. destruct l1 as [|t1 r1']; [|cbn [fst snd]; eexists; split; [reflexivity|exact I]].
  cbn [app] in *.
  (* the two top-level lists differ, so do their heads *)
  assert (NdA : ~ In d (ids_f lp)).
  { intros K. eapply Permutation_NoDup in ND; [|apply ids_st_perm; exact Pst]. rewrite ids_st_cons in ND.
    apply NoDup_app_inv in ND. destruct ND as (_ & _ & Dj). apply (Dj d K).
    rewrite Er0, ids_st_app, ids_st_cons. apply in_or_app. right. apply in_or_app. auto. }
  (* position of Ld in lists s *)
  assert (ELd : exists t1' t2', lists s = t1' ++ Ld :: t2').
  { assert (InL : In Ld (lists s)).
    { rewrite Est. rewrite Erest in Er0.
      assert (K : In Ld (s1 ++ s2)) by (rewrite Er0; apply in_or_app; right; left; reflexivity).
      apply in_app_or in K. apply in_or_app. destruct K; [left|right; right]; assumption. }
    apply in_split in InL. exact InL. }
  destruct ELd as (t1' & t2' & ELd).
  rewrite Tp, (tophead_of_list h s d t1' Ld t2' I ELd Hd). cbn [rbind].
  rewrite (proj2 (Nat.eqb_neq _ _) (heads_differ (lists s) s1 lp s2 t1' Ld t2' d ND Est ELd Hd NdA Hlp)).
  (* the source list: the children of p *)
  assert (Hp1 : In p (ids_st [lp])) by (cbn [ids_st flat_map]; rewrite app_nil_r; exact Hp).
  destruct (focus_some _ _ Hp1) as ([fp op] & a & tp & b & FP). rewrite FP.
  destruct (focus_in_list _ _ _ _ _ _ _ FP) as (q1 & q2 & Eq & Eop & _).
  assert (Eqq : q1 = [] /\ q2 = [] /\ lp = fold_left plugf fp (a ++ tp :: b)).
  { destruct q1 as [|x q1]; cbn [app] in Eq; inversion Eq; [auto|]. destruct q1; discriminate. }
  destruct Eqq as (-> & -> & Elp). cbn [app] in Eop. subst op.
  destruct (focus_perm _ _ _ _ _ _ _ FP) as [_ Etp].
  destruct tp as [p' n v kp]. cbn [tid tname tval tkids] in *. subst p'.
  (* the two-zipper state *)
  set (fs := Fr a p n v b :: fp).
  assert (Est2 : Permutation (lists s) (st2 fs fd rest kp (td :: l2))).
  { etransitivity; [exact Pst|]. unfold st2, plug, fs. cbn [fst snd fold_left]. unfold plugf at 2.
    cbn [fl1 fi fn fv fl2]. rewrite <- Elp. apply perm_skip. destruct (focus_perm _ _ _ _ _ _ _ FD) as [Pd _]. exact Pd. }
  pose proof (rep_st_perm _ _ _ Est2 (i_rep _ _ I)) as R2.
  assert (ND2 : NoDup (ids_st (st2 fs fd rest kp (td :: l2)))).
  { eapply Permutation_NoDup; [apply ids_st_perm; exact Est2|exact ND]. }
  assert (Ln2 : length (ids_st (st2 fs fd rest kp (td :: l2))) <= nextid h).
  { rewrite <- (Permutation_length (ids_st_perm _ _ Est2)). exact (inv_length _ _ I). }
  destruct (focus_perm _ _ _ _ _ _ _ FD) as [_ Etd].
  destruct (loop_all kp h fs fd rest [] (td :: l2) (FromKids p) d d 0 (S (nextid h)) (S (S (nextid h))))
    as (h' & from' & E' & S' & _).
  - exact R2.
  - exact ND2.
  - exact Ln2.
  - cbn [hid]. rewrite Etd. reflexivity.
  - exists 0, td. split; [reflexivity|exact Etd].
  - reflexivity.
  - cbn [app]. lia.
  - rewrite fsize_ids. pose proof (Permutation_length (st2_ids fs fd rest kp (td :: l2))) as L.
    rewrite !app_length in L. cbn [app] in Ln2. lia.
  - unfold fuel_of. rewrite node_move_S. cbn [from_get].
    destruct (st2_facts_list h fs fd rest kp (td :: l2) R2) as (Rfs & _).
    unfold fs in Rfs. cbn [rep_frames fl1 fi fn fv fl2] in Rfs. destruct Rfs as (_ & Hcp & _).
    rewrite (fld_ok _ _ _ _ Hcp). cbn [rbind nkid].
    cbn [app] in E'. rewrite E'. cbn [rbind Nat.add].
    destruct (move_l kp (td :: l2)) as [[k' d'] m] eqn:Eml. cbn [fst snd] in *.
    exists h'. split; [reflexivity|].
    destruct S' as [M' R' P' F'].
    apply (inv_relink _ _ _ _ I M').
    + exact R'.
    + etransitivity; [exact P'|]. symmetry. apply ids_st_perm. exact Est2.
    + intros i Hi. apply F'. intros K. apply Hi.
      eapply Permutation_in; [symmetry; apply ids_st_perm; exact Est2|exact K].
Qed.

(* ---------------------------------------------------------------- OLMove *)
Lemma step_lmove x d : refines_step (OLMove x d).
Proof.
  intros h s I. cbn [mstep sstep]. rewrite (unlinked_iff _ _ _ I), (live_iff _ _ _ I).
  pose proof (inv_nodup _ _ I) as ND.
  destruct (take_single x (lists s)) as [[tx st1]|] eqn:TS; [|cbn [andb fst snd]; eexists; split; [reflexivity|exact I]].
  cbn [andb].
  pose proof (take_single_inv _ _ _ _ TS) as FX.
  destruct (focus_in_list _ _ _ _ _ _ _ FX) as (q1 & q2 & Est & Est1 & Hx). cbn [fold_left app] in Est, Hx.
  destruct (take_single_perm _ _ _ _ TS) as [Pst Etx].
  pose proof (rep_st_perm _ _ _ Pst (i_rep _ _ I)) as R0. rewrite rep_st_cons in R0. destruct R0 as [Rtx Rst1].
  assert (Hhx : hid [tx] = Some x) by (cbn; rewrite Etx; reflexivity).
  destruct (focus d st1) as [[[[[fd rest] l1] td] l2]|] eqn:FD.
  2:{ destruct (slive s d) eqn:Sld; [|cbn [andb fst snd]; eexists; split; [reflexivity|exact I]].
      cbn [andb]. destruct (is_head h d); [|cbn [fst snd]; eexists; split; [reflexivity|exact I]].
      apply mem_in in Sld.
      assert (Hd : In d (ids_f [tx])).
      { eapply Permutation_in in Sld; [|apply ids_st_perm; exact Pst]. rewrite ids_st_cons in Sld.
        apply in_app_or in Sld. destruct Sld as [K|K]; [exact K|]. exfalso. exact (focus_st_none _ _ _ FD K). }
      rewrite (tophead_of_list h s d q1 [tx] q2 I Est Hd), Hhx. cbn [rbind]. rewrite Nat.eqb_refl.
      cbn [fst snd]. eexists; split; [reflexivity|exact I]. }
  destruct (focus_in_list _ _ _ _ _ _ _ FD) as (r1 & r2 & Er0 & Erest' & Hd).
  set (Ld := fold_left plugf fd (l1 ++ td :: l2)) in *.
  assert (Hdin : In d (ids_st (lists s))).
  { eapply Permutation_in; [symmetry; apply ids_st_perm; exact Pst|]. rewrite ids_st_cons. apply in_or_app. right.
    rewrite Er0, ids_st_app, ids_st_cons. apply in_or_app. right. apply in_or_app. auto. }
  assert (Sld : slive s d = true) by (apply mem_in; exact Hdin).
  rewrite Sld. cbn [andb].
  destruct (focus_cell _ _ _ _ _ _ _ _ Rst1 FD) as [Hcd Rd].
  assert (Hhd : is_head h d = match l1 with [] => true | _ :: _ => false end).
  { unfold is_head. rewrite Hcd. cbn [nprev]. destruct (lastid l1 None) eqn:E.
    - destruct l1; [discriminate|reflexivity].
    - apply lastid_nil_inv in E. subst. reflexivity. }
  rewrite Hhd. destruct l1 as [|t1 r1']; [|cbn [fst snd]; eexists; split; [reflexivity|exact I]].
  cbn [app] in *.
  assert (NdA : ~ In d (ids_f [tx])).
  { intros K. eapply Permutation_NoDup in ND; [|apply ids_st_perm; exact Pst]. rewrite ids_st_cons in ND.
    apply NoDup_app_inv in ND. destruct ND as (_ & _ & Dj). apply (Dj d K).
    rewrite Er0, ids_st_app, ids_st_cons. apply in_or_app. right. apply in_or_app. auto. }
  assert (ELd : exists t1' t2', lists s = t1' ++ Ld :: t2').
  { assert (InL : In Ld (lists s)).
    { rewrite Est. rewrite Est1 in Er0.
      assert (K : In Ld (q1 ++ q2)) by (rewrite Er0; apply in_or_app; right; left; reflexivity).
      apply in_app_or in K. apply in_or_app. destruct K; [left|right; right]; assumption. }
    apply in_split in InL. exact InL. }
  destruct ELd as (t1' & t2' & ELd).
  rewrite (tophead_of_list h s d t1' Ld t2' I ELd Hd). cbn [rbind].
  pose proof (heads_differ (lists s) q1 [tx] q2 t1' Ld t2' d ND Est ELd Hd NdA ltac:(discriminate)) as Hdf.
  rewrite Hhx in Hdf. rewrite (proj2 (Nat.eqb_neq _ _) Hdf).
  (* the two-zipper state: the source is the top-level list [tx] *)
  assert (Est2 : Permutation (lists s) (st2 [] fd rest [tx] (td :: l2))).
  { etransitivity; [exact Pst|]. unfold st2, plug. cbn [fst snd fold_left].
    apply perm_skip. destruct (focus_perm _ _ _ _ _ _ _ FD) as [Pd _]. exact Pd. }
  pose proof (rep_st_perm _ _ _ Est2 (i_rep _ _ I)) as R2.
  assert (ND2 : NoDup (ids_st (st2 [] fd rest [tx] (td :: l2)))).
  { eapply Permutation_NoDup; [apply ids_st_perm; exact Est2|exact ND]. }
  assert (Ln2 : length (ids_st (st2 [] fd rest [tx] (td :: l2))) <= nextid h).
  { rewrite <- (Permutation_length (ids_st_perm _ _ Est2)). exact (inv_length _ _ I). }
  destruct (focus_perm _ _ _ _ _ _ _ FD) as [_ Etd].
  destruct (loop_all [tx] h [] fd rest [] (td :: l2) (FromLocal (Some x)) d d 0 (S (nextid h)) (S (S (nextid h))))
    as (h' & from' & E' & S' & _).
  - exact R2.
  - exact ND2.
  - exact Ln2.
  - cbn [hid]. rewrite Etd. reflexivity.
  - exists 0, td. split; [reflexivity|exact Etd].
  - cbn [from_ok app]. split; [reflexivity|]. symmetry. exact Hhx.
  - cbn [app length]. lia.
  - rewrite fsize_ids. pose proof (Permutation_length (st2_ids [] fd rest [tx] (td :: l2))) as L.
    rewrite !app_length in L. cbn [app] in Ln2. lia.
  - unfold fuel_of. rewrite node_move_S. cbn [from_get rbind].
    cbn [app] in E'. rewrite Hhx in E'. rewrite E'. cbn [rbind Nat.add].
    destruct (move_l [tx] (td :: l2)) as [[k' d'] m] eqn:Eml. cbn [fst snd] in *.
    exists h'. split; [reflexivity|].
    destruct S' as [M' R' P' F'].
    apply (inv_relink _ _ _ _ I M').
    + exact R'.
    + etransitivity; [exact P'|]. symmetry. apply ids_st_perm. exact Est2.
    + intros i Hi. apply F'. intros K. apply Hi.
      eapply Permutation_in; [symmetry; apply ids_st_perm; exact Est2|exact K].
Qed.
