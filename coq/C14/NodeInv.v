(* C14/NodeInv.v — the refinement invariant between pointer heap and forest state,
   and what the guards of the history language mean on both sides. *)
From Coq Require Import List Arith ZArith Bool Lia Permutation Wf_nat.
From MptV Require Import C14.NodeModel C14.NodeSpec C14.NodeRep C14.NodeFocus C14.NodeExec C14.NodeLocal.
Import ListNotations.
Local Open Scope nat_scope.

Record inv (h : heap) (s : sstate) : Prop := mkInv {
  i_rep : rep_st (cells h) (lists s);                                   (* links are those of the forest *)
  i_cnt : nextid h = scount s;
  i_perm : Permutation (ids_st (lists s) ++ sfreed s) (seq 0 (scount s)); (* every id: in the forest once, or freed once *)
  i_dom : forall i, cells h i <> None -> In i (ids_st (lists s));       (* no live cell outside the forest *)
  i_freed : Permutation (freed h) (sfreed s)
}.

Lemma inv_nodup h s : inv h s -> NoDup (ids_st (lists s)).
Proof.
  intros I. pose proof (i_perm _ _ I) as P.
  assert (N : NoDup (ids_st (lists s) ++ sfreed s)).
  { eapply Permutation_NoDup; [symmetry; exact P|apply seq_NoDup]. }
  apply NoDup_app_inv in N. tauto.
Qed.

Lemma inv_bound h s i : inv h s -> In i (ids_st (lists s)) -> i < nextid h.
Proof.
  intros I Hi. rewrite (i_cnt _ _ I).
  assert (K : In i (seq 0 (scount s))).
  { eapply Permutation_in; [exact (i_perm _ _ I)|]. apply in_or_app. auto. }
  apply in_seq in K. lia.
Qed.

Lemma inv_length h s : inv h s -> length (ids_st (lists s)) <= nextid h.
Proof.
  intros I. rewrite (i_cnt _ _ I).
  pose proof (Permutation_length (i_perm _ _ I)) as L. rewrite app_length, seq_length in L. lia.
Qed.

Lemma mem_in i l : mem i l = true <-> In i l.
Proof.
  unfold mem. rewrite existsb_exists. split.
  - intros (x & Hx & E). apply Nat.eqb_eq in E. subst. exact Hx.
  - intros H. exists i. split; [exact H|apply Nat.eqb_refl].
Qed.

Lemma rep_cell_some c st i : rep_st c st -> In i (ids_st st) -> exists nd, c i = Some nd.
Proof.
  intros H Hi. unfold rep_st, repc in H. rewrite Forall_forall in H.
  rewrite <- keys_exp_st in Hi. apply in_map_iff in Hi. destruct Hi as ([j nd] & E & Hin).
  cbn in E. subst j. exists nd. exact (H _ Hin).
Qed.

(* G1: live on both sides *)
Lemma live_iff h s i : inv h s -> live h i = slive s i.
Proof.
  intros I. unfold live, slive.
  destruct (mem i (ids_st (lists s))) eqn:M.
  - apply mem_in in M. destruct (rep_cell_some _ _ _ (i_rep _ _ I) M) as (nd & ->). reflexivity.
  - destruct (cells h i) eqn:C; [|reflexivity].
    assert (K : In i (ids_st (lists s))) by (apply (i_dom _ _ I); rewrite C; discriminate).
    apply mem_in in K. congruence.
Qed.

(* the cell of a focused node *)
Lemma focus_cell c st x frs o a tx b :
  rep_st c st -> focus x st = Some ((frs, o), a, tx, b) ->
  c x = Some (mkN (hid_or b None) (lastid a None) (cpar frs) (hid (tkids tx)) (tname tx) (tval tx)) /\
  rep_st c (plug (frs, o) (a ++ tx :: b)).
Proof.
  intros H F. destruct (focus_perm _ _ _ _ _ _ _ F) as [P E].
  pose proof (rep_st_perm _ _ _ P H) as H'. split; [|exact H'].
  rewrite rep_plug in H'. destruct H' as (Hl & _). destruct tx as [i n v k]. cbn [tid] in E. subst i.
  rewrite rep_l_mid in Hl. destruct Hl as (_ & Hc & _). exact Hc.
Qed.

(* G2: unlinked on both sides *)
Lemma unlinked_iff h s x : inv h s ->
  unlinked h x = match take_single x (lists s) with Some _ => true | None => false end.
Proof.
  intros I. unfold unlinked, take_single.
  destruct (focus x (lists s)) as [[[[[frs o] a] tx] b]|] eqn:F.
  - destruct (focus_cell _ _ _ _ _ _ _ _ (i_rep _ _ I) F) as [Hc _]. rewrite Hc.
    unfold linked. cbn [npar nnext nprev].
    destruct frs as [|fr rest]; cbn [cpar]; [|destruct a, b; reflexivity].
    destruct b as [|tb rb]; cbn [hid_or]; [|destruct a; reflexivity].
    destruct (lastid a None) eqn:La.
    + destruct a; [discriminate|reflexivity].
    + apply lastid_nil_inv in La. subst a. reflexivity.
  - destruct (cells h x) eqn:C; [|reflexivity]. exfalso.
    assert (K : In x (ids_st (lists s))) by (apply (i_dom _ _ I); rewrite C; discriminate).
    exact (focus_st_none _ _ _ F K).
Qed.

(* G3: the parent chain of a focused node is the chain of its frames *)
Lemma anc_frames c nid fr x frs : forall fuel hd p np,
  rep_frames c frs hd -> length frs < fuel ->
  c p = Some np -> npar np = cpar frs ->
  anc_or_eq fuel (mkH c nid fr) x p = ROk ((x =? p) || existsb (Nat.eqb x) (map fi frs)).
Proof.
  induction frs as [|f rest IH]; intros fuel hd p np H L Hp Hpar.
  - destruct fuel; [cbn in L; lia|]. cbn [anc_or_eq map existsb]. rewrite orb_false_r.
    destruct (x =? p); [reflexivity|]. unfold get. cbn [cells]. rewrite Hp. cbn [rbind].
    rewrite Hpar. reflexivity.
  - destruct fuel; [cbn in L; lia|]. cbn [anc_or_eq map existsb].
    destruct (x =? p); [reflexivity|]. unfold get. cbn [cells]. rewrite Hp. cbn [rbind].
    rewrite Hpar. cbn [cpar orb]. cbn [rep_frames] in H. destruct H as (_ & Hc & _ & Hr).
    eapply IH; [exact Hr|cbn in L; lia|exact Hc|reflexivity].
Qed.

Lemma heap_eta h : h = mkH (cells h) (nextid h) (freed h).
Proof. destruct h; reflexivity. Qed.

Lemma anc_focus h st x p frs o a tp b fuel :
  rep_st (cells h) st -> focus p st = Some ((frs, o), a, tp, b) -> length frs < fuel ->
  anc_or_eq fuel h x p = ROk ((x =? p) || existsb (Nat.eqb x) (map fi frs)).
Proof.
  intros H F L. destruct (focus_cell _ _ _ _ _ _ _ _ H F) as [Hc Hp].
  rewrite rep_plug in Hp. destruct Hp as (_ & Hf & _).
  rewrite (heap_eta h). eapply anc_frames; [exact Hf|exact L|exact Hc|reflexivity].
Qed.

Lemma frames_length frs : length frs <= length (ids_frs frs).
Proof.
  induction frs as [|fr rest IH]; [reflexivity|].
  unfold ids_frs in *. cbn [flat_map length]. rewrite app_length.
  assert (1 <= length (ids_fr fr)) by (unfold ids_fr; rewrite app_length; cbn [length]; lia). lia.
Qed.

Lemma focus_fuel h s p frs o a tp b :
  inv h s -> focus p (lists s) = Some ((frs, o), a, tp, b) -> length frs < fuel_of h.
Proof.
  intros I F. destruct (focus_perm _ _ _ _ _ _ _ F) as [P _].
  pose proof (Permutation_length (ids_st_perm _ _ P)) as L1.
  pose proof (Permutation_length (ids_plug frs o (a ++ tp :: b))) as L2.
  rewrite !app_length in L2. pose proof (frames_length frs). pose proof (inv_length _ _ I).
  unfold fuel_of. lia.
Qed.

(* every node below [x] has [x] among its ancestors *)
Lemma anc_below c nid fr x : forall k a prv aft F0,
  rep_l c (Some a) prv k aft ->
  (forall f, F0 <= f -> anc_or_eq f (mkH c nid fr) x a = ROk true) ->
  forall p f, In p (ids_f k) -> F0 + fsize k <= f -> anc_or_eq f (mkH c nid fr) x p = ROk true.
Proof.
  intros k. induction k as [k IH] using (well_founded_induction (well_founded_ltof _ fsize)).
  unfold ltof in IH.
  intros a prv aft F0 Hrep Ha p f Hin Hf.
  destruct k as [|[i n v kk] r]; [contradiction|].
  rewrite rep_l_cons, rep_t_eq in Hrep. destruct Hrep as ((Hi & Hkk) & Hr).
  rewrite fsize_cons, tsize_eq in Hf.
  assert (Hti : forall f, S F0 <= f -> anc_or_eq f (mkH c nid fr) x i = ROk true).
  { intros f' Hf'. destruct f' as [|f']; [lia|]. cbn [anc_or_eq].
    destruct (x =? i); [reflexivity|]. unfold get. cbn [cells]. rewrite Hi. cbn [rbind npar].
    apply Ha. lia. }
  rewrite ids_f_cons, ids_t_eq in Hin. destruct Hin as [->|Hin].
  - apply Hti. lia.
  - apply in_app_or in Hin. destruct Hin as [Hin|Hin].
    + apply (IH kk) with (a := i) (prv := None) (aft := None) (F0 := S F0); auto.
      * rewrite fsize_cons, tsize_eq. lia.
      * lia.
    + apply (IH r) with (a := a) (prv := Some i) (aft := aft) (F0 := F0); auto.
      * rewrite fsize_cons, tsize_eq. lia.
      * lia.
Qed.

Lemma fsize_ids f : fsize f = length (ids_f f).
Proof.
  induction f as [f H] using (well_founded_induction (well_founded_ltof _ fsize)).
  unfold ltof in H.
  destruct f as [|[i n v k] r]; [reflexivity|].
  rewrite fsize_cons, tsize_eq, ids_f_cons, ids_t_eq, app_length. cbn [length].
  rewrite (H k), (H r); [reflexivity| |]; rewrite fsize_cons, tsize_eq; lia.
Qed.
