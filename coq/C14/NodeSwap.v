(* C14/NodeSwap.v — mpt_gnode_swap exchanges the child lists of two nodes that are
   not ancestor-related: cut both lists, graft them crosswise. *)
From Coq Require Import List Arith ZArith Bool Lia Permutation Wf_nat.
From MptV Require Import C14.NodeModel C14.NodeSpec C14.NodeRep C14.NodeFocus C14.NodeExec
  C14.NodeLocal C14.NodeInv C14.NodeRefine C14.NodeFree C14.NodeClone C14.NodeWalk C14.NodeCut.
Import ListNotations.
Local Open Scope nat_scope.

Lemma slive_false_focus s x : slive s x = false -> focus x (lists s) = None.
Proof.
  intros H. destruct (focus x (lists s)) as [[[[c a] t] b]|] eqn:F; [|reflexivity].
  exfalso. apply focus_in in F. apply mem_in in F. unfold slive in H. congruence.
Qed.

Lemma length_ids_le (l : forest) : length l <= length (ids_f l).
Proof. apply length_le_ids. Qed.

Lemma rep_agree_l c1 c2 par prv l aft j :
  rep_l c1 par prv l aft -> rep_l c2 par prv l aft -> In j (ids_f l) -> c1 j = c2 j.
Proof.
  intros R1 R2 Hj. unfold rep_l, repc in *. rewrite Forall_forall in R1, R2.
  rewrite <- (keys_exp_l l par prv aft) in Hj. apply in_map_iff in Hj. destruct Hj as ([j' nd] & E & Hin). cbn in E. subst j'.
  pose proof (R1 _ Hin) as E1. pose proof (R2 _ Hin) as E2. cbn [fst snd] in E1, E2. congruence.
Qed.

Lemma step_swap a b : refines_step (OSwap a b).
Proof.
  intros h s I. cbn [mstep sstep]. rewrite !(live_iff _ _ _ I).
  destruct (Nat.eqb_spec a b) as [->|Nab].
  { (* same node: every write stores what is there *)
    rewrite andb_diag. destruct (slive s b) eqn:Sl; cbn [fst snd]; [|eexists; split; [reflexivity|exact I]].
    assert (Lb : live h b = true) by (rewrite (live_iff _ _ _ I); exact Sl).
    rewrite (anc_guard h s b b I Lb). cbn [rbind mem existsb]. rewrite Nat.eqb_refl. cbn [orb andb negb].
    apply mem_in in Sl. destruct (focus_some _ _ Sl) as ([frs o] & l1 & tb & l2 & F).
    destruct (focus_cell _ _ _ _ _ _ _ _ (i_rep _ _ I) F) as [Hc R].
    destruct (focus_perm _ _ _ _ _ _ _ F) as [P Ex].
    destruct tb as [b' n v kb]. cbn [tid tname tval tkids] in *. subst b'.
    rewrite rep_plug in R. destruct R as (Rl & _ & _). rewrite rep_l_mid in Rl. destruct Rl as (_ & _ & Rk & _).
    assert (NDk : NoDup (ids_f kb)).
    { pose proof (inv_nodup _ _ I) as ND. eapply Permutation_NoDup in ND; [|apply ids_st_perm; exact P].
      eapply Permutation_NoDup in ND; [|apply ids_plug]. apply NoDup_app_inv in ND. destruct ND as (ND & _).
      rewrite ids_f_app, ids_f_cons, ids_t_eq in ND. apply NoDup_app_inv in ND. destruct ND as (_ & ND & _).
      inversion ND as [|? ? _ ND']. apply NoDup_app_inv in ND'. tauto. }
    assert (Nb : ~ In b (ids_f kb)).
    { pose proof (inv_nodup _ _ I) as ND. eapply Permutation_NoDup in ND; [|apply ids_st_perm; exact P].
      eapply Permutation_NoDup in ND; [|apply ids_plug]. apply NoDup_app_inv in ND. destruct ND as (ND & _).
      rewrite ids_f_app, ids_f_cons, ids_t_eq in ND. apply NoDup_app_inv in ND. destruct ND as (_ & ND & _).
      inversion ND as [|? ? Nx _]. intros K. apply Nx. apply in_or_app. auto. }
    assert (Len : length kb < nextid h).
    { pose proof (length_ids_le kb). pose proof (inv_length _ _ I) as L2.
      rewrite (Permutation_length (ids_st_perm _ _ P)), (Permutation_length (ids_plug _ _ _)) in L2.
      rewrite ids_f_app, ids_f_cons, ids_t_eq, !app_length in L2. cbn [length] in L2. rewrite ?app_length in L2. lia. }
    unfold gnode_swap. rewrite (fld_ok _ _ _ _ Hc). cbn [rbind nkid].
    rewrite (wr_ok _ _ _ _ _ Hc). cbn [rbind].
    set (h1 := put h b _).
    assert (C1 : forall j, cells h1 j = cells h j) by (apply put_same_cells; exact Hc).
    assert (Hc1 : cells h1 b = Some (mkN (hid_or l2 None) (lastid l1 None) (cpar frs) (hid kb) n v)) by (rewrite C1; exact Hc).
    rewrite (wr_ok _ _ _ _ _ Hc1). cbn [rbind].
    set (h2 := put h1 b _).
    assert (C2 : forall j, cells h2 j = cells h j).
    { intros j. unfold h2. rewrite (put_same_cells h1 b _ Hc1). apply C1. }
    destruct (set_parents_from kb h2 None (Some b) b (fuel_of h2)) as (h3 & E3 & [M3a M3b] & R3 & F3).
    { eapply rep_l_frame; [exact Rk|]. intros j _. apply C2. }
    { exact NDk. }
    { unfold fuel_of, h2, h1. cbn [nextid put]. lia. }
    rewrite E3. cbn [rbind].
    assert (C3 : forall j, cells h3 j = cells h j).
    { intros j. destruct (in_dec Nat.eq_dec j (ids_f kb)) as [K|K]; [|rewrite F3 by exact K; apply C2].
      apply (rep_agree_l (cells h3) (cells h) (Some b) None kb None j R3 Rk K). }
    destruct (set_parents_from kb h3 None (Some b) b (fuel_of h3)) as (h4 & E4 & [M4a M4b] & R4 & F4).
    { eapply rep_l_frame; [exact Rk|]. intros j _. apply C3. }
    { exact NDk. }
    { unfold fuel_of. rewrite M3a. unfold h2, h1. cbn [nextid put]. lia. }
    rewrite E4. cbn [rbind]. exists h4. split; [reflexivity|].
    apply (inv_same_cells h h4 s I).
    - split; [rewrite M4a, M3a|rewrite M4b, M3b]; reflexivity.
    - intros j. destruct (in_dec Nat.eq_dec j (ids_f kb)) as [K|K]; [|rewrite F4 by exact K; apply C3].
      apply (rep_agree_l (cells h4) (cells h) (Some b) None kb None j R4 Rk K). }
  (* two different nodes *)
  destruct (slive s a) eqn:Sa.
  2:{ cbn [andb]. unfold cut. rewrite (slive_false_focus _ _ Sa).
      destruct (mem a (b :: ancs b (lists s)) || mem b (a :: ancs a (lists s))); cbn [fst snd];
        eexists; (split; [reflexivity|exact I]). }
  destruct (slive s b) eqn:Sb.
  2:{ cbn [andb].
      assert (Eb : forall st, (forall i, In i (ids_st st) -> In i (ids_st (lists s))) -> focus b st = None).
      { intros st Hst. destruct (focus b st) as [[[[c x] t] y]|] eqn:F; [|reflexivity].
        exfalso. apply focus_in in F. apply Hst in F. apply mem_in in F. unfold slive in Sb. congruence. }
      destruct (mem a (b :: ancs b (lists s)) || mem b (a :: ancs a (lists s))); cbn [fst snd];
        [eexists; split; [reflexivity|exact I]|].
      destruct (cut a (lists s)) as [[ta s1]|] eqn:Ca; [|eexists; split; [reflexivity|exact I]].
      destruct (cut_facts _ _ _ _ _ (inv_nodup _ _ I) (i_rep _ _ I) Ca) as (_ & _ & _ & _ & Pa & _).
      assert (Cb : cut b s1 = None).
      { unfold cut. rewrite (Eb s1); [reflexivity|].
        intros i Hi. eapply Permutation_in; [symmetry; exact Pa|]. apply in_or_app. auto. }
      rewrite Cb. cbn [fst snd]. eexists; split; [reflexivity|exact I]. }
  cbn [andb].
  assert (La : live h a = true) by (rewrite (live_iff _ _ _ I); exact Sa).
  assert (Lb : live h b = true) by (rewrite (live_iff _ _ _ I); exact Sb).
  rewrite (anc_guard h s a b I Lb). cbn [rbind]. rewrite (anc_guard h s b a I La). cbn [rbind].
  cbn [negb]. rewrite andb_true_r.
  destruct (mem a (b :: ancs b (lists s)) || mem b (a :: ancs a (lists s))) eqn:G;
    [cbn [fst snd]; eexists; split; [reflexivity|exact I]|].
  apply orb_false_elim in G. destruct G as [Ga Gb].
  pose proof (inv_nodup _ _ I) as ND. pose proof (i_rep _ _ I) as R.
  (* cut a *)
  apply mem_in in Sa. apply mem_in in Sb.
  destruct (focus_some _ _ Sa) as (ca & l1a & ta0 & l2a & Fa).
  assert (Ca : cut a (lists s) = Some (ta0, plug ca (l1a ++ T (tid ta0) (tname ta0) (tval ta0) [] :: l2a)))
    by (unfold cut; rewrite Fa; reflexivity).
  rewrite Ca. set (s1 := plug ca _) in *.
  destruct (cut_facts _ _ _ _ _ ND R Ca) as (Eta & R1 & (nda & Hnda & Hka & _ & _) & Rka & Pa & Ha1).
  destruct ta0 as [a' na va ka]. cbn [tid tname tval tkids] in *. subst a'.
  assert (NDa : NoDup (ids_st s1 ++ ids_f ka)) by (eapply Permutation_NoDup; [exact Pa|exact ND]).
  destruct (NoDup_app_inv _ _ NDa) as (ND1 & NDka & Dja).
  assert (Lka : S (fsize ka) <= fuel_of h).
  { rewrite fsize_ids. pose proof (inv_length _ _ I) as L. rewrite (Permutation_length Pa), app_length in L.
    assert (1 <= length (ids_st s1)) by (destruct (ids_st s1); [contradiction|cbn; lia]). unfold fuel_of. lia. }
  assert (Nbka : ~ In b (ids_f ka)).
  { intros K. pose proof (below_anc h a ka b Rka K Lka) as E. rewrite (anc_guard h s a b I Lb) in E.
    inversion E. congruence. }
  assert (Hb1 : In b (ids_st s1)).
  { eapply Permutation_in in Sb; [|exact Pa]. apply in_app_or in Sb. destruct Sb; [assumption|contradiction]. }
  (* cut b *)
  destruct (focus_some _ _ Hb1) as (cb & l1b & tb0 & l2b & Fb).
  assert (Cb : cut b s1 = Some (tb0, plug cb (l1b ++ T (tid tb0) (tname tb0) (tval tb0) [] :: l2b)))
    by (unfold cut; rewrite Fb; reflexivity).
  rewrite Cb. set (s2 := plug cb _) in *.
  destruct (cut_facts _ _ _ _ _ ND1 R1 Cb) as (Etb & R2 & (ndb & Hndb & Hkb & _ & _) & Rkb & Pb & Hb2).
  destruct tb0 as [b' nb vb kb]. cbn [tid tname tval tkids] in *. subst b'.
  rewrite (mask_other _ _ _ (not_eq_sym Nab)) in Hndb.
  assert (NDb : NoDup (ids_st s2 ++ ids_f kb)) by (eapply Permutation_NoDup; [exact Pb|exact ND1]).
  destruct (NoDup_app_inv _ _ NDb) as (ND2 & NDkb & Djb).
  assert (Lkb : S (fsize kb) <= fuel_of h).
  { rewrite fsize_ids. pose proof (inv_length _ _ I) as L. rewrite (Permutation_length Pa), app_length in L.
    rewrite (Permutation_length Pb), app_length in L.
    assert (1 <= length (ids_st s2)) by (destruct (ids_st s2); [contradiction|cbn; lia]). unfold fuel_of. lia. }
  assert (Nakb : ~ In a (ids_f kb)).
  { intros K.
    assert (E : anc_or_eq (fuel_of h) (mkH (mask (cells h) a) (nextid h) (freed h)) b a = ROk true).
    { apply (below_anc (mkH (mask (cells h) a) (nextid h) (freed h)) b kb a Rkb K). exact Lkb. }
    rewrite anc_mask in E. rewrite <- (heap_eta h) in E. rewrite (anc_guard h s b a I La) in E.
    inversion E. congruence. }
  assert (Rkb' : rep_l (cells h) (Some b) None kb None) by (apply (rep_l_mask (cells h) a); assumption).
  assert (Ha2 : In a (ids_st s2)).
  { eapply Permutation_in in Ha1; [|exact Pb]. apply in_app_or in Ha1. destruct Ha1; [assumption|contradiction]. }
  assert (Nbkb : ~ In b (ids_f kb)) by (intros K; exact (Djb _ Hb2 K)).
  assert (Naka : ~ In a (ids_f ka)) by (intros K; exact (Dja _ Ha1 K)).
  assert (Dkk : forall i, In i (ids_f ka) -> In i (ids_f kb) -> False).
  { intros i Hi Hj. apply (Dja i); [|exact Hi]. eapply Permutation_in; [symmetry; exact Pb|]. apply in_or_app. auto. }
  (* the model *)
  unfold gnode_swap. rewrite (fld_ok _ _ _ _ Hnda), (fld_ok _ _ _ _ Hndb). cbn [rbind]. rewrite Hka, Hkb.
  rewrite (wr_ok _ _ _ _ _ Hndb). cbn [rbind].
  erewrite wr_ok by (rewrite cells_put, (proj2 (Nat.eqb_neq a b) Nab); exact Hnda). cbn [rbind].
  set (h1 := put (put h b (set_kid (hid ka) ndb)) a (set_kid (hid kb) nda)).
  assert (C1 : forall i, cells h1 i = if i =? a then Some (set_kid (hid kb) nda)
                                     else if i =? b then Some (set_kid (hid ka) ndb) else cells h i).
  { intros i. unfold h1. rewrite !cells_put. reflexivity. }
  assert (C1o : forall i, i <> a -> i <> b -> cells h1 i = cells h i).
  { intros i H1 H2. rewrite C1, (proj2 (Nat.eqb_neq i a) H1), (proj2 (Nat.eqb_neq i b) H2). reflexivity. }
  assert (Fu1 : fuel_of h1 = fuel_of h) by reflexivity.
  destruct (set_parents_from ka h1 None (Some a) b (fuel_of h1)) as (h2 & E2 & [M2a M2b] & Rka2 & F2).
  { eapply rep_l_frame; [exact Rka|]. intros i Hi. apply C1o; intros ->; contradiction. }
  { exact NDka. }
  { rewrite Fu1. pose proof (length_le_fsize ka). lia. }
  rewrite E2. cbn [rbind].
  destruct (set_parents_from kb h2 None (Some b) a (fuel_of h2)) as (h3 & E3 & [M3a M3b] & Rkb3 & F3).
  { eapply rep_l_frame; [exact Rkb'|]. intros i Hi. rewrite F2 by (intros K; exact (Dkk _ K Hi)).
    apply C1o; intros ->; contradiction. }
  { exact NDkb. }
  { unfold fuel_of. rewrite M2a. change (S (S (nextid h1))) with (fuel_of h). pose proof (length_le_fsize kb). lia. }
  rewrite E3. cbn [rbind].
  set (c' := cells h3).
  assert (Co : forall i, ~ In i (ids_f ka) -> ~ In i (ids_f kb) -> c' i = cells h1 i).
  { intros i H1 H2. unfold c'. rewrite F3 by exact H2. apply F2. exact H1. }
  assert (Rka3 : rep_l c' (Some b) None ka None).
  { eapply rep_l_frame; [exact Rka2|]. intros i Hi. unfold c'. apply F3. intros K. exact (Dkk _ Hi K). }
  assert (Ca' : c' a = Some (set_kid (hid kb) nda)) by (rewrite Co by assumption; rewrite C1, Nat.eqb_refl; reflexivity).
  assert (Cb' : c' b = Some (set_kid (hid ka) ndb)).
  { rewrite Co by assumption. rewrite C1, (proj2 (Nat.eqb_neq b a)) by congruence. rewrite Nat.eqb_refl. reflexivity. }
  (* graft kb under a *)
  assert (R2' : rep_st (mask (mask c' b) a) s2).
  { eapply rep_st_frame; [exact R2|]. intros i Hi.
    assert (N1 : ~ In i (ids_f ka)).
    { intros K. apply (Dja i); [|exact K]. eapply Permutation_in; [symmetry; exact Pb|]. apply in_or_app. auto. }
    assert (N2 : ~ In i (ids_f kb)) by (intros K; exact (Djb _ Hi K)).
    unfold mask. destruct (Nat.eqb_spec i a) as [->|Nia].
    - rewrite (proj2 (Nat.eqb_neq a b) Nab). rewrite Ca', Hnda. reflexivity.
    - destruct (Nat.eqb_spec i b) as [->|Nib].
      + rewrite Cb', Hndb. reflexivity.
      + rewrite Co by assumption. apply C1o; assumption. }
  destruct (graft_rep (mask c' b) s2 a kb R2') as (s3 & G3 & R3 & P3 & Ha3).
  { rewrite (mask_other _ _ _ Nab), Ca'. eexists. split; [reflexivity|]. destruct nda; reflexivity. }
  { apply (rep_l_mask c' b); assumption. }
  { exact Ha2. }
  { exact NDb. }
  rewrite G3.
  (* graft ka under b *)
  assert (Hb3 : In b (ids_st s3)) by (eapply Permutation_in; [symmetry; exact P3|]; apply in_or_app; auto).
  destruct (graft_rep c' s3 b ka R3) as (s4 & G4 & R4 & P4 & _).
  { rewrite Cb'. eexists. split; [reflexivity|]. destruct ndb; reflexivity. }
  { exact Rka3. }
  { exact Hb3. }
  { eapply Permutation_NoDup; [|exact NDa]. rewrite P3. symmetry.
    rewrite Pb. reflexivity. }
  rewrite G4. cbn [fst snd]. exists h3. split; [reflexivity|].
  apply (inv_relink h s h3 s4 I).
  - split; [rewrite M3a, M2a|rewrite M3b, M2b]; reflexivity.
  - exact R4.
  - rewrite P4, P3, Pa, Pb. reflexivity.
  - intros i Hi. fold c'. 
    assert (N0 : forall j, In j (ids_st s2 ++ ids_f kb ++ ids_f ka) -> i <> j).
    { intros j Hj ->. apply Hi. eapply Permutation_in; [symmetry; exact Pa|].
      apply in_app_or in Hj. apply in_or_app. destruct Hj as [Hj|Hj].
      - left. eapply Permutation_in; [symmetry; exact Pb|]. apply in_or_app. auto.
      - apply in_app_or in Hj. destruct Hj as [Hj|Hj]; [left|right; exact Hj].
        eapply Permutation_in; [symmetry; exact Pb|]. apply in_or_app. auto. }
    rewrite Co.
    + apply C1o; apply N0; apply in_or_app; left; assumption.
    + intros K. apply (N0 i); [|reflexivity]. apply in_or_app. right. apply in_or_app. auto.
    + intros K. apply (N0 i); [|reflexivity]. apply in_or_app. right. apply in_or_app. auto.
Qed.
