(* C14/NodeFind.v — mpt_node_next and mpt_node_find return the node the forest
   specification names (read-only operations). *)
From Coq Require Import List Arith ZArith Bool Lia Permutation Wf_nat.
From MptV Require Import C14.NodeModel C14.NodeSpec C14.NodeRep C14.NodeFocus C14.NodeExec
  C14.NodeLocal C14.NodeInv C14.NodeRefine C14.NodeFree C14.NodeClone C14.NodePos C14.NodeMatch
  C14.NodeInsert C14.NodeInsertName.
Import ListNotations.
Local Open Scope nat_scope.

Lemma nth_error_nil' {A} n : nth_error (@nil A) n = None.
Proof. destruct n; reflexivity. Qed.

Lemma node_next_spec h nm : forall l par prv fuel,
  rep_l (cells h) par prv l None -> length l < fuel ->
  node_next fuel h (hid l) nm =
  ROk (if nm =? 0 then None else option_map tid (find (fun t => tname t =? nm) l)).
Proof.
  induction l as [|[i n v k] r IH]; intros par prv fuel R Hf.
  - destruct fuel; cbn; destruct (nm =? 0); reflexivity.
  - destruct fuel as [|fuel]; [cbn in Hf; lia|]. cbn [hid tid node_next].
    rewrite rep_l_cons, rep_t_eq in R. destruct R as ((Hi & _) & Hr).
    rewrite (get_ok _ _ _ Hi). cbn [rbind nname nnext find tname].
    destruct (nm =? 0) eqn:E0; cbn [negb andb].
    + rewrite <- hid_hid_or. rewrite (IH par (Some i) fuel Hr) by (cbn in Hf; lia). rewrite ?E0. reflexivity.
    + destruct (n =? nm); [reflexivity|].
      rewrite <- hid_hid_or. rewrite (IH par (Some i) fuel Hr) by (cbn in Hf; lia). rewrite ?E0. reflexivity.
Qed.

Lemma focus_len h s x frs o l1 tx l2 :
  inv h s -> focus x (lists s) = Some ((frs, o), l1, tx, l2) ->
  length (l1 ++ tx :: l2) + length (ids_f (tkids tx)) <= nextid h.
Proof.
  intros I F. destruct (focus_perm _ _ _ _ _ _ _ F) as [P _].
  pose proof (inv_length _ _ I) as L.
  rewrite (Permutation_length (ids_st_perm _ _ P)), (Permutation_length (ids_plug _ _ _)), !app_length in L.
  pose proof (length_le_ids l1). pose proof (length_le_ids l2).
  rewrite ids_f_app, ids_f_cons, app_length in L. destruct tx as [i n v k]. rewrite ids_t_eq, app_length in L.
  cbn [length tkids] in *. rewrite app_length. cbn [length]. lia.
Qed.

Lemma step_next x nm : refines_step (ONext x nm).
Proof.
  intros h s I. cbn [mstep sstep]. rewrite (live_iff _ _ _ I).
  destruct (focus x (lists s)) as [[[[[frs o] l1] tx] l2]|] eqn:FX.
  2:{ assert (Sl : slive s x = false).
      { destruct (slive s x) eqn:Sl; [|reflexivity]. apply mem_in in Sl. exfalso. exact (focus_st_none _ _ _ FX Sl). }
      rewrite Sl. cbn [fst snd]. eexists; split; [reflexivity|exact I]. }
  assert (Sl : slive s x = true) by (apply mem_in; eapply focus_in; exact FX).
  rewrite Sl. cbn [fst snd].
  destruct (focus_cell _ _ _ _ _ _ _ _ (i_rep _ _ I) FX) as [_ R].
  destruct (focus_perm _ _ _ _ _ _ _ FX) as [_ Ex].
  rewrite rep_plug in R. destruct R as (Rl & _ & _). rewrite rep_l_app in Rl. destruct Rl as [_ Rl].
  pose proof (focus_len _ _ _ _ _ _ _ _ I FX) as Len. rewrite app_length in Len.
  pose proof (node_next_spec h nm (tx :: l2) _ _ (fuel_of h) Rl) as E.
  cbn [hid] in E. rewrite Ex in E. rewrite E by (unfold fuel_of; cbn [length] in *; lia).
  cbn [rbind]. exists h. split; [reflexivity|exact I].
Qed.

Lemma idx_id_nth k o : idx_id k o = match o with Some i => option_map tid (nth_error k i) | None => None end.
Proof. destruct o; reflexivity. Qed.

Lemma step_find p nm pos : refines_step (OFind p nm pos).
Proof.
  intros h s I. cbn [mstep sstep]. rewrite (live_iff _ _ _ I).
  destruct (focus p (lists s)) as [[[[[frs o] l1] tp] l2]|] eqn:FP.
  2:{ assert (Sl : slive s p = false).
      { destruct (slive s p) eqn:Sl; [|reflexivity]. apply mem_in in Sl. exfalso. exact (focus_st_none _ _ _ FP Sl). }
      rewrite Sl. cbn [fst snd]. eexists; split; [reflexivity|exact I]. }
  assert (Sl : slive s p = true) by (apply mem_in; eapply focus_in; exact FP).
  rewrite Sl. cbn [fst snd].
  destruct (focus_cell _ _ _ _ _ _ _ _ (i_rep _ _ I) FP) as [Hc R].
  pose proof (focus_len _ _ _ _ _ _ _ _ I FP) as Len.
  destruct tp as [p' n v k]. cbn [tid tname tval tkids] in *.
  rewrite rep_plug in R. destruct R as (Rl & _ & _). rewrite rep_l_mid in Rl. destruct Rl as (_ & _ & Rk & _).
  unfold node_find. rewrite (fld_ok _ _ _ _ Hc). cbn [rbind nkid].
  assert (Fin : forall r : ptr, (do r0 <- ROk r; ROk (h, OutP r0)) = ROk (h, OutP r)) by reflexivity.
  destruct k as [|tf r] eqn:Ek.
  { cbn [hid rbind]. exists h. split; [|exact I]. f_equal. f_equal. f_equal.
    destruct (nm =? 0); cbn [matches]; destruct (pos =? 0)%Z; [reflexivity| |reflexivity|];
      destruct (0 <? pos)%Z; cbn [rev]; rewrite ?nth_error_nil'; reflexivity. }
  rewrite <- Ek in *. assert (Hh : hid k = Some (tid tf)) by (rewrite Ek; reflexivity). rewrite Hh.
  destruct (nm =? 0) eqn:E0.
  { cbn [rbind]. exists h. split; [|exact I]. f_equal. f_equal. f_equal.
    destruct (pos =? 0)%Z; [reflexivity|]. destruct (0 <? pos)%Z; cbn [rev]; rewrite ?nth_error_nil'; reflexivity. }
  assert (Hfu : length k + 1 <= fuel_of h).
  { pose proof (length_le_ids k). unfold fuel_of. lia. }
  set (ms := matches nm 0 k).
  destruct (Z.eqb_spec pos 0) as [->|Np0].
  - change (0 <=? 0)%Z with true. cbn iota.
    rewrite (loc_last h (Some p') k nm (fuel_of h) Rk Hfu tf r Ek). fold ms. rewrite idx_id_nth.
    cbn [rbind]. exists h. split; [reflexivity|exact I].
  - destruct (Z.ltb_spec 0 pos) as [Hp|Hp].
    + rewrite (proj2 (Z.leb_le 0 pos)) by lia.
      rewrite (locate_pos _ _ (tid tf)) by lia.
      assert (E0' : nth_error k 0 = Some tf) by (rewrite Ek; reflexivity).
      rewrite (loc_fwd_spec h (Some p') None k nm Rk (fuel_of h) 0 tf (Z.to_nat pos) E0') by lia.
      cbn [skipn]. rewrite fwd_matches by lia. fold ms. rewrite idx_id_nth.
      cbn [rbind]. exists h. split; [reflexivity|exact I].
    + rewrite (proj2 (Z.leb_gt 0 pos)) by lia.
      rewrite (loc_last h (Some p') k nm (fuel_of h) Rk Hfu tf r Ek). fold ms. cbn [rbind].
      destruct ms as [|m0 ms'] eqn:Ems.
      * cbn [idx_id rbind rev]. rewrite nth_error_nil'. exists h. split; [reflexivity|exact I].
      * rewrite <- Ems in *. assert (Hms : ms <> []) by (rewrite Ems; discriminate).
        set (lm := last ms 0).
        assert (Hlm : lm < length k).
        { assert (Hin : In lm (matches nm 0 k)).
          { fold ms. destruct (exists_last Hms) as (a & y & Ea). unfold lm. rewrite Ea, last_last.
            apply in_or_app. right. left. reflexivity. }
          destruct (matches_bounds _ _ _ _ Hin) as ((_ & B) & _). lia. }
        destruct (nth_id_some k lm Hlm) as (tlm & Elm & Eilm).
        change (match ms with [] => None | _ :: _ => Some (last ms 0) end) with (Some lm) || idtac.
        assert (Eid : idx_id k (match ms with [] => None | _ :: _ => Some (last ms 0) end) = Some (tid tlm)).
        { rewrite Ems. rewrite <- Ems. cbn [idx_id]. exact Eilm. }
        rewrite Ems in Eid |- *. rewrite <- Ems in Eid |- *.
        match goal with |- context [idx_id k ?o] => replace (idx_id k o) with (Some (tid tlm)) by (symmetry; exact Eid) end.
        rewrite (locate_neg _ _ (tid tlm)) by lia.
        pose proof (loc_kback h (Some p') k nm (fuel_of h) Rk Hfu tlm (Z.to_nat (- pos))) as LB. fold ms in LB. fold lm in LB.
        rewrite (LB Hms Elm) by lia. rewrite idx_id_nth.
        cbn [rbind]. exists h. split; [reflexivity|exact I].
Qed.

(* ---------------------------------------------------------------- mpt_node_locate from any node of a list *)
Lemma firstn_app_len {A} (a b : list A) : firstn (length a) (a ++ b) = a.
Proof. rewrite firstn_app, Nat.sub_diag, firstn_all. cbn. apply app_nil_r. Qed.
Lemma skipn_app_len {A} (a b : list A) : skipn (length a) (a ++ b) = b.
Proof. rewrite skipn_app, Nat.sub_diag, skipn_all. reflexivity. Qed.
Lemma nth_error_app_len {A} (a : list A) x b : nth_error (a ++ x :: b) (length a) = Some x.
Proof. rewrite nth_error_app2, Nat.sub_diag by lia. reflexivity. Qed.

(* locate(any node, 0): the last match of the whole list *)
Lemma loc_last_from h par l nm fuel j t :
  rep_l (cells h) par None l None -> length l + 1 <= fuel -> nth_error l j = Some t ->
  locate fuel h (Some (tid t)) 0%Z nm =
  ROk (idx_id l (match matches nm 0 l with [] => None | _ :: _ => Some (last (matches nm 0 l) 0) end)).
Proof.
  intros R Hfu E0. set (ms := matches nm 0 l).
  unfold locate. change (0 =? 0)%Z with true. cbn iota.
  assert (Hne : l <> []) by (intros ->; destruct j; discriminate).
  assert (Hj : j < length l) by (apply nth_error_Some; congruence).
  destruct (last_of_spec h par None l R fuel j t E0) as (tl & Etl & Ell); [lia|].
  rewrite Ell. cbn [rbind].
  rewrite (get_ok _ _ _ (cell_at _ _ _ _ _ _ _ R Etl)). cbn [rbind nname].
  destruct (Nat.eqb_spec (tname tl) nm) as [En|En].
  - destruct (matches_last_elem nm l tl Etl En Hne) as [E1 E2]. fold ms in E1, E2.
    destruct ms as [|m0 ms'] eqn:Ems; [contradiction|]. rewrite <- Ems in *. rewrite E1.
    cbn [idx_id]. unfold nth_id. rewrite Etl. reflexivity.
  - assert (Hl : length l - 1 < length l) by lia.
    rewrite (loc_back_spec h par l None nm R fuel (length l - 1) tl 1 Etl) by lia.
    pose proof (back_matches nm (firstn (length l - 1) l) 1 ltac:(lia)) as B.
    rewrite firstn_length, Nat.min_l in B by lia. rewrite B.
    rewrite <- (matches_last_nomatch nm l tl Etl En Hne). fold ms.
    change (1 - 1) with 0. rewrite (hd_rev_last ms 0). reflexivity.
Qed.

Lemma step_locate x pos q : refines_step (OLocate x pos q).
Proof.
  intros h s I. cbn [mstep sstep]. rewrite (live_iff _ _ _ I).
  destruct (focus x (lists s)) as [[[[[frs o] l1] tx] l2]|] eqn:FX.
  2:{ assert (Sl : slive s x = false).
      { destruct (slive s x) eqn:Sl; [|reflexivity]. apply mem_in in Sl. exfalso. exact (focus_st_none _ _ _ FX Sl). }
      rewrite Sl. cbn [fst snd]. eexists; split; [reflexivity|exact I]. }
  assert (Sl : slive s x = true) by (apply mem_in; eapply focus_in; exact FX).
  rewrite Sl. cbn [fst snd].
  destruct q as [nm|]; [|exists h; split; [reflexivity|exact I]].
  destruct (focus_cell _ _ _ _ _ _ _ _ (i_rep _ _ I) FX) as [_ R].
  destruct (focus_perm _ _ _ _ _ _ _ FX) as [_ Ex].
  rewrite rep_plug in R. destruct R as (Rl & _ & _).
  pose proof (focus_len _ _ _ _ _ _ _ _ I FX) as Len.
  set (l := l1 ++ tx :: l2) in *.
  assert (Ej : nth_error l (length l1) = Some tx) by apply nth_error_app_len.
  assert (Hfu : length l + 1 <= fuel_of h) by (unfold fuel_of; lia).
  rewrite <- Ex.
  assert (Goal : locate (fuel_of h) h (Some (tid tx)) pos nm = ROk (idx_id l (locate_index l1 tx l2 nm pos))).
  { unfold locate_index. destruct (Z.eqb_spec pos 0) as [->|Np0].
    - rewrite (loc_last_from h (cpar frs) l nm (fuel_of h) (length l1) tx Rl Hfu Ej). fold l.
      destruct (matches nm 0 l); reflexivity.
    - destruct (Z.ltb_spec 0 pos) as [Hp|Hp].
      + rewrite locate_pos by lia.
        rewrite (loc_fwd_spec h (cpar frs) None l nm Rl (fuel_of h) (length l1) tx (Z.to_nat pos) Ej) by lia.
        unfold l. rewrite skipn_app_len. rewrite fwd_matches by lia. reflexivity.
      + rewrite locate_neg by lia.
        assert (Hl1 : length l1 < length l) by (unfold l; rewrite app_length; cbn [length]; lia).
        rewrite (loc_back_spec h (cpar frs) l None nm Rl (fuel_of h) (length l1) tx (Z.to_nat (- pos)) Ej) by lia.
        unfold l. rewrite firstn_app_len. rewrite back_matches by lia. reflexivity. }
  rewrite Goal. cbn [rbind]. exists h. split; [|exact I].
  destruct (locate_index l1 tx l2 nm pos); reflexivity.
Qed.

(* ---------------------------------------------------------------- entry points called with a NULL node *)
Lemma step_null c : refines_step (ONull c).
Proof.
  intros h s I. cbn [mstep sstep]. unfold mnull, snull.
  destruct c; try rewrite (live_iff _ _ _ I);
    try (match goal with |- context [slive s ?y] => destruct (slive s y) end);
    cbn [fst snd]; exists h; (split; [|exact I]);
    try reflexivity; try (unfold fuel_of; reflexivity); try (destruct up; reflexivity).
Qed.
