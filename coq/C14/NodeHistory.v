(* C14/NodeHistory.v — lifting the per-operation refinement to all histories, and the
   consequences stated as properties (well-formedness, release exactly once, clone). *)
From Coq Require Import List Arith ZArith Bool Lia Permutation Wf_nat.
From MptV Require Import C14.NodeModel C14.NodeSpec C14.NodeRep C14.NodeFocus C14.NodeExec
  C14.NodeLocal C14.NodeInv C14.NodeRefine C14.NodeFree C14.NodeClone C14.NodeInsert C14.NodeInsertName
  C14.NodeWalk C14.NodeEnd C14.NodeMove C14.NodeMoveStep C14.NodeSwap C14.NodeSwitch C14.NodeFind.
Import ListNotations.
Local Open Scope nat_scope.

(* every operation of the history language refines its forest specification *)
Lemma step_all o : refines_step o.
Proof.
  destruct o.
  - apply step_new.
  - apply step_after.
  - apply step_before.
  - destruct byname; [apply step_nadd|apply step_gadd].
  - destruct byname; [apply step_nins|apply step_gins].
  - apply step_unlink.
  - apply step_move.
  - apply step_lmove.
  - apply step_clone.
  - apply step_lclone.
  - apply step_tclone.
  - apply step_clear.
  - apply step_destroy.
  - apply step_swap.
  - apply step_switch.
  - apply step_relink.
  - apply step_trav.
  - apply step_find.
  - apply step_next.
  - apply step_end.
Qed.

(* model trace and specification trace agree step by step: no fault, same result,
   and after every step the heap represents the specification's forest *)
Fixpoint run_rel (m : list (option (out * heap))) (sp : list (out * sstate)) : Prop :=
  match m, sp with
  | [], [] => True
  | Some (o, h) :: m', (o', s) :: sp' => o = o' /\ inv h s /\ run_rel m' sp'
  | _, _ => False
  end.

Lemma history_refines : forall ops h s, inv h s -> run_rel (mrun h ops) (srun s ops).
Proof.
  induction ops as [|o ops IH]; intros h s I; [exact Logic.I|].
  destruct (step_all o h s I) as (h' & E & I').
  cbn [mrun srun]. rewrite E. destruct (sstep s o) as [s' out]. cbn [fst snd] in *.
  cbn [run_rel]. split; [reflexivity|]. split; [exact I'|]. apply IH; assumption.
Qed.

Lemma inv_empty : inv empty_heap empty_sstate.
Proof.
  constructor; cbn; try reflexivity.
  - apply rep_st_nil.
  - intros i H. contradiction.
Qed.

(* well-formedness: the links of the heap are exactly those of some forest *)
Definition wf (h : heap) : Prop := exists s, inv h s.

Lemma wf_step o h : wf h -> exists h' out, mstep h o = ROk (h', out) /\ wf h'.
Proof.
  intros [s I]. destruct (step_all o h s I) as (h' & E & I').
  exists h', (snd (sstep s o)). split; [exact E|]. exists (fst (sstep s o)). exact I'.
Qed.

(* clone: the new top-level list has the shape of the source at every depth, and
   (because [inv] holds afterwards) its links, parent links included, are those of
   that forest *)
Lemma clone_shape h s x c l1 tx l2 :
  inv h s -> focus x (lists s) = Some (c, l1, tx, l2) ->
  exists h' l',
    mstep h (OLClone x) = ROk (h', OutP (Some (nextid h))) /\
    inv h' (mkS (lists s ++ [l']) (nextid h') (sfreed s)) /\
    shape_l l' = shape_l (tx :: l2) /\
    (forall i, i < nextid h -> cells h' i = cells h i).
Proof.
  intros I F. destruct (step_lclone x h s I) as (h' & E & I').
  cbn [sstep] in E, I'. rewrite F in E, I'.
  pose proof (renum_shape (tx :: l2) (scount s)) as Sh.
  destruct (renum_l (tx :: l2) (scount s)) as [l' c'] eqn:Er. cbn [fst snd] in *.
  exists h', l'. rewrite (i_cnt _ _ I). split; [exact E|].
  rewrite (i_cnt _ _ I'). cbn [scount]. split; [exact I'|]. split; [exact Sh|].
  intros i Hi. pose proof (i_rep _ _ I') as R. cbn [lists] in R.
  (* old cells: both heaps represent the old lists on the same ids *)
  destruct (in_dec Nat.eq_dec i (ids_st (lists s))) as [K|K].
  - rewrite rep_st_app in R. destruct R as [R _].
    destruct (rep_cell_some _ _ _ (i_rep _ _ I) K) as (nd & Hnd).
    unfold rep_st, repc in R. rewrite Forall_forall in R.
    pose proof (i_rep _ _ I) as R0. unfold rep_st, repc in R0. rewrite Forall_forall in R0.
    rewrite <- keys_exp_st in K. apply in_map_iff in K. destruct K as ([j nd'] & Ej & Hin). cbn in Ej. subst j.
    pose proof (R _ Hin) as E1. pose proof (R0 _ Hin) as E2. cbn [fst snd] in E1, E2.
    rewrite E1, E2. reflexivity.
  - assert (C0 : cells h i = None).
    { destruct (cells h i) eqn:C; [|reflexivity]. exfalso. apply K. apply (i_dom _ _ I). rewrite C. discriminate. }
    rewrite C0. destruct (cells h' i) eqn:C; [|reflexivity]. exfalso.
    assert (K' : In i (ids_st (lists s ++ [l']))) by (apply (i_dom _ _ I'); rewrite C; discriminate).
    rewrite ids_st_app in K'. apply in_app_or in K'. destruct K' as [K'|K']; [contradiction|].
    cbn [ids_st flat_map] in K'. rewrite app_nil_r in K'.
    pose proof (renum_l_spec (tx :: l2) (scount s)) as [Ids _]. rewrite Er in Ids. cbn [fst] in Ids.
    rewrite Ids in K'. apply in_seq in K'. lia.
Qed.
