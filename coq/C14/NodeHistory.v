(* C14/NodeHistory.v — lifting the per-operation refinement to all histories, and the
   consequences stated as properties (well-formedness, release exactly once, clone). *)
From Coq Require Import List Arith ZArith Bool Lia Permutation Wf_nat.
From MptV Require Import C14.NodeModel C14.NodeSpec C14.NodeRep C14.NodeFocus C14.NodeExec
  C14.NodeLocal C14.NodeInv C14.NodeRefine C14.NodeFree C14.NodeClone C14.NodeInsert C14.NodeInsertName
  C14.NodeWalk C14.NodeEnd C14.NodeMove C14.NodeMoveStep C14.NodeSwap C14.NodeSwitch C14.NodeFind C14.NodeLevel.
Import ListNotations.
Local Open Scope nat_scope.

(* every operation of the history language refines its forest specification *)
Lemma step_all o : refines_step o.
Proof.
  destruct o.
  - apply step_new.
  - apply step_after.
  - apply step_before.
  - destruct byname; [apply step_nadd|apply step_gadd].
  - destruct byname; [apply step_nins|apply step_gins].
  - apply step_unlink.
  - apply step_move.
  - apply step_lmove.
  - apply step_clone.
  - apply step_lclone.
  - apply step_tclone.
  - apply step_clear.
  - apply step_destroy.
  - apply step_swap.
  - apply step_switch.
  - apply step_relink.
  - apply step_trav.
  - apply step_find.
  - apply step_next.
  - apply step_locate.
  - apply step_walk.
  - apply step_null.
  - apply step_end.
Qed.

(* model trace and specification trace agree step by step: no fault, same result,
   and after every step the heap represents the specification's forest *)
Fixpoint run_rel (m : list (option (out * heap))) (sp : list (out * sstate)) : Prop :=
  match m, sp with
  | [], [] => True
  | Some (o, h) :: m', (o', s) :: sp' => o = o' /\ inv h s /\ run_rel m' sp'
  | _, _ => False
  end.

Lemma history_refines : forall ops h s, inv h s -> run_rel (mrun h ops) (srun s ops).
Proof.
  induction ops as [|o ops IH]; intros h s I; [exact Logic.I|].
  destruct (step_all o h s I) as (h' & E & I').
  cbn [mrun srun]. rewrite E. destruct (sstep s o) as [s' out]. cbn [fst snd] in *.
  cbn [run_rel]. split; [reflexivity|]. split; [exact I'|]. apply IH; assumption.
Qed.

Lemma inv_empty : inv empty_heap empty_sstate.
Proof.
  constructor; cbn; try reflexivity.
  - apply rep_st_nil.
  - intros i H. contradiction.
Qed.

(* well-formedness: the links of the heap are exactly those of some forest *)
Definition wf (h : heap) : Prop := exists s, inv h s.

Lemma wf_step o h : wf h -> exists h' out, mstep h o = ROk (h', out) /\ wf h'.
Proof.
  intros [s I]. destruct (step_all o h s I) as (h' & E & I').
  exists h', (snd (sstep s o)). split; [exact E|]. exists (fst (sstep s o)). exact I'.
Qed.

(* clone: whatever fails on the way (a value that cannot be cloned, the k-th allocation),
   mpt_list_clone either delivers a new top-level list with the shape of the source at
   every depth (and, because [inv] holds afterwards, with the links, parent links
   included, of that forest), or it delivers nothing and the forest is as before: what
   it had built is freed again, once each.  No existing cell is changed either way. *)
Lemma old_cells_kept h s h' s' :
  inv h s -> inv h' s' ->
  (forall i, In i (ids_st (lists s)) -> In i (ids_st (lists s'))) ->
  (forall i, In i (ids_st (lists s')) -> In i (ids_st (lists s)) \/ nextid h <= i) ->
  (exists rest, lists s' = lists s ++ rest) ->
  forall i, i < nextid h -> cells h' i = cells h i.
Proof.
  intros I I' Sub Sup (rest & El) i Hi.
  destruct (in_dec Nat.eq_dec i (ids_st (lists s))) as [K|K].
  - pose proof (i_rep _ _ I') as R'. rewrite El, rep_st_app in R'. destruct R' as [R' _].
    exact (rep_agree _ _ _ _ R' (i_rep _ _ I) K).
  - assert (C0 : cells h i = None).
    { destruct (cells h i) eqn:C; [|reflexivity]. exfalso. apply K. apply (i_dom _ _ I). rewrite C. discriminate. }
    rewrite C0. destruct (cells h' i) eqn:C; [|reflexivity]. exfalso.
    assert (K' : In i (ids_st (lists s'))) by (apply (i_dom _ _ I'); rewrite C; discriminate).
    destruct (Sup i K') as [K''|K'']; [contradiction|lia].
Qed.

Lemma clone_shape h s x c l1 tx l2 k :
  inv h s -> focus x (lists s) = Some (c, l1, tx, l2) ->
  exists h',
    (forall i, i < nextid h -> cells h' i = cells h i) /\
    ((exists l',
        mstep h (OLClone x k) = ROk (h', OutP (Some (nextid h))) /\
        inv h' (mkS (lists s ++ [l']) (nextid h') (sfreed s)) /\
        shape_l l' = shape_l (tx :: l2))
     \/
     (mstep h (OLClone x k) = ROk (h', OutP None) /\
      inv h' (mkS (lists s) (nextid h') (seq (nextid h) (nextid h' - nextid h) ++ sfreed s)))).
Proof.
  intros I F. destruct (step_lclone x k h s I) as (h' & E & I').
  cbn [sstep] in E, I'. rewrite F in E, I'.
  pose proof (sclone_l_spec (tx :: l2) (scount s) k) as Sp.
  destruct (sclone_l (tx :: l2) (scount s) k) as [[[l'|] c'] k'] eqn:Er; cbn [clone_result fst snd] in *.
  - destruct Sp as (Ids & Cn & Sh). exists h'. split.
    + eapply old_cells_kept; [exact I|exact I'| | |]; cbn [lists].
      * intros i Hi. rewrite ids_st_app. apply in_or_app. auto.
      * intros i Hi. rewrite ids_st_app in Hi. apply in_app_or in Hi. destruct Hi as [Hi|Hi]; [auto|right].
        cbn [ids_st flat_map] in Hi. rewrite app_nil_r, Ids in Hi. apply in_seq in Hi. rewrite (i_cnt _ _ I). lia.
      * eauto.
    + left. exists l'. rewrite (i_cnt _ _ I). split; [exact E|]. rewrite (i_cnt _ _ I'). cbn [scount].
      split; [exact I'|exact Sh].
  - exists h'. split.
    + eapply old_cells_kept; [exact I|exact I'| | |]; cbn [lists]; auto. exists []. rewrite app_nil_r. reflexivity.
    + right. split; [exact E|]. rewrite (i_cnt _ _ I'), (i_cnt _ _ I). cbn [scount]. exact I'.
Qed.

(* ... and it does deliver when nothing fails: no allocation failure, every value clonable *)
Lemma clone_succeeds h s x c l1 tx l2 :
  inv h s -> focus x (lists s) = Some (c, l1, tx, l2) -> forallb clonable_t (tx :: l2) = true ->
  exists h', mstep h (OLClone x 0) = ROk (h', OutP (Some (nextid h))).
Proof.
  intros I F Hc. destruct (step_lclone x 0 h s I) as (h' & E & _).
  cbn [sstep] in E. rewrite F in E.
  destruct (sclone_l_ok (tx :: l2) (scount s) Hc) as (l' & c' & Es). rewrite Es in E.
  cbn [clone_result snd] in E. exists h'. rewrite (i_cnt _ _ I). exact E.
Qed.
