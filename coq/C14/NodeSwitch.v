(* C14/NodeSwitch.v — mpt_gnode_switch lets two nodes that are not ancestor-related
   change places, each with everything below it. *)
From Coq Require Import List Arith ZArith Bool Lia Permutation Wf_nat.
From MptV Require Import C14.NodeModel C14.NodeSpec C14.NodeRep C14.NodeFocus C14.NodeExec
  C14.NodeLocal C14.NodeInv C14.NodeRefine C14.NodeFree C14.NodeClone C14.NodeWalk C14.NodeCut
  C14.NodeSwap C14.NodeLinks C14.NodeExch.
Import ListNotations.
Local Open Scope nat_scope.

(* ---------------------------------------------------------------- node_attach (switch_fix) *)
(* what node_attach(x) does to the cell [ci] of node [i], given the cell [nx] of x *)
Definition ptf (x : nat) (nx : node) (i : nat) (ci : node) : node :=
  mkN (if peq (Some i) (nprev nx) then Some x else nnext ci)
      (if peq (Some i) (nnext nx) then Some x else nprev ci)
      (npar ci)
      (if (match nprev nx with None => true | Some _ => false end) && peq (Some i) (npar nx)
       then Some x else nkid ci)
      (nname ci) (nval ci).

Lemma node_eta n : n = mkN (nnext n) (nprev n) (npar n) (nkid n) (nname n) (nval n).
Proof. destruct n; reflexivity. Qed.

Lemma pt_spec h x nx :
  cells h x = Some nx ->
  nnext nx <> Some x -> nprev nx <> Some x -> npar nx <> Some x ->
  (forall q, nnext nx = Some q -> cells h q <> None) ->
  (forall q, nprev nx = Some q -> cells h q <> None) ->
  (forall q, npar nx = Some q -> cells h q <> None) ->
  exists h', switch_fix h x = ROk h' /\ same_meta h h' /\
    forall i, cells h' i = option_map (ptf x nx i) (cells h i).
Proof.
  intros Hx N1 N2 N3 L1 L2 L3. unfold switch_fix.
  rewrite (fld_ok _ _ _ _ Hx). cbn [rbind].
  (* first write *)
  assert (S1 : exists h1, (match nnext nx with Some q => wr set_prev h q (Some x) | None => ROk h end) = ROk h1 /\
                same_meta h h1 /\ cells h1 x = Some nx /\
                forall i, cells h1 i = option_map (fun ci => if peq (Some i) (nnext nx) then set_prev (Some x) ci else ci) (cells h i)).
  { destruct (nnext nx) as [q|] eqn:E.
    - destruct (cells h q) as [nq|] eqn:Hq; [|exfalso; exact (L1 q eq_refl Hq)].
      rewrite (wr_ok _ _ _ _ _ Hq). eexists. split; [reflexivity|]. split; [split; reflexivity|]. split.
      + rewrite cells_put. destruct (Nat.eqb_spec x q) as [->|]; [congruence|exact Hx].
      + intros i. rewrite cells_put. cbn [peq]. destruct (Nat.eqb_spec i q) as [->|].
        * rewrite Hq. reflexivity.
        * destruct (cells h i); reflexivity.
    - exists h. split; [reflexivity|]. split; [split; reflexivity|]. split; [exact Hx|].
      intros i. cbn [peq]. destruct (cells h i); reflexivity. }
  destruct S1 as (h1 & E1 & [M1a M1b] & Hx1 & C1). rewrite E1. cbn [rbind].
  rewrite (fld_ok _ _ _ _ Hx1). cbn [rbind].
  assert (Lv : forall q, cells h q <> None -> cells h1 q <> None).
  { intros q Hq. rewrite C1. destruct (cells h q); [discriminate|contradiction]. }
  destruct (nprev nx) as [q|] eqn:E2.
  - destruct (cells h1 q) as [nq|] eqn:Hq; [|exfalso; exact (Lv q (L2 q eq_refl) Hq)].
    rewrite (wr_ok _ _ _ _ _ Hq). eexists. split; [reflexivity|]. split; [split; cbn [nextid freed put]; assumption|].
    intros i. rewrite cells_put. unfold ptf. rewrite E2. cbn [peq andb].
    destruct (Nat.eqb_spec i q) as [->|].
    + rewrite C1 in Hq. destruct (cells h q) as [cq|]; [|discriminate]. cbn [option_map] in *.
      inversion Hq as [Enq]. clear Hq. f_equal. rewrite ?Nat.eqb_refl.
      destruct (nnext nx) as [y|]; cbn [peq]; [destruct (q =? y)|]; destruct cq; reflexivity.
    + rewrite C1. destruct (cells h i) as [ci|]; [|reflexivity]. cbn [option_map]. f_equal.
      destruct (nnext nx) as [y|]; cbn [peq]; [destruct (i =? y)|]; destruct ci; reflexivity.
  - rewrite (fld_ok _ _ _ _ Hx1). cbn [rbind].
    destruct (npar nx) as [q|] eqn:E3.
    + destruct (cells h1 q) as [nq|] eqn:Hq; [|exfalso; exact (Lv q (L3 q eq_refl) Hq)].
      rewrite (wr_ok _ _ _ _ _ Hq). eexists. split; [reflexivity|]. split; [split; cbn [nextid freed put]; assumption|].
      intros i. rewrite cells_put. unfold ptf. rewrite E2, E3. cbn [peq andb].
      destruct (Nat.eqb_spec i q) as [->|].
      * rewrite C1 in Hq. destruct (cells h q) as [cq|]; [|discriminate]. cbn [option_map] in *.
        inversion Hq as [Enq]. clear Hq. f_equal. rewrite ?Nat.eqb_refl.
        destruct (nnext nx) as [y|]; cbn [peq]; [destruct (q =? y)|]; destruct cq; reflexivity.
      * rewrite C1. destruct (cells h i) as [ci|]; [|reflexivity]. cbn [option_map]. f_equal.
        destruct (nnext nx) as [y|]; cbn [peq]; [destruct (i =? y)|]; destruct ci; reflexivity.
    + exists h1. split; [reflexivity|]. split; [split; assumption|].
      intros i. unfold ptf. rewrite E2, E3. cbn [peq andb]. rewrite C1.
      destruct (cells h i) as [ci|]; [|reflexivity]. cbn [option_map]. f_equal.
      destruct (nnext nx) as [y|]; cbn [peq]; [destruct (i =? y)|]; destruct ci; reflexivity.
Qed.

(* ---------------------------------------------------------------- the cells after mpt_gnode_switch *)
Definition subp (x : ptr) (a b : nat) : ptr := if peq x (Some a) then Some b else x.

Lemma peq_some_eq x y : peq (Some x) (Some y) = (x =? y).
Proof. reflexivity. Qed.
Lemma peq_true_iff p q : peq p q = true <-> p = q.
Proof.
  destruct p as [x|], q as [y|]; cbn; split; intros H; try discriminate; try reflexivity.
  - apply Nat.eqb_eq in H. congruence.
  - inversion H. apply Nat.eqb_refl.
Qed.
Lemma peq_false_iff p q : peq p q = false <-> p <> q.
Proof.
  split.
  - intros H E. apply peq_true_iff in E. congruence.
  - intros H. destruct (peq p q) eqn:E; [|reflexivity]. apply peq_true_iff in E. contradiction.
Qed.
Lemma peq_sym p q : peq p q = peq q p.
Proof.
  destruct (peq q p) eqn:E.
  - apply peq_true_iff. apply peq_true_iff in E. congruence.
  - apply peq_false_iff. apply peq_false_iff in E. congruence.
Qed.

Section Switch.
  Variables (h : heap) (a b : nat) (A B : node).
  Hypothesis Nab : a <> b.
  Hypothesis HA : cells h a = Some A.
  Hypothesis HB : cells h b = Some B.
  Hypothesis LK : forall i ci, cells h i = Some ci -> links_at (cells h) i ci.
  Hypothesis PAb : npar A <> Some b.
  Hypothesis PBa : npar B <> Some a.

  Let P1 := mkN (subp (nnext B) a b) (subp (nprev B) a b) (npar B) (nkid A) (nname A) (nval A).
  Let S1 := mkN (subp (nnext A) b a) (subp (nprev A) b a) (npar A) (nkid B) (nname B) (nval B).
  Let c1 (i : nat) : option node := if i =? a then Some P1 else if i =? b then Some S1 else cells h i.
  Let S2 := ptf a P1 b S1.

  Lemma switch_cells :
    exists h', gnode_switch h a b = ROk h' /\ same_meta h h' /\
      forall i, cells h' i = option_map (ptf b S2 i) (option_map (ptf a P1 i) (c1 i)).
  Proof.
    unfold gnode_switch. rewrite (proj2 (Nat.eqb_neq a b) Nab).
    rewrite (get_ok _ _ _ HA), (get_ok _ _ _ HB). cbn [rbind].
    unfold wr. run.
    match goal with |- context [switch_fix ?hh a] => set (h1 := hh) end.
    assert (C1 : forall i, cells h1 i = c1 i).
    { intros i. unfold h1, c1, P1, S1, subp. rewrite !cells_put.
      destruct (Nat.eqb_spec i b) as [->|]; [rewrite (proj2 (Nat.eqb_neq b a)) by congruence; reflexivity|].
      destruct (i =? a); reflexivity. }
    assert (Lv1 : forall q, cells h q <> None -> cells h1 q <> None).
    { intros q Hq. rewrite C1. unfold c1. destruct (q =? a); [discriminate|]. destruct (q =? b); [discriminate|exact Hq]. }
    pose proof (LK a A HA) as La. pose proof (LK b B HB) as Lb.
    destruct (lk_self _ _ _ La) as (Sa1 & Sa2 & Sa3 & Sa4). destruct (lk_self _ _ _ Lb) as (Sb1 & Sb2 & Sb3 & Sb4).
    assert (Hsub : forall x u v, x <> Some v -> subp x u v <> Some u).
    { intros x u v Hx. unfold subp. destruct (peq x (Some u)) eqn:E; [|apply peq_false_iff; exact E].
      intros K. inversion K. subst. apply peq_true_iff in E. congruence. }
    assert (Lsub : forall x u v, (forall q, x = Some q -> cells h q <> None) -> cells h v <> None ->
                                 forall q, subp x u v = Some q -> cells h1 q <> None).
    { intros x u v Hx Hv q Eq. apply Lv1. unfold subp in Eq. destruct (peq x (Some u)); [inversion Eq; subst; exact Hv|auto]. }
    assert (LvA : cells h a <> None) by (rewrite HA; discriminate).
    assert (LvB : cells h b <> None) by (rewrite HB; discriminate).
    assert (Lnx : forall (n : node) i, cells h i = Some n -> forall q, nnext n = Some q -> cells h q <> None).
    { intros n i Hn q Eq. destruct (lk_next _ _ _ (LK i n Hn) q Eq) as (m & -> & _). discriminate. }
    assert (Lpv : forall (n : node) i, cells h i = Some n -> forall q, nprev n = Some q -> cells h q <> None).
    { intros n i Hn q Eq. destruct (lk_prev _ _ _ (LK i n Hn) q Eq) as (m & -> & _). discriminate. }
    assert (Lpr : forall (n : node) i, cells h i = Some n -> forall q, npar n = Some q -> cells h q <> None).
    { intros n i Hn q Eq. destruct (lk_par _ _ _ (LK i n Hn) q Eq) as (m & -> & _). discriminate. }
    destruct (pt_spec h1 a P1) as (h2 & E2 & [M2a M2b] & C2).
    { rewrite C1. unfold c1. rewrite Nat.eqb_refl. reflexivity. }
    { unfold P1. cbn [nnext]. apply Hsub. exact Sb1. }
    { unfold P1. cbn [nprev]. apply Hsub. exact Sb2. }
    { unfold P1. cbn [npar]. exact PBa. }
    { unfold P1. cbn [nnext]. apply Lsub; [apply (Lnx B b HB)|exact LvB]. }
    { unfold P1. cbn [nprev]. apply Lsub; [apply (Lpv B b HB)|exact LvB]. }
    { unfold P1. cbn [npar]. intros q Eq. apply Lv1. exact (Lpr B b HB q Eq). }
    rewrite E2. cbn [rbind].
    assert (Lv2 : forall q, cells h1 q <> None -> cells h2 q <> None).
    { intros q Hq. rewrite C2. destruct (cells h1 q); [discriminate|contradiction]. }
    assert (HS2 : cells h2 b = Some S2).
    { rewrite C2, C1. unfold c1. rewrite (proj2 (Nat.eqb_neq b a)) by congruence. rewrite Nat.eqb_refl. reflexivity. }
    (* the fields of sec after node_attach(pri): what they were *)
    assert (S2n : nnext S2 = nnext S1 \/ nnext S2 = Some a).
    { unfold S2, ptf. cbn [nnext]. destruct (peq (Some b) (nprev P1)); auto. }
    assert (S2p : nprev S2 = nprev S1 \/ nprev S2 = Some a).
    { unfold S2, ptf. cbn [nprev]. destruct (peq (Some b) (nnext P1)); auto. }
    assert (S2r : npar S2 = npar A) by reflexivity.
    destruct (pt_spec h2 b S2 HS2) as (h3 & E3 & [M3a M3b] & C3).
    { destruct S2n as [->| ->]; [|congruence]. unfold S1. cbn [nnext]. apply Hsub. exact Sa1. }
    { destruct S2p as [->| ->]; [|congruence]. unfold S1. cbn [nprev]. apply Hsub. exact Sa2. }
    { rewrite S2r. exact PAb. }
    { intros q Eq. apply Lv2. destruct S2n as [E| E]; rewrite E in Eq.
      - unfold S1 in Eq. cbn [nnext] in Eq. revert q Eq. apply Lsub; [apply (Lnx A a HA)|exact LvA].
      - inversion Eq; subst. apply Lv1. exact LvA. }
    { intros q Eq. apply Lv2. destruct S2p as [E| E]; rewrite E in Eq.
      - unfold S1 in Eq. cbn [nprev] in Eq. revert q Eq. apply Lsub; [apply (Lpv A a HA)|exact LvA].
      - inversion Eq; subst. apply Lv1. exact LvA. }
    { rewrite S2r. intros q Eq. apply Lv2, Lv1. exact (Lpr A a HA q Eq). }
    rewrite E3. exists h3. split; [reflexivity|]. split.
    - split; [rewrite M3a, M2a|rewrite M3b, M2b]; reflexivity.
    - intros i. rewrite C3, C2, C1. reflexivity.
  Qed.
  (* ---- the link facts as boolean equations ---- *)
  Lemma lb_next i ci x X : cells h i = Some ci -> cells h x = Some X ->
    peq (nprev ci) (Some x) = peq (Some i) (nnext X).
  Proof.
    intros Hi Hx. apply eq_true_iff_eq. rewrite !peq_true_iff. split; intros E.
    - destruct (lk_prev _ _ _ (LK i ci Hi) x E) as (m & Hm & En & _). rewrite Hx in Hm. inversion Hm; subst. symmetry. exact En.
    - symmetry in E. destruct (lk_next _ _ _ (LK x X Hx) i E) as (m & Hm & En & _). rewrite Hi in Hm. inversion Hm; subst. exact En.
  Qed.
  Lemma lb_prev i ci x X : cells h i = Some ci -> cells h x = Some X ->
    peq (nnext ci) (Some x) = peq (Some i) (nprev X).
  Proof.
    intros Hi Hx. apply eq_true_iff_eq. rewrite !peq_true_iff. split; intros E.
    - destruct (lk_next _ _ _ (LK i ci Hi) x E) as (m & Hm & En & _). rewrite Hx in Hm. inversion Hm; subst. symmetry. exact En.
    - symmetry in E. destruct (lk_prev _ _ _ (LK x X Hx) i E) as (m & Hm & En & _). rewrite Hi in Hm. inversion Hm; subst. exact En.
  Qed.
  Lemma lb_kid i ci x X : cells h i = Some ci -> cells h x = Some X ->
    peq (nkid ci) (Some x) = (match nprev X with None => true | Some _ => false end) && peq (Some i) (npar X).
  Proof.
    intros Hi Hx. apply eq_true_iff_eq. rewrite andb_true_iff, !peq_true_iff. split.
    - intros E. destruct (lk_kid _ _ _ (LK i ci Hi) x E) as (m & Hm & Ep & Ev). rewrite Hx in Hm. inversion Hm; subst.
      rewrite Ev. auto.
    - intros [Ev E]. symmetry in E. destruct (lk_par _ _ _ (LK x X Hx) i E) as (m & Hm & Ek). rewrite Hi in Hm. inversion Hm; subst.
      apply Ek. destruct (nprev X); [discriminate|reflexivity].
  Qed.

  Notation rp := (rhop a b).

  Lemma rhop_if p : rp p = if peq p (Some a) then Some b else if peq p (Some b) then Some a else p.
  Proof.
    destruct p as [x|]; [|reflexivity]. cbn [rhop option_map peq]. unfold rho.
    destruct (x =? a); [reflexivity|]. destruct (x =? b); reflexivity.
  Qed.
  Lemma subp_ab p : p <> Some b -> subp p a b = rp p.
  Proof.
    intros H. rewrite rhop_if. unfold subp. destruct (peq p (Some a)); [reflexivity|].
    rewrite (proj2 (peq_false_iff p (Some b)) H). reflexivity.
  Qed.
  Lemma subp_ba p : p <> Some a -> subp p b a = rp p.
  Proof.
    intros H. rewrite rhop_if. unfold subp. rewrite (proj2 (peq_false_iff p (Some a)) H). reflexivity.
  Qed.
  Lemma peq_rp i p : i <> a -> i <> b -> peq (Some i) (rp p) = peq (Some i) p.
  Proof.
    intros H1 H2. rewrite rhop_if. destruct (peq p (Some a)) eqn:E1.
    - apply peq_true_iff in E1. subst. cbn. rewrite (proj2 (Nat.eqb_neq i b) H2), (proj2 (Nat.eqb_neq i a) H1). reflexivity.
    - destruct (peq p (Some b)) eqn:E2; [|reflexivity].
      apply peq_true_iff in E2. subst. cbn. rewrite (proj2 (Nat.eqb_neq i b) H2), (proj2 (Nat.eqb_neq i a) H1). reflexivity.
  Qed.

  Let La := LK a A HA.
  Let Lb := LK b B HB.

  Lemma P1_fields : nnext P1 = rp (nnext B) /\ nprev P1 = rp (nprev B) /\ npar P1 = npar B.
  Proof.
    destruct (lk_self _ _ _ Lb) as (S1' & S2' & _). unfold P1. cbn [nnext nprev npar].
    rewrite (subp_ab _ S1'), (subp_ab _ S2'). auto.
  Qed.

  Lemma S2_fields : nnext S2 = rp (nnext A) /\ nprev S2 = rp (nprev A) /\ npar S2 = npar A.
  Proof.
    destruct (lk_self _ _ _ La) as (Sa1 & Sa2 & _). destruct (lk_self _ _ _ Lb) as (Sb1 & Sb2 & _).
    destruct P1_fields as (Pn & Pp & _).
    unfold S2, ptf. cbn [nnext nprev npar]. rewrite Pn, Pp. unfold S1. cbn [nnext nprev npar].
    rewrite (subp_ba _ Sa1), (subp_ba _ Sa2). repeat split.
    - destruct (peq (Some b) (rp (nprev B))) eqn:E; [|reflexivity].
      apply peq_true_iff in E. rewrite rhop_if in E.
      assert (Ev : nprev B = Some a).
      { destruct (peq (nprev B) (Some a)) eqn:E1; [apply peq_true_iff; exact E1|].
        destruct (peq (nprev B) (Some b)) eqn:E2; [inversion E; congruence|]. symmetry in E. contradiction. }
      pose proof (lb_prev a A b B HA HB) as K. rewrite Ev in K. cbn [peq] in K. rewrite Nat.eqb_refl in K.
      apply peq_true_iff in K. rewrite K. cbn [rhop option_map]. unfold rho. rewrite Nat.eqb_refl.
      destruct (Nat.eqb_spec b a); [congruence|reflexivity].
    - destruct (peq (Some b) (rp (nnext B))) eqn:E; [|reflexivity].
      apply peq_true_iff in E. rewrite rhop_if in E.
      assert (Ev : nnext B = Some a).
      { destruct (peq (nnext B) (Some a)) eqn:E1; [apply peq_true_iff; exact E1|].
        destruct (peq (nnext B) (Some b)) eqn:E2; [inversion E; congruence|]. symmetry in E. contradiction. }
      pose proof (lb_next a A b B HA HB) as K. rewrite Ev in K. cbn [peq] in K. rewrite Nat.eqb_refl in K.
      apply peq_true_iff in K. rewrite K. cbn [rhop option_map]. unfold rho. rewrite Nat.eqb_refl.
      destruct (Nat.eqb_spec b a); [congruence|reflexivity].
  Qed.
  Lemma rp_fix p : p <> Some a -> p <> Some b -> rp p = p.
  Proof.
    intros H1 H2. rewrite rhop_if, (proj2 (peq_false_iff _ _) H1), (proj2 (peq_false_iff _ _) H2). reflexivity.
  Qed.

  Lemma rp_none p : match rp p with Some _ => false | None => true end = match p with Some _ => false | None => true end.
  Proof. destruct p; reflexivity. Qed.

  Lemma rp_cases p : (if peq p (Some a) then Some b else if peq p (Some b) then Some a else p) = rp p.
  Proof. symmetry. apply rhop_if. Qed.

  (* the cell of every node that is not a child of a or b, after the switch *)
  Lemma switch_sw h' :
    (forall i, cells h' i = option_map (ptf b S2 i) (option_map (ptf a P1 i) (c1 i))) ->
    forall i ci, cells h i = Some ci -> npar ci <> Some a -> npar ci <> Some b ->
    exists ci' own, cells h' (rho a b i) = Some ci' /\ cells h (rho a b i) = Some own /\
      nnext ci' = rp (nnext ci) /\ nprev ci' = rp (nprev ci) /\ npar ci' = rp (npar ci) /\
      (i <> a -> i <> b -> nkid ci' = rp (nkid ci)) /\
      ((i = a \/ i = b) -> nkid ci' = nkid own) /\
      nname ci' = nname own /\ nval ci' = nval own.
  Proof.
    intros C i ci Hi Npa Npb.
    destruct P1_fields as (Pn & Pp & Pr). destruct S2_fields as (Sn & Sp & Sr).
    destruct (lk_self _ _ _ La) as (Sa1 & Sa2 & Sa3 & Sa4). destruct (lk_self _ _ _ Lb) as (Sb1 & Sb2 & Sb3 & Sb4).
    assert (Eba : (b =? a) = false) by (apply Nat.eqb_neq; congruence).
    assert (Eab : (a =? b) = false) by (apply Nat.eqb_neq; congruence).
    destruct (Nat.eq_dec i a) as [->|Nia]; [|destruct (Nat.eq_dec i b) as [->|Nib]].
    - (* i = a: its links go to the cell of b *)
      rewrite HA in Hi. inversion Hi; subst ci. clear Hi.
      assert (Er : rho a b a = b) by (unfold rho; rewrite Nat.eqb_refl; reflexivity). rewrite Er.
      rewrite C. unfold c1. rewrite Eba, Nat.eqb_refl. cbn [option_map].
      eexists _, B. split; [reflexivity|]. split; [exact HB|].
      unfold ptf. cbn [nnext nprev npar nkid nname nval]. rewrite Pn, Pp, Pr, Sn, Sp, Sr.
      unfold S1. cbn [nnext nprev npar nkid nname nval].
      rewrite (subp_ba _ Sa1), (subp_ba _ Sa2).
      (* no write of node_attach changes what sec already holds *)
      assert (H1 : peq (Some b) (rp (nprev A)) = false).
      { apply peq_false_iff. rewrite rhop_if. intros K.
        destruct (peq (nprev A) (Some a)) eqn:E1; [apply peq_true_iff in E1; contradiction|].
        destruct (peq (nprev A) (Some b)) eqn:E2; [inversion K; congruence|]. apply peq_false_iff in E2. congruence. }
      assert (H2 : peq (Some b) (rp (nnext A)) = false).
      { apply peq_false_iff. rewrite rhop_if. intros K.
        destruct (peq (nnext A) (Some a)) eqn:E1; [apply peq_true_iff in E1; contradiction|].
        destruct (peq (nnext A) (Some b)) eqn:E2; [inversion K; congruence|]. apply peq_false_iff in E2. congruence. }
      rewrite H1, H2.
      assert (H3 : peq (Some b) (npar A) = false) by (apply peq_false_iff; congruence).
      assert (H4 : peq (Some b) (npar B) = false) by (apply peq_false_iff; congruence).
      rewrite H3, H4, !andb_false_r.
      repeat split.
      + destruct (peq (Some b) (rp (nprev B))) eqn:E; [|reflexivity].
        apply peq_true_iff in E. rewrite rhop_if in E.
        assert (Ev : nprev B = Some a).
        { destruct (peq (nprev B) (Some a)) eqn:E1; [apply peq_true_iff; exact E1|].
          destruct (peq (nprev B) (Some b)) eqn:E2; [inversion E; congruence|]. symmetry in E. contradiction. }
        pose proof (lb_prev a A b B HA HB) as K. rewrite Ev in K. cbn [peq] in K. rewrite Nat.eqb_refl in K.
        apply peq_true_iff in K. rewrite K. cbn [rhop option_map]. unfold rho. rewrite Eba, Nat.eqb_refl. reflexivity.
      + destruct (peq (Some b) (rp (nnext B))) eqn:E; [|reflexivity].
        apply peq_true_iff in E. rewrite rhop_if in E.
        assert (Ev : nnext B = Some a).
        { destruct (peq (nnext B) (Some a)) eqn:E1; [apply peq_true_iff; exact E1|].
          destruct (peq (nnext B) (Some b)) eqn:E2; [inversion E; congruence|]. symmetry in E. contradiction. }
        pose proof (lb_next a A b B HA HB) as K. rewrite Ev in K. cbn [peq] in K. rewrite Nat.eqb_refl in K.
        apply peq_true_iff in K. rewrite K. cbn [rhop option_map]. unfold rho. rewrite Eba, Nat.eqb_refl. reflexivity.
      + symmetry. apply rp_fix; assumption.
      + intros K. contradiction.
    - (* i = b: its links go to the cell of a *)
      rewrite HB in Hi. inversion Hi; subst ci. clear Hi.
      assert (Er : rho a b b = a) by (unfold rho; rewrite Eba, Nat.eqb_refl; reflexivity). rewrite Er.
      rewrite C. unfold c1. rewrite Nat.eqb_refl. cbn [option_map].
      eexists _, A. split; [reflexivity|]. split; [exact HA|].
      unfold ptf. cbn [nnext nprev npar nkid nname nval]. rewrite Pn, Pp, Pr, Sn, Sp, Sr.
      unfold P1. cbn [nnext nprev npar nkid nname nval].
      assert (H1 : peq (Some a) (rp (nprev B)) = false).
      { apply peq_false_iff. rewrite rhop_if. intros K.
        destruct (peq (nprev B) (Some a)) eqn:E1; [inversion K; congruence|].
        destruct (peq (nprev B) (Some b)) eqn:E2; [apply peq_true_iff in E2; contradiction|]. apply peq_false_iff in E1. congruence. }
      assert (H2 : peq (Some a) (rp (nnext B)) = false).
      { apply peq_false_iff. rewrite rhop_if. intros K.
        destruct (peq (nnext B) (Some a)) eqn:E1; [inversion K; congruence|].
        destruct (peq (nnext B) (Some b)) eqn:E2; [apply peq_true_iff in E2; contradiction|]. apply peq_false_iff in E1. congruence. }
      rewrite H1, H2.
      assert (H3 : peq (Some a) (npar A) = false) by (apply peq_false_iff; congruence).
      assert (H4 : peq (Some a) (npar B) = false) by (apply peq_false_iff; congruence).
      rewrite H3, H4, !andb_false_r.
      repeat split.
      + destruct (peq (Some a) (rp (nprev A))) eqn:E; [|reflexivity].
        apply peq_true_iff in E. rewrite rhop_if in E.
        assert (Ev : nprev A = Some b).
        { destruct (peq (nprev A) (Some a)) eqn:E1; [inversion E; congruence|].
          destruct (peq (nprev A) (Some b)) eqn:E2; [apply peq_true_iff; exact E2|]. symmetry in E. contradiction. }
        pose proof (lb_prev b B a A HB HA) as K. rewrite Ev in K. cbn [peq] in K. rewrite Nat.eqb_refl in K.
        apply peq_true_iff in K. rewrite K. cbn [rhop option_map]. unfold rho. rewrite Nat.eqb_refl. reflexivity.
      + destruct (peq (Some a) (rp (nnext A))) eqn:E; [|reflexivity].
        apply peq_true_iff in E. rewrite rhop_if in E.
        assert (Ev : nnext A = Some b).
        { destruct (peq (nnext A) (Some a)) eqn:E1; [inversion E; congruence|].
          destruct (peq (nnext A) (Some b)) eqn:E2; [apply peq_true_iff; exact E2|]. symmetry in E. contradiction. }
        pose proof (lb_next b B a A HB HA) as K. rewrite Ev in K. cbn [peq] in K. rewrite Nat.eqb_refl in K.
        apply peq_true_iff in K. rewrite K. cbn [rhop option_map]. unfold rho. rewrite Nat.eqb_refl. reflexivity.
      + symmetry. apply rp_fix; assumption.
      + intros K. contradiction.
    - (* any other node: the links that named a now name b and vice versa *)
      assert (Er : rho a b i = i).
      { unfold rho. rewrite (proj2 (Nat.eqb_neq i a) Nia), (proj2 (Nat.eqb_neq i b) Nib). reflexivity. }
      rewrite Er. rewrite C. unfold c1. rewrite (proj2 (Nat.eqb_neq i a) Nia), (proj2 (Nat.eqb_neq i b) Nib), Hi.
      cbn [option_map]. eexists _, ci. split; [reflexivity|]. split; [reflexivity|].
      unfold ptf. cbn [nnext nprev npar nkid nname nval]. rewrite Pn, Pp, Pr, Sn, Sp, Sr.
      rewrite !(peq_rp i _ Nia Nib), !rp_none.
      rewrite <- (lb_prev i ci a A Hi HA), <- (lb_prev i ci b B Hi HB).
      rewrite <- (lb_next i ci a A Hi HA), <- (lb_next i ci b B Hi HB).
      rewrite <- (lb_kid i ci a A Hi HA), <- (lb_kid i ci b B Hi HB).
      repeat split.
      + apply rp_cases.
      + apply rp_cases.
      + symmetry. apply rp_fix; assumption.
      + intros _ _. apply rp_cases.
      + intros [K|K]; contradiction.
  Qed.

  (* a cell none of whose links names a or b is untouched; so is a dead cell *)
  Lemma switch_same h' :
    (forall i, cells h' i = option_map (ptf b S2 i) (option_map (ptf a P1 i) (c1 i))) ->
    forall i ci, cells h i = Some ci -> i <> a -> i <> b ->
    (forall x, x = a \/ x = b -> nnext ci <> Some x /\ nprev ci <> Some x /\ nkid ci <> Some x) ->
    cells h' i = Some ci.
  Proof.
    intros C i ci Hci Nia Nib Hn.
    destruct P1_fields as (Pn & Pp & Pr). destruct S2_fields as (Sn & Sp & Sr).
    rewrite C. unfold c1. rewrite (proj2 (Nat.eqb_neq i a) Nia), (proj2 (Nat.eqb_neq i b) Nib), Hci.
    cbn [option_map]. f_equal. unfold ptf. cbn [nnext nprev npar nkid nname nval]. rewrite Pn, Pp, Pr, Sn, Sp, Sr.
    rewrite !(peq_rp i _ Nia Nib), !rp_none.
    rewrite <- (lb_prev i ci a A Hci HA), <- (lb_prev i ci b B Hci HB).
    rewrite <- (lb_next i ci a A Hci HA), <- (lb_next i ci b B Hci HB).
    rewrite <- (lb_kid i ci a A Hci HA), <- (lb_kid i ci b B Hci HB).
    destruct (Hn a (or_introl eq_refl)) as (K1 & K2 & K3). destruct (Hn b (or_intror eq_refl)) as (K4 & K5 & K6).
    rewrite (proj2 (peq_false_iff _ _) K1), (proj2 (peq_false_iff _ _) K2), (proj2 (peq_false_iff _ _) K3),
      (proj2 (peq_false_iff _ _) K4), (proj2 (peq_false_iff _ _) K5), (proj2 (peq_false_iff _ _) K6).
    symmetry. apply node_eta.
  Qed.

  Lemma switch_dead h' :
    (forall i, cells h' i = option_map (ptf b S2 i) (option_map (ptf a P1 i) (c1 i))) ->
    forall i, cells h i = None -> cells h' i = None.
  Proof.
    intros C i Hi. rewrite C. unfold c1.
    destruct (Nat.eqb_spec i a) as [->|]; [congruence|]. destruct (Nat.eqb_spec i b) as [->|]; [congruence|].
    rewrite Hi. reflexivity.
  Qed.
End Switch.

(* ---------------------------------------------------------------- cells that do not mention a node *)
Definition no_mention (x : nat) (nd : node) : Prop :=
  nnext nd <> Some x /\ nprev nd <> Some x /\ nkid nd <> Some x.

Definition nm_tree (x : nat) (t : tree) : Prop :=
  forall par prv nxt, ~ In x (ids_t t) -> nxt <> Some x -> prv <> Some x ->
  forall e, In e (exp_t par prv t nxt) -> no_mention x (snd e).

Lemma tid_in_ids t : In (tid t) (ids_t t).
Proof. destruct t. rewrite ids_t_eq. left. reflexivity. Qed.

Lemma nm_list x : forall l par prv aft,
  Forall (nm_tree x) l -> ~ In x (ids_f l) -> aft <> Some x -> prv <> Some x ->
  forall e, In e (exp_l par prv l aft) -> no_mention x (snd e).
Proof.
  induction l as [|t r IH]; intros par prv aft F Hl Ha Hp e He; [contradiction|].
  inversion F as [|? ? Ft Fr]; subst. rewrite ids_f_cons in Hl. rewrite exp_l_cons in He.
  apply in_app_or in He. destruct He as [He|He].
  - apply (Ft par prv (hid_or r aft)); auto.
    + intros K. apply Hl. apply in_or_app. auto.
    + destruct r as [|t' r']; cbn [hid_or]; [exact Ha|].
      intros E. inversion E. apply Hl. apply in_or_app. right. rewrite ids_f_cons. apply in_or_app. left.
      rewrite <- H0. apply tid_in_ids.
  - apply (IH par (Some (tid t)) aft Fr); auto.
    + intros K. apply Hl. apply in_or_app. auto.
    + intros E. inversion E. apply Hl. apply in_or_app. left. rewrite <- H0. apply tid_in_ids.
Qed.

Lemma nm_tree_all x t : nm_tree x t.
Proof.
  induction t as [j n v k IH] using tree_ind'. intros par prv nxt Hx Hn Hp e He.
  rewrite ids_t_eq in Hx. rewrite exp_t_eq in He. destruct He as [<-|He].
  - cbn [snd]. repeat split; cbn [nnext nprev nkid]; auto.
    intros E. apply Hx. right. apply hid_in_ids'. exact E.
  - apply (nm_list x k (Some j) None None IH); auto; try discriminate.
    intros K. apply Hx. right. exact K.
Qed.

Lemma rep_l_no_mention c x par prv l aft i ci :
  rep_l c par prv l aft -> ~ In x (ids_f l) -> aft <> Some x -> prv <> Some x ->
  In i (ids_f l) -> c i = Some ci -> no_mention x ci.
Proof.
  intros R Hx Ha Hp Hi Hc.
  rewrite <- (keys_exp_l l par prv aft) in Hi. apply in_map_iff in Hi. destruct Hi as ([i' nd] & E & Hin). cbn in E. subst i'.
  unfold rep_l, repc in R. rewrite Forall_forall in R. pose proof (R _ Hin) as E. cbn [fst snd] in E.
  rewrite Hc in E. inversion E; subst nd.
  apply (nm_list x l par prv aft) with (e := (i, ci)); auto.
  apply Forall_forall. intros t _. apply nm_tree_all.
Qed.

(* ---------------------------------------------------------------- auxiliary facts *)
Lemma leaf_no_child cm st x ndx i nd :
  rep_st cm st -> cm x = Some ndx -> nkid ndx = None ->
  In i (ids_st st) -> cm i = Some nd -> npar nd <> Some x.
Proof.
  intros R Hx Hk Hi Hnd E.
  destruct (focus_some _ _ Hi) as ([frs o] & l1 & ti & l2 & F).
  destruct (focus_cell _ _ _ _ _ _ _ _ R F) as [Hc Rp]. rewrite Hnd in Hc. inversion Hc; subst nd. cbn [npar] in E.
  rewrite rep_plug in Rp. destruct Rp as (_ & Rf & _).
  destruct frs as [|fr rest]; cbn [cpar] in E; [discriminate|]. inversion E; subst x.
  cbn [rep_frames] in Rf. destruct Rf as (_ & Hfr & _). rewrite Hx in Hfr. inversion Hfr; subst ndx.
  cbn [nkid] in Hk. destruct l1; discriminate.
Qed.

Lemma rho_invol a b x : a <> b -> rho a b (rho a b x) = x.
Proof.
  intros N. unfold rho.
  destruct (Nat.eqb_spec x a) as [->|Na].
  - rewrite (proj2 (Nat.eqb_neq b a)) by congruence. rewrite Nat.eqb_refl. reflexivity.
  - destruct (Nat.eqb_spec x b) as [->|Nb].
    + rewrite Nat.eqb_refl. reflexivity.
    + rewrite (proj2 (Nat.eqb_neq x a) Na), (proj2 (Nat.eqb_neq x b) Nb). reflexivity.
Qed.

Lemma perm_rho a b (l : list nat) : a <> b -> NoDup l -> In a l -> In b l -> Permutation (map (rho a b) l) l.
Proof.
  intros N ND Ha Hb. apply NoDup_Permutation; [|exact ND|].
  - apply FinFun.Injective_map_NoDup; [|exact ND]. intros x y E.
    rewrite <- (rho_invol a b x N), <- (rho_invol a b y N). congruence.
  - intros x. rewrite in_map_iff. split.
    + intros (y & <- & Hy). unfold rho. destruct (y =? a); [exact Hb|]. destruct (y =? b); [exact Ha|exact Hy].
    + intros Hx. exists (rho a b x). split; [apply rho_invol; exact N|].
      unfold rho. destruct (x =? a); [exact Hb|]. destruct (x =? b); [exact Ha|exact Hx].
Qed.

Lemma rep_l_cell_some c par prv l aft i : rep_l c par prv l aft -> In i (ids_f l) -> exists nd, c i = Some nd.
Proof.
  intros R Hi. rewrite <- (keys_exp_l l par prv aft) in Hi. apply in_map_iff in Hi.
  destruct Hi as ([i' nd] & E & Hin). cbn in E. subst i'.
  unfold rep_l, repc in R. rewrite Forall_forall in R. exists nd. exact (R _ Hin).
Qed.

(* ---------------------------------------------------------------- OSwitch *)
Lemma npar_focus c st x frs o l1 tx l2 nd :
  rep_st c st -> focus x st = Some ((frs, o), l1, tx, l2) -> c x = Some nd -> npar nd = cpar frs.
Proof.
  intros R F Hnd. destruct (focus_cell _ _ _ _ _ _ _ _ R F) as [Hc _]. rewrite Hnd in Hc. inversion Hc. reflexivity.
Qed.

Lemma par_not_anc h s x y nd :
  inv h s -> cells h x = Some nd -> mem y (x :: ancs x (lists s)) = false -> npar nd <> Some y.
Proof.
  intros I Hnd G E.
  assert (Hin : In x (ids_st (lists s))) by (apply (i_dom _ _ I); rewrite Hnd; discriminate).
  destruct (focus_some _ _ Hin) as ([frs o] & l1 & tx & l2 & F).
  rewrite (npar_focus _ _ _ _ _ _ _ _ _ (i_rep _ _ I) F Hnd) in E.
  unfold ancs in G. rewrite F in G. cbn [fst] in G.
  destruct frs as [|fr rest]; cbn [cpar] in E; [discriminate|]. inversion E; subst y.
  cbn [map mem existsb] in G. rewrite Nat.eqb_refl in G. rewrite orb_true_r in G. discriminate.
Qed.

Lemma step_switch a b : refines_step (OSwitch a b).
Proof.
  intros h s I. cbn [mstep sstep]. rewrite !(live_iff _ _ _ I).
  destruct (Nat.eqb_spec a b) as [->|Nab].
  { rewrite andb_diag. destruct (slive s b) eqn:Sl; cbn [fst snd]; [|eexists; split; [reflexivity|exact I]].
    assert (Lb : live h b = true) by (rewrite (live_iff _ _ _ I); exact Sl).
    rewrite (anc_guard h s b b I Lb). cbn [rbind mem existsb]. rewrite Nat.eqb_refl. cbn [orb andb negb].
    unfold gnode_switch. rewrite Nat.eqb_refl. cbn [rbind]. exists h. split; [reflexivity|exact I]. }
  destruct (slive s a) eqn:Sa.
  2:{ cbn [andb]. unfold cut. rewrite (slive_false_focus _ _ Sa).
      destruct (mem a (b :: ancs b (lists s)) || mem b (a :: ancs a (lists s))); cbn [fst snd];
        eexists; (split; [reflexivity|exact I]). }
  destruct (slive s b) eqn:Sb.
  2:{ cbn [andb].
      assert (Eb : forall st, (forall i, In i (ids_st st) -> In i (ids_st (lists s))) -> focus b st = None).
      { intros st Hst. destruct (focus b st) as [[[[c x] t] y]|] eqn:F; [|reflexivity].
        exfalso. apply focus_in in F. apply Hst in F. apply mem_in in F. unfold slive in Sb. congruence. }
      destruct (mem a (b :: ancs b (lists s)) || mem b (a :: ancs a (lists s))); cbn [fst snd];
        [eexists; split; [reflexivity|exact I]|].
      destruct (cut a (lists s)) as [[ta s1]|] eqn:Ca; [|eexists; split; [reflexivity|exact I]].
      destruct (cut_facts _ _ _ _ _ (inv_nodup _ _ I) (i_rep _ _ I) Ca) as (_ & _ & _ & _ & Pa & _).
      assert (Cb : cut b s1 = None).
      { unfold cut. rewrite (Eb s1); [reflexivity|].
        intros i Hi. eapply Permutation_in; [symmetry; exact Pa|]. apply in_or_app. auto. }
      rewrite Cb. cbn [fst snd]. eexists; split; [reflexivity|exact I]. }
  cbn [andb].
  assert (La : live h a = true) by (rewrite (live_iff _ _ _ I); exact Sa).
  assert (Lb : live h b = true) by (rewrite (live_iff _ _ _ I); exact Sb).
  rewrite (anc_guard h s a b I Lb). cbn [rbind]. rewrite (anc_guard h s b a I La). cbn [rbind].
  cbn [negb]. rewrite andb_true_r.
  destruct (mem a (b :: ancs b (lists s)) || mem b (a :: ancs a (lists s))) eqn:G;
    [cbn [fst snd]; eexists; split; [reflexivity|exact I]|].
  apply orb_false_elim in G. destruct G as [Ga Gb].
  pose proof (inv_nodup _ _ I) as ND. pose proof (i_rep _ _ I) as R.
  apply mem_in in Sa. apply mem_in in Sb.
  (* cut a *)
  destruct (focus_some _ _ Sa) as (ca & l1a & ta0 & l2a & Fa).
  assert (Ca : cut a (lists s) = Some (ta0, plug ca (l1a ++ T (tid ta0) (tname ta0) (tval ta0) [] :: l2a)))
    by (unfold cut; rewrite Fa; reflexivity).
  rewrite Ca. set (s1 := plug ca _) in *.
  destruct (cut_facts _ _ _ _ _ ND R Ca) as (Eta & R1 & (nda & Hnda & Hka & Hna & Hva) & Rka & Pa & Ha1).
  destruct ta0 as [a' na va ka]. cbn [tid tname tval tkids] in *. subst a'.
  assert (NDa : NoDup (ids_st s1 ++ ids_f ka)) by (eapply Permutation_NoDup; [exact Pa|exact ND]).
  destruct (NoDup_app_inv _ _ NDa) as (ND1 & NDka & Dja).
  assert (Lka : S (fsize ka) <= fuel_of h).
  { rewrite fsize_ids. pose proof (inv_length _ _ I) as L. rewrite (Permutation_length Pa), app_length in L.
    assert (1 <= length (ids_st s1)) by (destruct (ids_st s1); [contradiction|cbn; lia]). unfold fuel_of. lia. }
  assert (Nbka : ~ In b (ids_f ka)).
  { intros K. pose proof (below_anc h a ka b Rka K Lka) as E. rewrite (anc_guard h s a b I Lb) in E.
    inversion E. congruence. }
  assert (Hb1 : In b (ids_st s1)).
  { eapply Permutation_in in Sb; [|exact Pa]. apply in_app_or in Sb. destruct Sb; [assumption|contradiction]. }
  (* cut b *)
  destruct (focus_some _ _ Hb1) as (cb & l1b & tb0 & l2b & Fb).
  assert (Cb : cut b s1 = Some (tb0, plug cb (l1b ++ T (tid tb0) (tname tb0) (tval tb0) [] :: l2b)))
    by (unfold cut; rewrite Fb; reflexivity).
  rewrite Cb. set (s2 := plug cb _) in *.
  destruct (cut_facts _ _ _ _ _ ND1 R1 Cb) as (Etb & R2 & (ndb & Hndb & Hkb & Hnb & Hvb) & Rkb & Pb & Hb2).
  destruct tb0 as [b' nb vb kb]. cbn [tid tname tval tkids] in *. subst b'.
  rewrite (mask_other _ _ _ (not_eq_sym Nab)) in Hndb.
  assert (NDb : NoDup (ids_st s2 ++ ids_f kb)) by (eapply Permutation_NoDup; [exact Pb|exact ND1]).
  destruct (NoDup_app_inv _ _ NDb) as (ND2 & NDkb & Djb).
  assert (Lkb : S (fsize kb) <= fuel_of h).
  { rewrite fsize_ids. pose proof (inv_length _ _ I) as L. rewrite (Permutation_length Pa), app_length in L.
    rewrite (Permutation_length Pb), app_length in L.
    assert (1 <= length (ids_st s2)) by (destruct (ids_st s2); [contradiction|cbn; lia]). unfold fuel_of. lia. }
  assert (Nakb : ~ In a (ids_f kb)).
  { intros K.
    assert (E : anc_or_eq (fuel_of h) (mkH (mask (cells h) a) (nextid h) (freed h)) b a = ROk true).
    { apply (below_anc (mkH (mask (cells h) a) (nextid h) (freed h)) b kb a Rkb K). exact Lkb. }
    rewrite anc_mask in E. rewrite <- (heap_eta h) in E. rewrite (anc_guard h s b a I La) in E.
    inversion E. congruence. }
  assert (Rkb' : rep_l (cells h) (Some b) None kb None) by (apply (rep_l_mask (cells h) a); assumption).
  assert (Ha2 : In a (ids_st s2)).
  { eapply Permutation_in in Ha1; [|exact Pb]. apply in_app_or in Ha1. destruct Ha1; [assumption|contradiction]. }
  assert (Nbkb : ~ In b (ids_f kb)) by (intros K; exact (Djb _ Hb2 K)).
  assert (Naka : ~ In a (ids_f ka)) by (intros K; exact (Dja _ Ha1 K)).
  assert (Dkk : forall i, In i (ids_f ka) -> In i (ids_f kb) -> False).
  { intros i Hi Hj. apply (Dja i); [|exact Hi]. eapply Permutation_in; [symmetry; exact Pb|]. apply in_or_app. auto. }
  (* the model *)
  assert (LK : forall i ci, cells h i = Some ci -> links_at (cells h) i ci) by (intros i ci Hi; exact (links_inv h s i ci I Hi)).
  assert (PAb : npar nda <> Some b) by exact (par_not_anc h s a b nda I Hnda Gb).
  assert (PBa : npar ndb <> Some a) by exact (par_not_anc h s b a ndb I Hndb Ga).
  destruct (switch_cells h a b nda ndb Nab Hnda Hndb LK PAb PBa) as (h' & E' & M' & C').
  rewrite E'. cbn [rbind].
  pose proof (switch_sw h a b nda ndb Nab Hnda Hndb LK PAb PBa h' C') as SW.
  pose proof (switch_same h a b nda ndb Hnda Hndb LK h' C') as SAME.
  pose proof (switch_dead h a b nda ndb Hnda Hndb h' C') as DEAD.
  set (c' := cells h') in *.
  destruct (lk_self _ _ _ (LK a nda Hnda)) as (_ & _ & SelfA & _).
  destruct (lk_self _ _ _ (LK b ndb Hndb)) as (_ & _ & SelfB & _).
  assert (Rb_a : rho a b b = a) by (unfold rho; rewrite (proj2 (Nat.eqb_neq b a)) by congruence; rewrite Nat.eqb_refl; reflexivity).
  assert (Ra_b : rho a b a = b) by (unfold rho; rewrite Nat.eqb_refl; reflexivity).
  (* the two nodes themselves *)
  destruct (SW b ndb Hndb PBa SelfB) as (ca' & owna & Hca' & Howna & Ca1 & Ca2 & Ca3 & _ & Ca5 & Ca6 & Ca7).
  rewrite Rb_a in Hca', Howna. rewrite Hnda in Howna. inversion Howna; subst owna. clear Howna.
  specialize (Ca5 (or_intror eq_refl)).
  destruct (SW a nda Hnda SelfA PAb) as (cb' & ownb & Hcb' & Hownb & Cb1 & Cb2 & Cb3 & _ & Cb5 & Cb6 & Cb7).
  rewrite Ra_b in Hcb', Hownb. rewrite Hndb in Hownb. inversion Hownb; subst ownb. clear Hownb.
  specialize (Cb5 (or_introl eq_refl)).
  (* the detached child lists are untouched *)
  assert (Same_l : forall l par, rep_l (cells h) par None l None -> ~ In a (ids_f l) -> ~ In b (ids_f l) ->
                                 rep_l c' par None l None).
  { intros l par Rl Hal Hbl. eapply rep_l_frame; [exact Rl|]. intros i Hi.
    destruct (rep_l_cell_some _ _ _ _ _ _ Rl Hi) as (ci & Hci). rewrite Hci.
    apply (SAME i ci Hci); [intros ->; contradiction|intros ->; contradiction|].
    intros x [-> | ->]; [apply (rep_l_no_mention (cells h) a par None l None i ci Rl Hal)|
                         apply (rep_l_no_mention (cells h) b par None l None i ci Rl Hbl)]; auto; discriminate. }
  assert (Rka' : rep_l c' (Some a) None ka None) by (apply Same_l; assumption).
  assert (Rkb2 : rep_l c' (Some b) None kb None) by (apply Same_l; assumption).
  (* the skeleton: the two leaves have changed places *)
  assert (R3 : rep_st (mask (mask c' b) a) (exch_st a na va b nb vb s2)).
  { apply (rep_exch a na va b nb vb (mask (mask (cells h) a) b) _ s2 R2).
    intros i nd Hi Hnd.
    assert (Nka : ~ In i (ids_f ka)).
    { intros K. apply (Dja i); [|exact K]. eapply Permutation_in; [symmetry; exact Pb|]. apply in_or_app. auto. }
    assert (Nkb : ~ In i (ids_f kb)) by (intros K; exact (Djb _ Hi K)).
    (* not a child of a or b: those are leaves of the skeleton *)
    assert (Ma : (mask (mask (cells h) a) b) a = Some (set_kid None nda)).
    { rewrite (mask_other _ _ _ Nab), mask_same, Hnda. reflexivity. }
    assert (Mb : (mask (mask (cells h) a) b) b = Some (set_kid None ndb)).
    { rewrite mask_same, (mask_other _ _ _ (not_eq_sym Nab)), Hndb. reflexivity. }
    pose proof (leaf_no_child _ _ a _ i nd R2 Ma eq_refl Hi Hnd) as Npa.
    pose proof (leaf_no_child _ _ b _ i nd R2 Mb eq_refl Hi Hnd) as Npb.
    destruct (Nat.eq_dec i a) as [->|Nia]; [|destruct (Nat.eq_dec i b) as [->|Nib]].
    - rewrite Ma in Hnd. inversion Hnd; subst nd. rewrite Ra_b.
      rewrite (mask_other _ _ _ (not_eq_sym Nab)), mask_same. fold c'. rewrite Hcb'. cbn [option_map]. f_equal.
      unfold ren_nd. cbn [set_kid nnext nprev npar nkid nname nval]. rewrite Nat.eqb_refl.
      rewrite <- Cb1, <- Cb2, <- Cb3, <- Hnb, <- Hvb, <- Cb6, <- Cb7. destruct cb'; reflexivity.
    - rewrite Mb in Hnd. inversion Hnd; subst nd. rewrite Rb_a.
      rewrite mask_same, (mask_other _ _ _ Nab). fold c'. rewrite Hca'. cbn [option_map]. f_equal.
      unfold ren_nd. cbn [set_kid nnext nprev npar nkid nname nval].
      rewrite (proj2 (Nat.eqb_neq b a)) by congruence. rewrite Nat.eqb_refl.
      rewrite <- Ca1, <- Ca2, <- Ca3, <- Hna, <- Hva, <- Ca6, <- Ca7. destruct ca'; reflexivity.
    - rewrite (mask_other _ _ _ Nib), (mask_other _ _ _ Nia) in Hnd.
      destruct (SW i nd Hnd Npa Npb) as (ci' & own & Hci' & Hown & F1 & F2 & F3 & F4 & _ & F6 & F7).
      assert (Er : rho a b i = i).
      { unfold rho. rewrite (proj2 (Nat.eqb_neq i a) Nia), (proj2 (Nat.eqb_neq i b) Nib). reflexivity. }
      rewrite Er in *. rewrite Hnd in Hown. inversion Hown; subst own.
      rewrite (mask_other _ _ _ Nia), (mask_other _ _ _ Nib). fold c'. rewrite Hci'. f_equal.
      unfold ren_nd. rewrite (proj2 (Nat.eqb_neq i a) Nia), (proj2 (Nat.eqb_neq i b) Nib).
      rewrite <- F1, <- F2, <- F3, <- (F4 Nia Nib), <- F6, <- F7. destruct ci'; reflexivity. }
  set (s3 := exch_st a na va b nb vb s2) in *.
  assert (P3 : Permutation (ids_st s3) (ids_st s2)).
  { unfold s3. rewrite ids_exch_st. apply perm_rho; assumption. }
  (* graft ka under a *)
  destruct (graft_rep (mask c' b) s3 a ka R3) as (s4 & G4 & R4 & P4 & Ha4).
  { rewrite (mask_other _ _ _ Nab). fold c'. rewrite Hca'. eexists. split; [reflexivity|]. rewrite Ca5. exact Hka. }
  { apply (rep_l_mask c' b); assumption. }
  { eapply Permutation_in; [symmetry; exact P3|exact Ha2]. }
  { assert (NDs : NoDup (ids_st s2 ++ ids_f ka)).
    { apply NoDup_app_intro; [exact ND2|exact NDka|]. intros i H1 H2. apply (Dja i); [|exact H2].
      eapply Permutation_in; [symmetry; exact Pb|]. apply in_or_app. auto. }
    eapply Permutation_NoDup; [|exact NDs]. rewrite P3. reflexivity. }
  rewrite G4.
  (* graft kb under b *)
  assert (Hb4 : In b (ids_st s4)).
  { eapply Permutation_in; [symmetry; exact P4|]. apply in_or_app. left.
    eapply Permutation_in; [symmetry; exact P3|exact Hb2]. }
  destruct (graft_rep c' s4 b kb R4) as (s5 & G5 & R5 & P5 & _).
  { fold c'. rewrite Hcb'. eexists. split; [reflexivity|]. rewrite Cb5. exact Hkb. }
  { exact Rkb2. }
  { exact Hb4. }
  { eapply Permutation_NoDup; [|exact NDa]. rewrite P4, P3. symmetry. rewrite Pb.
    rewrite <- !app_assoc. apply Permutation_app_head. apply Permutation_app_comm. }
  rewrite G5. cbn [fst snd]. exists h'. split; [reflexivity|].
  apply (inv_relink h s h' s5 I M' R5).
  - rewrite P5, P4, P3, Pa, Pb. rewrite <- !app_assoc. apply Permutation_app_head. apply Permutation_app_comm.
  - intros i Hi. fold c'. destruct (cells h i) as [ci|] eqn:Hci.
    + exfalso. apply Hi. apply (i_dom _ _ I). rewrite Hci. discriminate.
    + apply DEAD. exact Hci.
Qed.
