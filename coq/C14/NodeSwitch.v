(* C14/NodeSwitch.v — mpt_gnode_switch lets two nodes that are not ancestor-related
   change places, each with everything below it. *)
From Coq Require Import List Arith ZArith Bool Lia Permutation Wf_nat.
From MptV Require Import C14.NodeModel C14.NodeSpec C14.NodeRep C14.NodeFocus C14.NodeExec
  C14.NodeLocal C14.NodeInv C14.NodeRefine C14.NodeFree C14.NodeClone C14.NodeWalk C14.NodeCut
  C14.NodeSwap C14.NodeLinks C14.NodeExch.
Import ListNotations.
Local Open Scope nat_scope.

(* ---------------------------------------------------------------- node_attach (switch_fix) *)
(* what node_attach(x) does to the cell [ci] of node [i], given the cell [nx] of x *)
Definition ptf (x : nat) (nx : node) (i : nat) (ci : node) : node :=
  mkN (if peq (Some i) (nprev nx) then Some x else nnext ci)
      (if peq (Some i) (nnext nx) then Some x else nprev ci)
      (npar ci)
      (if (match nprev nx with None => true | Some _ => false end) && peq (Some i) (npar nx)
       then Some x else nkid ci)
      (nname ci) (nval ci).

Lemma node_eta n : n = mkN (nnext n) (nprev n) (npar n) (nkid n) (nname n) (nval n).
Proof. destruct n; reflexivity. Qed.

Lemma pt_spec h x nx :
  cells h x = Some nx ->
  nnext nx <> Some x -> nprev nx <> Some x -> npar nx <> Some x ->
  (forall q, nnext nx = Some q -> cells h q <> None) ->
  (forall q, nprev nx = Some q -> cells h q <> None) ->
  (forall q, npar nx = Some q -> cells h q <> None) ->
  exists h', switch_fix h x = ROk h' /\ same_meta h h' /\
    forall i, cells h' i = option_map (ptf x nx i) (cells h i).
Proof.
  intros Hx N1 N2 N3 L1 L2 L3. unfold switch_fix.
  rewrite (fld_ok _ _ _ _ Hx). cbn [rbind].
  (* first write *)
  assert (S1 : exists h1, (match nnext nx with Some q => wr set_prev h q (Some x) | None => ROk h end) = ROk h1 /\
                same_meta h h1 /\ cells h1 x = Some nx /\
                forall i, cells h1 i = option_map (fun ci => if peq (Some i) (nnext nx) then set_prev (Some x) ci else ci) (cells h i)).
  { destruct (nnext nx) as [q|] eqn:E.
    - destruct (cells h q) as [nq|] eqn:Hq; [|exfalso; exact (L1 q eq_refl Hq)].
      rewrite (wr_ok _ _ _ _ _ Hq). eexists. split; [reflexivity|]. split; [split; reflexivity|]. split.
      + rewrite cells_put. destruct (Nat.eqb_spec x q) as [->|]; [congruence|exact Hx].
      + intros i. rewrite cells_put. cbn [peq]. destruct (Nat.eqb_spec i q) as [->|].
        * rewrite Hq. reflexivity.
        * destruct (cells h i); reflexivity.
    - exists h. split; [reflexivity|]. split; [split; reflexivity|]. split; [exact Hx|].
      intros i. cbn [peq]. destruct (cells h i); reflexivity. }
  destruct S1 as (h1 & E1 & [M1a M1b] & Hx1 & C1). rewrite E1. cbn [rbind].
  rewrite (fld_ok _ _ _ _ Hx1). cbn [rbind].
  assert (Lv : forall q, cells h q <> None -> cells h1 q <> None).
  { intros q Hq. rewrite C1. destruct (cells h q); [discriminate|contradiction]. }
  destruct (nprev nx) as [q|] eqn:E2.
  - destruct (cells h1 q) as [nq|] eqn:Hq; [|exfalso; exact (Lv q (L2 q eq_refl) Hq)].
    rewrite (wr_ok _ _ _ _ _ Hq). eexists. split; [reflexivity|]. split; [split; cbn [nextid freed put]; assumption|].
    intros i. rewrite cells_put. unfold ptf. rewrite E2. cbn [peq andb].
    destruct (Nat.eqb_spec i q) as [->|].
    + rewrite C1 in Hq. destruct (cells h q) as [cq|]; [|discriminate]. cbn [option_map] in *.
      inversion Hq as [Enq]. clear Hq. f_equal. rewrite ?Nat.eqb_refl.
      destruct (nnext nx) as [y|]; cbn [peq]; [destruct (q =? y)|]; destruct cq; reflexivity.
    + rewrite C1. destruct (cells h i) as [ci|]; [|reflexivity]. cbn [option_map]. f_equal.
      destruct (nnext nx) as [y|]; cbn [peq]; [destruct (i =? y)|]; destruct ci; reflexivity.
  - rewrite (fld_ok _ _ _ _ Hx1). cbn [rbind].
    destruct (npar nx) as [q|] eqn:E3.
    + destruct (cells h1 q) as [nq|] eqn:Hq; [|exfalso; exact (Lv q (L3 q eq_refl) Hq)].
      rewrite (wr_ok _ _ _ _ _ Hq). eexists. split; [reflexivity|]. split; [split; cbn [nextid freed put]; assumption|].
      intros i. rewrite cells_put. unfold ptf. rewrite E2, E3. cbn [peq andb].
      destruct (Nat.eqb_spec i q) as [->|].
      * rewrite C1 in Hq. destruct (cells h q) as [cq|]; [|discriminate]. cbn [option_map] in *.
        inversion Hq as [Enq]. clear Hq. f_equal. rewrite ?Nat.eqb_refl.
        destruct (nnext nx) as [y|]; cbn [peq]; [destruct (q =? y)|]; destruct cq; reflexivity.
      * rewrite C1. destruct (cells h i) as [ci|]; [|reflexivity]. cbn [option_map]. f_equal.
        destruct (nnext nx) as [y|]; cbn [peq]; [destruct (i =? y)|]; destruct ci; reflexivity.
    + exists h1. split; [reflexivity|]. split; [split; assumption|].
      intros i. unfold ptf. rewrite E2, E3. cbn [peq andb]. rewrite C1.
      destruct (cells h i) as [ci|]; [|reflexivity]. cbn [option_map]. f_equal.
      destruct (nnext nx) as [y|]; cbn [peq]; [destruct (i =? y)|]; destruct ci; reflexivity.
Qed.

(* ---------------------------------------------------------------- the cells after mpt_gnode_switch *)
Definition subp (x : ptr) (a b : nat) : ptr := if peq x (Some a) then Some b else x.

Lemma peq_some_eq x y : peq (Some x) (Some y) = (x =? y).
Proof. reflexivity. Qed.
Lemma peq_true_iff p q : peq p q = true <-> p = q.
Proof.
  destruct p as [x|], q as [y|]; cbn; split; intros H; try discriminate; try reflexivity.
  - apply Nat.eqb_eq in H. congruence.
  - inversion H. apply Nat.eqb_refl.
Qed.
Lemma peq_false_iff p q : peq p q = false <-> p <> q.
Proof.
  split.
  - intros H E. apply peq_true_iff in E. congruence.
  - intros H. destruct (peq p q) eqn:E; [|reflexivity]. apply peq_true_iff in E. contradiction.
Qed.
Lemma peq_sym p q : peq p q = peq q p.
Proof.
  destruct (peq q p) eqn:E.
  - apply peq_true_iff. apply peq_true_iff in E. congruence.
  - apply peq_false_iff. apply peq_false_iff in E. congruence.
Qed.

Section Switch.
  Variables (h : heap) (a b : nat) (A B : node).
  Hypothesis Nab : a <> b.
  Hypothesis HA : cells h a = Some A.
  Hypothesis HB : cells h b = Some B.
  Hypothesis LK : forall i ci, cells h i = Some ci -> links_at (cells h) i ci.
  Hypothesis PAb : npar A <> Some b.
  Hypothesis PBa : npar B <> Some a.

  Let P1 := mkN (subp (nnext B) a b) (subp (nprev B) a b) (npar B) (nkid A) (nname A) (nval A).
  Let S1 := mkN (subp (nnext A) b a) (subp (nprev A) b a) (npar A) (nkid B) (nname B) (nval B).
  Let c1 (i : nat) : option node := if i =? a then Some P1 else if i =? b then Some S1 else cells h i.
  Let S2 := ptf a P1 b S1.

  Lemma switch_cells :
    exists h', gnode_switch h a b = ROk h' /\ same_meta h h' /\
      forall i, cells h' i = option_map (ptf b S2 i) (option_map (ptf a P1 i) (c1 i)).
  Proof.
    unfold gnode_switch. rewrite (proj2 (Nat.eqb_neq a b) Nab).
    rewrite (get_ok _ _ _ HA), (get_ok _ _ _ HB). cbn [rbind].
    unfold wr. run.
    match goal with |- context [switch_fix ?hh a] => set (h1 := hh) end.
    assert (C1 : forall i, cells h1 i = c1 i).
    { intros i. unfold h1, c1, P1, S1, subp. rewrite !cells_put.
      destruct (Nat.eqb_spec i b) as [->|]; [rewrite (proj2 (Nat.eqb_neq b a)) by congruence; reflexivity|].
      destruct (i =? a); reflexivity. }
    assert (Lv1 : forall q, cells h q <> None -> cells h1 q <> None).
    { intros q Hq. rewrite C1. unfold c1. destruct (q =? a); [discriminate|]. destruct (q =? b); [discriminate|exact Hq]. }
    pose proof (LK a A HA) as La. pose proof (LK b B HB) as Lb.
    destruct (lk_self _ _ _ La) as (Sa1 & Sa2 & Sa3 & Sa4). destruct (lk_self _ _ _ Lb) as (Sb1 & Sb2 & Sb3 & Sb4).
    assert (Hsub : forall x u v, x <> Some v -> subp x u v <> Some u).
    { intros x u v Hx. unfold subp. destruct (peq x (Some u)) eqn:E; [|apply peq_false_iff; exact E].
      intros K. inversion K. subst. apply peq_true_iff in E. congruence. }
    assert (Lsub : forall x u v, (forall q, x = Some q -> cells h q <> None) -> cells h v <> None ->
                                 forall q, subp x u v = Some q -> cells h1 q <> None).
    { intros x u v Hx Hv q Eq. apply Lv1. unfold subp in Eq. destruct (peq x (Some u)); [inversion Eq; subst; exact Hv|auto]. }
    assert (LvA : cells h a <> None) by (rewrite HA; discriminate).
    assert (LvB : cells h b <> None) by (rewrite HB; discriminate).
    assert (Lnx : forall (n : node) i, cells h i = Some n -> forall q, nnext n = Some q -> cells h q <> None).
    { intros n i Hn q Eq. destruct (lk_next _ _ _ (LK i n Hn) q Eq) as (m & -> & _). discriminate. }
    assert (Lpv : forall (n : node) i, cells h i = Some n -> forall q, nprev n = Some q -> cells h q <> None).
    { intros n i Hn q Eq. destruct (lk_prev _ _ _ (LK i n Hn) q Eq) as (m & -> & _). discriminate. }
    assert (Lpr : forall (n : node) i, cells h i = Some n -> forall q, npar n = Some q -> cells h q <> None).
    { intros n i Hn q Eq. destruct (lk_par _ _ _ (LK i n Hn) q Eq) as (m & -> & _). discriminate. }
    destruct (pt_spec h1 a P1) as (h2 & E2 & [M2a M2b] & C2).
    { rewrite C1. unfold c1. rewrite Nat.eqb_refl. reflexivity. }
    { unfold P1. cbn [nnext]. apply Hsub. exact Sb1. }
    { unfold P1. cbn [nprev]. apply Hsub. exact Sb2. }
    { unfold P1. cbn [npar]. exact PBa. }
    { unfold P1. cbn [nnext]. apply Lsub; [apply (Lnx B b HB)|exact LvB]. }
    { unfold P1. cbn [nprev]. apply Lsub; [apply (Lpv B b HB)|exact LvB]. }
    { unfold P1. cbn [npar]. intros q Eq. apply Lv1. exact (Lpr B b HB q Eq). }
    rewrite E2. cbn [rbind].
    assert (Lv2 : forall q, cells h1 q <> None -> cells h2 q <> None).
    { intros q Hq. rewrite C2. destruct (cells h1 q); [discriminate|contradiction]. }
    assert (HS2 : cells h2 b = Some S2).
    { rewrite C2, C1. unfold c1. rewrite (proj2 (Nat.eqb_neq b a)) by congruence. rewrite Nat.eqb_refl. reflexivity. }
    (* the fields of sec after node_attach(pri): what they were *)
    assert (S2n : nnext S2 = nnext S1 \/ nnext S2 = Some a).
    { unfold S2, ptf. cbn [nnext]. destruct (peq (Some b) (nprev P1)); auto. }
    assert (S2p : nprev S2 = nprev S1 \/ nprev S2 = Some a).
    { unfold S2, ptf. cbn [nprev]. destruct (peq (Some b) (nnext P1)); auto. }
    assert (S2r : npar S2 = npar A) by reflexivity.
    destruct (pt_spec h2 b S2 HS2) as (h3 & E3 & [M3a M3b] & C3).
    { destruct S2n as [->| ->]; [|congruence]. unfold S1. cbn [nnext]. apply Hsub. exact Sa1. }
    { destruct S2p as [->| ->]; [|congruence]. unfold S1. cbn [nprev]. apply Hsub. exact Sa2. }
    { rewrite S2r. exact PAb. }
    { intros q Eq. apply Lv2. destruct S2n as [E| E]; rewrite E in Eq.
      - unfold S1 in Eq. cbn [nnext] in Eq. revert q Eq. apply Lsub; [apply (Lnx A a HA)|exact LvA].
      - inversion Eq; subst. apply Lv1. exact LvA. }
    { intros q Eq. apply Lv2. destruct S2p as [E| E]; rewrite E in Eq.
      - unfold S1 in Eq. cbn [nprev] in Eq. revert q Eq. apply Lsub; [apply (Lpv A a HA)|exact LvA].
      - inversion Eq; subst. apply Lv1. exact LvA. }
    { rewrite S2r. intros q Eq. apply Lv2, Lv1. exact (Lpr A a HA q Eq). }
    rewrite E3. exists h3. split; [reflexivity|]. split.
    - split; [rewrite M3a, M2a|rewrite M3b, M2b]; reflexivity.
    - intros i. rewrite C3, C2, C1. reflexivity.
  Qed.
  (* ---- the link facts as boolean equations ---- *)
  Lemma lb_next i ci x X : cells h i = Some ci -> cells h x = Some X ->
    peq (nprev ci) (Some x) = peq (Some i) (nnext X).
  Proof.
    intros Hi Hx. apply eq_true_iff_eq. rewrite !peq_true_iff. split; intros E.
    - destruct (lk_prev _ _ _ (LK i ci Hi) x E) as (m & Hm & En & _). rewrite Hx in Hm. inversion Hm; subst. symmetry. exact En.
    - symmetry in E. destruct (lk_next _ _ _ (LK x X Hx) i E) as (m & Hm & En & _). rewrite Hi in Hm. inversion Hm; subst. exact En.
  Qed.
  Lemma lb_prev i ci x X : cells h i = Some ci -> cells h x = Some X ->
    peq (nnext ci) (Some x) = peq (Some i) (nprev X).
  Proof.
    intros Hi Hx. apply eq_true_iff_eq. rewrite !peq_true_iff. split; intros E.
    - destruct (lk_next _ _ _ (LK i ci Hi) x E) as (m & Hm & En & _). rewrite Hx in Hm. inversion Hm; subst. symmetry. exact En.
    - symmetry in E. destruct (lk_prev _ _ _ (LK x X Hx) i E) as (m & Hm & En & _). rewrite Hi in Hm. inversion Hm; subst. exact En.
  Qed.
  Lemma lb_kid i ci x X : cells h i = Some ci -> cells h x = Some X ->
    peq (nkid ci) (Some x) = (match nprev X with None => true | Some _ => false end) && peq (Some i) (npar X).
  Proof.
    intros Hi Hx. apply eq_true_iff_eq. rewrite andb_true_iff, !peq_true_iff. split.
    - intros E. destruct (lk_kid _ _ _ (LK i ci Hi) x E) as (m & Hm & Ep & Ev). rewrite Hx in Hm. inversion Hm; subst.
      rewrite Ev. auto.
    - intros [Ev E]. symmetry in E. destruct (lk_par _ _ _ (LK x X Hx) i E) as (m & Hm & Ek). rewrite Hi in Hm. inversion Hm; subst.
      apply Ek. destruct (nprev X); [discriminate|reflexivity].
  Qed.

  Notation rp := (rhop a b).

  Lemma rhop_if p : rp p = if peq p (Some a) then Some b else if peq p (Some b) then Some a else p.
  Proof.
    destruct p as [x|]; [|reflexivity]. cbn [rhop option_map peq]. unfold rho.
    destruct (x =? a); [reflexivity|]. destruct (x =? b); reflexivity.
  Qed.
  Lemma subp_ab p : p <> Some b -> subp p a b = rp p.
  Proof.
    intros H. rewrite rhop_if. unfold subp. destruct (peq p (Some a)); [reflexivity|].
    rewrite (proj2 (peq_false_iff p (Some b)) H). reflexivity.
  Qed.
  Lemma subp_ba p : p <> Some a -> subp p b a = rp p.
  Proof.
    intros H. rewrite rhop_if. unfold subp. rewrite (proj2 (peq_false_iff p (Some a)) H). reflexivity.
  Qed.
  Lemma peq_rp i p : i <> a -> i <> b -> peq (Some i) (rp p) = peq (Some i) p.
  Proof.
    intros H1 H2. rewrite rhop_if. destruct (peq p (Some a)) eqn:E1.
    - apply peq_true_iff in E1. subst. cbn. rewrite (proj2 (Nat.eqb_neq i b) H2), (proj2 (Nat.eqb_neq i a) H1). reflexivity.
    - destruct (peq p (Some b)) eqn:E2; [|reflexivity].
      apply peq_true_iff in E2. subst. cbn. rewrite (proj2 (Nat.eqb_neq i b) H2), (proj2 (Nat.eqb_neq i a) H1). reflexivity.
  Qed.

  Let La := LK a A HA.
  Let Lb := LK b B HB.

  Lemma P1_fields : nnext P1 = rp (nnext B) /\ nprev P1 = rp (nprev B) /\ npar P1 = npar B.
  Proof.
    destruct (lk_self _ _ _ Lb) as (S1' & S2' & _). unfold P1. cbn [nnext nprev npar].
    rewrite (subp_ab _ S1'), (subp_ab _ S2'). auto.
  Qed.

  Lemma S2_fields : nnext S2 = rp (nnext A) /\ nprev S2 = rp (nprev A) /\ npar S2 = npar A.
  Proof.
    destruct (lk_self _ _ _ La) as (Sa1 & Sa2 & _). destruct (lk_self _ _ _ Lb) as (Sb1 & Sb2 & _).
    destruct P1_fields as (Pn & Pp & _).
    unfold S2, ptf. cbn [nnext nprev npar]. rewrite Pn, Pp. unfold S1. cbn [nnext nprev npar].
    rewrite (subp_ba _ Sa1), (subp_ba _ Sa2). repeat split.
    - destruct (peq (Some b) (rp (nprev B))) eqn:E; [|reflexivity].
      apply peq_true_iff in E. rewrite rhop_if in E.
      assert (Ev : nprev B = Some a).
      { destruct (peq (nprev B) (Some a)) eqn:E1; [apply peq_true_iff; exact E1|].
        destruct (peq (nprev B) (Some b)) eqn:E2; [inversion E; congruence|]. symmetry in E. contradiction. }
      pose proof (lb_prev a A b B HA HB) as K. rewrite Ev in K. cbn [peq] in K. rewrite Nat.eqb_refl in K.
      apply peq_true_iff in K. rewrite K. cbn [rhop option_map]. unfold rho. rewrite Nat.eqb_refl.
      destruct (Nat.eqb_spec b a); [congruence|reflexivity].
    - destruct (peq (Some b) (rp (nnext B))) eqn:E; [|reflexivity].
      apply peq_true_iff in E. rewrite rhop_if in E.
      assert (Ev : nnext B = Some a).
      { destruct (peq (nnext B) (Some a)) eqn:E1; [apply peq_true_iff; exact E1|].
        destruct (peq (nnext B) (Some b)) eqn:E2; [inversion E; congruence|]. symmetry in E. contradiction. }
      pose proof (lb_next a A b B HA HB) as K. rewrite Ev in K. cbn [peq] in K. rewrite Nat.eqb_refl in K.
      apply peq_true_iff in K. rewrite K. cbn [rhop option_map]. unfold rho. rewrite Nat.eqb_refl.
      destruct (Nat.eqb_spec b a); [congruence|reflexivity].
  Qed.
  Lemma rp_fix p : p <> Some a -> p <> Some b -> rp p = p.
  Proof.
    intros H1 H2. rewrite rhop_if, (proj2 (peq_false_iff _ _) H1), (proj2 (peq_false_iff _ _) H2). reflexivity.
  Qed.

  Lemma rp_none p : match rp p with Some _ => false | None => true end = match p with Some _ => false | None => true end.
  Proof. destruct p; reflexivity. Qed.

  Lemma rp_cases p : (if peq p (Some a) then Some b else if peq p (Some b) then Some a else p) = rp p.
  Proof. symmetry. apply rhop_if. Qed.

  (* the cell of every node that is not a child of a or b, after the switch *)
  Lemma switch_sw h' :
    (forall i, cells h' i = option_map (ptf b S2 i) (option_map (ptf a P1 i) (c1 i))) ->
    forall i ci, cells h i = Some ci -> npar ci <> Some a -> npar ci <> Some b ->
    exists ci' own, cells h' (rho a b i) = Some ci' /\ cells h (rho a b i) = Some own /\
      nnext ci' = rp (nnext ci) /\ nprev ci' = rp (nprev ci) /\ npar ci' = rp (npar ci) /\
      (i <> a -> i <> b -> nkid ci' = rp (nkid ci)) /\
      ((i = a \/ i = b) -> nkid ci' = nkid own) /\
      nname ci' = nname own /\ nval ci' = nval own.
  Proof.
    intros C i ci Hi Npa Npb.
    destruct P1_fields as (Pn & Pp & Pr). destruct S2_fields as (Sn & Sp & Sr).
    destruct (lk_self _ _ _ La) as (Sa1 & Sa2 & Sa3 & Sa4). destruct (lk_self _ _ _ Lb) as (Sb1 & Sb2 & Sb3 & Sb4).
    assert (Eba : (b =? a) = false) by (apply Nat.eqb_neq; congruence).
    assert (Eab : (a =? b) = false) by (apply Nat.eqb_neq; congruence).
    destruct (Nat.eq_dec i a) as [->|Nia]; [|destruct (Nat.eq_dec i b) as [->|Nib]].
    - (* i = a: its links go to the cell of b *)
      rewrite HA in Hi. inversion Hi; subst ci. clear Hi.
      assert (Er : rho a b a = b) by (unfold rho; rewrite Nat.eqb_refl; reflexivity). rewrite Er.
      rewrite C. unfold c1. rewrite Eba, Nat.eqb_refl. cbn [option_map].
      eexists _, B. split; [reflexivity|]. split; [exact HB|].
      unfold ptf. cbn [nnext nprev npar nkid nname nval]. rewrite Pn, Pp, Pr, Sn, Sp, Sr.
      unfold S1. cbn [nnext nprev npar nkid nname nval].
      rewrite (subp_ba _ Sa1), (subp_ba _ Sa2).
      (* no write of node_attach changes what sec already holds *)
      assert (H1 : peq (Some b) (rp (nprev A)) = false).
      { apply peq_false_iff. rewrite rhop_if. intros K.
        destruct (peq (nprev A) (Some a)) eqn:E1; [apply peq_true_iff in E1; contradiction|].
        destruct (peq (nprev A) (Some b)) eqn:E2; [inversion K; congruence|]. apply peq_false_iff in E2. congruence. }
      assert (H2 : peq (Some b) (rp (nnext A)) = false).
      { apply peq_false_iff. rewrite rhop_if. intros K.
        destruct (peq (nnext A) (Some a)) eqn:E1; [apply peq_true_iff in E1; contradiction|].
        destruct (peq (nnext A) (Some b)) eqn:E2; [inversion K; congruence|]. apply peq_false_iff in E2. congruence. }
      rewrite H1, H2.
      assert (H3 : peq (Some b) (npar A) = false) by (apply peq_false_iff; congruence).
      assert (H4 : peq (Some b) (npar B) = false) by (apply peq_false_iff; congruence).
      rewrite H3, H4, !andb_false_r.
      repeat split.
      + destruct (peq (Some b) (rp (nprev B))) eqn:E; [|reflexivity].
        apply peq_true_iff in E. rewrite rhop_if in E.
        assert (Ev : nprev B = Some a).
        { destruct (peq (nprev B) (Some a)) eqn:E1; [apply peq_true_iff; exact E1|].
          destruct (peq (nprev B) (Some b)) eqn:E2; [inversion E; congruence|]. symmetry in E. contradiction. }
        pose proof (lb_prev a A b B HA HB) as K. rewrite Ev in K. cbn [peq] in K. rewrite Nat.eqb_refl in K.
        apply peq_true_iff in K. rewrite K. cbn [rhop option_map]. unfold rho. rewrite Eba, Nat.eqb_refl. reflexivity.
      + destruct (peq (Some b) (rp (nnext B))) eqn:E; [|reflexivity].
        apply peq_true_iff in E. rewrite rhop_if in E.
        assert (Ev : nnext B = Some a).
        { destruct (peq (nnext B) (Some a)) eqn:E1; [apply peq_true_iff; exact E1|].
          destruct (peq (nnext B) (Some b)) eqn:E2; [inversion E; congruence|]. symmetry in E. contradiction. }
        pose proof (lb_next a A b B HA HB) as K. rewrite Ev in K. cbn [peq] in K. rewrite Nat.eqb_refl in K.
        apply peq_true_iff in K. rewrite K. cbn [rhop option_map]. unfold rho. rewrite Eba, Nat.eqb_refl. reflexivity.
      + symmetry. apply rp_fix; assumption.
      + intros K. contradiction.
    - (* i = b: its links go to the cell of a *)
      rewrite HB in Hi. inversion Hi; subst ci. clear Hi.
      assert (Er : rho a b b = a) by (unfold rho; rewrite Eba, Nat.eqb_refl; reflexivity). rewrite Er.
      rewrite C. unfold c1. rewrite Nat.eqb_refl. cbn [option_map].
      eexists _, A. split; [reflexivity|]. split; [exact HA|].
      unfold ptf. cbn [nnext nprev npar nkid nname nval]. rewrite Pn, Pp, Pr, Sn, Sp, Sr.
      unfold P1. cbn [nnext nprev npar nkid nname nval].
      assert (H1 : peq (Some a) (rp (nprev B)) = false).
      { apply peq_false_iff. rewrite rhop_if. intros K.
        destruct (peq (nprev B) (Some a)) eqn:E1; [inversion K; congruence|].
        destruct (peq (nprev B) (Some b)) eqn:E2; [apply peq_true_iff in E2; contradiction|]. apply peq_false_iff in E1. congruence. }
      assert (H2 : peq (Some a) (rp (nnext B)) = false).
      { apply peq_false_iff. rewrite rhop_if. intros K.
        destruct (peq (nnext B) (Some a)) eqn:E1; [inversion K; congruence|].
        destruct (peq (nnext B) (Some b)) eqn:E2; [apply peq_true_iff in E2; contradiction|]. apply peq_false_iff in E1. congruence. }
      rewrite H1, H2.
      assert (H3 : peq (Some a) (npar A) = false) by (apply peq_false_iff; congruence).
      assert (H4 : peq (Some a) (npar B) = false) by (apply peq_false_iff; congruence).
      rewrite H3, H4, !andb_false_r.
      repeat split.
      + destruct (peq (Some a) (rp (nprev A))) eqn:E; [|reflexivity].
        apply peq_true_iff in E. rewrite rhop_if in E.
        assert (Ev : nprev A = Some b).
        { destruct (peq (nprev A) (Some a)) eqn:E1; [inversion E; congruence|].
          destruct (peq (nprev A) (Some b)) eqn:E2; [apply peq_true_iff; exact E2|]. symmetry in E. contradiction. }
        pose proof (lb_prev b B a A HB HA) as K. rewrite Ev in K. cbn [peq] in K. rewrite Nat.eqb_refl in K.
        apply peq_true_iff in K. rewrite K. cbn [rhop option_map]. unfold rho. rewrite Nat.eqb_refl. reflexivity.
      + destruct (peq (Some a) (rp (nnext A))) eqn:E; [|reflexivity].
        apply peq_true_iff in E. rewrite rhop_if in E.
        assert (Ev : nnext A = Some b).
        { destruct (peq (nnext A) (Some a)) eqn:E1; [inversion E; congruence|].
          destruct (peq (nnext A) (Some b)) eqn:E2; [apply peq_true_iff; exact E2|]. symmetry in E. contradiction. }
        pose proof (lb_next b B a A HB HA) as K. rewrite Ev in K. cbn [peq] in K. rewrite Nat.eqb_refl in K.
        apply peq_true_iff in K. rewrite K. cbn [rhop option_map]. unfold rho. rewrite Nat.eqb_refl. reflexivity.
      + symmetry. apply rp_fix; assumption.
      + intros K. contradiction.
    - (* any other node: the links that named a now name b and vice versa *)
      assert (Er : rho a b i = i).
      { unfold rho. rewrite (proj2 (Nat.eqb_neq i a) Nia), (proj2 (Nat.eqb_neq i b) Nib). reflexivity. }
      rewrite Er. rewrite C. unfold c1. rewrite (proj2 (Nat.eqb_neq i a) Nia), (proj2 (Nat.eqb_neq i b) Nib), Hi.
      cbn [option_map]. eexists _, ci. split; [reflexivity|]. split; [reflexivity|].
      unfold ptf. cbn [nnext nprev npar nkid nname nval]. rewrite Pn, Pp, Pr, Sn, Sp, Sr.
      rewrite !(peq_rp i _ Nia Nib), !rp_none.
      rewrite <- (lb_prev i ci a A Hi HA), <- (lb_prev i ci b B Hi HB).
      rewrite <- (lb_next i ci a A Hi HA), <- (lb_next i ci b B Hi HB).
      rewrite <- (lb_kid i ci a A Hi HA), <- (lb_kid i ci b B Hi HB).
      repeat split.
      + apply rp_cases.
      + apply rp_cases.
      + symmetry. apply rp_fix; assumption.
      + intros _ _. apply rp_cases.
      + intros [K|K]; contradiction.
  Qed.

  (* a cell none of whose links names a or b is untouched; so is a dead cell *)
  Lemma switch_same h' :
    (forall i, cells h' i = option_map (ptf b S2 i) (option_map (ptf a P1 i) (c1 i))) ->
    forall i ci, cells h i = Some ci -> i <> a -> i <> b ->
    (forall x, x = a \/ x = b -> nnext ci <> Some x /\ nprev ci <> Some x /\ nkid ci <> Some x) ->
    cells h' i = Some ci.
  Proof.
    intros C i ci Hci Nia Nib Hn.
    destruct P1_fields as (Pn & Pp & Pr). destruct S2_fields as (Sn & Sp & Sr).
    rewrite C. unfold c1. rewrite (proj2 (Nat.eqb_neq i a) Nia), (proj2 (Nat.eqb_neq i b) Nib), Hci.
    cbn [option_map]. f_equal. unfold ptf. cbn [nnext nprev npar nkid nname nval]. rewrite Pn, Pp, Pr, Sn, Sp, Sr.
    rewrite !(peq_rp i _ Nia Nib), !rp_none.
    rewrite <- (lb_prev i ci a A Hci HA), <- (lb_prev i ci b B Hci HB).
    rewrite <- (lb_next i ci a A Hci HA), <- (lb_next i ci b B Hci HB).
    rewrite <- (lb_kid i ci a A Hci HA), <- (lb_kid i ci b B Hci HB).
    destruct (Hn a (or_introl eq_refl)) as (K1 & K2 & K3). destruct (Hn b (or_intror eq_refl)) as (K4 & K5 & K6).
    rewrite (proj2 (peq_false_iff _ _) K1), (proj2 (peq_false_iff _ _) K2), (proj2 (peq_false_iff _ _) K3),
      (proj2 (peq_false_iff _ _) K4), (proj2 (peq_false_iff _ _) K5), (proj2 (peq_false_iff _ _) K6).
    symmetry. apply node_eta.
  Qed.

  Lemma switch_dead h' :
    (forall i, cells h' i = option_map (ptf b S2 i) (option_map (ptf a P1 i) (c1 i))) ->
    forall i, cells h i = None -> cells h' i = None.
  Proof.
    intros C i Hi. rewrite C. unfold c1.
    destruct (Nat.eqb_spec i a) as [->|]; [congruence|]. destruct (Nat.eqb_spec i b) as [->|]; [congruence|].
    rewrite Hi. reflexivity.
  Qed.
End Switch.

(* ---------------------------------------------------------------- cells that do not mention a node *)
Definition no_mention (x : nat) (nd : node) : Prop :=
  nnext nd <> Some x /\ nprev nd <> Some x /\ nkid nd <> Some x.

Definition nm_tree (x : nat) (t : tree) : Prop :=
  forall par prv nxt, ~ In x (ids_t t) -> nxt <> Some x -> prv <> Some x ->
  forall e, In e (exp_t par prv t nxt) -> no_mention x (snd e).

Lemma tid_in_ids t : In (tid t) (ids_t t).
Proof. destruct t. rewrite ids_t_eq. left. reflexivity. Qed.

Lemma nm_list x : forall l par prv aft,
  Forall (nm_tree x) l -> ~ In x (ids_f l) -> aft <> Some x -> prv <> Some x ->
  forall e, In e (exp_l par prv l aft) -> no_mention x (snd e).
Proof.
  induction l as [|t r IH]; intros par prv aft F Hl Ha Hp e He; [contradiction|].
  inversion F as [|? ? Ft Fr]; subst. rewrite ids_f_cons in Hl. rewrite exp_l_cons in He.
  apply in_app_or in He. destruct He as [He|He].
  - apply (Ft par prv (hid_or r aft)); auto.
    + intros K. apply Hl. apply in_or_app. auto.
    + destruct r as [|t' r']; cbn [hid_or]; [exact Ha|].
      intros E. inversion E. apply Hl. apply in_or_app. right. rewrite ids_f_cons. apply in_or_app. left.
      rewrite <- H0. apply tid_in_ids.
  - apply (IH par (Some (tid t)) aft Fr); auto.
    + intros K. apply Hl. apply in_or_app. auto.
    + intros E. inversion E. apply Hl. apply in_or_app. left. rewrite <- H0. apply tid_in_ids.
Qed.

Lemma nm_tree_all x t : nm_tree x t.
Proof.
  induction t as [j n v k IH] using tree_ind'. intros par prv nxt Hx Hn Hp e He.
  rewrite ids_t_eq in Hx. rewrite exp_t_eq in He. destruct He as [<-|He].
  - cbn [snd]. repeat split; cbn [nnext nprev nkid]; auto.
    intros E. apply Hx. right. apply hid_in_ids'. exact E.
  - apply (nm_list x k (Some j) None None IH); auto; try discriminate.
    intros K. apply Hx. right. exact K.
Qed.

Lemma rep_l_no_mention c x par prv l aft i ci :
  rep_l c par prv l aft -> ~ In x (ids_f l) -> aft <> Some x -> prv <> Some x ->
  In i (ids_f l) -> c i = Some ci -> no_mention x ci.
Proof.
  intros R Hx Ha Hp Hi Hc.
  rewrite <- (keys_exp_l l par prv aft) in Hi. apply in_map_iff in Hi. destruct Hi as ([i' nd] & E & Hin). cbn in E. subst i'.
  unfold rep_l, repc in R. rewrite Forall_forall in R. pose proof (R _ Hin) as E. cbn [fst snd] in E.
  rewrite Hc in E. inversion E; subst nd.
  apply (nm_list x l par prv aft) with (e := (i, ci)); auto.
  apply Forall_forall. intros t _. apply nm_tree_all.
Qed.
