(* C14/NodeInsert.v — mpt_gnode_add / mpt_node_add / mpt_gnode_insert / mpt_node_insert:
   the node ends up at the list index the specification computes from the position code. *)
From Coq Require Import List Arith ZArith Bool Lia Permutation Wf_nat.
From MptV Require Import C14.NodeModel C14.NodeSpec C14.NodeRep C14.NodeFocus C14.NodeExec
  C14.NodeLocal C14.NodeInv C14.NodeRefine C14.NodeFree C14.NodeClone C14.NodePos.
Import ListNotations.
Local Open Scope nat_scope.

(* one gnode_after / gnode_before at the j-th element = insertion at an index *)
Lemma insert_rep h frs o l tx j (b : bool) :
  let st := [tx] :: plug (frs, o) l in
  rep_st (cells h) st -> NoDup (ids_st st) -> j < length l ->
  exists h', (if b then gnode_after else gnode_before) h (nth_id l j) (Some (tid tx)) = ROk (h', Some (tid tx)) /\
    same_meta h h' /\
    rep_st (cells h') (plug (frs, o) (insert_at (if b then S j else j) tx l)) /\
    (forall i, ~ In i (ids_st st) -> cells h' i = cells h i).
Proof.
  intros st R ND Hj. subst st. destruct (nth_id_some l j Hj) as (tp & E & Ei).
  destruct (insert_at_split l j tp tx E) as (El & Ea & Eb).
  rewrite Ei. rewrite El in R, ND.
  destruct b.
  - destruct (after_rep _ _ _ _ _ _ _ R ND) as (h' & E' & M & R' & F).
    exists h'. rewrite Ea. rewrite <- El in F. auto.
  - destruct (before_rep _ _ _ _ _ _ _ R ND) as (h' & E' & M & R' & F).
    exists h'. rewrite Eb. rewrite <- El in F. auto.
Qed.

Lemma ids_insert_at l (tx : tree) k :
  Permutation (ids_f (insert_at k tx l)) (ids_t tx ++ ids_f l).
Proof.
  unfold insert_at. rewrite ids_insert_mid, firstn_skipn. reflexivity.
Qed.

Lemma ids_plug_insert_at frs o l tx k :
  Permutation (ids_st (plug (frs, o) (insert_at k tx l))) (ids_st ([tx] :: plug (frs, o) l)).
Proof.
  rewrite ids_st_cons, !ids_plug, ids_insert_at. cbn [ids_f flat_map]. rewrite app_nil_r, <- app_assoc.
  reflexivity.
Qed.

Lemma is_head_iff h s f frs o l1 tf l2 :
  inv h s -> focus f (lists s) = Some ((frs, o), l1, tf, l2) ->
  is_head h f = match l1 with [] => true | _ :: _ => false end.
Proof.
  intros I F. destruct (focus_cell _ _ _ _ _ _ _ _ (i_rep _ _ I) F) as [Hc _].
  unfold is_head. rewrite Hc. cbn [nprev]. destruct (lastid l1 None) eqn:E.
  - destruct l1; [discriminate|reflexivity].
  - apply lastid_nil_inv in E. subst. reflexivity.
Qed.

(* the position walks only read: they see the same list in the state without [tx] *)
Lemma focus_others h s x tx st1 f frs o l1 tf l2 :
  inv h s -> take_single x (lists s) = Some (tx, st1) -> focus f st1 = Some ((frs, o), l1, tf, l2) ->
  cells h f = Some (mkN (hid_or l2 None) (lastid l1 None) (cpar frs) (hid (tkids tf)) (tname tf) (tval tf)).
Proof.
  intros I TS FP. destruct (take_single_perm _ _ _ _ TS) as [P _].
  pose proof (rep_st_perm _ _ _ P (i_rep _ _ I)) as R. rewrite rep_st_cons in R. destruct R as [_ R1].
  exact (proj1 (focus_cell _ _ _ _ _ _ _ _ R1 FP)).
Qed.

(* the first child: parent->children = node; node->parent = parent *)
Lemma first_child_rep h fr frs o tx :
  let st := [tx] :: plug (fr :: frs, o) [] in
  rep_st (cells h) st -> NoDup (ids_st st) ->
  exists h', (do h1 <- wr set_kid h (fi fr) (Some (tid tx)); wr set_par h1 (tid tx) (Some (fi fr))) = ROk h' /\
    same_meta h h' /\
    rep_st (cells h') (plug (fr :: frs, o) [tx]) /\
    (forall i, ~ In i (ids_st st) -> cells h' i = cells h i).
Proof.
  intros st R ND. subst st. destruct tx as [x nx vx kx]. cbn [tid].
  rewrite rep_st_cons, rep_plug in R. destruct R as (Rx & _ & Rf & Ro).
  rewrite rep_l_cons, rep_t_eq in Rx. destruct Rx as ((Hx & Hkx) & _).
  assert (NS : NoDup (concat [[x]; ids_f kx; ids_frs (fr :: frs); ids_st o])).
  { eapply Permutation_NoDup; [|exact ND].
    rewrite ids_st_cons, ids_plug. cbn [concat ids_f flat_map]. rewrite ids_t_eq, !app_nil_r. norm_app. reflexivity. }
  pose proof Rf as Rf0. cbn [rep_frames] in Rf0. destruct Rf0 as (_ & Hp & _).
  set (p := fi fr) in *.
  assert (Hpin : In p (ids_frs (fr :: frs))).
  { cbn [ids_frs flat_map]. apply in_or_app. left. unfold ids_fr. apply in_or_app. right. left. reflexivity. }
  assert (Npx : p <> x) by (intros E; rewrite E in Hpin; seg_absurd NS 2 0).
  rewrite (wr_ok _ _ _ _ _ Hp). cbn [rbind].
  erewrite wr_ok by (rewrite cells_put, (proj2 (Nat.eqb_neq x p)) by congruence; exact Hx).
  match goal with |- exists h', ROk ?hh = ROk h' /\ _ => set (hf := hh) end.
  exists hf. split; [reflexivity|]. split; [split; reflexivity|].
  assert (C : forall i, cells hf i =
                        if i =? x then Some (mkN None None (Some p) (hid kx) nx vx)
                        else if i =? p then option_map (set_kid (Some x)) (cells h p) else cells h i).
  { intros i. unfold hf. rewrite !cells_put. destruct (i =? x); [reflexivity|]. destruct (i =? p); [rewrite Hp|]; reflexivity. }
  split.
  - rewrite rep_plug. split; [|split].
    + rewrite rep_l_cons, rep_t_eq. cbn [hid_or tid cpar]. fold p. repeat split; [| |apply rep_l_nil].
      * rewrite C, Nat.eqb_refl. reflexivity.
      * eapply rep_l_frame; [exact Hkx|]. intros i Hi. rewrite C.
        destruct (Nat.eqb_spec i x) as [->|]; [seg_absurd NS 1 0|].
        destruct (Nat.eqb_spec i p) as [->|]; [seg_absurd NS 1 2|reflexivity].
    + cbn [hid tid]. eapply rep_frames_hd'; [exact Rf|exact (NoDup_concat_nth _ 2 NS)|].
      intros i Hi. rewrite C. cbn [cpar peq]. fold p.
      destruct (Nat.eqb_spec i x) as [->|]; [seg_absurd NS 2 0|].
      destruct (Nat.eqb_spec i p) as [->|]; reflexivity.
    + eapply rep_st_frame; [exact Ro|]. intros i Hi. rewrite C.
      destruct (Nat.eqb_spec i x) as [->|]; [seg_absurd NS 3 0|].
      destruct (Nat.eqb_spec i p) as [->|]; [seg_absurd NS 3 2|reflexivity].
  - intros i Hi. rewrite C.
    destruct (Nat.eqb_spec i x) as [->|].
    { exfalso. apply Hi. rewrite ids_st_cons, ids_f_cons, ids_t_eq. left. reflexivity. }
    destruct (Nat.eqb_spec i p) as [->|]; [|reflexivity].
    exfalso. apply Hi. rewrite ids_st_cons. apply in_or_app. right.
    eapply Permutation_in; [symmetry; apply ids_plug|]. apply in_or_app. right. apply in_or_app. left. exact Hpin.
Qed.

Section Positions.
  (* what is needed from node_insert for one insertion strategy *)
  Variable bn : bool.
  Hypothesis walk : forall h par l x nx pos,
    rep_l (cells h) par None l None -> l <> [] -> length l <= nextid h ->
    cells h x = Some nx ->
    exists j (b : bool), j < length l /\
      (if b then S j else j) = (if bn then npos_index l (nname nx) pos else gpos_index (length l) pos) /\
      node_insert bn h (match hid l with Some f => f | None => 0 end) pos x =
      (if b then do '(h, _) <- gnode_after h (nth_id l j) (Some x); ROk h
       else do '(h, _) <- gnode_before h (nth_id l j) (Some x); ROk h).

  (* node_insert into the non-empty list [l] that sits in context (frs, o) *)
  Lemma node_insert_rep h s x tx st1 frs o l pos :
    inv h s -> take_single x (lists s) = Some (tx, st1) ->
    Permutation st1 (plug (frs, o) l) -> l <> [] ->
    exists h', node_insert bn h (match hid l with Some f => f | None => 0 end) pos x = ROk h' /\
      inv h' (with_lists s (plug (frs, o) (insert_at (pos_index bn l tx pos) tx l))).
  Proof.
    intros I TS P1 Hne. destruct (take_single_perm _ _ _ _ TS) as [P Ex].
    assert (PP : Permutation (lists s) ([tx] :: plug (frs, o) l)).
    { etransitivity; [exact P|]. apply perm_skip. exact P1. }
    pose proof (rep_st_perm _ _ _ PP (i_rep _ _ I)) as R.
    assert (ND : NoDup (ids_st ([tx] :: plug (frs, o) l))).
    { eapply Permutation_NoDup; [apply ids_st_perm; exact PP|exact (inv_nodup _ _ I)]. }
    pose proof R as R0. rewrite rep_st_cons, rep_plug in R0. destruct R0 as (Rx & Rl & _).
    destruct tx as [x' nx vx kx]. cbn [tid] in Ex. subst x'.
    rewrite rep_l_cons, rep_t_eq in Rx. destruct Rx as ((Hx & _) & _).
    assert (Len : length l <= nextid h).
    { etransitivity; [apply length_le_ids|]. etransitivity; [|exact (inv_length _ _ I)].
      rewrite (Permutation_length (ids_st_perm _ _ PP)), ids_st_cons, app_length.
      rewrite (Permutation_length (ids_plug frs o l)), app_length. lia. }
    destruct (walk h (cpar frs) l x _ pos Rl Hne Len Hx) as (j & b & Hj & Ei & En).
    rewrite En.
    destruct (insert_rep h frs o l (T x nx vx kx) j b R ND Hj) as (h' & E' & M & R' & F).
    cbn [tid] in E'.
    assert (E'' : (if b then do '(h, _) <- gnode_after h (nth_id l j) (Some x); ROk h
                   else do '(h, _) <- gnode_before h (nth_id l j) (Some x); ROk h) = ROk h').
    { destruct b; rewrite E'; reflexivity. }
    rewrite E''. exists h'. split; [reflexivity|].
    assert (Eidx : pos_index bn l (T x nx vx kx) pos = if b then S j else j).
    { unfold pos_index. cbn [tname nname] in *. rewrite Ei. reflexivity. }
    rewrite Eidx.
    apply (inv_relink _ _ _ _ I M R').
    - rewrite ids_plug_insert_at. symmetry. apply ids_st_perm. exact PP.
    - intros i Hi. apply F. intros K. apply Hi. eapply Permutation_in; [symmetry; apply ids_st_perm; exact PP|exact K].
  Qed.

  (* mpt_gnode_add / mpt_node_add *)
  Lemma step_add_gen f pos x : refines_step (OAdd bn f pos x).
  Proof.
    intros h s I. cbn [mstep sstep].
    destruct (Nat.eq_dec f x) as [->|Nfx].
    { (* a node cannot be added next to itself: both sides refuse *)
      unfold can_link. rewrite (live_iff _ _ _ I), (unlinked_iff _ _ _ I). unfold link_with.
      destruct (take_single x (lists s)) as [[tx st1]|] eqn:TS.
      - assert (Sl : slive s x = true).
        { apply mem_in. eapply focus_in. exact (take_single_inv _ _ _ _ TS). }
        rewrite Sl. cbn [andb]. unfold fuel_of. cbn [anc_or_eq]. rewrite Nat.eqb_refl. cbn [rbind negb andb].
        destruct (focus x st1) as [[[[[frs o] l1] tf] l2]|] eqn:FP.
        + exfalso. destruct (take_single_perm _ _ _ _ TS) as [P Ex].
          pose proof (inv_nodup _ _ I) as ND.
          eapply Permutation_NoDup in ND; [|apply ids_st_perm; exact P].
          rewrite ids_st_cons in ND. apply NoDup_app_inv in ND. destruct ND as (_ & _ & Dj).
          apply (Dj x); [|eapply focus_in; exact FP].
          destruct tx as [x' ? ? ?]. cbn [tid] in Ex. subst x'. rewrite ids_f_cons, ids_t_eq. left. reflexivity.
        + cbn [fst snd]. eexists; split; [reflexivity|exact I].
      - rewrite andb_false_r. cbn [rbind andb fst snd]. eexists; split; [reflexivity|exact I]. }
    rewrite (can_link_spec _ _ _ _ I Nfx). cbn [rbind]. unfold link_with.
    destruct (take_single x (lists s)) as [[tx st1]|] eqn:TS; [|cbn [andb fst snd]; eexists; split; [reflexivity|exact I]].
    destruct (focus f st1) as [[[[[frs o] l1] tf] l2]|] eqn:FP; [|cbn [andb fst snd]; eexists; split; [reflexivity|exact I]].
    cbn [andb].
    assert (Hd : is_head h f = match l1 with [] => true | _ :: _ => false end).
    { pose proof (focus_others _ _ _ _ _ _ _ _ _ _ _ I TS FP) as Hc.
      unfold is_head. rewrite Hc. cbn [nprev]. destruct (lastid l1 None) eqn:E.
      - destruct l1; [discriminate|reflexivity].
      - apply lastid_nil_inv in E. subst. reflexivity. }
    rewrite Hd. destruct l1 as [|t1 r1]; [|cbn [fst snd]; eexists; split; [reflexivity|exact I]].
    cbn [fst snd app]. destruct (focus_perm _ _ _ _ _ _ _ FP) as [P1 Ef]. cbn [app] in P1.
    destruct (node_insert_rep h s x tx st1 frs o (tf :: l2) pos I TS P1 ltac:(discriminate)) as (h' & E & I').
    cbn [hid] in E. rewrite Ef in E. unfold node_add. rewrite E. cbn [rbind].
    exists h'. split; [reflexivity|exact I'].
  Qed.
  (* mpt_gnode_insert / mpt_node_insert *)
  Lemma step_ins_gen p pos x : refines_step (OIns bn p pos x).
  Proof.
    intros h s I. cbn [mstep sstep].
    destruct (Nat.eq_dec p x) as [->|Npx].
    { unfold can_link. rewrite (live_iff _ _ _ I), (unlinked_iff _ _ _ I). unfold link_with.
      destruct (take_single x (lists s)) as [[tx st1]|] eqn:TS.
      - assert (Sl : slive s x = true).
        { apply mem_in. eapply focus_in. exact (take_single_inv _ _ _ _ TS). }
        rewrite Sl. cbn [andb]. unfold fuel_of. cbn [anc_or_eq]. rewrite Nat.eqb_refl. cbn [rbind negb andb].
        destruct (focus x st1) as [[[[[frs o] l1] tf] l2]|] eqn:FP.
        + exfalso. destruct (take_single_perm _ _ _ _ TS) as [P Ex].
          pose proof (inv_nodup _ _ I) as ND.
          eapply Permutation_NoDup in ND; [|apply ids_st_perm; exact P].
          rewrite ids_st_cons in ND. apply NoDup_app_inv in ND. destruct ND as (_ & _ & Dj).
          apply (Dj x); [|eapply focus_in; exact FP].
          destruct tx as [x' ? ? ?]. cbn [tid] in Ex. subst x'. rewrite ids_f_cons, ids_t_eq. left. reflexivity.
        + cbn [fst snd]. eexists; split; [reflexivity|exact I].
      - rewrite andb_false_r. cbn [rbind andb fst snd]. eexists; split; [reflexivity|exact I]. }
    rewrite (can_link_spec _ _ _ _ I Npx). cbn [rbind]. unfold link_with.
    destruct (take_single x (lists s)) as [[tx st1]|] eqn:TS; [|cbn [fst snd]; eexists; split; [reflexivity|exact I]].
    destruct (focus p st1) as [[[[[frs o] l1] tp] l2]|] eqn:FP; [|cbn [fst snd]; eexists; split; [reflexivity|exact I]].
    cbn [fst snd].
    pose proof (focus_others _ _ _ _ _ _ _ _ _ _ _ I TS FP) as Hc.
    destruct (focus_perm _ _ _ _ _ _ _ FP) as [P1 Ep].
    destruct tp as [p' n v k]. cbn [tid tname tval tkids] in *. subst p'.
    unfold node_ins. rewrite (fld_ok _ _ _ _ Hc). cbn [rbind nkid].
    change (plug (frs, o) (l1 ++ T p n v k :: l2)) with (plug (Fr l1 p n v l2 :: frs, o) k) in P1.
    destruct k as [|tk rk].
    - (* first child *)
      cbn [hid]. destruct (take_single_perm _ _ _ _ TS) as [P Ex].
      assert (PP : Permutation (lists s) ([tx] :: plug (Fr l1 p n v l2 :: frs, o) [])).
      { etransitivity; [exact P|]. apply perm_skip. exact P1. }
      pose proof (rep_st_perm _ _ _ PP (i_rep _ _ I)) as R.
      assert (ND : NoDup (ids_st ([tx] :: plug (Fr l1 p n v l2 :: frs, o) []))).
      { eapply Permutation_NoDup; [apply ids_st_perm; exact PP|exact (inv_nodup _ _ I)]. }
      destruct (first_child_rep h (Fr l1 p n v l2) frs o tx R ND) as (h' & E & M & R' & F).
      cbn [fi] in E. rewrite Ex in E.
      destruct (wr set_kid h p (Some x)) as [h1| |] eqn:E1; cbn [rbind] in E |- *; try discriminate.
      rewrite E. cbn [rbind]. exists h'. split; [reflexivity|].
      replace (insert_at (pos_index bn [] tx pos) tx []) with [tx]
        by (unfold insert_at; rewrite firstn_nil, skipn_nil; reflexivity).
      change (plug (frs, o) (l1 ++ T p n v [tx] :: l2)) with (plug (Fr l1 p n v l2 :: frs, o) [tx]).
      apply (inv_relink _ _ _ _ I M R').
      + rewrite (ids_st_perm _ _ PP), ids_st_cons, !ids_plug. cbn [ids_f flat_map]. rewrite !app_nil_r.
        cbn [app]. reflexivity.
      + intros i Hi. apply F. intros K. apply Hi.
        eapply Permutation_in; [symmetry; apply ids_st_perm; exact PP|exact K].
    - destruct (node_insert_rep h s x tx st1 (Fr l1 p n v l2 :: frs) o (tk :: rk) pos I TS P1 ltac:(discriminate))
        as (h' & E & I').
      cbn [hid] in E |- *. rewrite E. cbn [rbind]. exists h'. split; [reflexivity|exact I'].
  Qed.
End Positions.

(* ---------------------------------------------------------------- by absolute position *)
Lemma walk_gnode h par l x nx pos :
  rep_l (cells h) par None l None -> l <> [] -> length l <= nextid h ->
  cells h x = Some nx ->
  exists j (b : bool), j < length l /\
    (if b then S j else j) = (if false then npos_index l (nname nx) pos else gpos_index (length l) pos) /\
    node_insert false h (match hid l with Some f => f | None => 0 end) pos x =
    (if b then do '(h, _) <- gnode_after h (nth_id l j) (Some x); ROk h
     else do '(h, _) <- gnode_before h (nth_id l j) (Some x); ROk h).
Proof. exact (node_insert_gnode h par l x nx pos). Qed.

Lemma step_gadd f pos x : refines_step (OAdd false f pos x).
Proof. exact (step_add_gen false walk_gnode f pos x). Qed.
Lemma step_gins p pos x : refines_step (OIns false p pos x).
Proof. exact (step_ins_gen false walk_gnode p pos x). Qed.
