(* C14/NodeWalk.v — mpt_gnode_relink restores what is already there (identity on a
   represented tree); the traversal orders of gnode_traverse.c visit the nodes in
   the order the specification lists. *)
From Coq Require Import List Arith ZArith Bool Lia Permutation Wf_nat.
From MptV Require Import C14.NodeModel C14.NodeSpec C14.NodeRep C14.NodeFocus C14.NodeExec
  C14.NodeLocal C14.NodeInv C14.NodeRefine C14.NodeFree.
Import ListNotations.
Local Open Scope nat_scope.

Lemma put_same_cells h i n : cells h i = Some n -> forall j, cells (put h i n) j = cells h j.
Proof. intros H j. rewrite cells_put. destruct (Nat.eqb_spec j i) as [->|]; [symmetry; exact H|reflexivity]. Qed.

Lemma inv_same_cells h h' s :
  inv h s -> same_meta h h' -> (forall i, cells h' i = cells h i) -> inv h' s.
Proof.
  intros I [M1 M2] C. constructor.
  - eapply rep_st_frame; [exact (i_rep _ _ I)|]. intros i _. apply C.
  - rewrite M1. exact (i_cnt _ _ I).
  - exact (i_perm _ _ I).
  - intros i Hi. rewrite C in Hi. exact (i_dom _ _ I i Hi).
  - rewrite M2. exact (i_freed _ _ I).
Qed.

Lemma gnode_relink_S f h x :
  gnode_relink (S f) h x = (do c <- fld nkid h (Some x); relink_loop (gnode_relink f) (S f) h x c None).
Proof. reflexivity. Qed.

Lemma relink_loop_spec : forall k h x prv f g,
  rep_l (cells h) (Some x) prv k None -> fsize k < f -> fsize k < g ->
  exists h', relink_loop (gnode_relink f) g h x (hid k) prv = ROk h' /\ same_meta h h' /\
    (forall i, cells h' i = cells h i).
Proof.
  intros k. induction k as [k IH] using (well_founded_induction (well_founded_ltof _ fsize)).
  unfold ltof in IH. intros h x prv f g R Hf Hg.
  destruct k as [|[i n v kk] r].
  { destruct g; [cbn in Hg; lia|]. cbn [hid relink_loop]. exists h. repeat split; auto. }
  rewrite fsize_cons, tsize_eq in Hf, Hg.
  destruct g as [|g]; [lia|]. destruct f as [|f]; [lia|].
  cbn [hid tid relink_loop].
  rewrite rep_l_cons, rep_t_eq in R. destruct R as ((Hi & Hkk) & Hr).
  rewrite (wr_ok _ _ _ _ _ Hi). cbn [rbind].
  set (h1 := put h i (set_par (Some x) (mkN (hid_or r None) prv (Some x) (hid kk) n v))).
  assert (C1 : forall j, cells h1 j = cells h j) by (apply put_same_cells; exact Hi).
  assert (Hi1 : cells h1 i = Some (mkN (hid_or r None) prv (Some x) (hid kk) n v)) by (rewrite C1; exact Hi).
  rewrite (wr_ok _ _ _ _ _ Hi1). cbn [rbind].
  set (h2 := put h1 i (set_prev prv (mkN (hid_or r None) prv (Some x) (hid kk) n v))).
  assert (C2 : forall j, cells h2 j = cells h j).
  { intros j. unfold h2. rewrite (put_same_cells h1 i _ Hi1). apply C1. }
  assert (Hi2 : cells h2 i = Some (mkN (hid_or r None) prv (Some x) (hid kk) n v)) by (rewrite C2; exact Hi).
  rewrite gnode_relink_S. rewrite (fld_ok _ _ _ _ Hi2). cbn [rbind nkid].
  destruct (IH kk) with (h := h2) (x := i) (prv := @None nat) (f := f) (g := S f) as (h3 & E3 & [M3a M3b] & C3);
    try (rewrite ?fsize_cons, ?tsize_eq; lia).
  { eapply rep_l_frame; [exact Hkk|]. intros j _. apply C2. }
  rewrite E3. cbn [rbind].
  assert (Hi3 : cells h3 i = Some (mkN (hid_or r None) prv (Some x) (hid kk) n v)) by (rewrite C3; exact Hi2).
  rewrite (fld_ok _ _ _ _ Hi3). cbn [rbind nnext]. rewrite <- hid_hid_or.
  destruct (IH r) with (h := h3) (x := x) (prv := Some i) (f := S f) (g := g) as (h4 & E4 & [M4a M4b] & C4);
    try (rewrite ?fsize_cons, ?tsize_eq; lia).
  { eapply rep_l_frame; [exact Hr|]. intros j _. rewrite C3. apply C2. }
  rewrite E4. exists h4. split; [reflexivity|]. split.
  - split; [rewrite M4a, M3a; reflexivity|rewrite M4b, M3b; reflexivity].
  - intros j. rewrite C4, C3. apply C2.
Qed.

Lemma step_relink x : refines_step (ORelink x).
Proof.
  intros h s I. cbn [mstep sstep]. rewrite (live_iff _ _ _ I).
  destruct (slive s x) eqn:Sl; cbn [fst snd]; [|eexists; split; [reflexivity|exact I]].
  apply mem_in in Sl. destruct (focus_some _ _ Sl) as (c & l1 & tx & l2 & FX). destruct c as [frs o].
  destruct (focus_cell _ _ _ _ _ _ _ _ (i_rep _ _ I) FX) as [Hc R].
  destruct (focus_perm _ _ _ _ _ _ _ FX) as [P Ex].
  destruct tx as [x' n v kx]. cbn [tid tname tval tkids] in *. subst x'.
  rewrite rep_plug in R. destruct R as (Rl & _ & _). rewrite rep_l_mid in Rl. destruct Rl as (_ & _ & Rk & _).
  assert (Len : fsize kx < nextid h).
  { rewrite fsize_ids. eapply Nat.lt_le_trans; [|exact (inv_length _ _ I)].
    rewrite (Permutation_length (ids_st_perm _ _ P)), (Permutation_length (ids_plug _ _ _)).
    rewrite ids_f_app, ids_f_cons, ids_t_eq, !app_length. cbn [length]. rewrite ?app_length. lia. }
  unfold fuel_of. rewrite gnode_relink_S. rewrite (fld_ok _ _ _ _ Hc). cbn [rbind nkid].
  destruct (relink_loop_spec kx h x None (S (nextid h)) (S (S (nextid h))) Rk) as (h' & E & M & C); try lia.
  rewrite E. cbn [rbind]. exists h'. split; [reflexivity|]. exact (inv_same_cells _ _ _ I M C).
Qed.

(* ---------------------------------------------------------------- traversal *)
Lemma traverse_S o f h fl x acc :
  traverse o (S f) h fl x acc =
  (do n <- get h x;
   let visit (acc : list nat) := if trav_curr n fl then acc ++ [x] else acc in
   let kids := trav_kids (traverse o f h fl) (S f) h in
   match o with
   | PostOrder => do acc <- kids (nkid n) acc; ROk (visit acc)
   | PreOrder => kids (nkid n) (visit acc)
   | InOrder =>
     match nkid n with
     | None => ROk (visit acc)
     | Some c =>
       do acc <- traverse o f h fl c acc;
       do nx <- fld nnext h (Some c);
       kids nx (visit acc)
     end
   end).
Proof. reflexivity. Qed.

(* the sibling loop, given the result for every tree of the list *)
Lemma trav_kids_spec o fl h f : forall l par prv acc g,
  Forall (fun t => forall par prv nxt acc, repc (cells h) (exp_t par prv t nxt) ->
                   traverse o f h fl (tid t) acc = ROk (acc ++ strav o fl t)) l ->
  rep_l (cells h) par prv l None -> length l < g ->
  trav_kids (traverse o f h fl) g h (hid l) acc = ROk (acc ++ flat_map (strav o fl) l).
Proof.
  induction l as [|t r IH]; intros par prv acc g F R Hg.
  - destruct g; [cbn in Hg; lia|]. cbn. rewrite app_nil_r. reflexivity.
  - destruct g as [|g]; [cbn in Hg; lia|]. cbn [hid trav_kids].
    inversion F as [|? ? Ft Fr]; subst.
    rewrite rep_l_cons in R. destruct R as (Rt & Rr).
    rewrite (Ft _ _ _ _ Rt). cbn [rbind].
    destruct t as [i n v kk]. cbn [tid] in *. rewrite rep_t_eq in Rt. destruct Rt as (Hi & _).
    rewrite (fld_ok _ _ _ _ Hi). cbn [rbind nnext]. rewrite <- hid_hid_or.
    rewrite (IH par (Some i)); [|exact Fr|exact Rr|cbn in Hg; lia].
    cbn [flat_map]. rewrite <- app_assoc. reflexivity.
Qed.

Lemma length_le_fsize (l : forest) : length l <= fsize l.
Proof.
  induction l as [|[i n v k] r IH]; [reflexivity|]. rewrite fsize_cons, tsize_eq. cbn [length]. lia.
Qed.

Lemma trav_tree o fl h : forall t par prv nxt acc f,
  repc (cells h) (exp_t par prv t nxt) -> tsize t <= f ->
  traverse o f h fl (tid t) acc = ROk (acc ++ strav o fl t).
Proof.
  intros t. induction t as [t IH] using (well_founded_induction (well_founded_ltof _ tsize)).
  unfold ltof in IH. intros par prv nxt acc f R Hf.
  destruct t as [i n v kk]. rewrite tsize_eq in Hf. destruct f as [|f]; [lia|].
  cbn [tid]. rewrite traverse_S. rewrite rep_t_eq in R. destruct R as (Hi & Hkk).
  rewrite (get_ok _ _ _ Hi). cbn [rbind nkid].
  assert (Hv : trav_curr (mkN nxt prv par (hid kk) n v) fl =
               match kk with [] => Nat.odd fl | _ :: _ => 2 <=? fl end).
  { unfold trav_curr. cbn [nkid]. destruct kk; reflexivity. }
  rewrite Hv.
  (* every child (any suffix of the children) is traversed as specified *)
  assert (Sub : forall l, (forall t', In t' l -> tsize t' <= fsize kk) ->
      Forall (fun t' => forall par prv nxt acc, repc (cells h) (exp_t par prv t' nxt) ->
                        traverse o f h fl (tid t') acc = ROk (acc ++ strav o fl t')) l).
  { intros l Hl. apply Forall_forall. intros t' Ht' par' prv' nxt' acc' R'.
    apply (IH t') with (par := par') (prv := prv') (nxt := nxt'); [rewrite tsize_eq; specialize (Hl _ Ht'); lia|exact R'|specialize (Hl _ Ht'); lia]. }
  assert (In_size : forall (l : forest) t', In t' l -> tsize t' <= fsize l).
  { induction l as [|a l IHl]; intros t' H; [contradiction|]. destruct H as [<-|H]; rewrite fsize_cons; [lia|]. specialize (IHl _ H). lia. }
  assert (Kk : forall l prv' acc', (forall t', In t' l -> tsize t' <= fsize kk) -> length l <= fsize kk ->
              rep_l (cells h) (Some i) prv' l None ->
              trav_kids (traverse o f h fl) (S f) h (hid l) acc' = ROk (acc' ++ flat_map (strav o fl) l)).
  { intros l prv' acc' Hl Hlen Rl. apply (trav_kids_spec o fl h f l (Some i) prv'); [apply Sub; exact Hl|exact Rl|lia]. }
  cbn [strav]. destruct o.
  - rewrite (Kk kk None acc); [|apply In_size|apply length_le_fsize|exact Hkk]. cbn [rbind].
    destruct (match kk with [] => Nat.odd fl | _ :: _ => 2 <=? fl end); rewrite ?app_nil_r, <- ?app_assoc; reflexivity.
  - rewrite (Kk kk None); [|apply In_size|apply length_le_fsize|exact Hkk].
    destruct (match kk with [] => Nat.odd fl | _ :: _ => 2 <=? fl end); rewrite <- ?app_assoc; reflexivity.
  - destruct kk as [|tc rk].
    + cbn [hid]. destruct (Nat.odd fl); rewrite ?app_nil_r; reflexivity.
    + cbn [hid]. rewrite rep_l_cons in Hkk. destruct Hkk as (Rc & Rrk).
      rewrite (IH tc) with (par := Some i) (prv := @None nat) (nxt := hid_or rk None);
        [|rewrite tsize_eq, fsize_cons; lia|exact Rc|rewrite fsize_cons in Hf; lia].
      cbn [rbind]. destruct tc as [c cn cv ck]. cbn [tid] in *. rewrite rep_t_eq in Rc. destruct Rc as (Hc & _).
      rewrite (fld_ok _ _ _ _ Hc). cbn [rbind nnext]. rewrite <- hid_hid_or.
      rewrite (Kk rk (Some c)); [| | |exact Rrk].
      * destruct (2 <=? fl); rewrite <- ?app_assoc; cbn [app]; rewrite ?app_nil_r; reflexivity.
      * intros t' Ht'. rewrite fsize_cons. specialize (In_size rk t' Ht'). lia.
      * rewrite fsize_cons, tsize_eq. pose proof (length_le_fsize rk). lia.
Qed.

Lemma traverse_list_spec o fl h : forall l par prv acc g,
  rep_l (cells h) par prv l None -> fsize l + 1 <= fuel_of h -> length l < g ->
  traverse_list o g h fl (hid l) acc = ROk (acc ++ flat_map (strav o fl) l).
Proof.
  induction l as [|t r IH]; intros par prv acc g R Hf Hg.
  - destruct g; cbn; rewrite app_nil_r; reflexivity.
  - destruct g as [|g]; [cbn in Hg; lia|]. cbn [hid traverse_list].
    rewrite rep_l_cons in R. destruct R as (Rt & Rr). rewrite fsize_cons in Hf.
    rewrite (trav_tree o fl h t _ _ _ acc (fuel_of h) Rt) by lia. cbn [rbind].
    destruct t as [i n v kk]. cbn [tid] in *. rewrite rep_t_eq in Rt. destruct Rt as (Hi & _).
    rewrite (fld_ok _ _ _ _ Hi). cbn [rbind nnext]. rewrite <- hid_hid_or.
    rewrite (IH par (Some i)); [|exact Rr|lia|cbn in Hg; lia].
    cbn [flat_map]. rewrite <- app_assoc. reflexivity.
Qed.

Lemma step_trav o fl x : refines_step (OTrav o fl x).
Proof.
  intros h s I. cbn [mstep sstep]. rewrite (live_iff _ _ _ I).
  destruct (focus x (lists s)) as [[[[[frs oo] l1] tx] l2]|] eqn:FX.
  2:{ assert (Sl : slive s x = false).
      { destruct (slive s x) eqn:Sl; [|reflexivity]. apply mem_in in Sl. exfalso. exact (focus_st_none _ _ _ FX Sl). }
      rewrite Sl. cbn [fst snd]. eexists; split; [reflexivity|exact I]. }
  assert (Sl : slive s x = true) by (apply mem_in; eapply focus_in; exact FX).
  rewrite Sl. cbn [fst snd].
  destruct (focus_cell _ _ _ _ _ _ _ _ (i_rep _ _ I) FX) as [_ R].
  destruct (focus_perm _ _ _ _ _ _ _ FX) as [P Ex].
  rewrite rep_plug in R. destruct R as (Rl & _ & _). rewrite rep_l_app in Rl. destruct Rl as [_ Rl].
  assert (Len : fsize (tx :: l2) <= nextid h).
  { rewrite fsize_ids. etransitivity; [|exact (inv_length _ _ I)].
    rewrite (Permutation_length (ids_st_perm _ _ P)), (Permutation_length (ids_plug _ _ _)).
    rewrite ids_f_app, !app_length. lia. }
  pose proof (traverse_list_spec o fl h (tx :: l2) _ _ [] (fuel_of h) Rl) as T.
  cbn [hid] in T. rewrite Ex in T. rewrite T; [| unfold fuel_of; lia |].
  - cbn [rbind app]. exists h. split; [reflexivity|exact I].
  - pose proof (length_le_fsize (tx :: l2)). unfold fuel_of. lia.
Qed.
