(* C14/NodeExec.v — symbolic execution of the three primitive link operations:
   what gnode_after / gnode_before / node_unlink write, cell by cell. *)
From Coq Require Import List Arith ZArith Bool Lia.
From MptV Require Import C14.NodeModel.
Import ListNotations.
Local Open Scope nat_scope.

Lemma upd_same c i n : upd c i n i = n.
Proof. unfold upd. rewrite Nat.eqb_refl. reflexivity. Qed.
Lemma upd_other c i n j : j <> i -> upd c i n j = c j.
Proof. intros H. unfold upd. destruct (Nat.eqb_spec j i); [contradiction|reflexivity]. Qed.

Lemma get_ok h i n : cells h i = Some n -> get h i = ROk n.
Proof. unfold get. intros ->. reflexivity. Qed.
Lemma get_inv h i n : get h i = ROk n -> cells h i = Some n.
Proof. unfold get. destruct (cells h i); intros E; inversion E; reflexivity. Qed.

Lemma get_put_same h i n : get (put h i n) i = ROk n.
Proof. unfold get, put. cbn [cells]. rewrite upd_same. reflexivity. Qed.
Lemma get_put_other h i n j : j <> i -> get (put h i n) j = get h j.
Proof. intros H. unfold get, put. cbn [cells]. rewrite upd_other by assumption. reflexivity. Qed.
Lemma cells_put h i n j : cells (put h i n) j = if j =? i then Some n else cells h j.
Proof. reflexivity. Qed.
Lemma nextid_put h i n : nextid (put h i n) = nextid h.
Proof. reflexivity. Qed.
Lemma freed_put h i n : freed (put h i n) = freed h.
Proof. reflexivity. Qed.

(* a heap that differs from [h] only in its cells *)
Definition same_meta (h h' : heap) : Prop := nextid h' = nextid h /\ freed h' = freed h.

Ltac gp :=
  repeat (repeat first [ rewrite get_put_same
                       | rewrite get_put_other by congruence ];
          cbn [rbind set_prev set_next set_par set_kid nnext nprev npar nkid nname nval]).

Ltac step :=
  first [ rewrite get_put_same
        | rewrite get_put_other by congruence
        | match goal with H : cells ?h ?i = Some _ |- context [get ?h ?i] => rewrite (get_ok _ _ _ H) end
        | progress cbn [rbind set_prev set_next set_par set_kid nnext nprev npar nkid nname nval] ].
Ltac run := repeat step.

Ltac eqb_cases :=
  repeat match goal with
         | |- context [?a =? ?b] => destruct (Nat.eqb_spec a b); subst; try congruence
         end.

(* ---- mpt_gnode_after(p, x), p <> x ---- *)
Lemma exec_after h p x np nx :
  p <> x ->
  cells h p = Some np -> cells h x = Some nx ->
  (forall q, nnext np = Some q -> q <> x /\ q <> p /\ exists nq, cells h q = Some nq) ->
  exists h', gnode_after h (Some p) (Some x) = ROk (h', Some x) /\ same_meta h h' /\
    forall i, cells h' i =
      if i =? x then Some (mkN (nnext np) (Some p) (npar np) (nkid nx) (nname nx) (nval nx))
      else if i =? p then Some (set_next (Some x) np)
      else match nnext np with
           | Some q => if i =? q then option_map (set_prev (Some x)) (cells h q) else cells h i
           | None => cells h i
           end.
Proof.
  intros Hpx Hp Hx Hq. unfold gnode_after.
  rewrite (proj2 (Nat.eqb_neq p x)) by assumption.
  unfold wr, fld. rewrite (get_ok _ _ _ Hx). cbn [rbind].
  gp. rewrite (get_ok _ _ _ Hp). gp.
  rewrite (get_ok _ _ _ Hp). gp.
  destruct (nnext np) as [q|] eqn:Enp.
  - destruct (Hq q eq_refl) as (Hqx & Hqp & nq & Hnq).
    gp. rewrite (get_ok _ _ _ Hnq). gp.
    eexists. split; [reflexivity|]. split; [split; reflexivity|].
    intros i. rewrite !cells_put. eqb_cases; try reflexivity;
      try (rewrite Hnq; reflexivity); destruct np; cbn in *; subst; reflexivity.
  - eexists. split; [reflexivity|]. split; [split; reflexivity|].
    intros i. rewrite !cells_put. eqb_cases; try reflexivity;
      try (destruct np; cbn in *; subst; reflexivity).
Qed.

(* ---- mpt_gnode_before(p, x), p <> x ---- *)
Lemma exec_before h p x np nx :
  p <> x ->
  cells h p = Some np -> cells h x = Some nx ->
  (forall q, nprev np = Some q -> q <> x /\ q <> p /\ exists nq, cells h q = Some nq) ->
  (nprev np = None -> forall q, npar np = Some q -> q <> x /\ q <> p /\ exists nq, cells h q = Some nq) ->
  exists h', gnode_before h (Some p) (Some x) = ROk (h', Some x) /\ same_meta h h' /\
    forall i, cells h' i =
      if i =? x then Some (mkN (Some p) (nprev np) (npar np) (nkid nx) (nname nx) (nval nx))
      else if i =? p then Some (set_prev (Some x) np)
      else match nprev np with
           | Some q => if i =? q then option_map (set_next (Some x)) (cells h q) else cells h i
           | None =>
             match npar np with
             | Some q => if i =? q then option_map (set_kid (Some x)) (cells h q) else cells h i
             | None => cells h i
             end
           end.
Proof.
  intros Hpx Hp Hx Hq Hr. unfold gnode_before.
  rewrite (proj2 (Nat.eqb_neq p x)) by assumption.
  unfold wr, fld. rewrite (get_ok _ _ _ Hp). cbn [rbind].
  rewrite (get_ok _ _ _ Hx). gp.
  rewrite (get_ok _ _ _ Hp). gp.
  destruct (nprev np) as [q|] eqn:Enp.
  - destruct (Hq q eq_refl) as (Hqx & Hqp & nq & Hnq).
    gp. rewrite (get_ok _ _ _ Hnq). gp.
    eexists. split; [reflexivity|]. split; [split; reflexivity|].
    intros i. rewrite !cells_put. eqb_cases; try reflexivity;
      try (rewrite Hnq; reflexivity); destruct np; cbn in *; subst; reflexivity.
  - destruct (npar np) as [q|] eqn:Epp.
    + destruct (Hr eq_refl q eq_refl) as (Hqx & Hqp & nq & Hnq).
      gp. rewrite (get_ok _ _ _ Hnq). gp.
      eexists. split; [reflexivity|]. split; [split; reflexivity|].
      intros i. rewrite !cells_put. eqb_cases; try reflexivity;
        try (rewrite Hnq; reflexivity); destruct np; cbn in *; subst; reflexivity.
    + gp. eexists. split; [reflexivity|]. split; [split; reflexivity|].
      intros i. rewrite !cells_put. eqb_cases; try reflexivity;
        try (destruct np; cbn in *; subst; reflexivity).
Qed.

(* ---- mpt_node_unlink(c) ---- *)
Lemma exec_unlink h c nc :
  cells h c = Some nc ->
  (forall q, nnext nc = Some q -> q <> c /\ exists nq, cells h q = Some nq) ->
  (forall p, nprev nc = Some p -> p <> c /\ nnext nc <> Some p /\ exists n', cells h p = Some n') ->
  (nprev nc = None -> forall r, npar nc = Some r -> r <> c /\ nnext nc <> Some r /\ exists n', cells h r = Some n') ->
  exists h', node_unlink h (Some c) = ROk (h', nnext nc) /\ same_meta h h' /\
    forall i, cells h' i =
      if i =? c then Some (mkN None None None (nkid nc) (nname nc) (nval nc))
      else if peq (Some i) (nnext nc) then option_map (set_prev (nprev nc)) (cells h i)
      else match nprev nc with
           | Some p => if i =? p then option_map (set_next (nnext nc)) (cells h i) else cells h i
           | None =>
             match npar nc with
             | Some r => if i =? r then option_map (set_kid (nnext nc)) (cells h i) else cells h i
             | None => cells h i
             end
           end.
Proof.
  intros Hc Hq Hp Hr. unfold node_unlink, wr, fld.
  destruct (nnext nc) as [q|] eqn:En;
    [destruct (Hq q eq_refl) as (Hqc & nq & Hnq)|];
  (destruct (nprev nc) as [p|] eqn:Ep;
    [destruct (Hp p eq_refl) as (Hpc & Hpq & n' & Hn'); assert (Some p <> nnext nc) by congruence
    |destruct (npar nc) as [r|] eqn:Er;
      [destruct (Hr eq_refl r eq_refl) as (Hrc & Hrq & n' & Hn'); assert (Some r <> nnext nc) by congruence|]]);
  repeat (progress (run; rewrite ?En, ?Ep, ?Er));
  (eexists; split; [reflexivity|]; split; [split; reflexivity|]);
  intros i; rewrite !cells_put; cbn [peq]; eqb_cases; try reflexivity;
  try (rewrite Hnq; reflexivity); try (rewrite Hn'; reflexivity).
Qed.
