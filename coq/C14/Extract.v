(* Extraction of the executable model and specification of C14 (ExtrOcamlBasic only). *)
From MptV Require Import C14.NodeModel C14.NodeSpec C14.ParseModel C14.ParseSpec.
Require Import ExtrOcamlBasic NArith.
Extraction "c14_model.ml" mrun srun hrun hsrun empty_heap empty_sstate wfcheck exp_st count_unfreed live N.succ.
