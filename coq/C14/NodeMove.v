(* C14/NodeMove.v — mpt_node_move (merge of a source list into a target list with
   overlapping names).  Part 1: auxiliary facts and the "adopt the children" step. *)
From Coq Require Import List Arith ZArith Bool Lia Permutation Wf_nat.
From MptV Require Import C14.NodeModel C14.NodeSpec C14.NodeRep C14.NodeFocus C14.NodeExec
  C14.NodeLocal C14.NodeInv C14.NodeRefine C14.NodeFree C14.NodeClone C14.NodePos C14.NodeMatch
  C14.NodeInsert C14.NodeInsertName.
Import ListNotations.
Local Open Scope nat_scope.

(* ---------------------------------------------------------------- one heap step on a state *)
Record stepr (h : heap) (st : state) (h' : heap) (st' : state) : Prop := mkStepr {
  sr_meta : same_meta h h';
  sr_rep : rep_st (cells h') st';
  sr_ids : Permutation (ids_st st') (ids_st st);
  sr_frame : forall i, ~ In i (ids_st st) -> cells h' i = cells h i }.

Lemma stepr_refl h st : rep_st (cells h) st -> stepr h st h st.
Proof. intros R. constructor; auto. split; reflexivity. Qed.

Lemma stepr_trans h1 st1 h2 st2 h3 st3 :
  stepr h1 st1 h2 st2 -> stepr h2 st2 h3 st3 -> stepr h1 st1 h3 st3.
Proof.
  intros [[Ma Mb] R1 P1 F1] [[Mc Md] R2 P2 F2]. constructor.
  - split; congruence.
  - exact R2.
  - rewrite P2. exact P1.
  - intros i Hi. rewrite F2; [apply F1; exact Hi|]. intros K. apply Hi. eapply Permutation_in; [exact P1|exact K].
Qed.

Lemma stepr_perm h st h' st' sta stb :
  Permutation sta st -> Permutation st' stb -> stepr h st h' st' -> stepr h sta h' stb.
Proof.
  intros Pa Pb [M R P F]. constructor.
  - exact M.
  - eapply rep_st_perm; [exact Pb|exact R].
  - rewrite <- (ids_st_perm _ _ Pb), P. symmetry. apply ids_st_perm. exact Pa.
  - intros i Hi. apply F. intros K. apply Hi. eapply Permutation_in; [symmetry; apply ids_st_perm; exact Pa|exact K].
Qed.

(* ---------------------------------------------------------------- split_name = first match *)
Lemma split_name_spec nm : forall l pre i,
  split_name nm pre l =
  match matches nm i l with
  | [] => None
  | j :: _ => match nth_error l (j - i) with
              | Some t => Some (pre ++ firstn (j - i) l, t, skipn (S (j - i)) l)
              | None => None
              end
  end.
Proof.
  induction l as [|t r IH]; intros pre i; [reflexivity|].
  cbn [split_name matches]. destruct (Nat.eqb_spec (tname t) nm) as [E|E].
  - rewrite Nat.sub_diag. cbn. rewrite app_nil_r. reflexivity.
  - rewrite (IH (pre ++ [t]) (S i)).
    destruct (matches nm (S i) r) as [|j ms] eqn:Em; [reflexivity|].
    assert (B : S i <= j).
    { pose proof (matches_bounds nm r (S i) j) as K. rewrite Em in K. destruct (K (or_introl eq_refl)) as ((K1 & _) & _). exact K1. }
    replace (j - i) with (S (j - S i)) by lia. cbn [nth_error firstn skipn].
    destruct (nth_error r (j - S i)); [|reflexivity]. rewrite <- app_assoc. reflexivity.
Qed.

(* ---------------------------------------------------------------- reparent = set_parents with a counter *)
Lemma reparent_spec : forall l h prv c fuel cnt,
  rep_l (cells h) None prv l None -> NoDup (ids_f l) -> length l < fuel ->
  exists h', reparent fuel h (hid l) c cnt = ROk (h', cnt + length l) /\ same_meta h h' /\
    rep_l (cells h') (Some c) prv l None /\
    (forall i, ~ In i (ids_f l) -> cells h' i = cells h i).
Proof.
  induction l as [|[i n v k] r IH]; intros h prv c fuel cnt R ND Hf.
  - destruct fuel; cbn [hid reparent length]; rewrite Nat.add_0_r; exists h; (split; [reflexivity|]);
      (split; [split; reflexivity|]); (split; [apply rep_l_nil|auto]).
  - destruct fuel as [|fuel]; [cbn in Hf; lia|]. cbn [hid tid reparent].
    rewrite rep_l_cons, rep_t_eq in R. destruct R as ((Hi & Hk) & Hr).
    rewrite ids_f_cons, ids_t_eq in ND. inversion ND as [|? ? Ni ND']; subst.
    apply NoDup_app_inv in ND'. destruct ND' as (NDk & NDr & Dj).
    rewrite (wr_ok _ _ _ _ _ Hi). cbn [rbind].
    erewrite fld_ok by (rewrite cells_put, Nat.eqb_refl; reflexivity). cbn [rbind set_par nnext].
    destruct (IH (put h i (set_par (Some c) (mkN (hid_or r None) prv None (hid k) n v))) (Some i) c fuel (S cnt))
      as (h' & E & M & R' & F).
    { eapply rep_l_frame; [exact Hr|]. intros j Hj. rewrite cells_put.
      destruct (Nat.eqb_spec j i) as [->|]; [|reflexivity]. exfalso. apply Ni. apply in_or_app. auto. }
    { exact NDr. }
    { cbn in Hf. lia. }
    rewrite (hid_hid_or r) in E. rewrite E. exists h'. split; [f_equal; f_equal; cbn [length]; lia|]. split; [exact M|]. split.
    + rewrite rep_l_cons, rep_t_eq. cbn [tid]. repeat split.
      * rewrite F by (intros K; apply Ni; apply in_or_app; auto).
        rewrite cells_put, Nat.eqb_refl. reflexivity.
      * eapply rep_l_frame; [exact Hk|]. intros j Hj.
        rewrite F by (intros K; exact (Dj _ Hj K)). rewrite cells_put.
        destruct (Nat.eqb_spec j i) as [->|]; [|reflexivity]. exfalso. apply Ni. apply in_or_app. auto.
      * exact R'.
    + intros j Hj. rewrite ids_f_cons, ids_t_eq in Hj.
      rewrite F by (intros K; apply Hj; right; apply in_or_app; auto). rewrite cells_put.
      destruct (Nat.eqb_spec j i) as [->|]; [|reflexivity]. exfalso. apply Hj. left. reflexivity.
Qed.

(* rep_l with parent None from rep_l with another parent is not available; the
   children of [s] are re-parented in place: *)
Lemma reparent_from : forall l h prv s c fuel cnt,
  rep_l (cells h) (Some s) prv l None -> NoDup (ids_f l) -> length l < fuel ->
  exists h', reparent fuel h (hid l) c cnt = ROk (h', cnt + length l) /\ same_meta h h' /\
    rep_l (cells h') (Some c) prv l None /\
    (forall i, ~ In i (ids_f l) -> cells h' i = cells h i).
Proof.
  induction l as [|[i n v k] r IH]; intros h prv s c fuel cnt R ND Hf.
  - destruct fuel; cbn [hid reparent length]; rewrite Nat.add_0_r; exists h; (split; [reflexivity|]);
      (split; [split; reflexivity|]); (split; [apply rep_l_nil|auto]).
  - destruct fuel as [|fuel]; [cbn in Hf; lia|]. cbn [hid tid reparent].
    rewrite rep_l_cons, rep_t_eq in R. destruct R as ((Hi & Hk) & Hr).
    rewrite ids_f_cons, ids_t_eq in ND. inversion ND as [|? ? Ni ND']; subst.
    apply NoDup_app_inv in ND'. destruct ND' as (NDk & NDr & Dj).
    rewrite (wr_ok _ _ _ _ _ Hi). cbn [rbind].
    erewrite fld_ok by (rewrite cells_put, Nat.eqb_refl; reflexivity). cbn [rbind set_par nnext].
    destruct (IH (put h i (set_par (Some c) (mkN (hid_or r None) prv (Some s) (hid k) n v))) (Some i) s c fuel (S cnt))
      as (h' & E & M & R' & F).
    { eapply rep_l_frame; [exact Hr|]. intros j Hj. rewrite cells_put.
      destruct (Nat.eqb_spec j i) as [->|]; [|reflexivity]. exfalso. apply Ni. apply in_or_app. auto. }
    { exact NDr. }
    { cbn in Hf. lia. }
    rewrite (hid_hid_or r) in E. rewrite E. exists h'. split; [f_equal; f_equal; cbn [length]; lia|]. split; [exact M|]. split.
    + rewrite rep_l_cons, rep_t_eq. cbn [tid]. repeat split.
      * rewrite F by (intros K; apply Ni; apply in_or_app; auto).
        rewrite cells_put, Nat.eqb_refl. reflexivity.
      * eapply rep_l_frame; [exact Hk|]. intros j Hj.
        rewrite F by (intros K; exact (Dj _ Hj K)). rewrite cells_put.
        destruct (Nat.eqb_spec j i) as [->|]; [|reflexivity]. exfalso. apply Ni. apply in_or_app. auto.
      * exact R'.
    + intros j Hj. rewrite ids_f_cons, ids_t_eq in Hj.
      rewrite F by (intros K; apply Hj; right; apply in_or_app; auto). rewrite cells_put.
      destruct (Nat.eqb_spec j i) as [->|]; [|reflexivity]. exfalso. apply Hj. left. reflexivity.
Qed.

(* ---------------------------------------------------------------- adopt the children *)
(* the target node [c] has no children: it takes over the children of [s]
   (curr->children = src->children; src->children = 0; all: ->parent = curr) *)
Lemma adopt_rep h fs fd rest a s n v b d1 c nj w d2 ks lfuel cnt :
  let fs' := Fr a s n v b :: fs in
  let fd' := Fr d1 c nj w d2 :: fd in
  let st := plug (fs', plug (fd', rest) []) ks in
  rep_st (cells h) st -> NoDup (ids_st st) -> length ks < lfuel ->
  exists h',
    (do h1 <- wr set_kid h c (hid ks); do h2 <- wr set_kid h1 s None; reparent lfuel h2 (hid ks) c cnt)
    = ROk (h', cnt + length ks) /\
    stepr h st h' (plug (fs', plug (fd', rest) ks) []).
Proof.
  intros fs' fd' st R ND Hf. subst st.
  pose proof R as R0. rewrite rep_plug in R0. destruct R0 as (Rks & Rfs & Ro).
  rewrite rep_plug in Ro. destruct Ro as (_ & Rfd & Rrest).
  assert (PI : Permutation (ids_st (plug (fs', plug (fd', rest) []) ks))
                           (concat [ids_f ks; ids_frs fs'; ids_frs fd'; ids_st rest])).
  { rewrite !ids_plug. cbn [concat ids_f flat_map app]. rewrite app_nil_r. reflexivity. }
  assert (NS : NoDup (concat [ids_f ks; ids_frs fs'; ids_frs fd'; ids_st rest])).
  { eapply Permutation_NoDup; [exact PI|exact ND]. }
  pose proof Rfs as Rfs0. unfold fs' in Rfs0. cbn [rep_frames fl1 fi fn fv fl2] in Rfs0. destruct Rfs0 as (_ & Hs & _).
  pose proof Rfd as Rfd0. unfold fd' in Rfd0. cbn [rep_frames fl1 fi fn fv fl2] in Rfd0. destruct Rfd0 as (_ & Hc & _).
  assert (Sin : In s (ids_frs fs')).
  { unfold fs'. cbn [ids_frs flat_map]. apply in_or_app. left. unfold ids_fr. cbn [fl1 fi fl2].
    apply in_or_app. right. left. reflexivity. }
  assert (Cin : In c (ids_frs fd')).
  { unfold fd'. cbn [ids_frs flat_map]. apply in_or_app. left. unfold ids_fr. cbn [fl1 fi fl2].
    apply in_or_app. right. left. reflexivity. }
  assert (Nsc : s <> c) by (intros E; rewrite E in Sin; seg_absurd NS 1 2).
  rewrite (wr_ok _ _ _ _ _ Hc). cbn [rbind].
  erewrite wr_ok by (rewrite cells_put, (proj2 (Nat.eqb_neq s c)) by assumption; exact Hs). cbn [rbind].
  match goal with |- context [reparent lfuel ?hh _ _ _] => set (h2 := hh) end.
  assert (C2 : forall i, cells h2 i = if i =? s then option_map (set_kid None) (cells h s)
                                     else if i =? c then option_map (set_kid (hid ks)) (cells h c) else cells h i).
  { intros i. unfold h2. rewrite !cells_put. destruct (i =? s); [rewrite Hs; reflexivity|].
    destruct (i =? c); [rewrite Hc|]; reflexivity. }
  destruct (reparent_from ks h2 None s c lfuel cnt) as (h3 & E3 & M3 & R3 & F3).
  { eapply rep_l_frame; [exact Rks|]. intros i Hi. rewrite C2.
    destruct (Nat.eqb_spec i s) as [->|]; [seg_absurd NS 0 1|].
    destruct (Nat.eqb_spec i c) as [->|]; [seg_absurd NS 0 2|reflexivity]. }
  { exact (NoDup_concat_nth _ 0 NS). }
  { exact Hf. }
  rewrite E3. exists h3. split; [reflexivity|].
  assert (C3 : forall i, ~ In i (ids_f ks) -> cells h3 i = cells h2 i) by exact F3.
  constructor.
  - destruct M3 as [Ma Mb]. split; [rewrite Ma|rewrite Mb]; reflexivity.
  - rewrite rep_plug. split; [apply rep_l_nil|]. split.
    + eapply rep_frames_hd'; [exact Rfs|exact (NoDup_concat_nth _ 1 NS)|].
      intros i Hi. rewrite C3 by (intros K; seg_absurd NS 1 0). rewrite C2.
      unfold fs'. cbn [cpar fi peq].
      destruct (Nat.eqb_spec i s) as [->|]; [reflexivity|].
      destruct (Nat.eqb_spec i c) as [->|]; [seg_absurd NS 1 2|reflexivity].
    + rewrite rep_plug. split; [exact R3|]. split.
      * eapply rep_frames_hd'; [exact Rfd|exact (NoDup_concat_nth _ 2 NS)|].
        intros i Hi. rewrite C3 by (intros K; seg_absurd NS 2 0). rewrite C2.
        unfold fd'. cbn [cpar fi peq].
        destruct (Nat.eqb_spec i s) as [->|]; [seg_absurd NS 2 1|].
        destruct (Nat.eqb_spec i c) as [->|]; reflexivity.
      * eapply rep_st_frame; [exact Rrest|]. intros i Hi.
        rewrite C3 by (intros K; seg_absurd NS 3 0). rewrite C2.
        destruct (Nat.eqb_spec i s) as [->|]; [seg_absurd NS 3 1|].
        destruct (Nat.eqb_spec i c) as [->|]; [seg_absurd NS 3 2|reflexivity].
  - rewrite !ids_plug. cbn [ids_f flat_map app]. rewrite ?app_nil_r.
    rewrite Permutation_app_swap_app. reflexivity.
  - intros i Hi.
    assert (K : forall j, In j (concat [ids_f ks; ids_frs fs'; ids_frs fd'; ids_st rest]) -> i <> j).
    { intros j Hj ->. apply Hi. eapply Permutation_in; [symmetry; exact PI|exact Hj]. }
    rewrite C3; [rewrite C2|].
    + destruct (Nat.eqb_spec i s) as [->|].
      { exfalso. apply (K s); [|reflexivity]. cbn [concat]. apply in_or_app. right. apply in_or_app. left. exact Sin. }
      destruct (Nat.eqb_spec i c) as [->|]; [|reflexivity].
      exfalso. apply (K c); [|reflexivity]. cbn [concat]. apply in_or_app. right. apply in_or_app. right.
      apply in_or_app. left. exact Cin.
    + intros Hk. apply (K i); [|reflexivity]. cbn [concat]. apply in_or_app. left. exact Hk.
Qed.

(* ---------------------------------------------------------------- two zippers *)
(* source list [S] in context [fs], target list [D] in context [fd], in different
   top-level lists *)
Definition st2 (fs fd : list frame) (rest : state) (Sl D : forest) : state :=
  plug (fs, plug (fd, rest) D) Sl.

Lemma st2_swap fs fd rest Sl D :
  Permutation (st2 fs fd rest Sl D) (plug (fd, plug (fs, rest) Sl) D).
Proof. unfold st2, plug. cbn [fst snd]. apply perm_swap. Qed.

(* mpt_gnode_add(last, 0, node): append after the last element, from any element *)
Lemma node_insert_last h par l j tl x nx :
  rep_l (cells h) par None l None -> nth_error l j = Some tl -> length l <= nextid h ->
  cells h x = Some nx ->
  node_insert false h (tid tl) 0%Z x =
  (do '(h, _) <- gnode_after h (nth_id l (length l - 1)) (Some x); ROk h).
Proof.
  intros R E Hf Hx.
  assert (Hj : j < length l) by (apply nth_error_Some; congruence).
  unfold node_insert, getnode. rewrite (get_ok _ _ _ Hx). cbn [rbind].
  change (0 <? 0)%Z with false. cbn iota.
  assert (Ei : nth_id l j = Some (tid tl)) by (unfold nth_id; rewrite E; reflexivity).
  rewrite <- Ei. rewrite (gnode_pos_spec h par l j 0%Z (fuel_of h) R Hj) by (unfold fuel_of; lia).
  change (0 <? 0)%Z with false. cbn iota. cbn [rbind].
  destruct (nth_id_some l (length l - 1)) as (t' & Et & Eti); [lia|]. rewrite Eti.
  change ((0 =? 0)%Z || (0 =? 1)%Z) with true. cbn iota. cbn [rbind].
  change (0 <? 1)%Z with true. cbn iota. reflexivity.
Qed.

Lemma insert_at_end {A} (x : A) l : insert_at (length l) x l = l ++ [x].
Proof. unfold insert_at. rewrite firstn_all, skipn_all. reflexivity. Qed.

(* unlink the head of [todo] from the source list *)
Lemma st2_unlink h fs fd rest kept ts todo D :
  let st := st2 fs fd rest (kept ++ ts :: todo) D in
  rep_st (cells h) st -> NoDup (ids_st st) ->
  exists h', node_unlink h (Some (tid ts)) = ROk (h', hid todo) /\
    stepr h st h' ([ts] :: st2 fs fd rest (kept ++ todo) D).
Proof.
  intros st R ND. subst st. unfold st2 in *.
  destruct (unlink_rep _ _ _ _ _ _ R ND) as (h' & E & M & R' & F & _).
  exists h'. split; [exact E|]. constructor; auto. symmetry. apply ids_plug_insert.
Qed.

(* append the unlinked [ts] to the target list (gnode_add(last, 0, ts)) *)
Lemma st2_append h fs fd rest Sl D ts j tl :
  let st := [ts] :: st2 fs fd rest Sl D in
  rep_st (cells h) st -> NoDup (ids_st st) -> nth_error D j = Some tl -> length (ids_st st) <= nextid h ->
  exists h', node_add false h (Some (tid tl)) 0%Z (Some (tid ts)) = ROk (h', Some (tid ts)) /\
    stepr h st h' (st2 fs fd rest Sl (D ++ [ts])).
Proof.
  intros st R ND E Hn. subst st.
  assert (P1 : Permutation ([ts] :: st2 fs fd rest Sl D) ([ts] :: plug (fd, plug (fs, rest) Sl) D))
    by (apply perm_skip; apply st2_swap).
  pose proof (rep_st_perm _ _ _ P1 R) as R1.
  assert (ND1 : NoDup (ids_st ([ts] :: plug (fd, plug (fs, rest) Sl) D)))
    by (eapply Permutation_NoDup; [apply ids_st_perm; exact P1|exact ND]).
  assert (Hj : j < length D) by (apply nth_error_Some; congruence).
  pose proof R1 as R0. rewrite rep_st_cons, rep_plug in R0. destruct R0 as (Rx & RD & _).
  destruct ts as [x nx vx kx]. rewrite rep_l_cons, rep_t_eq in Rx. destruct Rx as ((Hx & _) & _).
  assert (Len : length D <= nextid h).
  { etransitivity; [apply length_le_ids|]. etransitivity; [|exact Hn].
    rewrite (Permutation_length (ids_st_perm _ _ P1)), ids_st_cons, app_length,
      (Permutation_length (ids_plug _ _ _)), app_length. lia. }
  destruct (insert_rep h fd (plug (fs, rest) Sl) D (T x nx vx kx) (length D - 1) true R1 ND1) as (h' & E' & M & R' & F); [lia|].
  cbn [tid] in *. unfold node_add.
  rewrite (node_insert_last h (cpar fd) D j tl x _ RD E Len Hx).
  rewrite E'. cbn [rbind]. exists h'. split; [reflexivity|].
  replace (S (length D - 1)) with (length D) in R' by lia. rewrite insert_at_end in R'.
  apply (stepr_perm h _ h' _ _ _ P1 (Permutation_sym (st2_swap fs fd rest Sl (D ++ [T x nx vx kx])))).
  constructor; auto.
  rewrite <- insert_at_end. apply ids_plug_insert_at.
Qed.
