(* C14/NodeMove.v — mpt_node_move (merge of a source list into a target list with
   overlapping names).  Part 1: auxiliary facts and the "adopt the children" step. *)
From Coq Require Import List Arith ZArith Bool Lia Permutation Wf_nat.
From MptV Require Import C14.NodeModel C14.NodeSpec C14.NodeRep C14.NodeFocus C14.NodeExec
  C14.NodeLocal C14.NodeInv C14.NodeRefine C14.NodeFree C14.NodeClone C14.NodePos C14.NodeMatch
  C14.NodeInsert C14.NodeInsertName.
Import ListNotations.
Local Open Scope nat_scope.

(* ---------------------------------------------------------------- one heap step on a state *)
Record stepr (h : heap) (st : state) (h' : heap) (st' : state) : Prop := mkStepr {
  sr_meta : same_meta h h';
  sr_rep : rep_st (cells h') st';
  sr_ids : Permutation (ids_st st') (ids_st st);
  sr_frame : forall i, ~ In i (ids_st st) -> cells h' i = cells h i }.

Lemma stepr_refl h st : rep_st (cells h) st -> stepr h st h st.
Proof. intros R. constructor; auto. split; reflexivity. Qed.

Lemma stepr_trans h1 st1 h2 st2 h3 st3 :
  stepr h1 st1 h2 st2 -> stepr h2 st2 h3 st3 -> stepr h1 st1 h3 st3.
Proof.
  intros [[Ma Mb] R1 P1 F1] [[Mc Md] R2 P2 F2]. constructor.
  - split; congruence.
  - exact R2.
  - rewrite P2. exact P1.
  - intros i Hi. rewrite F2; [apply F1; exact Hi|]. intros K. apply Hi. eapply Permutation_in; [exact P1|exact K].
Qed.

Lemma stepr_perm h st h' st' sta stb :
  Permutation sta st -> Permutation st' stb -> stepr h st h' st' -> stepr h sta h' stb.
Proof.
  intros Pa Pb [M R P F]. constructor.
  - exact M.
  - eapply rep_st_perm; [exact Pb|exact R].
  - rewrite <- (ids_st_perm _ _ Pb), P. symmetry. apply ids_st_perm. exact Pa.
  - intros i Hi. apply F. intros K. apply Hi. eapply Permutation_in; [symmetry; apply ids_st_perm; exact Pa|exact K].
Qed.

(* ---------------------------------------------------------------- split_name = first match *)
Lemma split_name_spec nm : forall l pre i,
  split_name nm pre l =
  match matches nm i l with
  | [] => None
  | j :: _ => match nth_error l (j - i) with
              | Some t => Some (pre ++ firstn (j - i) l, t, skipn (S (j - i)) l)
              | None => None
              end
  end.
Proof.
  induction l as [|t r IH]; intros pre i; [reflexivity|].
  cbn [split_name matches]. destruct (Nat.eqb_spec (tname t) nm) as [E|E].
  - rewrite Nat.sub_diag. cbn. rewrite app_nil_r. reflexivity.
  - rewrite (IH (pre ++ [t]) (S i)).
    destruct (matches nm (S i) r) as [|j ms] eqn:Em; [reflexivity|].
    assert (B : S i <= j).
    { pose proof (matches_bounds nm r (S i) j) as K. rewrite Em in K. destruct (K (or_introl eq_refl)) as ((K1 & _) & _). exact K1. }
    replace (j - i) with (S (j - S i)) by lia. cbn [nth_error firstn skipn].
    destruct (nth_error r (j - S i)); [|reflexivity]. rewrite <- app_assoc. reflexivity.
Qed.

(* ---------------------------------------------------------------- reparent = set_parents with a counter *)
Lemma reparent_spec : forall l h prv c fuel cnt,
  rep_l (cells h) None prv l None -> NoDup (ids_f l) -> length l < fuel ->
  exists h', reparent fuel h (hid l) c cnt = ROk (h', cnt + length l) /\ same_meta h h' /\
    rep_l (cells h') (Some c) prv l None /\
    (forall i, ~ In i (ids_f l) -> cells h' i = cells h i).
Proof.
  induction l as [|[i n v k] r IH]; intros h prv c fuel cnt R ND Hf.
  - destruct fuel; cbn [hid reparent length]; rewrite Nat.add_0_r; exists h; (split; [reflexivity|]);
      (split; [split; reflexivity|]); (split; [apply rep_l_nil|auto]).
  - destruct fuel as [|fuel]; [cbn in Hf; lia|]. cbn [hid tid reparent].
    rewrite rep_l_cons, rep_t_eq in R. destruct R as ((Hi & Hk) & Hr).
    rewrite ids_f_cons, ids_t_eq in ND. inversion ND as [|? ? Ni ND']; subst.
    apply NoDup_app_inv in ND'. destruct ND' as (NDk & NDr & Dj).
    rewrite (wr_ok _ _ _ _ _ Hi). cbn [rbind].
    erewrite fld_ok by (rewrite cells_put, Nat.eqb_refl; reflexivity). cbn [rbind set_par nnext].
    destruct (IH (put h i (set_par (Some c) (mkN (hid_or r None) prv None (hid k) n v))) (Some i) c fuel (S cnt))
      as (h' & E & M & R' & F).
    { eapply rep_l_frame; [exact Hr|]. intros j Hj. rewrite cells_put.
      destruct (Nat.eqb_spec j i) as [->|]; [|reflexivity]. exfalso. apply Ni. apply in_or_app. auto. }
    { exact NDr. }
    { cbn in Hf. lia. }
    rewrite (hid_hid_or r) in E. rewrite E. exists h'. split; [f_equal; f_equal; cbn [length]; lia|]. split; [exact M|]. split.
    + rewrite rep_l_cons, rep_t_eq. cbn [tid]. repeat split.
      * rewrite F by (intros K; apply Ni; apply in_or_app; auto).
        rewrite cells_put, Nat.eqb_refl. reflexivity.
      * eapply rep_l_frame; [exact Hk|]. intros j Hj.
        rewrite F by (intros K; exact (Dj _ Hj K)). rewrite cells_put.
        destruct (Nat.eqb_spec j i) as [->|]; [|reflexivity]. exfalso. apply Ni. apply in_or_app. auto.
      * exact R'.
    + intros j Hj. rewrite ids_f_cons, ids_t_eq in Hj.
      rewrite F by (intros K; apply Hj; right; apply in_or_app; auto). rewrite cells_put.
      destruct (Nat.eqb_spec j i) as [->|]; [|reflexivity]. exfalso. apply Hj. left. reflexivity.
Qed.

(* rep_l with parent None from rep_l with another parent is not available; the
   children of [s] are re-parented in place: *)
Lemma reparent_from : forall l h prv s c fuel cnt,
  rep_l (cells h) (Some s) prv l None -> NoDup (ids_f l) -> length l < fuel ->
  exists h', reparent fuel h (hid l) c cnt = ROk (h', cnt + length l) /\ same_meta h h' /\
    rep_l (cells h') (Some c) prv l None /\
    (forall i, ~ In i (ids_f l) -> cells h' i = cells h i).
Proof.
  induction l as [|[i n v k] r IH]; intros h prv s c fuel cnt R ND Hf.
  - destruct fuel; cbn [hid reparent length]; rewrite Nat.add_0_r; exists h; (split; [reflexivity|]);
      (split; [split; reflexivity|]); (split; [apply rep_l_nil|auto]).
  - destruct fuel as [|fuel]; [cbn in Hf; lia|]. cbn [hid tid reparent].
    rewrite rep_l_cons, rep_t_eq in R. destruct R as ((Hi & Hk) & Hr).
    rewrite ids_f_cons, ids_t_eq in ND. inversion ND as [|? ? Ni ND']; subst.
    apply NoDup_app_inv in ND'. destruct ND' as (NDk & NDr & Dj).
    rewrite (wr_ok _ _ _ _ _ Hi). cbn [rbind].
    erewrite fld_ok by (rewrite cells_put, Nat.eqb_refl; reflexivity). cbn [rbind set_par nnext].
    destruct (IH (put h i (set_par (Some c) (mkN (hid_or r None) prv (Some s) (hid k) n v))) (Some i) s c fuel (S cnt))
      as (h' & E & M & R' & F).
    { eapply rep_l_frame; [exact Hr|]. intros j Hj. rewrite cells_put.
      destruct (Nat.eqb_spec j i) as [->|]; [|reflexivity]. exfalso. apply Ni. apply in_or_app. auto. }
    { exact NDr. }
    { cbn in Hf. lia. }
    rewrite (hid_hid_or r) in E. rewrite E. exists h'. split; [f_equal; f_equal; cbn [length]; lia|]. split; [exact M|]. split.
    + rewrite rep_l_cons, rep_t_eq. cbn [tid]. repeat split.
      * rewrite F by (intros K; apply Ni; apply in_or_app; auto).
        rewrite cells_put, Nat.eqb_refl. reflexivity.
      * eapply rep_l_frame; [exact Hk|]. intros j Hj.
        rewrite F by (intros K; exact (Dj _ Hj K)). rewrite cells_put.
        destruct (Nat.eqb_spec j i) as [->|]; [|reflexivity]. exfalso. apply Ni. apply in_or_app. auto.
      * exact R'.
    + intros j Hj. rewrite ids_f_cons, ids_t_eq in Hj.
      rewrite F by (intros K; apply Hj; right; apply in_or_app; auto). rewrite cells_put.
      destruct (Nat.eqb_spec j i) as [->|]; [|reflexivity]. exfalso. apply Hj. left. reflexivity.
Qed.

(* ---------------------------------------------------------------- adopt the children *)
(* the target node [c] has no children: it takes over the children of [s]
   (curr->children = src->children; src->children = 0; all: ->parent = curr) *)
Lemma adopt_rep h fs fd rest a s n v b d1 c nj w d2 ks lfuel cnt :
  let fs' := Fr a s n v b :: fs in
  let fd' := Fr d1 c nj w d2 :: fd in
  let st := plug (fs', plug (fd', rest) []) ks in
  rep_st (cells h) st -> NoDup (ids_st st) -> length ks < lfuel ->
  exists h',
    (do h1 <- wr set_kid h c (hid ks); do h2 <- wr set_kid h1 s None; reparent lfuel h2 (hid ks) c cnt)
    = ROk (h', cnt + length ks) /\
    stepr h st h' (plug (fs', plug (fd', rest) ks) []).
Proof.
  intros fs' fd' st R ND Hf. subst st.
  pose proof R as R0. rewrite rep_plug in R0. destruct R0 as (Rks & Rfs & Ro).
  rewrite rep_plug in Ro. destruct Ro as (_ & Rfd & Rrest).
  assert (PI : Permutation (ids_st (plug (fs', plug (fd', rest) []) ks))
                           (concat [ids_f ks; ids_frs fs'; ids_frs fd'; ids_st rest])).
  { rewrite !ids_plug. cbn [concat ids_f flat_map app]. rewrite app_nil_r. reflexivity. }
  assert (NS : NoDup (concat [ids_f ks; ids_frs fs'; ids_frs fd'; ids_st rest])).
  { eapply Permutation_NoDup; [exact PI|exact ND]. }
  pose proof Rfs as Rfs0. unfold fs' in Rfs0. cbn [rep_frames fl1 fi fn fv fl2] in Rfs0. destruct Rfs0 as (_ & Hs & _).
  pose proof Rfd as Rfd0. unfold fd' in Rfd0. cbn [rep_frames fl1 fi fn fv fl2] in Rfd0. destruct Rfd0 as (_ & Hc & _).
  assert (Sin : In s (ids_frs fs')).
  { unfold fs'. cbn [ids_frs flat_map]. apply in_or_app. left. unfold ids_fr. cbn [fl1 fi fl2].
    apply in_or_app. right. left. reflexivity. }
  assert (Cin : In c (ids_frs fd')).
  { unfold fd'. cbn [ids_frs flat_map]. apply in_or_app. left. unfold ids_fr. cbn [fl1 fi fl2].
    apply in_or_app. right. left. reflexivity. }
  assert (Nsc : s <> c) by (intros E; rewrite E in Sin; seg_absurd NS 1 2).
  rewrite (wr_ok _ _ _ _ _ Hc). cbn [rbind].
  erewrite wr_ok by (rewrite cells_put, (proj2 (Nat.eqb_neq s c)) by assumption; exact Hs). cbn [rbind].
  match goal with |- context [reparent lfuel ?hh _ _ _] => set (h2 := hh) end.
  assert (C2 : forall i, cells h2 i = if i =? s then option_map (set_kid None) (cells h s)
                                     else if i =? c then option_map (set_kid (hid ks)) (cells h c) else cells h i).
  { intros i. unfold h2. rewrite !cells_put. destruct (i =? s); [rewrite Hs; reflexivity|].
    destruct (i =? c); [rewrite Hc|]; reflexivity. }
  destruct (reparent_from ks h2 None s c lfuel cnt) as (h3 & E3 & M3 & R3 & F3).
  { eapply rep_l_frame; [exact Rks|]. intros i Hi. rewrite C2.
    destruct (Nat.eqb_spec i s) as [->|]; [seg_absurd NS 0 1|].
    destruct (Nat.eqb_spec i c) as [->|]; [seg_absurd NS 0 2|reflexivity]. }
  { exact (NoDup_concat_nth _ 0 NS). }
  { exact Hf. }
  rewrite E3. exists h3. split; [reflexivity|].
  assert (C3 : forall i, ~ In i (ids_f ks) -> cells h3 i = cells h2 i) by exact F3.
  constructor.
  - destruct M3 as [Ma Mb]. split; [rewrite Ma|rewrite Mb]; reflexivity.
  - rewrite rep_plug. split; [apply rep_l_nil|]. split.
    + eapply rep_frames_hd'; [exact Rfs|exact (NoDup_concat_nth _ 1 NS)|].
      intros i Hi. rewrite C3 by (intros K; seg_absurd NS 1 0). rewrite C2.
      unfold fs'. cbn [cpar fi peq].
      destruct (Nat.eqb_spec i s) as [->|]; [reflexivity|].
      destruct (Nat.eqb_spec i c) as [->|]; [seg_absurd NS 1 2|reflexivity].
    + rewrite rep_plug. split; [exact R3|]. split.
      * eapply rep_frames_hd'; [exact Rfd|exact (NoDup_concat_nth _ 2 NS)|].
        intros i Hi. rewrite C3 by (intros K; seg_absurd NS 2 0). rewrite C2.
        unfold fd'. cbn [cpar fi peq].
        destruct (Nat.eqb_spec i s) as [->|]; [seg_absurd NS 2 1|].
        destruct (Nat.eqb_spec i c) as [->|]; reflexivity.
      * eapply rep_st_frame; [exact Rrest|]. intros i Hi.
        rewrite C3 by (intros K; seg_absurd NS 3 0). rewrite C2.
        destruct (Nat.eqb_spec i s) as [->|]; [seg_absurd NS 3 1|].
        destruct (Nat.eqb_spec i c) as [->|]; [seg_absurd NS 3 2|reflexivity].
  - rewrite !ids_plug. cbn [ids_f flat_map app]. rewrite ?app_nil_r.
    rewrite Permutation_app_swap_app. reflexivity.
  - intros i Hi.
    assert (K : forall j, In j (concat [ids_f ks; ids_frs fs'; ids_frs fd'; ids_st rest]) -> i <> j).
    { intros j Hj ->. apply Hi. eapply Permutation_in; [symmetry; exact PI|exact Hj]. }
    rewrite C3; [rewrite C2|].
    + destruct (Nat.eqb_spec i s) as [->|].
      { exfalso. apply (K s); [|reflexivity]. cbn [concat]. apply in_or_app. right. apply in_or_app. left. exact Sin. }
      destruct (Nat.eqb_spec i c) as [->|]; [|reflexivity].
      exfalso. apply (K c); [|reflexivity]. cbn [concat]. apply in_or_app. right. apply in_or_app. right.
      apply in_or_app. left. exact Cin.
    + intros Hk. apply (K i); [|reflexivity]. cbn [concat]. apply in_or_app. left. exact Hk.
Qed.

(* ---------------------------------------------------------------- two zippers *)
(* source list [S] in context [fs], target list [D] in context [fd], in different
   top-level lists *)
Definition st2 (fs fd : list frame) (rest : state) (Sl D : forest) : state :=
  plug (fs, plug (fd, rest) D) Sl.

Lemma st2_swap fs fd rest Sl D :
  Permutation (st2 fs fd rest Sl D) (plug (fd, plug (fs, rest) Sl) D).
Proof. unfold st2, plug. cbn [fst snd]. apply perm_swap. Qed.

(* mpt_gnode_add(last, 0, node): append after the last element, from any element *)
Lemma node_insert_last h par l j tl x nx :
  rep_l (cells h) par None l None -> nth_error l j = Some tl -> length l <= nextid h ->
  cells h x = Some nx ->
  node_insert false h (tid tl) 0%Z x =
  (do '(h, _) <- gnode_after h (nth_id l (length l - 1)) (Some x); ROk h).
Proof.
  intros R E Hf Hx.
  assert (Hj : j < length l) by (apply nth_error_Some; congruence).
  unfold node_insert, getnode. rewrite (get_ok _ _ _ Hx). cbn [rbind].
  change (0 <? 0)%Z with false. cbn iota.
  assert (Ei : nth_id l j = Some (tid tl)) by (unfold nth_id; rewrite E; reflexivity).
  rewrite <- Ei. rewrite (gnode_pos_spec h par l j 0%Z (fuel_of h) R Hj) by (unfold fuel_of; lia).
  change (0 <? 0)%Z with false. cbn iota. cbn [rbind].
  destruct (nth_id_some l (length l - 1)) as (t' & Et & Eti); [lia|]. rewrite Eti.
  change ((0 =? 0)%Z || (0 =? 1)%Z) with true. cbn iota. cbn [rbind].
  change (0 <? 1)%Z with true. cbn iota. reflexivity.
Qed.

Lemma insert_at_end {A} (x : A) l : insert_at (length l) x l = l ++ [x].
Proof. unfold insert_at. rewrite firstn_all, skipn_all. reflexivity. Qed.

(* unlink the head of [todo] from the source list *)
Lemma st2_unlink h fs fd rest kept ts todo D :
  let st := st2 fs fd rest (kept ++ ts :: todo) D in
  rep_st (cells h) st -> NoDup (ids_st st) ->
  exists h', node_unlink h (Some (tid ts)) = ROk (h', hid todo) /\
    stepr h st h' ([ts] :: st2 fs fd rest (kept ++ todo) D).
Proof.
  intros st R ND. subst st. unfold st2 in *.
  destruct (unlink_rep _ _ _ _ _ _ R ND) as (h' & E & M & R' & F & _).
  exists h'. split; [exact E|]. constructor; auto. symmetry. apply ids_plug_insert.
Qed.

(* append the unlinked [ts] to the target list (gnode_add(last, 0, ts)) *)
Lemma st2_append h fs fd rest Sl D ts j tl :
  let st := [ts] :: st2 fs fd rest Sl D in
  rep_st (cells h) st -> NoDup (ids_st st) -> nth_error D j = Some tl -> length (ids_st st) <= nextid h ->
  exists h', node_add false h (Some (tid tl)) 0%Z (Some (tid ts)) = ROk (h', Some (tid ts)) /\
    stepr h st h' (st2 fs fd rest Sl (D ++ [ts])).
Proof.
  intros st R ND E Hn. subst st.
  assert (P1 : Permutation ([ts] :: st2 fs fd rest Sl D) ([ts] :: plug (fd, plug (fs, rest) Sl) D))
    by (apply perm_skip; apply st2_swap).
  pose proof (rep_st_perm _ _ _ P1 R) as R1.
  assert (ND1 : NoDup (ids_st ([ts] :: plug (fd, plug (fs, rest) Sl) D)))
    by (eapply Permutation_NoDup; [apply ids_st_perm; exact P1|exact ND]).
  assert (Hj : j < length D) by (apply nth_error_Some; congruence).
  pose proof R1 as R0. rewrite rep_st_cons, rep_plug in R0. destruct R0 as (Rx & RD & _).
  destruct ts as [x nx vx kx]. rewrite rep_l_cons, rep_t_eq in Rx. destruct Rx as ((Hx & _) & _).
  assert (Len : length D <= nextid h).
  { etransitivity; [apply length_le_ids|]. etransitivity; [|exact Hn].
    rewrite (Permutation_length (ids_st_perm _ _ P1)), ids_st_cons, app_length,
      (Permutation_length (ids_plug _ _ _)), app_length. lia. }
  destruct (insert_rep h fd (plug (fs, rest) Sl) D (T x nx vx kx) (length D - 1) true R1 ND1) as (h' & E' & M & R' & F); [lia|].
  cbn [tid] in *. unfold node_add.
  rewrite (node_insert_last h (cpar fd) D j tl x _ RD E Len Hx).
  rewrite E'. cbn [rbind]. exists h'. split; [reflexivity|].
  replace (S (length D - 1)) with (length D) in R' by lia. rewrite insert_at_end in R'.
  apply (stepr_perm h _ h' _ _ _ P1 (Permutation_sym (st2_swap fs fd rest Sl (D ++ [T x nx vx kx])))).
  constructor; auto.
  rewrite <- insert_at_end. apply ids_plug_insert_at.
Qed.

(* ---------------------------------------------------------------- equations of the merge specification *)
Lemma move_t_inner : forall k d,
  (fix ml (l : forest) (d : forest) {struct l} : forest * forest * nat :=
     match l with
     | [] => ([], d, 0)
     | t' :: r =>
       let '(o, d1', m1) := move_t t' d in
       let '(r', d2', m2) := ml r d1' in
       (match o with Some t'' => t'' :: r' | None => r' end, d2', m1 + m2)
     end) k d = move_l k d.
Proof.
  induction k as [|t r IH]; intros d; [reflexivity|].
  cbn [move_l]. destruct (move_t t d) as [[o d1] m1]. rewrite IH. reflexivity.
Qed.

Lemma move_t_nomatch i n v k dst :
  split_name n [] dst = None -> move_t (T i n v k) dst = (None, dst ++ [T i n v k], 1).
Proof. intros E. cbn [move_t]. rewrite E. reflexivity. Qed.

Lemma move_t_leaf i n v dst d1 tj d2 :
  split_name n [] dst = Some (d1, tj, d2) -> move_t (T i n v []) dst = (Some (T i n v []), dst, 0).
Proof. intros E. cbn [move_t]. rewrite E. destruct tj. reflexivity. Qed.

Lemma move_t_adopt i n v k dst d1 j nj w d2 :
  split_name n [] dst = Some (d1, T j nj w [], d2) -> k <> [] ->
  move_t (T i n v k) dst = (Some (T i n v []), d1 ++ T j nj w k :: d2, length k).
Proof. intros E Hk. cbn [move_t]. rewrite E. destruct k; [contradiction|reflexivity]. Qed.

Lemma move_t_merge i n v k dst d1 j nj w kd d2 :
  split_name n [] dst = Some (d1, T j nj w kd, d2) -> k <> [] -> kd <> [] ->
  move_t (T i n v k) dst =
  (Some (T i n v (fst (fst (move_l k kd)))), d1 ++ T j nj w (snd (fst (move_l k kd))) :: d2, snd (move_l k kd)).
Proof.
  intros E Hk Hd. cbn [move_t]. rewrite E. destruct k as [|tk rk]; [contradiction|]. destruct kd as [|td rd]; [contradiction|].
  rewrite (move_t_inner (tk :: rk) (td :: rd)). destruct (move_l (tk :: rk) (td :: rd)) as [[k' kd'] m]. reflexivity.
Qed.

Lemma move_l_cons t r d :
  move_l (t :: r) d =
  (match fst (fst (move_t t d)) with
   | Some t'' => t'' :: fst (fst (move_l r (snd (fst (move_t t d)))))
   | None => fst (fst (move_l r (snd (fst (move_t t d)))))
   end,
   snd (fst (move_l r (snd (fst (move_t t d))))),
   snd (move_t t d) + snd (move_l r (snd (fst (move_t t d))))).
Proof.
  cbn [move_l]. destruct (move_t t d) as [[o d1] m1]. cbn [fst snd].
  destruct (move_l r d1) as [[r' d2] m2]. reflexivity.
Qed.


(* ---------------------------------------------------------------- the loop of mpt_node_move *)
Definition rec_of (f : nat) : heap -> nat -> ptr -> R (heap * nat) :=
  fun h s ck => do '(h, _, m) <- node_move f h (FromKids s) ck; ROk (h, m).

(* [from] addresses the start of the source list *)
Definition from_ok (from : fromref) (fs : list frame) (Sl : forest) : Prop :=
  match from with
  | FromKids p => cpar fs = Some p
  | FromLocal v => fs = [] /\ v = hid Sl
  end.

Lemma from_get_ok h from fs Sl :
  from_ok from fs Sl -> rep_frames (cells h) fs (hid Sl) -> from_get h from = ROk (hid Sl).
Proof.
  destruct from as [p|v]; cbn [from_ok from_get].
  - intros E Rf. destruct fs as [|fr r]; cbn in E; inversion E; subst.
    cbn [rep_frames] in Rf. destruct Rf as (_ & Hc & _). rewrite (fld_ok _ _ _ _ Hc). reflexivity.
  - intros [_ ->] _. reflexivity.
Qed.

Lemma st2_facts h fs fd rest kept s n v ks todo D :
  rep_st (cells h) (st2 fs fd rest (kept ++ T s n v ks :: todo) D) ->
  cells h s = Some (mkN (hid todo) (lastid kept None) (cpar fs) (hid ks) n v) /\
  rep_l (cells h) (Some s) None ks None /\
  rep_l (cells h) (cpar fd) None D None /\
  rep_frames (cells h) fs (hid (kept ++ T s n v ks :: todo)) /\
  rep_frames (cells h) fd (hid D).
Proof.
  unfold st2. rewrite rep_plug, rep_l_mid, rep_plug. rewrite <- hid_hid_or. tauto.
Qed.

Lemma st2_facts_list h fs fd rest Sl D :
  rep_st (cells h) (st2 fs fd rest Sl D) ->
  rep_frames (cells h) fs (hid Sl) /\ rep_l (cells h) (cpar fd) None D None /\ rep_frames (cells h) fd (hid D).
Proof. unfold st2. rewrite !rep_plug. tauto. Qed.

Lemma st2_ids fs fd rest Sl D :
  Permutation (ids_st (st2 fs fd rest Sl D))
              (ids_f Sl ++ ids_frs fs ++ ids_f D ++ ids_frs fd ++ ids_st rest).
Proof. unfold st2. rewrite !ids_plug. reflexivity. Qed.

(* the statement proved by induction on the size of the remaining source list *)
Definition loop_ok (todo : forest) : Prop :=
  forall h fs fd rest kept dcur from last d move f g,
    let st := st2 fs fd rest (kept ++ todo) dcur in
    rep_st (cells h) st -> NoDup (ids_st st) -> length (ids_st st) <= nextid h ->
    hid dcur = Some d -> (exists j tl, nth_error dcur j = Some tl /\ tid tl = last) ->
    from_ok from fs (kept ++ todo) ->
    length (ids_st st) + 2 <= S f + length fs -> fsize todo < g ->
    exists h' from',
      move_loop (rec_of f) (S f) d g h from (hid todo) last move =
        ROk (h', from', move + snd (move_l todo dcur)) /\
      stepr h st h' (st2 fs fd rest (kept ++ fst (fst (move_l todo dcur))) (snd (fst (move_l todo dcur)))) /\
      from_ok from' fs (kept ++ fst (fst (move_l todo dcur))).

Lemma loop_nil : loop_ok [].
Proof.
  intros h fs fd rest kept dcur from last d move f g st R ND Hn Hd Hl Hfr Hb Hg.
  destruct g; [cbn in Hg; lia|]. cbn [hid move_loop move_l fst snd]. rewrite Nat.add_0_r.
  exists h, from. split; [reflexivity|]. split; [apply stepr_refl; exact R|exact Hfr].
Qed.

Lemma stepr_nodup h st h' st' : stepr h st h' st' -> NoDup (ids_st st) -> NoDup (ids_st st').
Proof. intros [_ _ P _] ND. eapply Permutation_NoDup; [symmetry; exact P|exact ND]. Qed.

Lemma stepr_len h st h' st' : stepr h st h' st' -> length (ids_st st) <= nextid h -> length (ids_st st') <= nextid h'.
Proof. intros [[M _] _ P _] L. rewrite M, (Permutation_length P). exact L. Qed.

(* the source element has no counterpart in the target list: it is moved *)
Lemma loop_step_nomatch s n v ks todo' :
  loop_ok todo' ->
  forall h fs fd rest kept dcur from last d move f g,
    let todo := T s n v ks :: todo' in
    let st := st2 fs fd rest (kept ++ todo) dcur in
    rep_st (cells h) st -> NoDup (ids_st st) -> length (ids_st st) <= nextid h ->
    hid dcur = Some d -> (exists j tl, nth_error dcur j = Some tl /\ tid tl = last) ->
    from_ok from fs (kept ++ todo) ->
    length (ids_st st) + 2 <= S f + length fs -> fsize todo < g ->
    split_name n [] dcur = None ->
    exists h' from',
      move_loop (rec_of f) (S f) d g h from (hid todo) last move =
        ROk (h', from', move + snd (move_l todo dcur)) /\
      stepr h st h' (st2 fs fd rest (kept ++ fst (fst (move_l todo dcur))) (snd (fst (move_l todo dcur)))) /\
      from_ok from' fs (kept ++ fst (fst (move_l todo dcur))).
Proof.
  intros IH h fs fd rest kept dcur from last d move f g todo st R ND Hn Hd Hl Hfr Hb Hg Es.
  subst todo st.
  destruct (st2_facts _ _ _ _ _ _ _ _ _ _ _ R) as (Hs & Rks & RD & Rfs & Rfd).
  destruct g as [|g]; [cbn in Hg; lia|]. rewrite fsize_cons, tsize_eq in Hg.
  cbn [hid tid move_loop]. rewrite (get_ok _ _ _ Hs). cbn [rbind nname nnext].
  (* locate: nothing of that name in the target list *)
  destruct dcur as [|td dr] eqn:Ed; [discriminate|]. rewrite <- Ed in *. cbn [hid] in Hd.
  assert (Hd' : d = tid td) by (rewrite Ed in Hd; cbn in Hd; congruence). subst d.
  assert (Lids : length (ids_st (st2 fs fd rest (kept ++ T s n v ks :: todo') dcur)) =
                 length (ids_f (kept ++ T s n v ks :: todo')) + length (ids_frs fs) + length (ids_f dcur) +
                 length (ids_frs fd) + length (ids_st rest)).
  { rewrite (Permutation_length (st2_ids _ _ _ _ _)), !app_length. lia. }
  pose proof (frames_length fs) as Lfs. pose proof (length_le_ids dcur) as Ldc.
  assert (Ls1 : 1 <= length (ids_f (kept ++ T s n v ks :: todo'))).
  { rewrite ids_f_app, ids_f_cons, ids_t_eq, !app_length. cbn [length]. lia. }
  rewrite (loc_first h (cpar fd) dcur n (S f) RD ltac:(lia) td dr Ed).
  pose proof (split_name_spec n dcur [] 0) as Sp. rewrite Es in Sp.
  destruct (matches n 0 dcur) as [|jj ms] eqn:Em.
  2:{ rewrite Nat.sub_0_r in Sp. destruct (nth_error dcur jj) eqn:En; [discriminate|].
      exfalso. apply nth_error_None in En.
      pose proof (matches_bounds n dcur 0 jj) as B. rewrite Em in B. destruct (B (or_introl eq_refl)) as ((_ & B2) & _). lia. }
  cbn [nth_error idx_id rbind].
  (* unlink, append *)
  destruct (st2_unlink h fs fd rest kept (T s n v ks) todo' dcur R ND) as (h1 & E1 & S1).
  cbn [tid] in E1. rewrite E1. cbn [rbind].
  destruct Hl as (jl & tl & Ejl & Etl). subst last.
  destruct (st2_append h1 fs fd rest (kept ++ todo') dcur (T s n v ks) jl tl (sr_rep _ _ _ _ S1)
              (stepr_nodup _ _ _ _ S1 ND) Ejl (stepr_len _ _ _ _ S1 Hn)) as (h2 & E2 & S2).
  cbn [tid] in E2. rewrite E2. cbn [rbind].
  pose proof (stepr_trans _ _ _ _ _ _ S1 S2) as S12.
  (* the start of the source list *)
  destruct (st2_facts_list h2 fs fd rest (kept ++ todo') (dcur ++ [T s n v ks]) (sr_rep _ _ _ _ S12)) as (Rfs2 & _).
  assert (ND2 : NoDup (ids_st (st2 fs fd rest (kept ++ todo') (dcur ++ [T s n v ks])))) by exact (stepr_nodup _ _ _ _ S12 ND).
  assert (Nhd : hid (kept ++ todo') <> Some s).
  { intros K. eapply Permutation_NoDup in ND2; [|apply st2_ids].
    apply NoDup_app_inv in ND2. destruct ND2 as (_ & _ & Dj). apply (Dj s).
    - rewrite hid_hid_or in K. apply hid_or_in. exact K.
    - apply in_or_app. right. apply in_or_app. left. rewrite ids_f_app, ids_f_cons, ids_t_eq.
      apply in_or_app. right. left. reflexivity. }
  assert (Fx : exists from',
     (do fv <- from_get h2 from;
      do x <- (if peq fv (Some s) then from_set h2 from (hid todo') else ROk (h2, from));
      let '(h0, from0) := x in move_loop (rec_of f) (S f) (tid td) g h0 from0 (hid todo') s (S move)) =
     move_loop (rec_of f) (S f) (tid td) g h2 from' (hid todo') s (S move) /\
     from_ok from' fs (kept ++ todo')).
  { destruct from as [p|vv]; cbn [from_ok] in Hfr.
    - rewrite (from_get_ok h2 (FromKids p) fs (kept ++ todo') Hfr Rfs2). cbn [rbind].
      destruct (peq (hid (kept ++ todo')) (Some s)) eqn:Ep.
      + exfalso. apply Nhd. destruct (hid (kept ++ todo')) as [q|]; cbn in Ep; [|discriminate].
        apply Nat.eqb_eq in Ep. congruence.
      + cbn [rbind]. exists (FromKids p). split; [reflexivity|exact Hfr].
    - destruct Hfr as [-> ->]. cbn [from_get rbind].
      destruct kept as [|tk kr]; cbn [app hid tid peq].
      + rewrite Nat.eqb_refl. cbn [from_set rbind]. exists (FromLocal (hid todo')). split; [reflexivity|].
        cbn [from_ok]. auto.
      + destruct (Nat.eqb_spec (tid tk) s) as [K|K].
        * exfalso. apply Nhd. cbn [app hid]. congruence.
        * cbn [rbind]. exists (FromLocal (Some (tid tk))). split; [reflexivity|]. cbn [from_ok app hid]. auto. }
  destruct Fx as (from' & Efx & Hfr').
  replace (hid_or todo' None) with (hid todo') by apply hid_hid_or.
  rewrite Efx.
  (* the rest of the loop *)
  destruct (IH h2 fs fd rest kept (dcur ++ [T s n v ks]) from' s (tid td) (S move) f g) as (h3 & from3 & E3 & S3 & Hfr3).
  - exact (sr_rep _ _ _ _ S12).
  - exact ND2.
  - exact (stepr_len _ _ _ _ S12 Hn).
  - rewrite Ed. reflexivity.
  - exists (length dcur), (T s n v ks). split; [|reflexivity].
    rewrite nth_error_app2, Nat.sub_diag by lia. reflexivity.
  - exact Hfr'.
  - rewrite (Permutation_length (sr_ids _ _ _ _ S12)). exact Hb.
  - lia.
  - rewrite (move_l_cons (T s n v ks) todo' dcur), (move_t_nomatch _ _ _ _ _ Es). cbn [fst snd].
    exists h3, from3. split; [rewrite E3; f_equal; f_equal; lia|]. split; [|exact Hfr3].
    exact (stepr_trans _ _ _ _ _ _ S12 S3).
Qed.

Lemma st2_down fs fd rest a s n v b d1 c nj w d2 ks kd :
  st2 (Fr a s n v b :: fs) (Fr d1 c nj w d2 :: fd) rest ks kd =
  st2 fs fd rest (a ++ T s n v ks :: b) (d1 ++ T c nj w kd :: d2).
Proof. reflexivity. Qed.

Lemma nth_error_mid_tid (d1 d2 : forest) (x y : tree) j tl :
  tid x = tid y -> nth_error (d1 ++ x :: d2) j = Some tl ->
  exists tl', nth_error (d1 ++ y :: d2) j = Some tl' /\ tid tl' = tid tl.
Proof.
  intros Exy E. destruct (Nat.lt_ge_cases j (length d1)) as [L|L].
  - rewrite nth_error_app1 in E |- * by assumption. eauto.
  - rewrite nth_error_app2 in E |- * by assumption. destruct (j - length d1) as [|k]; cbn [nth_error] in *.
    + inversion E; subst. eauto.
    + eauto.
Qed.

Lemma hid_mid_tid (d1 d2 : forest) (x y : tree) : tid x = tid y -> hid (d1 ++ x :: d2) = hid (d1 ++ y :: d2).
Proof. intros E. destruct d1; cbn; [rewrite E|]; reflexivity. Qed.

(* the source element has a counterpart in the target list: it stays; its children
   are merged into (or adopted by) the counterpart *)
Lemma loop_step_match s n v ks todo' :
  (forall y, fsize y < fsize (T s n v ks :: todo') -> loop_ok y) ->
  forall h fs fd rest kept dcur from last d move f g,
    let todo := T s n v ks :: todo' in
    let st := st2 fs fd rest (kept ++ todo) dcur in
    rep_st (cells h) st -> NoDup (ids_st st) -> length (ids_st st) <= nextid h ->
    hid dcur = Some d -> (exists j tl, nth_error dcur j = Some tl /\ tid tl = last) ->
    from_ok from fs (kept ++ todo) ->
    length (ids_st st) + 2 <= S f + length fs -> fsize todo < g ->
    forall d1 c nj w kd d2, split_name n [] dcur = Some (d1, T c nj w kd, d2) ->
    exists h' from',
      move_loop (rec_of f) (S f) d g h from (hid todo) last move =
        ROk (h', from', move + snd (move_l todo dcur)) /\
      stepr h st h' (st2 fs fd rest (kept ++ fst (fst (move_l todo dcur))) (snd (fst (move_l todo dcur)))) /\
      from_ok from' fs (kept ++ fst (fst (move_l todo dcur))).
Proof.
  intros IH h fs fd rest kept dcur from last d move f g todo st R ND Hn Hd Hl Hfr Hb Hg d1 c nj w kd d2 Es.
  subst todo st.
  destruct (st2_facts _ _ _ _ _ _ _ _ _ _ _ R) as (Hs & Rks & RD & Rfs & Rfd).
  destruct g as [|g]; [cbn in Hg; lia|]. rewrite fsize_cons, tsize_eq in Hg.
  cbn [hid tid move_loop]. rewrite (get_ok _ _ _ Hs). cbn [rbind nname nnext nkid].
  destruct dcur as [|td dr] eqn:Ed0; [discriminate|]. rewrite <- Ed0 in *.
  assert (Hd' : d = tid td) by (rewrite Ed0 in Hd; cbn in Hd; congruence). subst d.
  assert (Lids : length (ids_st (st2 fs fd rest (kept ++ T s n v ks :: todo') dcur)) =
                 length (ids_f (kept ++ T s n v ks :: todo')) + length (ids_frs fs) + length (ids_f dcur) +
                 length (ids_frs fd) + length (ids_st rest)).
  { rewrite (Permutation_length (st2_ids _ _ _ _ _)), !app_length. lia. }
  pose proof (frames_length fs) as Lfs. pose proof (length_le_ids dcur) as Ldc.
  assert (Ls1 : S (length (ids_f ks)) <= length (ids_f (kept ++ T s n v ks :: todo'))).
  { rewrite ids_f_app, ids_f_cons, ids_t_eq, !app_length. cbn [length]. rewrite ?app_length. lia. }
  rewrite (loc_first h (cpar fd) dcur n (S f) RD ltac:(lia) td dr Ed0).
  pose proof (split_name_spec n dcur [] 0) as Sp. rewrite Es in Sp.
  destruct (matches n 0 dcur) as [|jj ms] eqn:Em; [discriminate|]. rewrite Nat.sub_0_r in Sp.
  destruct (nth_error dcur jj) as [tc|] eqn:Ej; [|discriminate]. inversion Sp; subst d1 tc d2. clear Sp.
  cbn [nth_error idx_id]. unfold nth_id. rewrite Ej. cbn [option_map tid rbind].
  destruct (insert_at_split dcur jj _ (T 0 0 0 []) Ej) as (Ed & _ & _).
  set (d1 := firstn jj dcur) in *. set (d2 := skipn (S jj) dcur) in *.
  (* the cell of the counterpart *)
  pose proof RD as RD0. rewrite Ed, rep_l_mid in RD0. destruct RD0 as (_ & Hc & _).
  assert (Lkd : S (length (ids_f kd)) <= length (ids_f dcur)).
  { rewrite Ed, ids_f_app, ids_f_cons, ids_t_eq, !app_length. cbn [length]. rewrite ?app_length. lia. }
  (* A: the children *)
  assert (A : exists h1 ks' kd',
     (match hid ks with
      | None => ROk (h, move)
      | Some _ =>
        do ck <- fld nkid h (Some c);
        match ck with
        | Some _ => do '(h, m) <- rec_of f h s ck; ROk (h, move + m)
        | None =>
          do h <- wr set_kid h c (hid ks);
          do h <- wr set_kid h s None;
          reparent (S f) h (hid ks) c move
        end
      end) = ROk (h1, move + snd (move_t (T s n v ks) dcur)) /\
     move_t (T s n v ks) dcur = (Some (T s n v ks'), d1 ++ T c nj w kd' :: d2, snd (move_t (T s n v ks) dcur)) /\
     stepr h (st2 fs fd rest (kept ++ T s n v ks :: todo') dcur)
           h1 (st2 fs fd rest (kept ++ T s n v ks' :: todo') (d1 ++ T c nj w kd' :: d2))).
  { destruct ks as [|tk rk].
    - (* no children *)
      exists h, [], kd. rewrite (move_t_leaf _ _ _ _ _ _ _ Es). cbn [hid snd]. rewrite Nat.add_0_r.
      split; [reflexivity|]. split; [rewrite <- Ed; reflexivity|]. rewrite <- Ed. apply stepr_refl. exact R.
    - set (ks := tk :: rk) in *. assert (Hks : hid ks = Some (tid tk)) by reflexivity. rewrite Hks.
      rewrite (fld_ok _ _ _ _ Hc). cbn [rbind nkid].
      destruct kd as [|tkd rkd].
      + (* the counterpart has no children: it adopts them *)
        cbn [hid]. rewrite <- Hks.
        assert (Est : st2 fs fd rest (kept ++ T s n v ks :: todo') dcur =
                      plug (Fr kept s n v todo' :: fs, plug (Fr d1 c nj w d2 :: fd, rest) []) ks).
        { rewrite Ed at 1. reflexivity. }
        rewrite Est in R, ND.
        destruct (adopt_rep h fs fd rest kept s n v todo' d1 c nj w d2 ks (S f) move R ND) as (h1 & E1 & S1).
        { pose proof (length_le_ids ks). lia. }
        rewrite E1. exists h1, [], ks.
        rewrite (move_t_adopt _ _ _ _ _ _ _ _ _ _ Es) by discriminate. cbn [snd].
        split; [reflexivity|]. split; [reflexivity|]. rewrite Est. exact S1.
      + (* both have children: merge them, one level down *)
        set (kd := tkd :: rkd) in *. assert (Hkd : hid kd = Some (tid tkd)) by reflexivity. rewrite Hkd.
        destruct f as [|f']; [lia|].
        unfold rec_of at 1. cbn [node_move]. cbn [from_get]. rewrite (fld_ok _ _ _ _ Hs). cbn [rbind nkid]. rewrite Hks, <- Hks.
        assert (Est : st2 fs fd rest (kept ++ T s n v ks :: todo') dcur =
                      st2 (Fr kept s n v todo' :: fs) (Fr d1 c nj w d2 :: fd) rest ([] ++ ks) kd).
        { rewrite Ed at 1. reflexivity. }
        assert (IHk : loop_ok ks) by (apply IH; rewrite fsize_cons, tsize_eq; lia).
        destruct (IHk h (Fr kept s n v todo' :: fs) (Fr d1 c nj w d2 :: fd) rest [] kd (FromKids s) (tid tkd) (tid tkd) 0 f' (S f'))
          as (h1 & from1 & E1 & S1 & _).
        * rewrite <- Est. exact R.
        * rewrite <- Est. exact ND.
        * rewrite <- Est. exact Hn.
        * exact Hkd.
        * exists 0, tkd. split; reflexivity.
        * reflexivity.
        * rewrite <- Est. cbn [length]. lia.
        * rewrite fsize_ids. lia.
        * change (fun (h0 : heap) (s0 : nat) (ck : ptr) => do '(h1, _, m) <- node_move f' h0 (FromKids s0) ck; ROk (h1, m))
            with (rec_of f').
          rewrite E1. cbn [rbind Nat.add].
          exists h1, (fst (fst (move_l ks kd))), (snd (fst (move_l ks kd))).
          rewrite (move_t_merge _ _ _ _ _ _ _ _ _ _ _ Es) by discriminate. cbn [snd].
          split; [reflexivity|]. split; [reflexivity|].
          rewrite Est. cbn [app] in S1. rewrite st2_down in S1. exact S1. }
  destruct A as (h1 & ks' & kd' & EA & Emt & S1).
  rewrite EA. cbn [rbind].
  (* B: the next source element *)
  destruct (st2_facts _ _ _ _ _ _ _ _ _ _ _ (sr_rep _ _ _ _ S1)) as (Hs1 & _).
  rewrite (fld_ok _ _ _ _ Hs1). cbn [rbind nnext].
  (* C: the rest of the loop *)
  assert (IHt : loop_ok todo') by (apply IH; rewrite fsize_cons, tsize_eq; lia).
  destruct Hl as (jl & tl & Ejl & Etl).
  destruct (nth_error_mid_tid d1 d2 (T c nj w kd) (T c nj w kd') jl tl eq_refl ltac:(rewrite <- Ed; exact Ejl)) as (tl' & Ejl' & Etl').
  destruct (IHt h1 fs fd rest (kept ++ [T s n v ks']) (d1 ++ T c nj w kd' :: d2) from last (tid td)
                (move + snd (move_t (T s n v ks) dcur)) f g) as (h2 & from2 & E2 & S2 & Hfr2).
  - rewrite <- app_assoc. exact (sr_rep _ _ _ _ S1).
  - rewrite <- app_assoc. exact (stepr_nodup _ _ _ _ S1 ND).
  - rewrite <- app_assoc. exact (stepr_len _ _ _ _ S1 Hn).
  - rewrite <- (hid_mid_tid d1 d2 (T c nj w kd) (T c nj w kd') eq_refl), <- Ed. exact Hd.
  - exists jl, tl'. split; [exact Ejl'|congruence].
  - rewrite <- app_assoc. cbn [app]. destruct from as [p|vv]; cbn [from_ok] in *; [exact Hfr|].
    destruct Hfr as [-> ->]. split; [reflexivity|]. apply (hid_mid_tid kept todo' (T s n v ks) (T s n v ks') eq_refl).
  - rewrite <- app_assoc. cbn [app]. rewrite (Permutation_length (sr_ids _ _ _ _ S1)). exact Hb.
  - lia.
  - rewrite (move_l_cons (T s n v ks) todo' dcur), Emt. cbn [fst snd].
    assert (Eapp : forall X : forest, kept ++ T s n v ks' :: X = (kept ++ [T s n v ks']) ++ X)
      by (intros X; rewrite <- app_assoc; reflexivity).
    rewrite (Eapp (fst (fst (move_l todo' (d1 ++ T c nj w kd' :: d2))))). rewrite (Eapp todo') in S1.
    exists h2, from2. split; [rewrite E2; f_equal; f_equal; lia|]. split; [|exact Hfr2].
    exact (stepr_trans _ _ _ _ _ _ S1 S2).
Qed.

Lemma loop_all : forall todo, loop_ok todo.
Proof.
  intros todo. induction todo as [todo IH] using (well_founded_induction (well_founded_ltof _ fsize)).
  unfold ltof in IH. destruct todo as [|[s n v ks] todo']; [exact loop_nil|].
  intros h fs fd rest kept dcur from last d move f g st R ND Hn Hd Hl Hfr Hb Hg.
  destruct (split_name n [] dcur) as [[[d1 [c nj w kd]] d2]|] eqn:Es.
  - exact (loop_step_match s n v ks todo' IH h fs fd rest kept dcur from last d move f g R ND Hn Hd Hl Hfr Hb Hg _ _ _ _ _ _ Es).
  - apply (loop_step_nomatch s n v ks todo'); auto. apply IH. rewrite fsize_cons, tsize_eq. lia.
Qed.
