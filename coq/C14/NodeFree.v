(* C14/NodeFree.v — mpt_node_clear / mpt_node_destroy release exactly the nodes
   below (and including) the given one, each once, and touch nothing else. *)
From Coq Require Import List Arith ZArith Bool Lia Permutation Wf_nat.
From MptV Require Import C14.NodeModel C14.NodeSpec C14.NodeRep C14.NodeFocus C14.NodeExec
  C14.NodeLocal C14.NodeInv C14.NodeRefine.
Import ListNotations.
Local Open Scope nat_scope.

Lemma mem_false i l : ~ In i l -> mem i l = false.
Proof. intros H. destruct (mem i l) eqn:E; [|reflexivity]. apply mem_in in E. contradiction. Qed.
Lemma mem_true i l : In i l -> mem i l = true.
Proof. apply mem_in. Qed.
Lemma mem_app i a b : mem i (a ++ b) = mem i a || mem i b.
Proof. apply existsb_app. Qed.
Lemma mem_cons i x l : mem i (x :: l) = (i =? x) || mem i l.
Proof. reflexivity. Qed.

Lemma release_ok h i n : cells h i = Some n ->
  release h i = ROk (mkH (upd (cells h) i None) (nextid h) (i :: freed h)).
Proof. intros H. unfold release. rewrite (get_ok _ _ _ H). reflexivity. Qed.

Lemma wr_ok s h i v n : cells h i = Some n -> wr s h i v = ROk (put h i (s v n)).
Proof. intros H. unfold wr. rewrite (get_ok _ _ _ H). reflexivity. Qed.

Lemma fld_ok f h i n : cells h i = Some n -> fld f h (Some i) = ROk (f n).
Proof. intros H. unfold fld. rewrite (get_ok _ _ _ H). reflexivity. Qed.

Lemma node_clear_S f h x :
  node_clear (S f) h x =
  (do tmp <- fld nkid h (Some x); do h <- clear_loop (node_clear f) (S f) h tmp; wr set_kid h x None).
Proof. reflexivity. Qed.

(* the loop over a sibling list: every node of the list and below is released *)
Lemma clear_loop_spec : forall k par prv h f g,
  rep_l (cells h) par prv k None -> NoDup (ids_f k) -> fsize k < f -> fsize k < g ->
  exists h', clear_loop (node_clear f) g h (hid k) = ROk h' /\ nextid h' = nextid h /\
    (forall i, cells h' i = if mem i (ids_f k) then None else cells h i) /\
    Permutation (freed h') (ids_f k ++ freed h).
Proof.
  intros k. induction k as [k IH] using (well_founded_induction (well_founded_ltof _ fsize)).
  unfold ltof in IH. intros par prv h f g R ND Hf Hg.
  destruct k as [|[i n v kk] r].
  { destruct g as [|g]; [cbn in Hg; lia|]. cbn [hid clear_loop]. exists h. split; [reflexivity|]. split; [reflexivity|].
    split; [intros; reflexivity|reflexivity]. }
  cbn [hid tid]. rewrite rep_l_cons, rep_t_eq in R. destruct R as ((Hi & Hkk) & Hr).
  rewrite fsize_cons, tsize_eq in Hf, Hg.
  rewrite ids_f_cons, ids_t_eq in ND. inversion ND as [|? ? Ni ND']; subst.
  apply NoDup_app_inv in ND'. destruct ND' as (NDk & NDr & Dj).
  assert (Nik : ~ In i (ids_f kk)) by (intros K; apply Ni; apply in_or_app; auto).
  assert (Nir : ~ In i (ids_f r)) by (intros K; apply Ni; apply in_or_app; auto).
  destruct g as [|g]; [lia|]. destruct f as [|f]; [lia|].
  cbn [clear_loop].
  rewrite (fld_ok _ _ _ _ Hi). cbn [rbind nnext].
  rewrite (wr_ok _ _ _ _ _ Hi). cbn [rbind].
  erewrite wr_ok by (rewrite cells_put, Nat.eqb_refl; reflexivity). cbn [rbind].
  erewrite wr_ok by (rewrite cells_put, Nat.eqb_refl; reflexivity). cbn [rbind].
  cbn [set_prev set_next set_par nnext nprev npar nkid nname nval].
  match goal with |- context [node_clear (S f) ?hh i] => set (h1 := hh) end.
  assert (C1 : forall j, cells h1 j = if j =? i then Some (mkN None None None (hid kk) n v) else cells h j).
  { intros j. unfold h1. rewrite !cells_put. destruct (j =? i); reflexivity. }
  (* the recursive clear of the child *)
  rewrite node_clear_S.
  assert (C1i : cells h1 i = Some (mkN None None None (hid kk) n v)) by (rewrite C1, Nat.eqb_refl; reflexivity).
  rewrite (fld_ok _ _ _ _ C1i). cbn [rbind nkid].
  destruct (IH kk) with (par := Some i) (prv := @None nat) (h := h1) (f := f) (g := S f)
    as (h2 & E2 & N2 & C2 & P2); try lia.
  { rewrite fsize_cons, tsize_eq. lia. }
  { eapply rep_l_frame; [exact Hkk|]. intros j Hj. rewrite C1.
    destruct (Nat.eqb_spec j i) as [->|]; [contradiction|reflexivity]. }
  { exact NDk. }
  rewrite E2. cbn [rbind].
  assert (C2i : cells h2 i = Some (mkN None None None (hid kk) n v)).
  { rewrite C2, (mem_false _ _ Nik). exact C1i. }
  rewrite (wr_ok _ _ _ _ _ C2i). cbn [rbind].
  erewrite release_ok by (rewrite cells_put, Nat.eqb_refl; reflexivity). cbn [rbind].
  match goal with |- context [clear_loop _ g ?hh _] => set (h4 := hh) end.
  assert (C4 : forall j, cells h4 j = if mem j (i :: ids_f kk) then None else cells h j).
  { intros j. unfold h4. cbn [cells]. unfold upd at 1. rewrite mem_cons.
    destruct (Nat.eqb_spec j i) as [->|Nj]; [reflexivity|]. cbn [orb].
    rewrite cells_put. rewrite (proj2 (Nat.eqb_neq j i)) by assumption.
    rewrite C2, C1. rewrite (proj2 (Nat.eqb_neq j i)) by assumption. reflexivity. }
  destruct (IH r) with (par := par) (prv := Some i) (h := h4) (f := S f) (g := g)
    as (h5 & E5 & N5 & C5 & P5); try lia.
  { rewrite fsize_cons, tsize_eq. lia. }
  { eapply rep_l_frame; [exact Hr|]. intros j Hj. rewrite C4.
    rewrite mem_false; [reflexivity|]. intros [->|K]; [contradiction|]. exact (Dj _ K Hj). }
  { exact NDr. }
  rewrite <- hid_hid_or. rewrite E5.
  exists h5. split; [reflexivity|]. split; [|split].
  - rewrite N5. unfold h4. cbn [nextid put]. rewrite N2. unfold h1. reflexivity.
  - intros j. rewrite C5, C4. rewrite ids_f_cons, ids_t_eq, mem_app.
    destruct (mem j (ids_f r)); [rewrite orb_true_r; reflexivity|]. rewrite orb_false_r. reflexivity.
  - rewrite P5. unfold h4. cbn [freed]. rewrite P2. unfold h1. cbn [freed put].
    rewrite ids_f_cons, ids_t_eq. cbn [app].
    rewrite <- !app_assoc. rewrite Permutation_app_swap_app. cbn [app].
    rewrite <- Permutation_middle. apply perm_skip. rewrite Permutation_app_swap_app. reflexivity.
Qed.

(* mpt_node_clear on a node whose children are [k] *)
Lemma node_clear_spec h x nx k f :
  cells h x = Some nx -> nkid nx = hid k ->
  rep_l (cells h) (Some x) None k None -> NoDup (x :: ids_f k) -> S (fsize k) < f ->
  exists h', node_clear f h x = ROk h' /\ nextid h' = nextid h /\
    (forall i, cells h' i = if i =? x then Some (set_kid None nx)
                            else if mem i (ids_f k) then None else cells h i) /\
    Permutation (freed h') (ids_f k ++ freed h).
Proof.
  intros Hx Hk R ND Hf. inversion ND as [|? ? Nx NDk]; subst.
  destruct f as [|f]; [lia|]. rewrite node_clear_S.
  rewrite (fld_ok _ _ _ _ Hx). cbn [rbind]. rewrite Hk.
  destruct (clear_loop_spec k (Some x) None h f (S f) R NDk) as (h2 & E2 & N2 & C2 & P2); try lia.
  rewrite E2. cbn [rbind].
  assert (C2x : cells h2 x = Some nx) by (rewrite C2, (mem_false _ _ Nx); exact Hx).
  rewrite (wr_ok _ _ _ _ _ C2x).
  eexists. split; [reflexivity|]. split; [exact N2|]. split; [|exact P2].
  intros i. rewrite cells_put. destruct (i =? x); [reflexivity|]. apply C2.
Qed.

Lemma in_mem_iff i l : (mem i l = false) <-> ~ In i l.
Proof.
  split; [intros E K; apply mem_in in K; congruence|apply mem_false].
Qed.

(* ---------------------------------------------------------------- clear *)
Lemma step_clear x : refines_step (OClear x).
Proof.
  intros h s I. cbn [mstep sstep]. rewrite (live_iff _ _ _ I).
  destruct (focus x (lists s)) as [[[[[frs o] l1] tx] l2]|] eqn:FX.
  2:{ assert (Sl : slive s x = false).
      { destruct (slive s x) eqn:Sl; [|reflexivity]. apply mem_in in Sl. exfalso. exact (focus_st_none _ _ _ FX Sl). }
      rewrite Sl. cbn [fst snd]. eexists; split; [reflexivity|exact I]. }
  assert (Sl : slive s x = true) by (apply mem_in; eapply focus_in; exact FX).
  rewrite Sl. cbn [fst snd].
  destruct (focus_cell _ _ _ _ _ _ _ _ (i_rep _ _ I) FX) as [Hc R].
  destruct (focus_perm _ _ _ _ _ _ _ FX) as [P Ex].
  destruct tx as [x' n v kx]. cbn [tid tname tval tkids] in *. subst x'.
  assert (PI : Permutation (ids_st (lists s))
                 (concat [[x]; ids_f kx; ids_f l1; ids_f l2; ids_frs frs; ids_st o])).
  { rewrite (ids_st_perm _ _ P), ids_plug. cbn [concat]. rewrite ids_f_app, ids_f_cons, ids_t_eq.
    rewrite !app_nil_r. norm_app.
    transitivity (ids_f l1 ++ (x :: ids_f kx) ++ ids_f l2 ++ ids_frs frs ++ ids_st o).
    - norm_app. reflexivity.
    - rewrite Permutation_app_swap_app. norm_app. reflexivity. }
  assert (NS : NoDup (concat [[x]; ids_f kx; ids_f l1; ids_f l2; ids_frs frs; ids_st o])).
  { eapply Permutation_NoDup; [exact PI|exact (inv_nodup _ _ I)]. }
  rewrite rep_plug in R. destruct R as (Rl & Rf & Ro).
  rewrite rep_l_mid in Rl. destruct Rl as (Rl1 & _ & Rk & Rl2).
  assert (NDx : NoDup (x :: ids_f kx)).
  { constructor; [intros K; seg_absurd NS 1 0|exact (NoDup_concat_nth _ 1 NS)]. }
  assert (Fu : S (fsize kx) < fuel_of h).
  { pose proof (Permutation_length PI) as L. cbn [concat] in L. rewrite !app_length in L. cbn [length] in L.
    pose proof (inv_length _ _ I). rewrite fsize_ids. unfold fuel_of. lia. }
  destruct (node_clear_spec h x _ kx (fuel_of h) Hc eq_refl Rk NDx Fu) as (h' & E & N & C & Pf).
  rewrite E. cbn [rbind]. exists h'. split; [reflexivity|].
  assert (Fo : forall i, i <> x -> ~ In i (ids_f kx) -> cells h' i = cells h i).
  { intros i H1 H2. rewrite C. rewrite (proj2 (Nat.eqb_neq i x)) by assumption.
    rewrite (mem_false _ _ H2). reflexivity. }
  assert (PN : Permutation (ids_st (plug (frs, o) (l1 ++ T x n v [] :: l2)) ++ ids_f kx) (ids_st (lists s))).
  { rewrite PI, ids_plug. cbn [concat]. rewrite ids_f_app, ids_f_cons, ids_t_eq.
    cbn [ids_f flat_map]. rewrite !app_nil_r. norm_app.
    symmetry. apply Permutation_cons_app. rewrite Permutation_app_comm. norm_app. reflexivity. }
  constructor; cbn [lists scount sfreed].
  - rewrite rep_plug. repeat split.
    + rewrite rep_l_mid. repeat split.
      * eapply rep_l_frame; [exact Rl1|]. intros i Hi. apply Fo.
        -- intros ->. seg_absurd NS 2 0.
        -- intros K. seg_absurd NS 2 1.
      * rewrite C, Nat.eqb_refl. reflexivity.
      * apply rep_l_nil.
      * eapply rep_l_frame; [exact Rl2|]. intros i Hi. apply Fo.
        -- intros ->. seg_absurd NS 3 0.
        -- intros K. seg_absurd NS 3 1.
    + replace (hid (l1 ++ T x n v [] :: l2)) with (hid (l1 ++ T x n v kx :: l2))
        by (rewrite !hid_hid_or, !hid_or_app; reflexivity).
      eapply rep_frames_frame; [exact Rf|]. intros i Hi. apply Fo.
      * intros ->. seg_absurd NS 4 0.
      * intros K. seg_absurd NS 4 1.
    + eapply rep_st_frame; [exact Ro|]. intros i Hi. apply Fo.
      * intros ->. seg_absurd NS 5 0.
      * intros K. seg_absurd NS 5 1.
  - rewrite N. exact (i_cnt _ _ I).
  - rewrite app_assoc, PN. exact (i_perm _ _ I).
  - intros i Hi. rewrite C in Hi.
    assert (K : In i (ids_st (plug (frs, o) (l1 ++ T x n v [] :: l2)) ++ ids_f kx) -> ~ In i (ids_f kx) ->
                In i (ids_st (plug (frs, o) (l1 ++ T x n v [] :: l2)))).
    { intros K1 K2. apply in_app_or in K1. destruct K1; [assumption|contradiction]. }
    destruct (Nat.eq_dec i x) as [Eix|Nix].
    + subst i. apply K; [eapply Permutation_in; [symmetry; exact PN|]; apply mem_in; exact Sl|].
      intros K2. seg_absurd NS 1 0.
    + rewrite (proj2 (Nat.eqb_neq i x)) in Hi by assumption.
      destruct (mem i (ids_f kx)) eqn:M; [congruence|]. apply in_mem_iff in M.
      apply K; [|exact M]. eapply Permutation_in; [symmetry; exact PN|]. exact (i_dom _ _ I i Hi).
  - rewrite Pf. apply Permutation_app_head. exact (i_freed _ _ I).
Qed.

(* ---------------------------------------------------------------- destroy *)
Lemma step_destroy x : refines_step (ODestroy x).
Proof.
  intros h s I. cbn [mstep sstep]. rewrite (live_iff _ _ _ I).
  pose proof (unlinked_iff _ _ x I) as U.
  destruct (take_single x (lists s)) as [[tx st1]|] eqn:TS.
  - destruct (take_single_perm _ _ _ _ TS) as [P Ex].
    pose proof (take_single_inv _ _ _ _ TS) as FX.
    assert (Sl : slive s x = true) by (apply mem_in; eapply focus_in; exact FX).
    rewrite Sl. cbn [fst snd].
    destruct (focus_cell _ _ _ _ _ _ _ _ (i_rep _ _ I) FX) as [Hc _].
    pose proof (rep_st_perm _ _ _ P (i_rep _ _ I)) as R. rewrite rep_st_cons in R. destruct R as [Rx R1].
    destruct tx as [x' n v kx]. cbn [tid tname tval tkids hid_or lastid fold_left cpar] in *. subst x'.
    rewrite rep_l_cons, rep_t_eq in Rx. destruct Rx as ((_ & Rk) & _).
    assert (PI : Permutation (ids_st (lists s)) (concat [[x]; ids_f kx; ids_st st1])).
    { rewrite (ids_st_perm _ _ P), ids_st_cons, ids_f_cons, ids_t_eq. cbn [concat ids_f flat_map].
      rewrite !app_nil_r. reflexivity. }
    assert (NS : NoDup (concat [[x]; ids_f kx; ids_st st1])).
    { eapply Permutation_NoDup; [exact PI|exact (inv_nodup _ _ I)]. }
    assert (NDx : NoDup (x :: ids_f kx)).
    { constructor; [intros K; seg_absurd NS 1 0|exact (NoDup_concat_nth _ 1 NS)]. }
    assert (Fu : S (fsize kx) < fuel_of h).
    { pose proof (Permutation_length PI) as L. cbn [concat] in L. rewrite !app_length in L. cbn [length] in L.
      pose proof (inv_length _ _ I). rewrite fsize_ids. unfold fuel_of. lia. }
    unfold node_destroy. rewrite (get_ok _ _ _ Hc). cbn [rbind linked npar nnext nprev].
    destruct (node_clear_spec h x _ kx (fuel_of h) Hc eq_refl Rk NDx Fu) as (h2 & E & N & C & Pf).
    rewrite E. cbn [rbind].
    erewrite release_ok by (rewrite C, Nat.eqb_refl; reflexivity). cbn [rbind].
    eexists. split; [reflexivity|].
    constructor; cbn [lists scount sfreed cells nextid freed].
    + eapply rep_st_frame; [exact R1|]. intros i Hi. unfold upd.
      destruct (Nat.eqb_spec i x) as [->|Nix]; [seg_absurd NS 2 0|].
      rewrite C. rewrite (proj2 (Nat.eqb_neq i x)) by assumption.
      rewrite mem_false; [reflexivity|]. intros K. seg_absurd NS 2 1.
    + rewrite N. exact (i_cnt _ _ I).
    + rewrite <- (i_perm _ _ I). rewrite PI. cbn [concat]. rewrite app_nil_r.
      rewrite app_assoc. apply Permutation_app_tail. cbn [app].
      rewrite Permutation_app_comm. cbn [app]. reflexivity.
    + intros i Hi. unfold upd in Hi. destruct (Nat.eq_dec i x) as [Eix|Nix];
        [subst i; rewrite Nat.eqb_refl in Hi; congruence|].
      rewrite (proj2 (Nat.eqb_neq i x)) in Hi by assumption.
      rewrite C in Hi. rewrite (proj2 (Nat.eqb_neq i x)) in Hi by assumption.
      destruct (mem i (ids_f kx)) eqn:M; [congruence|]. apply in_mem_iff in M.
      pose proof (i_dom _ _ I i Hi) as K. eapply Permutation_in in K; [|exact PI].
      cbn [concat] in K. rewrite app_nil_r in K. destruct K as [K|K]; [congruence|].
      cbn [app] in K. apply in_app_or in K. destruct K; [contradiction|assumption].
    + cbn [app]. apply perm_skip. rewrite Pf. apply Permutation_app_head. exact (i_freed _ _ I).
  - destruct (slive s x) eqn:Sl; cbn [fst snd]; [|eexists; split; [reflexivity|exact I]].
    apply mem_in in Sl. destruct (rep_cell_some _ _ _ (i_rep _ _ I) Sl) as (nd & Hnd).
    unfold node_destroy. rewrite (get_ok _ _ _ Hnd). cbn [rbind].
    unfold unlinked in U. rewrite Hnd in U. destruct (linked nd); [|discriminate].
    eexists; split; [reflexivity|exact I].
Qed.

(* every id handed out so far is either a node of the forest (live cell) or has
   been freed, exactly once; freed cells are gone *)
Lemma inv_released_once h s : inv h s ->
  NoDup (freed h) /\
  (forall i, In i (freed h) -> cells h i = None /\ ~ In i (ids_st (lists s))) /\
  (forall i, i < nextid h -> In i (freed h) \/ (exists nd, cells h i = Some nd)).
Proof.
  intros I. pose proof (i_perm _ _ I) as P.
  assert (N : NoDup (ids_st (lists s) ++ sfreed s)).
  { eapply Permutation_NoDup; [symmetry; exact P|apply seq_NoDup]. }
  apply NoDup_app_inv in N. destruct N as (N1 & N2 & Dj).
  split; [eapply Permutation_NoDup; [symmetry; exact (i_freed _ _ I)|exact N2]|]. split.
  - intros i Hi. assert (Hs : In i (sfreed s)) by (eapply Permutation_in; [exact (i_freed _ _ I)|exact Hi]).
    assert (Ni : ~ In i (ids_st (lists s))) by (intros K; exact (Dj _ K Hs)).
    split; [|exact Ni]. destruct (cells h i) eqn:C; [|reflexivity].
    exfalso. apply Ni. apply (i_dom _ _ I). rewrite C. discriminate.
  - intros i Hi. rewrite (i_cnt _ _ I) in Hi.
    assert (K : In i (ids_st (lists s) ++ sfreed s)).
    { eapply Permutation_in; [symmetry; exact P|]. apply in_seq. lia. }
    apply in_app_or in K. destruct K as [K|K].
    + right. exact (rep_cell_some _ _ _ (i_rep _ _ I) K).
    + left. eapply Permutation_in; [symmetry; exact (i_freed _ _ I)|exact K].
Qed.

