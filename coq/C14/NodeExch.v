(* C14/NodeExch.v — the expected cells of a forest in which two nodes have changed
   places are the renamed expected cells of the original forest. *)
From Coq Require Import List Arith ZArith Bool Lia.
From MptV Require Import C14.NodeModel C14.NodeSpec C14.NodeRep.
Import ListNotations.
Local Open Scope nat_scope.

Section Exch.
  Variables a na va b nb vb : nat.

  Definition rho (x : nat) : nat := if x =? a then b else if x =? b then a else x.
  Definition rhop (p : ptr) : ptr := option_map rho p.
  Definition ren_nd (i : nat) (nd : node) : node :=
    mkN (rhop (nnext nd)) (rhop (nprev nd)) (rhop (npar nd)) (rhop (nkid nd))
        (if i =? a then nb else if i =? b then na else nname nd)
        (if i =? a then vb else if i =? b then va else nval nd).
  Definition ren_e (e : nat * node) : nat * node := (rho (fst e), ren_nd (fst e) (snd e)).

  Notation ex := (exch_t a na va b nb vb).

  Lemma tid_exch t : tid (ex t) = rho (tid t).
  Proof. destruct t as [i n v k]. cbn [exch_t tid]. unfold rho. destruct (i =? a); [reflexivity|]. destruct (i =? b); reflexivity. Qed.

  Lemma hid_exch l : hid (map ex l) = rhop (hid l).
  Proof. destruct l as [|t r]; [reflexivity|]. cbn [map hid rhop option_map]. rewrite tid_exch. reflexivity. Qed.

  Lemma hid_or_exch l aft : hid_or (map ex l) (rhop aft) = rhop (hid_or l aft).
  Proof. destruct l as [|t r]; [reflexivity|]. cbn [map hid_or rhop option_map]. rewrite tid_exch. reflexivity. Qed.

  Lemma exp_exch_t : forall t par prv nxt,
    exp_t (rhop par) (rhop prv) (ex t) (rhop nxt) = map ren_e (exp_t par prv t nxt).
  Proof.
    induction t as [i n v k IH] using tree_ind'. intros par prv nxt.
    assert (L : forall prv' aft', exp_l (Some (rho i)) (rhop prv') (map ex k) (rhop aft') =
                                 map ren_e (exp_l (Some i) prv' k aft')).
    { induction IH as [|t r Ht _ IHr]; intros prv' aft'; [reflexivity|].
      cbn [map]. rewrite !exp_l_cons, map_app. rewrite hid_or_exch.
      change (Some (rho i)) with (rhop (Some i)). rewrite Ht. f_equal.
      rewrite tid_exch. change (Some (rho (tid t))) with (rhop (Some (tid t))). apply IHr. }
    assert (E : ex (T i n v k) = T (rho i) (if i =? a then nb else if i =? b then na else n)
                                   (if i =? a then vb else if i =? b then va else v) (map ex k)).
    { cbn [exch_t]. unfold rho. destruct (i =? a); [reflexivity|]. destruct (i =? b); reflexivity. }
    rewrite E, !exp_t_eq. cbn [map]. f_equal.
    - unfold ren_e, ren_nd. cbn [fst snd nnext nprev npar nkid nname nval]. rewrite hid_exch. reflexivity.
    - exact (L None None).
  Qed.

  Lemma exp_exch_l : forall l par prv aft,
    exp_l (rhop par) (rhop prv) (map ex l) (rhop aft) = map ren_e (exp_l par prv l aft).
  Proof.
    induction l as [|t r IH]; intros par prv aft; [reflexivity|].
    cbn [map]. rewrite !exp_l_cons, map_app, hid_or_exch, exp_exch_t. f_equal.
    rewrite tid_exch. change (Some (rho (tid t))) with (rhop (Some (tid t))). apply IH.
  Qed.

  Lemma exp_exch_st st : exp_st (exch_st a na va b nb vb st) = map ren_e (exp_st st).
  Proof.
    induction st as [|l r IH]; [reflexivity|].
    unfold exp_st, exch_st in *. cbn [map flat_map]. rewrite map_app, IH. f_equal.
    exact (exp_exch_l l None None None).
  Qed.

  Lemma ids_exch_st st : ids_st (exch_st a na va b nb vb st) = map rho (ids_st st).
  Proof.
    rewrite <- !keys_exp_st, exp_exch_st, !map_map. reflexivity.
  Qed.

  (* representation of the exchanged forest, from a cell-wise relation of the heaps *)
  Lemma rep_exch c c' st :
    rep_st c st ->
    (forall i nd, In i (ids_st st) -> c i = Some nd -> c' (rho i) = Some (ren_nd i nd)) ->
    rep_st c' (exch_st a na va b nb vb st).
  Proof.
    intros R H. unfold rep_st, repc in *. rewrite exp_exch_st. rewrite Forall_forall in *.
    intros e He. apply in_map_iff in He. destruct He as ([i nd] & <- & Hin). cbn [ren_e fst snd].
    apply H; [|exact (R _ Hin)]. rewrite <- keys_exp_st. apply in_map_iff. exists (i, nd). auto.
  Qed.
End Exch.
