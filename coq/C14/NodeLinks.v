(* C14/NodeLinks.v — the local link facts of a represented heap, in Prop form:
   whom a cell points to points back. *)
From Coq Require Import List Arith ZArith Bool Lia Permutation Wf_nat.
From MptV Require Import C14.NodeModel C14.NodeSpec C14.NodeRep C14.NodeFocus C14.NodeExec
  C14.NodeLocal C14.NodeInv C14.NodeRefine.
Import ListNotations.
Local Open Scope nat_scope.

Record links_at (c : cellmap) (i : nat) (n : node) : Prop := mkLinks {
  lk_next : forall q, nnext n = Some q -> exists m, c q = Some m /\ nprev m = Some i /\ npar m = npar n;
  lk_prev : forall q, nprev n = Some q -> exists m, c q = Some m /\ nnext m = Some i /\ npar m = npar n;
  lk_par : forall q, npar n = Some q -> exists m, c q = Some m /\ (nprev n = None -> nkid m = Some i);
  lk_kid : forall q, nkid n = Some q -> exists m, c q = Some m /\ npar m = Some i /\ nprev m = None;
  lk_self : nnext n <> Some i /\ nprev n <> Some i /\ npar n <> Some i /\ nkid n <> Some i
}.

Lemma hid_in_ids' (L : forest) q : hid L = Some q -> In q (ids_f L).
Proof. intros E. apply hid_or_in. rewrite <- hid_hid_or. exact E. Qed.

Lemma rep_l_last_cell' c par prv l aft q :
  rep_l c par prv l aft -> lastid l None = Some q -> exists nq, c q = Some nq /\ nnext nq = aft /\ npar nq = par.
Proof.
  destruct (exists_last_or_nil l) as [->|(a & [i n v k] & ->)]; [discriminate|].
  rewrite lastid_app. cbn. intros H E. inversion E. subst.
  rewrite rep_l_mid in H. destruct H as (_ & H & _). eexists. split; [exact H|]. auto.
Qed.

(* the links of a node found by [focus], for any heap that represents the state *)
Lemma links_focus c st x frs o a tx b :
  rep_st c st -> NoDup (ids_st st) -> focus x st = Some ((frs, o), a, tx, b) ->
  forall n, c x = Some n -> links_at c x n.
Proof.
  intros R ND F n Hn.
  destruct (focus_cell _ _ _ _ _ _ _ _ R F) as [Hc Rp].
  destruct (focus_perm _ _ _ _ _ _ _ F) as [P Ex].
  rewrite Hn in Hc. inversion Hc; subst n. clear Hc.
  assert (ND1 : NoDup (ids_st (plug (frs, o) (a ++ tx :: b))))
    by (eapply Permutation_NoDup; [apply ids_st_perm; exact P|exact ND]).
  destruct tx as [x' nm v k]. cbn [tid tname tval tkids] in *. subst x'.
  assert (NS : NoDup (concat [[x]; ids_f k; ids_f a; ids_f b; ids_frs frs; ids_st o])).
  { eapply Permutation_NoDup; [|exact ND1].
    rewrite ids_plug. cbn [concat]. rewrite ids_f_app, ids_f_cons, ids_t_eq.
    rewrite !app_nil_r. norm_app.
    transitivity (ids_f a ++ (x :: ids_f k) ++ ids_f b ++ ids_frs frs ++ ids_st o).
    - norm_app. reflexivity.
    - rewrite Permutation_app_swap_app. norm_app. reflexivity. }
  rewrite rep_plug in Rp. destruct Rp as (Rl & Rf & _).
  rewrite rep_l_mid in Rl. destruct Rl as (Ra & Hi & Rk & Rb).
  constructor; cbn [nnext nprev npar nkid].
  - intros q Eq. destruct b as [|[q' n' v' k'] b']; cbn in Eq; inversion Eq; subst.
    rewrite rep_l_cons, rep_t_eq in Rb. destruct Rb as ((Hq & _) & _). eexists. split; [exact Hq|]. auto.
  - intros q Eq. destruct (rep_l_last_cell' _ _ _ _ _ _ Ra Eq) as (m & Hm & Em & Ep). eauto.
  - intros q Eq. destruct frs as [|fr rest]; cbn in Eq; inversion Eq; subst.
    cbn [rep_frames] in Rf. destruct Rf as (_ & Hc & _). eexists. split; [exact Hc|].
    intros El. apply lastid_nil_inv in El. subst a. reflexivity.
  - intros q Eq. destruct k as [|[q' n' v' k'] kr]; cbn in Eq; inversion Eq; subst.
    rewrite rep_l_cons, rep_t_eq in Rk. destruct Rk as ((Hq & _) & _). eexists. split; [exact Hq|]. auto.
  - repeat split.
    + intros E. rewrite <- hid_hid_or in E. apply hid_in_ids' in E. seg_absurd NS 3 0.
    + intros E. apply lastid_in in E. seg_absurd NS 2 0.
    + intros E. apply cpar_in in E. seg_absurd NS 4 0.
    + intros E. apply hid_in_ids' in E. seg_absurd NS 1 0.
Qed.

Lemma links_inv h s i n : inv h s -> cells h i = Some n -> links_at (cells h) i n.
Proof.
  intros I Hn.
  assert (Hin : In i (ids_st (lists s))) by (apply (i_dom _ _ I); rewrite Hn; discriminate).
  destruct (focus_some _ _ Hin) as ([frs o] & a & ti & b & F).
  exact (links_focus _ _ _ _ _ _ _ _ (i_rep _ _ I) (inv_nodup _ _ I) F n Hn).
Qed.
