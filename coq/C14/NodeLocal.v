(* C14/NodeLocal.v — the three primitive link operations preserve "the heap
   represents the forest" and do to the forest what the specification says:
     gnode_after  : [tx] , C[l1 ++ tp :: l2]        ~>  C[l1 ++ tp :: tx :: l2]
     gnode_before : [tx] , C[l1 ++ tp :: l2]        ~>  C[l1 ++ tx :: tp :: l2]
     node_unlink  :        C[l1 ++ tx :: l2]        ~>  [tx] , C[l1 ++ l2]
   for every context C (any depth, any siblings), every l1, l2 and every subtrees. *)
From Coq Require Import List Arith ZArith Bool Lia Permutation.
From MptV Require Import C14.NodeModel C14.NodeSpec C14.NodeRep C14.NodeFocus C14.NodeExec.
Import ListNotations.
Local Open Scope nat_scope.

Lemma exists_last_or_nil {A} (l : list A) : l = [] \/ exists a x, l = a ++ [x].
Proof. induction l using rev_ind; [left; reflexivity|right; eauto]. Qed.

(* ---------------------------------------------------------------- disjoint segments *)
Lemma nth_in_concat (Ls : list (list nat)) k x : In x (nth k Ls []) -> In x (concat Ls).
Proof.
  intros Hx. destruct (Nat.lt_ge_cases k (length Ls)) as [Hk|Hk].
  - apply in_concat. exists (nth k Ls []). split; [apply nth_In; assumption|assumption].
  - rewrite nth_overflow in Hx by assumption. contradiction.
Qed.

Lemma NoDup_concat_nth (Ls : list (list nat)) : forall k, NoDup (concat Ls) -> NoDup (nth k Ls []).
Proof.
  induction Ls as [|L Ls IH]; intros k ND.
  - destruct k; constructor.
  - cbn [concat] in ND. apply NoDup_app_inv in ND. destruct ND as (N1 & N2 & _).
    destruct k; cbn [nth]; auto.
Qed.

Lemma concat_neq (Ls : list (list nat)) : forall i j a b,
  NoDup (concat Ls) -> i <> j -> In a (nth i Ls []) -> In b (nth j Ls []) -> a <> b.
Proof.
  induction Ls as [|L Ls IH]; intros i j a b ND Hij Ha Hb.
  - destruct i; contradiction.
  - cbn [concat] in ND. apply NoDup_app_inv in ND. destruct ND as (N1 & N2 & N3).
    destruct i as [|i], j as [|j]; cbn [nth] in *.
    + contradiction.
    + intros ->. eapply N3; [exact Ha|]. eapply nth_in_concat; eassumption.
    + intros ->. eapply N3; [exact Hb|]. eapply nth_in_concat; eassumption.
    + apply (IH i j a b N2); [lia|assumption|assumption].
Qed.

(* ---------------------------------------------------------------- local changes of a sibling list *)
(* the head gets a new prev *)
Lemma rep_l_head_prev c c' par prv prv' l aft :
  rep_l c par prv l aft -> NoDup (ids_f l) ->
  (forall i, In i (ids_f l) ->
     c' i = if peq (Some i) (hid l) then option_map (set_prev prv') (c i) else c i) ->
  rep_l c' par prv' l aft.
Proof.
  intros H ND F. destruct l as [|[q n v k] r]; [apply rep_l_nil|].
  rewrite rep_l_cons, rep_t_eq in *. destruct H as ((Hq & Hk) & Hr).
  rewrite ids_f_cons, ids_t_eq in ND, F. cbn [hid tid peq] in F.
  inversion ND as [|? ? Nq Nr]; subst.
  repeat split.
  - rewrite F by (left; reflexivity). rewrite Nat.eqb_refl, Hq. reflexivity.
  - eapply rep_l_frame; [exact Hk|]. intros i Hi.
    rewrite F by (right; apply in_or_app; auto).
    destruct (Nat.eqb_spec i q) as [->|]; [|reflexivity].
    exfalso. apply Nq. apply in_or_app. auto.
  - eapply rep_l_frame; [exact Hr|]. intros i Hi.
    rewrite F by (right; apply in_or_app; auto).
    destruct (Nat.eqb_spec i q) as [->|]; [|reflexivity].
    exfalso. apply Nq. apply in_or_app. auto.
Qed.

(* the last element gets a new next *)
Lemma rep_l_last_next c c' par prv l aft aft' :
  rep_l c par prv l aft -> NoDup (ids_f l) ->
  (forall i, In i (ids_f l) ->
     c' i = if peq (Some i) (lastid l None) then option_map (set_next aft') (c i) else c i) ->
  rep_l c' par prv l aft'.
Proof.
  intros H ND F. destruct (exists_last_or_nil l) as [->|(a & [q n v k] & ->)]; [apply rep_l_nil|].
  rewrite rep_l_mid in *. destruct H as (Ha & Hq & Hk & _).
  rewrite lastid_app in F. cbn [lastid fold_left tid peq] in F.
  rewrite ids_f_app, ids_f_cons, ids_t_eq, app_nil_r in ND, F.
  apply NoDup_app_inv in ND. destruct ND as (Na & Nq & Nd).
  inversion Nq as [|? ? Nqk _]; subst.
  repeat split.
  - eapply rep_l_frame; [exact Ha|]. intros i Hi.
    rewrite F by (apply in_or_app; auto).
    destruct (Nat.eqb_spec i q) as [->|]; [|reflexivity].
    exfalso. eapply Nd; [exact Hi|left; reflexivity].
  - rewrite F by (apply in_or_app; right; left; reflexivity).
    rewrite Nat.eqb_refl, Hq. reflexivity.
  - eapply rep_l_frame; [exact Hk|]. intros i Hi.
    rewrite F by (apply in_or_app; right; right; exact Hi).
    destruct (Nat.eqb_spec i q) as [->|]; [|reflexivity]. contradiction.
  - apply rep_l_nil.
Qed.

(* the focused list gets a new head: only the children link of the parent changes *)
Lemma rep_frames_hd' c c' frs hd hd' :
  rep_frames c frs hd -> NoDup (ids_frs frs) ->
  (forall i, In i (ids_frs frs) ->
     c' i = if peq (Some i) (cpar frs) then option_map (set_kid hd') (c i) else c i) ->
  rep_frames c' frs hd'.
Proof.
  intros H ND F. destruct frs as [|fr rest]; [exact I|].
  cbn [rep_frames cpar peq] in *. destruct H as (H1 & H2 & H3 & H4).
  cbn [ids_frs flat_map] in ND, F. unfold ids_fr in ND, F.
  apply NoDup_app_inv in ND. destruct ND as (ND1 & _ & ND3).
  assert (Hn12 : ~ In (fi fr) (ids_f (fl1 fr) ++ ids_f (fl2 fr))) by (apply NoDup_remove_2; exact ND1).
  repeat split.
  - eapply rep_l_frame; [exact H1|]. intros i Hi.
    rewrite F by (apply in_or_app; left; apply in_or_app; auto).
    destruct (Nat.eqb_spec i (fi fr)) as [->|]; [|reflexivity].
    exfalso. apply Hn12. apply in_or_app. auto.
  - rewrite F by (apply in_or_app; left; apply in_or_app; right; left; reflexivity).
    rewrite Nat.eqb_refl, H2. reflexivity.
  - eapply rep_l_frame; [exact H3|]. intros i Hi.
    rewrite F by (apply in_or_app; left; apply in_or_app; right; right; exact Hi).
    destruct (Nat.eqb_spec i (fi fr)) as [->|]; [|reflexivity].
    exfalso. apply Hn12. apply in_or_app. auto.
  - eapply rep_frames_frame; [exact H4|]. intros i Hi.
    rewrite F by (apply in_or_app; right; exact Hi).
    destruct (Nat.eqb_spec i (fi fr)) as [->|]; [|reflexivity].
    exfalso. eapply ND3; [|exact Hi]. apply in_or_app. right. left. reflexivity.
Qed.

Lemma hid_or_in l q : hid_or l None = Some q -> In q (ids_f l).
Proof.
  destruct l as [|[i n v k] r]; cbn; intros E; inversion E. left. reflexivity.
Qed.

Lemma lastid_in l q : lastid l None = Some q -> In q (ids_f l).
Proof.
  destruct (exists_last_or_nil l) as [->|(a & [i n v k] & ->)]; [discriminate|].
  rewrite lastid_app. cbn. intros E. inversion E. subst.
  rewrite ids_f_app. apply in_or_app. right. left. reflexivity.
Qed.

Lemma rep_l_head_cell c par prv l aft q :
  rep_l c par prv l aft -> hid_or l None = Some q -> exists nq, c q = Some nq /\ nprev nq = prv.
Proof.
  destruct l as [|[i n v k] r]; cbn [hid_or]; intros H E; inversion E; subst.
  rewrite rep_l_cons, rep_t_eq in H. destruct H as ((H & _) & _). eexists. split; [exact H|reflexivity].
Qed.

Lemma rep_l_last_cell c par prv l aft q :
  rep_l c par prv l aft -> lastid l None = Some q -> exists nq, c q = Some nq /\ nnext nq = aft.
Proof.
  destruct (exists_last_or_nil l) as [->|(a & [i n v k] & ->)]; [discriminate|].
  rewrite lastid_app. cbn. intros H E. inversion E. subst.
  rewrite rep_l_mid in H. destruct H as (_ & H & _). eexists. split; [exact H|reflexivity].
Qed.

Ltac norm_app := repeat (progress (rewrite <- ?app_assoc; cbn [app])).

Ltac seg_absurd NS i j :=
  exfalso; eapply (concat_neq _ i j _ _ NS);
  [lia | cbn [nth]; eauto with datatypes | cbn [nth]; eauto with datatypes | reflexivity].

(* ---------------------------------------------------------------- gnode_after *)
Lemma after_rep h frs others l1 tp l2 tx :
  let st := [tx] :: plug (frs, others) (l1 ++ tp :: l2) in
  rep_st (cells h) st -> NoDup (ids_st st) ->
  exists h', gnode_after h (Some (tid tp)) (Some (tid tx)) = ROk (h', Some (tid tx)) /\
    same_meta h h' /\
    rep_st (cells h') (plug (frs, others) (l1 ++ tp :: tx :: l2)) /\
    (forall i, ~ In i (ids_st st) -> cells h' i = cells h i).
Proof.
  intros st H ND. subst st. destruct tx as [x nx vx kx], tp as [p np vp kp]. cbn [tid].
  rewrite rep_st_cons, rep_plug in H. destruct H as (Hx & Hl & Hf & Ho).
  rewrite rep_l_cons, rep_t_eq in Hx. destruct Hx as ((Hcx & Hkx) & _).
  rewrite rep_l_mid in Hl. destruct Hl as (Hl1 & Hcp & Hkp & Hl2).
  assert (NS : NoDup (concat [[x]; ids_f kx; ids_f l1; [p]; ids_f kp; ids_f l2; ids_frs frs; ids_st others])).
  { eapply Permutation_NoDup; [|exact ND].
    rewrite ids_st_cons, ids_plug. cbn [concat]. rewrite ids_f_cons, ids_t_eq, ids_f_app, ids_f_cons, ids_t_eq.
    cbn [ids_f flat_map]. rewrite !app_nil_r. norm_app. reflexivity. }
  assert (Npx : p <> x) by (apply (concat_neq _ 3 0 _ _ NS); [lia|left; reflexivity|left; reflexivity]).
  destruct (exec_after h p x _ _ Npx Hcp Hcx) as (h' & E & M & F).
  { cbn [nnext]. intros q Eq. pose proof (hid_or_in _ _ Eq) as Hq.
    destruct (rep_l_head_cell _ _ _ _ _ _ Hl2 Eq) as (nq & Hnq & _).
    repeat split; [| |eauto].
    - intros ->. seg_absurd NS 5 0.
    - intros ->. seg_absurd NS 5 3. }
  cbn [nnext npar nkid nname nval] in F.
  assert (Fo : forall i, i <> x -> i <> p -> ~ In i (ids_f l2) -> cells h' i = cells h i).
  { intros i H1 H2 H3. rewrite F.
    destruct (Nat.eqb_spec i x); [contradiction|]. destruct (Nat.eqb_spec i p); [contradiction|].
    destruct (hid_or l2 None) as [q|] eqn:Eq; [|reflexivity].
    destruct (Nat.eqb_spec i q) as [->|]; [|reflexivity]. exfalso. apply H3. apply hid_or_in. exact Eq. }
  exists h'. split; [exact E|]. split; [exact M|]. split.
  - rewrite rep_plug. repeat split.
    + rewrite rep_l_mid. repeat split.
      * eapply rep_l_frame; [exact Hl1|]. intros i Hi. apply Fo.
        -- intros ->. seg_absurd NS 2 0.
        -- intros ->. seg_absurd NS 2 3.
        -- intros Hi2. seg_absurd NS 2 5.
      * rewrite F. destruct (Nat.eqb_spec p x); [contradiction|]. rewrite Nat.eqb_refl. reflexivity.
      * eapply rep_l_frame; [exact Hkp|]. intros i Hi. apply Fo.
        -- intros ->. seg_absurd NS 4 0.
        -- intros ->. seg_absurd NS 4 3.
        -- intros Hi2. seg_absurd NS 4 5.
      * rewrite rep_l_cons, rep_t_eq. cbn [tid]. repeat split.
        -- rewrite F. rewrite Nat.eqb_refl. reflexivity.
        -- eapply rep_l_frame; [exact Hkx|]. intros i Hi. apply Fo.
           ++ intros ->. seg_absurd NS 1 0.
           ++ intros ->. seg_absurd NS 1 3.
           ++ intros Hi2. seg_absurd NS 1 5.
        -- eapply rep_l_head_prev; [exact Hl2| |].
           ++ exact (NoDup_concat_nth _ 5 NS).
           ++ intros i Hi. rewrite F.
              destruct (Nat.eqb_spec i x) as [->|]; [seg_absurd NS 5 0|].
              destruct (Nat.eqb_spec i p) as [->|]; [seg_absurd NS 5 3|].
              rewrite hid_hid_or. destruct (hid_or l2 None) as [q|]; cbn [peq]; [|reflexivity].
              destruct (Nat.eqb_spec i q) as [->|]; reflexivity.
    + replace (hid (l1 ++ T p np vp kp :: T x nx vx kx :: l2)) with (hid (l1 ++ T p np vp kp :: l2))
        by (rewrite !hid_hid_or, !hid_or_app; reflexivity).
      eapply rep_frames_frame; [exact Hf|]. intros i Hi. apply Fo.
      * intros ->. seg_absurd NS 6 0.
      * intros ->. seg_absurd NS 6 3.
      * intros Hi2. seg_absurd NS 6 5.
    + eapply rep_st_frame; [exact Ho|]. intros i Hi. apply Fo.
      * intros ->. seg_absurd NS 7 0.
      * intros ->. seg_absurd NS 7 3.
      * intros Hi2. seg_absurd NS 7 5.
  - intros i Hi. apply Fo.
    + intros ->. apply Hi. rewrite ids_st_cons, ids_f_cons, ids_t_eq. left. reflexivity.
    + intros ->. apply Hi. rewrite ids_st_cons. apply in_or_app. right.
      eapply Permutation_in; [symmetry; apply ids_plug|]. apply in_or_app. left.
      rewrite ids_f_app, ids_f_cons, ids_t_eq. apply in_or_app. right. left. reflexivity.
    + intros Hi2. apply Hi. rewrite ids_st_cons. apply in_or_app. right.
      eapply Permutation_in; [symmetry; apply ids_plug|]. apply in_or_app. left.
      rewrite ids_f_app, ids_f_cons. apply in_or_app. right. apply in_or_app. right. exact Hi2.
Qed.

Lemma cpar_in frs r : cpar frs = Some r -> In r (ids_frs frs).
Proof.
  destruct frs as [|fr rest]; cbn; intros E; inversion E.
  unfold ids_fr. apply in_or_app. left. apply in_or_app. right. left. reflexivity.
Qed.

Lemma rep_frames_par_cell c frs hd r :
  rep_frames c frs hd -> cpar frs = Some r -> exists nr, c r = Some nr.
Proof.
  destruct frs as [|fr rest]; cbn; intros H E; inversion E; subst.
  destruct H as (_ & H & _). eauto.
Qed.

Lemma lastid_nil_inv l : lastid l None = None -> l = [].
Proof.
  destruct (exists_last_or_nil l) as [->|(a & t & ->)]; [reflexivity|].
  rewrite lastid_app. cbn. discriminate.
Qed.

(* ---------------------------------------------------------------- gnode_before *)
Lemma before_rep h frs others l1 tp l2 tx :
  let st := [tx] :: plug (frs, others) (l1 ++ tp :: l2) in
  rep_st (cells h) st -> NoDup (ids_st st) ->
  exists h', gnode_before h (Some (tid tp)) (Some (tid tx)) = ROk (h', Some (tid tx)) /\
    same_meta h h' /\
    rep_st (cells h') (plug (frs, others) (l1 ++ tx :: tp :: l2)) /\
    (forall i, ~ In i (ids_st st) -> cells h' i = cells h i).
Proof.
  intros st H ND. subst st. destruct tx as [x nx vx kx], tp as [p np vp kp]. cbn [tid].
  rewrite rep_st_cons, rep_plug in H. destruct H as (Hx & Hl & Hf & Ho).
  rewrite rep_l_cons, rep_t_eq in Hx. destruct Hx as ((Hcx & Hkx) & _).
  rewrite rep_l_mid in Hl. destruct Hl as (Hl1 & Hcp & Hkp & Hl2).
  assert (NS : NoDup (concat [[x]; ids_f kx; ids_f l1; [p]; ids_f kp; ids_f l2; ids_frs frs; ids_st others])).
  { eapply Permutation_NoDup; [|exact ND].
    rewrite ids_st_cons, ids_plug. cbn [concat]. rewrite ids_f_cons, ids_t_eq, ids_f_app, ids_f_cons, ids_t_eq.
    cbn [ids_f flat_map]. rewrite !app_nil_r. norm_app. reflexivity. }
  assert (Npx : p <> x) by (apply (concat_neq _ 3 0 _ _ NS); [lia|left; reflexivity|left; reflexivity]).
  destruct (exec_before h p x _ _ Npx Hcp Hcx) as (h' & E & M & F).
  { cbn [nprev]. intros q Eq. pose proof (lastid_in _ _ Eq) as Hq.
    destruct (rep_l_last_cell _ _ _ _ _ _ Hl1 Eq) as (nq & Hnq & _).
    repeat split; [| |eauto].
    - intros ->. seg_absurd NS 2 0.
    - intros ->. seg_absurd NS 2 3. }
  { cbn [nprev npar]. intros _ r Er. pose proof (cpar_in _ _ Er) as Hr.
    destruct (rep_frames_par_cell _ _ _ _ Hf Er) as (nr & Hnr).
    repeat split; [| |eauto].
    - intros ->. seg_absurd NS 6 0.
    - intros ->. seg_absurd NS 6 3. }
  cbn [nnext nprev npar nkid nname nval] in F.
  assert (Fo : forall i, i <> x -> i <> p -> ~ In i (ids_f l1) -> (l1 = [] -> ~ In i (ids_frs frs)) ->
                         cells h' i = cells h i).
  { intros i H1 H2 H3 H4. rewrite F.
    destruct (Nat.eqb_spec i x); [contradiction|]. destruct (Nat.eqb_spec i p); [contradiction|].
    destruct (lastid l1 None) as [q|] eqn:Eq.
    - destruct (Nat.eqb_spec i q) as [->|]; [|reflexivity]. exfalso. apply H3. apply lastid_in. exact Eq.
    - destruct (cpar frs) as [r|] eqn:Er; [|reflexivity].
      destruct (Nat.eqb_spec i r) as [->|]; [|reflexivity]. exfalso.
      apply (H4 (lastid_nil_inv _ Eq)). apply cpar_in. exact Er. }
  exists h'. split; [exact E|]. split; [exact M|]. split.
  - rewrite rep_plug. repeat split.
    + rewrite rep_l_mid. repeat split.
      * eapply rep_l_last_next; [exact Hl1|exact (NoDup_concat_nth _ 2 NS)|].
        intros i Hi. rewrite F.
        destruct (Nat.eqb_spec i x) as [->|]; [seg_absurd NS 2 0|].
        destruct (Nat.eqb_spec i p) as [->|]; [seg_absurd NS 2 3|].
        destruct (lastid l1 None) as [q|] eqn:Eq; cbn [peq].
        -- destruct (Nat.eqb_spec i q) as [->|]; reflexivity.
        -- apply lastid_nil_inv in Eq. subst l1. contradiction.
      * rewrite F. rewrite Nat.eqb_refl. reflexivity.
      * eapply rep_l_frame; [exact Hkx|]. intros i Hi. apply Fo.
        -- intros ->. seg_absurd NS 1 0.
        -- intros ->. seg_absurd NS 1 3.
        -- intros Hi2. seg_absurd NS 1 2.
        -- intros _ Hi2. seg_absurd NS 1 6.
      * rewrite rep_l_cons, rep_t_eq. cbn [tid]. repeat split.
        -- rewrite F. destruct (Nat.eqb_spec p x); [contradiction|]. rewrite Nat.eqb_refl. reflexivity.
        -- eapply rep_l_frame; [exact Hkp|]. intros i Hi. apply Fo.
           ++ intros ->. seg_absurd NS 4 0.
           ++ intros ->. seg_absurd NS 4 3.
           ++ intros Hi2. seg_absurd NS 4 2.
           ++ intros _ Hi2. seg_absurd NS 4 6.
        -- eapply rep_l_frame; [exact Hl2|]. intros i Hi. apply Fo.
           ++ intros ->. seg_absurd NS 5 0.
           ++ intros ->. seg_absurd NS 5 3.
           ++ intros Hi2. seg_absurd NS 5 2.
           ++ intros _ Hi2. seg_absurd NS 5 6.
    + destruct l1 as [|t1 r1].
      * cbn [app hid tid] in *. eapply rep_frames_hd'; [exact Hf|exact (NoDup_concat_nth _ 6 NS)|].
        intros i Hi. rewrite F.
        destruct (Nat.eqb_spec i x) as [->|]; [seg_absurd NS 6 0|].
        destruct (Nat.eqb_spec i p) as [->|]; [seg_absurd NS 6 3|].
        cbn [lastid fold_left]. destruct (cpar frs) as [r|]; cbn [peq]; [|reflexivity].
        destruct (Nat.eqb_spec i r) as [->|]; reflexivity.
      * cbn [app hid] in *. eapply rep_frames_frame; [exact Hf|]. intros i Hi. apply Fo.
        -- intros ->. seg_absurd NS 6 0.
        -- intros ->. seg_absurd NS 6 3.
        -- intros Hi2. seg_absurd NS 6 2.
        -- discriminate.
    + eapply rep_st_frame; [exact Ho|]. intros i Hi. apply Fo.
      * intros ->. seg_absurd NS 7 0.
      * intros ->. seg_absurd NS 7 3.
      * intros Hi2. seg_absurd NS 7 2.
      * intros _ Hi2. seg_absurd NS 7 6.
  - intros i Hi.
    assert (Hp : In p (ids_st (plug (frs, others) (l1 ++ T p np vp kp :: l2)))).
    { eapply Permutation_in; [symmetry; apply ids_plug|]. apply in_or_app. left.
      rewrite ids_f_app, ids_f_cons, ids_t_eq. apply in_or_app. right. left. reflexivity. }
    apply Fo.
    + intros ->. apply Hi. rewrite ids_st_cons, ids_f_cons, ids_t_eq. left. reflexivity.
    + intros ->. apply Hi. rewrite ids_st_cons. apply in_or_app. right. exact Hp.
    + intros Hi2. apply Hi. rewrite ids_st_cons. apply in_or_app. right.
      eapply Permutation_in; [symmetry; apply ids_plug|]. apply in_or_app. left.
      rewrite ids_f_app. apply in_or_app. left. exact Hi2.
    + intros _ Hi2. apply Hi. rewrite ids_st_cons. apply in_or_app. right.
      eapply Permutation_in; [symmetry; apply ids_plug|]. apply in_or_app. right.
      apply in_or_app. left. exact Hi2.
Qed.

(* ---------------------------------------------------------------- node_unlink *)
Lemma unlink_rep h frs others l1 tx l2 :
  let st := plug (frs, others) (l1 ++ tx :: l2) in
  rep_st (cells h) st -> NoDup (ids_st st) ->
  exists h', node_unlink h (Some (tid tx)) = ROk (h', hid l2) /\
    same_meta h h' /\
    rep_st (cells h') ([tx] :: plug (frs, others) (l1 ++ l2)) /\
    (forall i, ~ In i (ids_st st) -> cells h' i = cells h i) /\
    (forall j n', cells h' j = Some n' -> exists n, cells h j = Some n /\ (j <> tid tx -> npar n' = npar n)).
Proof.
  intros st H ND. subst st. destruct tx as [x nx vx kx]. cbn [tid].
  rewrite rep_plug in H. destruct H as (Hl & Hf & Ho).
  rewrite rep_l_mid in Hl. destruct Hl as (Hl1 & Hcx & Hkx & Hl2).
  assert (NS : NoDup (concat [[x]; ids_f kx; ids_f l1; ids_f l2; ids_frs frs; ids_st others])).
  { eapply Permutation_NoDup; [|exact ND].
    rewrite ids_plug. cbn [concat]. rewrite ids_f_app, ids_f_cons, ids_t_eq.
    rewrite !app_nil_r. norm_app.
    transitivity (ids_f l1 ++ (x :: ids_f kx) ++ ids_f l2 ++ ids_frs frs ++ ids_st others).
    - norm_app. reflexivity.
    - rewrite Permutation_app_swap_app. norm_app. reflexivity. }
  destruct (exec_unlink h x _ Hcx) as (h' & E & M & F).
  { cbn [nnext]. intros q Eq. pose proof (hid_or_in _ _ Eq) as Hq.
    destruct (rep_l_head_cell _ _ _ _ _ _ Hl2 Eq) as (nq & Hnq & _).
    split; [|eauto]. intros ->. seg_absurd NS 3 0. }
  { cbn [nnext nprev]. intros p Ep. pose proof (lastid_in _ _ Ep) as Hp.
    destruct (rep_l_last_cell _ _ _ _ _ _ Hl1 Ep) as (n' & Hn' & _).
    repeat split; [| |eauto].
    - intros ->. seg_absurd NS 2 0.
    - intros Eq. apply hid_or_in in Eq. seg_absurd NS 2 3. }
  { cbn [nnext nprev npar]. intros _ r Er. pose proof (cpar_in _ _ Er) as Hr.
    destruct (rep_frames_par_cell _ _ _ _ Hf Er) as (nr & Hnr).
    repeat split; [| |eauto].
    - intros ->. seg_absurd NS 4 0.
    - intros Eq. apply hid_or_in in Eq. seg_absurd NS 4 3. }
  cbn [nnext nprev npar nkid nname nval] in F. rewrite <- hid_hid_or in *.
  assert (Fo : forall i, i <> x -> ~ In i (ids_f l2) -> ~ In i (ids_f l1) -> (l1 = [] -> ~ In i (ids_frs frs)) ->
                         cells h' i = cells h i).
  { intros i H1 H2 H3 H4. rewrite F.
    destruct (Nat.eqb_spec i x); [contradiction|].
    destruct (hid l2) as [q|] eqn:Eq; cbn [peq].
    2: destruct (lastid l1 None) as [p|] eqn:Ep.
    1: destruct (Nat.eqb_spec i q) as [->|]; [exfalso; apply H2; apply hid_or_in; rewrite <- hid_hid_or; exact Eq|];
       destruct (lastid l1 None) as [p|] eqn:Ep.
    1,3: destruct (Nat.eqb_spec i p) as [->|]; [exfalso; apply H3; apply lastid_in; exact Ep|reflexivity].
    all: destruct (cpar frs) as [r|] eqn:Er; [|reflexivity];
      (destruct (Nat.eqb_spec i r) as [->|]; [|reflexivity]); exfalso;
      apply (H4 (lastid_nil_inv _ Ep)); apply cpar_in; exact Er. }
  exists h'. split; [exact E|]. split; [exact M|]. split; [|split].
  3:{ intros j n' Hj. rewrite F in Hj.
      destruct (Nat.eqb_spec j x) as [->|Njx]; [eexists; split; [exact Hcx|intros K; contradiction]|].
      assert (G : forall g : node -> node, (forall m, npar (g m) = npar m) -> option_map g (cells h j) = Some n' ->
                  exists n, cells h j = Some n /\ (j <> x -> npar n' = npar n)).
      { intros g Hg Eg. destruct (cells h j) as [m|]; [|discriminate]. cbn in Eg. inversion Eg. eexists. split; [reflexivity|]. intros _. apply Hg. }
      destruct (peq (Some j) (hid l2)); [(eapply G; [|exact Hj]; intros m; reflexivity)|].
      destruct (lastid l1 None) as [p|].
      - destruct (j =? p); [(eapply G; [|exact Hj]; intros m; reflexivity)|]. eexists; split; [exact Hj|reflexivity].
      - destruct (cpar frs) as [r|]; [|eexists; split; [exact Hj|reflexivity]].
        destruct (j =? r); [(eapply G; [|exact Hj]; intros m; reflexivity)|]. eexists; split; [exact Hj|reflexivity]. }
  - rewrite rep_st_cons, rep_plug. repeat split.
    + rewrite rep_l_cons, rep_t_eq. cbn [tid hid_or]. repeat split; [| |apply rep_l_nil].
      * rewrite F, Nat.eqb_refl. reflexivity.
      * eapply rep_l_frame; [exact Hkx|]. intros i Hi. apply Fo.
        -- intros ->. seg_absurd NS 1 0.
        -- intros Hi2. seg_absurd NS 1 3.
        -- intros Hi2. seg_absurd NS 1 2.
        -- intros _ Hi2. seg_absurd NS 1 4.
    + rewrite rep_l_app. split.
      * rewrite <- hid_hid_or.
        eapply rep_l_last_next; [exact Hl1|exact (NoDup_concat_nth _ 2 NS)|].
        intros i Hi. rewrite F.
        destruct (Nat.eqb_spec i x) as [->|]; [seg_absurd NS 2 0|].
        assert (Hq : peq (Some i) (hid l2) = false).
        { destruct (hid l2) as [q|] eqn:Eq; cbn [peq]; [|reflexivity].
          destruct (Nat.eqb_spec i q) as [->|]; [|reflexivity].
          rewrite hid_hid_or in Eq. apply hid_or_in in Eq. seg_absurd NS 2 3. }
        rewrite Hq. destruct (lastid l1 None) as [p|] eqn:Ep; cbn [peq].
        -- destruct (Nat.eqb_spec i p) as [->|]; reflexivity.
        -- apply lastid_nil_inv in Ep. subst l1. contradiction.
      * eapply rep_l_head_prev; [exact Hl2|exact (NoDup_concat_nth _ 3 NS)|].
        intros i Hi. rewrite F.
        destruct (Nat.eqb_spec i x) as [->|]; [seg_absurd NS 3 0|].
        destruct (peq (Some i) (hid l2)) eqn:Eq; [reflexivity|].
        destruct (lastid l1 None) as [p|] eqn:Ep.
        -- destruct (Nat.eqb_spec i p) as [->|]; [|reflexivity]. apply lastid_in in Ep. seg_absurd NS 3 2.
        -- destruct (cpar frs) as [r|] eqn:Er; [|reflexivity].
           destruct (Nat.eqb_spec i r) as [->|]; [|reflexivity]. apply cpar_in in Er. seg_absurd NS 3 4.
    + destruct l1 as [|t1 r1].
      * cbn [app] in *. eapply rep_frames_hd'; [exact Hf|exact (NoDup_concat_nth _ 4 NS)|].
        intros i Hi. rewrite F.
        destruct (Nat.eqb_spec i x) as [->|]; [seg_absurd NS 4 0|].
        assert (Hq : peq (Some i) (hid l2) = false).
        { destruct (hid l2) as [q|] eqn:Eq; cbn [peq]; [|reflexivity].
          destruct (Nat.eqb_spec i q) as [->|]; [|reflexivity].
          rewrite hid_hid_or in Eq. apply hid_or_in in Eq. seg_absurd NS 4 3. }
        rewrite Hq. cbn [lastid fold_left]. destruct (cpar frs) as [r|]; cbn [peq]; [|reflexivity].
        destruct (Nat.eqb_spec i r) as [->|]; reflexivity.
      * cbn [app hid] in *. eapply rep_frames_frame; [exact Hf|]. intros i Hi. apply Fo.
        -- intros ->. seg_absurd NS 4 0.
        -- intros Hi2. seg_absurd NS 4 3.
        -- intros Hi2. seg_absurd NS 4 2.
        -- discriminate.
    + eapply rep_st_frame; [exact Ho|]. intros i Hi. apply Fo.
      * intros ->. seg_absurd NS 5 0.
      * intros Hi2. seg_absurd NS 5 3.
      * intros Hi2. seg_absurd NS 5 2.
      * intros _ Hi2. seg_absurd NS 5 4.
  - intros i Hi.
    assert (K : forall j, In j (ids_f (l1 ++ T x nx vx kx :: l2) ++ ids_frs frs ++ ids_st others) -> i <> j).
    { intros j Hj ->. apply Hi. eapply Permutation_in; [symmetry; apply ids_plug|]. exact Hj. }
    apply Fo.
    + apply K. apply in_or_app. left. rewrite ids_f_app, ids_f_cons, ids_t_eq.
      apply in_or_app. right. left. reflexivity.
    + intros Hi2. apply (K i); [|reflexivity]. apply in_or_app. left. rewrite ids_f_app, ids_f_cons.
      apply in_or_app. right. apply in_or_app. right. exact Hi2.
    + intros Hi2. apply (K i); [|reflexivity]. apply in_or_app. left. rewrite ids_f_app.
      apply in_or_app. left. exact Hi2.
    + intros _ Hi2. apply (K i); [|reflexivity]. apply in_or_app. right. apply in_or_app. left. exact Hi2.
Qed.
