(* C14/ParseModel.v — mptcore/parse/parse_node.c: mpt_parse_node() on the pointer heap
   (executable, NO proofs here), and the history language extended by it.

   mpt_parse_node(root, parse, fmt) lets the parser (C08/C09's subject, not modelled
   here) call saveAppend -> mpt_node_append for every element of the text; the nodes
   are linked below a scratch node [conf] that lives on the stack of the call.  Then
     err < 0                                   -> mpt_node_clear(&conf); return err
     !root->children                           -> root->children = conf.children; re-parent loop
     root->children && conf.children           -> mpt_node_move(&root->children, conf.children);
                                                  mpt_node_clear(root);
                                                  root->children = conf.children; re-parent loop
     root->children && !conf.children          -> (nothing: root keeps what it has)
   The text enters the model as the tree it denotes ([ptree]; for a text with an
   error: the part of the tree that had been built when the parser gave up).

   The scratch node is a heap cell like any other (allocated first, so it takes the
   id [nextid h]; the harness reserves the same table index for it); the end of its
   life time is its release.  Every stage is one of the pointer operations of
   NodeModel.v, called through [mstep]:
     an element of the text       = mpt_node_new + mpt_gnode_insert(section, 0, node)
                                    (node_append.c links the node behind the last one of the open
                                    section: through the section for its first element, through the
                                    previous element otherwise; both end in gnode_after(last, node))
     "root->children = conf.children; for (..) curr->parent = root"
                                  = gnode_swap(conf, root) of a [root] WITHOUT children: the same two
                                    stores to root and the same loop; its further store
                                    (conf.children = 0) goes to the scratch cell, which is dead after
                                    the return
     return                       = release of the scratch cell (node_destroy of an unlinked, childless cell)
   so a stage whose guard of the history language fails would show as a skipped call;
   the refinement theorem covers that (it never happens: ParseRefine.v, examples). *)
From Coq Require Import List Arith ZArith Bool.
From MptV Require Import C14.NodeModel.
Import ListNotations.
Local Open Scope nat_scope.

(* the tree a configuration text denotes: name code, value code (0: a section, 4: the
   text value of an option), elements of the section *)
Inductive ptree := PT (nm v : nat) (kids : list ptree).

(* the calls made for the elements of one tree below cell [par]; [next] = id the next
   mpt_node_new hands out *)
Fixpoint build_t (par next : nat) (t : ptree) {struct t} : list op * nat :=
  match t with
  | PT nm v k =>
    let '(ops, next') :=
      (fix bl (l : list ptree) (nx : nat) {struct l} : list op * nat :=
         match l with
         | [] => ([], nx)
         | t' :: r =>
           let '(o1, n1) := build_t next nx t' in
           let '(o2, n2) := bl r n1 in
           (o1 ++ o2, n2)
         end) k (S next) in
    (ONew nm v :: OIns false par 0%Z next :: ops, next')
  end.

Fixpoint build_l (par next : nat) (l : list ptree) : list op * nat :=
  match l with
  | [] => ([], next)
  | t :: r =>
    let '(o1, n1) := build_t par next t in
    let '(o2, n2) := build_l par n1 r in
    (o1 ++ o2, n2)
  end.

(* a sequence of library calls; results are not used *)
Definition run_ops (h : heap) (ops : list op) : R heap :=
  fold_left (fun (rh : R heap) (o : op) => do h <- rh; do '(h, _) <- mstep h o; ROk h) ops (ROk h).

(* x->children of a live node *)
Definition kid_of (h : heap) (x : nat) : ptr :=
  match cells h x with Some n => nkid n | None => None end.

(* mpt_parse_node(root, <text denoting ents>, fmt); ok = the parser reports no error *)
Definition parse_node (h : heap) (root : nat) (ents : list ptree) (ok : bool) : R (heap * out) :=
  if live h root then
    let conf := nextid h in
    (* MPT_STRUCT(node) conf = MPT_NODE_INIT; mpt_parse_config(.., saveAppend, &curr) *)
    do h <- run_ops h (ONew 0 0 :: fst (build_l conf (S conf) ents));
    if ok then
      match kid_of h root with
      | None =>
        (* create new nodes *)
        do h <- run_ops h [OSwap conf root; ODestroy conf]; ROk (h, OutZ 0%Z)
      | Some _ =>
        match kid_of h conf with
        | Some d =>
          (* add to existing: move/set non-present entries, clear superseded ones, take the merged list *)
          do h <- run_ops h [OMove root d; OClear root; OSwap conf root; ODestroy conf]; ROk (h, OutZ 0%Z)
        | None =>
          (* nothing parsed: root is left alone *)
          do h <- run_ops h [ODestroy conf]; ROk (h, OutZ 0%Z)
        end
      end
    else
      (* clear created nodes on error *)
      do h <- run_ops h [OClear conf; ODestroy conf]; ROk (h, OutZ (-1)%Z)
  else ROk (h, OutX).

(* ---- the history language with mpt_parse_node ---- *)
Inductive hop :=
| HBase (o : op)
| HParse (root : nat) (ents : list ptree) (ok : bool)
| HParseRefused (x : nat).   (* mpt_parse_node(NULL, ctx, 0), (x, NULL, 0), (x, ctx, <format that selects no parser>) *)

Definition hstep (h : heap) (o : hop) : R (heap * out) :=
  match o with
  | HBase o => mstep h o
  | HParse root ents ok => parse_node h root ents ok
  | HParseRefused x =>
    (* !root || !parse: BadArgument; !mpt_parse_next_fcn(..): BadType — before anything is touched *)
    if live h x then ROk (h, OutZ (-1)%Z) else ROk (h, OutX)
  end.

Fixpoint hrun (h : heap) (ops : list hop) : list (option (out * heap)) :=
  match ops with
  | [] => []
  | o :: r =>
    match hstep h o with
    | ROk (h', out) => Some (out, h') :: hrun h' r
    | _ => [None]
    end
  end.
