(* C14/NodeInsertName.v — node_insert relative to the nodes of the same name
   (mpt_node_add / mpt_node_insert through mpt_node_locate). *)
From Coq Require Import List Arith ZArith Bool Lia Permutation Wf_nat.
From MptV Require Import C14.NodeModel C14.NodeSpec C14.NodeRep C14.NodeFocus C14.NodeExec
  C14.NodeLocal C14.NodeInv C14.NodeRefine C14.NodeFree C14.NodeClone C14.NodePos C14.NodeMatch
  C14.NodeInsert.
Import ListNotations.
Local Open Scope nat_scope.

Section Locate.
  Variables (h : heap) (par : ptr) (l : forest) (nm : nat) (fuel : nat).
  Hypothesis R : rep_l (cells h) par None l None.
  Hypothesis Hfu : length l + 1 <= fuel.
  Let ms := matches nm 0 l.

  Lemma ms_bound i : In i ms -> i < length l.
  Proof. intros H. destruct (matches_bounds _ _ _ _ H) as ((_ & B) & _). lia. Qed.

  (* locate(first, 1): the first match *)
  Lemma loc_first tf r : l = tf :: r ->
    locate fuel h (Some (tid tf)) 1%Z nm = ROk (idx_id l (nth_error ms 0)).
  Proof.
    intros El. unfold locate. change (1 =? 0)%Z with false. change (1 <? 0)%Z with false. cbn iota.
    change (Z.to_nat 1) with 1.
    assert (E0 : nth_error l 0 = Some tf) by (rewrite El; reflexivity).
    rewrite (loc_fwd_spec h par None l nm R fuel 0 tf 1 E0) by lia.
    cbn [skipn]. rewrite fwd_matches by lia. reflexivity.
  Qed.

  (* locate(first, 0): the last match *)
  Lemma loc_last tf r : l = tf :: r ->
    locate fuel h (Some (tid tf)) 0%Z nm =
    ROk (idx_id l (match ms with [] => None | _ :: _ => Some (last ms 0) end)).
  Proof.
    intros El. unfold locate. change (0 =? 0)%Z with true. cbn iota.
    assert (E0 : nth_error l 0 = Some tf) by (rewrite El; reflexivity).
    assert (Hne : l <> []) by (rewrite El; discriminate).
    destruct (last_of_spec h par None l R fuel 0 tf E0) as (tl & Etl & Ell); [lia|].
    rewrite Ell. cbn [rbind].
    rewrite (get_ok _ _ _ (cell_at _ _ _ _ _ _ _ R Etl)). cbn [rbind nname].
    destruct (Nat.eqb_spec (tname tl) nm) as [En|En].
    - destruct (matches_last_elem nm l tl Etl En Hne) as [E1 E2]. fold ms in E1, E2.
      destruct ms as [|m0 ms'] eqn:Ems; [contradiction|]. rewrite <- Ems in *. rewrite E1.
      cbn [idx_id]. unfold nth_id. rewrite Etl. reflexivity.
    - assert (Hl : length l - 1 < length l) by (rewrite El; cbn; lia).
      rewrite (loc_back_spec h par l None nm R fuel (length l - 1) tl 1 Etl) by lia.
      pose proof (back_matches nm (firstn (length l - 1) l) 1 ltac:(lia)) as B.
      rewrite firstn_length, Nat.min_l in B by lia. rewrite B.
      rewrite <- (matches_last_nomatch nm l tl Etl En Hne). fold ms.
      change (1 - 1) with 0. rewrite (hd_rev_last ms 0). reflexivity.
  Qed.

  (* locate(first match, k): the k-th match *)
  Lemma loc_kth m0 ms' t0 k : ms = m0 :: ms' -> nth_error l m0 = Some t0 -> 1 <= k ->
    loc_fwd fuel h (tid t0) k nm = ROk (idx_id l (nth_error ms (k - 1))).
  Proof.
    intros Ems E0 Hk.
    rewrite (loc_fwd_spec h par None l nm R fuel m0 t0 k E0) by lia.
    rewrite (fwd_from_first nm l m0 ms' k Ems Hk), <- Ems. reflexivity.
  Qed.

  (* locate(last match, -k): the k-th match before it *)
  Lemma loc_kback tlm k : ms <> [] -> nth_error l (last ms 0) = Some tlm -> 1 <= k ->
    loc_back fuel h (tid tlm) k nm = ROk (idx_id l (nth_error (rev ms) k)).
  Proof.
    intros Hne E Hk.
    assert (Hlm : last ms 0 < length l) by (apply nth_error_Some; congruence).
    rewrite (loc_back_spec h par l None nm R fuel (last ms 0) tlm k E) by lia.
    pose proof (back_matches nm (firstn (last ms 0) l) k Hk) as B.
    rewrite firstn_length, Nat.min_l in B by lia. rewrite B.
    pose proof (matches_before_last nm l ms eq_refl Hne) as Em.
    rewrite Em at 2. rewrite rev_app_distr. cbn [rev app].
    destruct k; [lia|]. cbn [nth_error]. replace (S k - 1) with k by lia. reflexivity.
  Qed.
End Locate.

Lemma nth_error_rev_nth (ms : list nat) k :
  nth_error (rev ms) k = if k <? length ms then Some (nth (length ms - 1 - k) ms 0) else None.
Proof.
  destruct (Nat.ltb_spec k (length ms)) as [H|H].
  - rewrite (nth_error_nth' (rev ms) 0) by (rewrite rev_length; lia).
    rewrite rev_nth by lia. f_equal. f_equal. lia.
  - apply nth_error_None. rewrite rev_length. lia.
Qed.

Lemma locate_pos fuel h c pos nm : (0 < pos)%Z ->
  locate fuel h (Some c) pos nm = loc_fwd fuel h c (Z.to_nat pos) nm.
Proof.
  intros H. unfold locate. rewrite (proj2 (Z.eqb_neq pos 0)) by lia.
  rewrite (proj2 (Z.ltb_ge pos 0)) by lia. reflexivity.
Qed.
Lemma locate_neg fuel h c pos nm : (pos < 0)%Z ->
  locate fuel h (Some c) pos nm = loc_back fuel h c (Z.to_nat (- pos)) nm.
Proof.
  intros H. unfold locate. rewrite (proj2 (Z.eqb_neq pos 0)) by lia.
  rewrite (proj2 (Z.ltb_lt pos 0)) by lia. reflexivity.
Qed.

Lemma walk_byname h par l x nx pos :
  rep_l (cells h) par None l None -> l <> [] -> length l <= nextid h ->
  cells h x = Some nx ->
  exists j (b : bool), j < length l /\
    (if b then S j else j) = (if true then npos_index l (nname nx) pos else gpos_index (length l) pos) /\
    node_insert true h (match hid l with Some f => f | None => 0 end) pos x =
    (if b then do '(h, _) <- gnode_after h (nth_id l j) (Some x); ROk h
     else do '(h, _) <- gnode_before h (nth_id l j) (Some x); ROk h).
Proof.
  intros R Hne Hf Hx. destruct l as [|tf r] eqn:El; [contradiction|]. rewrite <- El in *.
  set (nm := nname nx).
  assert (Hfu : length l + 1 <= fuel_of h) by (unfold fuel_of; lia).
  pose proof (loc_first h par l nm (fuel_of h) R Hfu tf r El) as LF.
  pose proof (loc_last h par l nm (fuel_of h) R Hfu tf r El) as LL.
  assert (Hn : 0 < length l) by (rewrite El; cbn; lia).
  assert (Hh : hid l = Some (tid tf)) by (rewrite El; reflexivity). rewrite Hh.
  unfold node_insert, getnode. rewrite (get_ok _ _ _ Hx). cbn [rbind]. fold nm.
  unfold npos_index.
  destruct (nth_id_some l (length l - 1)) as (tl & Etl & Etli); [lia|].
  assert (H0 : nth_id l 0 = Some (tid tf)) by (rewrite El; reflexivity).
  assert (GP0 : gnode_pos (fuel_of h) h (Some (tid tf)) 0%Z = ROk (Some (tid tl))).
  { rewrite <- H0. rewrite (gnode_pos_spec h par l 0 0%Z (fuel_of h) R Hn) by lia.
    change (ROk (nth_id l (length l - 1)) = ROk (Some (tid tl))). rewrite Etli. reflexivity. }
  destruct (matches nm 0 l) as [|m0 ms'] eqn:Ems.
  - (* no node of that name: append *)
    cbn [nth_error idx_id] in LF, LL.
    assert (St : locate (fuel_of h) h (Some (tid tf)) (if (0 <? pos)%Z then 1%Z else 0%Z) nm = ROk None)
      by (destruct (0 <? pos)%Z; assumption).
    rewrite St. cbn [rbind]. rewrite GP0. cbn [rbind]. change (0 <? 1)%Z with true. cbn iota.
    exists (length l - 1), true. split; [lia|]. split; [lia|]. rewrite Etli. reflexivity.
  - set (ms := m0 :: ms') in *.
    assert (Hms : ms <> []) by discriminate.
    assert (Bd : forall i, In i ms -> i < length l).
    { intros i Hi. rewrite <- Ems in Hi. destruct (matches_bounds _ _ _ _ Hi) as ((_ & B) & _). lia. }
    assert (Hm0 : m0 < length l) by (apply Bd; left; reflexivity).
    destruct (nth_id_some l m0 Hm0) as (t0 & E0 & Ei0).
    set (lm := last ms 0).
    assert (Hlmin : In lm ms).
    { destruct (exists_last Hms) as (a & y & Ea). unfold lm. rewrite Ea, last_last. apply in_or_app. right. left. reflexivity. }
    assert (Hlm : lm < length l) by (apply Bd; exact Hlmin).
    destruct (nth_id_some l lm Hlm) as (tlm & Elm & Eilm).
    change (nth_error ms 0) with (Some m0) in LF. cbn [idx_id] in LF. rewrite Ei0 in LF.
    cbn [idx_id] in LL. fold lm in LL. rewrite Eilm in LL.
    change (last (m0 :: ms') 0) with lm. change (length (m0 :: ms')) with (length ms).
    destruct (Z.ltb_spec 0 pos) as [Hp|Hp].
    + (* pos > 0: start = first match *)
      rewrite LF. cbn [rbind].
      assert (Hz : (pos =? 0)%Z = false) by (apply Z.eqb_neq; lia). rewrite Hz. cbn [orb].
      destruct (Z.eqb_spec pos 1) as [->|Hp1].
      * cbn [rbind]. change (1 <? 1)%Z with false. cbn iota.
        exists m0, false. split; [exact Hm0|]. split; [|rewrite Ei0; reflexivity].
        change (Z.to_nat 1) with 1. cbn [Nat.sub nth]. destruct (length ms) eqn:Lm; [discriminate|reflexivity].
      * assert (Hn0 : (pos <? 0)%Z = false) by (apply Z.ltb_ge; lia). rewrite Hn0.
        rewrite (locate_pos _ _ (tid t0)) by lia.
        rewrite (loc_kth h par l nm (fuel_of h) R Hfu m0 ms' t0 (Z.to_nat pos) Ems E0) by lia.
        rewrite Ems. fold ms.
        destruct (Nat.leb_spec (Z.to_nat pos) (length ms)) as [Hin|Hout].
        -- assert (Hk : Z.to_nat pos - 1 < length ms) by lia.
           rewrite (nth_error_nth' ms 0 Hk). cbn [idx_id].
           assert (Hi : nth (Z.to_nat pos - 1) ms 0 < length l) by (apply Bd; apply nth_In; exact Hk).
           destruct (nth_id_some l _ Hi) as (ti & Eti & Eii). rewrite Eii. cbn [rbind].
           assert (H1 : (pos <? 1)%Z = false) by (apply Z.ltb_ge; lia). rewrite H1.
           exists (nth (Z.to_nat pos - 1) ms 0), false. split; [exact Hi|]. split; [reflexivity|].
           rewrite Eii. reflexivity.
        -- rewrite (proj2 (nth_error_None ms (Z.to_nat pos - 1))) by lia. cbn [idx_id rbind].
           rewrite LL. cbn [rbind].
           assert (H1 : (- pos <? 1)%Z = true) by (apply Z.ltb_lt; lia). rewrite H1.
           exists lm, true. split; [exact Hlm|]. split; [reflexivity|]. rewrite Eilm. reflexivity.
    + (* pos <= 0: start = last match *)
      rewrite LL. cbn [rbind].
      destruct (Z.eqb_spec pos 0) as [->|Hp0].
      * cbn [orb rbind]. change (0 <? 1)%Z with true. cbn iota.
        exists lm, true. split; [exact Hlm|]. split; [reflexivity|]. rewrite Eilm. reflexivity.
      * assert (Hp1 : (pos =? 1)%Z = false) by (apply Z.eqb_neq; lia). rewrite Hp1. cbn [orb].
        assert (Hn0 : (pos <? 0)%Z = true) by (apply Z.ltb_lt; lia). rewrite Hn0.
        rewrite (locate_neg _ _ (tid tlm)) by lia.
        pose proof (loc_kback h par l nm (fuel_of h) R Hfu tlm (Z.to_nat (- pos))) as LB.
        rewrite Ems in LB. fold ms in LB. fold lm in LB.
        rewrite (LB Hms Elm) by lia.
        rewrite nth_error_rev_nth.
        destruct (Nat.ltb_spec (Z.to_nat (- pos)) (length ms)) as [Hin|Hout].
        -- cbn [idx_id].
           assert (Hk : length ms - 1 - Z.to_nat (- pos) < length ms) by lia.
           assert (Hi : nth (length ms - 1 - Z.to_nat (- pos)) ms 0 < length l) by (apply Bd; apply nth_In; exact Hk).
           destruct (nth_id_some l _ Hi) as (ti & Eti & Eii). rewrite Eii. cbn [rbind].
           assert (H1 : (pos <? 1)%Z = true) by (apply Z.ltb_lt; lia). rewrite H1.
           exists (nth (length ms - 1 - Z.to_nat (- pos)) ms 0), true. split; [exact Hi|]. split; [reflexivity|].
           rewrite Eii. reflexivity.
        -- cbn [idx_id rbind]. rewrite LF. cbn [rbind].
           assert (H1 : (- pos <? 1)%Z = false) by (apply Z.ltb_ge; lia). rewrite H1.
           exists m0, false. split; [exact Hm0|]. split; [reflexivity|]. rewrite Ei0. reflexivity.
Qed.

Lemma step_nadd f pos x : refines_step (OAdd true f pos x).
Proof. exact (step_add_gen true walk_byname f pos x). Qed.
Lemma step_nins p pos x : refines_step (OIns true p pos x).
Proof. exact (step_ins_gen true walk_byname p pos x). Qed.
