(* C14/NodeLevel.v — mpt_gnode_traverse as a handler sees it: it is told the depth, it may
   end the traversal, and it may ask for level order (gnode_level.c: samelevel / sublevel).
   The calls it receives are the specification's list, cut where it answers non-zero. *)
From Coq Require Import List Arith ZArith Bool Lia Permutation Wf_nat.
From MptV Require Import C14.NodeModel C14.NodeSpec C14.NodeRep C14.NodeFocus C14.NodeExec
  C14.NodeLocal C14.NodeInv C14.NodeRefine C14.NodeFree C14.NodeWalk.
Import ListNotations.
Local Open Scope nat_scope.

(* ---------------------------------------------------------------- the handler over a list of visits *)
Fixpoint hrun (st : hstate) (l : list (nat * nat)) : hstate * ptr :=
  match l with
  | [] => (st, None)
  | (x, d) :: r => let '(st', stop) := hcall st x d in if stop then (st', Some x) else hrun st' r
  end.

Definition hthen (a : hstate * ptr) (f : hstate -> hstate * ptr) : hstate * ptr :=
  match snd a with Some _ => a | None => f (fst a) end.

Lemma hrun_app st a b : hrun st (a ++ b) = hthen (hrun st a) (fun st' => hrun st' b).
Proof.
  revert st. induction a as [|[x d] a IH]; intros st; [reflexivity|].
  cbn [app hrun]. destruct (hcall st x d) as [st' stop]. destruct stop; [reflexivity|apply IH].
Qed.

Lemma hrun_nil st : hrun st [] = (st, None).
Proof. reflexivity. Qed.

Lemma hrun_cutk : forall full acc k,
  fst (fst (hrun (acc, k) full)) = acc ++ fst (cutk k full) /\ snd (hrun (acc, k) full) = snd (cutk k full).
Proof.
  induction full as [|[x d] r IH]; intros acc k.
  - destruct k as [|k]; cbn; [rewrite app_nil_r; auto|]. destruct k; cbn; rewrite app_nil_r; auto.
  - cbn [hrun hcall]. destruct k as [|[|k]].
    + destruct (IH (acc ++ [(x, d)]) 0) as [E1 E2]. rewrite E1, E2. cbn [cutk fst snd].
      rewrite <- app_assoc. auto.
    + cbn. auto.
    + destruct (IH (acc ++ [(x, d)]) (S k)) as [E1 E2]. rewrite E1, E2.
      cbn [cutk nth_error]. destruct (nth_error r k) as [[y e]|]; cbn [fst snd firstn]; rewrite <- app_assoc; auto.
Qed.

(* the visit of one node *)
Lemma tvisit_svis nxt prv par i n v kk fl d st :
  tvisit (mkN nxt prv par (hid kk) n v) fl i d st = hrun st (svis fl d (T i n v kk)).
Proof.
  unfold tvisit, svis, trav_curr. cbn [nkid tkids tid].
  destruct kk as [|t r]; cbn [hid].
  - destruct (Nat.odd fl); [|reflexivity]. cbn [hrun]. destruct (hcall st i d) as [st' stop]. destruct stop; reflexivity.
  - destruct (2 <=? fl); [|reflexivity]. cbn [hrun]. destruct (hcall st i d) as [st' stop]. destruct stop; reflexivity.
Qed.

(* ---------------------------------------------------------------- pre / in / post order *)
Lemma traverseK_S o f h fl x d st :
  traverseK o (S f) h fl x d st =
  (do n <- get h x;
   let kids := trav_kidsK (fun c st => traverseK o f h fl c (S d) st) (S f) h in
   match o with
   | PostOrder =>
     do '(st, r) <- kids (nkid n) st;
     match r with Some _ => ROk (st, r) | None => ROk (tvisit n fl x d st) end
   | PreOrder =>
     let '(st, r) := tvisit n fl x d st in
     match r with Some _ => ROk (st, r) | None => kids (nkid n) st end
   | InOrder =>
     match nkid n with
     | None => ROk (tvisit n fl x d st)
     | Some c =>
       do '(st, r) <- traverseK o f h fl c (S d) st;
       match r with
       | Some _ => ROk (st, r)
       | None =>
         do nx <- fld nnext h (Some c);
         let '(st, r) := tvisit n fl x d st in
         match r with Some _ => ROk (st, r) | None => kids nx st end
       end
     end
   end).
Proof. reflexivity. Qed.

Lemma trav_kidsK_spec o fl h f d : forall l par prv st g,
  Forall (fun t => forall par prv nxt st, repc (cells h) (exp_t par prv t nxt) ->
                   traverseK o f h fl (tid t) d st = ROk (hrun st (stravd o fl d t))) l ->
  rep_l (cells h) par prv l None -> length l < g ->
  trav_kidsK (fun c st => traverseK o f h fl c d st) g h (hid l) st = ROk (hrun st (flat_map (stravd o fl d) l)).
Proof.
  induction l as [|t r IH]; intros par prv st g F R Hg.
  - destruct g; [cbn in Hg; lia|]. reflexivity.
  - destruct g as [|g]; [cbn in Hg; lia|]. cbn [hid trav_kidsK].
    inversion F as [|? ? Ft Fr]; subst.
    rewrite rep_l_cons in R. destruct R as (Rt & Rr).
    rewrite (Ft _ _ _ _ Rt). cbn [rbind flat_map]. rewrite hrun_app. unfold hthen.
    destruct (hrun st (stravd o fl d t)) as [st' [q|]]; cbn [fst snd]; [reflexivity|].
    destruct t as [i n v kk]. cbn [tid] in *. rewrite rep_t_eq in Rt. destruct Rt as (Hi & _).
    rewrite (fld_ok _ _ _ _ Hi). cbn [rbind nnext]. rewrite <- hid_hid_or.
    apply (IH par (Some i)); [exact Fr|exact Rr|cbn in Hg; lia].
Qed.

Lemma travK_tree o fl h : forall t par prv nxt st f d,
  repc (cells h) (exp_t par prv t nxt) -> tsize t <= f ->
  traverseK o f h fl (tid t) d st = ROk (hrun st (stravd o fl d t)).
Proof.
  intros t. induction t as [t IH] using (well_founded_induction (well_founded_ltof _ tsize)).
  unfold ltof in IH. intros par prv nxt st f d R Hf.
  destruct t as [i n v kk]. rewrite tsize_eq in Hf. destruct f as [|f]; [lia|].
  cbn [tid]. rewrite traverseK_S. rewrite rep_t_eq in R. destruct R as (Hi & Hkk).
  rewrite (get_ok _ _ _ Hi). cbn [rbind nkid].
  assert (Tv : forall st', tvisit (mkN nxt prv par (hid kk) n v) fl i d st' = hrun st' (svis fl d (T i n v kk)))
    by (intros; apply tvisit_svis).
  assert (In_size : forall (l : forest) t', In t' l -> tsize t' <= fsize l).
  { induction l as [|a l IHl]; intros t' H; [contradiction|]. destruct H as [<-|H]; rewrite fsize_cons; [lia|]. specialize (IHl _ H). lia. }
  assert (Kk : forall l prv' st', (forall t', In t' l -> tsize t' <= fsize kk) -> length l <= fsize kk ->
              rep_l (cells h) (Some i) prv' l None ->
              trav_kidsK (fun c st => traverseK o f h fl c (S d) st) (S f) h (hid l) st' =
              ROk (hrun st' (flat_map (stravd o fl (S d)) l))).
  { intros l prv' st' Hl Hlen Rl. apply (trav_kidsK_spec o fl h f (S d) l (Some i) prv'); [|exact Rl|lia].
    apply Forall_forall. intros t' Ht' par' prv'' nxt' st'' R'.
    apply (IH t') with (par := par') (prv := prv'') (nxt := nxt'); [rewrite tsize_eq; specialize (Hl _ Ht'); lia|exact R'|specialize (Hl _ Ht'); lia]. }
  cbn [stravd]. destruct o.
  - rewrite (Kk kk None st); [|apply In_size|apply length_le_fsize|exact Hkk]. cbn [rbind].
    rewrite hrun_app. unfold hthen.
    destruct (hrun st (flat_map (stravd PostOrder fl (S d)) kk)) as [st' [q|]]; cbn [fst snd]; rewrite ?Tv; reflexivity.
  - rewrite Tv, hrun_app. unfold hthen.
    destruct (hrun st (svis fl d (T i n v kk))) as [st' [q|]]; cbn [fst snd]; [reflexivity|].
    apply (Kk kk None); [apply In_size|apply length_le_fsize|exact Hkk].
  - destruct kk as [|tc rk].
    + cbn [hid]. rewrite Tv. reflexivity.
    + cbn [hid] in Tv |- *. rewrite rep_l_cons in Hkk. destruct Hkk as (Rc & Rrk).
      rewrite (IH tc) with (par := Some i) (prv := @None nat) (nxt := hid_or rk None);
        [|rewrite tsize_eq, fsize_cons; lia|exact Rc|rewrite fsize_cons in Hf; lia].
      cbn [rbind]. rewrite hrun_app. unfold hthen.
      destruct (hrun st (stravd InOrder fl (S d) tc)) as [st1 [q|]]; cbn [fst snd]; [reflexivity|].
      destruct tc as [c cn cv ck]. cbn [tid] in *. rewrite rep_t_eq in Rc. destruct Rc as (Hc & _).
      rewrite (fld_ok _ _ _ _ Hc). cbn [rbind nnext]. rewrite <- hid_hid_or.
      rewrite Tv, hrun_app. unfold hthen.
      destruct (hrun st1 (svis fl d (T i n v (T c cn cv ck :: rk)))) as [st2 [q|]]; cbn [fst snd]; [reflexivity|].
      apply (Kk rk (Some c)); [| |exact Rrk].
      * intros t' Ht'. rewrite fsize_cons. specialize (In_size rk t' Ht'). lia.
      * rewrite fsize_cons, tsize_eq. pose proof (length_le_fsize rk). lia.
Qed.

Lemma traverse_listK_spec o fl h : forall l par prv st g,
  rep_l (cells h) par prv l None -> fsize l + 1 <= fuel_of h -> length l < g ->
  traverse_listK o g h fl (hid l) st = ROk (hrun st (flat_map (stravd o fl 0) l)).
Proof.
  induction l as [|t r IH]; intros par prv st g R Hf Hg.
  - destruct g; reflexivity.
  - destruct g as [|g]; [cbn in Hg; lia|]. cbn [hid traverse_listK].
    rewrite rep_l_cons in R. destruct R as (Rt & Rr). rewrite fsize_cons in Hf.
    rewrite (travK_tree o fl h t _ _ _ st (fuel_of h) 0 Rt) by lia. cbn [rbind flat_map].
    rewrite hrun_app. unfold hthen.
    destruct (hrun st (stravd o fl 0 t)) as [st' [q|]]; cbn [fst snd]; [reflexivity|].
    destruct t as [i n v kk]. cbn [tid] in *. rewrite rep_t_eq in Rt. destruct Rt as (Hi & _).
    rewrite (fld_ok _ _ _ _ Hi). cbn [rbind nnext]. rewrite <- hid_hid_or.
    apply (IH par (Some i)); [exact Rr|lia|cbn in Hg; lia].
Qed.

(* ---------------------------------------------------------------- levels of a represented list *)
(* every tree of the list has its cells in the heap *)
Definition treps (c : cellmap) (L : forest) : Prop :=
  Forall (fun t => exists par prv nxt, repc c (exp_t par prv t nxt)) L.

Lemma treps_rep_l c : forall l par prv aft, rep_l c par prv l aft -> treps c l.
Proof.
  induction l as [|t r IH]; intros par prv aft R; [constructor|].
  rewrite rep_l_cons in R. destruct R as [Rt Rr]. constructor; [eauto|eapply IH; exact Rr].
Qed.

Lemma treps_kids c L : treps c L -> treps c (flat_map tkids L).
Proof.
  induction 1 as [|t L Ht _ IH]; [constructor|]. cbn [flat_map]. apply Forall_app. split; [|exact IH].
  destruct t as [i n v k]. destruct Ht as (par & prv & nxt & R). rewrite rep_t_eq in R. destruct R as [_ Rk].
  cbn [tkids]. eapply treps_rep_l. exact Rk.
Qed.

Lemma treps_level c G par prv : rep_l c par prv G None -> forall u, treps c (level u G).
Proof.
  intros R u. induction u as [|u IH]; cbn [level]; [eapply treps_rep_l; exact R|apply treps_kids; exact IH].
Qed.

Lemma treps_cell c L a i n v kk b : treps c L -> L = a ++ T i n v kk :: b ->
  exists nxt prv par, c i = Some (mkN nxt prv par (hid kk) n v) /\ rep_l c (Some i) None kk None.
Proof.
  intros H ->. unfold treps in H. rewrite Forall_app in H. destruct H as [_ H]. inversion H as [|? ? Ht _]; subst.
  destruct Ht as (par & prv & nxt & R). rewrite rep_t_eq in R. destruct R as [Hc Rk]. eauto.
Qed.

Lemma app_split_mid {B} : forall (u v a : list B) x b, u ++ v = a ++ x :: b ->
  (exists k2, u = a ++ x :: k2 /\ b = k2 ++ v) \/ (exists a', a = u ++ a' /\ v = a' ++ x :: b).
Proof.
  induction u as [|y u IH]; intros v a x b E.
  - right. exists a. auto.
  - destruct a as [|y' a]; cbn in E.
    + inversion E; subst. left. exists u. auto.
    + inversion E; subst. destruct (IH _ _ _ _ H1) as [(k2 & -> & ->)|(a' & -> & ->)].
      * left. exists k2. auto.
      * right. exists a'. auto.
Qed.

Lemma flat_map_split {A B} (f : A -> list B) : forall L a x b,
  flat_map f L = a ++ x :: b ->
  exists P1 p P2 k1 k2, L = P1 ++ p :: P2 /\ f p = k1 ++ x :: k2 /\ a = flat_map f P1 ++ k1 /\ b = k2 ++ flat_map f P2.
Proof.
  induction L as [|p L IH]; intros a x b E; [destruct a; discriminate|].
  cbn [flat_map] in E. destruct (app_split_mid _ _ _ _ _ E) as [(k2 & E1 & E2)|(a' & E1 & E2)].
  - exists [], p, L, a, k2. auto.
  - destruct (IH _ _ _ E2) as (P1 & q & P2 & k1 & k2 & -> & Eq & -> & ->).
    exists (p :: P1), q, P2, k1, k2. cbn [app flat_map]. rewrite <- app_assoc. auto.
Qed.

Lemma fsize_kids L : fsize (flat_map tkids L) + length L = fsize L.
Proof.
  induction L as [|[i n v k] L IH]; [reflexivity|].
  cbn [flat_map tkids length]. rewrite fsize_app, fsize_cons, tsize_eq. lia.
Qed.

Lemma fsize_level G : forall u, fsize (level u G) <= fsize G.
Proof.
  induction u as [|u IH]; [reflexivity|]. cbn [level]. pose proof (fsize_kids (level u G)). lia.
Qed.

Lemma level_empty_from G u : level u G = [] -> forall j, level (j + u) G = [].
Proof.
  intros E j. induction j as [|j IH]; [exact E|]. cbn [plus level]. rewrite IH. reflexivity.
Qed.

Lemma samelevel_next u fuel h i n :
  cells h i = Some n ->
  (match nnext n with None => samelevel u fuel h (Some i) | Some q => ROk (Some q) end) = samelevel u fuel h (Some i).
Proof.
  intros Hc. destruct (nnext n) as [q|] eqn:E; [|reflexivity].
  destruct u; cbn [samelevel]; rewrite (get_ok _ _ _ Hc); cbn [rbind]; rewrite E; reflexivity.
Qed.

Section Level.
  Variables (h : heap) (G : forest) (par0 prv0 : ptr) (fuel : nat).
  Hypothesis R : rep_l (cells h) par0 prv0 G None.
  Hypothesis Hfuel : forall u, length (level u G) < fuel.

  Lemma up_loop_spec u :
    (forall L1 t L2, level u G = L1 ++ t :: L2 -> samelevel u fuel h (Some (tid t)) = ROk (hid L2)) ->
    forall Q2 Q1 p g, level u G = Q1 ++ p :: Q2 -> length Q2 < g ->
      up_loop (samelevel u fuel h) g h (Some (tid p)) = ROk (hid (flat_map tkids Q2)).
  Proof.
    intros IHu. induction Q2 as [|q Q2 IH]; intros Q1 p g E Hg; (destruct g as [|g]; [cbn in Hg; lia|]); cbn [up_loop].
    - rewrite (IHu _ _ _ E). reflexivity.
    - rewrite (IHu _ _ _ E). cbn [hid rbind].
      assert (E' : level u G = (Q1 ++ [p]) ++ q :: Q2) by (rewrite <- app_assoc; exact E).
      destruct q as [i n v kk].
      destruct (treps_cell _ _ _ _ _ _ _ _ (treps_level _ _ _ _ R u) E') as (nxt & prv & par & Hc & _).
      cbn [tid]. rewrite (get_ok _ _ _ Hc). cbn [rbind nkid flat_map tkids].
      destruct kk as [|c0 kk]; cbn [hid app]; [|reflexivity].
      apply (IH (Q1 ++ [p]) (T i n v [])); [exact E'|cbn in Hg; lia].
  Qed.

  (* mpt_gnode_samelevel(t, u) for a node t on level u: the next node of that level *)
  Lemma samelevel_spec : forall u L1 t L2,
    level u G = L1 ++ t :: L2 -> samelevel u fuel h (Some (tid t)) = ROk (hid L2).
  Proof.
    induction u as [|u IHu]; intros L1 t L2 E.
    - cbn [level] in E. destruct t as [i n v kk].
      destruct (treps_cell _ _ _ _ _ _ _ _ (treps_level _ _ _ _ R 0) E) as (nxt & prv & par & Hc & _).
      pose proof R as R'. rewrite E in R'. rewrite rep_l_mid in R'. destruct R' as (_ & Hc' & _).
      cbn [samelevel tid]. rewrite (get_ok _ _ _ Hc'). cbn [rbind nnext]. rewrite <- hid_hid_or. reflexivity.
    - cbn [level] in E. destruct (flat_map_split _ _ _ _ _ E) as (P1 & tp & P2 & k1 & k2 & EL & Ek & -> & ->).
      destruct tp as [ip np vp kp]. cbn [tkids] in Ek.
      destruct (treps_cell _ _ _ _ _ _ _ _ (treps_level _ _ _ _ R u) EL) as (nxt & prv & par & _ & Rk).
      rewrite Ek in Rk. destruct t as [i n v kk]. rewrite rep_l_mid in Rk. destruct Rk as (_ & Hc & _).
      cbn [samelevel tid]. rewrite (get_ok _ _ _ Hc). cbn [rbind nnext npar].
      destruct k2 as [|t2 k2]; cbn [hid_or hid app]; [|reflexivity].
      apply (up_loop_spec u IHu P2 P1 (T ip np vp kp) fuel EL).
      pose proof (Hfuel u) as L. rewrite EL, app_length in L. cbn [length] in L. lia.
  Qed.

  (* mpt_gnode_sublevel(t, u): the first node of the next level below t and what follows t *)
  Lemma sublevel_spec u : forall L2 L1 t g,
    level u G = L1 ++ t :: L2 -> length L2 < g ->
    sublevel g fuel u h (Some (tid t)) = ROk (hid (flat_map tkids (t :: L2))).
  Proof.
    induction L2 as [|t2 L2 IH]; intros L1 t g E Hg; (destruct g as [|g]; [cbn in Hg; lia|]); cbn [sublevel];
      destruct t as [i n v kk];
      destruct (treps_cell _ _ _ _ _ _ _ _ (treps_level _ _ _ _ R u) E) as (nxt & prv & par & Hc & _);
      cbn [tid]; rewrite (get_ok _ _ _ Hc); cbn [rbind nkid flat_map tkids];
      (destruct kk as [|c0 kk]; cbn [hid app]; [|reflexivity]);
      pose proof (samelevel_spec u _ _ _ E) as Es; cbn [tid] in Es; rewrite Es; cbn [rbind hid].
    - destruct g; reflexivity.
    - apply (IH (L1 ++ [T i n v []]) t2); [rewrite <- app_assoc; exact E|cbn in Hg; lia].
  Qed.

  (* the inner loop of the level-order traversal: the rest of a level *)
  Lemma level_row_spec fl u d : forall L L1 g st,
    level u G = L1 ++ L -> length L < g ->
    level_row g fuel h fl (hid L) u d st = ROk (hrun st (flat_map (svis fl d) L)).
  Proof.
    induction L as [|t L IH]; intros L1 g st E Hg.
    - destruct g; reflexivity.
    - destruct g as [|g]; [cbn in Hg; lia|]. cbn [hid level_row]. destruct t as [i n v kk].
      destruct (treps_cell _ _ _ _ _ _ _ _ (treps_level _ _ _ _ R u) E) as (nxt & prv & par & Hc & _).
      cbn [tid]. rewrite (get_ok _ _ _ Hc). cbn [rbind flat_map].
      rewrite tvisit_svis, hrun_app. unfold hthen.
      destruct (hrun st (svis fl d (T i n v kk))) as [st' [q|]]; cbn [fst snd]; [reflexivity|].
      rewrite (samelevel_next u fuel h i _ Hc).
      pose proof (samelevel_spec u L1 (T i n v kk) L E) as Es. cbn [tid] in Es. rewrite Es. cbn [rbind].
      apply (IH (L1 ++ [T i n v kk])); [rewrite <- app_assoc; exact E|cbn in Hg; lia].
  Qed.

  Lemma levels_empty fl : forall n u, level u G = [] ->
    flat_map (fun j => flat_map (svis fl j) (level j G)) (seq u n) = [].
  Proof.
    induction n as [|n IH]; intros u E; [reflexivity|]. cbn [seq flat_map]. rewrite E. cbn [flat_map app].
    apply IH. exact (level_empty_from G u E 1).
  Qed.

  (* the outer loop: level u and everything below *)
  Lemma traverse_level_spec fl : forall g u st n,
    fsize (level u G) < g -> fsize (level u G) <= n ->
    traverse_level g fuel h fl (hid (level u G)) u u st =
    ROk (hrun st (flat_map (fun j => flat_map (svis fl j) (level j G)) (seq u n))).
  Proof.
    induction g as [|g IH]; intros u st n Hg Hn; [lia|].
    pose proof (Hfuel u) as Lu. pose proof (fsize_kids (level u G)) as Fk.
    destruct (level u G) as [|t L] eqn:E.
    - cbn [hid traverse_level]. rewrite (levels_empty fl n u E). reflexivity.
    - cbn [hid traverse_level].
      pose proof (level_row_spec fl u u (t :: L) [] fuel st E Lu) as Row. cbn [hid] in Row. rewrite Row. cbn [rbind].
      destruct n as [|n]; [rewrite fsize_cons in Hn; destruct t; rewrite tsize_eq in Hn; lia|].
      assert (Eseq : flat_map (fun j => flat_map (svis fl j) (level j G)) (seq u (S n)) =
                     flat_map (svis fl u) (t :: L) ++ flat_map (fun j => flat_map (svis fl j) (level j G)) (seq (S u) n))
        by (cbn [seq flat_map]; rewrite E; reflexivity).
      rewrite Eseq. clear Eseq Row. remember (flat_map (svis fl u) (t :: L)) as A eqn:EA.
      rewrite hrun_app. unfold hthen.
      destruct (hrun st A) as [st' [q|]]; cbn [fst snd]; [reflexivity|].
      rewrite (sublevel_spec u L [] t fuel E) by (cbn [length] in Lu; lia). cbn [rbind].
      replace (flat_map tkids (t :: L)) with (level (S u) G) by (cbn [level]; rewrite E; reflexivity).
      assert (E' : flat_map tkids (t :: L) = level (S u) G) by (cbn [level]; rewrite E; reflexivity).
      rewrite E' in Fk. cbn [length] in Fk.
      apply IH; lia.
  Qed.
End Level.

Lemma length_le_fsize' (l : forest) : length l <= fsize l.
Proof. apply length_le_fsize. Qed.

(* mpt_gnode_traverse from node x of a represented forest: the handler is called for the
   nodes (with the depths) the specification lists for the order, until it answers non-zero *)
Lemma walk_run h s x frs oo l1 tx l2 o fl k :
  inv h s -> focus x (lists s) = Some ((frs, oo), l1, tx, l2) ->
  gnode_traverse h o fl (Some x) ([], k) = ROk (hrun ([], k) (swalk o fl (tx :: l2))).
Proof.
  intros I FX.
  destruct (focus_cell _ _ _ _ _ _ _ _ (i_rep _ _ I) FX) as [_ R].
  destruct (focus_perm _ _ _ _ _ _ _ FX) as [P Ex].
  rewrite rep_plug in R. destruct R as (Rl & _ & _). rewrite rep_l_app in Rl. destruct Rl as [_ Rl].
  assert (Len : fsize (tx :: l2) <= nextid h).
  { rewrite fsize_ids. etransitivity; [|exact (inv_length _ _ I)].
    rewrite (Permutation_length (ids_st_perm _ _ P)), (Permutation_length (ids_plug _ _ _)).
    rewrite ids_f_app, !app_length. lia. }
  unfold gnode_traverse, swalk. destruct o as [o|].
  - pose proof (traverse_listK_spec o fl h (tx :: l2) _ _ ([], k) (fuel_of h) Rl) as T.
    cbn [hid] in T. rewrite Ex in T. apply T; [unfold fuel_of; lia|].
    pose proof (length_le_fsize (tx :: l2)). unfold fuel_of. lia.
  - pose proof (traverse_level_spec h (tx :: l2) _ _ (fuel_of h) Rl) as T.
    specialize (T ltac:(intros u; pose proof (fsize_level (tx :: l2) u); pose proof (length_le_fsize (level u (tx :: l2))); unfold fuel_of; lia)).
    specialize (T fl (fuel_of h) 0 ([], k) (fsize (tx :: l2))). cbn [level hid] in T. rewrite Ex in T.
    unfold slevel. apply T; [unfold fuel_of; lia|lia].
Qed.

Lemma walk_calls h s x c l1 tx l2 o fl k :
  inv h s -> focus x (lists s) = Some (c, l1, tx, l2) ->
  mstep h (OWalk o fl x k) =
  ROk (h, OutW (fst (cutk k (swalk o fl (tx :: l2)))) (snd (cutk k (swalk o fl (tx :: l2))))).
Proof.
  intros I FX. destruct c as [frs oo]. cbn [mstep]. rewrite (live_iff _ _ _ I).
  assert (Sl : slive s x = true) by (apply mem_in; eapply focus_in; exact FX).
  rewrite Sl. rewrite (walk_run _ _ _ _ _ _ _ _ o fl k I FX). cbn [rbind].
  destruct (hrun_cutk (swalk o fl (tx :: l2)) [] k) as [E1 E2].
  destruct (hrun ([], k) (swalk o fl (tx :: l2))) as [[acc k'] r]. cbn [fst snd app] in E1, E2 |- *.
  rewrite E1, E2. reflexivity.
Qed.

Lemma step_walk o fl x k : refines_step (OWalk o fl x k).
Proof.
  intros h s I. cbn [sstep].
  destruct (focus x (lists s)) as [[[[c l1] tx] l2]|] eqn:FX.
  - rewrite (walk_calls _ _ _ _ _ _ _ o fl k I FX).
    destruct (cutk k (swalk o fl (tx :: l2))) as [l r]. cbn [fst snd]. exists h. split; [reflexivity|exact I].
  - cbn [mstep]. rewrite (live_iff _ _ _ I).
    assert (Sl : slive s x = false).
    { destruct (slive s x) eqn:Sl; [|reflexivity]. apply mem_in in Sl. exfalso. exact (focus_st_none _ _ _ FX Sl). }
    rewrite Sl. cbn [fst snd]. eexists; split; [reflexivity|exact I].
Qed.
