(* C14/NodePos.v — the list walks of gnode_pos.c and node_locate.c on a represented
   sibling list, in terms of list indices. *)
From Coq Require Import List Arith ZArith Bool Lia Permutation Wf_nat.
From MptV Require Import C14.NodeModel C14.NodeSpec C14.NodeRep C14.NodeFocus C14.NodeExec
  C14.NodeLocal C14.NodeInv C14.NodeRefine C14.NodeFree.
Import ListNotations.
Local Open Scope nat_scope.

Definition nth_id (l : forest) (j : nat) : ptr := option_map tid (nth_error l j).

Lemma nth_id_nil j : nth_id [] j = None.
Proof. unfold nth_id. destruct j; reflexivity. Qed.
Lemma nth_id_0 t r : nth_id (t :: r) 0 = Some (tid t).
Proof. reflexivity. Qed.
Lemma nth_id_S t r j : nth_id (t :: r) (S j) = nth_id r j.
Proof. reflexivity. Qed.
Lemma nth_id_none l j : length l <= j -> nth_id l j = None.
Proof. intros H. unfold nth_id. rewrite (proj2 (nth_error_None l j) H). reflexivity. Qed.
Lemma nth_id_some l j : j < length l -> exists t, nth_error l j = Some t /\ nth_id l j = Some (tid t).
Proof.
  intros H. destruct (nth_error l j) as [t|] eqn:E.
  - exists t. unfold nth_id. rewrite E. auto.
  - apply nth_error_None in E. lia.
Qed.

(* the cell of the j-th element of a represented list *)
Lemma cell_at c par : forall l prv aft j t,
  rep_l c par prv l aft -> nth_error l j = Some t ->
  c (tid t) = Some (mkN (match nth_id l (S j) with Some q => Some q | None => aft end)
                        (match j with 0 => prv | S j' => nth_id l j' end)
                        par (hid (tkids t)) (tname t) (tval t)).
Proof.
  induction l as [|[i n v k] r IH]; intros prv aft j t R E; [destruct j; discriminate|].
  rewrite rep_l_cons, rep_t_eq in R. destruct R as ((Hi & _) & Hr).
  destruct j as [|j]; cbn [nth_error] in E.
  - inversion E; subst. cbn [tid tkids tname tval]. rewrite Hi. rewrite nth_id_S.
    destruct r as [|t' r']; reflexivity.
  - rewrite (IH _ _ _ _ Hr E). rewrite !nth_id_S. destruct j; reflexivity.
Qed.

Lemma steps_next_spec h par prv l :
  rep_l (cells h) par prv l None ->
  forall k j, steps nnext h (nth_id l j) k = ROk (nth_id l (j + k)).
Proof.
  intros R k. induction k as [|k IH]; intros j.
  - rewrite Nat.add_0_r. reflexivity.
  - cbn [steps]. destruct (nth_error l j) as [t|] eqn:E.
    + unfold nth_id at 1. rewrite E. cbn [option_map].
      rewrite (get_ok _ _ _ (cell_at _ _ _ _ _ _ _ R E)). cbn [rbind nnext].
      replace (j + S k) with (S j + k) by lia. rewrite <- IH.
      destruct (nth_id l (S j)); reflexivity.
    + unfold nth_id at 1. rewrite E. cbn [option_map]. apply nth_error_None in E.
      rewrite nth_id_none by lia. reflexivity.
Qed.

Lemma steps_prev_spec h par l aft :
  rep_l (cells h) par None l aft ->
  forall k j, j < length l -> steps nprev h (nth_id l j) k = ROk (if k <=? j then nth_id l (j - k) else None).
Proof.
  intros R k. induction k as [|k IH]; intros j Hj.
  - rewrite Nat.sub_0_r. reflexivity.
  - cbn [steps]. destruct (nth_id_some l j Hj) as (t & E & Ei). rewrite Ei.
    rewrite (get_ok _ _ _ (cell_at _ _ _ _ _ _ _ R E)). cbn [rbind nprev].
    destruct j as [|j].
    + destruct k; reflexivity.
    + rewrite IH by lia. replace (S k <=? S j) with (k <=? j) by reflexivity.
      replace (S j - S k) with (j - k) by lia. reflexivity.
Qed.

Lemma last_of_spec h par prv l :
  rep_l (cells h) par prv l None ->
  forall fuel j t, nth_error l j = Some t -> length l - j <= fuel ->
  exists tl, nth_error l (length l - 1) = Some tl /\ last_of fuel h (tid t) = ROk (tid tl).
Proof.
  intros R fuel. induction fuel as [|fuel IH]; intros j t E Hf.
  - assert (j < length l) by (apply nth_error_Some; congruence). lia.
  - assert (Hj : j < length l) by (apply nth_error_Some; congruence).
    cbn [last_of]. rewrite (get_ok _ _ _ (cell_at _ _ _ _ _ _ _ R E)). cbn [rbind nnext].
    destruct (nth_error l (S j)) as [t'|] eqn:E'.
    + unfold nth_id. rewrite E'. cbn [option_map]. apply (IH (S j) t' E'). lia.
    + unfold nth_id. rewrite E'. cbn [option_map]. apply nth_error_None in E'.
      assert (j = length l - 1) by lia. subst j. exists t. auto.
Qed.

Lemma gnode_pos_spec h par l j pos fuel :
  rep_l (cells h) par None l None -> j < length l -> length l <= fuel ->
  gnode_pos fuel h (nth_id l j) pos =
  ROk (if (pos <? 0)%Z then (if Z.to_nat (- pos) <=? j then nth_id l (j - Z.to_nat (- pos)) else None)
       else if (0 <? pos)%Z then nth_id l (j + (Z.to_nat pos - 1))
       else nth_id l (length l - 1)).
Proof.
  intros R Hj Hf. destruct (nth_id_some l j Hj) as (t & E & Ei).
  unfold gnode_pos. rewrite Ei.
  destruct (pos <? 0)%Z.
  - rewrite <- Ei. apply (steps_prev_spec _ _ _ _ R). exact Hj.
  - destruct (0 <? pos)%Z.
    + rewrite <- Ei. apply (steps_next_spec _ _ _ _ R).
    + destruct (last_of_spec _ _ _ _ R fuel j t E) as (tl & El & Ell); [lia|].
      rewrite Ell. cbn [rbind]. unfold nth_id. rewrite El. reflexivity.
Qed.

Lemma insert_at_split {A} (l : list A) j (t x : A) :
  nth_error l j = Some t ->
  l = firstn j l ++ t :: skipn (S j) l /\
  insert_at (S j) x l = firstn j l ++ t :: x :: skipn (S j) l /\
  insert_at j x l = firstn j l ++ x :: t :: skipn (S j) l.
Proof.
  revert j. induction l as [|a l IH]; intros j E; [destruct j; discriminate|].
  destruct j as [|j]; cbn [nth_error] in E.
  - inversion E; subst. unfold insert_at. cbn. auto.
  - destruct (IH j E) as (E1 & E2 & E3). unfold insert_at in *. cbn [firstn skipn app].
    repeat split; f_equal; assumption.
Qed.

(* node_insert by absolute position ends in one gnode_after / gnode_before at the
   element the specification's index names *)
Lemma node_insert_gnode h par l x nx pos :
  rep_l (cells h) par None l None -> l <> [] -> length l <= nextid h ->
  cells h x = Some nx ->
  exists j (b : bool), j < length l /\ (if b then S j else j) = gpos_index (length l) pos /\
    node_insert false h (match hid l with Some f => f | None => 0 end) pos x =
    (if b then do '(h, _) <- gnode_after h (nth_id l j) (Some x); ROk h
     else do '(h, _) <- gnode_before h (nth_id l j) (Some x); ROk h).
Proof.
  intros R Hne Hf Hx. destruct l as [|tf r] eqn:El; [contradiction|]. rewrite <- El in *.
  assert (Hn : 0 < length l) by (rewrite El; cbn; lia).
  assert (H0 : nth_id l 0 = Some (tid tf)) by (rewrite El; reflexivity).
  assert (Hh : hid l = Some (tid tf)) by (rewrite El; reflexivity).
  rewrite Hh. unfold node_insert, getnode. rewrite (get_ok _ _ _ Hx). cbn [rbind].
  assert (Hfu : length l <= fuel_of h) by (unfold fuel_of; lia).
  destruct (nth_id_some l (length l - 1)) as (tl & Etl & Etli); [lia|].
  assert (GPf : forall p, gnode_pos (fuel_of h) h (Some (tid tf)) p = _) by
    (intros p; rewrite <- H0; exact (gnode_pos_spec h par l 0 p (fuel_of h) R Hn Hfu)).
  assert (GPl : forall p, gnode_pos (fuel_of h) h (Some (tid tl)) p = _) by
    (intros p; rewrite <- Etli; apply (gnode_pos_spec h par l (length l - 1) p (fuel_of h) R); lia).
  assert (GP1 : gnode_pos (fuel_of h) h (Some (tid tf)) 1%Z = ROk (Some (tid tf))).
  { rewrite GPf. change (ROk (nth_id l 0) = ROk (Some (tid tf))). rewrite H0. reflexivity. }
  assert (GP0 : gnode_pos (fuel_of h) h (Some (tid tf)) 0%Z = ROk (Some (tid tl))).
  { rewrite GPf. change (ROk (nth_id l (length l - 1)) = ROk (Some (tid tl))). rewrite Etli. reflexivity. }
  unfold gpos_index.
  destruct (Z.ltb_spec 0 pos) as [Hp|Hp].
  - (* pos > 0: start = first *)
    rewrite GP1. cbn [rbind].
    assert (Hz : (pos =? 0)%Z = false) by (apply Z.eqb_neq; lia). rewrite Hz. cbn [orb].
    destruct (Z.eqb_spec pos 1) as [->|Hp1].
    + cbn [rbind Z.ltb Z.compare].
      exists 0, false. split; [exact Hn|]. split; [|rewrite H0; reflexivity].
      cbn. destruct (length l); [lia|reflexivity].
    + rewrite GPf.
      assert (Hn0 : (pos <? 0)%Z = false) by (apply Z.ltb_ge; lia).
      assert (Hp0 : (0 <? pos)%Z = true) by (apply Z.ltb_lt; lia).
      rewrite Hn0, Hp0. cbn [rbind Nat.add].
      destruct (Nat.leb_spec (Z.to_nat pos) (length l)) as [Hin|Hout].
      * destruct (nth_id_some l (Z.to_nat pos - 1)) as (t & Et & Eti); [lia|].
        rewrite Eti. cbn [rbind].
        assert (H1 : (pos <? 1)%Z = false) by (apply Z.ltb_ge; lia). rewrite H1.
        exists (Z.to_nat pos - 1), false. split; [lia|]. split; [reflexivity|]. rewrite Eti. reflexivity.
      * rewrite nth_id_none by lia. cbn [rbind].
        rewrite GP0. cbn [rbind].
        assert (H1 : (- pos <? 1)%Z = true) by (apply Z.ltb_lt; lia). rewrite H1.
        exists (length l - 1), true. split; [lia|]. split; [lia|]. rewrite Etli. reflexivity.
  - (* pos <= 0: start = last *)
    rewrite GP0. cbn [rbind].
    destruct (Z.eqb_spec pos 0) as [->|Hp0].
    + cbn [orb rbind Z.ltb Z.compare].
      exists (length l - 1), true. split; [lia|]. split; [cbn; lia|]. rewrite Etli. reflexivity.
    + assert (Hp1 : (pos =? 1)%Z = false) by (apply Z.eqb_neq; lia). rewrite Hp1. cbn [orb].
      rewrite GPl.
      assert (Hn0 : (pos <? 0)%Z = true) by (apply Z.ltb_lt; lia). rewrite Hn0. cbn [rbind].
      destruct (Nat.leb_spec (Z.to_nat (- pos)) (length l - 1)) as [Hin|Hout].
      * destruct (nth_id_some l (length l - 1 - Z.to_nat (- pos))) as (t & Et & Eti); [lia|].
        rewrite Eti. cbn [rbind].
        assert (H1 : (pos <? 1)%Z = true) by (apply Z.ltb_lt; lia). rewrite H1.
        exists (length l - 1 - Z.to_nat (- pos)), true. split; [lia|]. split.
        -- destruct (Nat.ltb_spec (Z.to_nat (- pos)) (length l)); lia.
        -- rewrite Eti. reflexivity.
      * cbn [rbind]. rewrite GP1. cbn [rbind].
        assert (H1 : (- pos <? 1)%Z = false) by (apply Z.ltb_ge; lia). rewrite H1.
        exists 0, false. split; [lia|]. split; [|rewrite H0; reflexivity].
        destruct (Nat.ltb_spec (Z.to_nat (- pos)) (length l)); lia.
Qed.

(* ---------------------------------------------------------------- node_locate.c on lists *)
(* k-th element named [nm] from the front of [l] (k <= 1: the first); [idx] = index of the head *)
Fixpoint fwd (l : forest) (nm k idx : nat) : option nat :=
  match l with
  | [] => None
  | t :: r =>
    if (tname t =? nm) && (k <=? 1) then Some idx
    else fwd r nm (if tname t =? nm then k - 1 else k) (S idx)
  end.

(* the same walking backwards over the reversed prefix; [idx] = index of its head *)
Fixpoint back (rl : forest) (nm k idx : nat) : option nat :=
  match rl with
  | [] => None
  | t :: r =>
    if tname t =? nm
    then (if k <=? 1 then Some idx else back r nm (k - 1) (idx - 1))
    else back r nm k (idx - 1)
  end.

Definition idx_id (l : forest) (o : option nat) : ptr :=
  match o with Some i => nth_id l i | None => None end.

Lemma loc_fwd_spec h par prv l nm :
  rep_l (cells h) par prv l None ->
  forall fuel j t k, nth_error l j = Some t -> length l - j <= fuel ->
  loc_fwd fuel h (tid t) k nm = ROk (idx_id l (fwd (skipn j l) nm k j)).
Proof.
  intros R fuel. induction fuel as [|fuel IH]; intros j t k E Hf.
  - assert (j < length l) by (apply nth_error_Some; congruence). lia.
  - assert (Hj : j < length l) by (apply nth_error_Some; congruence).
    cbn [loc_fwd]. rewrite (get_ok _ _ _ (cell_at _ _ _ _ _ _ _ R E)). cbn [rbind nname nnext].
    destruct (nth_error_split l j E) as (a & b & El & La).
    assert (Sk : skipn j l = t :: b).
    { rewrite El. rewrite skipn_app, La, Nat.sub_diag. rewrite <- La, skipn_all. reflexivity. }
    rewrite Sk. cbn [fwd].
    destruct ((tname t =? nm) && (k <=? 1)).
    + cbn [idx_id]. unfold nth_id. rewrite E. reflexivity.
    + assert (Sk' : skipn (S j) l = b).
      { rewrite El. rewrite skipn_app. replace (S j - length a) with 1 by lia.
        rewrite skipn_all2 by lia. reflexivity. }
      destruct (nth_error l (S j)) as [t'|] eqn:E'.
      * unfold nth_id at 1. rewrite E'. cbn [option_map].
        rewrite (IH (S j) t' _ E') by lia. rewrite Sk'. reflexivity.
      * unfold nth_id at 1. rewrite E'. cbn [option_map].
        apply nth_error_None in E'. assert (b = []).
        { destruct b; [reflexivity|]. rewrite El, app_length in E'. cbn [length] in E'. lia. }
        rewrite H. reflexivity.
Qed.

Lemma loc_back_spec h par l aft nm :
  rep_l (cells h) par None l aft ->
  forall fuel j t k, nth_error l j = Some t -> j < fuel ->
  loc_back fuel h (tid t) k nm = ROk (idx_id l (back (rev (firstn j l)) nm k (j - 1))).
Proof.
  intros R fuel. induction fuel as [|fuel IH]; intros j t k E Hf; [lia|].
  cbn [loc_back]. rewrite (get_ok _ _ _ (cell_at _ _ _ _ _ _ _ R E)). cbn [rbind nprev].
  destruct j as [|j].
  - reflexivity.
  - assert (Hj : j < length l) by (assert (S j < length l) by (apply nth_error_Some; congruence); lia).
    destruct (nth_id_some l j Hj) as (t' & E' & Ei'). rewrite Ei'.
    rewrite (get_ok _ _ _ (cell_at _ _ _ _ _ _ _ R E')). cbn [rbind nname].
    assert (Fs : firstn (S j) l = firstn j l ++ [t']).
    { clear - E'. revert j E'. induction l as [|a l IHl]; intros j E'; [destruct j; discriminate|].
      destruct j; cbn in *; [inversion E'; reflexivity|]. f_equal. apply IHl. exact E'. }
    rewrite Fs, rev_app_distr. cbn [rev app back]. replace (S j - 1) with j by lia.
    destruct (tname t' =? nm).
    + destruct (k <=? 1); [cbn [idx_id]; rewrite Ei'; reflexivity|]. apply IH; [exact E'|lia].
    + apply IH; [exact E'|lia].
Qed.
