(* C07/ConvFloatThm.v — what a caller of mpt_data_convert_float32/float64/exflt gets
   ([fconv], ConvFloat.v), in terms of IEEE rounding of the real value of the source
   (ConvFlocq.v): float -> float is correctly rounded or refused, refused exactly on
   overflow; exact whenever the source value is a number of the target format (in
   particular every widening); float -> integer is never offered. *)
From Coq Require Import Reals Lra.
From Flocq Require Import Core.
From MptV Require Import Base.Mem C07.ConvModel C07.ConvFloat C07.ConvRound C07.ConvFlocq C07.ConvBits.
Local Open Scope Z_scope.

(* ---- what [fdecode] can produce: a number of the source format ---- *)
Lemma fdecode_fin src bits neg m e : fdecode src bits = FFin neg m e ->
  0 <= m < 2 ^ fprec src /\ f_elsb src <= e <= f_emax src - fprec src + 1.
Proof.
  unfold fdecode.
  pose proof (Z.mod_pos_bound (Z.shiftr bits 23) 256 ltac:(lia)) as E1.
  pose proof (Z.mod_pos_bound bits 8388608 ltac:(lia)) as M1.
  pose proof (Z.mod_pos_bound (Z.shiftr bits 52) 2048 ltac:(lia)) as E2.
  pose proof (Z.mod_pos_bound bits 4503599627370496 ltac:(lia)) as M2.
  pose proof (Z.mod_pos_bound (Z.shiftr bits 64) 32768 ltac:(lia)) as E3.
  pose proof (Z.mod_pos_bound bits 18446744073709551616 ltac:(lia)) as M3.
  set (Ea := Z.shiftr bits 23 mod 256) in *. set (Ma := bits mod 8388608) in *.
  set (Eb := Z.shiftr bits 52 mod 2048) in *. set (Mb := bits mod 4503599627370496) in *.
  set (Ec := Z.shiftr bits 64 mod 32768) in *. set (Mc := bits mod 18446744073709551616) in *.
  clearbody Ea Ma Eb Mb Ec Mc.
  destruct src; cbv zeta;
    repeat match goal with |- context [Z.odd ?z] => generalize (Z.odd z); intro end;
    intros H.
  all: try (destruct (Z.eqb_spec Ec 32767) as [Q|Q];
            [destruct (Mc =? 9223372036854775808); discriminate H|];
            destruct (Z.eqb_spec Ec 0) as [Q0|Q0]; inversion H; subst; cbn [fprec f_elsb f_emax];
            change (2 ^ 64) with 18446744073709551616; lia).
  - destruct (Z.eqb_spec Ea 255) as [Q|Q]; [destruct (Ma =? 0); discriminate H|].
    destruct (Z.eqb_spec Ea 0) as [Q0|Q0]; inversion H; subst; cbn [fprec f_elsb f_emax];
      change (2 ^ 24) with 16777216; lia.
  - destruct (Z.eqb_spec Eb 2047) as [Q|Q]; [destruct (Mb =? 0); discriminate H|].
    destruct (Z.eqb_spec Eb 0) as [Q0|Q0]; inversion H; subst; cbn [fprec f_elsb f_emax];
      change (2 ^ 53) with 9007199254740992; lia.
Qed.

(* ---- target type codes ---- *)
Lemma flt_target t tc : tgt_cty t = Some tc -> is_flt tc = true ->
  (t = Tf /\ tc = CF32) \/ (t = Td /\ tc = CF64) \/ (t = Te /\ tc = CF80).
Proof. destruct t; cbn; intros H F; inversion H; subst; cbn in F; try discriminate F; auto. Qed.

Definition accepted_as (tc : cty) (hd : bool) (r : fval) : fobs :=
  if hd then FOk tc (fencode tc r) (cwidth tc) else FQuery (cwidth tc).

(* the pairs for which data_convert_float.c has no overflow test are the widening ones *)
Definition widens (src tc : cty) : Prop :=
  fprec src <= fprec tc /\ f_elsb tc <= f_elsb src /\ f_emax src - fprec src <= f_emax tc - fprec tc.

Lemma fconv_target src bits t tc hd : is_flt src = true -> tgt_cty t = Some tc -> is_flt tc = true ->
  let v := fdecode src bits in
  let r := fround tc v in
  (fconv src bits t hd = accepted_as tc hd r \/
   (fconv src bits t hd = FRefused BadValue /\ is_inf r = true /\ is_inf v = false)) /\
  (is_inf r = true -> is_inf v = false -> widens src tc \/ fconv src bits t hd = FRefused BadValue).
Proof.
  intros S T F v r.
  destruct (flt_target t tc T F) as [[-> ->]|[[-> ->]|[-> ->]]];
    destruct src; try discriminate S; unfold fconv, accepted_as; fold v; fold r; cbn [cty_eqb negb andb];
    unfold widens; cbn [fprec f_elsb f_emax];
    try (split; [left; reflexivity|intros; left; lia]);
    destruct (is_inf r) eqn:IR; destruct (is_inf v) eqn:IV; cbn [andb negb];
    (split; [auto|intros; auto; try discriminate]).
Qed.

(* ------------------------------------------------------------------ float -> float *)
(* Finite source with real value x, y = x rounded to nearest-even onto the target format:
     |y| > largest finite target value  ->  refused (BadValue)
     otherwise                          ->  accepted, the destination gets a finite value equal to y.
   Infinities and NaN are passed on as they are. *)
Theorem fconv_rounds_or_refuses src bits t tc hd :
  is_flt src = true -> tgt_cty t = Some tc -> is_flt tc = true ->
  match fdecode src bits with
  | FFin neg m e =>
    let y := rne_to tc (dyR neg m e) in
    ((fmaxR tc < Rabs y)%R -> fconv src bits t hd = FRefused BadValue) /\
    ((Rabs y <= fmaxR tc)%R -> exists m' e', 0 <= m' /\ dyR neg m' e' = y /\
        fconv src bits t hd = accepted_as tc hd (FFin neg m' e'))
  | v => fconv src bits t hd = accepted_as tc hd v
  end.
Proof.
  intros S T F.
  destruct (fconv_target src bits t tc hd S T F) as [A W].
  destruct (fdecode src bits) as [|sg|neg m e] eqn:D.
  - cbn [fround is_inf] in A. destruct A as [A|(_ & A & _)]; [exact A|discriminate A].
  - cbn [fround is_inf] in A. destruct A as [A|(_ & _ & A)]; [exact A|discriminate A].
  - pose proof (fdecode_fin src bits neg m e D) as (M & E).
    destruct (fround_is_rne tc neg m e ltac:(lia)) as [LE GT]. cbv zeta in LE, GT.
    set (y := rne_to tc (dyR neg m e)) in *. cbv zeta.
    split.
    + intros H. specialize (GT H).
      destruct (W ltac:(rewrite GT; reflexivity) eq_refl) as [(Wp & We & Wm)|R]; [|exact R].
      (* a widening conversion cannot overflow: the source is a finite number of the target *)
      exfalso.
      assert (Y : y = dyR neg m e).
      { unfold y. apply rne_exact; [|lia]. split; [lia|].
        assert (2 ^ fprec src <= 2 ^ fprec tc) by (apply Z.pow_le_mono_r; lia). lia. }
      assert (B : (Rabs (dyR neg m e) <= fmaxR tc)%R).
      { destruct (Z.le_gt_cases e (f_emax tc - fprec tc + 1)) as [C|C].
        - apply below_max; [|exact C]. assert (2 ^ fprec src <= 2 ^ fprec tc) by (apply Z.pow_le_mono_r; lia). lia.
        - (* move the surplus exponent into the significand *)
          set (d := e - (f_emax tc - fprec tc + 1)).
          assert (dyR neg m e = dyR neg (m * 2 ^ d) (f_emax tc - fprec tc + 1)) as ->.
          { unfold dyR. destruct neg; cbn [cond_Zopp].
            - rewrite <- Z.mul_opp_l. apply (F2R_change_exp radix2). lia.
            - apply (F2R_change_exp radix2). lia. }
          apply below_max; [|lia].
          assert (0 < 2 ^ d) by (apply pow2_pos; unfold d; lia).
          split; [nia|].
          assert (2 ^ fprec src * 2 ^ d <= 2 ^ fprec tc).
          { rewrite <- Z.pow_add_r by (pose proof (fprec_pos src); unfold d; lia).
            apply Z.pow_le_mono_r; unfold d; lia. }
          nia. }
      rewrite Y in H. lra.
    + intros H. destruct (LE H) as (m' & e' & R & M' & V).
      exists m', e'. split; [exact M'|]. split; [exact V|].
      rewrite R in A. destruct A as [A|(_ & A & _)]; [exact A|discriminate A].
Qed.

(* exact whenever the source value is a finite number of the target format *)
Theorem fconv_exact_when_representable src bits t tc hd neg m e :
  is_flt src = true -> tgt_cty t = Some tc -> is_flt tc = true ->
  fdecode src bits = FFin neg m e ->
  (exists n f, 0 <= n < 2 ^ fprec tc /\ f_elsb tc <= f <= f_emax tc - fprec tc + 1 /\ dyR neg n f = dyR neg m e) ->
  exists m' e', 0 <= m' /\ dyR neg m' e' = dyR neg m e /\
    fconv src bits t hd = accepted_as tc hd (FFin neg m' e').
Proof.
  intros S T F D (n & f & N & E & V).
  pose proof (fconv_rounds_or_refuses src bits t tc hd S T F) as H. rewrite D in H. cbv zeta in H.
  destruct H as [_ H].
  assert (Y : rne_to tc (dyR neg m e) = dyR neg m e).
  { rewrite <- V. apply rne_exact; lia. }
  rewrite Y in H. apply H. rewrite <- V. apply below_max; lia.
Qed.

(* every widening conversion (float -> float/double/long double, double -> double/long
   double, long double -> long double) is accepted and exact *)
Theorem fconv_widening_exact src bits t tc hd neg m e :
  is_flt src = true -> tgt_cty t = Some tc -> is_flt tc = true -> fprec src <= fprec tc ->
  fdecode src bits = FFin neg m e ->
  exists m' e', 0 <= m' /\ dyR neg m' e' = dyR neg m e /\
    fconv src bits t hd = accepted_as tc hd (FFin neg m' e').
Proof.
  intros S T F P D.
  pose proof (fdecode_fin src bits neg m e D) as (M & E).
  assert (W : f_elsb tc <= f_elsb src /\ f_emax src - fprec src <= f_emax tc - fprec tc).
  { destruct src; try discriminate S; destruct tc; try discriminate F; cbn in *; lia. }
  apply (fconv_exact_when_representable src bits t tc hd neg m e S T F D).
  assert (PW : 2 ^ fprec src <= 2 ^ fprec tc) by (apply Z.pow_le_mono_r; pose proof (fprec_pos src); lia).
  destruct (Z.le_gt_cases e (f_emax tc - fprec tc + 1)) as [C|C].
  - exists m, e. split; [lia|]. split; [lia|reflexivity].
  - set (d := e - (f_emax tc - fprec tc + 1)).
    exists (m * 2 ^ d), (f_emax tc - fprec tc + 1).
    assert (0 < 2 ^ d) by (apply pow2_pos; unfold d; lia).
    assert (2 ^ fprec src * 2 ^ d <= 2 ^ fprec tc).
    { rewrite <- Z.pow_add_r by (pose proof (fprec_pos src); unfold d; lia).
      apply Z.pow_le_mono_r; unfold d; lia. }
    split; [nia|]. split; [pose proof (fprec_pos tc); lia|].
    symmetry. unfold dyR. destruct neg; cbn [cond_Zopp].
    + rewrite <- Z.mul_opp_l. apply (F2R_change_exp radix2). lia.
    + apply (F2R_change_exp radix2). lia.
Qed.

(* ------------------------------------------------------------------ float -> integer *)
(* not offered: every integer, char or long target is refused with BadType, whatever the
   value — there is no truncation toward zero, hence none that could go wrong *)
Theorem fconv_no_integer_target src bits t tc hd :
  tgt_cty t = Some tc -> is_flt tc = false -> fconv src bits t hd = FRefused BadType.
Proof. destruct t; cbn; intros H F; inversion H; subst; try discriminate F; reflexivity. Qed.

(* and no float source makes the converter fault or answer anything but the four cases *)
Theorem fconv_never_faults src bits t hd : fconv src bits t hd <> FFault.
Proof.
  unfold fconv. destruct t; try discriminate;
    repeat match goal with |- context [if ?b then _ else _] => destruct b end; discriminate.
Qed.

(* ------------------------------------------------------------------ the bytes in the destination *)
Lemma cond_Zopp_mul neg m k : cond_Zopp neg m * k = cond_Zopp neg (m * k).
Proof. destruct neg; cbn; ring. Qed.

Lemma same_dyadic_R neg m2 e2 m e : same_dyadic m2 e2 m e -> dyR neg m2 e2 = dyR neg m e.
Proof.
  unfold same_dyadic, dyR. intros H. set (g := Z.min e e2) in *.
  rewrite (F2R_change_exp radix2 g _ e2) by (unfold g; lia).
  rewrite (F2R_change_exp radix2 g _ e) by (unfold g; lia).
  change (radix_val radix2) with 2. rewrite !cond_Zopp_mul, H. reflexivity.
Qed.

Lemma finf_roundtrip c neg : is_flt c = true ->
  exists b, fencode c (FInf neg) = Some b /\ fdecode c b = FInf neg.
Proof. destruct c; try discriminate; intros _; destruct neg; eexists; split; reflexivity. Qed.

(* An accepted conversion with destination: the bit pattern b written to the destination,
   decoded as the TARGET type, is a finite number equal to the correctly rounded source
   (which does not exceed the largest finite target value), or the source's infinity;
   a NaN source gives a NaN ([None]: payloads are not modelled).  The reported size is the
   target's. *)
Theorem fconv_destination src bits t tc c' ob ret :
  is_flt src = true -> tgt_cty t = Some tc -> is_flt tc = true ->
  fconv src bits t true = FOk c' ob ret ->
  c' = tc /\ ret = cwidth tc /\
  match fdecode src bits with
  | FFin neg m e =>
    let y := rne_to tc (dyR neg m e) in
    (Rabs y <= fmaxR tc)%R /\
    exists b m2 e2, ob = Some b /\ fdecode tc b = FFin neg m2 e2 /\ dyR neg m2 e2 = y
  | FInf sg => exists b, ob = Some b /\ fdecode tc b = FInf sg
  | FNaN => ob = None
  end.
Proof.
  intros S T F OK.
  destruct (fconv_target src bits t tc true S T F) as [A _].
  pose proof (fconv_rounds_or_refuses src bits t tc true S T F) as RR.
  destruct (fdecode src bits) as [|sg|neg m e] eqn:D.
  - rewrite RR in OK. unfold accepted_as in OK. inversion OK; subst. auto.
  - rewrite RR in OK. unfold accepted_as in OK. inversion OK; subst.
    split; [reflexivity|]. split; [reflexivity|]. apply finf_roundtrip, F.
  - pose proof (fdecode_fin src bits neg m e D) as (M & E).
    cbv zeta in RR. destruct RR as [GT LE]. cbv zeta.
    set (y := rne_to tc (dyR neg m e)) in *.
    destruct (Rle_or_lt (Rabs y) (fmaxR tc)) as [B|B]; [|rewrite (GT B) in OK; discriminate OK].
    destruct (fround_is_rne tc neg m e ltac:(lia)) as [FR _]. cbv zeta in FR. fold y in FR.
    destruct (FR B) as (m' & e' & R & M' & V).
    destruct A as [A|(_ & A & _)]; [|rewrite R in A; discriminate A].
    rewrite A, R in OK. unfold accepted_as in OK. inversion OK; subst c' ob ret.
    split; [reflexivity|]. split; [reflexivity|]. split; [exact B|].
    destruct (fround_fin_range tc neg m e neg m' e' ltac:(lia) R) as (_ & MB & EB & LB).
    destruct (fdecode_fencode tc neg m' e' F MB EB LB) as (b & m2 & e2 & EN & DE & _ & SD).
    exists b, m2, e2. split; [exact EN|]. split; [exact DE|].
    rewrite (same_dyadic_R neg m2 e2 m' e' SD). exact V.
Qed.
