(* C07/ConvFloatProofs.v — integer -> floating type: [round_int p] (the model of the FPU's
   integer conversion, compared bit by bit with the hardware in every run) yields the source
   itself when it has at most p significant bits, otherwise a p-bit neighbour within half a
   unit in the last place, ties to even; and the magnitude never exceeds the next power of
   two, so no 64 bit integer becomes infinite in binary32/binary64/x87-extended. *)
From MptV Require Import Base.Mem C07.ConvModel C07.ConvSpec.
Local Open Scope Z_scope.

(* v = m * 2^e with |m| < 2^p: v has at most p significant bits *)
Definition pbits (p v : Z) : Prop := exists m e, 0 <= e /\ Z.abs m < 2 ^ p /\ v = m * 2 ^ e.

Lemma round_int_cases p v : 0 < p ->
  let a := Z.abs v in let k := Z.log2 a + 1 - p in
  (k <= 0 /\ round_int p v = v /\ a < 2 ^ p) \/
  (0 < k /\ exists q r0 q', a = q * 2 ^ k + r0 /\ 0 <= r0 < 2 ^ k /\ 2 ^ (p - 1) <= q < 2 ^ p /\
      (q' = q \/ q' = q + 1) /\ round_int p v = Z.sgn v * (q' * 2 ^ k) /\
      (q' = q + 1 -> 2 ^ (k - 1) <= r0) /\ (q' = q -> r0 <= 2 ^ (k - 1)) /\
      (r0 = 2 ^ (k - 1) -> Z.even q' = true)).
Proof.
  intros P a k. unfold round_int. fold a. fold k.
  destruct (Z.leb_spec k 0) as [K|K].
  - left. split; [exact K|]. split; [reflexivity|].
    destruct (Z.eq_dec a 0) as [->|NZ]; [apply Z.pow_pos_nonneg; lia|].
    assert (A : 0 < a) by (unfold a in *; lia).
    destruct (Z.log2_spec a A) as [_ U].
    eapply Z.lt_le_trans; [exact U|]. apply Z.pow_le_mono_r; lia.
  - right. split; [exact K|].
    assert (A : 0 < a).
    { destruct (Z.eq_dec a 0) as [E|NZ]; [|unfold a in *; lia]. unfold k in K. rewrite E in K. change (Z.log2 0) with 0 in K. lia. }
    destruct (Z.log2_spec a A) as [Lo Up].
    set (L := Z.log2 a) in *.
    assert (PK : 0 < 2 ^ k) by (apply Z.pow_pos_nonneg; lia).
    assert (E1 : 2 ^ L = 2 ^ (p - 1) * 2 ^ k) by (rewrite <- Z.pow_add_r by lia; f_equal; unfold k; lia).
    assert (E2 : 2 ^ Z.succ L = 2 ^ p * 2 ^ k) by (rewrite <- Z.pow_add_r by lia; f_equal; unfold k; lia).
    assert (E3 : 2 ^ k = 2 * 2 ^ (k - 1)) by (rewrite <- Z.pow_succ_r by lia; f_equal; lia).
    pose proof (Z.div_mod a (2 ^ k) ltac:(lia)) as DM.
    pose proof (Z.mod_pos_bound a (2 ^ k) PK) as MB.
    set (q := a / 2 ^ k) in *. set (r0 := a mod 2 ^ k) in *.
    assert (Q1 : 2 ^ (p - 1) <= q) by (apply Z.div_le_lower_bound; lia).
    assert (Q2 : q < 2 ^ p) by (apply Z.div_lt_upper_bound; lia).
    exists q, r0.
    destruct ((2 ^ (k - 1) <? r0) || ((2 ^ (k - 1) =? r0) && Z.odd q)) eqn:UP.
    + assert (HU : 2 ^ (k - 1) <= r0 /\ (r0 = 2 ^ (k - 1) -> Z.odd q = true)).
      { apply orb_true_iff in UP as [U|U]; [apply Z.ltb_lt in U; split; lia|].
        apply andb_true_iff in U as [U1 U2]. apply Z.eqb_eq in U1. split; [lia|intros _; exact U2]. }
      destruct HU as [HU1 HU2].
      exists (q + 1).
      split; [lia|]. split; [lia|]. split; [lia|]. split; [right; reflexivity|]. split; [reflexivity|].
      split; [intros _; exact HU1|]. split; [intros; lia|].
      intros T. replace (q + 1) with (Z.succ q) by lia. rewrite Z.even_succ. apply HU2. exact T.
    + apply orb_false_iff in UP as [U1 U2]. apply Z.ltb_ge in U1.
      exists q.
      split; [lia|]. split; [lia|]. split; [lia|]. split; [left; reflexivity|]. split; [reflexivity|].
      split; [intros; lia|]. split; [intros _; exact U1|].
      intros T. apply andb_false_iff in U2 as [U|U]; [apply Z.eqb_neq in U; lia|].
      rewrite <- Z.negb_odd, U. reflexivity.
Qed.

Lemma sgn_abs x : Z.sgn x * Z.abs x = x.
Proof. destruct x; cbn; lia. Qed.

(* exact when the source has at most p significant bits *)
Lemma round_int_exact p v : 0 < p -> pbits p v -> round_int p v = v.
Proof.
  intros P (m & e & E0 & M & ->).
  destruct (round_int_cases p (m * 2 ^ e) P) as [(_ & R & _)|(K & q & r0 & q' & A & R0 & Q & QQ & R & UP & DN & EV)]; [exact R|].
  set (a := Z.abs (m * 2 ^ e)) in *. set (k := Z.log2 a + 1 - p) in *.
  assert (PE : 0 < 2 ^ e) by (apply Z.pow_pos_nonneg; lia).
  assert (AE : a = Z.abs m * 2 ^ e) by (unfold a; rewrite Z.abs_mul, (Z.abs_eq (2 ^ e)); lia).
  assert (A0 : 0 < a).
  { destruct (Z.eq_dec a 0) as [Z0|]; [|unfold a in *; lia]. unfold k in K. rewrite Z0 in K. change (Z.log2 0) with 0 in K. lia. }
  (* a < 2^(p+e), hence log2 a < p + e and k <= e: the dropped bits are all zero *)
  assert (LT : a < 2 ^ (p + e)) by (rewrite Z.pow_add_r by lia; rewrite AE; apply Z.mul_lt_mono_pos_r; lia).
  assert (LG : Z.log2 a < p + e) by (apply Z.log2_lt_pow2; lia).
  assert (KE : k <= e) by (unfold k; lia).
  assert (E2 : 2 ^ e = 2 ^ (e - k) * 2 ^ k) by (rewrite <- Z.pow_add_r by lia; f_equal; lia).
  assert (PK : 0 < 2 ^ k) by (apply Z.pow_pos_nonneg; lia).
  assert (PH : 0 < 2 ^ (k - 1)) by (apply Z.pow_pos_nonneg; lia).
  assert (R00 : r0 = 0).
  { assert (a = (Z.abs m * 2 ^ (e - k)) * 2 ^ k + 0) as D by (rewrite AE, E2; ring).
    pose proof (Z.div_mod_unique (2 ^ k) q (Z.abs m * 2 ^ (e - k)) r0 0 ltac:(lia) ltac:(lia)) as U.
    destruct U as [U1 U2]; [rewrite (Z.mul_comm (2 ^ k)), (Z.mul_comm (2 ^ k)); lia|]. assumption. }
  subst r0.
  destruct QQ as [->| ->]; [|specialize (UP eq_refl); lia].
  rewrite R. rewrite Z.add_0_r in A. rewrite <- A. apply sgn_abs.
Qed.

(* in general: a p-bit value (possibly the next power of two) within half an ulp, ties to even *)
Lemma round_int_near p v : 0 < p ->
  exists m e, 0 <= e /\ Z.abs m <= 2 ^ p /\ round_int p v = m * 2 ^ e /\
    2 * Z.abs (round_int p v - v) <= 2 ^ e /\
    (round_int p v <> v -> 2 * Z.abs (round_int p v - v) = 2 ^ e -> Z.even m = true).
Proof.
  intros P.
  destruct (round_int_cases p v P) as [(_ & R & B)|(K & q & r0 & q' & A & R0 & Q & QQ & R & UP & DN & EV)].
  - exists v, 0. rewrite R. split; [lia|]. split; [lia|]. split; [ring|].
    split; [rewrite Z.sub_diag; cbn; lia|]. intros N. congruence.
  - set (a := Z.abs v) in *. set (k := Z.log2 a + 1 - p) in *.
    assert (PK : 0 < 2 ^ k) by (apply Z.pow_pos_nonneg; lia).
    assert (E3 : 2 ^ k = 2 * 2 ^ (k - 1)) by (rewrite <- Z.pow_succ_r by lia; f_equal; lia).
    assert (PP : 0 < 2 ^ (p - 1)) by (apply Z.pow_pos_nonneg; lia).
    exists (Z.sgn v * q'), k.
    assert (A0 : 0 < Z.abs v) by (assert (0 < q * 2 ^ k) by (apply Z.mul_pos_pos; lia); unfold a in *; lia).
    assert (SV : Z.sgn v = 1 \/ Z.sgn v = -1) by (clear - A0; destruct v; cbn in *; lia).
    assert (D : round_int p v - v = Z.sgn v * (q' * 2 ^ k - a)).
    { rewrite R. rewrite <- (sgn_abs v) at 2. fold a. ring. }
    assert (AD : Z.abs (round_int p v - v) = Z.abs (q' * 2 ^ k - a)).
    { rewrite D, Z.abs_mul. destruct SV as [-> | ->]; [change (Z.abs 1) with 1|change (Z.abs (-1)) with 1]; apply Z.mul_1_l. }
    split; [lia|]. split.
    { rewrite Z.abs_mul. destruct SV as [-> | ->]; [change (Z.abs 1) with 1|change (Z.abs (-1)) with 1]; rewrite Z.mul_1_l; destruct QQ as [-> | ->]; lia. }
    split; [rewrite R; ring|].
    rewrite AD. split.
    + destruct QQ as [-> | ->]; [specialize (DN eq_refl)|specialize (UP eq_refl)]; lia.
    + intros _ T.
      assert (r0 = 2 ^ (k - 1)) by (destruct QQ as [-> | ->]; lia).
      rewrite Z.even_mul. rewrite (EV H). apply orb_true_r.
Qed.

(* the magnitude at most doubles ... *)
Lemma round_int_bound p v n : 0 < p -> 0 <= n -> Z.abs v <= 2 ^ n -> Z.abs (round_int p v) <= 2 ^ n.
Proof.
  intros P N B.
  destruct (round_int_cases p v P) as [(_ & R & _)|(K & q & r0 & q' & A & R0 & Q & QQ & R & UP & DN & EV)].
  - rewrite R. exact B.
  - set (a := Z.abs v) in *. set (k := Z.log2 a + 1 - p) in *.
    assert (PK : 0 < 2 ^ k) by (apply Z.pow_pos_nonneg; lia).
    assert (PP : 0 < 2 ^ (p - 1)) by (apply Z.pow_pos_nonneg; lia).
    assert (A0' : 0 < Z.abs v) by (assert (0 < q * 2 ^ k) by (apply Z.mul_pos_pos; lia); unfold a in *; lia).
    assert (SV : Z.abs (Z.sgn v) = 1) by (clear - A0'; destruct v; cbn in *; lia).
    assert (0 <= q' * 2 ^ k) by (apply Z.mul_nonneg_nonneg; lia).
    rewrite R, Z.abs_mul, SV, Z.mul_1_l, Z.abs_eq by assumption.
    (* q' * 2^k <= 2^p * 2^k = 2^(log2 a + 1) <= 2^n when a < 2^n; a = 2^n is representable *)
    assert (A0 : 0 < a) by exact A0'.
    destruct (Z.eq_dec a (2 ^ n)) as [E|NE].
    + (* a power of two: nothing is dropped *)
      assert (L : Z.log2 a = n) by (rewrite E; apply Z.log2_pow2; lia).
      assert (KN : k <= n) by (unfold k; lia).
      assert (E2 : 2 ^ n = 2 ^ (n - k) * 2 ^ k) by (rewrite <- Z.pow_add_r by lia; f_equal; lia).
      assert (r0 = 0).
      { pose proof (Z.div_mod_unique (2 ^ k) q (2 ^ (n - k)) r0 0 ltac:(lia) ltac:(lia)) as U.
        destruct U as [U1 U2]; [rewrite (Z.mul_comm (2 ^ k)), (Z.mul_comm (2 ^ k)); lia|]. assumption. }
      assert (0 < 2 ^ (k - 1)) by (apply Z.pow_pos_nonneg; lia).
      destruct QQ as [-> | ->]; [lia|specialize (UP eq_refl); lia].
    + assert (LT : a < 2 ^ n) by (unfold a in *; lia).
      assert (LG : Z.log2 a < n) by (apply Z.log2_lt_pow2; lia).
      assert (E2 : 2 ^ n = 2 ^ (n - (k + p)) * (2 ^ p * 2 ^ k)).
      { rewrite <- !Z.pow_add_r by (unfold k; lia). f_equal. lia. }
      assert (0 < 2 ^ (n - (k + p))) by (apply Z.pow_pos_nonneg; unfold k; lia).
      assert (0 < 2 ^ p) by (apply Z.pow_pos_nonneg; lia).
      assert (q' * 2 ^ k <= 2 ^ p * 2 ^ k) by (apply Z.mul_le_mono_nonneg_r; lia).
      nia.
Qed.

(* ... so a 64 bit integer never becomes infinite (binary32 overflows at 2^128) *)
Lemma round_int_finite p v : 0 < p -> - 2 ^ 63 <= v < 2 ^ 64 -> Z.abs (round_int p v) <= 2 ^ 64.
Proof. intros P R. apply round_int_bound; [assumption|lia|lia]. Qed.
