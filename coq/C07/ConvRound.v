(* C07/ConvRound.v — Z-only facts about the dyadic rounding of ConvFloat.v ([rshift_rne],
   [fround]); no real numbers here.  The link to Flocq's [round] is in ConvFlocq.v. *)
From MptV Require Import Base.Mem C07.ConvModel C07.ConvFloat.
Local Open Scope Z_scope.

(* the quotient/remainder form of the tie-to-even shift *)
Definition rne_div (m k : Z) : Z :=
  let q := m / 2 ^ k in let r := m mod 2 ^ k in
  if (2 ^ (k - 1) <? r) || ((2 ^ (k - 1) =? r) && Z.odd q) then q + 1 else q.

Lemma pow2_pos n : 0 <= n -> 0 < 2 ^ n.
Proof. intros; apply Z.pow_pos_nonneg; lia. Qed.

Lemma pow2_split k : 0 < k -> 2 ^ k = 2 * 2 ^ (k - 1).
Proof. intros. rewrite <- Z.pow_succ_r by lia. f_equal. lia. Qed.

Lemma log2_lt_pow m : 0 <= m -> m < 2 ^ (Z.log2 m + 1).
Proof.
  intros M. destruct (Z.eq_dec m 0) as [->|NZ]; [reflexivity|].
  replace (Z.log2 m + 1) with (Z.succ (Z.log2 m)) by lia.
  apply Z.log2_spec. lia.
Qed.

Lemma log2_ge_pow m : 0 < m -> 2 ^ Z.log2 m <= m.
Proof. intros M. apply Z.log2_spec. exact M. Qed.

Lemma rshift_rne_spec m k : 0 <= m -> 0 < k -> rshift_rne m k = rne_div m k.
Proof.
  intros M K. unfold rshift_rne, rne_div.
  assert (PK : 0 < 2 ^ k) by (apply pow2_pos; lia).
  assert (PH : 0 < 2 ^ (k - 1)) by (apply pow2_pos; lia).
  pose proof (pow2_split k K) as E3.
  destruct (Z.leb_spec (Z.log2 m + 2) k) as [B|B].
  - pose proof (log2_lt_pow m M) as U.
    assert (LE : 2 ^ (Z.log2 m + 1) <= 2 ^ (k - 1)) by (apply Z.pow_le_mono_r; lia).
    rewrite Z.div_small, Z.mod_small by lia.
    destruct (Z.ltb_spec (2 ^ (k - 1)) m); [lia|].
    destruct (Z.eqb_spec (2 ^ (k - 1)) m); [lia|]. reflexivity.
  - rewrite Z.shiftr_div_pow2, Z.shiftl_mul_pow2, Z.shiftl_mul_pow2 by lia.
    rewrite Z.mul_1_l.
    replace (m - m / 2 ^ k * 2 ^ k) with (m mod 2 ^ k) by (rewrite Z.mod_eq by lia; ring).
    reflexivity.
Qed.

(* the result of the shift: quotient or its successor, within half a unit, ties to even *)
Lemma rne_div_cases m k : 0 <= m -> 0 < k ->
  exists q r q', m = q * 2 ^ k + r /\ 0 <= r < 2 ^ k /\ 0 <= q /\ rne_div m k = q' /\
    (q' = q \/ q' = q + 1) /\
    (q' = q + 1 -> 2 ^ (k - 1) <= r) /\ (q' = q -> r <= 2 ^ (k - 1)) /\
    (r = 2 ^ (k - 1) -> Z.even q' = true).
Proof.
  intros M K. unfold rne_div.
  assert (PK : 0 < 2 ^ k) by (apply pow2_pos; lia).
  pose proof (Z.div_mod m (2 ^ k) ltac:(lia)) as DM.
  pose proof (Z.mod_pos_bound m (2 ^ k) PK) as MB.
  assert (Q0 : 0 <= m / 2 ^ k) by (apply Z.div_pos; lia).
  set (q := m / 2 ^ k) in *. set (r := m mod 2 ^ k) in *.
  exists q, r.
  destruct ((2 ^ (k - 1) <? r) || ((2 ^ (k - 1) =? r) && Z.odd q)) eqn:UP.
  - assert (HU : 2 ^ (k - 1) <= r /\ (r = 2 ^ (k - 1) -> Z.odd q = true)).
    { apply orb_true_iff in UP as [U|U]; [apply Z.ltb_lt in U; split; lia|].
      apply andb_true_iff in U as [U1 U2]. apply Z.eqb_eq in U1. split; [lia|intros _; exact U2]. }
    destruct HU as [HU1 HU2].
    exists (q + 1). split; [lia|]. split; [lia|]. split; [lia|]. split; [reflexivity|].
    split; [right; reflexivity|]. split; [intros _; exact HU1|]. split; [intros; lia|].
    intros T. replace (q + 1) with (Z.succ q) by lia. rewrite Z.even_succ. apply HU2. exact T.
  - apply orb_false_iff in UP as [U1 U2]. apply Z.ltb_ge in U1.
    exists q. split; [lia|]. split; [lia|]. split; [lia|]. split; [reflexivity|].
    split; [left; reflexivity|]. split; [intros; lia|]. split; [intros _; exact U1|].
    intros T. apply andb_false_iff in U2 as [U|U]; [apply Z.eqb_neq in U; lia|].
    rewrite <- Z.negb_odd, U. reflexivity.
Qed.

(* ---- the exponent/significand pair [fround] works with ---- *)
Definition rexp (c : cty) (m e : Z) : Z := Z.max (Z.log2 m + e - (fprec c - 1)) (f_elsb c).
Definition rsig (c : cty) (m e : Z) : Z :=
  let e' := rexp c m e in
  if e' <=? e then Z.shiftl m (e - e') else rshift_rne m (e' - e).

Lemma fround_unfold c neg m e :
  fround c (FFin neg m e) =
    if m =? 0 then FFin neg 0 0
    else if rsig c m e =? 0 then FFin neg 0 0
    else if f_emax c <? Z.log2 (rsig c m e) + rexp c m e then FInf neg
    else FFin neg (rsig c m e) (rexp c m e).
Proof. reflexivity. Qed.

Lemma fprec_pos c : 0 < fprec c.
Proof. destruct c; reflexivity. Qed.

(* the significand has at most p bits, or is exactly 2^p (carry into the next binade) *)
Lemma rsig_bound c m e : 0 < m -> 0 <= rsig c m e <= 2 ^ fprec c.
Proof.
  intros M. unfold rsig. set (e' := rexp c m e). set (p := fprec c).
  assert (P : 0 < p) by apply fprec_pos.
  assert (E' : Z.log2 m + e - (p - 1) <= e') by (unfold e', rexp; fold p; lia).
  pose proof (log2_lt_pow m ltac:(lia)) as U.
  destruct (Z.leb_spec e' e) as [B|B].
  - rewrite Z.shiftl_mul_pow2 by lia.
    assert (0 < 2 ^ (e - e')) by (apply pow2_pos; lia).
    split; [nia|].
    assert (2 ^ (Z.log2 m + 1) * 2 ^ (e - e') <= 2 ^ p).
    { rewrite <- Z.pow_add_r by (pose proof (Z.log2_nonneg m); lia). apply Z.pow_le_mono_r; lia. }
    nia.
  - rewrite rshift_rne_spec by lia.
    destruct (rne_div_cases m (e' - e) ltac:(lia) ltac:(lia)) as (q & r & q' & A & R & Q0 & -> & QQ & _).
    split; [lia|].
    assert (PK : 0 < 2 ^ (e' - e)) by (apply pow2_pos; lia).
    assert (q < 2 ^ p).
    { assert (2 ^ (Z.log2 m + 1) <= 2 ^ p * 2 ^ (e' - e)).
      { rewrite <- Z.pow_add_r by lia. apply Z.pow_le_mono_r; lia. }
      nia. }
    lia.
Qed.

(* in the subnormal-free part the significand has exactly p bits *)
Lemma rsig_normal c m e : 0 < m -> f_elsb c < rexp c m e ->
  2 ^ (fprec c - 1) <= rsig c m e.
Proof.
  intros M N. unfold rsig. set (e' := rexp c m e) in *. set (p := fprec c).
  assert (P : 0 < p) by apply fprec_pos.
  assert (E' : e' = Z.log2 m + e - (p - 1)) by (unfold e', rexp in *; fold p in N |- *; lia).
  pose proof (log2_ge_pow m M) as LO.
  pose proof (Z.log2_nonneg m) as LN.
  destruct (Z.leb_spec e' e) as [B|B].
  - rewrite Z.shiftl_mul_pow2 by lia.
    assert (2 ^ Z.log2 m * 2 ^ (e - e') = 2 ^ (p - 1)) by (rewrite <- Z.pow_add_r by lia; f_equal; lia).
    assert (0 < 2 ^ (e - e')) by (apply pow2_pos; lia). nia.
  - rewrite rshift_rne_spec by lia.
    destruct (rne_div_cases m (e' - e) ltac:(lia) ltac:(lia)) as (q & r & q' & A & R & Q0 & -> & QQ & _).
    assert (PK : 0 < 2 ^ (e' - e)) by (apply pow2_pos; lia).
    assert (2 ^ Z.log2 m = 2 ^ (p - 1) * 2 ^ (e' - e)) by (rewrite <- Z.pow_add_r by lia; f_equal; lia).
    assert (2 ^ (p - 1) <= q) by nia.
    lia.
Qed.

(* ------------------------------------------------------------------ nearest, ties to even — without real numbers *)
(* m * 2^e in units of 2^g (g <= e), and the distance of two dyadics in those units *)
Definition dscale (m e g : Z) : Z := m * 2 ^ (e - g).
Definition ddist (m1 e1 m2 e2 g : Z) : Z := Z.abs (dscale m1 e1 g - dscale m2 e2 g).

Lemma dscale_shift m e k g : 0 <= k -> g <= e -> dscale m (e + k) g = m * 2 ^ k * 2 ^ (e - g).
Proof.
  intros K G. unfold dscale. replace (e + k - g) with (k + (e - g)) by lia.
  rewrite Z.pow_add_r by lia. ring.
Qed.

(* one-dimensional facts: x = (q T + r) U is rounded to y = q' T U with q' = q (r <= T/2) or
   q + 1 (r >= T/2) *)
Section OneDim.
Variables q r T h U q' : Z.
Hypothesis HU : 0 < U.
Hypothesis HR : 0 <= r < T.
Hypothesis HT : T = 2 * h.
Hypothesis HQ : (q' = q /\ r <= h) \/ (q' = q + 1 /\ h <= r).

Lemma od_facts : 0 <= r * U < T * U /\ T * U = 2 * (h * U) /\
  ((q' * T * U = q * T * U /\ r * U <= h * U) \/ (q' * T * U = q * T * U + T * U /\ h * U <= r * U)).
Proof.
  split; [nia|]. split; [rewrite HT; ring|].
  destruct HQ as [[-> L]|[-> L]]; [left|right]; split; try ring; nia.
Qed.

(* multiples N T U of the rounding unit *)
Lemma od_near_mult N : Z.abs (q' * T * U - (q * T + r) * U) <= Z.abs (N * T * U - (q * T + r) * U).
Proof.
  destruct od_facts as (R & TU & C).
  replace ((q * T + r) * U) with (q * T * U + r * U) by ring.
  destruct (Z.le_gt_cases N q) as [L|L].
  - assert (0 <= (q - N) * (T * U)) by nia.
    replace (N * T * U) with (q * T * U - (q - N) * (T * U)) by ring. lia.
  - assert (T * U <= (N - q) * (T * U)) by nia.
    replace (N * T * U) with (q * T * U + (N - q) * (T * U)) by ring. lia.
Qed.

Lemma od_tie_mult N : Z.abs (N * T * U - (q * T + r) * U) = Z.abs (q' * T * U - (q * T + r) * U) ->
  N * T * U <> q' * T * U -> r = h.
Proof.
  destruct od_facts as (R & TU & C).
  replace ((q * T + r) * U) with (q * T * U + r * U) by ring.
  intros D NE. assert (r * U = h * U); [|nia].
  destruct (Z.le_gt_cases N q) as [L|L].
  - destruct (Z.eq_dec N q) as [->|NQ].
    + lia.
    + assert (T * U <= (q - N) * (T * U)) by nia.
      replace (N * T * U) with (q * T * U - (q - N) * (T * U)) in D, NE by ring. lia.
  - destruct (Z.eq_dec N (q + 1)) as [->|NQ].
    + replace ((q + 1) * T * U) with (q * T * U + T * U) in D, NE by ring. lia.
    + assert (2 * (T * U) <= (N - q) * (T * U)) by nia.
      replace (N * T * U) with (q * T * U + (N - q) * (T * U)) in D, NE by ring. lia.
Qed.

(* anything at or below q T U *)
Lemma od_near_low W : W <= q * T * U -> Z.abs (q' * T * U - (q * T + r) * U) <= Z.abs (W - (q * T + r) * U).
Proof.
  destruct od_facts as (R & TU & C).
  replace ((q * T + r) * U) with (q * T * U + r * U) by ring. lia.
Qed.

Lemma od_tie_low W : W <= q * T * U -> Z.abs (W - (q * T + r) * U) = Z.abs (q' * T * U - (q * T + r) * U) ->
  W <> q' * T * U -> r = h.
Proof.
  destruct od_facts as (R & TU & C).
  replace ((q * T + r) * U) with (q * T * U + r * U) by ring.
  intros L D NE. assert (r * U = h * U); [lia|nia].
Qed.
End OneDim.

(* The pair (rsig, rexp) that [fround] computes for the positive dyadic m * 2^e:
   - it is a number of the format: at most p bits (or 2^p), exponent >= the subnormal
     exponent, p bits exactly above it;
   - no number n * 2^f of the format (0 <= n <= 2^p, f >= subnormal exponent) is closer to
     m * 2^e;
   - if a different number of the format is equally close, the significand chosen is even.
   Distances are compared in units of 2^g for any g not above the exponents involved. *)
Theorem rsig_nearest_even c m e : 0 < m ->
  let m' := rsig c m e in let e' := rexp c m e in
  (0 <= m' <= 2 ^ fprec c /\ f_elsb c <= e' /\ (f_elsb c < e' -> 2 ^ (fprec c - 1) <= m')) /\
  (forall n f g, 0 <= n <= 2 ^ fprec c -> f_elsb c <= f -> g <= e -> g <= e' -> g <= f ->
     ddist m' e' m e g <= ddist n f m e g) /\
  (forall n f g, 0 <= n <= 2 ^ fprec c -> f_elsb c <= f -> g <= e -> g <= e' -> g <= f ->
     ddist n f m e g = ddist m' e' m e g -> dscale n f g <> dscale m' e' g -> Z.even m' = true).
Proof.
  intros M m' e'. set (p := fprec c). assert (P : 0 < p) by apply fprec_pos.
  pose proof (rsig_bound c m e M) as SB. fold m' p in SB.
  assert (EL : f_elsb c <= e') by (unfold e', rexp; lia).
  split; [split; [exact SB|]; split; [exact EL|]; apply rsig_normal; exact M|].
  assert (E'' : Z.log2 m + e - (p - 1) <= e') by (unfold e', rexp; fold p; lia).
  destruct (Z.le_gt_cases e' e) as [B|B].
  { (* exact: the distance is 0 *)
    assert (SAME : forall g, g <= e' -> dscale m' e' g = dscale m e g).
    { intros g G. unfold m', rsig. fold e'. destruct (Z.leb_spec e' e); [|lia].
      rewrite Z.shiftl_mul_pow2 by lia. unfold dscale. rewrite <- Z.mul_assoc, <- Z.pow_add_r by lia.
      f_equal. f_equal. lia. }
    split.
    - intros n f g N F G1 G2 G3. unfold ddist. rewrite SAME by exact G2. rewrite Z.sub_diag. cbn. lia.
    - intros n f g N F G1 G2 G3 D NE. exfalso. unfold ddist in D. rewrite (SAME g G2), Z.sub_diag in D.
      cbn in D. rewrite <- (SAME g G2) in D. lia. }
  (* inexact: k low bits are dropped *)
  set (k := e' - e). assert (K : 0 < k) by (unfold k; lia).
  assert (RS : m' = rne_div m k).
  { unfold m', rsig. fold e'. destruct (Z.leb_spec e' e); [lia|]. apply rshift_rne_spec; lia. }
  destruct (rne_div_cases m k ltac:(lia) K) as (q & r & q' & A & R & Q0 & RD & QQ & UP & DN & EV).
  rewrite RD in RS.
  assert (PK : 0 < 2 ^ k) by (apply pow2_pos; lia).
  pose proof (pow2_split k K) as E3.
  assert (PH : 0 < 2 ^ (k - 1)) by (apply pow2_pos; lia).
  (* everything in units U = 2^(e-g) *)
  assert (SC : forall g, g <= e -> 0 < 2 ^ (e - g) /\ dscale m e g = m * 2 ^ (e - g) /\
             dscale m' e' g = m' * 2 ^ k * 2 ^ (e - g)).
  { intros g G. split; [apply pow2_pos; lia|]. split; [reflexivity|].
    replace e' with (e + k) by (unfold k; lia). apply dscale_shift; lia. }
  (* a competitor with exponent >= e' is a multiple N of 2^e' *)
  assert (HI : forall n f g, 0 <= n -> e' <= f -> g <= e -> exists N, 0 <= N /\ dscale n f g = N * 2 ^ k * 2 ^ (e - g)).
  { intros n f g N F G. exists (n * 2 ^ (f - e')).
    assert (0 < 2 ^ (f - e')) by (apply pow2_pos; lia). split; [nia|].
    unfold dscale. replace (f - g) with ((f - e') + (k + (e - g))) by (unfold k; lia).
    rewrite !Z.pow_add_r by lia. ring. }
  (* a competitor with a smaller exponent lies at or below q * 2^e' (normal range) *)
  assert (LO : forall n f g, 0 <= n <= 2 ^ p -> f_elsb c <= f -> f < e' -> g <= e -> g <= f ->
               dscale n f g <= q * 2 ^ k * 2 ^ (e - g)).
  { intros n f g N F F' G1 G3.
    assert (NORM : 2 ^ (p - 1) <= q).
    { pose proof (rsig_normal c m e M ltac:(fold e'; lia)) as SN. fold m' p in SN.
      (* q' >= 2^(p-1); if q' = q + 1 then q >= 2^(p-1) as well unless q + 1 = 2^(p-1): excluded by log2 *)
      pose proof (log2_ge_pow m M) as LG.
      assert (EQ : e' = Z.log2 m + e - (p - 1)) by (clear - F F'; subst e' p; unfold rexp in *; lia).
      assert (2 ^ Z.log2 m = 2 ^ (p - 1) * 2 ^ k).
      { rewrite <- Z.pow_add_r by lia. f_equal. unfold k. lia. }
      nia. }
    unfold dscale.
    assert (0 < 2 ^ (f - g)) by (apply pow2_pos; lia).
    assert (0 < 2 ^ (e - g)) by (apply pow2_pos; lia).
    assert (S1 : 2 ^ (e' - 1 - g) = 2 ^ (e' - 1 - f) * 2 ^ (f - g)) by (rewrite <- Z.pow_add_r by lia; f_equal; lia).
    assert (0 < 2 ^ (e' - 1 - f)) by (apply pow2_pos; lia).
    assert (S2 : 2 * 2 ^ (e' - 1 - g) = 2 ^ k * 2 ^ (e - g)).
    { rewrite <- Z.pow_add_r by lia. rewrite <- Z.pow_succ_r by lia. f_equal. unfold k. lia. }
    pose proof (pow2_split p P) as PS.
    (* n 2^(f-g) <= 2^p 2^(f-g) <= 2^p 2^(e'-1-g) = 2^(p-1) 2^k U <= q 2^k U *)
    assert (n * 2 ^ (f - g) <= 2 ^ p * 2 ^ (e' - 1 - g)) by nia.
    assert (2 ^ p * 2 ^ (e' - 1 - g) = 2 ^ (p - 1) * (2 ^ k * 2 ^ (e - g))) by (rewrite PS, <- S2; ring).
    assert (0 < 2 ^ k * 2 ^ (e - g)) by nia.
    nia. }
  split.
  - intros n f g N F G1 G2 G3. destruct (SC g G1) as (U0 & XE & YE). unfold ddist. rewrite XE, YE.
    set (U := 2 ^ (e - g)) in *. rewrite A, RS.
    assert (HQ : (q' = q /\ r <= 2 ^ (k - 1)) \/ (q' = q + 1 /\ 2 ^ (k - 1) <= r)).
    { destruct QQ as [Q|Q]; [left|right]; split; auto. }
    destruct (Z.le_gt_cases e' f) as [C|C].
    + destruct (HI n f g ltac:(lia) C G1) as (N0 & N1 & WE). rewrite WE. fold U.
      apply (od_near_mult q r (2 ^ k) (2 ^ (k - 1)) U q' U0 R E3 HQ).
    + pose proof (LO n f g N F C G1 G3) as WL. fold U in WL.
      apply (od_near_low q r (2 ^ k) (2 ^ (k - 1)) U q' U0 R E3 HQ _ WL).
  - intros n f g N F G1 G2 G3 D NE. destruct (SC g G1) as (U0 & XE & YE). unfold ddist in D. rewrite XE, YE in D.
    rewrite YE in NE. set (U := 2 ^ (e - g)) in *. rewrite A, RS in D. rewrite RS in NE.
    assert (HQ : (q' = q /\ r <= 2 ^ (k - 1)) \/ (q' = q + 1 /\ 2 ^ (k - 1) <= r)).
    { destruct QQ as [Q|Q]; [left|right]; split; auto. }
    rewrite RS. apply EV.
    destruct (Z.le_gt_cases e' f) as [C|C].
    + destruct (HI n f g ltac:(lia) C G1) as (N0 & N1 & WE). rewrite WE in D, NE. fold U in D, NE.
      apply (od_tie_mult q r (2 ^ k) (2 ^ (k - 1)) U q' U0 R E3 HQ N0 D NE).
    + pose proof (LO n f g N F C G1 G3) as WL. fold U in WL.
      apply (od_tie_low q r (2 ^ k) (2 ^ (k - 1)) U q' U0 R E3 HQ _ WL D NE).
Qed.
