(* C07/ConvRound.v — Z-only facts about the dyadic rounding of ConvFloat.v ([rshift_rne],
   [fround]); no real numbers here.  The link to Flocq's [round] is in ConvFlocq.v. *)
From MptV Require Import Base.Mem C07.ConvModel C07.ConvFloat.
Local Open Scope Z_scope.

(* the quotient/remainder form of the tie-to-even shift *)
Definition rne_div (m k : Z) : Z :=
  let q := m / 2 ^ k in let r := m mod 2 ^ k in
  if (2 ^ (k - 1) <? r) || ((2 ^ (k - 1) =? r) && Z.odd q) then q + 1 else q.

Lemma pow2_pos n : 0 <= n -> 0 < 2 ^ n.
Proof. intros; apply Z.pow_pos_nonneg; lia. Qed.

Lemma pow2_split k : 0 < k -> 2 ^ k = 2 * 2 ^ (k - 1).
Proof. intros. rewrite <- Z.pow_succ_r by lia. f_equal. lia. Qed.

Lemma log2_lt_pow m : 0 <= m -> m < 2 ^ (Z.log2 m + 1).
Proof.
  intros M. destruct (Z.eq_dec m 0) as [->|NZ]; [reflexivity|].
  replace (Z.log2 m + 1) with (Z.succ (Z.log2 m)) by lia.
  apply Z.log2_spec. lia.
Qed.

Lemma log2_ge_pow m : 0 < m -> 2 ^ Z.log2 m <= m.
Proof. intros M. apply Z.log2_spec. exact M. Qed.

Lemma rshift_rne_spec m k : 0 <= m -> 0 < k -> rshift_rne m k = rne_div m k.
Proof.
  intros M K. unfold rshift_rne, rne_div.
  assert (PK : 0 < 2 ^ k) by (apply pow2_pos; lia).
  assert (PH : 0 < 2 ^ (k - 1)) by (apply pow2_pos; lia).
  pose proof (pow2_split k K) as E3.
  destruct (Z.leb_spec (Z.log2 m + 2) k) as [B|B].
  - pose proof (log2_lt_pow m M) as U.
    assert (LE : 2 ^ (Z.log2 m + 1) <= 2 ^ (k - 1)) by (apply Z.pow_le_mono_r; lia).
    rewrite Z.div_small, Z.mod_small by lia.
    destruct (Z.ltb_spec (2 ^ (k - 1)) m); [lia|].
    destruct (Z.eqb_spec (2 ^ (k - 1)) m); [lia|]. reflexivity.
  - rewrite Z.shiftr_div_pow2, Z.shiftl_mul_pow2, Z.shiftl_mul_pow2 by lia.
    rewrite Z.mul_1_l.
    replace (m - m / 2 ^ k * 2 ^ k) with (m mod 2 ^ k) by (rewrite Z.mod_eq by lia; ring).
    reflexivity.
Qed.

(* the result of the shift: quotient or its successor, within half a unit, ties to even *)
Lemma rne_div_cases m k : 0 <= m -> 0 < k ->
  exists q r q', m = q * 2 ^ k + r /\ 0 <= r < 2 ^ k /\ 0 <= q /\ rne_div m k = q' /\
    (q' = q \/ q' = q + 1) /\
    (q' = q + 1 -> 2 ^ (k - 1) <= r) /\ (q' = q -> r <= 2 ^ (k - 1)) /\
    (r = 2 ^ (k - 1) -> Z.even q' = true).
Proof.
  intros M K. unfold rne_div.
  assert (PK : 0 < 2 ^ k) by (apply pow2_pos; lia).
  pose proof (Z.div_mod m (2 ^ k) ltac:(lia)) as DM.
  pose proof (Z.mod_pos_bound m (2 ^ k) PK) as MB.
  assert (Q0 : 0 <= m / 2 ^ k) by (apply Z.div_pos; lia).
  set (q := m / 2 ^ k) in *. set (r := m mod 2 ^ k) in *.
  exists q, r.
  destruct ((2 ^ (k - 1) <? r) || ((2 ^ (k - 1) =? r) && Z.odd q)) eqn:UP.
  - assert (HU : 2 ^ (k - 1) <= r /\ (r = 2 ^ (k - 1) -> Z.odd q = true)).
    { apply orb_true_iff in UP as [U|U]; [apply Z.ltb_lt in U; split; lia|].
      apply andb_true_iff in U as [U1 U2]. apply Z.eqb_eq in U1. split; [lia|intros _; exact U2]. }
    destruct HU as [HU1 HU2].
    exists (q + 1). split; [lia|]. split; [lia|]. split; [lia|]. split; [reflexivity|].
    split; [right; reflexivity|]. split; [intros _; exact HU1|]. split; [intros; lia|].
    intros T. replace (q + 1) with (Z.succ q) by lia. rewrite Z.even_succ. apply HU2. exact T.
  - apply orb_false_iff in UP as [U1 U2]. apply Z.ltb_ge in U1.
    exists q. split; [lia|]. split; [lia|]. split; [lia|]. split; [reflexivity|].
    split; [left; reflexivity|]. split; [intros; lia|]. split; [intros _; exact U1|].
    intros T. apply andb_false_iff in U2 as [U|U]; [apply Z.eqb_neq in U; lia|].
    rewrite <- Z.negb_odd, U. reflexivity.
Qed.

(* ---- the exponent/significand pair [fround] works with ---- *)
Definition rexp (c : cty) (m e : Z) : Z := Z.max (Z.log2 m + e - (fprec c - 1)) (f_elsb c).
Definition rsig (c : cty) (m e : Z) : Z :=
  let e' := rexp c m e in
  if e' <=? e then Z.shiftl m (e - e') else rshift_rne m (e' - e).

Lemma fround_unfold c neg m e :
  fround c (FFin neg m e) =
    if m =? 0 then FFin neg 0 0
    else if rsig c m e =? 0 then FFin neg 0 0
    else if f_emax c <? Z.log2 (rsig c m e) + rexp c m e then FInf neg
    else FFin neg (rsig c m e) (rexp c m e).
Proof. reflexivity. Qed.

Lemma fprec_pos c : 0 < fprec c.
Proof. destruct c; reflexivity. Qed.

(* the significand has at most p bits, or is exactly 2^p (carry into the next binade) *)
Lemma rsig_bound c m e : 0 < m -> 0 <= rsig c m e <= 2 ^ fprec c.
Proof.
  intros M. unfold rsig. set (e' := rexp c m e). set (p := fprec c).
  assert (P : 0 < p) by apply fprec_pos.
  assert (E' : Z.log2 m + e - (p - 1) <= e') by (unfold e', rexp; fold p; lia).
  pose proof (log2_lt_pow m ltac:(lia)) as U.
  destruct (Z.leb_spec e' e) as [B|B].
  - rewrite Z.shiftl_mul_pow2 by lia.
    assert (0 < 2 ^ (e - e')) by (apply pow2_pos; lia).
    split; [nia|].
    assert (2 ^ (Z.log2 m + 1) * 2 ^ (e - e') <= 2 ^ p).
    { rewrite <- Z.pow_add_r by (pose proof (Z.log2_nonneg m); lia). apply Z.pow_le_mono_r; lia. }
    nia.
  - rewrite rshift_rne_spec by lia.
    destruct (rne_div_cases m (e' - e) ltac:(lia) ltac:(lia)) as (q & r & q' & A & R & Q0 & -> & QQ & _).
    split; [lia|].
    assert (PK : 0 < 2 ^ (e' - e)) by (apply pow2_pos; lia).
    assert (q < 2 ^ p).
    { assert (2 ^ (Z.log2 m + 1) <= 2 ^ p * 2 ^ (e' - e)).
      { rewrite <- Z.pow_add_r by lia. apply Z.pow_le_mono_r; lia. }
      nia. }
    lia.
Qed.

(* in the subnormal-free part the significand has exactly p bits *)
Lemma rsig_normal c m e : 0 < m -> f_elsb c < rexp c m e ->
  2 ^ (fprec c - 1) <= rsig c m e.
Proof.
  intros M N. unfold rsig. set (e' := rexp c m e) in *. set (p := fprec c).
  assert (P : 0 < p) by apply fprec_pos.
  assert (E' : e' = Z.log2 m + e - (p - 1)) by (unfold e', rexp in *; fold p in N |- *; lia).
  pose proof (log2_ge_pow m M) as LO.
  pose proof (Z.log2_nonneg m) as LN.
  destruct (Z.leb_spec e' e) as [B|B].
  - rewrite Z.shiftl_mul_pow2 by lia.
    assert (2 ^ Z.log2 m * 2 ^ (e - e') = 2 ^ (p - 1)) by (rewrite <- Z.pow_add_r by lia; f_equal; lia).
    assert (0 < 2 ^ (e - e')) by (apply pow2_pos; lia). nia.
  - rewrite rshift_rne_spec by lia.
    destruct (rne_div_cases m (e' - e) ltac:(lia) ltac:(lia)) as (q & r & q' & A & R & Q0 & -> & QQ & _).
    assert (PK : 0 < 2 ^ (e' - e)) by (apply pow2_pos; lia).
    assert (2 ^ Z.log2 m = 2 ^ (p - 1) * 2 ^ (e' - e)) by (rewrite <- Z.pow_add_r by lia; f_equal; lia).
    assert (2 ^ (p - 1) <= q) by nia.
    lia.
Qed.
