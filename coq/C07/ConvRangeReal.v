(* C07/ConvRangeReal.v — the comparison [fgt] the range test of mpt_cfloat/cdouble/cldouble is
   modelled with IS the order of the real numbers the two floating values denote (REAL: uses
   Coq.Reals and Flocq's F2R, hence the standard-library axioms named in props/c07.py). *)
From Coq Require Import Reals.
From Flocq Require Import Core.
From MptV Require Import Base.Mem C07.ConvModel C07.ConvFloat C07.ConvFlocq C07.ConvDispatch C07.ConvDispatchProofs.
Local Open Scope Z_scope.

Lemma sval_cond_Zopp neg m : sval neg m = cond_Zopp neg m.
Proof. destruct neg; reflexivity. Qed.

Lemma cond_Zopp_scale neg m k : cond_Zopp neg (m * k) = cond_Zopp neg m * k.
Proof. destruct neg; cbn; ring. Qed.

Lemma dyR_rescale neg m e g : g <= e -> dyR neg m e = F2R (Float radix2 (cond_Zopp neg (m * 2 ^ (e - g))) g).
Proof.
  intros L. unfold dyR. rewrite (F2R_change_exp radix2 g _ e L). rewrite cond_Zopp_scale. reflexivity.
Qed.

(* a > b on two finite values  <->  the real number a denotes is greater *)
Lemma fgt_fin_R na ma ea nb mb eb :
  fgt (FFin na ma ea) (FFin nb mb eb) = true <-> (dyR nb mb eb < dyR na ma ea)%R.
Proof.
  rewrite fgt_fin. rewrite !sval_cond_Zopp.
  set (g := Z.min ea eb).
  rewrite (dyR_rescale nb mb eb g) by (subst g; lia).
  rewrite (dyR_rescale na ma ea g) by (subst g; lia).
  rewrite Z.ltb_lt. split; [apply F2R_lt|apply lt_F2R].
Qed.

Lemma fgt_fin_R_false na ma ea nb mb eb :
  fgt (FFin na ma ea) (FFin nb mb eb) = false <-> (dyR na ma ea <= dyR nb mb eb)%R.
Proof.
  split.
  - intros H. apply Rnot_lt_le. intros L. apply fgt_fin_R in L. congruence.
  - intros H. destruct (fgt (FFin na ma ea) (FFin nb mb eb)) eqn:G; [|reflexivity].
    apply fgt_fin_R in G. exfalso. exact (Rlt_irrefl _ (Rle_lt_trans _ _ _ H G)).
Qed.

(* ---- the range argument: an accepted text -> float conversion with finite bounds and a
   finite value lies in the closed interval of the REAL numbers the bounds denote; infinite
   bounds do not restrict that side; an infinite value is accepted only if the bound on its
   side is the same infinity *)
Theorem text_float_range_real hd s o stv n nl ml el nh mh eh nv mv ev :
  convert_float_text_r hd s o (FFin nv mv ev) (Some (FFin nl ml el, FFin nh mh eh)) = TDone stv n ->
  (dyR nl ml el <= dyR nv mv ev <= dyR nh mh eh)%R.
Proof.
  intros H. destruct (convert_float_text_r_accepts _ _ _ _ _ _ _ _ H) as (A & B & _).
  apply fgt_fin_R_false in A. apply fgt_fin_R_false in B. split; assumption.
Qed.

Theorem text_float_range_refuses_real hd s o stv n nl ml el nh mh eh nv mv ev :
  convert_float_text hd s o = TDone stv n ->
  (dyR nv mv ev < dyR nl ml el \/ dyR nh mh eh < dyR nv mv ev)%R ->
  convert_float_text_r hd s o (FFin nv mv ev) (Some (FFin nl ml el, FFin nh mh eh)) = TRefused BadValue.
Proof.
  intros E [L|L]; apply (convert_float_text_r_outside _ _ _ _ _ _ _ _ E); [left|right]; apply fgt_fin_R; exact L.
Qed.

(* infinities: +inf is above and -inf below every finite value and each other *)
Lemma fgt_inf_cases a nb :
  fgt a (FInf nb) = match a with FNaN => false | FInf na => negb na && nb | FFin _ _ _ => nb end.
Proof. destruct a; reflexivity. Qed.
Lemma fgt_inf_l na b :
  fgt (FInf na) b = match b with FNaN => false | FInf nb => negb na && nb | FFin _ _ _ => negb na end.
Proof. destruct b; reflexivity. Qed.
