(* C07/ConvTextFloat.v — numeric text -> floating type (mpt_cfloat/cdouble/cldouble,
   reached through mpt_convert_number and mpt_convert_string).  strtof/strtod/strtold stay an
   ORACLE (end pointer, errno == ERANGE, class of the returned value: [flt_oracle]); what is
   proved here is the library's own logic around it:
     - success is reported only together with libc's own end pointer (the characters reported
       as consumed are exactly those libc parsed), never 0 characters;
     - ERANGE together with +HUGE_VAL or -HUGE_VAL (a finite numeral beyond the range, either
       sign) is refused with BadValue and nothing else is: ERANGE with a finite result
       (underflow) and a literal "inf" without ERANGE are accepted;
     - nothing parsed (end == src) is never a success: 0 for white space, BadType otherwise;
     - asking without destination gives the same answer. *)
From MptV Require Import Base.Mem C07.ConvModel C07.ConvSpec C07.ConvProofs C07.ConvTextProofs.
Local Open Scope Z_scope.

Definition flt_target_t (t : tty) : Prop := t = Tf \/ t = Td \/ t = Te.

Lemma is_huge_iff k : is_huge k = true <-> k = FcPosInf \/ k = FcNegInf.
Proof. destruct k; cbn; split; intros H; try discriminate; auto; destruct H; discriminate. Qed.

(* ------------------------------------------------------------------ mpt_cfloat / cdouble / cldouble *)
(* complete case analysis of the call *)
Lemma convert_float_text_cases hd s o :
  (cstr s = [] /\ convert_float_text hd s o = TEmpty) \/
  (cstr s <> [] /\ fo_overflow o = true /\ convert_float_text hd s o = TRefused BadValue) \/
  (cstr s <> [] /\ fo_overflow o = false /\ fo_end o = O /\
     convert_float_text hd s o = if all_space (cstr s) then TEmpty else TRefused BadType) \/
  (cstr s <> [] /\ fo_overflow o = false /\ fo_end o <> O /\
     convert_float_text hd s o = TDone (if hd then StOrc else StNone) (fo_end o)).
Proof.
  unfold convert_float_text. destruct (cstr s) as [|a r] eqn:CS; [left; auto|right].
  assert (NE : a :: r <> []) by discriminate.
  destruct (fo_overflow o); [left; auto|right].
  destruct (fo_end o) as [|n]; [left; auto|right]. repeat split; auto.
Qed.

Lemma convert_float_text_done hd s o stv n : convert_float_text hd s o = TDone stv n ->
  n = fo_end o /\ n <> O /\ fo_overflow o = false /\ stv = (if hd then StOrc else StNone).
Proof.
  destruct (convert_float_text_cases hd s o) as [(_ & E)|[(_ & _ & E)|[(_ & _ & _ & E)|(_ & OV & N & E)]]];
    rewrite E; try discriminate.
  - destruct (all_space (cstr s)); discriminate.
  - intros H; inversion H; subst. auto.
Qed.

(* both signs of HUGE_VAL *)
Lemma convert_float_text_overflow hd s o : cstr s <> [] -> fo_erange o = true ->
  fo_cls o = FcPosInf \/ fo_cls o = FcNegInf -> convert_float_text hd s o = TRefused BadValue.
Proof.
  intros NE ER CL.
  assert (OV : fo_overflow o = true) by (unfold fo_overflow; rewrite ER; apply is_huge_iff in CL; rewrite CL; reflexivity).
  destruct (convert_float_text_cases hd s o) as [(E & _)|[(_ & _ & E)|[(_ & O2 & _)|(_ & O2 & _)]]]; congruence.
Qed.

(* and only those: BadValue means ERANGE and an infinite result *)
Lemma convert_float_text_badvalue hd s o : convert_float_text hd s o = TRefused BadValue ->
  fo_erange o = true /\ (fo_cls o = FcPosInf \/ fo_cls o = FcNegInf).
Proof.
  destruct (convert_float_text_cases hd s o) as [(_ & E)|[(_ & OV & _)|[(_ & _ & _ & E)|(_ & _ & _ & E)]]];
    try (rewrite E; try destruct (all_space (cstr s)); discriminate).
  intros _. unfold fo_overflow in OV. apply andb_true_iff in OV as [A B]. split; [exact A|apply is_huge_iff; exact B].
Qed.

(* ERANGE alone (underflow: finite result) or an infinity without ERANGE ("inf") is accepted *)
Lemma convert_float_text_accepts hd s o : cstr s <> [] -> fo_end o <> O ->
  fo_erange o = false \/ is_huge (fo_cls o) = false ->
  convert_float_text hd s o = TDone (if hd then StOrc else StNone) (fo_end o).
Proof.
  intros NE N C.
  assert (OV : fo_overflow o = false) by (unfold fo_overflow; destruct C as [-> | ->]; [reflexivity|apply andb_false_r]).
  destruct (convert_float_text_cases hd s o) as [(E & _)|[(_ & O2 & _)|[(_ & _ & N2 & _)|(_ & _ & _ & E)]]]; congruence.
Qed.

(* nothing parsed is no success *)
Lemma convert_float_text_nothing hd s o : fo_end o = O ->
  convert_float_text hd s o = TEmpty \/ exists e, convert_float_text hd s o = TRefused e.
Proof.
  intros N.
  destruct (convert_float_text_cases hd s o) as [(_ & E)|[(_ & _ & E)|[(_ & _ & _ & E)|(_ & _ & N2 & _)]]];
    rewrite ?E; eauto; [|congruence].
  destruct (all_space (cstr s)); eauto.
Qed.

(* the same answer without destination *)
Definition strip (r : tres) : tres := match r with TDone _ n => TDone StNone n | r => r end.
Lemma convert_float_text_query s o : convert_float_text false s o = strip (convert_float_text true s o).
Proof.
  unfold convert_float_text. destruct (cstr s); [reflexivity|].
  destruct (fo_overflow o); [reflexivity|]. destruct (fo_end o); [|reflexivity].
  destruct (all_space _); reflexivity.
Qed.

(* ------------------------------------------------------------------ mpt_convert_number *)
Lemma convert_number_flt t s hd o : flt_target_t t ->
  convert_number (Some s) t hd o = convert_float_text hd s o.
Proof.
  intros [->|[->| ->]]; unfold convert_number; cbn [map_long];
    unfold convert_float_text; rewrite cstr_idem; reflexivity.
Qed.

Lemma tobserve_flt t r n : flt_target_t t -> tobserve (tgt_cty t) true r = TOFlt n -> r = TDone StOrc n.
Proof.
  intros FT. assert (exists c, tgt_cty t = Some c /\ is_flt c = true) as (c & -> & F)
    by (destruct FT as [->|[->| ->]]; eexists; split; reflexivity).
  unfold tobserve. destruct r as [e| |stv k|]; try discriminate. cbn [negb].
  destruct stv as [c0 w0|c0 w0|l| |]; try discriminate;
    try (match goal with |- context [readback ?a ?b ?x ?y] => destruct (readback a b x y) end; discriminate).
  rewrite F. intros H; inversion H; reflexivity.
Qed.

(* an accepted text -> float conversion reports exactly the characters libc parsed (at least
   one), the destination holds libc's value, and libc did not flag an overflow *)
Theorem convert_number_float_accepts t s o n : flt_target_t t ->
  tobserve (tgt_cty t) true (convert_number (Some s) t true o) = TOFlt n ->
  n = fo_end o /\ n <> O /\ fo_overflow o = false.
Proof.
  intros FT H. apply (tobserve_flt t _ n FT) in H. rewrite convert_number_flt in H by exact FT.
  destruct (convert_float_text_done _ _ _ _ _ H) as (A & B & C & _). auto.
Qed.

(* a finite numeral beyond the range of the type (ERANGE and +-HUGE_VAL) is refused, for
   either sign, with and without destination; BadValue is given for nothing else *)
Theorem convert_number_float_overflow t s hd o : flt_target_t t -> cstr s <> [] ->
  fo_erange o = true -> fo_cls o = FcPosInf \/ fo_cls o = FcNegInf ->
  convert_number (Some s) t hd o = TRefused BadValue.
Proof. intros FT NE ER CL. rewrite convert_number_flt by exact FT. apply convert_float_text_overflow; assumption. Qed.

Theorem convert_number_float_badvalue t s hd o : flt_target_t t ->
  convert_number (Some s) t hd o = TRefused BadValue ->
  fo_erange o = true /\ (fo_cls o = FcPosInf \/ fo_cls o = FcNegInf).
Proof. intros FT. rewrite convert_number_flt by exact FT. apply convert_float_text_badvalue. Qed.

Theorem convert_number_float_query t s o : flt_target_t t ->
  convert_number (Some s) t false o = strip (convert_number (Some s) t true o).
Proof. intros FT. rewrite !convert_number_flt by exact FT. apply convert_float_text_query. Qed.

(* ------------------------------------------------------------------ mpt_convert_string *)
Lemma cstr_suffix p txt : cstr (p ++ txt) = p ++ txt -> cstr txt = txt.
Proof.
  induction p as [|x p IH]; cbn; [auto|].
  destruct (x =? 0) eqn:X.
  - intros Q. exfalso. assert (length (@nil Z) = length (x :: p ++ txt)) by (rewrite Q at 1; reflexivity). discriminate.
  - intros Q. injection Q as Q. auto.
Qed.

(* mpt_convert_string skips k white-space characters itself and adds them back.  libc
   (whose answer [o] describes the whole string) skips the same k characters, so for a
   well-formed oracle k <= fo_end o whenever something was parsed. *)
Theorem convert_string_float_accepts t s o n : flt_target_t t ->
  tobserve (tgt_cty t) true (convert_string (Some s) t true o) = TOFlt n ->
  let k := fst (skip_space (cstr s)) in
  fo_overflow o = false /\ (fo_end o - k <> 0)%nat /\ n = (k + (fo_end o - k))%nat /\
  ((k <= fo_end o)%nat -> n = fo_end o).
Proof.
  intros FT H. apply (tobserve_flt t _ n FT) in H. unfold convert_string in H.
  destruct (cstr s) as [|a s'] eqn:CS; [discriminate H|]. rewrite <- CS in *.
  destruct (skip_space (cstr s)) as [k txt] eqn:SK. cbn [fst].
  set (o' := mkOracle (fo_end o - k) (fo_erange o) (fo_cls o)) in *.
  destruct (convert_number (Some txt) t true o') as [e| |stv0 n0|] eqn:C; try discriminate H.
  - destruct k; discriminate H.
  - injection H as -> <-.
    rewrite convert_number_flt in C by exact FT.
    destruct (convert_float_text_done _ _ _ _ _ C) as (A & B & OV & _).
    cbn [fo_end o'] in A. subst n0. split; [exact OV|]. split; [exact B|]. split; [reflexivity|]. lia.
Qed.

Theorem convert_string_float_overflow t s hd o : flt_target_t t ->
  snd (skip_space (cstr s)) <> [] -> fo_erange o = true -> fo_cls o = FcPosInf \/ fo_cls o = FcNegInf ->
  convert_string (Some s) t hd o = TRefused BadValue.
Proof.
  intros FT NE ER CL. unfold convert_string.
  destruct (cstr s) as [|a s'] eqn:CS; [cbn in NE; congruence|]. rewrite <- CS in *.
  destruct (skip_space_split (cstr s) (fst (skip_space (cstr s))) (snd (skip_space (cstr s)))
              ltac:(destruct (skip_space (cstr s)); reflexivity)) as (E & SP & L).
  destruct (skip_space (cstr s)) as [k txt] eqn:SK. cbn [fst snd] in *.
  assert (CT : cstr txt = txt).
  { apply (cstr_suffix (firstn k (cstr s))). rewrite <- E. apply cstr_idem. }
  rewrite convert_number_flt by exact FT.
  rewrite convert_float_text_overflow; [reflexivity|rewrite CT; exact NE|exact ER|exact CL].
Qed.
