(* C07 — Scalar conversion is exact or refused.
   Only the property theorems (each closed by [exact] of a lemma proved in ConvProofs.v,
   ConvTextProofs.v, ConvFloatProofs.v), non-vacuity examples and Print Assumptions.

   Reading guide.  [conv s v t hd] is what a caller of mpt_data_convert_<s>(&v, t, hd ? dest : 0)
   observes (ConvModel.v transcribes the eight switches of data_convert_int.c): [ORefused e],
   [OInt w ret] = destination read back as the target type holds w and ret was returned,
   [OFlt c v ret] = destination holds (c) v rounded by the FPU, [OQuery ret] = success without
   destination, [OFault] = the call does not return (isgraph() outside its table, store wider
   than the destination).  [vconv]/[iconv] are mpt_value_convert / mpt_iterator_consume.
   [src_ok s v]: v is a value of the source type.  [in_range c w]: cmin c <= w <= cmax c.
   Values are unbounded Z; every theorem quantifies over ALL values / ALL texts.

   READING OF "SAME NUMBER" FOR FLOATING TARGETS.  No binary float denotes e.g. 2^24+1, so for a
   floating target the requirement is: exact when the source is representable (has at most p
   significant bits), otherwise a p-bit neighbour within half a unit in the last place (ties to
   even), and a finite source never becomes infinite.  This is the weakest reading under which
   the property is satisfiable at all.  Integer and char targets are literal.
   float -> float and text -> float conversions are covered by the correspondence run only
   (libc strtof/strtod/strtold and the FPU are oracles), not by a theorem. *)
From MptV Require Import Base.Mem C07.ConvModel C07.ConvSpec C07.ConvProofs C07.ConvTextProofs C07.ConvFloatProofs.
Local Open Scope Z_scope.

(* ---- integer -> integer / char / long, all 8 source types x all targets, all values:
   an accepted conversion produced exactly the source value, that value lies in the range of
   the target type, and the number of bytes reported is the target's size. *)
Theorem C07_int_int_exact_or_refused :
  forall s v t w ret, src_ok s v = true -> conv s v t true = OInt w ret ->
    exists tc, tgt_cty t = Some tc /\ is_flt tc = false /\ w = v /\ in_range tc w = true /\ ret = cwidth tc.
Proof. exact conv_exact. Qed.

(* ---- asking without destination gives the same verdict (refused with the same error /
   accepted with the same reported size) as performing the conversion; every scalar or unknown
   target type.  (Vector targets are no scalar conversion: the converters answer MissingData
   without destination and mpt_value_convert maps scalar -> vector itself.) *)
Theorem C07_query_same_verdict :
  forall s v t, (forall k, t <> Tvec k) ->
    verdict_of (conv s v t true) = verdict_of (conv s v t false).
Proof. exact query_same. Qed.

(* ---- no source value makes a converter fault, for any target type code, with or without
   destination *)
Theorem C07_never_faults :
  forall s v t hd, src_ok s v = true -> verdict_of (conv s v t hd) <> VFault.
Proof. exact no_fault. Qed.

(* ---- the dispatch layers: mpt_value_convert and mpt_iterator_consume on a value of scalar
   type code sk ('c','b','y','n','q','i','u','x','t') *)
Theorem C07_value_convert_exact :
  forall sk c v tk w r, src_cty sk = Some c -> cmin c <= v <= cmax c -> vconv sk v tk true = OInt w r ->
    exists tc, tgt_cty (tty_of_code tk) = Some tc /\ is_flt tc = false /\ w = v /\ in_range tc w = true.
Proof. exact vconv_exact. Qed.

Theorem C07_iterator_consume_exact :
  forall sk c v tk w r, src_cty sk = Some c -> cmin c <= v <= cmax c -> iconv sk v tk true = OInt w r ->
    exists tc, tgt_cty (tty_of_code tk) = Some tc /\ is_flt tc = false /\ w = v /\ in_range tc w = true.
Proof. exact iconv_exact. Qed.

(* ---- numeric text -> integer.  [value_of base txt] is the number denoted by a COMPLETE numeral
   (optional white space, optional sign, optional 0x/0 prefix, then digits only; ConvSpec.v).
   If n characters are reported as consumed and w is stored, then the first n characters are a
   complete numeral, w is its value, and w is in the range of the target.  So over-long numerals
   (strtoimax/strtoumax saturate + ERANGE), negated numerals for unsigned targets (strtoumax
   wraps) and out-of-range values can only be refused.  Every text, every valid base. *)
Theorem C07_text_int_exact :            (* _mpt_convert_int, destination read as intN *)
  forall vlen c s base w n, valid_base base -> int_by_len vlen = Some c ->
    tobserve (Some c) true (convert_int_text true vlen (Some s) base) = TOInt w n ->
    value_of base (firstn n (cstr s)) = Some w /\ in_range c w = true.
Proof. exact convert_int_text_exact. Qed.

Theorem C07_text_uint_exact :           (* _mpt_convert_uint, destination read as uintN *)
  forall vlen c s base w n, valid_base base -> int_by_len vlen = Some c ->
    tobserve (Some (unsigned_of c)) true (convert_uint_text true vlen (Some s) base) = TOInt w n ->
    value_of base (firstn n (cstr s)) = Some w /\ in_range (unsigned_of c) w = true.
Proof. exact convert_uint_text_exact. Qed.

Theorem C07_text_wrapper_exact :        (* mpt_cint8 ... mpt_culong incl. the optional range *)
  forall c s base range w n, valid_base base -> int_cty c ->
    tobserve (Some c) true (get_string_fcn c true (Some s) base range) = TOInt w n ->
    value_of base (firstn n (cstr s)) = Some w /\ in_range c w = true /\
    match range with Some (lo, hi) => lo <= w <= hi | None => True end.
Proof. exact get_string_fcn_exact. Qed.

Theorem C07_convert_number_exact :      (* mpt_convert_number, targets b y n q i u x t l *)
  forall t s o w n, int_target t ->
    tobserve (tgt_cty t) true (convert_number (Some s) t true o) = TOInt w n ->
    exists tc, tgt_cty t = Some tc /\ value_of 0 (firstn n (cstr s)) = Some w /\ in_range tc w = true.
Proof. exact convert_number_exact. Qed.

Theorem C07_convert_string_exact :      (* mpt_convert_string, targets b y n q i u x t l *)
  forall t s o w n, int_target t ->
    tobserve (tgt_cty t) true (convert_string (Some s) t true o) = TOInt w n ->
    exists tc, tgt_cty t = Some tc /\ value_of 0 (firstn n (cstr s)) = Some w /\ in_range tc w = true.
Proof. exact convert_string_exact. Qed.

(* ---- integer -> floating type ([conv] yields [OFlt c v ret]: the destination holds
   round_int (fprec c) v, whose bit pattern is compared with the hardware's in every run) *)
Theorem C07_int_float_exact_when_representable :
  forall p v, 0 < p -> pbits p v -> round_int p v = v.
Proof. exact round_int_exact. Qed.

Theorem C07_int_float_correctly_rounded :
  forall p v, 0 < p ->
    exists m e, 0 <= e /\ Z.abs m <= 2 ^ p /\ round_int p v = m * 2 ^ e /\
      2 * Z.abs (round_int p v - v) <= 2 ^ e /\
      (round_int p v <> v -> 2 * Z.abs (round_int p v - v) = 2 ^ e -> Z.even m = true).
Proof. exact round_int_near. Qed.

Theorem C07_int_float_stays_finite :
  forall p v, 0 < p -> - 2 ^ 63 <= v < 2 ^ 64 -> Z.abs (round_int p v) <= 2 ^ 64.
Proof. exact round_int_finite. Qed.

(* ---- non-vacuity: the hypotheses are met by real conversions and the statements say something ---- *)
Example C07_ex_accept : conv I32 300 Tq true = OInt 300 2.
Proof. vm_compute. reflexivity. Qed.
Example C07_ex_refuse_narrow : conv I32 300 Ty true = ORefused BadValue.
Proof. vm_compute. reflexivity. Qed.
Example C07_ex_refuse_negative : conv I64 (-1) Tt false = ORefused BadValue.
Proof. vm_compute. reflexivity. Qed.
Example C07_ex_uint64_max : conv U64 18446744073709551615 Tt true = OInt 18446744073709551615 8
                         /\ conv U64 18446744073709551615 Tx true = ORefused BadValue.
Proof. split; vm_compute; reflexivity. Qed.
Example C07_ex_char : conv I64 65 Tc true = OInt 65 1 /\ conv I64 4294967361 Tc true = ORefused BadValue
                   /\ conv U32 200 Tc false = ORefused BadValue.
Proof. repeat split; vm_compute; reflexivity. Qed.
Example C07_ex_query : conv U8 200 Tx false = OQuery 8 /\ conv U16 7 Te false = OQuery 16.
Proof. split; vm_compute; reflexivity. Qed.
Example C07_ex_float : conv I32 16777217 Tf true = OFlt CF32 16777217 4 /\ round_int 24 16777217 = 16777216
                    /\ round_int 24 16777219 = 16777220 /\ round_int 53 9007199254740993 = 9007199254740992.
Proof. repeat split; vm_compute; reflexivity. Qed.
Example C07_ex_value_convert : vconv 105 (-5) 98 true = OInt (-5) 3 /\ vconv 99 7 99 true = OInt 7 0
                            /\ vconv 105 (-5) 121 true = ORefused BadType.
Proof. repeat split; vm_compute; reflexivity. Qed.
(* "  -0x7f;"  : 7 characters consumed, value -127 *)
Example C07_ex_text : tobserve (Some CI8) true (convert_int_text true 1 (Some [32;32;45;48;120;55;102;59]) 0) = TOInt (-127) 7
                   /\ value_of 0 [32;32;45;48;120;55;102] = Some (-127).
Proof. split; vm_compute; reflexivity. Qed.
(* "9223372036854775808" for int64, "-1" and "-18446744073709551615" for uint64, "256" for uint8: refused *)
Example C07_ex_text_refused :
  convert_int_text true 8 (Some [57;50;50;51;51;55;50;48;51;54;56;53;52;55;55;53;56;48;56]) 0 = TRefused BadValue
  /\ convert_uint_text true 8 (Some [45;49]) 0 = TRefused BadValue
  /\ convert_uint_text true 8 (Some [45;49;56;52;52;54;55;52;52;48;55;51;55;48;57;53;53;49;54;49;53]) 0 = TRefused BadValue
  /\ convert_uint_text true 1 (Some [50;53;54]) 0 = TRefused BadValue
  /\ convert_number (Some [57;50;50;51;51;55;50;48;51;54;56;53;52;55;55;53;56;48;56]) Tx true (mkOracle 0 false) = TRefused BadValue.
Proof. repeat split; vm_compute; reflexivity. Qed.
(* the known finding is visible in the model: white space only, 2 characters "consumed", nothing stored *)
Example C07_ex_known_finding :
  tobserve (Some CI32) true (convert_string (Some [32;32]) Ti true (mkOracle 0 false)) = TOUntouched 2.
Proof. vm_compute. reflexivity. Qed.

Print Assumptions C07_int_int_exact_or_refused.
Print Assumptions C07_query_same_verdict.
Print Assumptions C07_never_faults.
Print Assumptions C07_value_convert_exact.
Print Assumptions C07_iterator_consume_exact.
Print Assumptions C07_text_int_exact.
Print Assumptions C07_text_uint_exact.
Print Assumptions C07_text_wrapper_exact.
Print Assumptions C07_convert_number_exact.
Print Assumptions C07_convert_string_exact.
Print Assumptions C07_int_float_exact_when_representable.
Print Assumptions C07_int_float_correctly_rounded.
Print Assumptions C07_int_float_stays_finite.
