(* C07 — Scalar conversion is exact or refused.
   Only the property theorems (each closed by [exact] of a lemma proved in ConvProofs.v,
   ConvTextProofs.v, ConvFloatProofs.v), non-vacuity examples and Print Assumptions.

   Reading guide.  [conv s v t hd] is what a caller of mpt_data_convert_<s>(&v, t, hd ? dest : 0)
   observes (ConvModel.v transcribes the eight switches of data_convert_int.c): [ORefused e],
   [OInt w ret] = destination read back as the target type holds w and ret was returned,
   [OFlt c v ret] = destination holds (c) v rounded by the FPU, [OQuery ret] = success without
   destination, [OFault] = the call does not return (isgraph() outside its table, store wider
   than the destination).  [vconv]/[iconv] are mpt_value_convert / mpt_iterator_consume.
   [src_ok s v]: v is a value of the source type.  [in_range c w]: cmin c <= w <= cmax c.
   Values are unbounded Z; every theorem quantifies over ALL values / ALL texts.

   READING OF "SAME NUMBER" FOR FLOATING TARGETS.  No binary float denotes e.g. 2^24+1, so for a
   floating target the requirement is: exact when the source is representable (has at most p
   significant bits), otherwise a p-bit neighbour within half a unit in the last place (ties to
   even), and a finite source never becomes infinite.  This is the weakest reading under which
   the property is satisfiable at all.  Integer and char targets are literal.
   The same reading applies to float -> float: the model's rounding [fround] is proved to be
   Flocq's [round radix2 (FLT_exp emin p) ZnearestE] (IEEE-754 round to nearest, ties to even,
   gradual underflow) of the exact real value of the source, refused exactly when that rounded
   value exceeds the largest finite target value, exact whenever the source is a number of the
   target format (every widening), and the bit pattern written decodes to that number.
   These theorems (marked REAL below) speak about real numbers, so they rest on the three
   axioms of Coq's standard library of classical reals (ClassicalDedekindReals.sig_forall_dec,
   ClassicalDedekindReals.sig_not_dec, FunctionalExtensionality.functional_extensionality_dep),
   shown by Print Assumptions and listed in props/c07.py; this development declares no axiom.
   text -> float: libc strtof/strtod/strtold stay an oracle (end pointer, errno == ERANGE,
   class of the value); the library's own logic around the oracle is proved. *)
From Coq Require Import Reals.
From Flocq Require Import Core.
From MptV Require Import Base.Mem C07.ConvModel C07.ConvSpec C07.ConvProofs C07.ConvTextProofs C07.ConvFloatProofs.
From MptV Require Import C07.ConvFloat C07.ConvRound C07.ConvFlocq C07.ConvBits C07.ConvFloatThm C07.ConvIntFloat C07.ConvTextFloat.
From MptV Require Import C07.ConvDispatch C07.ConvDispatchSpec C07.ConvDispatchProofs C07.ConvRangeReal.
Local Open Scope Z_scope.

(* ---- integer -> integer / char / long, all 8 source types x all targets, all values:
   an accepted conversion produced exactly the source value, that value lies in the range of
   the target type, and the number of bytes reported is the target's size. *)
Theorem C07_int_int_exact_or_refused :
  forall s v t w ret, src_ok s v = true -> conv s v t true = OInt w ret ->
    exists tc, tgt_cty t = Some tc /\ is_flt tc = false /\ w = v /\ in_range tc w = true /\ ret = cwidth tc.
Proof. exact conv_exact. Qed.

(* ---- asking without destination gives the same verdict (refused with the same error /
   accepted with the same reported size) as performing the conversion; every scalar or unknown
   target type.  (Vector targets are no scalar conversion: the converters answer MissingData
   without destination and mpt_value_convert maps scalar -> vector itself.) *)
Theorem C07_query_same_verdict :
  forall s v t, (forall k, t <> Tvec k) ->
    verdict_of (conv s v t true) = verdict_of (conv s v t false).
Proof. exact query_same. Qed.

(* ---- no source value makes a converter fault, for any target type code, with or without
   destination *)
Theorem C07_never_faults :
  forall s v t hd, src_ok s v = true -> verdict_of (conv s v t hd) <> VFault.
Proof. exact no_fault. Qed.

(* ---- the dispatch layers: mpt_value_convert and mpt_iterator_consume on a value of scalar
   type code sk ('c','b','y','n','q','i','u','x','t') *)
Theorem C07_value_convert_exact :
  forall sk c v tk w r, src_cty sk = Some c -> cmin c <= v <= cmax c -> vconv sk v tk true = OInt w r ->
    exists tc, tgt_cty (tty_of_code tk) = Some tc /\ is_flt tc = false /\ w = v /\ in_range tc w = true.
Proof. exact vconv_exact. Qed.

Theorem C07_iterator_consume_exact :
  forall sk c v tk w r, src_cty sk = Some c -> cmin c <= v <= cmax c -> iconv sk v tk true = OInt w r ->
    exists tc, tgt_cty (tty_of_code tk) = Some tc /\ is_flt tc = false /\ w = v /\ in_range tc w = true.
Proof. exact iconv_exact. Qed.

(* ---- numeric text -> integer.  [value_of base txt] is the number denoted by a COMPLETE numeral
   (optional white space, optional sign, optional 0x/0 prefix, then digits only; ConvSpec.v).
   If n characters are reported as consumed and w is stored, then the first n characters are a
   complete numeral, w is its value, and w is in the range of the target.  So over-long numerals
   (strtoimax/strtoumax saturate + ERANGE), negated numerals for unsigned targets (strtoumax
   wraps) and out-of-range values can only be refused.  Every text, every valid base. *)
Theorem C07_text_int_exact :            (* _mpt_convert_int, destination read as intN *)
  forall vlen c s base w n, valid_base base -> int_by_len vlen = Some c ->
    tobserve (Some c) true (convert_int_text true vlen (Some s) base) = TOInt w n ->
    value_of base (firstn n (cstr s)) = Some w /\ in_range c w = true.
Proof. exact convert_int_text_exact. Qed.

Theorem C07_text_uint_exact :           (* _mpt_convert_uint, destination read as uintN *)
  forall vlen c s base w n, valid_base base -> int_by_len vlen = Some c ->
    tobserve (Some (unsigned_of c)) true (convert_uint_text true vlen (Some s) base) = TOInt w n ->
    value_of base (firstn n (cstr s)) = Some w /\ in_range (unsigned_of c) w = true.
Proof. exact convert_uint_text_exact. Qed.

Theorem C07_text_wrapper_exact :        (* mpt_cint8 ... mpt_culong incl. the optional range *)
  forall c s base range w n, valid_base base -> int_cty c ->
    tobserve (Some c) true (get_string_fcn c true (Some s) base range) = TOInt w n ->
    value_of base (firstn n (cstr s)) = Some w /\ in_range c w = true /\
    match range with Some (lo, hi) => lo <= w <= hi | None => True end.
Proof. exact get_string_fcn_exact. Qed.

Theorem C07_convert_number_exact :      (* mpt_convert_number, targets b y n q i u x t l *)
  forall t s o w n, int_target t ->
    tobserve (tgt_cty t) true (convert_number (Some s) t true o) = TOInt w n ->
    exists tc, tgt_cty t = Some tc /\ value_of 0 (firstn n (cstr s)) = Some w /\ in_range tc w = true.
Proof. exact convert_number_exact. Qed.

Theorem C07_convert_string_exact :      (* mpt_convert_string, targets b y n q i u x t l *)
  forall t s o w n, int_target t ->
    tobserve (tgt_cty t) true (convert_string (Some s) t true o) = TOInt w n ->
    exists tc, tgt_cty t = Some tc /\ value_of 0 (firstn n (cstr s)) = Some w /\ in_range tc w = true.
Proof. exact convert_string_exact. Qed.

(* ---- integer -> floating type ([conv] yields [OFlt c v ret]: the destination holds
   round_int (fprec c) v, whose bit pattern is compared with the hardware's in every run) *)
Theorem C07_int_float_exact_when_representable :
  forall p v, 0 < p -> pbits p v -> round_int p v = v.
Proof. exact round_int_exact. Qed.

Theorem C07_int_float_correctly_rounded :
  forall p v, 0 < p ->
    exists m e, 0 <= e /\ Z.abs m <= 2 ^ p /\ round_int p v = m * 2 ^ e /\
      2 * Z.abs (round_int p v - v) <= 2 ^ e /\
      (round_int p v <> v -> 2 * Z.abs (round_int p v - v) = 2 ^ e -> Z.even m = true).
Proof. exact round_int_near. Qed.

Theorem C07_int_float_stays_finite :
  forall p v, 0 < p -> - 2 ^ 63 <= v < 2 ^ 64 -> Z.abs (round_int p v) <= 2 ^ 64.
Proof. exact round_int_finite. Qed.


(* ======================================================================================
   FLOATING SOURCES (mpt_data_convert_float32 / float64 / exflt) AND FLOATING TARGETS.
   [fdecode c bits]: the number a bit pattern of C type c denotes ([FFin neg m e] =
   (-1)^neg * m * 2^e, [FInf neg], [FNaN]); [fround c]: the model of the FPU's conversion to
   type c; [fencode c]: the bit pattern ([None] = NaN); [fconv src bits t hd]: what a caller of
   mpt_data_convert_<src>(&value, t, hd ? dest : 0) observes (ConvFloat.v transcribes
   data_convert_float.c after its fix commits).
   Formats: f_elsb / fprec / f_emax = -149/24/127 (float), -1074/53/1023 (double),
   -16445/64/16383 (x87 long double).  [fmaxR c] = (2^p - 1) * 2^(emax - p + 1) = FLT_MAX,
   DBL_MAX, LDBL_MAX.  [dyR neg m e] = F2R (Float radix2 (cond_Zopp neg m) e), the real value.
   [rne_to c x] = round radix2 (FLT_exp (f_elsb c) (fprec c)) ZnearestE x.
   ====================================================================================== *)

(* ---- REAL. the model's rounding is IEEE round-to-nearest-even of the exact value; it yields an
   infinity exactly when the rounded magnitude exceeds the largest finite value *)
Theorem C07_float_round_is_IEEE_nearest_even :
  forall c neg m e, 0 <= m ->
    let x := F2R (Float radix2 (cond_Zopp neg m) e) in
    let y := round radix2 (FLT_exp (f_elsb c) (fprec c)) ZnearestE x in
    ((Rabs y <= fmaxR c)%R ->
       exists m' e', fround c (FFin neg m e) = FFin neg m' e' /\ 0 <= m' /\
                     F2R (Float radix2 (cond_Zopp neg m') e') = y) /\
    ((fmaxR c < Rabs y)%R -> fround c (FFin neg m e) = FInf neg).
Proof. exact fround_is_rne. Qed.

(* ---- (no reals, closed under the global context) the same fact stated on integers only.
   [fround] is, by definition: zero for zero; otherwise the pair (rsig, rexp), replaced by the
   infinity of the same sign when its binary exponent exceeds emax ... *)
Theorem C07_float_round_unfolded :
  forall c neg m e,
    fround c (FFin neg m e) =
      if m =? 0 then FFin neg 0 0
      else if rsig c m e =? 0 then FFin neg 0 0
      else if f_emax c <? Z.log2 (rsig c m e) + rexp c m e then FInf neg
      else FFin neg (rsig c m e) (rexp c m e).
Proof. exact fround_unfold. Qed.

(* ... and (rsig, rexp) is round-to-nearest-even of m * 2^e onto the format: it is a number of
   the format (at most p bits or 2^p, exponent >= the subnormal exponent, p bits above it); no
   number n * 2^f of the format is closer; if a different one is equally close the chosen
   significand is even.  [dscale m e g] = m * 2^(e - g), [ddist] = |difference| in those units,
   for any unit exponent g not above the exponents involved. *)
Theorem C07_float_round_nearest_even_Z :
  forall c m e, 0 < m ->
    let m' := rsig c m e in let e' := rexp c m e in
    (0 <= m' <= 2 ^ fprec c /\ f_elsb c <= e' /\ (f_elsb c < e' -> 2 ^ (fprec c - 1) <= m')) /\
    (forall n f g, 0 <= n <= 2 ^ fprec c -> f_elsb c <= f -> g <= e -> g <= e' -> g <= f ->
       ddist m' e' m e g <= ddist n f m e g) /\
    (forall n f g, 0 <= n <= 2 ^ fprec c -> f_elsb c <= f -> g <= e -> g <= e' -> g <= f ->
       ddist n f m e g = ddist m' e' m e g -> dscale n f g <> dscale m' e' g -> Z.even m' = true).
Proof. exact rsig_nearest_even. Qed.

(* ---- REAL. float -> float, all 3 x 3 pairs, every bit pattern: a finite source is REFUSED
   (BadValue) when its correctly rounded value exceeds the largest finite target value and
   otherwise ACCEPTED with a finite result equal to the correctly rounded value; infinities
   and NaN are handed on. *)
Theorem C07_float_float_rounded_or_refused :
  forall src bits t tc hd, is_flt src = true -> tgt_cty t = Some tc -> is_flt tc = true ->
    match fdecode src bits with
    | FFin neg m e =>
      let y := rne_to tc (dyR neg m e) in
      ((fmaxR tc < Rabs y)%R -> fconv src bits t hd = FRefused BadValue) /\
      ((Rabs y <= fmaxR tc)%R -> exists m' e', 0 <= m' /\ dyR neg m' e' = y /\
          fconv src bits t hd = accepted_as tc hd (FFin neg m' e'))
    | v => fconv src bits t hd = accepted_as tc hd v
    end.
Proof. exact fconv_rounds_or_refuses. Qed.

(* ---- REAL. the bytes: whatever bit pattern an accepted conversion wrote, read back as the
   target type it is the correctly rounded source (finite, within range), or the source's
   infinity, or a NaN for a NaN; the target's size is reported *)
Theorem C07_float_float_destination :
  forall src bits t tc c' ob ret, is_flt src = true -> tgt_cty t = Some tc -> is_flt tc = true ->
    fconv src bits t true = FOk c' ob ret ->
    c' = tc /\ ret = cwidth tc /\
    match fdecode src bits with
    | FFin neg m e =>
      let y := rne_to tc (dyR neg m e) in
      (Rabs y <= fmaxR tc)%R /\
      exists b m2 e2, ob = Some b /\ fdecode tc b = FFin neg m2 e2 /\ dyR neg m2 e2 = y
    | FInf sg => exists b, ob = Some b /\ fdecode tc b = FInf sg
    | FNaN => ob = None
    end.
Proof. exact fconv_destination. Qed.

(* ---- REAL. exact values are preserved: a source that is a finite number of the target
   format is accepted and keeps its value ... *)
Theorem C07_float_float_exact_when_representable :
  forall src bits t tc hd neg m e, is_flt src = true -> tgt_cty t = Some tc -> is_flt tc = true ->
    fdecode src bits = FFin neg m e ->
    (exists n f, 0 <= n < 2 ^ fprec tc /\ f_elsb tc <= f <= f_emax tc - fprec tc + 1 /\ dyR neg n f = dyR neg m e) ->
    exists m' e', 0 <= m' /\ dyR neg m' e' = dyR neg m e /\
      fconv src bits t hd = accepted_as tc hd (FFin neg m' e').
Proof. exact fconv_exact_when_representable. Qed.

(* ---- REAL. ... in particular every widening (float -> float/double/long double, double ->
   double/long double, long double -> long double) is accepted and exact *)
Theorem C07_float_widening_exact :
  forall src bits t tc hd neg m e, is_flt src = true -> tgt_cty t = Some tc -> is_flt tc = true ->
    fprec src <= fprec tc -> fdecode src bits = FFin neg m e ->
    exists m' e', 0 <= m' /\ dyR neg m' e' = dyR neg m e /\
      fconv src bits t hd = accepted_as tc hd (FFin neg m' e').
Proof. exact fconv_widening_exact. Qed.

(* ---- (no reals) encode/decode: every finite value the rounding can produce (at most p bits or
   exactly 2^p, exponent >= the subnormal exponent, below 2^(emax+1)) has a bit pattern, and
   that pattern denotes the same number: m2 * 2^e2 = m * 2^e *)
Theorem C07_float_bits_roundtrip :
  forall c neg m e, is_flt c = true ->
    0 <= m <= 2 ^ fprec c -> f_elsb c <= e -> (0 < m -> Z.log2 m + e <= f_emax c) ->
    exists b m2 e2, fencode c (FFin neg m e) = Some b /\ fdecode c b = FFin neg m2 e2 /\
      0 <= m2 /\ same_dyadic m2 e2 m e.
Proof. exact fdecode_fencode. Qed.

(* ---- (no reals) float -> integer/char/long is not offered at all: always BadType, so there
   is no truncation toward zero that could go out of range; and no input faults *)
Theorem C07_float_int_never_offered :
  forall src bits t tc hd, tgt_cty t = Some tc -> is_flt tc = false -> fconv src bits t hd = FRefused BadType.
Proof. exact fconv_no_integer_target. Qed.

Theorem C07_float_never_faults : forall src bits t hd, fconv src bits t hd <> FFault.
Proof. exact fconv_never_faults. Qed.

(* ---- (no reals) integer -> floating type through the converters and the dispatch layers:
   always accepted with the target's size, and what the FPU converts is the source itself *)
Theorem C07_int_float_always_accepted :
  forall s v t tc, tgt_cty t = Some tc -> is_flt tc = true ->
    conv s v t true = OFlt tc v (cwidth tc) /\ conv s v t false = OQuery (cwidth tc).
Proof. exact conv_float_target. Qed.

Theorem C07_int_float_source_is_converted :
  forall s v t c w ret, conv s v t true = OFlt c w ret ->
    w = v /\ tgt_cty t = Some c /\ is_flt c = true /\ ret = cwidth c.
Proof. exact conv_flt_inv. Qed.

Theorem C07_value_convert_float_source_is_converted :
  forall sk v tk c w r, vconv sk v tk true = OFlt c w r ->
    w = v /\ tgt_cty (tty_of_code tk) = Some c /\ is_flt c = true.
Proof. exact vconv_flt_inv. Qed.

Theorem C07_iterator_consume_float_source_is_converted :
  forall sk v tk c w r, iconv sk v tk true = OFlt c w r ->
    w = v /\ tgt_cty (tty_of_code tk) = Some c /\ is_flt c = true.
Proof. exact iconv_flt_inv. Qed.

(* ---- REAL. the integer -> float value IS IEEE round-to-nearest-even of the integer (this
   subsumes exact-when-representable and within-half-an-ulp above), for every integer *)
Theorem C07_int_float_is_IEEE_nearest_even :
  forall c v, IZR (round_int (fprec c) v) = round radix2 (FLT_exp (f_elsb c) (fprec c)) ZnearestE (IZR v).
Proof. exact round_int_is_rne. Qed.

(* ---- REAL. and the bit pattern compared with the hardware's, read as the target type, is that
   number: finite (no infinity, no NaN) for every source of at most 64 bits *)
Theorem C07_int_float_destination :
  forall c v, is_flt c = true -> - 2 ^ 63 <= v < 2 ^ 64 ->
    exists neg m2 e2, fdecode c (flt_bits c (round_int (fprec c) v)) = FFin neg m2 e2 /\
      dyR neg m2 e2 = rne_to c (IZR v).
Proof. exact int_float_destination. Qed.

(* ======================================================================================
   NUMERIC TEXT -> FLOATING TYPE.  [flt_oracle] = what libc's strtof/strtod/strtold answered
   (fo_end: characters parsed, fo_erange: errno == ERANGE, fo_cls: finite / +inf / -inf /
   NaN); [fo_overflow o] = fo_erange o && (fo_cls o is +inf or -inf).  The value stored is
   libc's ([StOrc], observed as [TOFlt n]).
   ====================================================================================== *)

(* complete case analysis of mpt_cfloat / mpt_cdouble / mpt_cldouble *)
Theorem C07_text_float_cases :
  forall hd s o,
    (cstr s = [] /\ convert_float_text hd s o = TEmpty) \/
    (cstr s <> [] /\ fo_overflow o = true /\ convert_float_text hd s o = TRefused BadValue) \/
    (cstr s <> [] /\ fo_overflow o = false /\ fo_end o = O /\
       convert_float_text hd s o = if all_space (cstr s) then TEmpty else TRefused BadType) \/
    (cstr s <> [] /\ fo_overflow o = false /\ fo_end o <> O /\
       convert_float_text hd s o = TDone (if hd then StOrc else StNone) (fo_end o)).
Proof. exact convert_float_text_cases. Qed.

(* accepted => exactly the characters libc parsed (at least one) are reported as consumed, the
   destination holds libc's value, and libc did not flag an overflow *)
Theorem C07_text_float_accepts :        (* mpt_convert_number, targets f d e *)
  forall t s o n, flt_target_t t ->
    tobserve (tgt_cty t) true (convert_number (Some s) t true o) = TOFlt n ->
    n = fo_end o /\ n <> O /\ fo_overflow o = false.
Proof. exact convert_number_float_accepts. Qed.

Theorem C07_text_float_string_accepts : (* mpt_convert_string: k leading blanks skipped and added back *)
  forall t s o n, flt_target_t t ->
    tobserve (tgt_cty t) true (convert_string (Some s) t true o) = TOFlt n ->
    let k := fst (skip_space (cstr s)) in
    fo_overflow o = false /\ (fo_end o - k <> 0)%nat /\ n = (k + (fo_end o - k))%nat /\
    ((k <= fo_end o)%nat -> n = fo_end o).
Proof. exact convert_string_float_accepts. Qed.

(* a finite numeral beyond the range (ERANGE and +HUGE_VAL or -HUGE_VAL: both signs) is refused,
   with and without destination; BadValue is given for nothing else *)
Theorem C07_text_float_overflow_refused :
  forall t s hd o, flt_target_t t -> cstr s <> [] ->
    fo_erange o = true -> fo_cls o = FcPosInf \/ fo_cls o = FcNegInf ->
    convert_number (Some s) t hd o = TRefused BadValue.
Proof. exact convert_number_float_overflow. Qed.

Theorem C07_text_float_string_overflow_refused :
  forall t s hd o, flt_target_t t -> snd (skip_space (cstr s)) <> [] ->
    fo_erange o = true -> fo_cls o = FcPosInf \/ fo_cls o = FcNegInf ->
    convert_string (Some s) t hd o = TRefused BadValue.
Proof. exact convert_string_float_overflow. Qed.

Theorem C07_text_float_badvalue_only_overflow :
  forall t s hd o, flt_target_t t -> convert_number (Some s) t hd o = TRefused BadValue ->
    fo_erange o = true /\ (fo_cls o = FcPosInf \/ fo_cls o = FcNegInf).
Proof. exact convert_number_float_badvalue. Qed.

(* without destination: the same answer, nothing stored *)
Theorem C07_text_float_query_same :
  forall t s o, flt_target_t t ->
    convert_number (Some s) t false o = strip (convert_number (Some s) t true o).
Proof. exact convert_number_float_query. Qed.


(* ======================================================================================
   THE LAYERS AROUND THE CONVERTERS (ConvDispatch.v): mpt_value_convert for EVERY source type
   code, floating sources behind it, the two interface wrappers of data_converter.c,
   mpt_iterator_consume on empty / failing iterators, every branch of mpt_convert_string (as it
   is and as patched by docs/C07_convert_string_space.diff), the optional range of
   mpt_cfloat/cdouble/cldouble.
   [value_convert_c sk tk conv_ok tostr]: what mpt_value_convert does for a value of type code
   sk and target code tk ([conv_ok]: the converter mpt_data_converter(sk) exists and accepted;
   [tostr]: the value is terminated text): [VRefused e], [VConv ret] (the converter wrote),
   [VCopy n] (memcpy of n bytes of the source), [VCopyVec], [VMkVec len], [VStr].
   ====================================================================================== *)

(* ---- with a NUMERIC target (c b y n q i u x t l f d e) the dispatcher refuses, or the
   converter of the source type wrote (then the scalar theorems above / the object's own
   conversion say what), or the value has the very same type and exactly sizeof(target) bytes
   are copied.  No other source type code, no vector header, no string pointer can end up in a
   number. *)
Theorem C07_dispatch_number_target :
  forall sk tk conv_ok tostr tc, tgt_cty (tty_of_code tk) = Some tc ->
    match value_convert_c sk tk conv_ok tostr with
    | VRefused _ => conv_ok = false
    | VConv r => conv_ok = true /\ r = (if sk =? tk then 0 else 3)
    | VCopy n => conv_ok = false /\ sk = tk /\ n = cwidth tc
    | _ => False
    end.
Proof. exact value_convert_c_number. Qed.

Theorem C07_dispatch_foreign_source_refused :
  forall sk tk tostr tc, tgt_cty (tty_of_code tk) = Some tc -> sk <> tk ->
    exists e, value_convert_c sk tk false tostr = VRefused e.
Proof. exact value_convert_c_foreign_refused. Qed.

(* ---- a raw copy is made only of a value of the target's own type, with the size of the
   traits table, never of a managed type; type 0 is never a target *)
Theorem C07_dispatch_raw_copy_same_type :
  forall sk tk conv_ok tostr n, value_convert_c sk tk conv_ok tostr = VCopy n ->
    sk = tk /\ traits tk = Some (n, false).
Proof. exact value_convert_c_copy. Qed.

(* ---- [value_convert] of the theorems C07_value_convert_* IS this skeleton around the eight
   switches (every integer/char source code, every value, every target code) *)
Theorem C07_dispatch_is_value_convert :
  forall sk c v tk hd, src_cty sk = Some c ->
    exists s, data_converter sk = ConvInt s /\
    value_convert sk v tk hd =
      if tk =? 0 then Refused BadArgument else
      match convert_int s v (tty_of_code tk) hd with
      | CFault => CFault
      | Done stv _ => int_vres c v hd stv (value_convert_c sk tk true false)
      | Refused _ => int_vres c v hd StNone (value_convert_c sk tk false false)
      end.
Proof. exact value_convert_skeleton. Qed.

(* ---- float / double / long double VALUES through mpt_value_convert: the destination and the
   verdict are those of mpt_data_convert_float32/float64/exflt (so every C07_float_* theorem
   holds behind the dispatcher); only the return code (0 same type / 3) and the error code change *)
Theorem C07_dispatch_float_source :
  forall src bits tk hd, flt_src src -> tk <> 0 ->
    let code := if flt_code src =? tk then 0 else 3 in
    match fconv src bits (tty_of_code tk) hd with
    | FOk c b _ => value_convert_flt src bits tk hd = FOk c b code
    | FVec l _ => value_convert_flt src bits tk hd = FVec l code
    | FQuery _ => value_convert_flt src bits tk hd = FQuery code
    | FFault => value_convert_flt src bits tk hd = FFault
    | FRefused _ => exists e, value_convert_flt src bits tk hd = FRefused e
    end.
Proof. exact value_convert_flt_is_fconv. Qed.

Theorem C07_dispatch_float_never_faults :
  forall src bits tk hd, flt_src src -> value_convert_flt src bits tk hd <> FFault.
Proof. exact value_convert_flt_never_faults. Qed.

(* ---- _mpt_metatype_wrap with a reference target: the new referent is retained first (and the
   call refused when that fails), then the old one released; without destination nothing happens *)
Theorem C07_metatype_reference_target :
  forall w hd addref_ok old ans, w <> WNoFrom ->
    metatype_wrap w 2049 hd addref_ok old ans =
      if hd then (if is_obj w && negb addref_ok then MwRefused BadOperation else MwRef (is_obj w) old) else MwQuery.
Proof. exact metatype_wrap_ref. Qed.

(* ---- VALUES WITHOUT A DATA ADDRESS (value._addr == 0, MPT_VALUE_INIT(type, 0)); [from] = None.
   The converters read such a source as 0.  [value_convert_a p] / [iterator_consume_a p] /
   [value_convert_flt_a p]: p = value_convert.c as patched by docs/C07_null_raw_copy.diff or not. *)
(* as patched an address-less value IS the value 0 of its type: C07_value_convert_exact,
   C07_iterator_consume_exact, ... speak about it *)
Theorem C07_null_value_is_zero :
  forall sk tk hd, value_convert_a true sk None tk hd = value_convert sk 0 tk hd.
Proof. exact value_convert_a_null_patched. Qed.
Theorem C07_null_value_consume_is_zero :
  forall sk tk hd, iterator_consume_a true sk None tk hd = iterator_consume sk 0 tk hd.
Proof. exact iterator_consume_a_null_patched. Qed.
(* patched or not: the query never touches the address *)
Theorem C07_null_value_query :
  forall p sk tk, value_convert_a p sk None tk false = value_convert sk 0 tk false.
Proof. exact value_convert_a_null_query. Qed.
(* patched or not: the value 0, or (unpatched only) a fault of the raw copy of the value's own type
   into a destination after the converter refused *)
Theorem C07_null_value_cases :
  forall p sk tk hd,
    value_convert_a p sk None tk hd = value_convert sk 0 tk hd \/
    (value_convert_a p sk None tk hd = CFault /\ p = false /\ hd = true /\ sk = tk /\ int_conv_ok sk 0 tk hd = false).
Proof. exact value_convert_a_null_cases. Qed.
(* floating values: 0.0, never a fault, patched or not *)
Theorem C07_null_float_value_is_zero :
  forall p src tk hd, flt_src src -> value_convert_flt_a p src None tk hd = value_convert_flt src 0 tk hd.
Proof. exact value_convert_flt_a_null. Qed.
Theorem C07_null_float_value_never_faults :
  forall p src from tk hd, flt_src src -> value_convert_flt_a p src from tk hd <> FFault.
Proof. exact value_convert_flt_a_never_faults. Qed.

(* ---- mpt_iterator_consume, ANY iterator (value or none, advance succeeds or fails), any
   target code incl. 0 = skip: the destination receives bytes only after BOTH the conversion and
   the advance succeeded, exactly sizeof(target) of them, and the source type is returned ... *)
Theorem C07_iterator_writes_only_after_advance :
  forall it tk hd vc r calls n, iterator_consume_c it tk hd vc = IOut r calls (Some n) ->
    hd = true /\ vc = None /\ it_adv it = None /\ tk <> 0 /\ calls = 1 /\
    exists sk tc, it_val it = Some sk /\ tgt_cty (tty_of_code tk) = Some tc /\ n = cwidth tc /\ r = inr sk.
Proof. exact iterator_consume_c_copies. Qed.

(* ... every error leaves the destination alone, and only a failing advance() has been called *)
Theorem C07_iterator_error_leaves_destination :
  forall it tk hd vc e calls cp, iterator_consume_c it tk hd vc = IOut (inl e) calls cp ->
    cp = None /\ (calls = 1 -> it_adv it = Some e).
Proof. exact iterator_consume_c_error. Qed.

Theorem C07_iterator_query_same :
  forall it tk vc, iterator_consume_c it tk false vc =
    match iterator_consume_c it tk true vc with IOut r calls _ => IOut r calls None end.
Proof. exact iterator_consume_c_query. Qed.

(* [iterator_consume] of C07_iterator_consume_exact is the case "one value, advance succeeds" *)
Theorem C07_iterator_is_consume :
  forall sk v tk hd, tk <> 0 -> value_convert sk v tk hd <> CFault ->
    iterator_consume_c (mkIter (Some sk) None) tk hd (cres_err (value_convert sk v tk hd)) =
      match iterator_consume sk v tk hd with
      | Refused e => IOut (inl e) 0 None
      | Done _ ret => IOut (inr ret) 1 (if hd then option_map cwidth (tgt_cty (tty_of_code tk)) else None)
      | CFault => IOut (inl BadType) 0 None
      end.
Proof. exact iterator_consume_is_c. Qed.

(* ---- mpt_convert_string: every numeric type CODE reaches the number branch (type 0, 'k', the
   char vector, TypeValFmt and 's' are the only other branches and hand out pointers / a format,
   never a number), so C07_convert_string_exact etc. are statements about the entry point ... *)
Theorem C07_convert_string_every_numeric_code :
  forall p from tk hd o tc, tgt_cty (tty_of_code tk) = Some tc ->
    convert_string_full p from tk hd o = SNum (convert_string_p p from (tty_of_code tk) hd o).
Proof. exact convert_string_full_numeric. Qed.

(* ... for the function as it is (p = false) and as patched by docs/C07_convert_string_space.diff
   (p = true): the patch only turns an answer into "0 = nothing converted" ... *)
Theorem C07_convert_string_patch_changes_only_zero :
  forall p from t hd o,
    convert_string_p p from t hd o = convert_string from t hd o \/ convert_string_p p from t hd o = TEmpty.
Proof. exact convert_string_p_cases. Qed.

Theorem C07_convert_string_exact_patched_or_not :
  forall p t s o w n, int_target t ->
    tobserve (tgt_cty t) true (convert_string_p p (Some s) t true o) = TOInt w n ->
    exists tc, tgt_cty t = Some tc /\ value_of 0 (firstn n (cstr s)) = Some w /\ in_range tc w = true.
Proof. exact convert_string_p_exact. Qed.

Theorem C07_convert_string_float_patched_or_not :
  forall p t s o n, flt_target_t t ->
    tobserve (tgt_cty t) true (convert_string_p p (Some s) t true o) = TOFlt n ->
    let k := fst (skip_space (cstr s)) in
    fo_overflow o = false /\ (fo_end o - k <> 0)%nat /\ n = (k + (fo_end o - k))%nat /\
    ((k <= fo_end o)%nat -> n = fo_end o).
Proof. exact convert_string_p_float_accepts. Qed.

(* ... and THE PATCHED FUNCTION NEVER REPORTS CONSUMED CHARACTERS WITHOUT HAVING STORED A VALUE
   (every target type, every text): the known finding convert_string_space_only is gone *)
Theorem C07_convert_string_patched_always_stores :
  forall from t o stv n, convert_string_p true from t true o = TDone stv n -> stv <> StNone.
Proof. exact convert_string_patched_stores. Qed.

(* the keyword branch stays inside the text: offset < consumed <= strlen *)
Theorem C07_convert_string_key_inside_text :
  forall p s0 hd o off n,
    convert_string_full p (Some s0) 107 hd o = SKey (Some (Some (off, n))) -> (off < n <= length (cstr s0))%nat.
Proof. exact convert_string_full_key. Qed.

(* ---- the optional range of mpt_cfloat / mpt_cdouble / mpt_cldouble.  [v] = the value libc
   returned, [fgt] = C's > on decoded floating values.  Accepted => not below the lower, not
   above the upper bound, and everything the call without range guarantees ... *)
Theorem C07_text_float_range_accepts :
  forall hd s o v lo hi stv n, convert_float_text_r hd s o v (Some (lo, hi)) = TDone stv n ->
    fgt lo v = false /\ fgt v hi = false /\ convert_float_text hd s o = TDone stv n.
Proof. exact convert_float_text_r_accepts. Qed.

(* ... a parsed value outside is refused (BadValue), with and without destination ... *)
Theorem C07_text_float_range_refuses :
  forall hd s o v lo hi stv n, convert_float_text hd s o = TDone stv n ->
    fgt lo v = true \/ fgt v hi = true ->
    convert_float_text_r hd s o v (Some (lo, hi)) = TRefused BadValue.
Proof. exact convert_float_text_r_outside. Qed.

Theorem C07_text_float_range_query_same :
  forall s o v range, convert_float_text_r false s o v range = strip (convert_float_text_r true s o v range).
Proof. exact convert_float_text_r_query. Qed.

(* ---- REAL. ... where [fgt] on finite values is the order of the real numbers they denote, so an
   accepted finite value lies in the closed real interval of finite bounds *)
Theorem C07_float_gt_is_real_order :
  forall na ma ea nb mb eb,
    fgt (FFin na ma ea) (FFin nb mb eb) = true <-> (dyR nb mb eb < dyR na ma ea)%R.
Proof. exact fgt_fin_R. Qed.

Theorem C07_text_float_range_is_real_interval :
  forall hd s o stv n nl ml el nh mh eh nv mv ev,
    convert_float_text_r hd s o (FFin nv mv ev) (Some (FFin nl ml el, FFin nh mh eh)) = TDone stv n ->
    (dyR nl ml el <= dyR nv mv ev <= dyR nh mh eh)%R.
Proof. exact text_float_range_real. Qed.

(* ---- non-vacuity: the hypotheses are met by real conversions and the statements say something ---- *)
Example C07_ex_accept : conv I32 300 Tq true = OInt 300 2.
Proof. vm_compute. reflexivity. Qed.
Example C07_ex_refuse_narrow : conv I32 300 Ty true = ORefused BadValue.
Proof. vm_compute. reflexivity. Qed.
Example C07_ex_refuse_negative : conv I64 (-1) Tt false = ORefused BadValue.
Proof. vm_compute. reflexivity. Qed.
Example C07_ex_uint64_max : conv U64 18446744073709551615 Tt true = OInt 18446744073709551615 8
                         /\ conv U64 18446744073709551615 Tx true = ORefused BadValue.
Proof. split; vm_compute; reflexivity. Qed.
Example C07_ex_char : conv I64 65 Tc true = OInt 65 1 /\ conv I64 4294967361 Tc true = ORefused BadValue
                   /\ conv U32 200 Tc false = ORefused BadValue.
Proof. repeat split; vm_compute; reflexivity. Qed.
Example C07_ex_query : conv U8 200 Tx false = OQuery 8 /\ conv U16 7 Te false = OQuery 16.
Proof. split; vm_compute; reflexivity. Qed.
Example C07_ex_float : conv I32 16777217 Tf true = OFlt CF32 16777217 4 /\ round_int 24 16777217 = 16777216
                    /\ round_int 24 16777219 = 16777220 /\ round_int 53 9007199254740993 = 9007199254740992.
Proof. repeat split; vm_compute; reflexivity. Qed.
Example C07_ex_value_convert : vconv 105 (-5) 98 true = OInt (-5) 3 /\ vconv 99 7 99 true = OInt 7 0
                            /\ vconv 105 (-5) 121 true = ORefused BadType.
Proof. repeat split; vm_compute; reflexivity. Qed.
(* "  -0x7f;"  : 7 characters consumed, value -127 *)
Example C07_ex_text : tobserve (Some CI8) true (convert_int_text true 1 (Some [32;32;45;48;120;55;102;59]) 0) = TOInt (-127) 7
                   /\ value_of 0 [32;32;45;48;120;55;102] = Some (-127).
Proof. split; vm_compute; reflexivity. Qed.
(* "9223372036854775808" for int64, "-1" and "-18446744073709551615" for uint64, "256" for uint8: refused *)
Example C07_ex_text_refused :
  convert_int_text true 8 (Some [57;50;50;51;51;55;50;48;51;54;56;53;52;55;55;53;56;48;56]) 0 = TRefused BadValue
  /\ convert_uint_text true 8 (Some [45;49]) 0 = TRefused BadValue
  /\ convert_uint_text true 8 (Some [45;49;56;52;52;54;55;52;52;48;55;51;55;48;57;53;53;49;54;49;53]) 0 = TRefused BadValue
  /\ convert_uint_text true 1 (Some [50;53;54]) 0 = TRefused BadValue
  /\ convert_number (Some [57;50;50;51;51;55;50;48;51;54;56;53;52;55;55;53;56;48;56]) Tx true (mkOracle 0 false FcFinite) = TRefused BadValue.
Proof. repeat split; vm_compute; reflexivity. Qed.
(* ---- floating sources: what the definitions are, and real conversions ---- *)
Example C07_ex_formats :
  (forall c x, rne_to c x = round radix2 (FLT_exp (f_elsb c) (fprec c)) ZnearestE x) /\
  FLT_exp (f_elsb CF32) (fprec CF32) = FLT_exp (-149) 24 /\
  FLT_exp (f_elsb CF64) (fprec CF64) = FLT_exp (-1074) 53 /\
  FLT_exp (f_elsb CF80) (fprec CF80) = FLT_exp (-16445) 64 /\
  (forall neg m e, dyR neg m e = F2R (Float radix2 (cond_Zopp neg m) e)).
Proof. repeat split; reflexivity. Qed.
(* FLT_MAX = (2^24 - 1) * 2^104, DBL_MAX = (2^53 - 1) * 2^971 *)
Example C07_ex_fmax : fmaxR CF32 = F2R (Float radix2 16777215 104) /\ fmaxR CF64 = F2R (Float radix2 9007199254740991 971)
                   /\ 16777215 * 2 ^ 104 = 340282346638528859811704183484516925440.
Proof. repeat split; reflexivity. Qed.
(* double -> float.  0x47efffffe0000000 = FLT_MAX: accepted, 0x7f7fffff.  0x47efffffefffffff (just below the
   midpoint to 2^128): rounds down to FLT_MAX, accepted.  0x47effffff0000000 (the midpoint: ties to even = 2^128)
   and everything above: refused.  Infinity is handed on. *)
Example C07_ex_narrow_overflow :
  fconv CF64 0x47efffffe0000000 Tf true = FOk CF32 (Some 0x7f7fffff) 4 /\
  fconv CF64 0x47efffffefffffff Tf true = FOk CF32 (Some 0x7f7fffff) 4 /\
  fconv CF64 0x47effffff0000000 Tf true = FRefused BadValue /\
  fconv CF64 0xc7effffff0000000 Tf false = FRefused BadValue /\
  fconv CF64 0x7fefffffffffffff Tf true = FRefused BadValue /\
  fconv CF64 0x7ff0000000000000 Tf true = FOk CF32 (Some 0x7f800000) 4 /\
  fconv CF64 0x7ff8000000000000 Tf true = FOk CF32 None 4.
Proof. repeat split; vm_compute; reflexivity. Qed.
(* ties to even at 24 bits (1 + 2^-24 -> 1, 1 + 3*2^-24 -> 1 + 2^-22), gradual underflow
   (2^-149 -> smallest subnormal, 2^-150 -> tie to 0, just above -> 2^-149), exact widening *)
Example C07_ex_narrow_rounding :
  fconv CF64 0x3ff0000010000000 Tf true = FOk CF32 (Some 0x3f800000) 4 /\
  fconv CF64 0x3ff0000030000000 Tf true = FOk CF32 (Some 0x3f800002) 4 /\
  fconv CF64 0x3ff0000010000001 Tf true = FOk CF32 (Some 0x3f800001) 4 /\
  fconv CF64 0x36a0000000000000 Tf true = FOk CF32 (Some 1) 4 /\
  fconv CF64 0x3690000000000000 Tf true = FOk CF32 (Some 0) 4 /\
  fconv CF64 0x3690000000000001 Tf true = FOk CF32 (Some 1) 4 /\
  fconv CF32 0x3f800001 Td true = FOk CF64 (Some 0x3ff0000020000000) 8 /\
  fconv CF32 0x00000001 Td true = FOk CF64 (Some 0x36a0000000000000) 8 /\
  fconv CF64 0x3ff0000000000001 Te false = FQuery 16.
Proof. repeat split; vm_compute; reflexivity. Qed.
(* the integer-only form: 2^24+1 -> tie -> even significand 2^23 at exponent 1; 2^24+3 -> 2^23+2;
   subnormal range: 2^-150 -> tie to 0, 3 * 2^-150 -> tie to 2 * 2^-149; and the bits of (float) 16777217 *)
Example C07_ex_rsig :
  rsig CF32 16777217 0 = 8388608 /\ rexp CF32 16777217 0 = 1 /\ rsig CF32 16777219 0 = 8388610 /\
  rsig CF32 1 (-150) = 0 /\ rsig CF32 3 (-150) = 2 /\ rexp CF32 3 (-150) = -149 /\
  fdecode CF32 (flt_bits CF32 (round_int 24 16777217)) = FFin false 8388608 1 /\
  fround CF64 (FFin true 9007199254740993 0) = FFin true 4503599627370496 1.
Proof. repeat split; vm_compute; reflexivity. Qed.
(* float -> integer: 1.0 and 1e300 alike *)
Example C07_ex_float_to_int :
  fconv CF64 0x3ff0000000000000 Ti true = FRefused BadType /\ fconv CF64 0x7e37e43c8800759c Tx false = FRefused BadType
  /\ fconv CF32 0x3f800000 Tc true = FRefused BadType.
Proof. repeat split; reflexivity. Qed.
(* text -> float.  "1e39" for float: libc parsed 4 characters, ERANGE, +inf: refused; "-1e39": refused;
   "1e-50": ERANGE but finite (underflow): accepted, 5 characters; "inf": no ERANGE: accepted;
   "abc": nothing parsed: BadType; "  ": nothing parsed, white space: 0 *)
Example C07_ex_text_float :
  convert_number (Some [49;101;51;57]) Tf true (mkOracle 4 true FcPosInf) = TRefused BadValue /\
  convert_number (Some [45;49;101;51;57]) Tf false (mkOracle 5 true FcNegInf) = TRefused BadValue /\
  tobserve (Some CF32) true (convert_number (Some [49;101;45;53;48]) Tf true (mkOracle 5 true FcFinite)) = TOFlt 5 /\
  tobserve (Some CF64) true (convert_number (Some [105;110;102]) Td true (mkOracle 3 false FcPosInf)) = TOFlt 3 /\
  convert_number (Some [97;98;99]) Td true (mkOracle 0 false FcFinite) = TRefused BadType /\
  convert_number (Some [32;32]) Te true (mkOracle 0 false FcFinite) = TEmpty /\
  tobserve (Some CF64) true (convert_string (Some [32;49;46;53;120]) Td true (mkOracle 4 false FcFinite)) = TOFlt 4.
Proof. repeat split; vm_compute; reflexivity. Qed.
(* the known finding is visible in the model: white space only, 2 characters "consumed", nothing stored *)
Example C07_ex_known_finding :
  tobserve (Some CI32) true (convert_string (Some [32;32]) Ti true (mkOracle 0 false FcFinite)) = TOUntouched 2.
Proof. vm_compute. reflexivity. Qed.

(* ---- the layers around the converters ---- *)
(* an int32 without address asked for int32 with a destination: 0 stored, code 0 (through the iterator: 'i' = 105);
   UNPATCHED, of the nine scalar source codes asked for their own type only 'c' (99; 0 is no graphic character, the
   converter refuses, the raw copy reads the null address) faults *)
Example C07_ex_null_value :
  vconv 105 0 105 true = OInt 0 0 /\ value_convert_a false 105 None 105 true = value_convert 105 0 105 true /\
  observe (tty_of_code 105) true (iterator_consume_a false 105 None 105 true) = OInt 0 105 /\
  filter (fun k => match value_convert_a false k None k true with CFault => true | _ => false end)
         [99; 98; 121; 110; 113; 105; 117; 120; 116] = [99] /\
  value_convert_a true 99 None 99 true = Done (StInt CChar 0) 0.
Proof. repeat split; vm_compute; reflexivity. Qed.
(* a string pointer ('s' = 115) asked for an int32: refused; for itself: the 8 pointer bytes; a
   terminated char vector ('C' = 67) as string: its text; an int32 as its own vector ('I' = 73): { &value, 4 };
   an identifier (0x800, managed) is not copied raw *)
Example C07_ex_dispatch :
  value_convert_c 115 105 false true = VRefused BadType /\ value_convert_c 115 115 false true = VCopy 8 /\
  value_convert_c 67 115 false true = VStr /\ value_convert_c 67 115 false false = VRefused BadType /\
  value_convert_c 105 73 false false = VMkVec 4 /\ value_convert_c 73 64 false false = VCopyVec /\
  value_convert_c 2048 2048 false false = VRefused BadValue /\ value_convert_c 128 105 true false = VConv 3.
Proof. repeat split; reflexivity. Qed.
(* double -> float through mpt_value_convert: FLT_MAX accepted (code 3), the midpoint to 2^128 refused *)
Example C07_ex_dispatch_float :
  value_convert_flt CF64 0x47efffffe0000000 102 true = FOk CF32 (Some 0x7f7fffff) 3 /\
  value_convert_flt CF64 0x47effffff0000000 102 true = FRefused BadType /\
  value_convert_flt CF64 0x3ff8000000000000 100 true = FOk CF64 (Some 0x3ff8000000000000) 0 /\
  value_convert_flt CF32 0x3fc00000 105 true = FRefused BadType.
Proof. repeat split; vm_compute; reflexivity. Qed.
(* iterator whose advance() fails: BadOperation, nothing copied; without value: MissingData, advance not called;
   skip: the type of the value; a good one: 4 bytes, 'i' returned *)
Example C07_ex_iterator :
  iterator_consume_c (mkIter (Some 105) (Some BadOperation)) 105 true None = IOut (inl BadOperation) 1 None /\
  iterator_consume_c (mkIter None (Some MissingData)) 105 true None = IOut (inl MissingData) 0 None /\
  iterator_consume_c (mkIter (Some 105) None) 0 true None = IOut (inr 105) 1 None /\
  iterator_consume_c (mkIter (Some 105) None) 121 true (Some BadType) = IOut (inl BadType) 0 None /\
  iterator_consume_c (mkIter (Some 105) None) 105 true None = IOut (inr 105) 1 (Some 4).
Proof. repeat split; reflexivity. Qed.
(* "  key rest" as keyword: starts at 2, 5 characters consumed; "  " is no keyword; the patched
   mpt_convert_string answers 0 for "  " where the present one reports 2 characters (known finding) *)
Example C07_ex_string_branches :
  convert_string_full false (Some [32;32;107;101;121;32;114;101;115;116]) 107 true (mkOracle 0 false FcFinite) = SKey (Some (Some (2%nat, 5%nat))) /\
  convert_string_full false (Some [32;32]) 107 true (mkOracle 0 false FcFinite) = SKey (Some None) /\
  convert_string_full false (Some [97;98]) 67 true (mkOracle 0 false FcFinite) = SVec false 2 /\
  convert_string_full true (Some [32;32]) 105 true (mkOracle 0 false FcFinite) = SNum TEmpty /\
  convert_string_full false (Some [32;32]) 105 true (mkOracle 0 false FcFinite) = SNum (TDone StNone 2) /\
  convert_string_full true (Some [32;55]) 105 true (mkOracle 0 false FcFinite) = SNum (TDone (StInt CI32 7) 2).
Proof. repeat split; vm_compute; reflexivity. Qed.
(* "2.5" (libc: 3 characters, 0x4004000000000000) with range [0, 1]: refused; with [0.1, 2.5]: accepted;
   2.5 > 1 and not 1 > 2.5; a NaN compares false with everything, so the C test lets it pass *)
Example C07_ex_range :
  let v := fdecode CF64 0x4004000000000000 in
  let r01 := Some (fdecode CF64 0, fdecode CF64 0x3ff0000000000000) in
  let r2 := Some (fdecode CF64 0x3fb999999999999a, fdecode CF64 0x4004000000000000) in
  convert_float_text_r true [50;46;53] (mkOracle 3 false FcFinite) v r01 = TRefused BadValue /\
  convert_float_text_r true [50;46;53] (mkOracle 3 false FcFinite) v r2 = TDone StOrc 3 /\
  fgt v (fdecode CF64 0x3ff0000000000000) = true /\ fgt (fdecode CF64 0x3ff0000000000000) v = false /\
  convert_float_text_r true [110;97;110] (mkOracle 3 false FcNaN) FNaN r01 = TDone StOrc 3.
Proof. repeat split; vm_compute; reflexivity. Qed.

Print Assumptions C07_int_int_exact_or_refused.
Print Assumptions C07_query_same_verdict.
Print Assumptions C07_never_faults.
Print Assumptions C07_value_convert_exact.
Print Assumptions C07_iterator_consume_exact.
Print Assumptions C07_text_int_exact.
Print Assumptions C07_text_uint_exact.
Print Assumptions C07_text_wrapper_exact.
Print Assumptions C07_convert_number_exact.
Print Assumptions C07_convert_string_exact.
Print Assumptions C07_int_float_exact_when_representable.
Print Assumptions C07_int_float_correctly_rounded.
Print Assumptions C07_int_float_stays_finite.
Print Assumptions C07_float_round_is_IEEE_nearest_even.
Print Assumptions C07_float_round_unfolded.
Print Assumptions C07_float_round_nearest_even_Z.
Print Assumptions C07_float_float_rounded_or_refused.
Print Assumptions C07_float_float_destination.
Print Assumptions C07_float_float_exact_when_representable.
Print Assumptions C07_float_widening_exact.
Print Assumptions C07_float_bits_roundtrip.
Print Assumptions C07_float_int_never_offered.
Print Assumptions C07_float_never_faults.
Print Assumptions C07_int_float_always_accepted.
Print Assumptions C07_int_float_source_is_converted.
Print Assumptions C07_value_convert_float_source_is_converted.
Print Assumptions C07_iterator_consume_float_source_is_converted.
Print Assumptions C07_int_float_is_IEEE_nearest_even.
Print Assumptions C07_int_float_destination.
Print Assumptions C07_text_float_cases.
Print Assumptions C07_text_float_accepts.
Print Assumptions C07_text_float_string_accepts.
Print Assumptions C07_text_float_overflow_refused.
Print Assumptions C07_text_float_string_overflow_refused.
Print Assumptions C07_text_float_badvalue_only_overflow.
Print Assumptions C07_text_float_query_same.
Print Assumptions C07_dispatch_number_target.
Print Assumptions C07_dispatch_foreign_source_refused.
Print Assumptions C07_dispatch_raw_copy_same_type.
Print Assumptions C07_dispatch_is_value_convert.
Print Assumptions C07_dispatch_float_source.
Print Assumptions C07_dispatch_float_never_faults.
Print Assumptions C07_metatype_reference_target.
Print Assumptions C07_iterator_writes_only_after_advance.
Print Assumptions C07_iterator_error_leaves_destination.
Print Assumptions C07_iterator_query_same.
Print Assumptions C07_iterator_is_consume.
Print Assumptions C07_null_value_is_zero.
Print Assumptions C07_null_value_consume_is_zero.
Print Assumptions C07_null_value_query.
Print Assumptions C07_null_value_cases.
Print Assumptions C07_null_float_value_is_zero.
Print Assumptions C07_null_float_value_never_faults.
Print Assumptions C07_convert_string_every_numeric_code.
Print Assumptions C07_convert_string_patch_changes_only_zero.
Print Assumptions C07_convert_string_exact_patched_or_not.
Print Assumptions C07_convert_string_float_patched_or_not.
Print Assumptions C07_convert_string_patched_always_stores.
Print Assumptions C07_convert_string_key_inside_text.
Print Assumptions C07_text_float_range_accepts.
Print Assumptions C07_text_float_range_refuses.
Print Assumptions C07_text_float_range_query_same.
Print Assumptions C07_float_gt_is_real_order.
Print Assumptions C07_text_float_range_is_real_interval.
