(* C07/ConvFloat.v — executable model of data_convert_float.c (float32/float64/x87 extended
   sources), NO proofs.  Floating values are dyadic: sign, integer significand, binary
   exponent; rounding is written out (round to nearest, ties to even, gradual underflow,
   overflow to infinity) and compared bit by bit with the hardware in every run.
   Theorems about this file: ConvRound.v (nearest-even on integers), ConvFlocq.v ([fround] is
   Flocq's round ... ZnearestE), ConvBits.v (fdecode after fencode), ConvFloatThm.v ([fconv]);
   statements in Properties.v. *)
From MptV Require Import Base.Mem C07.ConvModel.
Local Open Scope Z_scope.

Inductive fval :=
| FNaN
| FInf (neg : bool)
| FFin (neg : bool) (m e : Z).      (* (-1)^neg * m * 2^e, 0 <= m *)

(* exponent of the least significant bit of the subnormals; largest binary exponent *)
Definition f_elsb (c : cty) : Z := match c with CF32 => -149 | CF64 => -1074 | _ => -16445 end.
Definition f_emax (c : cty) : Z := match c with CF32 => 127 | CF64 => 1023 | _ => 16383 end.

Definition fdecode (c : cty) (bits : Z) : fval :=
  match c with
  | CF32 =>
    let s := Z.odd (Z.shiftr bits 31) in let E := Z.shiftr bits 23 mod 256 in let M := bits mod 8388608 in
    if E =? 255 then (if M =? 0 then FInf s else FNaN)
    else if E =? 0 then FFin s M (-149) else FFin s (M + 8388608) (E - 150)
  | CF64 =>
    let s := Z.odd (Z.shiftr bits 63) in let E := Z.shiftr bits 52 mod 2048 in let M := bits mod 4503599627370496 in
    if E =? 2047 then (if M =? 0 then FInf s else FNaN)
    else if E =? 0 then FFin s M (-1074) else FFin s (M + 4503599627370496) (E - 1075)
  | _ =>
    let s := Z.odd (Z.shiftr bits 79) in let E := Z.shiftr bits 64 mod 32768 in let M := bits mod 18446744073709551616 in
    if E =? 32767 then (if M =? 9223372036854775808 then FInf s else FNaN)
    else if E =? 0 then FFin s M (-16445) else FFin s M (E - 16446)
  end.

(* m / 2^k rounded to nearest, ties to even (0 < k) *)
Definition rshift_rne (m k : Z) : Z :=
  if Z.log2 m + 2 <=? k then 0 else
  let q := Z.shiftr m k in
  let r := m - Z.shiftl q k in
  let half := Z.shiftl 1 (k - 1) in
  if (half <? r) || ((half =? r) && Z.odd q) then q + 1 else q.

(* conversion to format c as the FPU does it *)
Definition fround (c : cty) (v : fval) : fval :=
  match v with
  | FFin neg m e =>
    if m =? 0 then FFin neg 0 0 else
    let L := Z.log2 m in
    let e' := Z.max (L + e - (fprec c - 1)) (f_elsb c) in
    let m' := if e' <=? e then Z.shiftl m (e - e') else rshift_rne m (e' - e) in
    if m' =? 0 then FFin neg 0 0
    else if f_emax c <? Z.log2 m' + e' then FInf neg
    else FFin neg m' e'
  | _ => v
  end.

(* bit pattern; None = NaN (payloads are not compared) *)
Definition fencode (c : cty) (v : fval) : option Z :=
  let sb := match c with CF32 => 2147483648 | CF64 => 9223372036854775808 | _ => 604462909807314587353088 end in
  match v with
  | FNaN => None
  | FInf neg =>
    Some ((if neg then sb else 0) +
          match c with CF32 => 2139095040 | CF64 => 9218868437227405312
                  | _ => 32767 * 18446744073709551616 + 9223372036854775808 end)
  | FFin neg m e =>
    Some ((if neg then sb else 0) +
      if m =? 0 then 0 else
      let L := Z.log2 m in
      let p := fprec c in
      let bias := f_emax c in
      if L + e <? 1 - bias then
        (* subnormal: biased exponent 0, significand in units of the least bit *)
        Z.shiftl m (e - f_elsb c)
      else
        let sig := Z.shiftl m (p - 1 - L) in          (* p bits, top bit set *)
        match c with
        | CF32 => (L + e + bias) * 8388608 + (sig - 8388608)
        | CF64 => (L + e + bias) * 4503599627370496 + (sig - 4503599627370496)
        | _ => (L + e + bias) * 18446744073709551616 + sig
        end)
  end.

Definition is_finite (v : fval) : bool := match v with FFin _ _ _ => true | _ => false end.
Definition is_inf (v : fval) : bool := match v with FInf _ => true | _ => false end.

Inductive fobs :=
| FRefused (e : err)
| FOk (c : cty) (bits : option Z) (ret : Z)
| FVec (len ret : Z)
| FQuery (ret : Z)
| FFault.

(* the three switches of data_convert_float.c; [src] is CF32, CF64 or CF80.
   Narrowing cases: float tmp = val; if (isinf(tmp) && !isinf(val)) return BadValue. *)
Definition fconv (src : cty) (bits : Z) (t : tty) (hd : bool) : fobs :=
  let v := fdecode src bits in
  let to (c : cty) (narrowing : bool) :=
    let r := fround c v in
    if narrowing && is_inf r && negb (is_inf v) then FRefused BadValue
    else if hd then FOk c (fencode c r) (cwidth c) else FQuery (cwidth c) in
  match t with
  | Tf => to CF32 (negb (cty_eqb src CF32))
  | Td => to CF64 (cty_eqb src CF80)
  | Te => to CF80 false
  | Tvec k =>
    let own := match src with CF32 => 70 | CF64 => 68 | _ => 69 end in
    if k =? own then (if hd then FVec (cwidth src) 16 else FQuery 16) else FRefused BadType
  | _ => FRefused BadType
  end.

(* what the property asks of a float -> float conversion: the correctly rounded value
   (exact when representable); a finite source that would round to infinity has to be
   refused; NaN and infinities map to themselves *)
Inductive fsobs := FSRefused | FSOk (c : cty) (bits : option Z) (size : Z) | FSQuery (size : Z) | FSFree.

Definition spec_fconv (src : cty) (bits : Z) (t : tty) (hd accepted : bool) : fsobs :=
  match tgt_cty t with
  | Some tc =>
    if is_flt tc then
      let v := fdecode src bits in
      let r := fround tc v in
      if negb accepted then FSRefused
      else if is_finite v && negb (is_finite r) then FSRefused
      else if hd then FSOk tc (fencode tc r) (cwidth tc) else FSQuery (cwidth tc)
    else FSRefused            (* float -> integer is not offered: must be refused *)
  | None => FSFree
  end.
