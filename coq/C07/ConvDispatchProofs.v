(* C07/ConvDispatchProofs.v — proofs about the layers around the scalar converters
   (ConvDispatch.v): the dispatcher mpt_value_convert for every source type code, floating
   sources behind it, mpt_iterator_consume with empty / failing iterators, every branch of
   mpt_convert_string (also as patched), mpt_convert_key's bounds, the optional range of
   mpt_cfloat/cdouble/cldouble.  No real numbers here (see ConvRangeReal.v). *)
From MptV Require Import Base.Mem C07.ConvModel C07.ConvSpec C07.ConvProofs C07.ConvTextProofs.
From MptV Require Import C07.ConvFloat C07.ConvTextFloat C07.ConvDispatch C07.ConvDispatchSpec.
Local Open Scope Z_scope.

(* ------------------------------------------------------------------ numeric target codes *)
Lemma tgt_cty_code tk tc : tgt_cty (tty_of_code tk) = Some tc ->
  (tk = 99 /\ tc = CChar) \/ (tk = 98 /\ tc = CI8) \/ (tk = 121 /\ tc = CU8) \/ (tk = 110 /\ tc = CI16) \/
  (tk = 113 /\ tc = CU16) \/ (tk = 105 /\ tc = CI32) \/ (tk = 117 /\ tc = CU32) \/ (tk = 120 /\ tc = CI64) \/
  (tk = 116 /\ tc = CU64) \/ (tk = 108 /\ tc = CI64) \/ (tk = 102 /\ tc = CF32) \/ (tk = 100 /\ tc = CF64) \/
  (tk = 101 /\ tc = CF80).
Proof.
  unfold tty_of_code.
  repeat (match goal with |- context [if ?b then _ else _] => destruct b eqn:? end;
          try (intros H; discriminate H));
  intros H; injection H as <-; b2p; subst; tauto.
Qed.

(* split a disjunction of (x = a /\ y = b) alternatives and substitute *)
Ltac dcases H := repeat (destruct H as [H|H]); destruct H as [-> ->].
Ltac dcases1 H := repeat (destruct H as [H|H]); destruct H as [-> _].

(* evaluate comparisons between literals *)
Ltac ev_lit :=
  repeat match goal with
  | |- context [Z.eqb (Zpos ?a) ?b] =>
    match b with Z0 => idtac | Zpos _ => idtac end;
    let x := eval vm_compute in (Z.eqb (Zpos a) b) in change (Z.eqb (Zpos a) b) with x
  end.

Lemma to_vector_bound sk : to_vector sk = 0 \/ 64 <= to_vector sk <= 90.
Proof. unfold to_vector. destruct ((96 <=? sk) && (sk <=? 122)) eqn:E; [b2p; right; lia|left; reflexivity]. Qed.

(* ------------------------------------------------------------------ mpt_value_convert, any source type *)
(* With a NUMERIC target type the dispatcher produces bytes in two ways only: the converter
   of the source type accepted (the scalar theorems / the object's own conversion say what it
   wrote), or the value has the very same type and exactly sizeof(target) bytes are copied.
   Everything else is refused: no vector view, no string pointer, no partial copy. *)
Lemma value_convert_c_number sk tk conv_ok tostr tc :
  tgt_cty (tty_of_code tk) = Some tc ->
  match value_convert_c sk tk conv_ok tostr with
  | VRefused _ => conv_ok = false
  | VConv r => conv_ok = true /\ r = (if sk =? tk then 0 else 3)
  | VCopy n => conv_ok = false /\ sk = tk /\ n = cwidth tc
  | _ => False
  end.
Proof.
  intros T. pose proof (to_vector_bound sk) as TV.
  unfold value_convert_c.
  pose proof (tgt_cty_code _ _ T) as TC; dcases TC;
  ev_lit; cbv iota; (destruct conv_ok; [split; reflexivity|]);
  (match goal with |- context [sk =? ?k] => destruct (Z.eqb_spec sk k) as [->|NE] end; [vm_compute; auto|]);
  cbn [andb];
  (match goal with |- context [?a =? to_vector sk] => destruct (Z.eqb_spec a (to_vector sk)) as [E|_]; [exfalso; lia|] end);
  reflexivity.
Qed.

(* a source that has no converter and another type than the numeric target: refused *)
Corollary value_convert_c_foreign_refused sk tk tostr tc :
  tgt_cty (tty_of_code tk) = Some tc -> sk <> tk ->
  exists e, value_convert_c sk tk false tostr = VRefused e.
Proof.
  intros T NE. pose proof (value_convert_c_number sk tk false tostr tc T) as H.
  destruct (value_convert_c sk tk false tostr); try contradiction; eauto.
  - destruct H; discriminate.
  - destruct H as (_ & E & _). contradiction.
Qed.

(* the specification of the W cases follows *)
Corollary value_convert_c_meets_spec sk tk tostr :
  sk <> tk -> spec_other_to_number tk false = Some false ->
  exists e, value_convert_c sk tk false tostr = VRefused e.
Proof.
  unfold spec_other_to_number. destruct (tgt_cty (tty_of_code tk)) as [tc|] eqn:T; [|discriminate].
  intros NE _. eapply value_convert_c_foreign_refused; eassumption.
Qed.

(* a raw copy is only made of a value of the same type, with the size the traits table has
   for it, and never of a managed type *)
Lemma value_convert_c_copy sk tk conv_ok tostr n :
  value_convert_c sk tk conv_ok tostr = VCopy n -> sk = tk /\ traits tk = Some (n, false).
Proof.
  unfold value_convert_c. destruct (tk =? 0); [discriminate|]. destruct conv_ok; [discriminate|].
  destruct (Z.eqb_spec sk tk) as [->|NE].
  - destruct (traits tk) as [[m b]|]; [|discriminate]. destruct b; [discriminate|].
    intros H; injection H as ->. auto.
  - destruct ((tk =? 64) && (0 <? to_scalar sk)).
    + destruct (traits (to_scalar sk)) as [[m b]|]; [destruct b|]; discriminate.
    + destruct (tk =? to_vector sk); [destruct (traits sk) as [[m b]|]; discriminate|].
      destruct ((tk =? 115) && tostr); discriminate.
Qed.

(* type 0 is never a target *)
Lemma value_convert_c_zero sk conv_ok tostr : value_convert_c sk 0 conv_ok tostr = VRefused BadArgument.
Proof. reflexivity. Qed.

(* ---- ConvModel.value_convert (integer and char sources) IS the skeleton applied to the
   eight switches: the theorems about [vconv] speak about the same function *)
Lemma value_convert_skeleton sk c v tk hd :
  src_cty sk = Some c ->
  exists s, data_converter sk = ConvInt s /\
  value_convert sk v tk hd =
    if tk =? 0 then Refused BadArgument else
    match convert_int s v (tty_of_code tk) hd with
    | CFault => CFault
    | Done stv _ => int_vres c v hd stv (value_convert_c sk tk true false)
    | Refused _ => int_vres c v hd StNone (value_convert_c sk tk false false)
    end.
Proof.
  intros SC.
  pose proof (src_cty_cases _ _ SC) as TC; dcases TC;
  eexists; (split; [reflexivity|]);
  unfold value_convert, value_convert_c; cbn [data_converter];
  change (data_converter _) with (ConvInt I8) || change (data_converter _) with (ConvInt U8) ||
  change (data_converter _) with (ConvInt I16) || change (data_converter _) with (ConvInt U16) ||
  change (data_converter _) with (ConvInt I32) || change (data_converter _) with (ConvInt U32) ||
  change (data_converter _) with (ConvInt I64) || change (data_converter _) with (ConvInt U64) || idtac;
  (destruct (tk =? 0) eqn:Z0; [reflexivity|]);
  (match goal with |- context [convert_int ?s v ?t hd] => destruct (convert_int s v t hd) as [e|stv r|] end);
  cbn [int_vres]; try reflexivity;
  (match goal with |- context [?k =? tk] => destruct (Z.eqb_spec k tk) as [<-|NE] end;
   [vm_compute; reflexivity|]);
  cbn [andb to_scalar to_vector Z.leb Z.ltb Z.compare Pos.compare Pos.compare_cont Z.sub Z.add Z.opp Z.pos_sub Pos.pred_double
       Z.succ_double Z.pred_double Z.double src_cty tty_of_code Z.eqb Pos.eqb];
  rewrite ?andb_false_r; cbn [andb];
  (match goal with |- context [tk =? ?k] => destruct (Z.eqb_spec tk k) as [->|NE2] end);
  vm_compute; reflexivity.
Qed.

(* ------------------------------------------------------------------ floating sources behind the dispatcher *)
Definition flt_src (c : cty) : Prop := c = CF32 \/ c = CF64 \/ c = CF80.

Lemma fconv_own_type src bits hd : flt_src src ->
  exists b, fconv src bits (tty_of_code (flt_code src)) hd = if hd then FOk src b (cwidth src) else FQuery (cwidth src).
Proof.
  intros [->|[->| ->]]; cbn [flt_code]; unfold fconv;
  match goal with |- context [tty_of_code ?k] => let x := eval vm_compute in (tty_of_code k) in change (tty_of_code k) with x end;
  cbn [cty_eqb negb andb]; (destruct hd; [eexists; reflexivity|exists None; reflexivity]).
Qed.

Lemma fconv_own_vector src bits hd : flt_src src ->
  fconv src bits (tty_of_code (flt_code src - 32)) hd = if hd then FVec (cwidth src) 16 else FQuery 16.
Proof.
  intros [->|[->| ->]]; cbn [flt_code]; unfold fconv;
  match goal with |- context [tty_of_code ?k] => let x := eval vm_compute in (tty_of_code k) in change (tty_of_code k) with x end;
  cbn [Z.eqb Pos.eqb]; reflexivity.
Qed.

(* mpt_value_convert on a float / double / long double value hands the request to
   mpt_data_convert_float32/float64/exflt: same destination, same refusals (the error code
   becomes BadType, the return code 0 / 3) *)
Lemma value_convert_flt_is_fconv src bits tk hd : flt_src src -> tk <> 0 ->
  let code := if flt_code src =? tk then 0 else 3 in
  match fconv src bits (tty_of_code tk) hd with
  | FOk c b _ => value_convert_flt src bits tk hd = FOk c b code
  | FVec l _ => value_convert_flt src bits tk hd = FVec l code
  | FQuery _ => value_convert_flt src bits tk hd = FQuery code
  | FFault => value_convert_flt src bits tk hd = FFault
  | FRefused _ => exists e, value_convert_flt src bits tk hd = FRefused e
  end.
Proof.
  intros FS NZ. cbv zeta. unfold value_convert_flt.
  apply Z.eqb_neq in NZ. rewrite NZ.
  destruct (fconv src bits (tty_of_code tk) hd) as [e|c b r|l r|r|] eqn:F; try reflexivity.
  (* refused by the converter: the fall-through branches refuse as well *)
  destruct (Z.eq_dec tk (flt_code src)) as [->|N1].
  { destruct (fconv_own_type src bits hd FS) as (b & E). rewrite E in F. destruct hd; discriminate. }
  destruct (Z.eq_dec tk (flt_code src - 32)) as [->|N2].
  { rewrite (fconv_own_vector src bits hd FS) in F. destruct hd; discriminate. }
  assert (V : value_convert_c (flt_code src) tk false false = VRefused BadType).
  { unfold value_convert_c. rewrite NZ.
    destruct (Z.eqb_spec (flt_code src) tk) as [E|_]; [congruence|].
    assert (TS : to_scalar (flt_code src) = 0) by (destruct FS as [->|[->| ->]]; reflexivity).
    assert (TVc : to_vector (flt_code src) = flt_code src - 32) by (destruct FS as [->|[->| ->]]; reflexivity).
    rewrite TS, TVc. rewrite andb_false_r.
    destruct (Z.eqb_spec tk (flt_code src - 32)) as [E|_]; [congruence|].
    rewrite andb_false_r. reflexivity. }
  rewrite V. eauto.
Qed.

Lemma value_convert_flt_zero src bits hd : value_convert_flt src bits 0 hd = FRefused BadArgument.
Proof. reflexivity. Qed.

Lemma value_convert_flt_never_faults src bits tk hd : flt_src src -> value_convert_flt src bits tk hd <> FFault.
Proof.
  intros FS. destruct (Z.eq_dec tk 0) as [->|NZ]; [discriminate|].
  pose proof (value_convert_flt_is_fconv src bits tk hd FS NZ) as H. cbv zeta in H.
  destruct (fconv src bits (tty_of_code tk) hd) as [e|c b r|l r|r|] eqn:F.
  - destruct H as (e' & ->). discriminate.
  - rewrite H. discriminate.
  - rewrite H. discriminate.
  - rewrite H. discriminate.
  - exfalso. revert F. unfold fconv.
    destruct (tty_of_code tk); try discriminate;
    repeat (match goal with |- context [if ?b then _ else _] => destruct b end); discriminate.
Qed.

(* ------------------------------------------------------------------ data_converter.c wrappers *)
Lemma convertable_wrap_missing w ans : w <> WObj -> convertable_wrap w ans = Some MissingData.
Proof. destruct w; [reflexivity|reflexivity|congruence]. Qed.
Lemma convertable_wrap_obj ans : convertable_wrap WObj ans = ans.
Proof. reflexivity. Qed.

(* a reference target: the new referent is retained BEFORE the old one is released, and only
   when it can be retained; nothing else is touched; without destination nothing happens *)
Lemma metatype_wrap_ref w hd addref_ok old ans :
  w <> WNoFrom ->
  metatype_wrap w 2049 hd addref_ok old ans =
    if hd then (if is_obj w && negb addref_ok then MwRefused BadOperation else MwRef (is_obj w) old) else MwQuery.
Proof. destruct w; [congruence|reflexivity|reflexivity]. Qed.
Lemma metatype_wrap_other w tk hd addref_ok old ans :
  tk <> 2049 ->
  metatype_wrap w tk hd addref_ok old ans = match w with WObj => MwAns ans | _ => MwRefused MissingData end.
Proof. intros N. apply Z.eqb_neq in N. unfold metatype_wrap. rewrite N. destruct w; reflexivity. Qed.

(* ------------------------------------------------------------------ mpt_iterator_consume *)
(* the destination is written only after BOTH the conversion and the advance succeeded: exactly
   sizeof(target) bytes, the source type is returned, advance() was called once *)
Lemma iterator_consume_c_copies it tk hd vc r calls n :
  iterator_consume_c it tk hd vc = IOut r calls (Some n) ->
  hd = true /\ vc = None /\ it_adv it = None /\ tk <> 0 /\ calls = 1 /\
  exists sk tc, it_val it = Some sk /\ tgt_cty (tty_of_code tk) = Some tc /\ n = cwidth tc /\ r = inr sk.
Proof.
  unfold iterator_consume_c. destruct (Z.eqb_spec tk 0) as [->|NZ].
  - destruct (it_adv it); discriminate.
  - destruct (it_val it) as [sk|]; [|discriminate].
    destruct (tgt_cty (tty_of_code tk)) as [tc|]; [|discriminate].
    destruct vc; [discriminate|]. destruct (it_adv it); [discriminate|].
    destruct hd; [|discriminate]. intros H; injection H as <- <- <-.
    repeat split; auto. exists sk, tc. auto.
Qed.

(* any error leaves the destination alone; and an error of the conversion or a missing value
   leaves the iterator where it was (advance is not called) *)
Lemma iterator_consume_c_error it tk hd vc e calls cp :
  iterator_consume_c it tk hd vc = IOut (inl e) calls cp ->
  cp = None /\ (calls = 1 -> it_adv it = Some e).
Proof.
  unfold iterator_consume_c. destruct (tk =? 0).
  - destruct (it_adv it) as [e'|]; intros H; inversion H; subst; auto.
  - destruct (it_val it) as [sk|]; [|intros H; inversion H; subst; split; [auto|discriminate]].
    destruct (tgt_cty (tty_of_code tk)) as [tc|]; [|intros H; inversion H; subst; split; [auto|discriminate]].
    destruct vc; [intros H; inversion H; subst; split; [auto|discriminate]|].
    destruct (it_adv it) as [e'|]; intros H; inversion H; subst; auto.
Qed.

(* asking without destination: the same answer and the same effect on the iterator *)
Lemma iterator_consume_c_query it tk vc :
  iterator_consume_c it tk false vc =
    match iterator_consume_c it tk true vc with IOut r calls _ => IOut r calls None end.
Proof.
  unfold iterator_consume_c. destruct (tk =? 0).
  - destruct (it_adv it); reflexivity.
  - destruct (it_val it); [|reflexivity]. destruct (tgt_cty (tty_of_code tk)); [|reflexivity].
    destruct vc; [reflexivity|]. destruct (it_adv it); reflexivity.
Qed.

(* skipping (type 0) converts nothing and reports the type of the value skipped *)
Lemma iterator_consume_c_skip it hd vc :
  iterator_consume_c it 0 hd vc =
    match it_adv it with
    | Some e => IOut (inl e) 1 None
    | None => IOut (inr (match it_val it with Some sk => if sk <=? 4095 then sk else 0 | None => 0 end)) 1 None
    end.
Proof. reflexivity. Qed.

(* ConvModel.iterator_consume is the case "one value, advance succeeds" *)
Lemma iterator_consume_is_c sk v tk hd :
  tk <> 0 -> value_convert sk v tk hd <> CFault ->
  iterator_consume_c (mkIter (Some sk) None) tk hd (cres_err (value_convert sk v tk hd)) =
    match iterator_consume sk v tk hd with
    | Refused e => IOut (inl e) 0 None
    | Done _ ret => IOut (inr ret) 1 (if hd then option_map cwidth (tgt_cty (tty_of_code tk)) else None)
    | CFault => IOut (inl BadType) 0 None
    end.
Proof.
  intros NZ NF. unfold iterator_consume_c, iterator_consume. apply Z.eqb_neq in NZ. rewrite NZ. cbn [it_val it_adv].
  destruct (tgt_cty (tty_of_code tk)) as [tc|]; [|reflexivity].
  destruct (value_convert sk v tk hd) as [e|stv r|]; cbn [cres_err option_map]; try reflexivity. congruence.
Qed.

(* ------------------------------------------------------------------ mpt_convert_key (no separators) *)
Lemma take_word_le s : (take_word s <= length s)%nat.
Proof. induction s as [|c r IH]; cbn; [lia|]. destruct (is_space c); cbn; lia. Qed.

Lemma skip_space_len s : (fst (skip_space s) + length (snd (skip_space s)) = length s)%nat.
Proof.
  induction s as [|c r IH]; cbn; [reflexivity|].
  destruct (is_space c); [|cbn; lia].
  destruct (skip_space r) as [n r']. cbn in *. lia.
Qed.

(* the keyword lies inside the text: offset < consumed <= strlen *)
Lemma convert_key_bounds s off n : convert_key s = Some (off, n) -> (off < n <= length s)%nat.
Proof.
  unfold convert_key. pose proof (skip_space_len s) as L.
  destruct (skip_space s) as [k r]. cbn [fst snd] in L.
  pose proof (take_word_le r) as W.
  destruct (take_word r) as [|m] eqn:T; [discriminate|]. intros H; injection H as <- <-. lia.
Qed.

Lemma convert_key_none_iff s : convert_key s = None <-> take_word (snd (skip_space s)) = O.
Proof.
  unfold convert_key. destruct (skip_space s) as [k r]. cbn [snd].
  destruct (take_word r); split; intros H; try reflexivity; discriminate.
Qed.

(* ------------------------------------------------------------------ mpt_convert_string *)
(* the patched function differs from the present one only where it returns 0 *)
Lemma convert_string_p_cases p from t hd o :
  convert_string_p p from t hd o = convert_string from t hd o \/ convert_string_p p from t hd o = TEmpty.
Proof.
  destruct p; [|left; reflexivity]. unfold convert_string_p, convert_string.
  destruct from as [s0|]; [|left; reflexivity].
  destruct (cstr s0) as [|a r]; [left; reflexivity|].
  destruct (skip_space (a :: r)) as [k txt].
  destruct (convert_number (Some txt) t hd _); auto.
Qed.

(* ... so every statement about an accepted conversion carries over *)
Lemma convert_string_p_exact p t s o w n :
  int_target t ->
  tobserve (tgt_cty t) true (convert_string_p p (Some s) t true o) = TOInt w n ->
  exists tc, tgt_cty t = Some tc /\ value_of 0 (firstn n (cstr s)) = Some w /\ in_range tc w = true.
Proof.
  intros IT H. destruct (convert_string_p_cases p (Some s) t true o) as [E|E]; rewrite E in H.
  - exact (convert_string_exact t s o w n IT H).
  - discriminate H.
Qed.

Lemma convert_string_p_float_accepts p t s o n : flt_target_t t ->
  tobserve (tgt_cty t) true (convert_string_p p (Some s) t true o) = TOFlt n ->
  let k := fst (skip_space (cstr s)) in
  fo_overflow o = false /\ (fo_end o - k <> 0)%nat /\ n = (k + (fo_end o - k))%nat /\
  ((k <= fo_end o)%nat -> n = fo_end o).
Proof.
  intros FT H. destruct (convert_string_p_cases p (Some s) t true o) as [E|E]; rewrite E in H.
  - exact (convert_string_float_accepts t s o n FT H).
  - destruct FT as [->|[->| ->]]; discriminate H.
Qed.

(* what mpt_convert_number stores when it reports characters *)
Lemma convert_number_stores t s o stv n :
  convert_number (Some s) t true o = TDone stv n -> stv <> StNone.
Proof.
  intros H.
  assert (IT : int_target t \/ flt_target_t t \/ t = Tc \/
               convert_number (Some s) t true o = TRefused BadType).
  { unfold int_target, flt_target_t. destruct t; try tauto; right; right; right; reflexivity. }
  destruct IT as [IT|[FT|[->|R]]].
  - destruct (convert_number_done _ _ _ _ _ _ IT H) as (tc & w & _ & _ & -> & _). discriminate.
  - rewrite convert_number_flt in H by exact FT.
    destruct (convert_float_text_done _ _ _ _ _ H) as (_ & _ & _ & ->). discriminate.
  - unfold convert_number in H. destruct (skip_space (cstr s)) as [k r]. destruct r as [|ch r']; [discriminate|].
    destruct (isgraph_c (reinterp CChar ch)) as [[|]|]; try discriminate.
    injection H as <- _. discriminate.
  - rewrite R in H. discriminate.
Qed.

(* THE PATCHED FUNCTION NEVER REPORTS CONSUMED CHARACTERS WITHOUT HAVING STORED A VALUE
   (the known finding convert_string_space_only is gone), for every target type and text *)
Lemma convert_string_patched_stores from t o stv n :
  convert_string_p true from t true o = TDone stv n -> stv <> StNone.
Proof.
  unfold convert_string_p. destruct from as [s0|]; [|discriminate].
  destruct (cstr s0) as [|a r]; [discriminate|].
  destruct (skip_space (a :: r)) as [k txt].
  destruct (convert_number (Some txt) t true _) as [e| |stv0 n0|] eqn:C; try discriminate.
  intros H; injection H as <- _. eapply convert_number_stores; exact C.
Qed.

(* every numeric target type code reaches the number branch: the theorems about
   [convert_string] / [convert_string_p] are theorems about the entry point *)
Lemma convert_string_full_numeric p from tk hd o tc :
  tgt_cty (tty_of_code tk) = Some tc ->
  convert_string_full p from tk hd o = SNum (convert_string_p p from (tty_of_code tk) hd o).
Proof.
  intros T.
  pose proof (tgt_cty_code _ _ T) as TC; dcases1 TC; reflexivity.
Qed.

(* the other branches hand out pointers into the text / the format string and never a number;
   the lengths they report stay inside the text *)
Lemma convert_string_full_key p s0 hd o off n :
  convert_string_full p (Some s0) 107 hd o = SKey (Some (Some (off, n))) -> (off < n <= length (cstr s0))%nat.
Proof.
  unfold convert_string_full. cbn [Z.eqb Pos.eqb].
  destruct (cstr s0) as [|a r] eqn:C; [discriminate|]. intros H; injection H as H.
  apply convert_key_bounds in H. exact H.
Qed.

(* ------------------------------------------------------------------ the optional range *)
Lemma convert_float_text_r_none hd s o v : convert_float_text_r hd s o v None = convert_float_text hd s o.
Proof. unfold convert_float_text_r. destruct (convert_float_text hd s o); reflexivity. Qed.

(* accepted with a range: libc's value is not below the lower and not above the upper bound,
   and everything the unranged call guarantees still holds *)
Lemma convert_float_text_r_accepts hd s o v lo hi stv n :
  convert_float_text_r hd s o v (Some (lo, hi)) = TDone stv n ->
  fgt lo v = false /\ fgt v hi = false /\ convert_float_text hd s o = TDone stv n.
Proof.
  unfold convert_float_text_r. destruct (convert_float_text hd s o) as [e| |stv0 n0|]; try discriminate.
  destruct (fgt lo v || fgt v hi) eqn:G; [discriminate|]. apply orb_false_iff in G as [A B].
  intros H; injection H as <- <-. auto.
Qed.

(* a parsed value outside the range is refused with BadValue, with and without destination *)
Lemma convert_float_text_r_outside hd s o v lo hi stv n :
  convert_float_text hd s o = TDone stv n -> fgt lo v = true \/ fgt v hi = true ->
  convert_float_text_r hd s o v (Some (lo, hi)) = TRefused BadValue.
Proof.
  intros E G. unfold convert_float_text_r. rewrite E.
  assert (fgt lo v || fgt v hi = true) as -> by (apply orb_true_iff; exact G). reflexivity.
Qed.

(* the range never turns a refusal or "nothing there" into something else *)
Lemma convert_float_text_r_keeps hd s o v range :
  (forall stv n, convert_float_text hd s o <> TDone stv n) ->
  convert_float_text_r hd s o v range = convert_float_text hd s o.
Proof.
  intros N. unfold convert_float_text_r. destruct (convert_float_text hd s o) as [e| |stv n|]; try reflexivity.
  exfalso. eapply N. reflexivity.
Qed.

Lemma convert_float_text_r_query s o v range :
  convert_float_text_r false s o v range = strip (convert_float_text_r true s o v range).
Proof.
  unfold convert_float_text_r. rewrite convert_float_text_query.
  destruct (convert_float_text true s o) as [e| |stv n|]; cbn [strip]; try reflexivity.
  destruct range as [[lo hi]|]; [|reflexivity]. destruct (fgt lo v || fgt v hi); reflexivity.
Qed.

(* the specification of the ranged call is met: whatever the model accepts lies in the range *)
Lemma spec_text_flt_r_refuses s o v lo hi m :
  fgt lo v = true \/ fgt v hi = true ->
  match spec_text_flt_r s o v (Some (lo, hi)) m with SFlt _ _ _ | SQuery _ => False | _ => True end.
Proof.
  intros G. unfold spec_text_flt_r.
  assert (fgt lo v || fgt v hi = true) as E by (apply orb_true_iff; exact G).
  destruct (spec_text_flt s o m); rewrite ?E; exact I.
Qed.

(* [fgt] on integers: comparison of the two dyadics brought to the smaller exponent; a NaN on
   either side compares false; the infinities are beyond every finite value *)
Lemma fgt_fin na ma ea nb mb eb :
  fgt (FFin na ma ea) (FFin nb mb eb) =
    (sval nb (mb * 2 ^ (eb - Z.min ea eb)) <? sval na (ma * 2 ^ (ea - Z.min ea eb))).
Proof. unfold fgt. rewrite !Z.shiftl_mul_pow2 by lia. reflexivity. Qed.

Lemma fgt_nan_l b : fgt FNaN b = false.
Proof. reflexivity. Qed.
Lemma fgt_nan_r a : fgt a FNaN = false.
Proof. destruct a; reflexivity. Qed.
Lemma fgt_irrefl a : fgt a a = false.
Proof.
  destruct a as [|n|n m e]; [reflexivity|cbn; destruct n; reflexivity|].
  rewrite fgt_fin. apply Z.ltb_irrefl.
Qed.

(* ------------------------------------------------------------------ values without a data address *)
Lemma value_convert_a_addr p sk v tk hd : value_convert_a p sk (Some v) tk hd = value_convert sk v tk hd.
Proof. reflexivity. Qed.

Lemma null_copy_faults_patched sk tk ok hd : null_copy_faults true sk tk ok hd = false.
Proof. unfold null_copy_faults. destruct hd; reflexivity. Qed.
Lemma null_copy_faults_query p sk tk ok : null_copy_faults p sk tk ok false = false.
Proof. reflexivity. Qed.
Lemma null_copy_faults_inv p sk tk ok hd : null_copy_faults p sk tk ok hd = true ->
  p = false /\ hd = true /\ ok = false /\ sk = tk.
Proof.
  unfold null_copy_faults. destruct hd; [|discriminate]. destruct p; [discriminate|]. cbn [andb negb].
  destruct (value_convert_c sk tk ok false) as [e|r|n| |l|] eqn:V; try discriminate.
  intros _. destruct (value_convert_c_copy _ _ _ _ _ V) as (E & _).
  repeat split; try assumption.
  unfold value_convert_c in V. destruct (tk =? 0); [discriminate|]. destruct ok; [discriminate|reflexivity].
Qed.

(* as patched, a value without address IS the value 0 of its type: every theorem about
   [value_convert] / [iterator_consume] speaks about it *)
Lemma value_convert_a_null_patched sk tk hd : value_convert_a true sk None tk hd = value_convert sk 0 tk hd.
Proof. unfold value_convert_a. rewrite null_copy_faults_patched. reflexivity. Qed.

(* patched or not, asking without a destination never touches the address *)
Lemma value_convert_a_null_query p sk tk : value_convert_a p sk None tk false = value_convert sk 0 tk false.
Proof. reflexivity. Qed.

(* patched or not, the only thing a missing address can change is a fault of the raw copy of the
   value's own type, with a destination, after the converter refused *)
Lemma value_convert_a_null_cases p sk tk hd :
  value_convert_a p sk None tk hd = value_convert sk 0 tk hd \/
  (value_convert_a p sk None tk hd = CFault /\ p = false /\ hd = true /\ sk = tk /\ int_conv_ok sk 0 tk hd = false).
Proof.
  unfold value_convert_a.
  destruct (null_copy_faults p sk tk (int_conv_ok sk 0 tk hd) hd) eqn:N; [right|left; reflexivity].
  destruct (null_copy_faults_inv _ _ _ _ _ N) as (-> & -> & OK & ->). repeat split; assumption.
Qed.

Lemma iterator_consume_a_addr p sk v tk hd : iterator_consume_a p sk (Some v) tk hd = iterator_consume sk v tk hd.
Proof. reflexivity. Qed.
Lemma iterator_consume_a_null_patched sk tk hd : iterator_consume_a true sk None tk hd = iterator_consume sk 0 tk hd.
Proof. unfold iterator_consume_a, iterator_consume. rewrite value_convert_a_null_patched. reflexivity. Qed.
Lemma iterator_consume_a_null_query p sk tk : iterator_consume_a p sk None tk false = iterator_consume sk 0 tk false.
Proof. reflexivity. Qed.

(* floating sources: the converter accepts the value's own type for every bit pattern, the raw copy
   is never reached: a float / double / long double value without address is 0.0, patched or not *)
Lemma value_convert_flt_a_null p src tk hd : flt_src src ->
  value_convert_flt_a p src None tk hd = value_convert_flt src 0 tk hd.
Proof.
  intros FS. unfold value_convert_flt_a. cbv zeta.
  match goal with |- (if ?b then _ else _) = _ => destruct b eqn:N end; [|reflexivity].
  destruct (null_copy_faults_inv _ _ _ _ _ N) as (_ & -> & OK & <-).
  destruct (fconv_own_type src 0 true FS) as (b & E). rewrite E in OK. discriminate.
Qed.
Lemma value_convert_flt_a_never_faults p src from tk hd : flt_src src -> value_convert_flt_a p src from tk hd <> FFault.
Proof.
  intros FS. destruct from as [bits|].
  - apply value_convert_flt_never_faults; assumption.
  - rewrite value_convert_flt_a_null by assumption. apply value_convert_flt_never_faults; assumption.
Qed.
