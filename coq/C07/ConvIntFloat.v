(* C07/ConvIntFloat.v — integer -> floating type, in terms of IEEE rounding:
   every integer source x every floating target is accepted; the value placed in the
   destination ([round_int], bit pattern [flt_bits]: what the driver prints and the
   harness compares with the FPU's result) is the source rounded to nearest-even onto the
   target format (Flocq's [round]), and the bit pattern decodes to exactly that number. *)
From Coq Require Import Reals Lra.
From Flocq Require Import Core.
From MptV Require Import Base.Mem C07.ConvModel C07.ConvSpec C07.ConvFloat C07.ConvRound C07.ConvFlocq C07.ConvBits
  C07.ConvFloatProofs C07.ConvFloatThm.
Local Open Scope Z_scope.

(* ------------------------------------------------------------------ the converters (Z only) *)
(* every integer source type, every floating target, every value, with or without
   destination: accepted, the target's size is reported, the FPU converts the source itself *)
Lemma conv_float_target s v t tc : tgt_cty t = Some tc -> is_flt tc = true ->
  conv s v t true = OFlt tc v (cwidth tc) /\ conv s v t false = OQuery (cwidth tc).
Proof.
  intros T F. destruct (flt_target t tc T F) as [[-> ->]|[[-> ->]|[-> ->]]]; destruct s; split; reflexivity.
Qed.

(* conversely: a floating value in the destination is always the conversion of the source *)
Lemma convert_int_flt s v t hd c w ret : convert_int s v t hd = Done (StFlt c w) ret ->
  w = v /\ tgt_cty t = Some c /\ is_flt c = true /\ ret = cwidth c /\ hd = true.
Proof.
  destruct s, t; cbn [convert_int convert_int8 convert_uint8 convert_int16 convert_uint16 convert_int32
                      convert_uint32 convert_int64 convert_uint64 map_long];
    unfold chk, char_case, vec_case, st; cbn [is_flt];
    repeat match goal with
    | |- context [if ?b then _ else _] => destruct b
    | |- context [match isgraph_c ?x with _ => _ end] => destruct (isgraph_c x) as [[]|]
    end; cbn [is_flt]; intros H; try discriminate H; inversion H; subst; repeat split; reflexivity.
Qed.

Lemma conv_flt_inv s v t c w ret : conv s v t true = OFlt c w ret ->
  w = v /\ tgt_cty t = Some c /\ is_flt c = true /\ ret = cwidth c.
Proof.
  unfold conv, observe. destruct (convert_int s v t true) as [e|stv r|] eqn:CI; try discriminate.
  destruct stv as [c0 w0|c0 w0|l| |]; try (destruct (tgt_cty t); cbn; try discriminate;
    repeat match goal with |- context [if ?b then _ else _] => destruct b end; discriminate).
  destruct (convert_int_flt s v t true c0 w0 r CI) as (-> & T & F & -> & _).
  rewrite T. cbn [readback negb].
  assert (cty_eqb c0 c0 = true) as -> by (destruct c0; reflexivity).
  intros H; inversion H; subst. auto.
Qed.

(* the dispatch layers hand the same thing on *)
Lemma observe_flt t stv r c w ret : observe t true (Done stv r) = OFlt c w ret ->
  stv = StFlt c w /\ tgt_cty t = Some c /\ ret = r.
Proof.
  unfold observe. destruct stv as [c0 w0|c0 w0|l| |]; try discriminate;
    destruct (tgt_cty t) as [tc|]; cbn [readback negb]; try discriminate;
    repeat match goal with |- context [if ?b then _ else _] => destruct b eqn:? end; try discriminate.
  intros H; inversion H; subst. destruct tc, c; try discriminate; auto.
Qed.

Lemma value_convert_flt sk v tk c w r : value_convert sk v tk true = Done (StFlt c w) r ->
  w = v /\ tgt_cty (tty_of_code tk) = Some c /\ is_flt c = true.
Proof.
  unfold value_convert. destruct (tk =? 0); [discriminate|].
  set (dflt := if sk =? tk then _ else _).
  assert (DF : dflt = Done (StFlt c w) r -> False).
  { unfold dflt. repeat match goal with
      | |- context [if ?b then _ else _] => destruct b
      | |- context [match src_cty ?x with _ => _ end] => destruct (src_cty x)
      end; discriminate. }
  destruct (data_converter sk) as [s| | | | |]; try (intros H; destruct (DF H)).
  destruct (convert_int s v (tty_of_code tk) true) as [e|stv r0|] eqn:CI; try (intros H; destruct (DF H)); try discriminate.
  intros H. inversion H; subst stv.
  destruct (convert_int_flt s v (tty_of_code tk) true c w r0 CI) as (-> & T & F & _). auto.
Qed.

Lemma vconv_flt_inv sk v tk c w r : vconv sk v tk true = OFlt c w r ->
  w = v /\ tgt_cty (tty_of_code tk) = Some c /\ is_flt c = true.
Proof.
  unfold vconv. destruct (value_convert sk v tk true) as [e|stv r0|] eqn:VC; try discriminate.
  intros H. apply observe_flt in H as (-> & _ & _). exact (value_convert_flt sk v tk c w r0 VC).
Qed.

Lemma iconv_flt_inv sk v tk c w r : iconv sk v tk true = OFlt c w r ->
  w = v /\ tgt_cty (tty_of_code tk) = Some c /\ is_flt c = true.
Proof.
  unfold iconv, iterator_consume. destruct (tgt_cty (tty_of_code tk)) eqn:T; [|discriminate].
  destruct (value_convert sk v tk true) as [e|stv r0|] eqn:VC; try discriminate.
  intros H. apply observe_flt in H as (-> & _ & _). rewrite <- T. exact (value_convert_flt sk v tk c w r0 VC).
Qed.

(* ------------------------------------------------------------------ round_int is IEEE rounding *)
Lemma dyR_int neg m e : 0 <= e -> dyR neg m e = IZR (cond_Zopp neg (m * 2 ^ e)).
Proof.
  intros E. unfold dyR, F2R; cbn [Fnum Fexp].
  rewrite <- cond_Zopp_mul, mult_IZR, <- IZR_Zpower by exact E. reflexivity.
Qed.

Lemma cond_Zopp_abs v : cond_Zopp (v <? 0) (Z.abs v) = v.
Proof. destruct v; reflexivity. Qed.

Lemma sgn_cond v x : v <> 0 -> Z.sgn v * x = cond_Zopp (v <? 0) x.
Proof. destruct v; cbn; intros; try lia; destruct x; reflexivity. Qed.

(* canonical significand/exponent of the rounded integer *)
Lemma round_int_canon c v : v <> 0 ->
  exists m' e', 0 < m' <= 2 ^ fprec c /\ 0 <= e' /\
    round_int (fprec c) v = cond_Zopp (v <? 0) (m' * 2 ^ e') /\
    dyR (v <? 0) m' e' = rne_to c (IZR v).
Proof.
  intros NZ. set (p := fprec c). set (a := Z.abs v). set (neg := v <? 0).
  assert (P : 0 < p) by apply fprec_pos.
  assert (A : 0 < a) by (unfold a; lia).
  assert (VR : IZR v = dyR neg a 0).
  { rewrite dyR_int by lia. rewrite Z.pow_0_r, Z.mul_1_r. unfold neg, a. rewrite cond_Zopp_abs. reflexivity. }
  pose proof (log2_lt_pow a ltac:(lia)) as HI. pose proof (Z.log2_nonneg a) as LN.
  unfold round_int. fold a. fold p. set (k := Z.log2 a + 1 - p).
  destruct (Z.leb_spec k 0) as [K|K].
  - exists a, 0.
    assert (B : a < 2 ^ p).
    { assert (2 ^ (Z.log2 a + 1) <= 2 ^ p) by (apply Z.pow_le_mono_r; unfold k in K; lia). lia. }
    split; [lia|]. split; [lia|]. rewrite Z.pow_0_r, Z.mul_1_r.
    split; [unfold neg, a; symmetry; apply cond_Zopp_abs|].
    rewrite VR. symmetry. apply rne_exact; [fold p; lia|pose proof (f_elsb_neg c); lia].
  - assert (RE : rexp c a 0 = k) by (unfold rexp; fold p; pose proof (f_elsb_neg c); unfold k in *; lia).
    assert (RS : rsig c a 0 = rne_div a k).
    { unfold rsig. rewrite RE. destruct (Z.leb_spec k 0); [lia|].
      rewrite Z.sub_0_r. apply rshift_rne_spec; lia. }
    exists (rne_div a k), k.
    pose proof (rsig_bound c a 0 A) as SB. rewrite RS in SB. fold p in SB.
    pose proof (rsig_normal c a 0 A ltac:(rewrite RE; pose proof (f_elsb_neg c); lia)) as SN.
    rewrite RS in SN. fold p in SN.
    assert (0 < 2 ^ (p - 1)) by (apply pow2_pos; lia).
    split; [lia|]. split; [lia|]. split.
    + unfold rne_div. rewrite sgn_cond by exact NZ. reflexivity.
    + rewrite VR, round_dy by exact A. rewrite RS, RE. reflexivity.
Qed.

(* the value: round_int p v = v rounded to nearest-even onto the target format *)
Theorem round_int_is_rne c v : IZR (round_int (fprec c) v) = rne_to c (IZR v).
Proof.
  destruct (Z.eq_dec v 0) as [->|NZ].
  - assert (round_int (fprec c) 0 = 0) as ->.
    { unfold round_int. cbn [Z.abs Z.log2]. destruct (Z.leb_spec (0 + 1 - fprec c) 0); [reflexivity|].
      pose proof (fprec_pos c). lia. }
    unfold rne_to. rewrite round_0 by apply valid_rnd_N. reflexivity.
  - destruct (round_int_canon c v NZ) as (m' & e' & _ & E & -> & V).
    rewrite <- V. symmetry. apply dyR_int. exact E.
Qed.

(* the bit pattern: flt_bits is fencode of the canonical pair *)
Lemma flt_bits_fencode c neg m k : is_flt c = true -> 0 < m -> 0 <= k ->
  fencode c (FFin neg m k) = Some (flt_bits c (cond_Zopp neg (m * 2 ^ k))).
Proof.
  intros F M K.
  assert (PK : 0 < 2 ^ k) by (apply pow2_pos; lia).
  assert (MK : 0 < m * 2 ^ k) by nia.
  pose proof (Z.log2_nonneg m) as LN.
  unfold fencode, flt_bits.
  assert (AB : Z.abs (cond_Zopp neg (m * 2 ^ k)) = m * 2 ^ k) by (destruct neg; cbn [cond_Zopp]; lia).
  rewrite AB.
  assert (LG : Z.log2 (m * 2 ^ k) = Z.log2 m + k) by (rewrite Z.log2_mul_pow2 by lia; lia).
  rewrite LG.
  assert (SH : forall n, Z.shiftl (m * 2 ^ k) (n - (Z.log2 m + k)) = Z.shiftl m (n - Z.log2 m)).
  { intros n. rewrite <- (Z.shiftl_mul_pow2 m k) by lia. rewrite Z.shiftl_shiftl by lia. f_equal. lia. }
  destruct (Z.eqb_spec m 0); [lia|]. destruct (Z.eqb_spec (m * 2 ^ k) 0); [lia|].
  assert (SG : (cond_Zopp neg (m * 2 ^ k) <? 0) = neg).
  { destruct neg; cbn [cond_Zopp]; [apply Z.ltb_lt|apply Z.ltb_ge]; lia. }
  rewrite SG.
  destruct c; try discriminate F; cbn [fprec f_emax f_elsb].
  - destruct (Z.ltb_spec (Z.log2 m + k) (1 - 127)); [lia|]. f_equal.
    rewrite (SH 23). replace (24 - 1 - Z.log2 m) with (23 - Z.log2 m) by lia. destruct neg; evpow; ring.
  - destruct (Z.ltb_spec (Z.log2 m + k) (1 - 1023)); [lia|]. f_equal.
    rewrite (SH 52). replace (53 - 1 - Z.log2 m) with (52 - Z.log2 m) by lia. destruct neg; evpow; ring.
  - destruct (Z.ltb_spec (Z.log2 m + k) (1 - 16383)); [lia|]. f_equal.
    rewrite (SH 63). replace (64 - 1 - Z.log2 m) with (63 - Z.log2 m) by lia. destruct neg; evpow; ring.
Qed.

(* integer source of at most 64 bits: the destination's bit pattern decodes, as the target
   type, to the source rounded to nearest-even; no infinity, no NaN *)
Theorem int_float_destination c v : is_flt c = true -> - 2 ^ 63 <= v < 2 ^ 64 ->
  exists neg m2 e2, fdecode c (flt_bits c (round_int (fprec c) v)) = FFin neg m2 e2 /\
    dyR neg m2 e2 = rne_to c (IZR v).
Proof.
  intros F R.
  destruct (Z.eq_dec v 0) as [->|NZ].
  - assert (round_int (fprec c) 0 = 0) as ->.
    { unfold round_int. cbn [Z.abs Z.log2]. destruct (Z.leb_spec (0 + 1 - fprec c) 0); [reflexivity|].
      pose proof (fprec_pos c). lia. }
    exists false, 0, (f_elsb c). split; [destruct c; try discriminate F; reflexivity|].
    rewrite dyR_0. unfold rne_to. rewrite round_0 by apply valid_rnd_N. reflexivity.
  - destruct (round_int_canon c v NZ) as (m' & e' & M & E & RI & V).
    pose proof (round_int_finite (fprec c) v (fprec_pos c) R) as FIN.
    rewrite RI in FIN |- *.
    assert (PK : 0 < 2 ^ e') by (apply pow2_pos; lia).
    assert (AB : Z.abs (cond_Zopp (v <? 0) (m' * 2 ^ e')) = m' * 2 ^ e') by (destruct (v <? 0); cbn [cond_Zopp]; nia).
    rewrite AB in FIN.
    assert (LG : Z.log2 m' + e' <= 64).
    { assert (LM : Z.log2 (m' * 2 ^ e') = Z.log2 m' + e') by (rewrite Z.log2_mul_pow2 by lia; lia).
      rewrite <- LM. change 64 with (Z.log2 (2 ^ 64)). apply Z.log2_le_mono. lia. }
    pose proof (flt_bits_fencode c (v <? 0) m' e' F ltac:(lia) E) as FB.
    destruct (fdecode_fencode c (v <? 0) m' e' F ltac:(lia) ltac:(pose proof (f_elsb_neg c); lia)
                ltac:(intros _; destruct c; try discriminate F; cbn [f_emax]; lia))
      as (b & m2 & e2 & EN & DE & _ & SD).
    rewrite FB in EN. inversion EN; subst b.
    exists (v <? 0), m2, e2. split; [exact DE|].
    rewrite (same_dyadic_R _ m2 e2 m' e' SD). exact V.
Qed.
