(* C07/ConvBits.v — the bit patterns: [fdecode c] after [fencode c] gives back the same
   number, for every finite value the rounding can produce (at most p bits or exactly 2^p,
   exponent not below the subnormal exponent, magnitude below 2^(emax+1)).  So a statement
   about the value [fround] yields is a statement about the bytes in the destination.
   Z only, no real numbers. *)
From MptV Require Import Base.Mem C07.ConvModel C07.ConvFloat C07.ConvRound.
Local Open Scope Z_scope.

(* m2 * 2^e2 = m * 2^e, compared at the smaller exponent *)
Definition same_dyadic (m2 e2 m e : Z) : Prop :=
  m2 * 2 ^ (e2 - Z.min e e2) = m * 2 ^ (e - Z.min e e2).

(* sign / exponent / fraction fields *)
Lemma unpack a b S E M : 0 <= a -> 0 <= b -> 0 <= M < 2 ^ a -> 0 <= E < 2 ^ b -> 0 <= S <= 1 ->
  let bits := S * 2 ^ (a + b) + E * 2 ^ a + M in
  bits mod 2 ^ a = M /\ Z.shiftr bits a mod 2 ^ b = E /\ Z.odd (Z.shiftr bits (a + b)) = (S =? 1).
Proof.
  intros A B HM HE HS bits.
  assert (PA : 0 < 2 ^ a) by (apply pow2_pos; lia).
  assert (PB : 0 < 2 ^ b) by (apply pow2_pos; lia).
  assert (PAB : 2 ^ (a + b) = 2 ^ b * 2 ^ a) by (rewrite Z.pow_add_r by lia; ring).
  assert (E1 : bits = (S * 2 ^ b + E) * 2 ^ a + M) by (unfold bits; rewrite PAB; ring).
  assert (D1 : bits / 2 ^ a = S * 2 ^ b + E).
  { symmetry. apply (Z.div_unique bits (2 ^ a) _ M); [lia|rewrite E1; ring]. }
  assert (LT : E * 2 ^ a + M < 2 ^ (a + b)) by (rewrite PAB; nia).
  assert (D2 : bits / 2 ^ (a + b) = S).
  { symmetry. apply (Z.div_unique bits (2 ^ (a + b)) _ (E * 2 ^ a + M)); [nia|unfold bits; ring]. }
  split; [|split].
  - symmetry. apply (Z.mod_unique bits (2 ^ a) (S * 2 ^ b + E) M); [lia|rewrite E1; ring].
  - rewrite Z.shiftr_div_pow2, D1 by lia.
    symmetry. apply (Z.mod_unique _ (2 ^ b) S E); [lia|ring].
  - rewrite Z.shiftr_div_pow2, D2 by lia.
    assert (S = 0 \/ S = 1) as [-> | ->] by lia; reflexivity.
Qed.

(* the normalised significand of fencode: p bits, top bit set *)
Lemma sig_props p m : 0 < p -> 0 < m <= 2 ^ p ->
  let L := Z.log2 m in let sig := Z.shiftl m (p - 1 - L) in
  2 ^ (p - 1) <= sig < 2 ^ p /\
  ((L <= p - 1 /\ sig = m * 2 ^ (p - 1 - L)) \/ (L = p /\ m = 2 * sig)).
Proof.
  intros P M L sig.
  pose proof (log2_ge_pow m ltac:(lia)) as LO. pose proof (log2_lt_pow m ltac:(lia)) as HI.
  pose proof (Z.log2_nonneg m) as LN. fold L in LO, HI, LN.
  assert (PP : 2 ^ p = 2 * 2 ^ (p - 1)) by (apply pow2_split; lia).
  destruct (Z.le_gt_cases L (p - 1)) as [C|C].
  - assert (S : sig = m * 2 ^ (p - 1 - L)) by (unfold sig; apply Z.shiftl_mul_pow2; lia).
    assert (X : 2 ^ L * 2 ^ (p - 1 - L) = 2 ^ (p - 1)) by (rewrite <- Z.pow_add_r by lia; f_equal; lia).
    assert (Y : 2 ^ (L + 1) * 2 ^ (p - 1 - L) = 2 ^ p) by (rewrite <- Z.pow_add_r by lia; f_equal; lia).
    assert (0 < 2 ^ (p - 1 - L)) by (apply pow2_pos; lia).
    split; [rewrite S; nia|]. left. split; [exact C|exact S].
  - assert (LP : L = p).
    { destruct (Z.le_gt_cases L p); [lia|].
      assert (2 ^ (p + 1) <= 2 ^ L) by (apply Z.pow_le_mono_r; lia).
      rewrite Z.pow_add_r in H0 by lia. lia. }
    assert (MP : m = 2 ^ p) by (rewrite LP in LO; lia).
    assert (S : sig = 2 ^ (p - 1)).
    { unfold sig. rewrite LP. replace (p - 1 - p) with (- (1)) by lia.
      rewrite Z.shiftl_opp_r, Z.shiftr_div_pow2 by lia. rewrite MP, PP.
      change (2 ^ 1) with 2. rewrite Z.mul_comm, Z.div_mul by lia. reflexivity. }
    split; [rewrite S; pose proof (pow2_pos (p - 1)); lia|]. right. split; [exact LP|lia].
Qed.

Lemma same_dyadic_norm p m e : 0 < p -> 0 < m <= 2 ^ p ->
  same_dyadic (Z.shiftl m (p - 1 - Z.log2 m)) (Z.log2 m + e - (p - 1)) m e.
Proof.
  intros P M. destruct (sig_props p m P M) as [_ [[C S]|[C S]]]; unfold same_dyadic.
  - rewrite Z.min_r by lia. rewrite Z.sub_diag, Z.pow_0_r, Z.mul_1_r, S. f_equal. f_equal. lia.
  - rewrite Z.min_l by lia. rewrite Z.sub_diag, Z.pow_0_r, Z.mul_1_r.
    replace (Z.log2 m + e - (p - 1) - e) with 1 by lia. change (2 ^ 1) with 2. lia.
Qed.

Lemma same_dyadic_sub m e elsb : elsb <= e -> same_dyadic (Z.shiftl m (e - elsb)) elsb m e.
Proof.
  intros E. unfold same_dyadic. rewrite Z.min_r by lia.
  rewrite Z.sub_diag, Z.pow_0_r, Z.mul_1_r. apply Z.shiftl_mul_pow2. lia.
Qed.

Lemma sub_bound p m e elsb : 0 < p -> 0 < m -> elsb <= e -> Z.log2 m + e < elsb + p - 1 ->
  0 < Z.shiftl m (e - elsb) < 2 ^ (p - 1).
Proof.
  intros P M E S. rewrite Z.shiftl_mul_pow2 by lia.
  pose proof (log2_lt_pow m ltac:(lia)) as HI. pose proof (Z.log2_nonneg m) as LN.
  assert (0 < 2 ^ (e - elsb)) by (apply pow2_pos; lia).
  assert (2 ^ (Z.log2 m + 1) * 2 ^ (e - elsb) <= 2 ^ (p - 1)).
  { rewrite <- Z.pow_add_r by lia. apply Z.pow_le_mono_r; lia. }
  nia.
Qed.

Definition sbit (neg : bool) : Z := if neg then 1 else 0.
(* replace closed powers of two in the goal by their numerals *)
Ltac evpow :=
  repeat match goal with
  | |- context [2 ^ ?k] =>
    let v := eval vm_compute in (2 ^ k) in
    match v with Zpos _ => change (2 ^ k) with v end
  end.
Lemma sbit_range neg : 0 <= sbit neg <= 1. Proof. destruct neg; cbn; lia. Qed.
Lemma sbit_eqb neg : (sbit neg =? 1) = neg. Proof. destruct neg; reflexivity. Qed.

(* ---- binary32 ---- *)
Lemma roundtrip32 neg m e : 0 <= m <= 2 ^ 24 -> -149 <= e -> (0 < m -> Z.log2 m + e <= 127) ->
  exists b m2 e2, fencode CF32 (FFin neg m e) = Some b /\ fdecode CF32 b = FFin neg m2 e2 /\
    0 <= m2 /\ same_dyadic m2 e2 m e.
Proof.
  intros M E O. unfold fencode. cbn [fprec f_emax f_elsb].
  destruct (Z.eqb_spec m 0) as [->|NZ].
  { exists (sbit neg * 2 ^ (23 + 8) + 0 * 2 ^ 23 + 0), 0, (-149).
    split; [destruct neg; reflexivity|].
    destruct (unpack 23 8 (sbit neg) 0 0 ltac:(lia) ltac:(lia) ltac:(lia) ltac:(lia) (sbit_range neg)) as (U1 & U2 & U3).
    unfold fdecode. change 8388608 with (2 ^ 23). change 256 with (2 ^ 8). change 31 with (23 + 8).
    cbv zeta. rewrite U1, U2, U3, sbit_eqb. cbn. split; [reflexivity|]. split; [lia|].
    unfold same_dyadic. rewrite !Z.mul_0_l. reflexivity. }
  assert (MP : 0 < m) by lia. specialize (O MP). set (L := Z.log2 m) in *.
  destruct (Z.ltb_spec (L + e) (1 - 127)) as [SUB|NORM].
  - pose proof (sub_bound 24 m e (-149) ltac:(lia) MP E ltac:(fold L; lia)) as SB.
    set (M1 := Z.shiftl m (e - -149)) in *. change (2 ^ (24 - 1)) with (2 ^ 23) in SB.
    exists (sbit neg * 2 ^ (23 + 8) + 0 * 2 ^ 23 + M1), M1, (-149).
    split; [destruct neg; cbn [sbit]; f_equal; evpow; ring|].
    destruct (unpack 23 8 (sbit neg) 0 M1 ltac:(lia) ltac:(lia) ltac:(lia) ltac:(lia) (sbit_range neg)) as (U1 & U2 & U3).
    unfold fdecode. change 8388608 with (2 ^ 23). change 256 with (2 ^ 8). change 31 with (23 + 8).
    cbv zeta. rewrite U1, U2, U3, sbit_eqb. cbn [Z.eqb].
    split; [reflexivity|]. split; [lia|]. apply same_dyadic_sub. exact E.
  - destruct (sig_props 24 m ltac:(lia) ltac:(lia)) as [SG _]. fold L in SG.
    pose proof (same_dyadic_norm 24 m e ltac:(lia) ltac:(lia)) as SD. fold L in SD.
    set (sig := Z.shiftl m (24 - 1 - L)) in *. change (2 ^ (24 - 1)) with (2 ^ 23) in SG.
    exists (sbit neg * 2 ^ (23 + 8) + (L + e + 127) * 2 ^ 23 + (sig - 2 ^ 23)), sig, (L + e - 23).
    split; [destruct neg; cbn [sbit]; f_equal; evpow; ring|].
    destruct (unpack 23 8 (sbit neg) (L + e + 127) (sig - 2 ^ 23) ltac:(lia) ltac:(lia)
                ltac:(change (2 ^ 24) with (2 * 2 ^ 23) in SG; lia) ltac:(change (2 ^ 8) with 256; lia) (sbit_range neg)) as (U1 & U2 & U3).
    unfold fdecode. change 8388608 with (2 ^ 23). change 256 with (2 ^ 8). change 31 with (23 + 8).
    cbv zeta. rewrite U1, U2, U3, sbit_eqb.
    destruct (Z.eqb_spec (L + e + 127) 255); [lia|]. destruct (Z.eqb_spec (L + e + 127) 0); [lia|].
    split; [f_equal; lia|]. split; [lia|].
    replace (L + e - 23) with (L + e - (24 - 1)) by lia. exact SD.
Qed.

(* ---- binary64 ---- *)
Lemma roundtrip64 neg m e : 0 <= m <= 2 ^ 53 -> -1074 <= e -> (0 < m -> Z.log2 m + e <= 1023) ->
  exists b m2 e2, fencode CF64 (FFin neg m e) = Some b /\ fdecode CF64 b = FFin neg m2 e2 /\
    0 <= m2 /\ same_dyadic m2 e2 m e.
Proof.
  intros M E O. unfold fencode. cbn [fprec f_emax f_elsb].
  destruct (Z.eqb_spec m 0) as [->|NZ].
  { exists (sbit neg * 2 ^ (52 + 11) + 0 * 2 ^ 52 + 0), 0, (-1074).
    split; [destruct neg; reflexivity|].
    destruct (unpack 52 11 (sbit neg) 0 0 ltac:(lia) ltac:(lia) ltac:(lia) ltac:(lia) (sbit_range neg)) as (U1 & U2 & U3).
    unfold fdecode. change 4503599627370496 with (2 ^ 52). change 2048 with (2 ^ 11). change 63 with (52 + 11).
    cbv zeta. rewrite U1, U2, U3, sbit_eqb. cbn. split; [reflexivity|]. split; [lia|].
    unfold same_dyadic. rewrite !Z.mul_0_l. reflexivity. }
  assert (MP : 0 < m) by lia. specialize (O MP). set (L := Z.log2 m) in *.
  destruct (Z.ltb_spec (L + e) (1 - 1023)) as [SUB|NORM].
  - pose proof (sub_bound 53 m e (-1074) ltac:(lia) MP E ltac:(fold L; lia)) as SB.
    set (M1 := Z.shiftl m (e - -1074)) in *. change (2 ^ (53 - 1)) with (2 ^ 52) in SB.
    exists (sbit neg * 2 ^ (52 + 11) + 0 * 2 ^ 52 + M1), M1, (-1074).
    split; [destruct neg; cbn [sbit]; f_equal; evpow; ring|].
    destruct (unpack 52 11 (sbit neg) 0 M1 ltac:(lia) ltac:(lia) ltac:(lia) ltac:(lia) (sbit_range neg)) as (U1 & U2 & U3).
    unfold fdecode. change 4503599627370496 with (2 ^ 52). change 2048 with (2 ^ 11). change 63 with (52 + 11).
    cbv zeta. rewrite U1, U2, U3, sbit_eqb. cbn [Z.eqb].
    split; [reflexivity|]. split; [lia|]. apply same_dyadic_sub. exact E.
  - destruct (sig_props 53 m ltac:(lia) ltac:(lia)) as [SG _]. fold L in SG.
    pose proof (same_dyadic_norm 53 m e ltac:(lia) ltac:(lia)) as SD. fold L in SD.
    set (sig := Z.shiftl m (53 - 1 - L)) in *. change (2 ^ (53 - 1)) with (2 ^ 52) in SG.
    exists (sbit neg * 2 ^ (52 + 11) + (L + e + 1023) * 2 ^ 52 + (sig - 2 ^ 52)), sig, (L + e - 52).
    split; [destruct neg; cbn [sbit]; f_equal; evpow; ring|].
    destruct (unpack 52 11 (sbit neg) (L + e + 1023) (sig - 2 ^ 52) ltac:(lia) ltac:(lia)
                ltac:(change (2 ^ 53) with (2 * 2 ^ 52) in SG; lia) ltac:(change (2 ^ 11) with 2048; lia) (sbit_range neg)) as (U1 & U2 & U3).
    unfold fdecode. change 4503599627370496 with (2 ^ 52). change 2048 with (2 ^ 11). change 63 with (52 + 11).
    cbv zeta. rewrite U1, U2, U3, sbit_eqb.
    destruct (Z.eqb_spec (L + e + 1023) 2047); [lia|]. destruct (Z.eqb_spec (L + e + 1023) 0); [lia|].
    split; [f_equal; lia|]. split; [lia|].
    replace (L + e - 52) with (L + e - (53 - 1)) by lia. exact SD.
Qed.

(* ---- x87 extended (explicit integer bit) ---- *)
Lemma roundtrip80 neg m e : 0 <= m <= 2 ^ 64 -> -16445 <= e -> (0 < m -> Z.log2 m + e <= 16383) ->
  exists b m2 e2, fencode CF80 (FFin neg m e) = Some b /\ fdecode CF80 b = FFin neg m2 e2 /\
    0 <= m2 /\ same_dyadic m2 e2 m e.
Proof.
  intros M E O. unfold fencode. cbn [fprec f_emax f_elsb].
  destruct (Z.eqb_spec m 0) as [->|NZ].
  { exists (sbit neg * 2 ^ (64 + 15) + 0 * 2 ^ 64 + 0), 0, (-16445).
    split; [destruct neg; reflexivity|].
    destruct (unpack 64 15 (sbit neg) 0 0 ltac:(lia) ltac:(lia) ltac:(lia) ltac:(lia) (sbit_range neg)) as (U1 & U2 & U3).
    unfold fdecode. change 18446744073709551616 with (2 ^ 64). change 32768 with (2 ^ 15). change 79 with (64 + 15).
    cbv zeta. rewrite U1, U2, U3, sbit_eqb. cbn. split; [reflexivity|]. split; [lia|].
    unfold same_dyadic. rewrite !Z.mul_0_l. reflexivity. }
  assert (MP : 0 < m) by lia. specialize (O MP). set (L := Z.log2 m) in *.
  destruct (Z.ltb_spec (L + e) (1 - 16383)) as [SUB|NORM].
  - pose proof (sub_bound 64 m e (-16445) ltac:(lia) MP E ltac:(fold L; lia)) as SB.
    set (M1 := Z.shiftl m (e - -16445)) in *. change (2 ^ (64 - 1)) with (2 ^ 63) in SB.
    exists (sbit neg * 2 ^ (64 + 15) + 0 * 2 ^ 64 + M1), M1, (-16445).
    split; [destruct neg; cbn [sbit]; f_equal; evpow; ring|].
    destruct (unpack 64 15 (sbit neg) 0 M1 ltac:(lia) ltac:(lia)
                ltac:(change (2 ^ 64) with (2 * 2 ^ 63); lia) ltac:(lia) (sbit_range neg)) as (U1 & U2 & U3).
    unfold fdecode. change 18446744073709551616 with (2 ^ 64). change 32768 with (2 ^ 15). change 79 with (64 + 15).
    cbv zeta. rewrite U1, U2, U3, sbit_eqb. cbn [Z.eqb].
    split; [reflexivity|]. split; [lia|]. apply same_dyadic_sub. exact E.
  - destruct (sig_props 64 m ltac:(lia) ltac:(lia)) as [SG _]. fold L in SG.
    pose proof (same_dyadic_norm 64 m e ltac:(lia) ltac:(lia)) as SD. fold L in SD.
    set (sig := Z.shiftl m (64 - 1 - L)) in *.
    exists (sbit neg * 2 ^ (64 + 15) + (L + e + 16383) * 2 ^ 64 + sig), sig, (L + e - 63).
    split; [destruct neg; cbn [sbit]; f_equal; evpow; ring|].
    destruct (unpack 64 15 (sbit neg) (L + e + 16383) sig ltac:(lia) ltac:(lia)
                ltac:(pose proof (pow2_pos (64 - 1)); lia) ltac:(change (2 ^ 15) with 32768; lia) (sbit_range neg)) as (U1 & U2 & U3).
    unfold fdecode. change 18446744073709551616 with (2 ^ 64). change 32768 with (2 ^ 15). change 79 with (64 + 15).
    cbv zeta. rewrite U1, U2, U3, sbit_eqb.
    destruct (Z.eqb_spec (L + e + 16383) 32767); [lia|]. destruct (Z.eqb_spec (L + e + 16383) 0); [lia|].
    split; [f_equal; lia|]. split; [pose proof (pow2_pos (64 - 1)); lia|].
    replace (L + e - 63) with (L + e - (64 - 1)) by lia. exact SD.
Qed.

(* ---- all three ---- *)
Theorem fdecode_fencode c neg m e : is_flt c = true ->
  0 <= m <= 2 ^ fprec c -> f_elsb c <= e -> (0 < m -> Z.log2 m + e <= f_emax c) ->
  exists b m2 e2, fencode c (FFin neg m e) = Some b /\ fdecode c b = FFin neg m2 e2 /\
    0 <= m2 /\ same_dyadic m2 e2 m e.
Proof.
  destruct c; try discriminate; intros _; cbn [fprec f_elsb f_emax].
  - apply roundtrip32. - apply roundtrip64. - apply roundtrip80.
Qed.

(* every finite result of [fround] satisfies the conditions *)
Lemma f_elsb_neg c : f_elsb c < 0.
Proof. destruct c; reflexivity. Qed.

Lemma fround_fin_range c neg m e neg' m' e' : 0 <= m -> fround c (FFin neg m e) = FFin neg' m' e' ->
  neg' = neg /\ 0 <= m' <= 2 ^ fprec c /\ f_elsb c <= e' /\ (0 < m' -> Z.log2 m' + e' <= f_emax c).
Proof.
  intros M. rewrite fround_unfold.
  assert (Z0 : FFin neg 0 0 = FFin neg' m' e' ->
               neg' = neg /\ 0 <= m' <= 2 ^ fprec c /\ f_elsb c <= e' /\ (0 < m' -> Z.log2 m' + e' <= f_emax c)).
  { intros H; inversion H; subst. split; [reflexivity|].
    pose proof (pow2_pos (fprec c)). pose proof (fprec_pos c). pose proof (f_elsb_neg c). repeat split; lia. }
  destruct (Z.eqb_spec m 0) as [->|NZ]; [exact Z0|].
  destruct (Z.eqb_spec (rsig c m e) 0); [exact Z0|].
  destruct (Z.ltb_spec (f_emax c) (Z.log2 (rsig c m e) + rexp c m e)) as [OV|OV]; [discriminate|].
  intros HH; inversion HH; subst. split; [reflexivity|].
  pose proof (rsig_bound c m e ltac:(lia)). split; [lia|]. split; [unfold rexp; lia|lia].
Qed.
