(* C07/ConvDispatch.v — executable model of the layers AROUND the scalar converters (NO proofs
   in this file; the lemmas are in ConvDispatchProofs.v):

     value_convert.c      mpt_value_convert for ANY source type code: the control skeleton
                          [value_convert_c] (converter of the source type, raw copy of a value of
                          the same type, vector views, string view), [value_convert_flt] for the
                          floating sources, the type-traits table it consults
     data_converter.c     _mpt_convertable_wrap, _mpt_metatype_wrap
     iterator_consume.c   mpt_iterator_consume on an iterator that may have no value and whose
                          advance() may fail, including type 0 (skip the value)
     convert_string.c     every branch: type 0, 'k' (mpt_convert_key without separators), char
                          vector, TypeValFmt (not modelled further), 's', numbers; and the
                          function as patched by docs/C07_convert_string_space.diff
                          ([convert_string_p true]: nothing converted = 0 returned)
     cdouble.c cfloat.c cldouble.c   the optional range argument ([convert_float_text_r]);
                          [fgt] is the C comparison > on decoded floating values

   ConvModel.v keeps the scalar switches; what is defined here calls them. *)
From MptV Require Import Base.Mem C07.ConvModel C07.ConvFloat.
Local Open Scope Z_scope.

(* ------------------------------------------------------------------ mpt_type_traits *)
(* (size, has init/fini) in a process that registered no type of its own: core types
   (< 0x20), scalars 'a'..'z', vectors '@'..'Y', the 9 named interfaces 0x80..0x88, the base
   metatype pointer 0x100, the four managed types 0x800..0x803 *)
Definition scalar_size (k : Z) : option Z :=
  if (k =? 98) || (k =? 99) || (k =? 121) then Some 1
  else if (k =? 110) || (k =? 113) then Some 2
  else if (k =? 102) || (k =? 105) || (k =? 117) then Some 4
  else if (k =? 100) || (k =? 115) || (k =? 116) || (k =? 120) then Some 8
  else if k =? 101 then Some 16
  else None.

Definition traits (k : Z) : option (Z * bool) :=
  if k <=? 0 then None
  else if k <? 32 then
    (if k =? 1 then Some (4, false)
     else if (k =? 4) || (k =? 5) || (k =? 8) || (k =? 9) || (k =? 11) then Some (8, false)
     else if k =? 24 then Some (4, false)
     else if k =? 25 then Some (16, false)
     else if k =? 26 then Some (48, false)
     else None)
  else if (96 <=? k) && (k <=? 122) then
    match scalar_size k with Some n => Some (n, false) | None => None end
  else if (64 <=? k) && (k <? 90) then
    (if k =? 64 then Some (16, false)
     else match scalar_size (k + 32) with Some _ => Some (16, false) | None => None end)
  else if (128 <=? k) && (k <=? 136) then Some (8, false)
  else if k =? 256 then Some (8, false)
  else if k =? 2048 then Some (16, true)
  else if (k =? 2049) || (k =? 2050) then Some (8, true)
  else if k =? 2051 then Some (24, true)
  else None.

(* MPT_type_toVector / MPT_type_toScalar *)
Definition to_vector (k : Z) : Z := if (96 <=? k) && (k <=? 122) then k - 32 else 0.
Definition to_scalar (k : Z) : Z := if (64 <=? k) && (k <? 90) then k + 32 else 0.

(* ------------------------------------------------------------------ value_convert.c *)
(* What mpt_value_convert(val, tk, dest) does for a value of type code [sk]; [conv_ok]: a
   converter exists for sk (mpt_data_converter) and accepted the request (it wrote the
   destination itself); [tostr]: mpt_data_tostring(&src, sk, 0) finds terminated text *)
Inductive vres :=
| VRefused (e : err)
| VConv (ret : Z)      (* the converter of the source type wrote: 0 = same type, 3 otherwise *)
| VCopy (n : Z)        (* memcpy(dest, src, n): a value of the very same type; returns 0 *)
| VCopyVec             (* memcpy of the source's iovec to a generic vector; returns 1 *)
| VMkVec (len : Z)     (* { address of the source, len }; returns 2 *)
| VStr.                (* pointer to the source's text; returns 4 *)

Definition vret (r : vres) : Z :=
  match r with VConv ret => ret | VCopy _ => 0 | VCopyVec => 1 | VMkVec _ => 2 | VStr => 4 | VRefused _ => -1 end.

Definition value_convert_c (sk tk : Z) (conv_ok tostr : bool) : vres :=
  if tk =? 0 then VRefused BadArgument
  else if conv_ok then VConv (if sk =? tk then 0 else 3)
  else if sk =? tk then
    match traits tk with
    | None => VRefused BadArgument
    | Some (n, managed) => if managed then VRefused BadValue else VCopy n
    end
  else if (tk =? 64) && (0 <? to_scalar sk) then
    match traits (to_scalar sk) with
    | None => VRefused BadArgument
    | Some (_, managed) => if managed then VRefused BadValue else VCopyVec
    end
  else if tk =? to_vector sk then
    match traits sk with
    | None => VRefused BadArgument
    | Some (n, _) => VMkVec n
    end
  else if (tk =? 115) && tostr then VStr
  else VRefused BadType.

(* the skeleton applied to an integer/char source (what ConvModel.value_convert spells out) *)
Definition int_vres (c : cty) (v : Z) (hd : bool) (stv : stored) (r : vres) : cres :=
  match r with
  | VRefused e => Refused e
  | VConv ret => Done stv ret
  | VCopy _ => Done (if hd then StInt c v else StNone) 0
  | VMkVec n => Done (if hd then StVec n else StNone) 2
  | VCopyVec => Done StNone 1
  | VStr => Done StNone 4
  end.

(* floating sources: mpt_data_convert_float32/float64/exflt behind the dispatcher *)
Definition flt_code (c : cty) : Z := match c with CF32 => 102 | CF64 => 100 | _ => 101 end.
Definition keep_bits (c : cty) (bits : Z) : option Z :=
  match fdecode c bits with FNaN => None | _ => Some bits end.

Definition value_convert_flt (src : cty) (bits tk : Z) (hd : bool) : fobs :=
  let sk := flt_code src in
  let code := if sk =? tk then 0 else 3 in
  if tk =? 0 then FRefused BadArgument else
  match fconv src bits (tty_of_code tk) hd with
  | FFault => FFault
  | FOk c b _ => FOk c b code
  | FVec l _ => FVec l code
  | FQuery _ => FQuery code
  | FRefused _ =>
    match value_convert_c sk tk false false with
    | VRefused e => FRefused e
    | VCopy n => if hd then FOk src (keep_bits src bits) 0 else FQuery 0
    | VMkVec n => if hd then FVec n 2 else FQuery 2
    | r => FQuery (vret r)
    end
  end.

(* ------------------------------------------------------------------ values without a data address *)
(* A value may carry a type and no address (MPT_VALUE_INIT(type, 0)): every mpt_data_convert_*()
   starts `val = 0; if (from) val = *from;`, such a value denotes the zero of its type.  [from]:
   None = value._addr == 0.  What does NOT go through a converter is the raw copy of a value of
   the very same type, memcpy(dest, src, size): [null_patched] = value_convert.c as patched by
   docs/C07_null_raw_copy.diff (zero bytes for a null source); unpatched the copy reads through
   the null address. *)
Definition src_val (from : option Z) : Z := match from with Some v => v | None => 0 end.

Definition int_conv_ok (sk val tk : Z) (hd : bool) : bool :=
  match data_converter sk with
  | ConvInt s => match convert_int s val (tty_of_code tk) hd with Done _ _ => true | _ => false end
  | _ => false
  end.

Definition null_copy_faults (null_patched : bool) (sk tk : Z) (conv_ok hd : bool) : bool :=
  hd && negb null_patched &&
  match value_convert_c sk tk conv_ok false with VCopy _ => true | _ => false end.

Definition value_convert_a (null_patched : bool) (sk : Z) (from : option Z) (tk : Z) (hd : bool) : cres :=
  match from with
  | Some v => value_convert sk v tk hd
  | None =>
    if null_copy_faults null_patched sk tk (int_conv_ok sk 0 tk hd) hd then CFault
    else value_convert sk 0 tk hd
  end.

Definition value_convert_flt_a (null_patched : bool) (src : cty) (from : option Z) (tk : Z) (hd : bool) : fobs :=
  match from with
  | Some bits => value_convert_flt src bits tk hd
  | None =>
    let ok := match fconv src 0 (tty_of_code tk) hd with FRefused _ => false | _ => true end in
    if null_copy_faults null_patched (flt_code src) tk ok hd then FFault
    else value_convert_flt src 0 tk hd
  end.

(* mpt_iterator_consume (one value, advance succeeds) on such a value: ConvModel.iterator_consume
   around [value_convert_a] *)
Definition iterator_consume_a (null_patched : bool) (sk : Z) (from : option Z) (tk : Z) (hd : bool) : cres :=
  match tgt_cty (tty_of_code tk) with
  | None => Refused BadType
  | Some _ =>
    match value_convert_a null_patched sk from tk hd with
    | Done stv _ => Done stv sk
    | r => r
    end
  end.

(* ------------------------------------------------------------------ data_converter.c: the two wrappers *)
Inductive wsrc := WNoFrom | WNullPtr | WObj.     (* from == 0 / *from == 0 / an object *)
Definition is_obj (w : wsrc) : bool := match w with WObj => true | _ => false end.

(* _mpt_convertable_wrap: [ans] = what the object's convert() answers (None = accepted) *)
Definition convertable_wrap (w : wsrc) (ans : option err) : option err :=
  match w with WObj => ans | _ => Some MissingData end.

Inductive mwres :=
| MwRefused (e : err)
| MwRef (addref unref_old : bool)   (* reference target: new referent retained, old one released, pointer stored; returns 8 *)
| MwQuery                           (* reference target without destination; returns 8 *)
| MwAns (ans : option err).         (* the object's own convert() *)

(* _mpt_metatype_wrap (TypeMetaRef = 0x801 = 2049); [old]: the target held a reference before *)
Definition metatype_wrap (w : wsrc) (tk : Z) (hd addref_ok old : bool) (ans : option err) : mwres :=
  match w with
  | WNoFrom => MwRefused MissingData
  | _ =>
    if tk =? 2049 then
      (if hd then (if is_obj w && negb addref_ok then MwRefused BadOperation else MwRef (is_obj w) old)
       else MwQuery)
    else match w with WObj => MwAns ans | _ => MwRefused MissingData end
  end.

Definition mw_ok (r : mwres) : bool :=
  match r with MwRefused _ => false | MwAns (Some _) => false | _ => true end.

(* ------------------------------------------------------------------ iterator_consume.c *)
(* the iterator: type code of its current value (None = value() returns 0) and what advance()
   answers (None = success) *)
Record iter := mkIter { it_val : option Z; it_adv : option err }.

(* result (error or return code), calls of advance(), bytes copied to the destination *)
Inductive iout := IOut (r : err + Z) (adv_calls : Z) (copied : option Z).

(* [vc] = what mpt_value_convert(val, tk, dest ? tmp : 0) answered (None = success) *)
Definition iterator_consume_c (it : iter) (tk : Z) (hd : bool) (vc : option err) : iout :=
  if tk =? 0 then
    let ty := match it_val it with Some sk => if sk <=? 4095 then sk else 0 | None => 0 end in
    match it_adv it with
    | Some e => IOut (inl e) 1 None
    | None => IOut (inr ty) 1 None
    end
  else
    match it_val it with
    | None => IOut (inl MissingData) 0 None
    | Some sk =>
      match tgt_cty (tty_of_code tk) with
      | None => IOut (inl BadType) 0 None
      | Some tc =>
        match vc with
        | Some e => IOut (inl e) 0 None
        | None =>
          match it_adv it with
          | Some e => IOut (inl e) 1 None
          | None => IOut (inr sk) 1 (if hd then Some (cwidth tc) else None)
          end
        end
      end
    end.

Definition cres_err (r : cres) : option err := match r with Refused e => Some e | _ => None end.
Definition fobs_err (r : fobs) : option err := match r with FRefused e => Some e | _ => None end.

(* ------------------------------------------------------------------ convert_key.c (no separator set) *)
Fixpoint take_word (s : list Z) : nat :=
  match s with
  | c :: r => if is_space c then O else S (take_word r)
  | [] => O
  end.
(* (offset of the keyword, position behind it); None = nothing but white space *)
Definition convert_key (s : list Z) : option (nat * nat) :=
  let '(off, r) := skip_space s in
  match take_word r with
  | O => None
  | n => Some (off, (off + n)%nat)
  end.

(* ------------------------------------------------------------------ convert_string.c, every branch *)
(* as patched (docs/C07_convert_string_space.diff): `if ((len = mpt_convert_number(..)) <= 0) return len;` *)
Definition convert_string_p (patched : bool) (from : option (list Z)) (t : tty) (hd : bool) (o : flt_oracle) : tres :=
  if patched then
    match from with
    | None => TEmpty
    | Some s0 =>
      let s := cstr s0 in
      match s with
      | [] => TEmpty
      | _ =>
        let '(k, txt) := skip_space s in
        let o' := mkOracle (fo_end o - k)%nat (fo_erange o) (fo_cls o) in
        match convert_number (Some txt) t hd o' with
        | TDone stv n => TDone stv (k + n)
        | r => r
        end
      end
    end
  else convert_string from t hd o.

Inductive sres :=
| SNum (r : tres)                          (* every other type code: a number behind white space *)
| SFmt                                     (* type 0: pointer to the format string { 's', 0 }, returns 0; 's' without destination *)
| SKey (r : option (option (nat * nat)))   (* 'k': None = returns 0; Some None = BadValue; Some (Some (offset, consumed)) *)
| SVec (null : bool) (len : nat)           (* char vector: { from, len + 1 } ({ 0, 0 } for a null pointer), returns len *)
| SValFmt                                  (* mpt_valfmt_get: executed, not modelled *)
| SPtr (len : nat).                        (* 's': the pointer itself, returns strlen *)

Definition convert_string_full (patched : bool) (from : option (list Z)) (tk : Z) (hd : bool) (o : flt_oracle) : sres :=
  if tk =? 0 then SFmt
  else if tk =? 107 then
    match from with
    | None => SKey None
    | Some s0 => match cstr s0 with [] => SKey None | s => SKey (Some (convert_key s)) end
    end
  else if tk =? 67 then
    match from with None => SVec true O | Some s0 => SVec false (length (cstr s0)) end
  else if tk =? 24 then SValFmt
  else if tk =? 115 then
    match from with None => SPtr O | Some s0 => SPtr (length (cstr s0)) end
  else SNum (convert_string_p patched from (tty_of_code tk) hd o).

(* ------------------------------------------------------------------ the range argument of mpt_cfloat/cdouble/cldouble *)
(* C's a > b on floating values: false when either is a NaN *)
Definition sval (neg : bool) (m : Z) : Z := if neg then - m else m.
Definition fgt (a b : fval) : bool :=
  match a, b with
  | FNaN, _ | _, FNaN => false
  | FInf na, FInf nb => negb na && nb
  | FInf na, FFin _ _ _ => negb na
  | FFin _ _ _, FInf nb => nb
  | FFin na ma ea, FFin nb mb eb =>
    let g := Z.min ea eb in
    sval nb (Z.shiftl mb (eb - g)) <? sval na (Z.shiftl ma (ea - g))
  end.

(*  if (range && (range[0] > tmp || tmp > range[1])) return BadValue;  — after the end == src test,
    before the store; [v] = the value libc returned *)
Definition convert_float_text_r (hd : bool) (src : list Z) (o : flt_oracle) (v : fval)
           (range : option (fval * fval)) : tres :=
  match convert_float_text hd src o with
  | TDone stv n =>
    match range with
    | Some (lo, hi) => if fgt lo v || fgt v hi then TRefused BadValue else TDone stv n
    | None => TDone stv n
    end
  | r => r
  end.
