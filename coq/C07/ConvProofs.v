(* C07/ConvProofs.v — proofs about the integer converters (data_convert_int.c), the
   dispatch layers (value_convert.c, iterator_consume.c) and integer -> float rounding.
   All statements are over unbounded Z: every source value, no sampling. *)
From MptV Require Import Base.Mem C07.ConvModel C07.ConvSpec.
Local Open Scope Z_scope.

(* ------------------------------------------------------------------ constants *)
Lemma cmod_pos c : 0 < cmod c.
Proof. destruct c; reflexivity. Qed.
Lemma cmod_even c : cmod c = 2 * (cmod c / 2).
Proof. destruct c; reflexivity. Qed.

(* replace cmin/cmax/cmod/cwidth of a constructor by its number *)
Ltac ev1 f :=
  repeat match goal with
  | |- context [f ?c] =>
    let x := eval vm_compute in (f c) in
    match x with Z0 => idtac | Zpos _ => idtac | Zneg _ => idtac end;
    change (f c) with x
  | H : context [f ?c] |- _ =>
    let x := eval vm_compute in (f c) in
    match x with Z0 => idtac | Zpos _ => idtac | Zneg _ => idtac end;
    change (f c) with x in H
  end.
Ltac ev_consts := ev1 cmin; ev1 cmax; ev1 cmod; ev1 cwidth.

(* boolean comparisons in hypotheses -> Prop *)
Ltac b2p :=
  repeat match goal with
  | H : _ && _ = true |- _ => apply andb_true_iff in H; destruct H
  | H : _ || _ = false |- _ => apply orb_false_iff in H; destruct H
  | H : _ || _ = true |- _ => apply orb_true_iff in H
  | H : _ && _ = false |- _ => apply andb_false_iff in H
  | H : negb _ = true |- _ => apply negb_true_iff in H
  | H : negb _ = false |- _ => apply negb_false_iff in H
  | H : (_ <? _) = true |- _ => apply Z.ltb_lt in H
  | H : (_ <? _) = false |- _ => apply Z.ltb_ge in H
  | H : (_ <=? _) = true |- _ => apply Z.leb_le in H
  | H : (_ <=? _) = false |- _ => apply Z.leb_gt in H
  | H : (_ =? _) = true |- _ => apply Z.eqb_eq in H
  | H : (_ =? _) = false |- _ => apply Z.eqb_neq in H
  end.

Lemma in_range_iff c w : in_range c w = true <-> cmin c <= w <= cmax c.
Proof. unfold in_range. rewrite andb_true_iff, !Z.leb_le. tauto. Qed.

Lemma src_ok_iff s v : src_ok s v = true <-> cmin (ity_cty s) <= v <= cmax (ity_cty s).
Proof. unfold src_ok. rewrite andb_true_iff, !Z.leb_le. tauto. Qed.

(* ------------------------------------------------------------------ store / read back *)
Ltac Zify.zify_post_hook ::= Z.div_mod_to_equations.

Lemma reinterp_mod c v : cmin c <= v <= cmax c -> reinterp c (v mod cmod c) = v.
Proof.
  intros H. unfold reinterp.
  destruct c; ev_consts; cbn [csigned andb];
  try match goal with |- context [?a <=? ?b] => destruct (Z.leb_spec a b) end; lia.
Qed.

Lemma cwrap_mod c v : (cwrap c v) mod cmod c = v mod cmod c.
Proof.
  unfold cwrap, reinterp. pose proof (cmod_pos c) as P.
  destruct (csigned c && (cmod c / 2 <=? v mod cmod c)).
  - rewrite <- (Z.mod_mod v (cmod c)) at 2 by lia.
    replace (v mod cmod c - cmod c) with (v mod cmod c + (-1) * cmod c) by ring.
    apply Z.mod_add. lia.
  - apply Z.mod_mod. lia.
Qed.

Lemma cwrap_id c v : cmin c <= v <= cmax c -> cwrap c v = v.
Proof. intros; unfold cwrap; apply reinterp_mod; assumption. Qed.

Lemma prefill_high c tc : cmod c = cmod tc -> prefill mod cmod tc / cmod c * cmod c = 0.
Proof.
  intros E. rewrite E. pose proof (cmod_pos tc).
  rewrite Z.div_small; [reflexivity|]. apply Z.mod_pos_bound. assumption.
Qed.

(* a value in the target's range, stored through an lvalue type of the same width, reads back as itself *)
Lemma rb_exact tc c v ret :
  is_flt tc = false -> cmod c = cmod tc -> cwidth c = cwidth tc -> cmin tc <= v <= cmax tc ->
  readback tc true (StInt c (cwrap c v)) ret = OInt v ret.
Proof.
  intros F M W R. unfold readback. cbn [negb]. rewrite F, W, Z.ltb_irrefl.
  rewrite cwrap_mod, prefill_high by assumption. rewrite Z.add_0_r, M, reinterp_mod by assumption.
  reflexivity.
Qed.

(* memcpy of a source value of type c, read back as c *)
Lemma rb_same c v ret :
  is_flt c = false -> cmin c <= v <= cmax c -> readback c true (StInt c v) ret = OInt v ret.
Proof.
  intros F R. unfold readback. cbn [negb]. rewrite F, Z.ltb_irrefl.
  rewrite prefill_high by reflexivity. rewrite Z.add_0_r, reinterp_mod by assumption. reflexivity.
Qed.

(* ------------------------------------------------------------------ the eight switches *)
Ltac unfold_conv H :=
  cbv beta iota delta [conv convert_int convert_int8 convert_uint8 convert_int16 convert_uint16
    convert_int32 convert_uint32 convert_int64 convert_uint64 map_long chk char_case vec_case
    isgraph_c st is_flt ity_cty] in H.
Ltac unfold_conv_goal :=
  cbv beta iota delta [conv convert_int convert_int8 convert_uint8 convert_int16 convert_uint16
    convert_int32 convert_uint32 convert_int64 convert_uint64 map_long chk char_case vec_case
    isgraph_c st is_flt ity_cty].

(* split the first condition found in H *)
Ltac split_if H :=
  match type of H with
  | context [if ?b then _ else _] => let E := fresh "E" in destruct b eqn:E
  end.
Ltac split_if_goal :=
  match goal with
  | |- context [if ?b then _ else _] => let E := fresh "E" in destruct b eqn:E
  end.

Lemma convert_int_exact s v t stv ret ret' w r :
  src_ok s v = true ->
  convert_int s v t true = Done stv ret ->
  observe t true (Done stv ret') = OInt w r ->
  exists tc, tgt_cty t = Some tc /\ is_flt tc = false /\ w = v /\ in_range tc w = true /\ ret = cwidth tc.
Proof.
  intros Hs Hc Ho. apply src_ok_iff in Hs.
  destruct s; ev_consts; cbv [ity_cty] in Hs; ev_consts;
  destruct t; unfold_conv Hc; try discriminate Hc;
  repeat (split_if Hc; try discriminate Hc);
  b2p; try lia;
  injection Hc as <- <-;
  cbv beta iota delta [observe tgt_cty] in Ho;
  try discriminate Ho;
  try (unfold readback in Ho; cbn [negb is_flt cty_eqb] in Ho; ev_consts;
       repeat (split_if Ho; try discriminate Ho); fail);
  (rewrite rb_exact in Ho by (try reflexivity; ev_consts; lia));
  injection Ho as <- <-;
  eexists; (split; [reflexivity|]); (split; [reflexivity|]); (split; [reflexivity|]);
  (split; [apply in_range_iff; ev_consts; lia | reflexivity]).
Qed.

(* ------------------------------------------------------------------ verdicts *)
Ltac unfold_conv_keep_st :=
  cbv beta iota delta [conv convert_int convert_int8 convert_uint8 convert_int16 convert_uint16
    convert_int32 convert_uint32 convert_int64 convert_uint64 map_long chk char_case vec_case
    isgraph_c ity_cty].

(* a store that fits the destination is reported as success, with or without destination *)
Lemma verdict_st t c v ret hd :
  match tgt_cty t with Some tc => cwidth tc <? cwidth c | None => false end = false ->
  verdict_of (observe t hd (st hd c v ret)) = VAccepted ret.
Proof.
  intros H. unfold st, observe.
  destruct hd; [|destruct (tgt_cty t); reflexivity].
  destruct (is_flt c) eqn:F; destruct (tgt_cty t) as [tc|]; try reflexivity;
  unfold readback; cbn [negb]; rewrite ?F, H.
  - destruct (cty_eqb tc c); reflexivity.
  - destruct (is_flt tc); reflexivity.
Qed.

Lemma query_same s v t :
  (forall k, t <> Tvec k) -> verdict_of (conv s v t true) = verdict_of (conv s v t false).
Proof.
  intros NV.
  destruct s; destruct t; try (exfalso; eapply NV; reflexivity);
  unfold_conv_keep_st; repeat split_if_goal; try reflexivity;
  rewrite !verdict_st by reflexivity; reflexivity.
Qed.

Lemma no_fault s v t hd : src_ok s v = true -> verdict_of (conv s v t hd) <> VFault.
Proof.
  intros Hs. apply src_ok_iff in Hs.
  destruct s; cbv [ity_cty] in Hs; ev_consts;
  destruct t; unfold_conv_keep_st; repeat split_if_goal; b2p; try lia;
  try (rewrite verdict_st by reflexivity); try discriminate;
  destruct hd; discriminate.
Qed.

(* ------------------------------------------------------------------ mpt_value_convert, mpt_iterator_consume *)
Lemma src_cty_cases sk c :
  src_cty sk = Some c ->
  (sk = 99 /\ c = CChar) \/ (sk = 98 /\ c = CI8) \/ (sk = 121 /\ c = CU8) \/ (sk = 110 /\ c = CI16) \/
  (sk = 113 /\ c = CU16) \/ (sk = 105 /\ c = CI32) \/ (sk = 117 /\ c = CU32) \/ (sk = 120 /\ c = CI64) \/
  (sk = 116 /\ c = CU64).
Proof.
  unfold src_cty, tty_of_code.
  repeat (match goal with |- context [if ?b then _ else _] => destruct b eqn:? end;
          try (intros H; discriminate H));
  intros H; injection H as <-; b2p; subst; tauto.
Qed.

Lemma observe_ret t stv r1 r2 w r :
  observe t true (Done stv r1) = OInt w r -> observe t true (Done stv r2) = OInt w r2.
Proof.
  unfold observe. destruct stv; try discriminate;
  destruct (tgt_cty t) as [tc|]; try discriminate; unfold readback; cbn [negb];
  repeat split_if_goal; try discriminate; intros H; injection H as <- <-; reflexivity.
Qed.

Lemma value_convert_exact sk c v tk stv ret ret' w r :
  src_cty sk = Some c -> cmin c <= v <= cmax c ->
  value_convert sk v tk true = Done stv ret ->
  observe (tty_of_code tk) true (Done stv ret') = OInt w r ->
  exists tc, tgt_cty (tty_of_code tk) = Some tc /\ is_flt tc = false /\ w = v /\ in_range tc w = true.
Proof.
  intros Hc Hr Hv Ho.
  assert (exists s, data_converter sk = ConvInt s /\ src_ok s v = true) as (s & Hd & Hs).
  { apply src_cty_cases in Hc.
    destruct Hc as [[-> ->]|[[-> ->]|[[-> ->]|[[-> ->]|[[-> ->]|[[-> ->]|[[-> ->]|[[-> ->]|[-> ->]]]]]]]]];
    eexists; (split; [reflexivity|]); apply src_ok_iff; exact Hr. }
  unfold value_convert in Hv. rewrite Hd in Hv.
  destruct (tk =? 0); [discriminate Hv|].
  destruct (convert_int s v (tty_of_code tk) true) as [e|stv0 ret0|] eqn:C.
  - (* converter refused: exact type copy, vector, or refusal *)
    destruct (sk =? tk) eqn:E.
    + apply Z.eqb_eq in E. subst tk. rewrite Hc in Hv. injection Hv as <- <-.
      assert (tgt_cty (tty_of_code sk) = Some c /\ is_flt c = false) as [Ht Hf].
      { apply src_cty_cases in Hc.
        destruct Hc as [[-> ->]|[[-> ->]|[[-> ->]|[[-> ->]|[[-> ->]|[[-> ->]|[[-> ->]|[[-> ->]|[-> ->]]]]]]]]];
        split; reflexivity. }
      unfold observe in Ho. rewrite Ht in Ho. rewrite rb_same in Ho by assumption.
      injection Ho as <- <-. exists c. repeat split; try assumption. apply in_range_iff; assumption.
    + destruct ((96 <=? sk) && (sk <=? 122) && (tk =? sk - 32)); [|discriminate Hv].
      destruct (src_cty sk); [|discriminate Hv]. injection Hv as <- <-. discriminate Ho.
  - injection Hv as <- <-.
    destruct (convert_int_exact s v (tty_of_code tk) stv0 ret0 ret' w r Hs C Ho) as (tc & A & B & D & F & _).
    exists tc; repeat split; assumption.
  - discriminate Hv.
Qed.

Lemma vconv_exact sk c v tk w r :
  src_cty sk = Some c -> cmin c <= v <= cmax c -> vconv sk v tk true = OInt w r ->
  exists tc, tgt_cty (tty_of_code tk) = Some tc /\ is_flt tc = false /\ w = v /\ in_range tc w = true.
Proof.
  intros Hc Hr H. unfold vconv in H.
  destruct (value_convert sk v tk true) as [e|stv ret|] eqn:V; try discriminate H.
  eapply value_convert_exact; eassumption.
Qed.

Lemma iconv_exact sk c v tk w r :
  src_cty sk = Some c -> cmin c <= v <= cmax c -> iconv sk v tk true = OInt w r ->
  exists tc, tgt_cty (tty_of_code tk) = Some tc /\ is_flt tc = false /\ w = v /\ in_range tc w = true.
Proof.
  intros Hc Hr H. unfold iconv, iterator_consume in H.
  destruct (tgt_cty (tty_of_code tk)) eqn:T; [|discriminate H].
  destruct (value_convert sk v tk true) as [e|stv ret|] eqn:V; try discriminate H.
  destruct (value_convert_exact sk c v tk stv ret sk w r Hc Hr V H) as (tc & A & B).
  exists tc. split; [congruence|exact B].
Qed.

Lemma conv_exact s v t w ret :
  src_ok s v = true -> conv s v t true = OInt w ret ->
  exists tc, tgt_cty t = Some tc /\ is_flt tc = false /\ w = v /\ in_range tc w = true /\ ret = cwidth tc.
Proof.
  intros Hs H. unfold conv in H.
  destruct (convert_int s v t true) as [e|stv r0|] eqn:C; try discriminate H.
  destruct (convert_int_exact s v t stv r0 r0 w ret Hs C H) as (tc & A & B & D & F & G).
  exists tc. repeat split; try assumption.
  (* the reported number is the one the converter returned *)
  pose proof (observe_ret t stv r0 r0 w ret H) as H'. rewrite H in H'. injection H' as ->. exact G.
Qed.

