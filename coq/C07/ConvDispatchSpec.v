(* C07/ConvDispatchSpec.v — what the property asks of the layers around the converters
   (plain functions, no proofs). *)
From MptV Require Import Base.Mem C07.ConvModel C07.ConvSpec C07.ConvFloat C07.ConvDispatch.
Local Open Scope Z_scope.

(* the same with the optional range of mpt_cfloat/cdouble/cldouble: [v] = the value libc
   returned; a value outside the range the caller gave must be refused ([fgt] = C's >, so a
   NaN, which compares false with everything, is left to the library) *)
Definition spec_text_flt_r (s : list Z) (o : flt_oracle) (v : fval) (range : option (fval * fval)) (m : tobs) : sobs :=
  match spec_text_flt s o m, range with
  | (SFlt _ _ _ | SQuery _) as r, Some (lo, hi) => if fgt lo v || fgt v hi then SRefused else r
  | r, _ => r
  end.

(* mpt_value_convert with a source that is NOT a number (string pointer, vector, unknown or
   interface type code) and a numeric target type: the only way to a number is the source's own
   conversion interface ([delegated]: convertable / metatype pointer / reference, whose answer is
   outside this property); everything else must be refused — no pointer bits, vector headers or
   foreign bytes may end up in a number *)
Definition spec_other_to_number (tk : Z) (delegated : bool) : option bool :=   (* Some false = must refuse; None = free *)
  match tgt_cty (tty_of_code tk) with
  | Some _ => if delegated then None else Some false
  | None => None
  end.
