(* C07/ConvFlocq.v — the dyadic rounding of ConvFloat.v ([fround]) IS IEEE-754 rounding to
   nearest, ties to even: it computes Flocq's
        round radix2 (FLT_exp emin p) ZnearestE
   of the exact real value, for binary32 (emin = -149, p = 24), binary64 (-1074, 53) and the
   x87 extended format (-16445, 64); it answers "infinite" exactly when the magnitude of that
   rounded value exceeds the largest finite number of the format.

   This file uses Coq's classical real numbers (through Flocq), so its theorems depend on the
   three standard-library axioms of Reals (ClassicalDedekindReals.sig_forall_dec, sig_not_dec,
   FunctionalExtensionality.functional_extensionality_dep) and on nothing else; the
   development itself declares none. *)
From Coq Require Import Reals Lra.
From Flocq Require Import Core.
From MptV Require Import Base.Mem C07.ConvModel C07.ConvFloat C07.ConvRound.
Local Open Scope Z_scope.

(* the format of C type c as a Flocq exponent function, and its rounding *)
Definition fexp_of (c : cty) : Z -> Z := FLT_exp (f_elsb c) (fprec c).
Definition rne_to (c : cty) (x : R) : R := round radix2 (fexp_of c) ZnearestE x.

(* real value of sign/significand/exponent *)
Definition dyR (neg : bool) (m e : Z) : R := F2R (Float radix2 (cond_Zopp neg m) e).
(* the largest finite value: (2^p - 1) * 2^(emax - p + 1)  (FLT_MAX, DBL_MAX, LDBL_MAX) *)
Definition fmaxR (c : cty) : R := F2R (Float radix2 (2 ^ fprec c - 1) (f_emax c - fprec c + 1)).

Definition fval_R (v : fval) : option R :=
  match v with FFin neg m e => Some (dyR neg m e) | _ => None end.

Global Instance fprec_gt_0 c : Prec_gt_0 (fprec c).
Proof. unfold Prec_gt_0. apply fprec_pos. Qed.

Global Instance fexp_valid c : Valid_exp (fexp_of c).
Proof. unfold fexp_of. apply FLT_exp_valid. apply fprec_gt_0. Qed.

(* ---- rounding a quotient by a power of two ---- *)
Lemma rne_div_compare m k : 0 <= m -> 0 < k ->
  rne_div m k = match 2 * (m mod 2 ^ k) ?= 2 ^ k with
                | Lt => m / 2 ^ k
                | Eq => if negb (Z.even (m / 2 ^ k)) then m / 2 ^ k + 1 else m / 2 ^ k
                | Gt => m / 2 ^ k + 1
                end.
Proof.
  intros M K. unfold rne_div. pose proof (pow2_split k K) as E.
  set (q := m / 2 ^ k). set (r := m mod 2 ^ k). set (h := 2 ^ (k - 1)) in *.
  rewrite Z.negb_even.
  destruct (Z.compare_spec (2 * r) (2 ^ k)) as [C|C|C].
  - assert (h = r) by lia. subst r. rewrite <- H. rewrite Z.ltb_irrefl, Z.eqb_refl. reflexivity.
  - destruct (Z.ltb_spec h r); [lia|]. destruct (Z.eqb_spec h r); [lia|]. reflexivity.
  - destruct (Z.ltb_spec h r); [|lia]. reflexivity.
Qed.

Lemma ZnearestE_div m k : 0 <= m -> 0 < k ->
  ZnearestE (IZR m * bpow radix2 (- k)) = rne_div m k.
Proof.
  intros M K. rewrite rne_div_compare by assumption.
  assert (PK : 0 < 2 ^ k) by (apply pow2_pos; lia).
  pose proof (Z.div_mod m (2 ^ k) ltac:(lia)) as DM.
  pose proof (Z.mod_pos_bound m (2 ^ k) PK) as MB.
  set (q := m / 2 ^ k) in *. set (r := m mod 2 ^ k) in *.
  set (P := IZR (2 ^ k)).
  assert (PP : (0 < P)%R) by (apply IZR_lt; exact PK).
  assert (BP : bpow radix2 (- k) = (/ P)%R).
  { rewrite bpow_opp. f_equal. unfold P. rewrite <- IZR_Zpower by lia. reflexivity. }
  assert (X : (IZR m * bpow radix2 (- k) = IZR q + IZR r / P)%R).
  { rewrite BP. rewrite DM at 1. rewrite plus_IZR, mult_IZR. fold P. field. lra. }
  set (x := (IZR m * bpow radix2 (- k))%R) in *.
  assert (R0 : (0 <= IZR r / P)%R).
  { apply Rmult_le_pos; [apply IZR_le; lia|]. apply Rlt_le, Rinv_0_lt_compat, PP. }
  assert (R1 : (IZR r / P < 1)%R).
  { apply Rmult_lt_reg_r with P; [exact PP|]. unfold Rdiv. rewrite Rmult_assoc, Rinv_l by lra.
    rewrite Rmult_1_r, Rmult_1_l. apply IZR_lt. lia. }
  assert (FL : Zfloor x = q).
  { apply Zfloor_imp. rewrite plus_IZR. simpl (IZR 1). lra. }
  assert (CMP : Rcompare (x - IZR (Zfloor x)) (/ 2) = (2 * r ?= 2 ^ k)).
  { rewrite FL. replace (x - IZR q)%R with (IZR r / P)%R by lra.
    rewrite <- (Rcompare_mult_r P) by exact PP.
    replace (IZR r / P * P)%R with (IZR r) by (field; lra).
    replace (/ 2 * P)%R with (P / 2)%R by lra.
    rewrite Rcompare_half_r. unfold P. rewrite <- mult_IZR. apply Rcompare_IZR. }
  unfold Znearest. rewrite CMP.
  assert (CE : 0 < r -> Zceil x = q + 1).
  { intros RP. rewrite Zceil_floor_neq; [rewrite FL; reflexivity|].
    rewrite FL. assert (0 < IZR r / P)%R; [|lra].
    apply Rmult_lt_0_compat; [apply IZR_lt; lia|]. apply Rinv_0_lt_compat, PP. }
  destruct (Z.compare_spec (2 * r) (2 ^ k)) as [C|C|C].
  - rewrite FL. destruct (negb (Z.even q)); [apply CE; lia|reflexivity].
  - exact FL.
  - apply CE. lia.
Qed.

(* ---- the canonical exponent ---- *)
Lemma Zdigits_log2 m : 0 < m -> Zdigits radix2 m = Z.log2 m + 1.
Proof.
  intros M. apply Zdigits_unique. rewrite Z.abs_eq by lia.
  change (radix_val radix2) with 2.
  replace (Z.log2 m + 1 - 1) with (Z.log2 m) by lia.
  split; [apply log2_ge_pow; exact M|apply log2_lt_pow; lia].
Qed.

Lemma cexp_rexp c m e : 0 < m ->
  cexp radix2 (fexp_of c) (F2R (Float radix2 m e)) = rexp c m e.
Proof.
  intros M. unfold cexp. rewrite mag_F2R_Zdigits by lia. rewrite Zdigits_log2 by exact M.
  unfold fexp_of, FLT_exp, rexp. f_equal. lia.
Qed.

(* ---- rounding of a positive dyadic ---- *)
Lemma round_pos c m e : 0 < m ->
  rne_to c (F2R (Float radix2 m e)) = F2R (Float radix2 (rsig c m e) (rexp c m e)).
Proof.
  intros M. unfold rne_to, round. rewrite cexp_rexp by exact M.
  f_equal. f_equal.
  unfold scaled_mantissa. rewrite cexp_rexp by exact M.
  unfold rsig. set (e' := rexp c m e).
  unfold F2R; cbn [Fnum Fexp]. rewrite Rmult_assoc, <- bpow_plus.
  destruct (Z.leb_spec e' e) as [B|B].
  - replace (e + - e') with (e - e') by lia.
    rewrite <- IZR_Zpower by lia. rewrite <- mult_IZR.
    rewrite Zrnd_IZR by apply valid_rnd_N.
    rewrite Z.shiftl_mul_pow2 by lia. reflexivity.
  - replace (e + - e') with (- (e' - e)) by lia.
    rewrite ZnearestE_div by lia. symmetry. apply rshift_rne_spec; lia.
Qed.

Lemma dyR_neg neg m e : dyR neg m e = cond_Ropp neg (F2R (Float radix2 m e)).
Proof. unfold dyR. apply F2R_cond_Zopp. Qed.

Lemma rne_cond_opp c neg x : rne_to c (cond_Ropp neg x) = cond_Ropp neg (rne_to c x).
Proof. destruct neg; [apply round_NE_opp|reflexivity]. Qed.

Lemma round_dy c neg m e : 0 < m ->
  rne_to c (dyR neg m e) = dyR neg (rsig c m e) (rexp c m e).
Proof. intros M. rewrite !dyR_neg, rne_cond_opp, round_pos by exact M. reflexivity. Qed.

Lemma dyR_abs neg m e : 0 <= m -> Rabs (dyR neg m e) = F2R (Float radix2 m e).
Proof.
  intros M. rewrite dyR_neg, abs_cond_Ropp, <- F2R_Zabs, Z.abs_eq by exact M. reflexivity.
Qed.

Lemma dyR_0 neg e : dyR neg 0 e = 0%R.
Proof. rewrite dyR_neg, F2R_0. destruct neg; cbn; lra. Qed.

(* ---- comparison of dyadics through a common exponent ---- *)
Lemma F2R_le_scale m1 e1 m2 e2 g : g <= e1 -> g <= e2 ->
  ((F2R (Float radix2 m1 e1) <= F2R (Float radix2 m2 e2))%R <-> m1 * 2 ^ (e1 - g) <= m2 * 2 ^ (e2 - g)).
Proof.
  intros G1 G2. rewrite (F2R_change_exp radix2 g m1 e1 G1), (F2R_change_exp radix2 g m2 e2 G2).
  change (radix_val radix2) with 2.
  split; [apply le_F2R|apply F2R_le].
Qed.

Lemma F2R_lt_scale m1 e1 m2 e2 g : g <= e1 -> g <= e2 ->
  ((F2R (Float radix2 m1 e1) < F2R (Float radix2 m2 e2))%R <-> m1 * 2 ^ (e1 - g) < m2 * 2 ^ (e2 - g)).
Proof.
  intros G1 G2. rewrite (F2R_change_exp radix2 g m1 e1 G1), (F2R_change_exp radix2 g m2 e2 G2).
  change (radix_val radix2) with 2.
  split; [apply lt_F2R|apply F2R_lt].
Qed.

(* a value with at most p bits (or exactly 2^p) is above the largest finite number of the
   format iff its binary exponent is above emax *)
Lemma above_max_iff c m e : 0 < m -> m <= 2 ^ fprec c ->
  ((fmaxR c < F2R (Float radix2 m e))%R <-> f_emax c < Z.log2 m + e).
Proof.
  intros M B. set (p := fprec c) in *. set (emax := f_emax c).
  assert (P : 0 < p) by apply fprec_pos.
  unfold fmaxR. fold p emax.
  set (g := Z.min e (emax - p + 1)).
  rewrite (F2R_lt_scale _ _ _ _ g) by (unfold g; lia).
  pose proof (log2_ge_pow m M) as LO. pose proof (log2_lt_pow m ltac:(lia)) as HI.
  pose proof (Z.log2_nonneg m) as LN.
  assert (PP : 0 < 2 ^ p) by (apply pow2_pos; lia).
  assert (LP : Z.log2 m <= p).
  { destruct (Z.le_gt_cases (Z.log2 m) p); [assumption|].
    assert (2 ^ (p + 1) <= 2 ^ Z.log2 m) by (apply Z.pow_le_mono_r; lia).
    rewrite Z.pow_add_r in H0 by lia. lia. }
  destruct (Z.le_gt_cases e (emax - p + 1)) as [C|C].
  - (* common exponent e; d = emax - p + 1 - e >= 0 *)
    replace g with e by (unfold g; lia). rewrite Z.sub_diag, Z.pow_0_r, Z.mul_1_r.
    set (d := emax - p + 1 - e) in *. assert (D : 0 <= d) by (unfold d; lia).
    assert (PD : 0 < 2 ^ d) by (apply pow2_pos; lia).
    split.
    + intros LT. (* (2^p - 1) 2^d < m  ->  log2 m >= p + d *)
      destruct (Z.le_gt_cases (Z.log2 m) (p + d - 1)) as [L|L]; [|unfold d in *; lia].
      exfalso.
      destruct (Z.eq_dec d 0) as [D0|D0].
      * rewrite D0 in *. rewrite Z.pow_0_r, Z.mul_1_r in LT. assert (m = 2 ^ p) by lia.
        subst m. rewrite Z.log2_pow2 in L by lia. lia.
      * assert (2 ^ d = 2 * 2 ^ (d - 1)) by (apply pow2_split; lia).
        assert (0 < 2 ^ (d - 1)) by (apply pow2_pos; lia).
        assert (2 <= 2 ^ p) by (change 2 with (2 ^ 1) at 1; apply Z.pow_le_mono_r; lia).
        nia.
    + intros L. assert (p + d <= Z.log2 m) by (unfold d in *; lia).
      assert (2 ^ (p + d) <= 2 ^ Z.log2 m) by (apply Z.pow_le_mono_r; lia).
      rewrite Z.pow_add_r in H0 by lia. nia.
  - (* common exponent emax - p + 1; d = e - (emax - p + 1) > 0 *)
    replace g with (emax - p + 1) by (unfold g; lia). rewrite Z.sub_diag, Z.pow_0_r, Z.mul_1_r.
    set (d := e - (emax - p + 1)) in *. assert (D : 0 < d) by (unfold d; lia).
    assert (PD : 0 < 2 ^ d) by (apply pow2_pos; lia).
    split.
    + intros LT. assert (2 ^ p <= m * 2 ^ d) by lia.
      destruct (Z.le_gt_cases (p - d) (Z.log2 m)) as [L|L]; [unfold d in *; lia|].
      exfalso. assert (2 ^ (Z.log2 m + 1) <= 2 ^ (p - d)) by (apply Z.pow_le_mono_r; lia).
      assert (2 ^ (p - d) * 2 ^ d = 2 ^ p) by (rewrite <- Z.pow_add_r by lia; f_equal; lia).
      nia.
    + intros L. assert (p - d <= Z.log2 m) by (unfold d in *; lia).
      destruct (Z.le_gt_cases p d) as [PD'|PD'].
      * assert (2 ^ p <= 2 ^ d) by (apply Z.pow_le_mono_r; lia). nia.
      * assert (2 ^ (p - d) <= 2 ^ Z.log2 m) by (apply Z.pow_le_mono_r; lia).
        assert (2 ^ (p - d) * 2 ^ d = 2 ^ p) by (rewrite <- Z.pow_add_r by lia; f_equal; lia).
        nia.
Qed.

(* ------------------------------------------------------------------ main theorem *)
(* [fround c] of a finite value = IEEE round-to-nearest-even onto format c of its real value,
   unless that rounded value lies beyond the largest finite number: then (and only then)
   the answer is the infinity of the same sign *)
Theorem fround_is_rne c neg m e : 0 <= m ->
  let y := rne_to c (dyR neg m e) in
  ((Rabs y <= fmaxR c)%R ->
     exists m' e', fround c (FFin neg m e) = FFin neg m' e' /\ 0 <= m' /\ dyR neg m' e' = y) /\
  ((fmaxR c < Rabs y)%R -> fround c (FFin neg m e) = FInf neg).
Proof.
  intros M y. rewrite fround_unfold.
  destruct (Z.eqb_spec m 0) as [->|NZ].
  { assert (Y : y = 0%R) by (unfold y; rewrite dyR_0; apply round_0, valid_rnd_N).
    split.
    - intros _. exists 0, 0. rewrite dyR_0. split; [reflexivity|]. split; [lia|symmetry; exact Y].
    - rewrite Y, Rabs_R0. intros H. exfalso.
      assert (0 <= fmaxR c)%R; [|lra]. unfold fmaxR. apply F2R_ge_0. cbn.
      pose proof (pow2_pos (fprec c) ltac:(pose proof (fprec_pos c); lia)). lia. }
  assert (MP : 0 < m) by lia.
  assert (Y : y = dyR neg (rsig c m e) (rexp c m e)) by (apply round_dy; exact MP).
  pose proof (rsig_bound c m e MP) as [S0 S1].
  set (m' := rsig c m e) in *. set (e' := rexp c m e) in *.
  assert (AY : Rabs y = F2R (Float radix2 m' e')) by (rewrite Y; apply dyR_abs; exact S0).
  destruct (Z.eqb_spec m' 0) as [Z0|NZ'].
  { rewrite AY, Z0, F2R_0. split.
    - intros _. exists 0, 0. split; [reflexivity|]. split; [lia|].
      rewrite Y, Z0, !dyR_0. reflexivity.
    - intros H. exfalso. assert (0 <= fmaxR c)%R; [|lra]. unfold fmaxR. apply F2R_ge_0. cbn.
      pose proof (pow2_pos (fprec c) ltac:(pose proof (fprec_pos c); lia)). lia. }
  rewrite AY.
  pose proof (above_max_iff c m' e' ltac:(lia) S1) as AB.
  destruct (Z.ltb_spec (f_emax c) (Z.log2 m' + e')) as [O|O].
  - split; [|reflexivity]. intros LE. apply AB in O. lra.
  - split.
    + intros _. exists m', e'. split; [reflexivity|]. split; [exact S0|symmetry; exact Y].
    + intros LT. apply AB in LT. lia.
Qed.

(* ------------------------------------------------------------------ representable values *)
(* a dyadic with at most p bits and exponent >= emin is a number of the (unbounded) format:
   rounding leaves it alone *)
Lemma rne_exact c neg m e : 0 <= m < 2 ^ fprec c -> f_elsb c <= e ->
  rne_to c (dyR neg m e) = dyR neg m e.
Proof.
  intros M E. unfold rne_to. apply round_generic; [apply valid_rnd_N|].
  apply generic_format_FLT. unfold dyR.
  exists (Float radix2 (cond_Zopp neg m) e); [reflexivity| |exact E].
  cbn [Fnum]. change (radix_val radix2) with 2. rewrite abs_cond_Zopp, Z.abs_eq by lia. lia.
Qed.

(* ... and lies within the finite range when its exponent does *)
Lemma below_max c neg m e : 0 <= m < 2 ^ fprec c -> e <= f_emax c - fprec c + 1 ->
  (Rabs (dyR neg m e) <= fmaxR c)%R.
Proof.
  intros M E. rewrite dyR_abs by lia. unfold fmaxR.
  rewrite (F2R_le_scale _ _ _ _ e) by lia.
  rewrite Z.sub_diag, Z.pow_0_r, Z.mul_1_r.
  assert (0 < 2 ^ (f_emax c - fprec c + 1 - e)) by (apply pow2_pos; lia).
  nia.
Qed.
