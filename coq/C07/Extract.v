(* Extraction of the executable model and specification of C07 (ExtrOcamlBasic only). *)
From MptV Require Import Base.Mem C07.ConvModel C07.ConvSpec C07.ConvFloat.
Require Import ExtrOcamlBasic.
Extraction "c07_model.ml" conv vconv iconv data_converter tty_of_code code_of_tty tgt_cty ity_cty
  convert_int_text convert_uint_text get_string_fcn convert_number convert_string convert_float_text tobserve
  round_int flt_bits fprec cwidth
  fconv spec_fconv fdecode
  spec_conv spec_text spec_text_char spec_text_flt
  N.add Z.of_nat Z.to_nat Z.opp.
