(* Extraction of the executable model and specification of C07 (ExtrOcamlBasic only). *)
From MptV Require Import Base.Mem C07.ConvModel C07.ConvSpec C07.ConvFloat C07.ConvDispatch C07.ConvDispatchSpec.
Require Import ExtrOcamlBasic.
Extraction "c07_model.ml" conv vconv iconv data_converter tty_of_code code_of_tty tgt_cty ity_cty
  convert_int_text convert_uint_text get_string_fcn convert_number convert_string convert_float_text tobserve
  round_int flt_bits fprec cwidth
  fconv spec_fconv fdecode
  spec_conv spec_text spec_text_char spec_text_flt
  traits value_convert_c value_convert_flt convertable_wrap metatype_wrap mw_ok iterator_consume_c cres_err fobs_err
  value_convert convert_int src_cty observe vret convert_string_full convert_float_text_r fgt spec_text_flt_r spec_other_to_number
  src_val value_convert_a value_convert_flt_a iterator_consume_a
  N.add Z.of_nat Z.to_nat Z.opp.
