(* C07/ConvSpec.v — what "exact or refused" means, as plain functions.

   An integer (or char) target of C type [c] DENOTES its value w with cmin c <= w <= cmax c.
   A conversion of the number v may only answer
        accepted, value v, and v is in the range of the target      or      refused;
   which of the two is the library's choice wherever both are allowed ([accepted] is the
   mechanism's verdict), but an out-of-range v must be refused.
   A floating target denotes a dyadic rational; for an integer source the answer must be
   the source itself when it has at most p significant bits, otherwise the nearest p-bit
   value (ties to even) — [round_int], proved to be that in ConvProofs.v.
   For text the number is the one denoted by the characters reported as consumed
   ([value_of] of that prefix: optional white space, optional sign, optional base prefix,
   then digits only). *)
From MptV Require Import Base.Mem C07.ConvModel.
Local Open Scope Z_scope.

Definition in_range (c : cty) (w : Z) : bool := (cmin c <=? w) && (w <=? cmax c).

(* what a caller learns about success: refused with an error, accepted (with the reported
   number), or the call does not return *)
Inductive verdict := VRefused (e : err) | VAccepted (ret : Z) | VFault.
Definition verdict_of (o : obs) : verdict :=
  match o with
  | ORefused e => VRefused e
  | OFault => VFault
  | OInt _ r | OFlt _ _ r | OVec _ r | OUntouched r | OQuery r | OJunk r => VAccepted r
  end.
Definition accepts (o : obs) : bool := match verdict_of o with VAccepted _ => true | _ => false end.

Inductive sobs :=
| SRefused
| SInt (w size : Z)
| SFlt (c : cty) (w size : Z)     (* w = the (integer) value the float must hold *)
| SQuery (size : Z)
| SEmpty
| SFree.                          (* not a scalar conversion: the property does not constrain it *)

(* value conversion v -> target code t; [size] = what the call has to report *)
Definition spec_conv (v : Z) (t : tty) (hd accepted : bool) : sobs :=
  match tgt_cty t with
  | None => SFree
  | Some tc =>
    if negb accepted then SRefused
    else if is_flt tc then (if hd then SFlt tc (round_int (fprec tc) v) (cwidth tc) else SQuery (cwidth tc))
    else if in_range tc v then (if hd then SInt v (cwidth tc) else SQuery (cwidth tc))
    else SRefused
  end.

(* ---- numerals ---- *)
Fixpoint drop_space (s : list Z) : list Z :=
  match s with
  | c :: r => if (c =? 32) || ((9 <=? c) && (c <=? 13)) then drop_space r else s
  | [] => []
  end.

(* every character is a digit of base b (at least one is required by [numeral]) *)
Fixpoint all_digits (b : Z) (s : list Z) (acc : Z) : option Z :=
  match s with
  | [] => Some acc
  | c :: r => match digit_in b c with Some d => all_digits b r (acc * b + d) | None => None end
  end.

Definition numeral (base : Z) (s : list Z) : option Z :=
  match s with
  | [] => None
  | c :: r =>
    if c =? 48 then
      match r with
      | x :: (_ :: _) as ds =>
        if hex_base base && is_x x then all_digits 16 ds 0          (* 0x / 0X and at least one digit *)
        else all_digits (base_or base 8) s 0
      | _ => all_digits (base_or base 8) s 0
      end
    else all_digits (base_or base 10) s 0
  end.

(* the number denoted by a complete numeral text; base 0 = C syntax (0x.., 0.., decimal) *)
Definition value_of (base : Z) (s : list Z) : option Z :=
  match drop_space s with
  | c :: r => if c =? 45 then option_map Z.opp (numeral base r)
              else if c =? 43 then numeral base r
              else numeral base (c :: r)
  | [] => None
  end.

(* text -> integer type c; [m] is what the mechanism answered *)
Definition spec_text (base : Z) (c : cty) (s : list Z) (m : tobs) : sobs :=
  let s := cstr s in
  match m with
  | TOEmpty => if forallb is_space s then SEmpty else SRefused
  | TOInt _ n | TOUntouched n =>
    match value_of base (firstn n s) with
    | Some w => if in_range c w then SInt w (Z.of_nat n) else SRefused
    | None => SRefused
    end
  | TOQuery n =>
    match value_of base (firstn n s) with
    | Some w => if in_range c w then SQuery (Z.of_nat n) else SRefused
    | None => SRefused
    end
  | _ => SRefused
  end.

(* text -> 'c': the consumed characters are white space followed by one graphic character,
   which is the value *)
Definition spec_text_char (s : list Z) (m : tobs) : sobs :=
  let s := cstr s in
  match m with
  | TOEmpty => if forallb is_space s then SEmpty else SRefused
  | TOInt _ n | TOUntouched n | TOQuery n =>
    match drop_space (firstn n s) with
    | [ch] => if (33 <=? ch) && (ch <=? 126)
              then (match m with TOQuery _ => SQuery (Z.of_nat n) | _ => SInt ch (Z.of_nat n) end)
              else SRefused
    | _ => SRefused
    end
  | _ => SRefused
  end.

(* text -> floating type: libc is the oracle for the value of the consumed characters; a
   finite numeral that libc reports as overflowing must be refused *)
Definition spec_text_flt (s : list Z) (o : flt_oracle) (m : tobs) : sobs :=
  let s := cstr s in
  match m with
  | TOEmpty => if forallb is_space s then SEmpty else SRefused
  | TOFlt n | TOUntouched n =>
    if fo_overflow o then SRefused
    else if Nat.eqb n (fo_end o) && negb (Nat.eqb n 0) then SFlt CF64 0 (Z.of_nat n) else SRefused
  | TOQuery n =>
    if fo_overflow o then SRefused
    else if Nat.eqb n (fo_end o) && negb (Nat.eqb n 0) then SQuery (Z.of_nat n) else SRefused
  | _ => SRefused
  end.
