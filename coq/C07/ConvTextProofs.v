(* C07/ConvTextProofs.v — numeric text -> integer: the value produced is the number
   denoted by exactly the characters reported as consumed, and it lies in the range of
   the target (convert_int.c, convert_number.c, convert_string.c over the Gallina
   strtoimax/strtoumax).  Every text, every valid base; no sampling. *)
From MptV Require Import Base.Mem C07.ConvModel C07.ConvSpec C07.ConvProofs.
Local Open Scope Z_scope.

Definition valid_base (b : Z) : Prop := b = 0 \/ 2 <= b <= 36.

(* ------------------------------------------------------------------ white space *)
Lemma drop_space_eq c r :
  drop_space (c :: r) = if is_space c then drop_space r else c :: r.
Proof. reflexivity. Qed.

Lemma skip_space_head s n c r : skip_space s = (n, c :: r) -> is_space c = false.
Proof.
  revert n. induction s as [|a s IH]; intros n H; cbn in H.
  - discriminate.
  - destruct (is_space a) eqn:A.
    + destruct (skip_space s) as [n' r'] eqn:S. injection H as <- ->. eapply IH. reflexivity.
    + injection H as <- -> ->. exact A.
Qed.

Lemma drop_firstn_skip s nsp s1 k :
  skip_space s = (nsp, s1) -> drop_space (firstn (nsp + k) s) = drop_space (firstn k s1).
Proof.
  revert nsp. induction s as [|a s IH]; intros nsp H; cbn in H.
  - injection H as <- <-. reflexivity.
  - destruct (is_space a) eqn:A.
    + destruct (skip_space s) as [n' r'] eqn:S. injection H as <- <-.
      cbn [Nat.add firstn]. rewrite drop_space_eq, A. apply IH. reflexivity.
    + injection H as <- <-. reflexivity.
Qed.

Lemma drop_firstn_id s nsp s1 k :
  skip_space s = (nsp, s1) -> drop_space (firstn k s1) = firstn k s1.
Proof.
  intros H. destruct s1 as [|c r]; [rewrite firstn_nil; reflexivity|].
  destruct k; [reflexivity|]. cbn [firstn]. rewrite drop_space_eq.
  rewrite (skip_space_head _ _ _ _ H). reflexivity.
Qed.

Lemma drop_space_app sp x : forallb is_space sp = true -> drop_space (sp ++ x) = drop_space x.
Proof.
  induction sp as [|a sp IH]; intros H; [reflexivity|].
  cbn in H. apply andb_true_iff in H as [A B].
  cbn [app]. rewrite drop_space_eq, A. auto.
Qed.

Lemma skip_space_split s nsp s1 :
  skip_space s = (nsp, s1) ->
  s = firstn nsp s ++ s1 /\ forallb is_space (firstn nsp s) = true /\ length (firstn nsp s) = nsp.
Proof.
  revert nsp. induction s as [|a s IH]; intros nsp H; cbn in H.
  - injection H as <- <-. repeat split.
  - destruct (is_space a) eqn:A.
    + destruct (skip_space s) as [n' r'] eqn:S. injection H as <- <-.
      destruct (IH _ eq_refl) as (E & F & L). cbn [firstn app forallb length]. rewrite A, F, L.
      repeat split. f_equal. exact E.
    + injection H as <- <-. repeat split.
Qed.

(* ------------------------------------------------------------------ digits *)
Lemma digits_all b s : forall acc m nd,
  digits b s acc = (m, nd) -> all_digits b (firstn nd s) acc = Some m.
Proof.
  induction s as [|c r IH]; intros acc m nd H; cbn in H.
  - injection H as <- <-. reflexivity.
  - destruct (digit_in b c) as [d|] eqn:D.
    + destruct (digits b r (acc * b + d)) as [v n] eqn:R. injection H as <- <-.
      cbn [firstn all_digits]. rewrite D. apply IH. exact R.
    + injection H as <- <-. reflexivity.
Qed.

Lemma digit_in_bound b c d : digit_in b c = Some d -> 0 <= d < b.
Proof.
  unfold digit_in, digit_of.
  repeat match goal with |- context [if ?x then _ else _] => destruct x eqn:? end;
  intros H; try discriminate H; injection H as <-; b2p; lia.
Qed.

Lemma digits_nonneg b s : forall acc m nd, 0 <= acc -> digits b s acc = (m, nd) -> 0 <= m.
Proof.
  induction s as [|c r IH]; intros acc m nd A H; cbn in H.
  - injection H as <- <-. exact A.
  - destruct (digit_in b c) as [d|] eqn:D.
    + destruct (digits b r (acc * b + d)) as [v n] eqn:R. injection H as <- <-.
      apply digit_in_bound in D. eapply IH; [|exact R]. nia.
    + injection H as <- <-. exact A.
Qed.

Lemma digits_first b s acc m nd : digits b s acc = (m, S nd) -> exists c r, s = c :: r.
Proof. destruct s as [|c r]; cbn; intros H; [discriminate H|eauto]. Qed.

(* ------------------------------------------------------------------ prefix + digits = numeral *)
Lemma base_or_pos base d : valid_base base -> 0 < d -> 0 < base_or base d.
Proof. unfold valid_base, base_or. intros [->|H] D; [exact D|]. destruct (Z.eqb_spec base 0); lia. Qed.

Lemma numeral_of_prefix base s2 b npre s3 m nd :
  valid_base base ->
  take_prefix base s2 = (b, npre, s3) -> digits b s3 0 = (m, nd) ->
  (nd <> O -> numeral base (firstn (npre + nd) s2) = Some m) /\
  (nd = O -> npre <> O -> numeral base (firstn 1 s2) = Some 0).
Proof.
  intros VB TP DG. unfold take_prefix in TP.
  destruct s2 as [|c r].
  { injection TP as <- <- <-. cbn in DG. injection DG as <- <-. split; intros; congruence. }
  destruct (c =? 48) eqn:C48.
  2:{ injection TP as <- <- <-. split; [|intros _ N; congruence].
      intros N. destruct nd as [|k]; [congruence|].
      pose proof (digits_all _ _ _ _ _ DG) as A. cbn [Nat.add] in *. cbn [firstn] in *.
      unfold numeral. rewrite C48. exact A. }
  destruct r as [|x r'].
  { injection TP as <- <- <-. split; [|intros _ N; congruence].
    intros N. destruct nd as [|k]; [congruence|].
    pose proof (digits_all _ _ _ _ _ DG) as A. cbn [Nat.add firstn] in *. rewrite firstn_nil in *.
    unfold numeral. rewrite C48. exact A. }
  destruct (hex_base base && is_x x) eqn:HX.
  - injection TP as <- <- <-. split.
    + intros N. destruct nd as [|k]; [congruence|].
      pose proof (digits_all _ _ _ _ _ DG) as A.
      destruct (digits_first _ _ _ _ _ DG) as (d & ds & ->).
      cbn [Nat.add firstn] in *. unfold numeral. rewrite C48, HX. exact A.
    + intros _ _. cbn [firstn]. unfold numeral. rewrite C48.
      apply Z.eqb_eq in C48. subst c. cbn [all_digits].
      assert (P : 0 < base_or base 8) by (apply base_or_pos; [assumption|lia]).
      unfold digit_in, digit_of. cbn.
      destruct (Z.ltb_spec 0 (base_or base 8)); [reflexivity|lia].
  - injection TP as <- <- <-. split; [|intros _ N; congruence].
    intros N. destruct nd as [|k]; [congruence|].
    pose proof (digits_all _ _ _ _ _ DG) as A. cbn [Nat.add] in *.
    unfold numeral.
    destruct k as [|[|k]]; cbn [firstn] in *; rewrite C48.
    + exact A.
    + exact A.
    + destruct r' as [|d ds]; cbn [firstn] in *; [exact A|]. rewrite HX. exact A.
Qed.

(* ------------------------------------------------------------------ strto_core *)
Lemma take_sign_cases s1 neg nsg s2 :
  take_sign s1 = (neg, nsg, s2) ->
  (exists c, s1 = c :: s2 /\ nsg = 1%nat /\ ((c = 45 /\ neg = true) \/ (c = 43 /\ neg = false))) \/
  (s1 = s2 /\ nsg = O /\ neg = false /\ match s1 with c :: _ => c <> 45 /\ c <> 43 | [] => True end).
Proof.
  unfold take_sign. destruct s1 as [|c r].
  - intros H. injection H as <- <- <-. right. repeat split.
  - destruct (Z.eqb_spec c 45); [|destruct (Z.eqb_spec c 43)]; intros H; injection H as <- <- <-.
    + left. exists c. repeat split. left. split; [assumption|reflexivity].
    + left. exists c. repeat split. right. split; [assumption|reflexivity].
    + right. repeat split; assumption.
Qed.

Lemma strto_core_value base s neg m n :
  valid_base base -> strto_core base s = Some (neg, m, n) -> n <> O ->
  value_of base (firstn n s) = Some (if neg then - m else m).
Proof.
  intros VB H N. unfold strto_core in H.
  destruct ((base <? 0) || (base =? 1) || (36 <? base)); [discriminate H|].
  destruct (skip_space s) as [nsp s1] eqn:SK.
  destruct (take_sign s1) as [[sg nsg] s2] eqn:TS.
  destruct (take_prefix base s2) as [[b npre] s3] eqn:TP.
  destruct (digits b s3 0) as [m' nd] eqn:DG.
  destruct (numeral_of_prefix base s2 b npre s3 m' nd VB TP DG) as [NUM1 NUM0].
  (* the consumed characters after white space and sign, and their value *)
  assert (exists K v, n = (nsp + nsg + K)%nat /\ K <> O /\ numeral base (firstn K s2) = Some v /\
                      (if neg then - m else m) = (if sg then - v else v)) as (K & v & -> & KN & NUM & VAL).
  { destruct nd as [|k].
    - destruct npre as [|p]; injection H as <- <- <-; [congruence|].
      exists 1%nat, 0. split; [reflexivity|]. split; [congruence|]. split; [apply NUM0; congruence|reflexivity].
    - injection H as <- <- <-. exists (npre + S k)%nat, m'.
      split; [lia|]. split; [lia|]. split; [apply NUM1; congruence|reflexivity]. }
  unfold value_of.
  replace (nsp + nsg + K)%nat with (nsp + (nsg + K))%nat by lia.
  rewrite (drop_firstn_skip _ _ _ _ SK), (drop_firstn_id _ _ _ _ SK).
  rewrite VAL.
  destruct (take_sign_cases _ _ _ _ TS) as [(c & -> & -> & SG)|(-> & -> & -> & HD)].
  - cbn [Nat.add firstn].
    destruct SG as [[-> ->]|[-> ->]]; cbn; rewrite NUM; reflexivity.
  - cbn [Nat.add]. destruct K as [|K']; [congruence|].
    destruct s2 as [|c r]; [cbn in NUM; discriminate NUM|].
    cbn [firstn] in *. destruct HD as [H45 H43].
    destruct (Z.eqb_spec c 45); [contradiction|]. destruct (Z.eqb_spec c 43); [contradiction|].
    exact NUM.
Qed.

Lemma strto_core_minus base s m n : strto_core base s = Some (true, m, n) -> starts_minus s = true.
Proof.
  unfold strto_core, starts_minus.
  destruct ((base <? 0) || (base =? 1) || (36 <? base)); [discriminate|].
  destruct (skip_space s) as [nsp s1] eqn:SK. cbn [snd].
  destruct (take_sign s1) as [[sg nsg] s2] eqn:TS.
  destruct (take_prefix base s2) as [[b npre] s3].
  destruct (digits b s3 0) as [m' nd].
  intros H.
  assert (sg = true) by (destruct nd; [destruct npre|]; injection H as E _ _; congruence).
  subst sg. unfold take_sign in TS. destruct s1 as [|c r]; [discriminate TS|].
  destruct (c =? 45); [reflexivity|]. destruct (c =? 43); discriminate TS.
Qed.

Lemma strto_core_nonneg base s neg m n : strto_core base s = Some (neg, m, n) -> 0 <= m.
Proof.
  unfold strto_core.
  destruct ((base <? 0) || (base =? 1) || (36 <? base)); [discriminate|].
  destruct (skip_space s) as [nsp s1].
  destruct (take_sign s1) as [[sg nsg] s2].
  destruct (take_prefix base s2) as [[b npre] s3].
  destruct (digits b s3 0) as [m' nd] eqn:DG.
  intros H. pose proof (digits_nonneg _ _ _ _ _ (Z.le_refl 0) DG).
  destruct nd; [destruct npre|]; injection H as _ <- _; lia.
Qed.

(* ------------------------------------------------------------------ strtoimax / strtoumax *)
Lemma strtoimax_value base s :
  valid_base base -> s_erange (strtoimax base s) = false -> s_end (strtoimax base s) <> O ->
  value_of base (firstn (s_end (strtoimax base s)) s) = Some (sv (strtoimax base s)).
Proof.
  intros VB. unfold strtoimax.
  destruct (strto_core base s) as [[[neg m] n]|] eqn:C; [|cbn; congruence].
  destruct neg.
  - destruct (INTMAX + 1 <? m); cbn; [discriminate|]. intros _ N. apply (strto_core_value _ _ _ _ _ VB C N).
  - destruct (INTMAX <? m); cbn; [discriminate|]. intros _ N. apply (strto_core_value _ _ _ _ _ VB C N).
Qed.

Lemma strtoumax_value base s :
  valid_base base -> s_erange (strtoumax base s) = false -> s_end (strtoumax base s) <> O ->
  negb (sv (strtoumax base s) =? 0) && starts_minus s = false ->
  value_of base (firstn (s_end (strtoumax base s)) s) = Some (sv (strtoumax base s)).
Proof.
  intros VB. unfold strtoumax.
  destruct (strto_core base s) as [[[neg m] n]|] eqn:C; [|cbn; congruence].
  destruct (Z.ltb_spec UINTMAX m) as [L|L]; cbn [s_erange s_end sv]; [discriminate|].
  intros _ N G. rewrite (strto_core_value _ _ _ _ _ VB C N).
  destruct neg; [|reflexivity].
  rewrite (strto_core_minus _ _ _ _ C), andb_true_r in G. apply negb_false_iff, Z.eqb_eq in G.
  pose proof (strto_core_nonneg _ _ _ _ _ C) as P.
  unfold UINTMAX in *. rewrite G.
  assert (m = 0) by lia. subst m. reflexivity.
Qed.

(* ------------------------------------------------------------------ _mpt_convert_int / _uint *)
Lemma cstr_idem s : cstr (cstr s) = cstr s.
Proof. induction s as [|c r IH]; [reflexivity|]. cbn. destruct (c =? 0) eqn:E; [reflexivity|]. cbn. rewrite E, IH. reflexivity. Qed.

Lemma convert_int_text_done hd vlen s0 base stv n :
  valid_base base ->
  convert_int_text hd vlen (Some s0) base = TDone stv n ->
  exists c w, int_by_len vlen = Some c /\ stv = (if hd then StInt c (cwrap c w) else StNone) /\
    cmin c <= w <= cmax c /\ n <> O /\ value_of base (firstn n (cstr s0)) = Some w.
Proof.
  intros VB. unfold convert_int_text.
  destruct (cstr s0) as [|a s'] eqn:CS; [discriminate|]. rewrite <- CS.
  destruct (s_erange (strtoimax base (cstr s0))) eqn:ER; [discriminate|].
  destruct (s_end (strtoimax base (cstr s0))) as [|k] eqn:EN.
  { destruct (all_space (cstr s0)); discriminate. }
  destruct (int_by_len vlen) as [c|]; [|discriminate].
  destruct ((sv (strtoimax base (cstr s0)) <? cmin c) || (cmax c <? sv (strtoimax base (cstr s0)))) eqn:RG; [discriminate|].
  unfold tst. intros H. injection H as <- <-.
  exists c, (sv (strtoimax base (cstr s0))). b2p. repeat split; try lia.
  rewrite <- EN. apply strtoimax_value; [assumption|assumption|congruence].
Qed.

Lemma convert_uint_text_done hd vlen s0 base stv n :
  valid_base base ->
  convert_uint_text hd vlen (Some s0) base = TDone stv n ->
  exists c w, int_by_len vlen = Some c /\ stv = (if hd then StInt c (cwrap c w) else StNone) /\
    0 <= w <= cmod c - 1 /\ n <> O /\ value_of base (firstn n (cstr s0)) = Some w.
Proof.
  intros VB. unfold convert_uint_text.
  destruct (cstr s0) as [|a s'] eqn:CS; [discriminate|]. rewrite <- CS.
  destruct (s_erange (strtoumax base (cstr s0))) eqn:ER; [discriminate|].
  destruct (s_end (strtoumax base (cstr s0))) as [|k] eqn:EN.
  { destruct (all_space (cstr s0)); discriminate. }
  destruct (negb (sv (strtoumax base (cstr s0)) =? 0) && starts_minus (cstr s0)) eqn:NG; [discriminate|].
  destruct (int_by_len vlen) as [c|]; [|discriminate].
  destruct (cmod c - 1 <? sv (strtoumax base (cstr s0))) eqn:RG; [discriminate|].
  unfold tst. intros H. injection H as <- <-.
  exists c, (sv (strtoumax base (cstr s0))).
  assert (V : value_of base (firstn (S k) (cstr s0)) = Some (sv (strtoumax base (cstr s0)))).
  { rewrite <- EN. apply strtoumax_value; [assumption|assumption|congruence|assumption]. }
  apply Z.ltb_ge in RG.
  split; [reflexivity|]. split; [reflexivity|]. split; [|split; [congruence|exact V]].
  split; [|exact RG].
  (* the value of a numeral that is not negated is not negative *)
  clear V RG. revert ER EN NG. unfold strtoumax.
  destruct (strto_core base (cstr s0)) as [[[neg m] n']|] eqn:C; cbn [sv s_erange s_end]; [|intros; apply Z.le_refl].
  pose proof (strto_core_nonneg _ _ _ _ _ C).
  destruct (UINTMAX <? m); cbn [sv s_erange s_end]; [intros; discriminate|]. destruct neg; [|intros; assumption].
  intros. apply Z.mod_pos_bound. reflexivity.
Qed.

(* unsigned type of the same width as the signed lvalue type used for the store *)
Definition unsigned_of (c : cty) : cty :=
  match c with CI8 => CU8 | CI16 => CU16 | CI32 => CU32 | CI64 => CU64 | c => c end.

Lemma int_by_len_cases vlen c : int_by_len vlen = Some c -> c = CI8 \/ c = CI16 \/ c = CI32 \/ c = CI64.
Proof.
  unfold int_by_len. repeat match goal with |- context [if ?b then _ else _] => destruct b end;
  intros H; try discriminate H; injection H as <-; tauto.
Qed.

(* observation of _mpt_convert_int with a destination, read back as the signed type *)
Lemma convert_int_text_exact vlen c s base w n :
  valid_base base -> int_by_len vlen = Some c ->
  tobserve (Some c) true (convert_int_text true vlen (Some s) base) = TOInt w n ->
  value_of base (firstn n (cstr s)) = Some w /\ in_range c w = true.
Proof.
  intros VB IL H.
  destruct (convert_int_text true vlen (Some s) base) as [e| |stv n'|] eqn:C; try discriminate H.
  destruct (convert_int_text_done _ _ _ _ _ _ VB C) as (c' & w' & IL' & -> & R & N & V).
  rewrite IL in IL'. injection IL' as <-.
  assert (F : is_flt c = false) by (destruct (int_by_len_cases _ _ IL) as [->|[->|[->| ->]]]; reflexivity).
  unfold tobserve in H. cbn [negb] in H. rewrite rb_exact in H by (try reflexivity; assumption).
  injection H as <- <-. split; [exact V|apply in_range_iff; exact R].
Qed.

(* observation of _mpt_convert_uint with a destination, read back as the unsigned type *)
Lemma convert_uint_text_exact vlen c s base w n :
  valid_base base -> int_by_len vlen = Some c ->
  tobserve (Some (unsigned_of c)) true (convert_uint_text true vlen (Some s) base) = TOInt w n ->
  value_of base (firstn n (cstr s)) = Some w /\ in_range (unsigned_of c) w = true.
Proof.
  intros VB IL H.
  destruct (convert_uint_text true vlen (Some s) base) as [e| |stv n'|] eqn:C; try discriminate H.
  destruct (convert_uint_text_done _ _ _ _ _ _ VB C) as (c' & w' & IL' & -> & R & N & V).
  rewrite IL in IL'. injection IL' as <-.
  assert (R' : cmin (unsigned_of c) <= w' <= cmax (unsigned_of c))
    by (destruct (int_by_len_cases _ _ IL) as [->|[->|[->| ->]]]; cbn [unsigned_of] in *; ev_consts; lia).
  unfold tobserve in H. cbn [negb] in H.
  assert (F : is_flt (unsigned_of c) = false) by (destruct (int_by_len_cases _ _ IL) as [->|[->|[->| ->]]]; reflexivity).
  rewrite rb_exact in H by (try assumption; destruct (int_by_len_cases _ _ IL) as [->|[->|[->| ->]]]; reflexivity).
  injection H as <- <-. split; [exact V|apply in_range_iff; exact R'].
Qed.

(* ------------------------------------------------------------------ GET_STRING_FCN wrappers *)
Definition int_cty (c : cty) : Prop :=
  c = CI8 \/ c = CU8 \/ c = CI16 \/ c = CU16 \/ c = CI32 \/ c = CU32 \/ c = CI64 \/ c = CU64 \/ c = CChar.

Lemma int_by_len_width c : int_cty c -> exists c', int_by_len (cwidth c) = Some c' /\ cmod c' = cmod c /\ cwidth c' = cwidth c.
Proof.
  intros [->|[->|[->|[->|[->|[->|[->|[->| ->]]]]]]]]; eexists; (split; [reflexivity|split; reflexivity]).
Qed.

Lemma get_string_fcn_done c hd s base range stv n :
  valid_base base -> int_cty c ->
  get_string_fcn c hd (Some s) base range = TDone stv n ->
  exists w, stv = (if hd then StInt c w else StNone) /\ cmin c <= w <= cmax c /\ n <> O /\
    value_of base (firstn n (cstr s)) = Some w /\
    match range with Some (lo, hi) => lo <= w <= hi | None => True end.
Proof.
  intros VB IC. unfold get_string_fcn.
  destruct (int_by_len_width c IC) as (c' & IL & M & W).
  assert (IR : forall w, cmin c <= w <= cmax c -> reinterp c (cwrap c' w mod cmod c' mod cmod c) = w).
  { intros w R. rewrite cwrap_mod, M, Z.mod_mod by (pose proof (cmod_pos c); lia). apply reinterp_mod. exact R. }
  destruct (csigned c) eqn:SG.
  - destruct (convert_int_text true (cwidth c) (Some s) base) as [e| |stv0 n0|] eqn:C; try discriminate.
    destruct (convert_int_text_done _ _ _ _ _ _ VB C) as (c2 & w & IL2 & -> & R & N & V).
    rewrite IL in IL2. injection IL2 as <-.
    assert (R' : cmin c <= w <= cmax c).
    { destruct IC as [->|[->|[->|[->|[->|[->|[->|[->| ->]]]]]]]]; try discriminate SG;
      cbn in IL; injection IL as <-; exact R. }
    rewrite (IR w R').
    destruct range as [[lo hi]|].
    + destruct ((w <? lo) || (hi <? w)) eqn:RG; [discriminate|]. intros H. injection H as <- <-.
      exists w. b2p. repeat split; try lia; assumption.
    + intros H. injection H as <- <-. exists w. repeat split; try lia; assumption.
  - destruct (convert_uint_text true (cwidth c) (Some s) base) as [e| |stv0 n0|] eqn:C; try discriminate.
    destruct (convert_uint_text_done _ _ _ _ _ _ VB C) as (c2 & w & IL2 & -> & R & N & V).
    rewrite IL in IL2. injection IL2 as <-.
    assert (R' : cmin c <= w <= cmax c).
    { unfold cmin, cmax. rewrite SG, <- M. lia. }
    rewrite (IR w R').
    destruct range as [[lo hi]|].
    + destruct ((w <? lo) || (hi <? w)) eqn:RG; [discriminate|]. intros H. injection H as <- <-.
      exists w. b2p. repeat split; try lia; assumption.
    + intros H. injection H as <- <-. exists w. repeat split; try lia; assumption.
Qed.

Lemma int_cty_not_flt c : int_cty c -> is_flt c = false.
Proof. intros [->|[->|[->|[->|[->|[->|[->|[->| ->]]]]]]]]; reflexivity. Qed.

Lemma tobserve_int c w n : int_cty c -> cmin c <= w <= cmax c ->
  tobserve (Some c) true (TDone (StInt c w) n) = TOInt w n.
Proof.
  intros IC R. unfold tobserve. cbn [negb]. rewrite rb_same by (try apply int_cty_not_flt; assumption). reflexivity.
Qed.

Lemma get_string_fcn_exact c s base range w n :
  valid_base base -> int_cty c ->
  tobserve (Some c) true (get_string_fcn c true (Some s) base range) = TOInt w n ->
  value_of base (firstn n (cstr s)) = Some w /\ in_range c w = true /\
  match range with Some (lo, hi) => lo <= w <= hi | None => True end.
Proof.
  intros VB IC H.
  destruct (get_string_fcn c true (Some s) base range) as [e| |stv n'|] eqn:C; try discriminate H.
  destruct (get_string_fcn_done _ _ _ _ _ _ _ VB IC C) as (w' & -> & R & N & V & G).
  rewrite tobserve_int in H by assumption. injection H as <- <-.
  repeat split; [exact V|apply in_range_iff; exact R|exact G].
Qed.

(* ------------------------------------------------------------------ mpt_convert_number, mpt_convert_string *)
(* integer target letters other than 'c' *)
Definition int_target (t : tty) : Prop :=
  t = Tb \/ t = Ty \/ t = Tn \/ t = Tq \/ t = Ti \/ t = Tu \/ t = Tx \/ t = Tt \/ t = Tl.

Lemma valid_base_0 : valid_base 0.
Proof. left; reflexivity. Qed.

Lemma convert_number_done t s hd o stv n :
  int_target t -> convert_number (Some s) t hd o = TDone stv n ->
  exists tc w, tgt_cty t = Some tc /\ int_cty tc /\ stv = (if hd then StInt tc w else StNone) /\
    cmin tc <= w <= cmax tc /\ n <> O /\ value_of 0 (firstn n (cstr s)) = Some w.
Proof.
  intros IT H. unfold convert_number in H.
  assert (forall c, int_cty c -> get_string_fcn c hd (Some (cstr s)) 0 None = TDone stv n ->
          exists w, stv = (if hd then StInt c w else StNone) /\ cmin c <= w <= cmax c /\ n <> O /\
                    value_of 0 (firstn n (cstr s)) = Some w) as G.
  { intros c IC E. destruct (get_string_fcn_done _ _ _ _ _ _ _ valid_base_0 IC E) as (w & A & B & C & D & _).
    rewrite cstr_idem in D. exists w. split; [exact A|]. split; [exact B|]. split; [exact C|exact D]. }
  unfold int_cty in G.
  destruct IT as [->|[->|[->|[->|[->|[->|[->|[->| ->]]]]]]]]; cbn [map_long] in H;
  (apply G in H; [|tauto]); destruct H as (w & A & B & C & D);
  eexists; exists w; (split; [reflexivity|]); (split; [unfold int_cty; tauto|]); repeat split; assumption || lia.
Qed.

Lemma convert_string_done t s hd o stv n :
  int_target t -> convert_string (Some s) t hd o = TDone stv n -> stv <> StNone \/ hd = false ->
  exists tc w, tgt_cty t = Some tc /\ int_cty tc /\ (hd = true -> stv = StInt tc w) /\
    cmin tc <= w <= cmax tc /\ (hd = true -> value_of 0 (firstn n (cstr s)) = Some w).
Proof.
  intros IT H NE. unfold convert_string in H.
  destruct (cstr s) as [|a s'] eqn:CS; [discriminate H|]. rewrite <- CS in *.
  destruct (skip_space (cstr s)) as [k txt] eqn:SK.
  destruct (convert_number (Some txt) t hd _) as [e| |stv0 n0|] eqn:C; try discriminate H.
  - (* white space only *)
    destruct k; [discriminate H|]. injection H as <- <-.
    destruct NE as [NE|NE]; [congruence|]. subst hd.
    destruct IT as [->|[->|[->|[->|[->|[->|[->|[->| ->]]]]]]]];
    eexists; exists 0; (split; [reflexivity|]); (split; [unfold int_cty; tauto|]);
    (split; [discriminate|]); (split; [ev_consts; lia|discriminate]).
  - injection H as <- <-.
    destruct (convert_number_done _ _ _ _ _ _ IT C) as (tc & w & T & IC & -> & R & N & V).
    exists tc, w. repeat split; try assumption; try lia.
    + intros ->. reflexivity.
    + intros _.
      destruct (skip_space_split _ _ _ SK) as (E & SP & L).
      (* txt is a suffix of a string without NUL: cstr txt = txt *)
      assert (CT : cstr txt = txt).
      { assert (Q : cstr (cstr s) = cstr s) by apply cstr_idem. rewrite E in Q.
        clear - Q. revert Q. generalize (firstn k (cstr s)) as p. induction p as [|x p IH]; cbn; [auto|].
        destruct (x =? 0) eqn:X.
        - intros Q. exfalso. assert (length (@nil Z) = length (x :: p ++ txt)) by (rewrite Q at 1; reflexivity). discriminate.
        - intros Q. injection Q as Q. auto. }
      rewrite CT in V.
      rewrite E at 1. rewrite <- L at 1.
      rewrite firstn_app_2. unfold value_of. rewrite drop_space_app by exact SP. exact V.
Qed.

Lemma convert_number_exact t s o w n :
  int_target t ->
  tobserve (tgt_cty t) true (convert_number (Some s) t true o) = TOInt w n ->
  exists tc, tgt_cty t = Some tc /\ value_of 0 (firstn n (cstr s)) = Some w /\ in_range tc w = true.
Proof.
  intros IT H.
  destruct (convert_number (Some s) t true o) as [e| |stv n'|] eqn:C; try discriminate H.
  destruct (convert_number_done _ _ _ _ _ _ IT C) as (tc & w' & T & IC & -> & R & N & V).
  rewrite T in H. rewrite tobserve_int in H by assumption. injection H as <- <-.
  exists tc. split; [exact T|]. split; [exact V|apply in_range_iff; exact R].
Qed.

Lemma convert_string_exact t s o w n :
  int_target t ->
  tobserve (tgt_cty t) true (convert_string (Some s) t true o) = TOInt w n ->
  exists tc, tgt_cty t = Some tc /\ value_of 0 (firstn n (cstr s)) = Some w /\ in_range tc w = true.
Proof.
  intros IT H.
  destruct (convert_string (Some s) t true o) as [e| |stv n'|] eqn:C; try discriminate H.
  assert (NE : stv <> StNone \/ true = false).
  { left. intros ->. revert H. unfold tobserve. cbn [negb]. destruct (tgt_cty t); discriminate. }
  destruct (convert_string_done _ _ _ _ _ _ IT C NE) as (tc & w' & T & IC & ST & R & V).
  rewrite (ST eq_refl), T in H. rewrite tobserve_int in H by assumption. injection H as <- <-.
  exists tc. split; [exact T|]. split; [apply V; reflexivity|apply in_range_iff; exact R].
Qed.
