(* C07/ConvModel.v — executable mechanism model of the scalar converters of
   mptcore/convert (NO proofs in this file).

   Transcribed functions (state of the sources after the fix: commits of the C07 work):
     data_convert_int.c   mpt_data_convert_{int8,uint8,int16,uint16,int32,uint32,int64,uint64}
     data_converter.c     mpt_data_converter            (dispatch by source type code)
     value_convert.c      mpt_value_convert             (for scalar integer/char sources)
     iterator_consume.c   mpt_iterator_consume          (one value, well-behaved iterator)
     convert_int.c        _mpt_convert_int/_uint, the mpt_c{int,uint}NN wrappers
     convert_number.c     mpt_convert_number
     convert_string.c     mpt_convert_string            (numeric target types)
   and of libc strtoimax/strtoumax (glibc 2.36 semantics: white space, sign, 0x / 0
   prefixes, digit accumulation, saturation + ERANGE, end pointer).

   Conventions.  C integer values are unbounded [Z]; a store through an lvalue of C type
   [c] keeps [cwrap c v] (gcc: reduction modulo 2^N).  What is stored is kept together with
   the C type it was stored through ([stored]); [observe] reads the destination back as the
   TARGET type the caller asked for, from a buffer of exactly the target's size (a wider
   store is a [Fault], a narrower store leaves the prefill pattern in the upper bytes).
   A call of isgraph() outside the domain of the ctype table is a [Fault]. *)
From MptV Require Import Base.Mem.
Local Open Scope Z_scope.

(* ------------------------------------------------------------------ C types *)
Inductive cty := CI8 | CU8 | CI16 | CU16 | CI32 | CU32 | CI64 | CU64 | CChar | CF32 | CF64 | CF80.

Definition cty_eqb (a b : cty) : bool :=
  match a, b with
  | CI8, CI8 | CU8, CU8 | CI16, CI16 | CU16, CU16 | CI32, CI32 | CU32, CU32
  | CI64, CI64 | CU64, CU64 | CChar, CChar | CF32, CF32 | CF64, CF64 | CF80, CF80 => true
  | _, _ => false
  end.

(* sizeof *)
Definition cwidth (c : cty) : Z :=
  match c with
  | CI8 | CU8 | CChar => 1 | CI16 | CU16 => 2 | CI32 | CU32 | CF32 => 4
  | CI64 | CU64 | CF64 => 8 | CF80 => 16
  end.
(* 2^(8*sizeof) for the integer types *)
Definition cmod (c : cty) : Z :=
  match c with
  | CI8 | CU8 | CChar => 256 | CI16 | CU16 => 65536 | CI32 | CU32 | CF32 => 4294967296
  | _ => 18446744073709551616
  end.
Definition csigned (c : cty) : bool :=
  match c with CI8 | CI16 | CI32 | CI64 | CChar => true | _ => false end.
Definition is_flt (c : cty) : bool :=
  match c with CF32 | CF64 | CF80 => true | _ => false end.

Definition cmin (c : cty) : Z := if csigned c then - (cmod c / 2) else 0.
Definition cmax (c : cty) : Z := if csigned c then cmod c / 2 - 1 else cmod c - 1.

(* value of the [sizeof c] low bytes [u] (0 <= u < cmod c) read as type c *)
Definition reinterp (c : cty) (u : Z) : Z :=
  if csigned c && (cmod c / 2 <=? u) then u - cmod c else u.
(* integer conversion to the lvalue type c *)
Definition cwrap (c : cty) (v : Z) : Z := reinterp c (v mod cmod c).

(* ------------------------------------------------------------------ type codes *)
(* source types handled by data_convert_int.c *)
Inductive ity := I8 | U8 | I16 | U16 | I32 | U32 | I64 | U64.
Definition ity_cty (s : ity) : cty :=
  match s with I8 => CI8 | U8 => CU8 | I16 => CI16 | U16 => CU16
             | I32 => CI32 | U32 => CU32 | I64 => CI64 | U64 => CU64 end.
Definition src_ok (s : ity) (v : Z) : bool := (cmin (ity_cty s) <=? v) && (v <=? cmax (ity_cty s)).

(* target type codes: the letters the switches know, everything else by number *)
Inductive tty :=
| Tc | Tb | Ty | Tn | Tq | Ti | Tu | Tx | Tt | Tl | Tf | Td | Te | Th
| Tvec (code : Z)      (* 0x40 .. 0x59: vector types, code = element letter - 0x20 *)
| Tzero                (* type 0 *)
| Tother (code : Z).

Definition tty_of_code (k : Z) : tty :=
  if k =? 99 then Tc else if k =? 98 then Tb else if k =? 121 then Ty
  else if k =? 110 then Tn else if k =? 113 then Tq else if k =? 105 then Ti
  else if k =? 117 then Tu else if k =? 120 then Tx else if k =? 116 then Tt
  else if k =? 108 then Tl else if k =? 102 then Tf else if k =? 100 then Td
  else if k =? 101 then Te else if k =? 104 then Th
  else if k =? 0 then Tzero
  else if (64 <=? k) && (k <? 90) then Tvec k
  else Tother k.

Definition code_of_tty (t : tty) : Z :=
  match t with
  | Tc => 99 | Tb => 98 | Ty => 121 | Tn => 110 | Tq => 113 | Ti => 105 | Tu => 117
  | Tx => 120 | Tt => 116 | Tl => 108 | Tf => 102 | Td => 100 | Te => 101 | Th => 104
  | Tvec k => k | Tzero => 0 | Tother k => k
  end.

(* the C type a caller reads a scalar target back as ('l' is long = int64 on LP64) *)
Definition tgt_cty (t : tty) : option cty :=
  match t with
  | Tc => Some CChar | Tb => Some CI8 | Ty => Some CU8 | Tn => Some CI16 | Tq => Some CU16
  | Ti => Some CI32 | Tu => Some CU32 | Tx => Some CI64 | Tt => Some CU64 | Tl => Some CI64
  | Tf => Some CF32 | Td => Some CF64 | Te => Some CF80
  | _ => None
  end.

(* ------------------------------------------------------------------ results *)
Inductive stored :=
| StInt (c : cty) (w : Z)     (* integer w (already wrapped) stored through lvalue type c *)
| StFlt (c : cty) (v : Z)     (* integer v converted by the FPU to floating type c and stored *)
| StVec (len : Z)             (* iovec { source address, len } *)
| StOrc                       (* the floating value libc's strtof/strtod/strtold returned *)
| StNone.                     (* nothing written *)

Inductive cres :=
| Refused (e : err)
| Done (st : stored) (ret : Z)
| CFault.

(* store [val] through [*(c * ) dest] when a destination is supplied, return [ret] *)
Definition st (hd : bool) (c : cty) (val ret : Z) : cres :=
  Done (if hd then (if is_flt c then StFlt c val else StInt c (cwrap c val)) else StNone) ret.

(* glibc isgraph(): table lookup, defined for -128 .. 255 only *)
Definition isgraph_c (v : Z) : option bool :=
  if (v <? -128) || (255 <? v) then None else Some ((33 <=? v) && (v <=? 126)).

(* case 'c': if (<guard> || !isgraph(val)) return BadValue; if (dest) *(char * )dest = val; return 1 *)
Definition char_case (guard hd : bool) (val : Z) : cres :=
  if guard then Refused BadValue
  else match isgraph_c val with
       | None => CFault
       | Some false => Refused BadValue
       | Some true => st hd CChar val 1
       end.

(* case MPT_type_toVector(X): with destination an iovec is filled *)
Definition vec_case (hd : bool) (k want len : Z) : cres :=
  if k =? want then (if hd then Done (StVec len) 16 else Refused MissingData) else Refused BadType.

Definition chk (bad : bool) (k : cres) : cres := if bad then Refused BadValue else k.

(* if (type == 'l') type = mpt_type_int(sizeof(long));   -- 'x' on LP64 *)
Definition map_long (t : tty) : tty := match t with Tl => Tx | _ => t end.

(* ------------------------------------------------------------------ data_convert_int.c *)
Definition convert_int8 (val : Z) (t : tty) (hd : bool) : cres :=
  match map_long t with
  | Tc => char_case (val <? 0) hd val
  | Ty => chk (val <? 0) (st hd CI8 val 1)
  | Tb => st hd CI8 val 1
  | Tq => chk (val <? 0) (st hd CI16 val 2)
  | Tn => st hd CI16 val 2
  | Tu => chk (val <? 0) (st hd CI32 val 4)
  | Ti => st hd CI32 val 4
  | Tt => chk (val <? 0) (st hd CI64 val 8)
  | Tx => st hd CI64 val 8
  | Tf => st hd CF32 val 4
  | Td => st hd CF64 val 8
  | Te => st hd CF80 val 16
  | Tvec k => vec_case hd k 66 1
  | _ => Refused BadType
  end.

Definition convert_uint8 (val : Z) (t : tty) (hd : bool) : cres :=
  match map_long t with
  | Tc => char_case (127 <? val) hd val
  | Tb => chk (127 <? val) (st hd CU8 val 1)
  | Ty => st hd CU8 val 1
  | Tn | Tq => st hd CU16 val 2
  | Ti | Tu => st hd CU32 val 4
  | Tx | Tt => st hd CU64 val 8
  | Tf => st hd CF32 val 4
  | Td => st hd CF64 val 8
  | Te => st hd CF80 val 16
  | Tvec k => vec_case hd k 89 1
  | _ => Refused BadType
  end.

Definition convert_int16 (val : Z) (t : tty) (hd : bool) : cres :=
  match map_long t with
  | Tc => char_case ((val <? 0) || (127 <? val)) hd val
  | Tb => chk ((val <? -128) || (127 <? val)) (st hd CI8 val 1)
  | Ty => chk ((val <? 0) || (255 <? val)) (st hd CU8 val 1)
  | Tq => chk (val <? 0) (st hd CI16 val 2)
  | Tn => st hd CI16 val 2
  | Tu => chk (val <? 0) (st hd CI32 val 4)
  | Ti => st hd CI32 val 4
  | Tt => chk (val <? 0) (st hd CI64 val 8)
  | Tx => st hd CI64 val 8
  | Tf => st hd CF32 val 4
  | Td => st hd CF64 val 8
  | Te => st hd CF80 val 16
  | Tvec k => vec_case hd k 78 2
  | _ => Refused BadType
  end.

(* note: no case 'n' (the source has a case 'h' instead); the vector case fills the
   iovec but has no return of its own and ends in MissingData *)
Definition convert_uint16 (val : Z) (t : tty) (hd : bool) : cres :=
  match map_long t with
  | Tc => char_case (127 <? val) hd val
  | Tb => chk (127 <? val) (st hd CI8 val 1)
  | Ty => chk (255 <? val) (st hd CU8 val 1)
  | Th => chk (32767 <? val) (st hd CU16 val 2)
  | Tq => st hd CU16 val 2
  | Tu | Ti => st hd CI32 val 4
  | Tt | Tx => st hd CI64 val 8
  | Tf => st hd CF32 val 4
  | Td => st hd CF64 val 8
  | Te => st hd CF80 val 16
  | Tvec k => if k =? 81 then Refused MissingData else Refused BadType
  | _ => Refused BadType
  end.

Definition convert_int32 (val : Z) (t : tty) (hd : bool) : cres :=
  match map_long t with
  | Tc => char_case ((val <? 0) || (127 <? val)) hd val
  | Tb => chk ((val <? -128) || (127 <? val)) (st hd CI8 val 1)
  | Ty => chk ((val <? 0) || (255 <? val)) (st hd CU8 val 1)
  | Tn => chk ((val <? -32768) || (32767 <? val)) (st hd CI16 val 2)
  | Tq => chk ((val <? 0) || (65535 <? val)) (st hd CU16 val 2)
  | Tu => chk (val <? 0) (st hd CI32 val 4)
  | Ti => st hd CI32 val 4
  | Tt => chk (val <? 0) (st hd CI64 val 8)
  | Tx => st hd CI64 val 8
  | Tf => st hd CF32 val 4
  | Td => st hd CF64 val 8
  | Te => st hd CF80 val 16
  | Tvec k => vec_case hd k 73 4
  | _ => Refused BadType
  end.

Definition convert_uint32 (val : Z) (t : tty) (hd : bool) : cres :=
  match map_long t with
  | Tc => char_case (127 <? val) hd val
  | Tb => chk (127 <? val) (st hd CI8 val 1)
  | Ty => chk (255 <? val) (st hd CU8 val 1)
  | Tn => chk (32767 <? val) (st hd CI16 val 2)
  | Tq => chk (65535 <? val) (st hd CI16 val 2)
  | Ti => chk (2147483647 <? val) (st hd CU32 val 4)
  | Tu => st hd CU32 val 4
  | Tt | Tx => st hd CI64 val 8
  | Tf => st hd CF32 val 4
  | Td => st hd CF64 val 8
  | Te => st hd CF80 val 16
  | Tvec k => vec_case hd k 85 4
  | _ => Refused BadType
  end.

Definition convert_int64 (val : Z) (t : tty) (hd : bool) : cres :=
  match map_long t with
  | Tc => char_case ((val <? 0) || (127 <? val)) hd val
  | Tb => chk ((val <? -128) || (127 <? val)) (st hd CI8 val 1)
  | Ty => chk ((val <? 0) || (255 <? val)) (st hd CU8 val 1)
  | Tn => chk ((val <? -32768) || (32767 <? val)) (st hd CI16 val 2)
  | Tq => chk ((val <? 0) || (65535 <? val)) (st hd CU16 val 2)
  | Ti => chk ((val <? -2147483648) || (2147483647 <? val)) (st hd CI32 val 4)
  | Tu => chk ((val <? 0) || (4294967295 <? val)) (st hd CU32 val 4)
  | Tt => chk (val <? 0) (st hd CI64 val 8)
  | Tx => st hd CI64 val 8
  | Tf => st hd CF32 val 4
  | Td => st hd CF64 val 8
  | Te => st hd CF80 val 16
  | Tvec k => vec_case hd k 88 8
  | _ => Refused BadType
  end.

Definition convert_uint64 (val : Z) (t : tty) (hd : bool) : cres :=
  match map_long t with
  | Tc => char_case (127 <? val) hd val
  | Tb => chk (127 <? val) (st hd CI8 val 1)
  | Ty => chk (255 <? val) (st hd CU8 val 1)
  | Tn => chk (32767 <? val) (st hd CI16 val 2)
  | Tq => chk (65535 <? val) (st hd CU16 val 2)
  | Ti => chk (2147483647 <? val) (st hd CI32 val 4)
  | Tu => chk (4294967295 <? val) (st hd CU32 val 4)
  | Tx => chk (9223372036854775807 <? val) (st hd CI64 val 8)
  | Tt => st hd CI64 val 8
  | Tf => st hd CF32 val 4
  | Td => st hd CF64 val 8
  | Te => st hd CF80 val 16
  | Tvec k => vec_case hd k 84 8
  | _ => Refused BadType
  end.

Definition convert_int (s : ity) : Z -> tty -> bool -> cres :=
  match s with
  | I8 => convert_int8 | U8 => convert_uint8 | I16 => convert_int16 | U16 => convert_uint16
  | I32 => convert_int32 | U32 => convert_uint32 | I64 => convert_int64 | U64 => convert_uint64
  end.

(* ------------------------------------------------------------------ data_converter.c *)
Inductive converter := ConvInt (s : ity) | ConvF32 | ConvF64 | ConvF80 | ConvOther | ConvNone.

(* only the scalar switch is transcribed in detail; the interface/array types in front of
   it (TypeConvertablePtr 0x80, TypeMetaRef 0x801, meta pointers 0x100..0x7ff, TypeArray
   0x802, TypeBufferPtr 0xb) have converters that are not scalar conversions: ConvOther *)
Definition data_converter (k : Z) : converter :=
  if (k =? 128) || (k =? 2049) || ((256 <=? k) && (k <=? 2047)) || (k =? 2050) || (k =? 11) then ConvOther else
  match tty_of_code k with
  | Tc | Tb => ConvInt I8 | Tn => ConvInt I16 | Ti => ConvInt I32 | Tx => ConvInt I64
  | Ty => ConvInt U8 | Tq => ConvInt U16 | Tu => ConvInt U32 | Tt => ConvInt U64
  | Tf => ConvF32 | Td => ConvF64 | Te => ConvF80
  | _ => ConvNone
  end.

(* ------------------------------------------------------------------ value_convert.c *)
(* source value of scalar integer type code [sk] ('c','b','y','n','q','i','u','x','t')
   holding [val]; result codes: 0 same type, 3 converter, 2 scalar -> vector *)
Definition src_cty (sk : Z) : option cty :=
  match tty_of_code sk with
  | Tc => Some CChar | Tb => Some CI8 | Ty => Some CU8 | Tn => Some CI16 | Tq => Some CU16
  | Ti => Some CI32 | Tu => Some CU32 | Tx => Some CI64 | Tt => Some CU64 | _ => None
  end.

Definition value_convert (sk : Z) (val : Z) (tk : Z) (hd : bool) : cres :=
  let t := tty_of_code tk in
  if tk =? 0 then Refused BadArgument else
  let conv_res :=
    match data_converter sk with
    | ConvInt s => Some (convert_int s val t hd)
    | _ => None
    end in
  match conv_res with
  | Some (Done stv _) => Done stv (if sk =? tk then 0 else 3)
  | Some CFault => CFault
  | _ =>
    if sk =? tk then
      (* exact primitive type match: memcpy(dest, src, traits->size) *)
      match src_cty sk with
      | Some c => Done (if hd then StInt c val else StNone) 0
      | None => Refused BadArgument
      end
    else if (96 <=? sk) && (sk <=? 122) && (tk =? sk - 32) then
      match src_cty sk with
      | Some c => Done (if hd then StVec (cwidth c) else StNone) 2
      | None => Refused BadArgument
      end
    else Refused BadType                              (* 's': no string view of a number *)
  end.

(* mpt_iterator_consume on an iterator that offers one value and advances fine:
   returns the SOURCE type code on success; the temporary is copied with the target's size *)
Definition iterator_consume (sk : Z) (val : Z) (tk : Z) (hd : bool) : cres :=
  match tgt_cty (tty_of_code tk) with
  | None => Refused BadType          (* type 0 (skip) is not a conversion and is not modelled *)
  | Some _ =>
    match value_convert sk val tk hd with
    | Done stv _ => Done stv sk
    | r => r
    end
  end.

(* ------------------------------------------------------------------ reading the result back *)
Inductive obs :=
| ORefused (e : err)
| OInt (w ret : Z)            (* destination read as the target integer type *)
| OFlt (c : cty) (v ret : Z)  (* destination holds (float type c) v, rounding by the FPU *)
| OVec (len ret : Z)
| OUntouched (ret : Z)        (* success reported, destination not written *)
| OQuery (ret : Z)            (* success reported, no destination supplied *)
| OJunk (ret : Z)             (* success reported, bytes of a different kind than asked for *)
| OFault.

(* the destination is pre-filled with 0xA5 bytes *)
Definition prefill : Z := 11936128518282651045.   (* 0xA5A5A5A5A5A5A5A5 *)

Definition readback (tc : cty) (hd : bool) (s : stored) (ret : Z) : obs :=
  if negb hd then OQuery ret else
  match s with
  | StNone => OUntouched ret
  | StVec _ | StOrc => OJunk ret
  | StInt c w =>
    if is_flt tc then OJunk ret
    else if cwidth tc <? cwidth c then OFault
    else let low := w mod cmod c in
         let high := (prefill mod cmod tc) / cmod c * cmod c in
         OInt (reinterp tc (low + high)) ret
  | StFlt c v =>
    if cty_eqb tc c then OFlt c v ret
    else if cwidth tc <? cwidth c then OFault else OJunk ret
  end.

Definition observe (t : tty) (hd : bool) (r : cres) : obs :=
  match r with
  | Refused e => ORefused e
  | CFault => OFault
  | Done s ret =>
    match s, hd with
    | StVec l, true => OVec l ret
    | _, _ =>
      match tgt_cty t with
      | Some tc => readback tc hd s ret
      | None => if hd then (match s with StNone => OUntouched ret | _ => OJunk ret end) else OQuery ret
      end
    end
  end.

(* the three entry points, as observed by a caller *)
Definition conv (s : ity) (v : Z) (t : tty) (hd : bool) : obs := observe t hd (convert_int s v t hd).
Definition vconv (sk v tk : Z) (hd : bool) : obs := observe (tty_of_code tk) hd (value_convert sk v tk hd).
Definition iconv (sk v tk : Z) (hd : bool) : obs := observe (tty_of_code tk) hd (iterator_consume sk v tk hd).

(* ------------------------------------------------------------------ FPU: integer -> floating type *)
(* cvtsi2ss / cvtsi2sd / fild (+ unsigned fix-ups): round to nearest, ties to even, to
   [p] significant bits.  For |v| < 2^64 there is neither overflow nor a subnormal, and the
   result is again an integer, which is how it is represented here. *)
Definition fprec (c : cty) : Z := match c with CF32 => 24 | CF64 => 53 | _ => 64 end.

Definition round_int (p v : Z) : Z :=
  let a := Z.abs v in
  let k := Z.log2 a + 1 - p in                 (* low bits that do not fit *)
  if k <=? 0 then v else
  let q := a / 2 ^ k in
  let r := a mod 2 ^ k in
  let half := 2 ^ (k - 1) in
  let q' := if (half <? r) || ((half =? r) && Z.odd q) then q + 1 else q in
  Z.sgn v * (q' * 2 ^ k).

(* IEEE-754 binary32 / binary64 and x87 extended bit pattern of an integer [w] that has at
   most [fprec c] significant bits (as produced by [round_int]) *)
Definition flt_bits (c : cty) (w : Z) : Z :=
  let a := Z.abs w in
  if a =? 0 then 0 else
  let e := Z.log2 a in
  let sgn := if w <? 0 then 1 else 0 in
  match c with
  | CF32 => sgn * 2 ^ 31 + (e + 127) * 2 ^ 23 + (Z.shiftl a (23 - e) - 2 ^ 23)
  | CF64 => sgn * 2 ^ 63 + (e + 1023) * 2 ^ 52 + (Z.shiftl a (52 - e) - 2 ^ 52)
  | _ => sgn * 2 ^ 79 + (e + 16383) * 2 ^ 64 + Z.shiftl a (63 - e)
  end.

(* ------------------------------------------------------------------ libc: strtoimax / strtoumax *)
(* text = list of byte values 1..255 (the C string without its terminator) *)
Definition is_space (c : Z) : bool := (c =? 32) || ((9 <=? c) && (c <=? 13)).

Definition digit_of (c : Z) : option Z :=
  if (48 <=? c) && (c <=? 57) then Some (c - 48)
  else if (97 <=? c) && (c <=? 122) then Some (c - 87)
  else if (65 <=? c) && (c <=? 90) then Some (c - 55)
  else None.
Definition digit_in (base c : Z) : option Z :=
  match digit_of c with
  | Some d => if d <? base then Some d else None
  | None => None
  end.

Fixpoint cstr (s : list Z) : list Z :=
  match s with
  | c :: r => if c =? 0 then [] else c :: cstr r
  | [] => []
  end.

Fixpoint skip_space (s : list Z) : nat * list Z :=
  match s with
  | c :: r => if is_space c then let '(n, r') := skip_space r in (S n, r') else (O, s)
  | [] => (O, [])
  end.

(* Horner accumulation over the leading digits; number of digits consumed *)
Fixpoint digits (base : Z) (s : list Z) (acc : Z) : Z * nat :=
  match s with
  | c :: r =>
    match digit_in base c with
    | Some d => let '(v, n) := digits base r (acc * base + d) in (v, S n)
    | None => (acc, O)
    end
  | [] => (acc, O)
  end.

Definition take_sign (s : list Z) : bool * nat * list Z :=
  match s with
  | c :: r => if c =? 45 then (true, 1%nat, r) else if c =? 43 then (false, 1%nat, r) else (false, O, s)
  | [] => (false, O, s)
  end.

Definition is_x (c : Z) : bool := (c =? 120) || (c =? 88).
Definition hex_base (base : Z) : bool := (base =? 0) || (base =? 16).
Definition base_or (base dflt : Z) : Z := if base =? 0 then dflt else base.

(* prefix recognition: (effective base, characters skipped, rest) *)
Definition take_prefix (base : Z) (s : list Z) : Z * nat * list Z :=
  match s with
  | c :: r =>
    if c =? 48 then
      match r with
      | x :: r' => if hex_base base && is_x x then (16, 2%nat, r') else (base_or base 8, O, s)
      | [] => (base_or base 8, O, s)
      end
    else (base_or base 10, O, s)
  | [] => (base_or base 10, O, s)
  end.

(* common part: None = invalid base (EINVAL, end pointer not written);
   Some (negative, magnitude, consumed) — consumed = 0 means no conversion *)
Definition strto_core (base : Z) (s : list Z) : option (bool * Z * nat) :=
  if (base <? 0) || (base =? 1) || (36 <? base) then None else
  let '(nsp, s1) := skip_space s in
  let '(neg, nsg, s2) := take_sign s1 in
  let '(b, npre, s3) := take_prefix base s2 in
  let '(m, nd) := digits b s3 0 in
  match nd with
  | O => match npre with
         | O => Some (false, 0, O)
         | _ => Some (neg, 0, (nsp + nsg + 1)%nat)   (* "0x" without hex digit: the "0" is the number *)
         end
  | _ => Some (neg, m, (nsp + nsg + npre + nd)%nat)
  end.

Record strto := mkStrto { sv : Z; s_erange : bool; s_end : nat }.

Definition INTMAX : Z := 9223372036854775807.
Definition UINTMAX : Z := 18446744073709551615.

Definition strtoimax (base : Z) (s : list Z) : strto :=
  match strto_core base s with
  | None => mkStrto 0 false O
  | Some (neg, m, n) =>
    if neg then (if INTMAX + 1 <? m then mkStrto (- INTMAX - 1) true n else mkStrto (- m) false n)
    else (if INTMAX <? m then mkStrto INTMAX true n else mkStrto m false n)
  end.

Definition strtoumax (base : Z) (s : list Z) : strto :=
  match strto_core base s with
  | None => mkStrto 0 false O
  | Some (neg, m, n) =>
    if UINTMAX <? m then mkStrto UINTMAX true n
    else mkStrto (if neg then (UINTMAX + 1 - m) mod (UINTMAX + 1) else m) false n
  end.

(* ------------------------------------------------------------------ convert_int.c *)
Inductive tres :=
| TRefused (e : err)
| TEmpty                           (* return 0: nothing there, nothing written *)
| TDone (st : stored) (n : nat)    (* return n > 0 = characters consumed *)
| TFault.

Definition tst (hd : bool) (c : cty) (val : Z) (n : nat) : tres :=
  TDone (if hd then StInt c (cwrap c val) else StNone) n.

Definition all_space (s : list Z) : bool := forallb is_space s.

(* the switch (vlen) of _mpt_convert_int *)
Definition int_by_len (vlen : Z) : option cty :=
  if vlen =? 1 then Some CI8 else if vlen =? 2 then Some CI16
  else if vlen =? 4 then Some CI32 else if vlen =? 8 then Some CI64 else None.

Definition convert_int_text (hd : bool) (vlen : Z) (src : option (list Z)) (base : Z) : tres :=
  match src with
  | None => TRefused BadArgument
  | Some s0 =>
    let s := cstr s0 in
    match s with
    | [] => TEmpty
    | _ =>
      let r := strtoimax base s in
      if s_erange r then TRefused BadValue
      else match s_end r with
      | O => if all_space s then TEmpty else TRefused BadType
      | n =>
        match int_by_len vlen with
        | Some c => if (sv r <? cmin c) || (cmax c <? sv r) then TRefused BadValue else tst hd c (sv r) n
        | None => TRefused BadType
        end
      end
    end
  end.

Definition starts_minus (s : list Z) : bool :=
  match snd (skip_space s) with c :: _ => c =? 45 | [] => false end.

(* the unsigned variant stores through the signed lvalue types of the same width *)
Definition convert_uint_text (hd : bool) (vlen : Z) (src : option (list Z)) (base : Z) : tres :=
  match src with
  | None => TRefused BadArgument
  | Some s0 =>
    let s := cstr s0 in
    match s with
    | [] => TEmpty
    | _ =>
      let r := strtoumax base s in
      if s_erange r then TRefused BadValue
      else match s_end r with
      | O => if all_space s then TEmpty else TRefused BadType
      | n =>
        if negb (sv r =? 0) && starts_minus s then TRefused BadValue else
        match int_by_len vlen with
        | Some c => if (cmod c - 1 <? sv r) then TRefused BadValue else tst hd c (sv r) n
        | None => TRefused BadType
        end
      end
    end
  end.

(* GET_STRING_FCN(get, name, type): get(&tmp, sizeof(type), src, base); optional range;
   if (val) *val = tmp.  [c] is the C type of the wrapper. *)
Definition get_string_fcn (c : cty) (hd : bool) (src : option (list Z)) (base : Z)
           (range : option (Z * Z)) : tres :=
  let r := if csigned c then convert_int_text true (cwidth c) src base
           else convert_uint_text true (cwidth c) src base in
  match r with
  | TDone (StInt c' w) n =>
    let tmp := reinterp c ((w mod cmod c') mod cmod c) in      (* tmp read as [type] *)
    match range with
    | Some (lo, hi) => if (tmp <? lo) || (hi <? tmp) then TRefused BadValue
                       else TDone (if hd then StInt c tmp else StNone) n
    | None => TDone (if hd then StInt c tmp else StNone) n
    end
  | r => r
  end.

(* ------------------------------------------------------------------ convert_number.c *)
(* float targets go to strtof/strtod/strtold.  What libc answered is an oracle input: the end
   pointer, whether errno is ERANGE afterwards, and the class of the value returned (the
   value itself is printed by the driver from the same oracle).  Everything the library does
   with these three is transcribed:
       errno = 0; tmp = strtod(src, &end);
       if (errno == ERANGE && (tmp == HUGE_VAL || tmp == -HUGE_VAL)) return BadValue;
       if (end == src) { only white space ? 0 : BadType }
       if (val) *val = tmp;  return end - src;                                          *)
Inductive fcls := FcFinite | FcPosInf | FcNegInf | FcNaN.
Record flt_oracle := mkOracle { fo_end : nat; fo_erange : bool; fo_cls : fcls }.

(* tmp == HUGE_VAL || tmp == -HUGE_VAL *)
Definition is_huge (k : fcls) : bool := match k with FcPosInf | FcNegInf => true | _ => false end.
(* a finite numeral beyond the range of the type, of either sign *)
Definition fo_overflow (o : flt_oracle) : bool := fo_erange o && is_huge (fo_cls o).

Definition convert_float_text (hd : bool) (src : list Z) (o : flt_oracle) : tres :=
  let s := cstr src in
  match s with
  | [] => TEmpty
  | _ =>
    if fo_overflow o then TRefused BadValue else
    match fo_end o with
    | O => if all_space s then TEmpty else TRefused BadType
    | n => TDone (if hd then StOrc else StNone) n     (* value = the oracle's, printed by the driver *)
    end
  end.

Definition convert_number (src : option (list Z)) (t : tty) (hd : bool) (o : flt_oracle) : tres :=
  match src with
  | None => TEmpty
  | Some s0 =>
    let s := cstr s0 in
    match t with
    | Tc =>
      let '(n, r) := skip_space s in
      match r with
      | [] => TEmpty
      | ch :: _ =>
        let sc := reinterp CChar ch in           (* plain char is signed *)
        match isgraph_c sc with
        | None => TFault
        | Some false => TRefused BadType
        | Some true => TDone (if hd then StInt CChar sc else StNone) (S n)
        end
      end
    | _ =>
      match map_long t with
      | Tb => get_string_fcn CI8 hd (Some s) 0 None
      | Ty => get_string_fcn CU8 hd (Some s) 0 None
      | Tn => get_string_fcn CI16 hd (Some s) 0 None
      | Tq => get_string_fcn CU16 hd (Some s) 0 None
      | Ti => get_string_fcn CI32 hd (Some s) 0 None
      | Tu => get_string_fcn CU32 hd (Some s) 0 None
      | Tx => get_string_fcn CI64 hd (Some s) 0 None
      | Tt => get_string_fcn CU64 hd (Some s) 0 None
      | Tf | Td | Te => convert_float_text hd s o
      | _ => TRefused BadType
      end
    end
  end.

(* ------------------------------------------------------------------ convert_string.c *)
(* numeric and unknown target types only: type 0, 'k', 's', the char vector and
   TypeValFmt take other branches that are no scalar conversions *)
Definition convert_string (from : option (list Z)) (t : tty) (hd : bool) (o : flt_oracle) : tres :=
  match from with
  | None => TEmpty
  | Some s0 =>
    let s := cstr s0 in
    match s with
    | [] => TEmpty
    | _ =>
      let '(k, txt) := skip_space s in
      (* the oracle describes libc on the whole string; strtod skips the same k spaces *)
      let o' := mkOracle (fo_end o - k)%nat (fo_erange o) (fo_cls o) in
      match convert_number (Some txt) t hd o' with
      | TRefused e => TRefused e
      | TFault => TFault
      | TEmpty => match k with O => TEmpty | _ => TDone StNone k end   (* only white space: k > 0 reported *)
      | TDone stv n => TDone stv (k + n)
      end
    end
  end.

(* ------------------------------------------------------------------ observation of a text result *)
Inductive tobs :=
| TORefused (e : err)
| TOEmpty
| TOInt (w : Z) (n : nat)
| TOFlt (n : nat)             (* value = oracle *)
| TOUntouched (n : nat)
| TOQuery (n : nat)
| TOJunk
| TOFault.

Definition tobserve (tc : option cty) (hd : bool) (r : tres) : tobs :=
  match r with
  | TRefused e => TORefused e
  | TEmpty => TOEmpty
  | TFault => TOFault
  | TDone s n =>
    if negb hd then TOQuery n else
    match tc with
    | Some c =>
      match s with
      | StOrc => if is_flt c then TOFlt n else TOJunk
      | StNone => TOUntouched n
      | _ =>
      match readback c true s 0 with
      | OInt w _ => TOInt w n
      | OUntouched _ => TOUntouched n
      | OFault => TOFault
      | _ => TOJunk
      end
      end
    | None => match s with StNone => TOUntouched n | _ => TOJunk end
    end
  end.
