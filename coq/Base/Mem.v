(* Base/Mem.v — checked flat memory (list of bytes), result type, list lemmas.
   Every model access goes through [rd]/[wr]; an access outside the storage
   yields [Fault], so "the model never returns Fault" is the model-level
   statement of "no access leaves the storage area". *)
From Coq Require Export List Arith NArith ZArith Lia Bool.
Export ListNotations.
Local Open Scope nat_scope.

Notation byte := N (only parsing).

Inductive err := BadArgument | BadValue | BadType | BadOperation | BadEncoding
               | MissingData | MissingBuffer | ERange | EInval.

Inductive res (A : Type) :=
| Ok (a : A)
| Err (e : err)
| Fault.          (* memory access outside the modelled storage / UB *)
Arguments Ok {A} a.
Arguments Err {A} e.
Arguments Fault {A}.

Definition bind {A B} (r : res A) (f : A -> res B) : res B :=
  match r with Ok a => f a | Err e => Err e | Fault => Fault end.
Notation "'do' x <- r ; k" := (bind r (fun x => k))
  (at level 200, x name, r at level 100, k at level 200).
Notation "'do' ' p <- r ; k" := (bind r (fun x => match x with p => k end))
  (at level 200, p pattern, r at level 100, k at level 200).

Definition mem := list byte.

Definition rd (m : mem) (i n : nat) : res (list byte) :=
  if i + n <=? length m then Ok (firstn n (skipn i m)) else Fault.

Definition wr (m : mem) (i : nat) (d : list byte) : res mem :=
  if i + length d <=? length m
  then Ok (firstn i m ++ d ++ skipn (i + length d) m) else Fault.

(* memmove inside one memory *)
Definition mv (m : mem) (dst src n : nat) : res mem :=
  do d <- rd m src n; wr m dst d.

Definition lastn {A} (n : nat) (l : list A) : list A := skipn (length l - n) l.
Definition slice {A} (i n : nat) (l : list A) : list A := firstn n (skipn i l).

(* ---------- nth-style characterisations ---------- *)

Lemma nth_firstn' {A} (l : list A) n i d : i < n -> nth i (firstn n l) d = nth i l d.
Proof.
  revert n i; induction l as [|x l IH]; intros n i H.
  - rewrite firstn_nil. reflexivity.
  - destruct n; [lia|]. destruct i; simpl; [reflexivity|]. apply IH; lia.
Qed.

Lemma nth_skipn' {A} (l : list A) n i d : nth i (skipn n l) d = nth (n + i) l d.
Proof.
  revert n; induction l as [|x l IH]; intros n.
  - rewrite skipn_nil. destruct i, n; reflexivity.
  - destruct n; simpl; [reflexivity|]. apply IH.
Qed.

Lemma nth_slice {A} (l : list A) k n i d : i < n -> nth i (slice k n l) d = nth (k + i) l d.
Proof. intros H. unfold slice. rewrite nth_firstn' by assumption. apply nth_skipn'. Qed.

Lemma length_slice {A} (l : list A) k n : k + n <= length l -> length (slice k n l) = n.
Proof. intros H. unfold slice. rewrite firstn_length, skipn_length. lia. Qed.

Lemma rd_ok m i n : i + n <= length m -> rd m i n = Ok (slice i n m).
Proof. intros H. unfold rd. destruct (Nat.leb_spec (i + n) (length m)); [reflexivity|lia]. Qed.

Lemma rd_inv m i n d : rd m i n = Ok d -> i + n <= length m /\ d = slice i n m.
Proof.
  unfold rd. destruct (Nat.leb_spec (i + n) (length m)); intros E; inversion E; auto.
Qed.

Lemma wr_inv m i d m' : wr m i d = Ok m' ->
  i + length d <= length m /\ m' = firstn i m ++ d ++ skipn (i + length d) m.
Proof.
  unfold wr. destruct (Nat.leb_spec (i + length d) (length m)); intros E; inversion E; auto.
Qed.

Lemma wr_ok m i d : i + length d <= length m ->
  wr m i d = Ok (firstn i m ++ d ++ skipn (i + length d) m).
Proof. intros H. unfold wr. destruct (Nat.leb_spec (i + length d) (length m)); [reflexivity|lia]. Qed.

Definition upd (m : mem) (i : nat) (d : list byte) : mem :=
  firstn i m ++ d ++ skipn (i + length d) m.

Lemma upd_length m i d : i + length d <= length m -> length (upd m i d) = length m.
Proof.
  intros H. unfold upd. rewrite !app_length, firstn_length, skipn_length. lia.
Qed.

Lemma nth_upd m i d j x : i + length d <= length m ->
  nth j (upd m i d) x =
  if (i <=? j) && (j <? i + length d) then nth (j - i) d x else nth j m x.
Proof.
  intros H. unfold upd.
  destruct (Nat.leb_spec i j) as [Hij|Hij]; simpl.
  - rewrite app_nth2 by (rewrite firstn_length; lia).
    rewrite firstn_length, Nat.min_l by lia.
    destruct (Nat.ltb_spec j (i + length d)) as [Hj|Hj].
    + rewrite app_nth1 by lia. reflexivity.
    + rewrite app_nth2 by lia. rewrite nth_skipn'. f_equal. lia.
  - rewrite app_nth1 by (rewrite firstn_length; lia).
    apply nth_firstn'. assumption.
Qed.

Lemma nth_app {A} (l1 l2 : list A) i d :
  nth i (l1 ++ l2) d = if i <? length l1 then nth i l1 d else nth (i - length l1) l2 d.
Proof.
  destruct (Nat.ltb_spec i (length l1)); [apply app_nth1 | apply app_nth2]; lia.
Qed.

Lemma nth_ext' {A} (l1 l2 : list A) d :
  length l1 = length l2 -> (forall i, i < length l1 -> nth i l1 d = nth i l2 d) -> l1 = l2.
Proof. intros H1 H2. apply (nth_ext l1 l2 d d); assumption. Qed.

Lemma length_lastn {A} n (l : list A) : n <= length l -> length (lastn n l) = n.
Proof. intros H. unfold lastn. rewrite skipn_length. lia. Qed.

Lemma nth_lastn {A} n (l : list A) i d : n <= length l -> nth i (lastn n l) d = nth (length l - n + i) l d.
Proof. intros H. unfold lastn. apply nth_skipn'. Qed.

Lemma nth_repeat' {A} (x : A) n i d : i < n -> nth i (repeat x n) d = x.
Proof. revert i; induction n; intros i H; [lia|]. destruct i; simpl; [reflexivity|]. apply IHn. lia. Qed.
