(* Base/Tactics.v — small tactics shared by the developments (see docs/ADDING_A_PROPERTY.md). *)
From MptV Require Export Base.Mem.
Local Open Scope nat_scope.

(* destruct ONE nat comparison occurring in goal or hypotheses; use for control flow *)
Ltac cases_if :=
  match goal with
  | |- context [?a <? ?b] => destruct (Nat.ltb_spec a b)
  | |- context [?a <=? ?b] => destruct (Nat.leb_spec a b)
  | |- context [?a =? ?b] => destruct (Nat.eqb_spec a b)
  | H : context [?a <? ?b] |- _ => destruct (Nat.ltb_spec a b)
  | H : context [?a <=? ?b] |- _ => destruct (Nat.leb_spec a b)
  | H : context [?a =? ?b] |- _ => destruct (Nat.eqb_spec a b)
  end; cbn [andb orb negb bind] in *.

(* decide comparisons that the context settles, without case splits *)
Ltac simp_cmp :=
  repeat match goal with
  | |- context [?a <=? ?b] =>
    first [ rewrite (proj2 (Nat.leb_le a b)) by lia | rewrite (proj2 (Nat.leb_gt a b)) by lia ]
  | |- context [?a <? ?b] =>
    first [ rewrite (proj2 (Nat.ltb_lt a b)) by lia | rewrite (proj2 (Nat.ltb_ge a b)) by lia ]
  | |- context [?a =? ?b] =>
    first [ rewrite (proj2 (Nat.eqb_eq a b)) by lia | rewrite (proj2 (Nat.eqb_neq a b)) by lia ]
  end; cbn [andb orb negb].

Ltac split_at j b := destruct (le_lt_dec b j); try lia.
Ltac nth_eq := try reflexivity; try lia; try (f_equal; lia).
