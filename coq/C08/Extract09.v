(* Extraction of the printer, the well-formedness checks and the parser for C09 (ExtrOcamlBasic only). *)
From MptV Require Import C08.ParseModel C08.PrintModel C08.MetaModel.
Require Import ExtrOcamlBasic.
Extraction "c09_model.ml" print wf_items parse_tree abs_items norm_tree style_fmt parse_accept allow_init allow_variant
  meta_run spec_run.
