(* C08/ParseConfig.v — the mpt_parse_config loop: fuel always suffices, the input is
   consumed as a prefix, getc callbacks are bounded, the events are well nested,
   no read outside the post data; mpt_parse_node leaves the target alone on failure. *)
From Coq Require Import List ZArith Lia Bool.
From MptV Require Import C08.ParseModel C08.ParseSpec C08.ParseBase C08.ParseProofs.
Import ListNotations.
Local Open Scope Z_scope.

Lemma el_len l s ret r s' : el l s (ret, r, s') -> len r <= len l.
Proof. intros ((_ & H & _) & _). exact H. Qed.

(* ---------------------------------------------------------------- progress of one element call *)
Definition progress (prev : Z) (l : list Z) (x : R) : Prop :=
  let '(ret, r, s') := x in
  0 < ret -> len r < len l \/ (r = l /\ Z.land prev 15 = 2 /\ Z.land (pcurr s') 15 <> 2).

(* after a character was read every continuation keeps the strict decrease *)
Lemma progress_after prev l r1 (x : R) s1 :
  len r1 < len l -> el r1 s1 x -> progress prev l x.
Proof.
  destruct x as [[ret r] s']. intros A B _. left. pose proof (el_len _ _ _ _ _ B). lia.
Qed.
Lemma progress_stop prev l ret r s' : ret <= 0 -> progress prev l (ret, r, s').
Proof. intros A B. lia. Qed.

Lemma parse_option_progress prev f a l s : progress prev l (parse_option f a l s).
Proof.
  unfold parse_option. set (named := araw a && negb (valid s =? 0) && (ostart f =? 0)).
  assert (X : let '(c, r, s1) := (if named then getchar l s else nextvis f l s) in rd l s c r s1)
    by (destruct named; [apply getchar_rd|apply nextvis_rd]).
  destruct (if named then getchar l s else nextvis f l s) as [[c r] s1].
  destruct (c <? 0) eqn:CN.
  - destruct (negb (c =? -2)); [apply progress_stop; codes; lia|].
    apply progress_stop. destruct (pelems _); codes; lia.
  - apply Z.ltb_ge in CN. destruct X as [_ C _ _ _ _]. destruct (C CN) as [_ L].
    destruct (negb (ostart f =? 0) && negb (c =? ostart f) && negb (valid s1 =? 0)); [apply progress_stop; codes; lia|].
    eapply progress_after; [exact L|apply option_loop_el].
Qed.

Lemma format_pre_progress prev f a l s : progress prev l (format_pre f a l s).
Proof.
  unfold format_pre. pose proof (nextvis_rd f l s) as X. destruct (nextvis f l s) as [[c r] s1].
  destruct (c <? 0) eqn:CN.
  - apply progress_stop. destruct (pelems _); codes; lia.
  - apply Z.ltb_ge in CN. destruct X as [_ C _ _ _ _]. destruct (C CN) as [_ L].
    destruct (c =? sstart f).
    + eapply progress_after; [exact L|apply section_add_el].
    + eapply progress_after; [exact L|apply pre_loop_el].
Qed.

Lemma enc_section_progress prev f a l s : progress prev l (enc_section f a l s).
Proof.
  pose proof (enc_section_el f a l s) as EL. revert EL.
  unfold enc_section.
  pose proof (nextvis_curr_rdw f l s PSection) as X.
  destruct (nextvis f l (with_curr s PSection)) as [[c r] s1].
  destruct (c <=? 0) eqn:CN; [intros _; apply progress_stop; codes; lia|].
  apply Z.leb_gt in CN. assert (C0 : 0 <= c) by lia.
  destruct X as [_ C _ _]. destruct (C C0) as [_ L].
  set (s2 := set_valid _).
  pose proof (enc_loop_dl f r s2) as D. destruct (enc_loop f r s2) as [[ok r3] s3].
  destruct D as ((_ & L3 & _) & _).
  destruct ok; [|intros _; apply progress_stop; codes; lia].
  cbv zeta. destruct (_ <? 0); [intros _; apply progress_stop; destruct (_ =? RFault); codes; lia|].
  destruct (path_add _ _) as [ad p1]. destruct (ad <? 0); [intros _; apply progress_stop; codes; lia|].
  intros _ _. left. lia.
Qed.

Lemma enc_other_progress prev f a c l0 l s :
  len l < len l0 -> progress prev l0 (enc_other f a c l s).
Proof. intros L. eapply progress_after; [exact L|apply enc_other_el]. Qed.

Lemma format_enc_progress prev f a l s : progress prev l (format_enc f a prev l s).
Proof.
  unfold format_enc. destruct (sstart f =? send f).
  - destruct (prev =? PSectEnd); [apply enc_section_progress|].
    pose proof (nextvis_rd f l s) as X. destruct (nextvis f l s) as [[c r] s1].
    destruct (c <? 0) eqn:CN; [apply progress_stop; lia|].
    apply Z.ltb_ge in CN. destruct X as [_ C _ _ _ _]. destruct (C CN) as [_ L].
    destruct (_ && (c =? sstart f)); [intros _; left; exact L|].
    destruct (negb (c =? sstart f)); [now apply enc_other_progress|].
    eapply progress_after; [exact L|apply enc_section_el].
  - pose proof (nextvis_rd f l s) as X. destruct (nextvis f l s) as [[c r] s1].
    destruct (c <? 0) eqn:CN.
    + apply progress_stop. destruct (pelems _); [destruct (c =? -2)|]; codes; lia.
    + apply Z.ltb_ge in CN. destruct X as [_ C _ _ _ _]. destruct (C CN) as [_ L].
      destruct (negb (c =? sstart f)); [now apply enc_other_progress|].
      eapply progress_after; [exact L|apply enc_section_el].
Qed.

Lemma land15 x : x = 1 \/ x = 9 -> Z.land x 15 <> 2.
Proof. intros [->| ->]; cbn; lia. Qed.

(* the only call that may return without having read: start and end delimiter coincide and the
   previous element was a section end; it then notes Section|Name as the current operation *)
Lemma sep_first_progress prev f a l s :
  Z.land prev 15 = 2 -> progress prev l (sep_first f a l s).
Proof.
  intros PV. unfold sep_first. destruct (negb (send f =? sstart f)) eqn:SE.
  - pose proof (getchar_rd l s) as X. destruct (getchar l s) as [[c r] s1].
    destruct (c <? 0) eqn:CN; [apply progress_stop; destruct (c =? -2); codes; lia|].
    apply Z.ltb_ge in CN. destruct X as [_ C _ _ _ _]. destruct (C CN) as [_ L].
    eapply progress_after; [exact L|apply sep_loop_el].
  - apply negb_false_iff in SE. rewrite sep_loop_eq. unfold sep_body.
    rewrite Z.eqb_sym in SE. rewrite SE.
    pose proof (section_add_noread (asect a) (Z.lor PSection PName) l s) as N.
    unfold section_add in *.
    destruct (_ <? 0); [apply progress_stop; destruct (_ =? RFault); codes; lia|].
    destruct (path_add _ _) as [ad p1]. destruct (ad <? 0); [apply progress_stop; codes; lia|].
    intros _. right. split; [reflexivity|]. split; [assumption|].
    autorewrite with pst. apply land15. right. reflexivity.
Qed.

Lemma sep_first_progress_after prev f a l0 l s :
  len l < len l0 -> progress prev l0 (sep_first f a l s).
Proof. intros L. eapply progress_after; [exact L|apply sep_first_el]. Qed.

Lemma format_sep_progress prev f a l s : progress prev l (format_sep f a prev l s).
Proof.
  unfold format_sep. destruct (Z.land prev 15 =? PSectEnd) eqn:PV.
  - apply Z.eqb_eq in PV. now apply sep_first_progress.
  - pose proof (nextvis_rd f l s) as X. destruct (nextvis f l s) as [[c r] s1].
    destruct (c <? 0) eqn:CN.
    + destruct (c =? -2); apply progress_stop; codes; lia.
    + apply Z.ltb_ge in CN. destruct X as [_ C _ _ _ _]. destruct (C CN) as [_ L].
      destruct (negb (c =? sstart f)).
      * destruct (negb (c =? ostart f)); eapply progress_after; try exact L; apply parse_option_el.
      * destruct (pelems (pth s1)); [now apply sep_first_progress_after|].
        intros _. left. exact L.
Qed.

Lemma next_elem_progress fam f a prev l s : progress prev l (next_elem fam f a prev l s).
Proof.
  destruct fam; cbn [next_elem];
    [apply format_pre_progress|apply format_enc_progress|apply format_sep_progress|apply parse_option_progress].
Qed.

(* ---------------------------------------------------------------- the loop *)
Definition measure (prev : Z) (l : list Z) : Z := 2 * len l + (if Z.land prev 15 =? 2 then 1 else 0).

Lemma measure_step prev l ret r s' :
  progress prev l (ret, r, s') -> 0 < ret -> len r <= len l -> measure (pcurr s') r < measure prev l.
Proof.
  intros P R L. unfold measure. destruct (P R) as [A|(A & B & C)].
  - destruct (Z.land (pcurr s') 15 =? 2), (Z.land prev 15 =? 2); lia.
  - subst r. apply Z.eqb_eq in B. apply Z.eqb_neq in C. rewrite B, C. lia.
Qed.

Lemma sinv_next p : pinv2 p -> (plen p = 0) -> forall ln ca, sinv (mkPst ln ca p 0 0).
Proof. intros A B ln ca. split; cbn; [assumption|lia]. Qed.

Section Loop.
  Variable H : Type.
  Variable save : H -> event -> option (H + unit).

  (* for every handler: the fuel suffices and the rest is a suffix of the input *)
  Lemma config_loop_ok fam f a : forall fuel prev l s h,
    sinv s -> measure prev l < Z.of_nat fuel ->
    let c := config_loop save fuel fam f a prev l s h in
    c_ret c <> ROutOfFuel /\ suffix (c_rest c) l.
  Proof.
    induction fuel as [|fuel IH]; intros prev l s h SI M.
    - unfold measure in M. pose proof (len_nonneg l). destruct (_ =? 2); lia.
    - cbn [config_loop].
      pose proof (next_elem_el fam f a prev l s) as EL.
      pose proof (next_elem_progress fam f a prev l s) as PR.
      destruct (next_elem fam f a prev l s) as [[ret r] s1].
      destruct EL as ((SF & LN & _) & _ & SA). destruct (SA SI) as (NF & PI & VB).
      destruct (ret <=? 0) eqn:RN.
      + cbn. split; [codes; lia|assumption].
      + apply Z.leb_gt in RN.
        pose proof (measure_step _ _ _ _ _ PR RN LN) as MS.
        destruct (if negb (Z.land ret PData =? 0) then post_read s1 (valid s1) else Some []) as [vb|];
          [|cbn; split; [codes; lia|assumption]].
        destruct (save h _) as [[h1|[]]|]; [|cbn; split; [codes; lia|assumption]..].
        destruct (negb (Z.land ret PSectEnd =? 0)).
        * destruct (path_del (pth s1)) as [d p1] eqn:PD.
          destruct (path_del_pinv _ _ _ PI PD) as [PI1 PL1].
          destruct (d <? 0) eqn:DN; [cbn; split; [codes; lia|assumption]|].
          apply Z.ltb_ge in DN.
          specialize (IH (pcurr s1) r (mkPst (line s1) (calls s1) p1 0 0) h1).
          destruct IH as [I1 I2]; [apply sinv_next; auto|lia|].
          split; [exact I1|eapply suffix_trans; eassumption].
        * specialize (IH (pcurr s1) r (mkPst (line s1) (calls s1) (path_invalidate (pth s1)) 0 0) h1).
          destruct IH as [I1 I2]; [apply sinv_next; [now apply pinv2_invalidate|now apply plen_invalidate]|lia|].
          split; [exact I1|eapply suffix_trans; eassumption].
  Qed.
End Loop.

Lemma config_fuel_enough l : measure PSection l < Z.of_nat (config_fuel l).
Proof. unfold measure, config_fuel, len, PSection. change (Z.land 1 15 =? 2) with false. lia. Qed.

(* ---------------------------------------------------------------- the recorded events *)
Lemma names_eqb_refl a : names_eqb a a = true.
Proof.
  induction a as [|x a IH]; cbn; [reflexivity|]. rewrite IH, andb_true_r.
  induction x as [|y x IHx]; cbn; [reflexivity|]. now rewrite Z.eqb_refl.
Qed.

Lemma nested_app st h e :
  nested st (h ++ [e]) = nested st h && nested (open_after st h) [e].
Proof.
  revert st. induction h as [|x h IH]; intros st; cbn [app nested open_after].
  - destruct (abs_event e) as [[n| |n v|v]|]; cbn; try (destruct st); now rewrite ?andb_true_r.
  - destruct (abs_event x) as [[n| |n v|v]|]; try reflexivity.
    + now rewrite IH, andb_assoc.
    + destruct st; [reflexivity|]. now rewrite IH, andb_assoc.
    + now rewrite IH, andb_assoc.
    + now rewrite IH, andb_assoc.
Qed.
Lemma open_after_app st h e :
  open_after st (h ++ [e]) = open_after (open_after st h) [e].
Proof.
  revert st. induction h as [|x h IH]; intros st; cbn [app open_after]; [reflexivity|].
  destruct (abs_event x) as [[n| |n v|v]|]; apply IH.
Qed.


Definition nev (h : list event) : Z := Z.of_nat (length h).
Lemma nev_app h e : nev (h ++ [e]) = nev h + 1.
Proof. unfold nev. rewrite app_length. cbn. lia. Qed.

Lemma post_read_ok s : sinv s -> post_read s (valid s) = Some (firstn (Z.to_nat (valid s)) (ppost (pth s))).
Proof.
  intros [_ V]. unfold post_read.
  replace ((0 <=? valid s) && (valid s <=? plen (pth s))) with true; [reflexivity|].
  symmetry. apply andb_true_iff. split; apply Z.leb_le; lia.
Qed.

Lemma removelast_app1 {A} (l : list A) x : removelast (l ++ [x]) = l.
Proof. apply removelast_last. Qed.

(* one recorded event keeps the nesting: the stack of open sections is the path *)
Lemma event_nested st ret prev s1 vb :
  (ret = 1 \/ ret = 3 \/ ret = 7 -> exists n, pelems (pth s1) = st ++ [n]) ->
  (ret = 2 \/ ret = 4 -> pelems (pth s1) = st) ->
  (ret = 2 -> st <> []) ->
  ret = 1 \/ ret = 2 \/ ret = 3 \/ ret = 4 \/ ret = 7 ->
  let ev := mkEv ret prev (pelems (pth s1)) (pfirst (pth s1))
                 (if negb (Z.land ret PData =? 0) then Some vb else None) in
  nested st [ev] = true /\
  open_after st [ev] = (if negb (Z.land ret PSectEnd =? 0) then removelast (pelems (pth s1))
                        else pelems (pth s1)).
Proof.
  intros E1 E2 E3 R ev. subst ev.
  destruct R as [->|[->|[->|[->| ->]]]]; unfold nested, open_after, abs_event; cbn.
  - destruct E1 as [n En]; [auto|]. rewrite En, last_last, names_eqb_refl. auto.
  - rewrite E2 by auto. destruct st; [now destruct E3|]. rewrite names_eqb_refl. auto.
  - destruct E1 as [n En]; [auto|]. rewrite En, last_last, names_eqb_refl, removelast_app1. auto.
  - rewrite E2 by auto. rewrite names_eqb_refl. auto.
  - destruct E1 as [n En]; [auto|]. rewrite En, last_last, names_eqb_refl, removelast_app1. auto.
Qed.

(* the run that records the events *)
Lemma log_loop fam f a l0 : forall fuel prev l s h,
  sinv s -> nested [] h = true -> open_after [] h = pelems (pth s) ->
  calls s <= (len l0 - len l) + nev h -> len l <= len l0 ->
  let c := config_loop save_log fuel fam f a prev l s h in
  c_ret c <> RFault /\
  (0 <= c_ret c -> nested [] (c_h c) = true) /\
  calls (c_st c) <= (len l0 - len (c_rest c)) + nev (c_h c) + 1.
Proof.
  induction fuel as [|fuel IH]; intros prev l s h SI NE OA CA LL.
  - cbn. split; [codes; lia|]. split; [codes; lia|lia].
  - cbn [config_loop].
    pose proof (next_elem_el fam f a prev l s) as EL.
    destruct (next_elem fam f a prev l s) as [[ret r] s1].
    destruct EL as ((SF & LN & EO & _) & (OK & E1 & E2) & SA). destruct (SA SI) as (NF & PI & VB).
    unfold eofs in EO.
    destruct (ret <=? 0) eqn:RN.
    + cbn. split; [codes; lia|]. split; [auto|lia].
    + apply Z.leb_gt in RN.
      assert (R5 : ret = 1 \/ ret = 2 \/ ret = 3 \/ ret = 4 \/ ret = 7) by (unfold okret in OK; lia).
      assert (PR : exists vb, (if negb (Z.land ret PData =? 0) then post_read s1 (valid s1) else Some []) = Some vb).
      { destruct (negb (Z.land ret PData =? 0)) eqn:HD; [|eexists; reflexivity].
        assert (ret = 4 \/ ret = 7).
        { destruct R5 as [->|[->|[->|[->| ->]]]]; cbn in HD; try discriminate; auto. }
        rewrite post_read_ok; [eexists; reflexivity|]. split; auto. }
      destruct PR as [vb PRE]. rewrite PRE.
      unfold save_log at 1.
      set (ev := mkEv ret prev (pelems (pth s1)) (pfirst (pth s1)) _).
      assert (CA1 : calls s1 <= (len l0 - len r) + nev (h ++ [ev])) by (rewrite nev_app; lia).
      assert (LL1 : len r <= len l0) by lia.
      destruct (negb (Z.land ret PSectEnd =? 0)) eqn:SE.
      * destruct (path_del (pth s1)) as [d p1] eqn:PD.
        destruct (path_del_pinv _ _ _ PI PD) as [PI1 PL1].
        destruct (path_del_elems _ _ _ PD) as [[DN _]|(DP & NE1 & PE1)].
        -- replace (d <? 0) with true by (symmetry; apply Z.ltb_lt; lia).
           cbn. split; [codes; lia|]. split; [codes; lia|]. autorewrite with pst. lia.
        -- replace (d <? 0) with false by (symmetry; apply Z.ltb_ge; lia).
           destruct (event_nested (pelems (pth s)) ret prev s1 vb) as [EN EA]; auto.
           { intros ->. rewrite <- E2 by auto. exact NE1. }
           fold ev in EN, EA. rewrite SE in EA.
           apply IH; auto.
           ++ apply sinv_next; auto.
           ++ rewrite nested_app, NE, OA. exact EN.
           ++ rewrite open_after_app, OA, EA. cbn [pth]. now rewrite PE1.
      * destruct (event_nested (pelems (pth s)) ret prev s1 vb) as [EN EA]; auto.
        { intros ->. cbn in SE. discriminate. }
        fold ev in EN, EA. rewrite SE in EA.
        apply IH; auto.
        -- apply sinv_next; [now apply pinv2_invalidate|now apply plen_invalidate].
        -- rewrite nested_app, NE, OA. exact EN.
        -- rewrite open_after_app, OA, EA. cbn [pth]. now rewrite pelems_invalidate.
Qed.

(* ---------------------------------------------------------------- the property lemmas *)
Lemma parse_events_total fam f a l :
  let c := parse_events fam f a l in
  c_ret c <> ROutOfFuel /\ exists consumed, consumed ++ c_rest c = l.
Proof.
  unfold parse_events.
  destruct (config_loop_ok (list event) save_log fam f a (config_fuel l) PSection l pst_init [] sinv_init
                           (config_fuel_enough l)) as [A B].
  split; assumption.
Qed.

Lemma parse_events_calls fam f a l :
  let c := parse_events fam f a l in
  calls (c_st c) <= (len l - len (c_rest c)) + nev (c_h c) + 1.
Proof.
  unfold parse_events.
  assert (I : calls pst_init <= len l - len l + nev []) by (cbn; lia).
  destruct (log_loop fam f a l (config_fuel l) PSection l pst_init [] sinv_init eq_refl eq_refl I (Z.le_refl _))
    as (A & B & C).
  exact C.
Qed.

Lemma parse_events_nested fam f a l :
  let c := parse_events fam f a l in 0 <= c_ret c -> nested [] (c_h c) = true.
Proof.
  unfold parse_events.
  assert (I : calls pst_init <= len l - len l + nev []) by (cbn; lia).
  destruct (log_loop fam f a l (config_fuel l) PSection l pst_init [] sinv_init eq_refl eq_refl I (Z.le_refl _))
    as (A & B & C).
  exact B.
Qed.

Lemma parse_events_no_fault fam f a l : c_ret (parse_events fam f a l) <> RFault.
Proof.
  unfold parse_events.
  assert (I : calls pst_init <= len l - len l + nev []) by (cbn; lia).
  destruct (log_loop fam f a l (config_fuel l) PSection l pst_init [] sinv_init eq_refl eq_refl I (Z.le_refl _))
    as (A & B & C).
  exact A.
Qed.

Lemma parse_node_total target fmt a l :
  let n := parse_node target fmt a l in
  n_ret n <> ROutOfFuel /\ exists consumed, consumed ++ n_rest n = l.
Proof.
  unfold parse_node. destruct (parse_format fmt) as [f code].
  destruct (next_fcn code) as [fam|]; [|cbn; split; [codes; lia|exists []; reflexivity]].
  destruct (config_loop_ok builder node_append fam f a (config_fuel l) PSection l pst_init builder_init sinv_init
                           (config_fuel_enough l)) as [A B].
  destruct (c_ret _ <? 0); cbn; split; assumption.
Qed.

Lemma parse_node_fail_leaves target fmt a l :
  n_ret (parse_node target fmt a l) < 0 -> n_tree (parse_node target fmt a l) = target.
Proof.
  unfold parse_node. destruct (parse_format fmt) as [f code].
  destruct (next_fcn code) as [fam|]; [|reflexivity].
  destruct (c_ret _ <? 0) eqn:E; cbn [n_ret n_tree]; [reflexivity|]. intros H. apply Z.ltb_ge in E. lia.
Qed.

(* pure grammar view: the depth never drops below zero *)
Definition abs_events (evs : list event) : list sevent :=
  flat_map (fun e => match abs_event e with Some x => [x] | None => [] end) evs.

Lemma nested_depth evs : forall st, nested st evs = true -> depth_ok (length st) (abs_events evs) = true.
Proof.
  induction evs as [|e evs IH]; intros st N; [reflexivity|].
  cbn [nested] in N. cbn [abs_events flat_map]. fold (abs_events evs).
  destruct (abs_event e) as [[n| |n v|v]|]; [| | | |discriminate]; cbn [app depth_ok].
  - apply andb_true_iff in N. destruct N as [_ N]. specialize (IH _ N).
    rewrite app_length in IH. cbn in IH. now rewrite Nat.add_1_r in IH.
  - destruct st as [|x st]; [discriminate|]. apply andb_true_iff in N. destruct N as [_ N].
    specialize (IH _ N). cbn [length].
    assert (L : length (removelast (x :: st)) = length st).
    { clear. revert x. induction st; intros; cbn in *; auto. }
    now rewrite L in IH.
  - apply andb_true_iff in N. destruct N as [_ N]. now apply IH.
  - apply andb_true_iff in N. destruct N as [_ N]. now apply IH.
Qed.

Lemma parse_events_depth fam f a l :
  let c := parse_events fam f a l in 0 <= c_ret c -> depth_ok 0 (abs_events (c_h c)) = true.
Proof. intros c R. apply (nested_depth _ []). now apply parse_events_nested. Qed.

(* ---------------------------------------------------------------- the same for a loop on the caller's own path
   (examples/core/parse.c: MPT_PATHFLAG(SepBinary)); every lemma above is generic in the start state *)
Lemma parse_events_b_total bin fam f a l :
  let c := parse_events_b bin fam f a l in
  c_ret c <> ROutOfFuel /\ exists consumed, consumed ++ c_rest c = l.
Proof.
  unfold parse_events_b.
  destruct (config_loop_ok (list event) save_log fam f a (config_fuel l) PSection l (pst_init_b bin) [] (sinv_init_b bin)
                           (config_fuel_enough l)) as [A B].
  split; assumption.
Qed.

Lemma parse_events_b_all bin fam f a l :
  let c := parse_events_b bin fam f a l in
  c_ret c <> RFault /\ (0 <= c_ret c -> nested [] (c_h c) = true) /\
  calls (c_st c) <= (len l - len (c_rest c)) + nev (c_h c) + 1.
Proof.
  unfold parse_events_b.
  assert (I : calls (pst_init_b bin) <= len l - len l + nev []) by (cbn; lia).
  exact (log_loop fam f a l (config_fuel l) PSection l (pst_init_b bin) [] (sinv_init_b bin) eq_refl eq_refl I (Z.le_refl _)).
Qed.

Lemma parse_events_b_depth bin fam f a l :
  let c := parse_events_b bin fam f a l in 0 <= c_ret c -> depth_ok 0 (abs_events (c_h c)) = true.
Proof. intros c R. apply (nested_depth _ []). now apply (parse_events_b_all bin fam f a l). Qed.

(* without the flag the caller loop is mpt_parse_config *)
Lemma parse_events_b_false fam f a l : parse_events_b false fam f a l = parse_events fam f a l.
Proof. reflexivity. Qed.

(* mpt_path_add in the binary format: an element it accepts fits its length byte, the flag stays *)
Lemma path_add_bin p n p' :
  pinv2 p -> pbin p = true -> path_add p n = (0, p') ->
  n <= 255 /\ pbin p' = true /\ pelems p' = pelems p ++ [firstn (Z.to_nat n) (ppost p)] /\
  len (firstn (Z.to_nat n) (ppost p)) = n /\ (pelems p = [] -> pfirst p' = n).
Proof.
  intros I B E. pose proof (pbin_add _ _ _ _ E) as PB.
  destruct (path_add_spec p n 0 p' I E) as [[X _]|(_ & R & PE & _)]; [lia|].
  assert (L : len (firstn (Z.to_nat n) (ppost p)) = n).
  { unfold len. rewrite firstn_length. pose proof (len_ppost p) as LP. destruct I as [I _]. unfold pinv in I.
    unfold len in LP, I. lia. }
  unfold path_add in E. destruct (negb (pbuf p)); [discriminate|].
  destruct ((n <? 0) || (plen p <? n)); [discriminate|]. rewrite B in E.
  destruct (255 <? n) eqn:C; [discriminate|]. apply Z.ltb_ge in C.
  split; [exact C|]. split; [congruence|]. split; [exact PE|]. split; [exact L|].
  intros NE. inversion E. cbn [pfirst]. now rewrite NE.
Qed.
