(* C08/RoundFlatMain.v — C09: print then parse gives the tree back in the enclosed
   ("%x% = #") and the separated ("[ ] = #") style. *)
From Coq Require Import List ZArith Lia Bool.
From MptV Require Import C08.ParseModel C08.ParseBase C08.PrintModel C08.RoundLex C08.RoundPre
  C08.RoundTree C08.RoundFlat C08.RoundFlatTree.
Import ListNotations.
Local Open Scope Z_scope.

Lemma pok_not_end prev : pok prev -> prev <> PSectEnd.
Proof. intros [->|[->| ->]]; discriminate. Qed.

Lemma Forall_left {A} (P : A -> Prop) (Q : Prop) l : Forall (fun c => P c \/ Q) l -> ~ Q -> Forall P l.
Proof. intros H N. eapply Forall_impl; [|exact H]. intros c [X|X]; [exact X|now destruct N]. Qed.

(* ---------------------------------------------------------------- enclosed style *)
Section EncMain.
  Variable a : allow.

  Definition ehead (d : deco) (n : list Z) : list Z := lead d ++ [37] ++ n ++ name_end d.
  Definition ehead2 (d : deco) (n : list Z) : list Z := n ++ name_end d.
  Definition ewfopt (n : list Z) : Prop := wfo (aopt a) (araw a) n /\ hd 0 n <> 37.

  Theorem enc_roundtrip ds items :
    wf_items StEnc a items = true ->
    parse_tree StEnc a (print StEnc ds items) = (0, abs_items items).
  Proof.
    apply (flat_roundtrip a FamEnc fe ehead ehead2 (wfe (asect a)) ewfopt) with (pr := print_enc) (code := 120).
    - (* option *)
      intros d n v rest s E prev PV [WN N37] WV RD. cbn [next_elem].
      destruct (enc_option a d n v rest s E prev (pok_not_end _ PV) WN N37 WV RD) as (s' & E1 & Q). exists s'. auto.
    - (* open *)
      intros d n rest s prev PV WN RD. cbn [next_elem]. unfold ehead. rewrite <- !app_assoc.
      apply enc_open; auto using pok_not_end.
    - (* close *)
      intros d n rest s x prev PV RD. cbn [next_elem]. unfold ehead, ehead2. rewrite <- !app_assoc.
      apply (enc_close a d (n ++ name_end d ++ rest) s [] x prev); auto using pok_not_end.
    - (* reopen *)
      intros d n rest s WN RD. cbn [next_elem]. unfold ehead2. rewrite <- app_assoc. now apply enc_reopen.
    - intros final s prev PV. cbn [next_elem]. apply enc_eof. now apply pok_not_end.
    - intros n WN. apply (we_len _ _ WN).
    - intros n [WN _]. apply (wo_len _ _ _ WN).
    - reflexivity.
    - intros d n ks dc. cbn [print_enc]. unfold ehead. rewrite <- !app_assoc. reflexivity.
    - left; reflexivity.
    - split; reflexivity.
    - reflexivity.
    - intros n W. exact (wf_name_wfo StEnc (araw a) (aopt a) n (or_introl eq_refl) W).
    - intros n W. apply (wf_name_wfe StEnc (araw a)); [now left|exact W].
  Qed.

  Theorem enc_decoration_irrelevant d1 d2 items :
    wf_items StEnc a items = true ->
    parse_tree StEnc a (print StEnc d1 items) = parse_tree StEnc a (print StEnc d2 items).
  Proof. intros WF. now rewrite !enc_roundtrip. Qed.
End EncMain.

(* ---------------------------------------------------------------- separated style *)
Section SepMain.
  Variable a : allow.

  Definition shead (d : deco) (n : list Z) : list Z := lead d ++ [91] ++ hws (d_mid1 d) ++ n ++ hws (d_mid2 d) ++ [93].
  Definition shead2 (d : deco) (n : list Z) : list Z := hws (d_mid1 d) ++ n ++ hws (d_mid2 d) ++ [93].
  Definition swfopt (n : list Z) : Prop := wfo (aopt a) (araw a) n /\ hd 0 n <> 91.

  Lemma wfs_of n : wf_name StSep RSec (araw a) (asect a) n = true -> wfs a n.
  Proof.
    intros W. destruct (wf_name_inv _ _ _ _ _ W) as (CO & NE & HF & HL & NK & NL & _).
    constructor; auto. cbn [chars_ok] in CO. rewrite forallb_forall in CO.
    apply Forall_forall. intros c IN. specialize (CO c IN). apply snc_spec.
    unfold sname_char, byteb in CO. rewrite !andb_true_iff, !negb_true_iff, !Z.leb_le, !Z.eqb_neq in CO. lia.
  Qed.

  Theorem sep_roundtrip ds items :
    wf_items StSep a items = true ->
    parse_tree StSep a (print StSep ds items) = (0, abs_items items).
  Proof.
    apply (flat_roundtrip a FamSep fs shead shead2 (wfs a) swfopt) with (pr := print_sep) (code := 32).
    - intros d n v rest s E prev PV [WN N91] WV RD. cbn [next_elem].
      destruct (sep_option a d n v rest s E prev PV WN N91 WV RD) as (s' & E1 & Q). exists s'. auto.
    - intros d n rest s prev PV WN RD. cbn [next_elem]. unfold shead. rewrite <- !app_assoc.
      now apply sep_open.
    - intros d n rest s x prev PV RD. cbn [next_elem]. unfold shead, shead2. rewrite <- !app_assoc.
      apply (sep_close a d (hws (d_mid1 d) ++ n ++ hws (d_mid2 d) ++ [93] ++ rest) s [] x prev); auto.
    - intros d n rest s WN RD. cbn [next_elem]. unfold shead2. rewrite <- !app_assoc. now apply sep_reopen.
    - intros final s prev PV. cbn [next_elem]. now apply sep_eof.
    - intros n WN. apply (ws_len _ _ WN).
    - intros n [WN _]. apply (wo_len _ _ _ WN).
    - reflexivity.
    - intros d n ks dc. cbn [print_sep]. unfold shead. rewrite <- !app_assoc. reflexivity.
    - right; reflexivity.
    - split; reflexivity.
    - reflexivity.
    - intros n W. exact (wf_name_wfo StSep (araw a) (aopt a) n (or_intror (or_introl eq_refl)) W).
    - apply wfs_of.
  Qed.

  Theorem sep_decoration_irrelevant d1 d2 items :
    wf_items StSep a items = true ->
    parse_tree StSep a (print StSep d1 items) = parse_tree StSep a (print StSep d2 items).
  Proof. intros WF. now rewrite !sep_roundtrip. Qed.
End SepMain.

(* ---------------------------------------------------------------- enclosed family, distinct delimiters *)
(* "[x] = #": the code has no way to end a section there; option lists only *)
Definition fed : format := mkFmt 91 93 0 61 0 34 39 0 35 0 0 0.
Lemma dfmt_fed : dfmt fed. Proof. unfold dfmt, fed. cbn. repeat split. Qed.

Section EncDMain.
  Variable a : allow.

  Lemma encd_option d n v rest s E prev :
    wfo (aopt a) (araw a) n -> hd 0 n <> 91 -> wf_value v = true -> ready s E ->
    exists s',
      format_enc fed a prev (print_opt d n v ++ rest) s = ((match v with [] => 3 | _ => 7 end), rest, s') /\
      pelems (pth s') = E ++ [n] /\ pcurr s' = 11 /\ valid s' = len v /\
      (v <> [] -> post_read s' (len v) = Some v) /\ pbin (pth s') = false.
  Proof.
    intros WN N91 WV RD. unfold print_opt. rewrite <- !app_assoc.
    destruct n as [|n0 n']; [now destruct (wo_ne _ _ _ WN)|].
    pose proof (Forall_inv (wo_chars _ _ _ WN)) as H0. cbn beta in H0. apply onb_spec in H0 as H0'.
    pose proof (wo_first _ _ _ WN) as HS0. cbn [hd] in HS0.
    pose proof N91 as H91. cbn [hd] in H91.
    unfold format_enc. change (sstart fed =? send fed) with false. cbv iota.
    unfold nextvis. rewrite (nextvis_go_ext fed dfmt_fed). cbn [app].
    destruct (nv_lead d (n0 :: n' ++ hws (d_mid1 d) ++ 61 :: hws (d_mid2 d) ++ print_value d v ++
                         hws (d_trail d) ++ tail_comment d ++ 10 :: rest) s) as (s1 & (S1 & S2 & S3) & E1).
    rewrite E1. rewrite nv_vis; [|lia|tauto|lia]. zb.
    change (sstart fed) with 91. zb. cbn [negb].
    unfold enc_other. change (negb (ostart fed =? 0)) with false. cbv iota.
    assert (RD1 : ready (tick s1 n0) E).
    { destruct RD as (R1 & R2 & R3 & R4 & R5). unfold ready. autorewrite with pst. rewrite S1, S2. auto. }
    destruct (first_char_state (tick s1 n0) E n0 RD1) as [P2 V2]; [lia|].
    destruct (option_core fed dfmt_fed (aopt a) a d n0 n' v rest _ E _ eq_refl WN WV P2 V2) as (s' & E2 & Q).
    exists s'. split; [exact E2|exact Q].
  Qed.

  Lemma encd_eof final s prev :
    ready s [] -> exists s', format_enc fed a prev (lead final) s = (0, [], s').
  Proof.
    intros RD. unfold format_enc. change (sstart fed =? send fed) with false. cbv iota.
    unfold nextvis. rewrite (nextvis_go_ext fed dfmt_fed).
    destruct (nv_lead final [] s) as (s1 & (S1 & _) & E1). rewrite app_nil_r in E1. rewrite E1.
    cbn [nextvis_go]. zb. autorewrite with pst. rewrite S1. destruct RD as (R1 & _). rewrite R1.
    eexists. reflexivity.
  Qed.

  Definition dwfopt (n : list Z) : Prop := wfo (aopt a) (araw a) n /\ hd 0 n <> 91.

  Lemma encd_opts_only : forall dl,
    forallb (wf_item StEncD a O) (map strip dl) = true -> forallb is_opt (map strip dl) = true ->
    Forall (wf_dopt dwfopt) dl.
  Proof.
    induction dl as [|i dl IH]; intros W O1; [constructor|].
    cbn [map forallb] in W, O1. apply andb_true_iff in W, O1. destruct W as [W1 W2]. destruct O1 as [O1 O2].
    constructor; [|now apply IH].
    destruct i as [d n v|]; [|discriminate]. cbn [strip wf_item] in W1. apply andb_true_iff in W1. destruct W1 as [A B].
    split; [exact (wf_name_wfo StEncD (araw a) (aopt a) n (or_intror (or_intror eq_refl)) A)|exact B].
  Qed.

  Theorem encd_roundtrip ds items :
    wf_items StEncD a items = true ->
    parse_tree StEncD a (print StEncD ds items) = (0, abs_items items).
  Proof.
    intros WF. unfold wf_items in WF. apply andb_true_iff in WF. destruct WF as [WF OF].
    unfold print. pose proof (RoundMain.decorate_list_strip items ds) as ST.
    destruct (decorate_list ds items) as [dl r]. cbn [fst] in ST.
    set (final := fst (take_deco r)). unfold print_ditems.
    replace (map (print_ditem StEncD) dl) with (map print_enc dl) by (apply map_ext; reflexivity).
    set (text := concat (map print_enc dl) ++ lead final).
    rewrite <- ST in WF, OF. pose proof (encd_opts_only dl WF OF) as FA.
    assert (PS : pok PSection) by (left; reflexivity).
    destruct (flat_opts a FamEnc fed dwfopt) with (pr := print_enc) (ks := dl) (k := lead final) (s := pst_init)
      (prev := PSection) (b := builder_init) (E := @nil (list Z)) as (s1 & prev1 & b1 & E1 & R1 & O1 & P1 & L1);
      auto using RoundMain.ready_init, RoundMain.okb_init.
    { intros d n v rest s E prev PV [WN N91] WV RD. cbn [next_elem].
      destruct (encd_option d n v rest s E prev WN N91 WV RD) as (s' & X & Q). exists s'. auto. }
    { intros n [WN _]. apply (wo_len _ _ _ WN). }
    destruct (encd_eof final s1 prev1 R1) as (s2 & E2).
    assert (RN : floop (length dl + 1) FamEnc fed a PSection text pst_init builder_init = mkCres 0 [] s2 prev1 b1).
    { subst text. rewrite E1. unfold floop. cbn [config_loop next_elem]. rewrite E2. reflexivity. }
    unfold parse_tree, parse_node. change (parse_format (style_fmt StEncD)) with (fed, 120).
    cbv iota beta. change (next_fcn 120) with (Some FamEnc). cbv iota beta.
    set (run := fun n => config_loop node_append n FamEnc fed a PSection text pst_init builder_init).
    assert (RF : run (config_fuel text) = mkCres 0 [] s2 prev1 b1).
    { pose proof (ParseConfig.config_loop_ok builder node_append FamEnc fed a (config_fuel text) PSection text pst_init
                                 builder_init sinv_init (ParseConfig.config_fuel_enough text)) as [NF _].
      set (N := (length dl + 1)%nat) in *.
      pose proof (config_loop_mono builder node_append FamEnc fed a (config_fuel text) PSection text pst_init
                                   builder_init NF (Nat.max N (config_fuel text)) (Nat.le_max_r _ _)) as M1.
      assert (NF2 : c_ret (floop N FamEnc fed a PSection text pst_init builder_init) <> ROutOfFuel)
        by (rewrite RN; cbn; unfold ROutOfFuel; lia).
      pose proof (config_loop_mono builder node_append FamEnc fed a N PSection text pst_init
                                   builder_init NF2 (Nat.max N (config_fuel text)) (Nat.le_max_l _ _)) as M2.
      unfold run. rewrite <- M1. unfold floop in *. rewrite M2. exact RN. }
    unfold run in RF. rewrite RF. cbn [c_ret c_rest c_st c_h]. change (0 <? 0) with false. cbv iota. cbn [n_ret n_tree].
    f_equal.
    rewrite (close_all_lb' prev1 b1 O1), L1.
    change (lb PSection builder_init) with builder_init. unfold builder_init. rewrite fold_add_kid.
    cbn [close_all close_into fkids]. rewrite app_nil_r, rev_involutive, ST. apply RoundMain.norm_abs_items.
  Qed.
End EncDMain.
