(* C08/RoundFlat.v — C09, enclosed ("%x% = #") and separated ("[ ] = #") style:
   element calls on printed text.  Values are read by the same mpt_parse_data as in
   the prefix style (the formats agree on escape, comment and end characters); option
   names go through mpt_parse_option, section names through the two name loops. *)
From Coq Require Import List ZArith Lia Bool.
From MptV Require Import C08.ParseModel C08.ParseBase C08.ParseProofs C08.PrintModel C08.RoundLex C08.RoundPre.
Import ListNotations.
Local Open Scope Z_scope.

Definition fe : format := mkFmt 37 37 0 61 0 34 39 0 35 0 0 0.
Definition fs : format := mkFmt 91 93 0 61 0 34 39 0 35 0 0 0.
Lemma fe_is : fst (parse_format (style_fmt StEnc)) = fe. Proof. reflexivity. Qed.
Lemma fs_is : fst (parse_format (style_fmt StSep)) = fs. Proof. reflexivity. Qed.

(* formats that agree with the default on what mpt_parse_data / nextvis look at *)
Definition dfmt (f : format) : Prop :=
  ostart f = 0 /\ assign f = 61 /\ oend f = 0 /\ esc0 f = 34 /\ esc1 f = 39 /\ esc2 f = 0 /\
  com0 f = 35 /\ com1 f = 0 /\ com2 f = 0 /\ com3 f = 0.
Lemma dfmt_fe : dfmt fe. Proof. unfold dfmt, fe. cbn. repeat split. Qed.
Lemma dfmt_fs : dfmt fs. Proof. unfold dfmt, fs. cbn. repeat split. Qed.

Section Ext.
  Variable f : format.
  Hypothesis DF : dfmt f.

  Lemma iscomment_ext c : iscomment f c = iscomment fd c.
  Proof. destruct DF as (_ & _ & _ & _ & _ & _ & A & B & C & D). unfold iscomment. now rewrite A, B, C, D. Qed.
  Lemma isescape_ext c : isescape f c = isescape fd c.
  Proof. destruct DF as (_ & _ & _ & A & B & C & _). unfold isescape. now rewrite A, B, C. Qed.
  Lemma oend_ext : oend f = oend fd. Proof. destruct DF as (_ & _ & A & _). exact A. Qed.

  Lemma nextvis_go_ext l : forall b s, nextvis_go f b l s = nextvis_go fd b l s.
  Proof.
    induction l as [|c l IH]; intros b s; [reflexivity|]. cbn [nextvis_go]. rewrite iscomment_ext, !IH. reflexivity.
  Qed.

  Lemma data_body_ext c s m la : data_body f c s m la = data_body fd c s m la.
  Proof. unfold data_body. now rewrite isescape_ext, iscomment_ext, oend_ext. Qed.

  Lemma data_loop_ext l : forall s m la, data_loop f l s m la = data_loop fd l s m la.
  Proof.
    induction l as [|c l IH]; intros s m la; [reflexivity|]. cbn [data_loop]. rewrite data_body_ext.
    destruct (c <? 0); [reflexivity|]. destruct (data_body fd c _ m la); [apply IH|reflexivity|reflexivity].
  Qed.

  Lemma parse_data_ext l s : parse_data f l s = parse_data fd l s.
  Proof. unfold parse_data. now rewrite data_loop_ext, oend_ext. Qed.

  (* ---------------------------------------------------------------- option names *)
  (* characters of a name without white space *)
  Definition onc (c : Z) : bool :=
    (0 <? c) && (c <? 256) && negb (isspace c) && negb (c =? 61) && negb (c =? 35) && negb (c =? 46).
  Lemma onc_spec c : onc c = true <-> (0 < c < 256 /\ isspace c = false /\ c <> 61 /\ c <> 35 /\ c <> 46).
  Proof. unfold onc. rewrite !andb_true_iff, !negb_true_iff, !Z.ltb_lt, !Z.eqb_neq. tauto. Qed.

  Variable take : Z.

  Lemma option_step_name c a0 l s :
    onc c = true -> 0 < a0 ->
    option_loop f take c (a0 :: l) s = option_loop f take a0 l (addch (tick (set_valid s) a0) a0).
  Proof.
    intros Hc P. apply onc_spec in Hc. destruct Hc as (B & SP & N1 & N2 & _).
    rewrite option_loop_eq. unfold option_body. rewrite SP.
    destruct DF as (_ & A & O & _). rewrite A, O, iscomment_ext, iscomment_fd. zb. reflexivity.
  Qed.
  Lemma option_step_blank c a0 l s :
    hspace c = true -> 0 < a0 ->
    option_loop f take c (a0 :: l) s = option_loop f take a0 l (addch (tick s a0) a0).
  Proof.
    intros Hc P. apply hspace_spec in Hc as Hc'. assert (SP : isspace c = true) by (apply isspace_spec; lia).
    rewrite option_loop_eq. unfold option_body. rewrite SP.
    destruct DF as (_ & A & O & _). rewrite A. zb. reflexivity.
  Qed.
  Lemma option_step_assign l s :
    option_loop f take 61 l s = option_assign f take MissingBuffer l s.
  Proof.
    rewrite option_loop_eq. unfold option_body. change (isspace 61) with false.
    destruct DF as (_ & A & _). rewrite A. reflexivity.
  Qed.

  (* name characters: appended, each one moves the valid length *)
  Lemma opt_scan : forall w c s d l E R F,
    Forall (fun x => onc x = true) (c :: w) -> 0 < d < 256 ->
    pth s = mkPath E (c :: R) (len (c :: R)) F true true -> len (c :: R) + len w < VALID_MOD ->
    exists s', option_loop f take c (w ++ d :: l) s = option_loop f take d l s' /\
               pth s' = mkPath E (d :: rev w ++ c :: R) (len (d :: rev w ++ c :: R)) F true true /\
               valid s' = len (rev w ++ c :: R) /\ pcurr s' = pcurr s.
  Proof.
    induction w as [|x w IH]; intros c s d l E R F FA PD HP HL.
    - inversion FA as [|? ? Hc _]; subst. cbn [app]. rewrite option_step_name by (assumption || lia).
      rewrite len_nil in HL. pose proof (len_nonneg R). rewrite len_cons in HL.
      destruct (set_valid_path s E c R _ F true HP) as [P1 V1]; [rewrite len_cons; lia|].
      eexists. split; [reflexivity|]. cbn [rev app].
      split; [rewrite pth_addch, pth_tick, P1; now rewrite addchar_keep by lia|].
      split; [now rewrite valid_addch, valid_tick|now autorewrite with pst].
    - inversion FA as [|? ? Hc FA']; subst. inversion FA' as [|? ? Hx _]; subst. apply onc_spec in Hx as Hx'.
      cbn [app]. rewrite option_step_name by (assumption || lia).
      rewrite !len_cons in HL. pose proof (len_nonneg R). pose proof (len_nonneg w).
      destruct (set_valid_path s E c R _ F true HP) as [P1 V1]; [rewrite len_cons; lia|].
      destruct (IH x (addch (tick (set_valid s) x) x) d l E (c :: R) F FA' PD) as (s' & E1 & P2 & V2 & C2).
      + rewrite pth_addch, pth_tick, P1. apply addchar_keep. lia.
      + rewrite !len_cons. lia.
      + exists s'. split; [exact E1|]. cbn [rev]. rewrite <- !app_assoc. cbn [app].
        split; [exact P2|]. split; [exact V2|]. rewrite C2. now autorewrite with pst.
  Qed.

  Lemma opt_scan_blanks : forall w c s d l E R F,
    Forall (fun x => hspace x = true) (c :: w) -> 0 < d < 256 ->
    pth s = mkPath E (c :: R) (len (c :: R)) F true true ->
    exists s', option_loop f take c (w ++ d :: l) s = option_loop f take d l s' /\
               pth s' = mkPath E (d :: rev w ++ c :: R) (len (d :: rev w ++ c :: R)) F true true /\
               valid s' = valid s /\ pcurr s' = pcurr s.
  Proof.
    induction w as [|x w IH]; intros c s d l E R F FA PD HP.
    - inversion FA as [|? ? Hc _]; subst. cbn [app]. rewrite option_step_blank by (assumption || lia).
      eexists. split; [reflexivity|]. cbn [rev app].
      split; [rewrite pth_addch, pth_tick, HP; now rewrite addchar_keep by lia|].
      split; now autorewrite with pst.
    - inversion FA as [|? ? Hc FA']; subst. inversion FA' as [|? ? Hx _]; subst. apply hspace_spec in Hx as Hx'.
      cbn [app]. rewrite option_step_blank by (assumption || lia).
      destruct (IH x (addch (tick s x) x) d l E (c :: R) F FA' PD) as (s' & E1 & P2 & V2 & C2).
      + rewrite pth_addch, pth_tick, HP. apply addchar_keep. lia.
      + exists s'. split; [exact E1|]. cbn [rev]. rewrite <- !app_assoc. cbn [app].
        split; [exact P2|]. autorewrite with pst in V2, C2. auto.
  Qed.
End Ext.
